import OW.Props.C01
import OW.Proofs.NdC01Bulk
/-!
C01, continued — the bulk writes are visible through every overlapping view, and histories that interleave
`Set | Apply | ApplySlice | CopyFrom`.

`OW/Props/C01.lean` states WHICH storage cells each write changes (`set_footprint`, `apply_footprint`,
`applySlice_footprint`, `copyFrom_footprint`) and composes that into what every view reads for `Set` only (`write_visible*`,
`interleaved_writes_visible_partial`). Here the same composition is made for the three bulk writes
(`apply_visible`, `applySlice_visible`, `copyFrom_visible`: footprint + `get_reads_cell`), for one request of any kind
(`op_visible`), and for every history of requests of the four kinds (`interleaved_bulk_writes_visible`), which generalises
`interleaved_writes_visible_partial`. The rank-1 accessors `Set1` / `Apply1` get their footprints (`set1_footprint`,
`apply1_footprint`).

Hypotheses are those of the footprint theorems: views reachable from roots (`Reach`), window conditions (`ArrOK`), in-bounds
requests, steps ≥ 1, and — for the two-array writes — source and destination in DIFFERENT storages (`hdisj`, stated in each
theorem; the overlapping case is excluded, see `applySlice_footprint`). Vocabulary: `OW/Proofs/NdC01Bulk.lean`
(`WOp`, `runOps`, `WOp.OK`, `WOp.targets`, `WOp.hit`, `stepRead`, `readBackOps`, `RdOK`).
-/
namespace OW.Props.C01Bulk
open OW.Nd OW.Props.C01
open OW.NdC02 (rowMajor)

/-! ### one bulk write, read through any view -/

/-- **apply_visible.** After `Apply(loc, d, step, vals)` through view `a` (hypotheses of `apply_footprint`: in-bounds run,
`step ≥ 1`, `vals` non-empty), `Get(j)` through ANY reachable array `b` satisfying the window conditions (any chain of
slices, any window, any storage, either back-end) at an in-bounds `j` — nothing panics, the heap keeps its shape, and
* if `b` is on the storage of `a` and `j` addresses the cell of the `k`-th element of the run
  (`b.base + Index_b(j) = a.base + Index_a(loc + k·step·e_d)`), the read returns `vals[k]`;
* if `j` addresses none of the run's cells (other storage, or an address different from all `len(vals)` of them), the read
  returns what it returned before the call.
Derived from `apply_footprint` and `get_reads_cell` (in its address form `get_addr`), window conditions carried over by
`SameShape`. -/
theorem apply_visible {α : Type} {h : Heap α} {a b : Arr} (hr : Reach a.v) (hok : ArrOK h a) (hb : Reach b.v)
    (okb : ArrOK h b) {loc j : Idx} {d : Nat} {step : Int} {vals : List α} {D l : Int}
    (hloc : InBounds loc a.v.dims) (hD : a.v.dims[d]? = some D) (hl : loc[d]? = some l) (hne : vals ≠ [])
    (hstep : 1 ≤ step) (hlast : l + ((vals.length : Int) - 1) * step < D) (hj : InBounds j b.v.dims) :
    ∃ h' pb, apply h a loc (d : Int) step vals = .ok h' ∧ SameShape h h' ∧ b.v.index j = .ok pb ∧
      (∀ (k : Nat) (hk : k < vals.length) (pa : Int), a.v.index (loc.set d (l + k * step)) = .ok pa →
        b.sid = a.sid → b.base + pb = a.base + pa → get h' b j = .ok vals[k]) ∧
      ((b.sid ≠ a.sid ∨ ∀ k : Nat, k < vals.length → ∀ pa : Int, a.v.index (loc.set d (l + k * step)) = .ok pa →
        b.base + pb ≠ a.base + pa) → get h' b j = get h b j) := by
  have g := reach_geo hr
  have gb := reach_geo hb
  obtain ⟨h', he, hsh, hin, hout⟩ := apply_footprint hr hok hloc hD hl hne hstep hlast
  have hidx : ∀ k : Nat, k < vals.length →
      a.v.index (loc.set d (l + k * step)) = .ok (addr a.v (loc.set d (l + k * step))) :=
    fun k hk => index_addr g _ (by rw [(hin k hk).1.length])
  obtain ⟨hitG, missG⟩ := visible_of_footprint (ι := Nat) hok gb okb hsh hj
    (fun k x => vals[k]? = some x) (fun k => addr a.v (loc.set d (l + k * step)))
    (fun k x hw => by
      obtain ⟨hk, rfl⟩ := List.getElem?_eq_some_iff.mp hw
      obtain ⟨hib, p, hp, hc⟩ := hin k hk
      rw [hidx k hk] at hp
      injection hp with hp
      subst hp
      exact ⟨(addr_bounds g hib).1, hc⟩)
    (fun t q hne' => hout t q (hne'.imp id (fun h2 k hk p hp => by
      rw [hidx k hk] at hp
      injection hp with hp
      subst hp
      exact h2 k vals[k] (List.getElem?_eq_getElem hk))))
  refine ⟨h', addr b.v j, he, hsh, index_addr gb j (by rw [hj.length]), fun k hk pa hpa hsid e => ?_, fun hm => ?_⟩
  · rw [hidx k hk] at hpa
    injection hpa with hpa
    subst hpa
    exact hitG k vals[k] (List.getElem?_eq_getElem hk) hsid e
  · apply missG
    refine hm.imp id (fun h2 k x hw => ?_)
    obtain ⟨hk, rfl⟩ := List.getElem?_eq_some_iff.mp hw
    exact h2 k hk _ (hidx k hk)

/-- **applySlice_visible.** After `ApplySlice(loc, step, src)` through view `a` (hypotheses of `applySlice_footprint`:
in-bounds request, and **source and destination in different storages, `hdisj : src.sid ≠ a.sid` — the overlapping case is
excluded**), `Get(j)` through ANY reachable array `b` satisfying the window conditions at an in-bounds `j`:
* if `b` is on the storage of `a` and `j` addresses the destination cell of source element `i`
  (`b.base + Index_b(j) = a.base + Index_a(loc + i ⊙ step)`), the read returns what `src` read at `i` before the call;
* if `j` addresses no destination cell (other storage — in particular every view of the source's storage — or a different
  address), the read returns what it returned before the call. -/
theorem applySlice_visible {α : Type} {h : Heap α} {a src b : Arr} (hr : Reach a.v) (hok : ArrOK h a)
    (hrs : Reach src.v) (hoks : ArrOK h src) (hdisj : src.sid ≠ a.sid) (hb : Reach b.v) (okb : ArrOK h b)
    {loc j : Idx} {step : Option Idx}
    (okS : SliceOK a.v.dims loc src.v.dims (stepOr a.v.dims.length step)) (hj : InBounds j b.v.dims) :
    ∃ h' pb, applySlice h a loc step src = .ok h' ∧ SameShape h h' ∧ b.v.index j = .ok pb ∧
      (∀ i, InBounds i src.v.dims → ∀ pa : Int, a.v.index (affine loc i (stepOr a.v.dims.length step)) = .ok pa →
        b.sid = a.sid → b.base + pb = a.base + pa → get h' b j = get h src i) ∧
      ((b.sid ≠ a.sid ∨ ∀ i, InBounds i src.v.dims →
          ∀ pa : Int, a.v.index (affine loc i (stepOr a.v.dims.length step)) = .ok pa → b.base + pb ≠ a.base + pa) →
        get h' b j = get h b j) := by
  have g := reach_geo hr
  have gb := reach_geo hb
  have gs := reach_geo hrs
  obtain ⟨h', he, hsh, hin, hout⟩ := applySlice_footprint hr hok hrs hoks hdisj okS
  have hidx : ∀ i, InBounds i src.v.dims → a.v.index (affine loc i (stepOr a.v.dims.length step)) =
      .ok (addr a.v (affine loc i (stepOr a.v.dims.length step))) :=
    fun i hi => index_addr g _ (by rw [(okS.inBounds hi).length])
  obtain ⟨hitG, missG⟩ := visible_of_footprint (ι := Idx) hok gb okb hsh hj
    (fun i x => InBounds i src.v.dims ∧ get h src i = .ok x)
    (fun i => addr a.v (affine loc i (stepOr a.v.dims.length step)))
    (fun i x hw => by
      obtain ⟨p, x', hp, hx, hc⟩ := hin i hw.1
      rw [hidx i hw.1] at hp
      injection hp with hp
      subst hp
      rw [hw.2] at hx
      injection hx with hx
      subst hx
      exact ⟨(addr_bounds g (okS.inBounds hw.1)).1, hc⟩)
    (fun t q hne' => hout t q (hne'.imp id (fun h2 i hi p hp => by
      rw [hidx i hi] at hp
      injection hp with hp
      subst hp
      obtain ⟨x, _, gx⟩ := get_addr gs hoks hi
      exact h2 i x ⟨hi, gx⟩)))
  refine ⟨h', addr b.v j, he, hsh, index_addr gb j (by rw [hj.length]), fun i hi pa hpa hsid e => ?_, fun hm => ?_⟩
  · rw [hidx i hi] at hpa
    injection hpa with hpa
    subst hpa
    obtain ⟨x, _, gx⟩ := get_addr gs hoks hi
    rw [gx]
    exact hitG i x ⟨hi, gx⟩ hsid e
  · apply missG
    exact hm.imp id (fun h2 i x hw => h2 i hw.1 _ (hidx i hw.1))

/-- **copyFrom_visible.** After `CopyFrom(src)` through view `a` (hypotheses of `copyFrom_footprint`: same extents, and
**source and destination in different storages, `hdisj : src.sid ≠ a.sid`**), `Get(j)` through ANY reachable array `b`
satisfying the window conditions at an in-bounds `j`: if `b` is on the storage of `a` and `j` addresses the cell of
element `i` of `a`, the read returns what `src` read at `i` before the call; if `j` addresses no cell of `a`, the read
returns what it returned before. -/
theorem copyFrom_visible {α : Type} {h : Heap α} {a src b : Arr} (hr : Reach a.v) (hok : ArrOK h a)
    (hrs : Reach src.v) (hoks : ArrOK h src) (hdisj : src.sid ≠ a.sid) (hshape : src.v.dims = a.v.dims)
    (hb : Reach b.v) (okb : ArrOK h b) {j : Idx} (hj : InBounds j b.v.dims) :
    ∃ h' pb, copyFrom h a src = .ok h' ∧ SameShape h h' ∧ b.v.index j = .ok pb ∧
      (∀ i, InBounds i a.v.dims → ∀ pa : Int, a.v.index i = .ok pa →
        b.sid = a.sid → b.base + pb = a.base + pa → get h' b j = get h src i) ∧
      ((b.sid ≠ a.sid ∨ ∀ i, InBounds i a.v.dims → ∀ pa : Int, a.v.index i = .ok pa → b.base + pb ≠ a.base + pa) →
        get h' b j = get h b j) := by
  have g := reach_geo hr
  have gb := reach_geo hb
  have gs := reach_geo hrs
  obtain ⟨h', he, hsh, hin, hout⟩ := copyFrom_footprint hr hok hrs hoks hdisj hshape
  have hidx : ∀ i, InBounds i a.v.dims → a.v.index i = .ok (addr a.v i) :=
    fun i hi => index_addr g _ (by rw [hi.length])
  obtain ⟨hitG, missG⟩ := visible_of_footprint (ι := Idx) hok gb okb hsh hj
    (fun i x => InBounds i a.v.dims ∧ get h src i = .ok x) (fun i => addr a.v i)
    (fun i x hw => by
      obtain ⟨p, x', hp, hx, hc⟩ := hin i hw.1
      rw [hidx i hw.1] at hp
      injection hp with hp
      subst hp
      rw [hw.2] at hx
      injection hx with hx
      subst hx
      exact ⟨(addr_bounds g hw.1).1, hc⟩)
    (fun t q hne' => hout t q (hne'.imp id (fun h2 i hi p hp => by
      rw [hidx i hi] at hp
      injection hp with hp
      subst hp
      obtain ⟨x, _, gx⟩ := get_addr gs hoks (by rw [hshape]; exact hi)
      exact h2 i x ⟨hi, gx⟩)))
  refine ⟨h', addr b.v j, he, hsh, index_addr gb j (by rw [hj.length]), fun i hi pa hpa hsid e => ?_, fun hm => ?_⟩
  · rw [hidx i hi] at hpa
    injection hpa with hpa
    subst hpa
    obtain ⟨x, _, gx⟩ := get_addr gs hoks (by rw [hshape]; exact hi)
    rw [gx]
    exact hitG i x ⟨hi, gx⟩ hsid e
  · apply missG
    exact hm.imp id (fun h2 i x hw => h2 i hw.1 _ (hidx i hw.1))

/-! ### one request of any kind, and histories -/

/-- **op_visible.** One write request of any of the four kinds (`WOp`: `Set | Apply | ApplySlice | CopyFrom`) under the
hypotheses of its footprint theorem (`WOp.OK`; for the two-array requests this includes source and destination in
different storages): the model's operation does not panic, the heap keeps its shape, and EVERY valid read afterwards
(`RdOK`: reachable array, window conditions, in-bounds index — any view of any storage) returns `stepRead op (get h)`:
what the request wrote into the addressed cell (`WOp.hit`: a given value, or what the source read before), else the old
value. -/
theorem op_visible {α : Type} {h : Heap α} {op : WOp α} (ok : op.OK h) :
    ∃ h', runOp h op = .ok h' ∧ SameShape h h' ∧
      ∀ (b : Arr) (j : Idx), RdOK h b j → get h' b j = stepRead op (get h) b j := by
  cases op with
  | set a loc x =>
    obtain ⟨ra, oka, hloc⟩ := ok
    have ga := reach_geo ra
    refine ⟨_, set_addr ga oka hloc x, sameShape_setStore _ _ _ _, fun b j rd => ?_⟩
    obtain ⟨rb, okb, hj⟩ := rd
    rw [get_after_set ga (reach_geo rb) oka okb hloc hj x]
    apply stepRead_eq
    · intro t ht hsid e
      simp only [WOp.targets, List.mem_singleton] at ht
      subst ht
      rw [if_pos (show sameCell ⟨a, loc, x⟩ b j from ⟨hsid, e⟩)]
      rfl
    · intro hm
      rw [if_neg]
      rintro ⟨c1, c2⟩
      rcases hm with h1 | h2
      · exact h1 c1
      · exact h2 (loc, .const x) (by simp [WOp.targets]) c2
  | apply a loc d step vals =>
    obtain ⟨ra, oka, hloc, hcase⟩ := ok
    rcases hcase with ⟨rfl, hd⟩ | ⟨D, l, hD, hl, hne, hstep, hlast⟩
    · refine ⟨h, apply_empty ra oka step hloc hd, SameShape.refl h, fun b j _ => ?_⟩
      apply stepRead_eq
      · intro t ht
        simp [WOp.targets, runPairs] at ht
      · intro _
        rfl
    have ga := reach_geo ra
    obtain ⟨h', he, hsh, hin, _⟩ := apply_footprint ra oka hloc hD hl hne hstep hlast
    refine ⟨h', he, hsh, fun b j rd => ?_⟩
    obtain ⟨rb, okb, hj⟩ := rd
    obtain ⟨h'', pb, he', _, hpb, hitV, missV⟩ := apply_visible ra oka rb okb hloc hD hl hne hstep hlast hj
    rw [he] at he'
    injection he' with he'
    subst he'
    rw [index_addr (reach_geo rb) j (by rw [hj.length])] at hpb
    injection hpb with hpb
    subst hpb
    have hidx : ∀ k : Nat, k < vals.length →
        a.v.index (loc.set d (l + k * step)) = .ok (addr a.v (loc.set d (l + k * step))) :=
      fun k hk => index_addr ga _ (by rw [(hin k hk).1.length])
    apply stepRead_eq
    · intro t ht hsid e
      simp only [WOp.targets, hl, Option.getD_some, List.mem_map] at ht
      obtain ⟨w, hw, rfl⟩ := ht
      obtain ⟨k, hk, rfl⟩ := (mem_runPairs loc d l step vals 0 w).mp hw
      simp only [runLoc, Int.zero_add] at e
      exact hitV k hk _ (hidx k hk) hsid e
    · intro hm
      apply missV
      refine hm.imp id (fun h2 k hk pa hpa => ?_)
      rw [hidx k hk] at hpa
      injection hpa with hpa
      subst hpa
      have hm' : (runLoc loc d l step (0 + (k : Int)), Src.const vals[k]) ∈ (WOp.apply a loc d step vals).targets := by
        simp only [WOp.targets, hl, Option.getD_some, List.mem_map]
        exact ⟨_, (mem_runPairs loc d l step vals 0 _).mpr ⟨k, hk, rfl⟩, rfl⟩
      have h3 := h2 _ hm'
      simp only [runLoc, Int.zero_add] at h3
      exact h3
  | applySlice a loc step src =>
    obtain ⟨ra, oka, rs, oks, hdisj, okS⟩ := ok
    have ga := reach_geo ra
    have gs := reach_geo rs
    obtain ⟨h', he, hsh, _, _⟩ := applySlice_footprint ra oka rs oks hdisj okS
    refine ⟨h', he, hsh, fun b j rd => ?_⟩
    obtain ⟨rb, okb, hj⟩ := rd
    obtain ⟨h'', pb, he', _, hpb, hitV, missV⟩ := applySlice_visible ra oka rs oks hdisj rb okb okS hj
    rw [he] at he'
    injection he' with he'
    subst he'
    rw [index_addr (reach_geo rb) j (by rw [hj.length])] at hpb
    injection hpb with hpb
    subst hpb
    have hidx : ∀ i, InBounds i src.v.dims → a.v.index (affine loc i (stepOr a.v.dims.length step)) =
        .ok (addr a.v (affine loc i (stepOr a.v.dims.length step))) :=
      fun i hi => index_addr ga _ (by rw [(okS.inBounds hi).length])
    apply stepRead_eq
    · intro t ht hsid e
      simp only [WOp.targets, List.mem_map] at ht
      obtain ⟨i, hi, rfl⟩ := ht
      have hib := OW.NdC02.rowMajor_inBounds gs.pos_dims _ hi
      exact hitV i hib _ (hidx i hib) hsid e
    · intro hm
      apply missV
      refine hm.imp id (fun h2 i hi pa hpa => ?_)
      rw [hidx i hi] at hpa
      injection hpa with hpa
      subst hpa
      exact h2 (affine loc i (stepOr a.v.dims.length step), .elem src i) (by
        simp only [WOp.targets, List.mem_map]
        exact ⟨i, List.mem_of_getElem? (rowMajor_getElem?_ravel gs.dims_ne hi), rfl⟩)
  | copyFrom a src =>
    obtain ⟨ra, oka, rs, oks, hdisj, hshape⟩ := ok
    have ga := reach_geo ra
    obtain ⟨h', he, hsh, _, _⟩ := copyFrom_footprint ra oka rs oks hdisj hshape
    refine ⟨h', he, hsh, fun b j rd => ?_⟩
    obtain ⟨rb, okb, hj⟩ := rd
    obtain ⟨h'', pb, he', _, hpb, hitV, missV⟩ := copyFrom_visible ra oka rs oks hdisj hshape rb okb hj
    rw [he] at he'
    injection he' with he'
    subst he'
    rw [index_addr (reach_geo rb) j (by rw [hj.length])] at hpb
    injection hpb with hpb
    subst hpb
    have hidx : ∀ i, InBounds i a.v.dims → a.v.index i = .ok (addr a.v i) :=
      fun i hi => index_addr ga _ (by rw [hi.length])
    apply stepRead_eq
    · intro t ht hsid e
      simp only [WOp.targets, List.mem_map] at ht
      obtain ⟨i, hi, rfl⟩ := ht
      have hib := OW.NdC02.rowMajor_inBounds ga.pos_dims _ hi
      exact hitV i hib _ (hidx i hib) hsid e
    · intro hm
      apply missV
      refine hm.imp id (fun h2 i hi pa hpa => ?_)
      rw [hidx i hi] at hpa
      injection hpa with hpa
      subst hpa
      exact h2 (i, .elem src i) (by
        simp only [WOp.targets, List.mem_map]
        exact ⟨i, List.mem_of_getElem? (rowMajor_getElem?_ravel ga.dims_ne hi), rfl⟩)

/-- **interleaved_bulk_writes_visible.** All interleavings of reads and writes of the four kinds through any views: after
ANY history `ops` of `Set | Apply | ApplySlice | CopyFrom` requests, each through its own reachable array (any chain of
slices, any storage, either back-end) and each satisfying the hypotheses of its footprint theorem in the initial heap
(`WOp.OK h`; they depend on the heap only through its shape, which no request changes) — nothing has panicked, the heap has
kept its shape, and a `Get` through ANY reachable array `b` at an in-bounds `j` returns `readBackOps ops (get h) b j`:
the value written by the LAST request of the history that addressed that storage cell (same storage and
`b.base + Index_b(j) = a.base + Index_a(target)`, `WOp.hit`) — for `Set` / `Apply` the given value, for `ApplySlice` /
`CopyFrom` what the source element read at that moment, which is given by the same rule applied to the earlier part of the
history — or, if no request addressed the cell, what the read returned before the history. Reads do not change the heap,
so this covers reads placed after every prefix of the writes. Generalises `interleaved_writes_visible_partial` (histories of
`Set` only). The restriction inherited from `applySlice_footprint` / `copyFrom_footprint`: each two-array request has its
source and its destination in different storages. -/
theorem interleaved_bulk_writes_visible {α : Type} : ∀ (ops : List (WOp α)) (h : Heap α), (∀ op ∈ ops, op.OK h) →
    ∃ h', runOps h ops = .ok h' ∧ SameShape h h' ∧
      ∀ (b : Arr) (j : Idx), Reach b.v → ArrOK h b → InBounds j b.v.dims →
        get h' b j = readBackOps ops (get h) b j
  | [], h, _ => ⟨h, rfl, SameShape.refl h, fun _ _ _ _ _ => rfl⟩
  | op :: rest, h, hops => by
    obtain ⟨h1, e1, s1, v1⟩ := op_visible (hops op List.mem_cons_self)
    have hrest : ∀ o ∈ rest, o.OK h := fun o ho => hops o (List.mem_cons_of_mem _ ho)
    obtain ⟨h', e2, s2, v2⟩ := interleaved_bulk_writes_visible rest h1 (fun o ho => (hrest o ho).sameShape s1)
    refine ⟨h', ?_, s1.trans s2, fun b j rb okb hj => ?_⟩
    · simp only [runOps, e1, bind, Except.bind]
      exact e2
    · rw [v2 b j rb (okb.sameShape s1) hj, readBackOps_cons]
      exact readBackOps_congr rest hrest v1 b j ⟨rb, okb, hj⟩

/-- **sets_history_is_bulk_history.** A history of `Set`s only (the `WriteOp` lists of `interleaved_writes_visible_partial`)
is a `WOp` history: `runOps` on it is `setMany` and `readBackOps` on it is `readBack` — so
`interleaved_bulk_writes_visible` restricted to such histories is exactly `interleaved_writes_visible_partial`. -/
theorem sets_history_is_bulk_history {α : Type} (ws : List (WriteOp α)) (h : Heap α) :
    runOps h (ws.map WriteOp.toWOp) = setMany h ws ∧
      (∀ op ∈ ws.map WriteOp.toWOp, op.OK h) =
        (∀ w ∈ ws, Reach w.arr.v ∧ ArrOK h w.arr ∧ InBounds w.loc w.arr.v.dims) ∧
      ∀ (rd : Arr → Idx → R α) (b : Arr) (j : Idx),
        readBackOps (ws.map WriteOp.toWOp) rd b j = readBack ws b j (rd b j) := by
  refine ⟨runOps_sets ws h, ?_, fun rd b j => readBackOps_sets ws b j rd⟩
  simp only [List.mem_map, forall_exists_index, and_imp, forall_apply_eq_imp_iff₂]
  rfl

/-! ### the rank-1 accessors -/

/-- **set1_footprint.** `Set1(loc, x)` on a reachable 1-D view (`dims = [D]`, `0 ≤ loc < D`) satisfying the window
conditions never panics; afterwards the storage `a.sid` equals the old one updated at position `base + Index([loc])` with
`x`, every other storage is unchanged, the number of storages is unchanged (`Set1` is `Set([loc], x)`). -/
theorem set1_footprint {α : Type} {h : Heap α} {a : Arr} (hr : Reach a.v) (hok : ArrOK h a) {loc : Int}
    (hloc : InBounds [loc] a.v.dims) (x : α) :
    ∃ p s h', a.v.index [loc] = .ok p ∧ 0 ≤ p ∧ h[a.sid]? = some s ∧ (a.base + p).toNat < s.length ∧
      set1 h a loc x = .ok h' ∧
      h'[a.sid]? = some (s.set (a.base + p).toNat x) ∧ (∀ t : Nat, t ≠ a.sid → h'[t]? = h[t]?) ∧
      h'.length = h.length :=
  set_footprint hr hok hloc x

/-- **apply1_eq_apply.** On a reachable 1-D view, for an in-bounds run with `step ≥ 1`, `Apply1(loc, step, vals)` (the
element loop of `Set1`) gives the same heap as `Apply([loc], 0, step, vals)` — on whichever path `Apply` takes. -/
theorem apply1_eq_apply {α : Type} {h : Heap α} {a : Arr} (hr : Reach a.v) (hok : ArrOK h a) {loc step D : Int}
    {vals : List α} (hdims : a.v.dims = [D]) (h0 : 0 ≤ loc) (hne : vals ≠ []) (hstep : 1 ≤ step)
    (hlast : loc + ((vals.length : Int) - 1) * step < D) :
    apply1 h a loc step vals = apply h a [loc] ((0 : Nat) : Int) step vals := by
  have hD : a.v.dims[0]? = some D := by rw [hdims]; rfl
  have hloc : InBounds [loc] a.v.dims := by
    rw [hdims]
    have : 0 ≤ ((vals.length : Int) - 1) * step :=
      Int.mul_nonneg (by cases vals with | nil => exact absurd rfl hne | cons _ _ => simp) (by omega)
    exact ⟨h0, by omega, trivial⟩
  rw [apply1_eq_setSeq, (apply_paths_agree hr hok hloc hD rfl hne hstep hlast).1]

/-- **apply1_footprint.** `Apply1(loc, step, vals)` on a reachable 1-D view (`dims = [D]`) satisfying the window
conditions, for an in-bounds run (`0 ≤ loc`, `step ≥ 1`, `vals` non-empty, `loc + (len-1)·step < D`): never panics, the
heap keeps its shape, for every `k < len(vals)` the storage cell addressed by `[loc + k·step]` holds `vals[k]` afterwards,
and every other cell of every storage is unchanged. -/
theorem apply1_footprint {α : Type} {h : Heap α} {a : Arr} (hr : Reach a.v) (hok : ArrOK h a) {loc step D : Int}
    {vals : List α} (hdims : a.v.dims = [D]) (h0 : 0 ≤ loc) (hne : vals ≠ []) (hstep : 1 ≤ step)
    (hlast : loc + ((vals.length : Int) - 1) * step < D) :
    ∃ h', apply1 h a loc step vals = .ok h' ∧ SameShape h h' ∧
      (∀ (k : Nat) (hk : k < vals.length), InBounds [loc + k * step] a.v.dims ∧
        ∃ p, a.v.index [loc + k * step] = .ok p ∧ cell h' a.sid (a.base + p).toNat = some vals[k]) ∧
      (∀ t q : Nat, (t ≠ a.sid ∨ ∀ k : Nat, k < vals.length →
          ∀ p, a.v.index [loc + k * step] = .ok p → q ≠ (a.base + p).toNat) →
        cell h' t q = cell h t q) := by
  have hD : a.v.dims[0]? = some D := by rw [hdims]; rfl
  have hloc : InBounds [loc] a.v.dims := by
    rw [hdims]
    have : 0 ≤ ((vals.length : Int) - 1) * step :=
      Int.mul_nonneg (by cases vals with | nil => exact absurd rfl hne | cons _ _ => simp) (by omega)
    exact ⟨h0, by omega, trivial⟩
  obtain ⟨h', he, hsh, hin, hout⟩ := apply_footprint (d := 0) (l := loc) hr hok hloc hD rfl hne hstep hlast
  rw [← apply1_eq_apply hr hok hdims h0 hne hstep hlast] at he
  exact ⟨h', he, hsh, fun k hk => by simpa using hin k hk, fun t q hne' => hout t q (by simpa using hne')⟩

/-- **rank1_requests_are_requests.** The rank-1 accessors inside a history: `Set1(loc, x)` is literally the request
`Set([loc], x)`, and — on a reachable 1-D view, for an in-bounds run with `step ≥ 1` — `Apply1(loc, step, vals)` is the
request `Apply([loc], 0, step, vals)`; so `op_visible` / `interleaved_bulk_writes_visible` cover histories that contain them. -/
theorem rank1_requests_are_requests {α : Type} {h : Heap α} {a : Arr} (hr : Reach a.v) (hok : ArrOK h a)
    {loc step D : Int} {vals : List α} (hdims : a.v.dims = [D]) (x : α) :
    (∀ l : Int, runOp h (.set a [l] x) = set1 h a l x) ∧
    (0 ≤ loc → vals ≠ [] → 1 ≤ step → loc + ((vals.length : Int) - 1) * step < D →
      runOp h (.apply a [loc] 0 step vals) = apply1 h a loc step vals ∧ (WOp.apply a [loc] 0 step vals).OK h) := by
  refine ⟨fun _ => rfl, fun h0 hne hstep hlast => ⟨(apply1_eq_apply hr hok hdims h0 hne hstep hlast).symm, hr, hok, ?_,
    Or.inr ⟨D, loc, by rw [hdims]; rfl, rfl, hne, hstep, hlast⟩⟩⟩
  rw [hdims]
  have : 0 ≤ ((vals.length : Int) - 1) * step :=
    Int.mul_nonneg (by cases vals with | nil => exact absurd rfl hne | cons _ _ => simp) (by omega)
  exact ⟨h0, by omega, trivial⟩

/-! ### Non-vacuity (heaps and views of `OW/Props/C01.lean`: `h24 / a24 / s1 / s2`, `hB / a46 / src23`) -/

section Examples

/-- `apply_visible` instantiated: the run `s1[2], s1[5], s1[8]` (root elements 5, 11, 17) written through the stepped
slice `s1` is read through the nested slice `s2` (whose elements are exactly those) and through the root -/
example := apply_visible (h := h24) (vals := [100, 101, 102]) (step := 3) (D := 10) (l := 2) (j := [1])
  reach_s1 arrOK_s1 reach_s2 arrOK_s2 (loc := [2]) (d := 0) (by simp [s1]) rfl rfl (by simp) (by decide) (by decide)
  (by simp [s2])
example : ∃ h', apply h24 s1 [2] ((0 : Nat) : Int) 3 [100, 101, 102] = .ok h' ∧ get h' s2 [1] = .ok 101 := by
  obtain ⟨h', pb, e, _, hpb, hit, _⟩ := apply_visible (h := h24) (vals := [100, 101, 102]) (step := 3) (D := 10)
    (l := 2) (j := [1]) reach_s1 arrOK_s1 reach_s2 arrOK_s2 (loc := [2]) (d := 0) (by simp [s1]) rfl rfl (by simp)
    (by decide) (by decide) (by simp [s2])
  rw [show s2.v.index [1] = .ok 11 by decide] at hpb
  injection hpb with hpb
  subst hpb
  exact ⟨h', e, hit 1 (by decide) 11 (by decide) rfl rfl⟩
example : ∃ h', apply h24 s1 [2] 0 3 [100, 101, 102] = .ok h' ∧ get h' s2 [0] = .ok 100 ∧ get h' s2 [1] = .ok 101 ∧
    get h' s2 [2] = .ok 102 ∧ get h' a24 [17] = .ok 102 ∧ get h' a24 [12] = .ok 12 ∧ get h' s1 [4] = .ok 9 :=
  ⟨_, rfl, by decide⟩

/-- a `2 × 3` block of `a46` (rows 2..3, columns 3..5) and row 3 of `a46`, as views of storage 0 -/
def c23 : Arr := { a46 with v := ⟨[4, 6], [2, 3], 15, [6, 1], [1, 1], [6, 1]⟩ }
def row3 : Arr := { a46 with v := ⟨[4, 6], [1, 6], 18, [6, 1], [1, 1], [6, 1]⟩ }
example : slice a46 [2, 3] [2, 3] none = .ok c23 ∧ slice a46 [3, 0] [1, 6] none = .ok row3 := by decide
theorem reach_c23 : Reach c23.v :=
  .slice (loc := [2, 3]) (dims := [2, 3]) (step := none) reach_a46 (by simp [a46, rootView, stepOr, uniform]) rfl
theorem reach_row3 : Reach row3.v :=
  .slice (loc := [3, 0]) (dims := [1, 6]) (step := none) reach_a46 (by simp [a46, rootView, stepOr, uniform]) rfl
theorem arrOK_c23 : ArrOK hB c23 := arrOK_a46.slice (loc := [2, 3]) (dims := [2, 3]) (step := none) rfl
theorem arrOK_row3 : ArrOK hB row3 := arrOK_a46.slice (loc := [3, 0]) (dims := [1, 6]) (step := none) rfl

/-- `applySlice_visible` instantiated: the `2 × 3` source written at `loc = [1,0]`, `step = [2,2]` is read through the row
view `row3` (source element `[1,1]` = 5 lands at `(3,2)` = `row3[0,2]`); the source reads as before -/
example := applySlice_visible (j := [0, 2]) reach_a46 arrOK_a46 reach_src23 arrOK_src23 (by decide) reach_row3
  arrOK_row3 okS_B (by simp [row3])
example : ∃ h', applySlice hB a46 [1, 0] (some [2, 2]) src23 = .ok h' ∧ get h' row3 [0, 2] = get hB src23 [1, 1] := by
  obtain ⟨h', pb, e, _, hpb, hit, _⟩ := applySlice_visible (j := [0, 2]) reach_a46 arrOK_a46 reach_src23 arrOK_src23
    (by decide) reach_row3 arrOK_row3 okS_B (by simp [row3])
  rw [show row3.v.index [0, 2] = .ok 20 by decide] at hpb
  injection hpb with hpb
  subst hpb
  exact ⟨h', e, hit [1, 1] (by simp [src23, rootView]) 20 (by decide) rfl rfl⟩
example : ∃ h', applySlice hB a46 [1, 0] (some [2, 2]) src23 = .ok h' ∧ get h' row3 [0, 2] = .ok 5 ∧
    get h' row3 [0, 1] = .ok 0 ∧ get h' c23 [1, 1] = .ok 6 ∧ get h' src23 [1, 1] = .ok 5 := ⟨_, rfl, by decide⟩

/-- `copyFrom_visible` instantiated: `CopyFrom(src23)` through the block `c23` is read through `row3` and the root -/
example := copyFrom_visible (j := [0, 4]) reach_c23 arrOK_c23 reach_src23 arrOK_src23 (by decide) rfl reach_row3
  arrOK_row3 (by simp [row3])
example : ∃ h', copyFrom hB c23 src23 = .ok h' ∧ get h' row3 [0, 4] = get hB src23 [1, 1] := by
  obtain ⟨h', pb, e, _, hpb, hit, _⟩ := copyFrom_visible (j := [0, 4]) reach_c23 arrOK_c23 reach_src23 arrOK_src23
    (by decide) rfl reach_row3 arrOK_row3 (by simp [row3])
  rw [show row3.v.index [0, 4] = .ok 22 by decide] at hpb
  injection hpb with hpb
  subst hpb
  exact ⟨h', e, hit [1, 1] (by simp [c23]) 22 (by decide) rfl rfl⟩
example : copyFrom hB c23 src23 =
    .ok [[0,0,0,0,0,0, 0,0,0,0,0,0, 0,0,0,1,2,3, 0,0,0,4,5,6], [1, 2, 3, 4, 5, 6]] := by decide

/-- a history of all four kinds on two storages: a stepped sub-array write into `a46`, a `Set` into the SOURCE, a run that
overwrites two of the cells just written, and a `CopyFrom` through the block `c23` (which overwrites `(3,4)` again and
copies the source as it is AFTER the `Set`) -/
def ops4 : List (WOp Int) :=
  [.applySlice a46 [1, 0] (some [2, 2]) src23, .set src23 [0, 0] 50, .apply a46 [1, 0] 1 1 [7, 8], .copyFrom c23 src23]

theorem ops4_ok : ∀ op ∈ ops4, op.OK hB := by
  intro op ho
  simp only [ops4, List.mem_cons, List.not_mem_nil, or_false] at ho
  rcases ho with rfl | rfl | rfl | rfl
  · exact ⟨reach_a46, arrOK_a46, reach_src23, arrOK_src23, by decide, okS_B⟩
  · exact ⟨reach_src23, arrOK_src23, by simp [src23, rootView]⟩
  · exact ⟨reach_a46, arrOK_a46, by simp [a46, rootView], Or.inr ⟨6, 0, rfl, rfl, by simp, by decide, by decide⟩⟩
  · exact ⟨reach_c23, arrOK_c23, reach_src23, arrOK_src23, by decide, rfl⟩

/-- `op_visible` instantiated on the first request of the history; `interleaved_bulk_writes_visible` on the whole history -/
example := op_visible (ops4_ok _ List.mem_cons_self)
example : ∃ h', runOps hB ops4 = .ok h' ∧ SameShape hB h' ∧
    ∀ (b : Arr) (j : Idx), Reach b.v → ArrOK hB b → InBounds j b.v.dims →
      get h' b j = readBackOps ops4 (get hB) b j :=
  interleaved_bulk_writes_visible ops4 hB ops4_ok
/-- the model's heap after the history, and the reference reading: `(1,0)` was written by `ApplySlice` then by `Apply` (7);
`(1,2)` only by `ApplySlice` (2); `(3,4)` by `ApplySlice` (6) then by `CopyFrom` (5); `(2,3)` by `CopyFrom` from the source
element that the `Set` had changed to 50; `(0,0)` by nobody -/
example : runOps hB ops4 =
      .ok [[0,0,0,0,0,0, 7,8,2,0,3,0, 0,0,0,50,2,3, 4,0,5,4,5,6], [50, 2, 3, 4, 5, 6]] ∧
    readBackOps ops4 (get hB) a46 [1, 0] = .ok 7 ∧ readBackOps ops4 (get hB) a46 [1, 2] = .ok 2 ∧
    readBackOps ops4 (get hB) row3 [0, 4] = .ok 5 ∧ readBackOps ops4 (get hB) a46 [2, 3] = .ok 50 ∧
    readBackOps ops4 (get hB) c23 [0, 0] = .ok 50 ∧ readBackOps ops4 (get hB) a46 [0, 0] = .ok 0 ∧
    readBackOps ops4 (get hB) src23 [0, 0] = .ok 50 ∧ readBackOps ops4 (get hB) src23 [1, 2] = .ok 6 := by decide

/-- `sets_history_is_bulk_history` on the three `Set`s of `OW/Props/C01.lean` (`ops3`) -/
example := sets_history_is_bulk_history ops3 h24
example : runOps h24 (ops3.map WriteOp.toWOp) = setMany h24 ops3 ∧
    readBackOps (ops3.map WriteOp.toWOp) (get h24) s2 [1] = .ok 77 := by decide

/-- `set1_footprint` / `apply1_eq_apply` / `apply1_footprint` on the 1-D stepped slice `s1` (root elements 1, 3, …, 19) -/
example := set1_footprint (x := (99 : Int)) reach_s1 arrOK_s1 (loc := 5) (by simp [s1])
example : set1 h24 s1 5 99 = .ok [((List.range 24).map Int.ofNat).set 11 99] := by decide
example : apply1 h24 s1 2 3 [100, 101, 102] = apply h24 s1 [2] ((0 : Nat) : Int) 3 [100, 101, 102] :=
  apply1_eq_apply (D := 10) reach_s1 arrOK_s1 rfl (by decide) (by simp) (by decide) (by decide)
example : ∃ h', apply1 h24 s1 2 3 [100, 101, 102] = .ok h' ∧ SameShape h24 h' :=
  let ⟨h', e, s, _⟩ := apply1_footprint (D := 10) (vals := [100, 101, 102]) reach_s1 arrOK_s1 rfl (by decide) (by simp)
    (by decide) (by decide)
  ⟨h', e, s⟩
example : apply1 h24 s1 2 3 [100, 101, 102] =
    .ok [(((((List.range 24).map Int.ofNat).set 5 100).set 11 101).set 17 102)] := by decide

/-- `rank1_requests_are_requests` on `s1`: the `Set1` / `Apply1` calls are the requests `.set s1 [5] 99` /
`.apply s1 [2] 0 3 [100,101,102]` of a `WOp` history -/
example := rank1_requests_are_requests (h := h24) (x := (99 : Int)) (D := 10) (vals := [100, 101, 102]) (loc := 2) (step := 3)
  reach_s1 arrOK_s1 rfl
example : (WOp.apply s1 [2] 0 3 [100, 101, 102] : WOp Int).OK h24 :=
  ⟨reach_s1, arrOK_s1, by simp [s1], Or.inr ⟨10, 2, rfl, rfl, by simp, by decide, by decide⟩⟩

end Examples

end OW.Props.C01Bulk
