import OW.Gen.Kernels
import OW.Props.GenTieBase
import OW.Kernels.Coeff
import OW.Kernels.Muskingum
import OW.Kernels.LumpedConstituent
import OW.Kernels.ConstituentDecay
import OW.Kernels.InstreamCoarseSediment
import OW.Kernels.InstreamParticulateNutrient
import OW.Kernels.C16.Conversions
import OW.Kernels.C16.Partitions
import OW.Kernels.C16.LoadGen
import OW.Kernels.C16.BankErosion
import OW.Kernels.C16.UsleFine
import OW.Kernels.C16.SednetGully
import OW.Kernels.Simhyd
import OW.Kernels.Surm
import OW.Kernels.InstreamDissolvedNutrient
import OW.Kernels.InstreamFineSediment
import OW.Kernels.StorageParticulateTrapping
import OW.Kernels.StorageDissolvedDecay
import OW.Kernels.Climate
/-!
# GenTie — the syntactic tie between the hand-written kernel models and the current Go source

`OW/Gen/Kernels.lean` is REGENERATED on every run by `harness/cmd/owtranslate` from the Go source of the simple
time-stepping kernels (one namespace `OW.Gen.K.<goFunc>` with `guard`, `pre`, `init`, `step`). Each theorem
`gen_eq_<Model>` below states that the regenerated definitions ARE the hand-written model of `OW/Kernels/…`:

* kernels with state: for all parameters, states and inputs of one step,
  `Gen.step params pre state inputs = (new state of Hand.step, outputs of Hand.step)`, plus `Gen.pre = Hand.coef` and
  `Gen.init = the state parameters` (ghost outputs of the hand model — `flushed`, `decayed`, `deposited`, `bedExchange` —
  are not part of the code and are exempt);
* stateless kernels (`List.map`-shaped hand models): `Hand.step (inputs at t) = Gen.step params inputs`, and
  `Hand.run … = if Gen.guard … then zeros else map …` where the Go function returns early.

All statements are over an arbitrary `[Num α]` (so they hold at `Float`, where the models are executed, and at `ℝ`, where
the theorems of OW/Props are proved) and are proved by unfolding, case analysis on the `if`s and `rfl` — no arithmetic law
is used, so the equality is that of the expression trees: same operations, same association, same literals.

A source change that alters the arithmetic of a kernel makes its theorem fail (`vlib/gentie.py` reports this as a broken
proof obligation naming the theorem). Renaming locals, introducing temporaries or reordering independent assignments
leaves the generated term definitionally equal and the theorem keeps checking.

Further forms (kernels outside the plain single-loop shape):

* HELPER functions of the source are translated to definitions of the kernel's namespace tagged `@[gen_unfold]`; the tactic `tie`
  unfolds them (`simp only [gen_unfold]`: whichever helpers the source has at the moment, so extracting or inlining a helper does not
  invalidate a proof script); no theorem names a regenerated helper (`gen_eq_ClimateVariables` unfolds them as well and treats the
  bisection loop wherever it ends up);
* values the source computes BEFORE the loop from the parameters alone are `let`s at the top of the regenerated `step`, and the theorem
  instantiates the hand model's coefficients with the hand model's own function of the parameters (`Muskingum.coef`,
  `BankErosion.meanAnnualBankErosion`, `Climate.barometricPressure`, …): hoisting an expression out of the loop or back in keeps it;
* a HIDDEN state (carried between iterations, not returned: `prevVolume` of `instreamDissolvedNutrient`) is an extra
  component of the state of `init` / `step` — but a variable that every iteration assigns, at the top level of the loop body,
  before reading it (and that nothing reads after the loop) carries nothing: it is a local of `step`, wherever it is declared;
  a series element read before the loop (`reachVolume[0]`) is an extra argument;
* DELEGATION: `if cond { x = Callee(…); return … }` before the loop, or a body that is one call of another kernel function:
  `delegates = cond`, `delegateInit`, `delegateStep` (one iteration of the callee, translated with the nil-pattern and the
  function arguments of the call, in terms of the caller's parameters and series), `delegateFinal` are proved equal to the
  branch of the hand model (`gen_eq_StorageDissolvedDecay`, `gen_eq_InstreamDissolvedNutrient`, `gen_eq_SednetGully`,
  `gen_eq_SednetGullyAlt`);
* a helper with a bounded loop (`for i := 0; i < 40; i++ { …; if … { break } }` of `calcWetBulb`) is translated to
  `boundedLoop body 40 carried` (defined at the top of the generated file; a loop that counts down, or leaves by `return E` in
  front of a final `return E`, is the same term) and proved equal to the hand model's recursion by a simulation argument
  (`boundedLoop_sim`: whatever else the loop carries, its first two components do what `Climate.bisect` does; `bisect_eq_boundedLoop`);
* a function with an error result that works on whole series (`fn.Piecewise` in `ratingPartition`) is NOT translated: it
  is an argument of `step` (type `α → σ → σ → Option α`, `none` = error, on which the code panics), `step` returns an
  `Option` (`none` = the loop body panics) and the theorem instantiates the argument with the hand model of that function;
* a delegating branch may first build a temporary series element-wise from series parameters (`NewArray1DFloat64`,
  `CopyFrom`, `AddToFloat64Array`: the `bankFullFlow <= 1e-8` branch of `instreamFineSediment`): the callee then reads the
  per-step expression (`lateralMass + reachLocalMass`) in place of that series (`gen_eq_InstreamFineSediment_lumped`).

The stateful / slice-using kernels are tied in companion files (same namespace `OW.Props.GenTie`; `GenTieAll` imports all):
`GenTieWhole` (lag, storageTrapAll, inputNode: translated as a whole, series as lists, the in-place index loops by induction
on the loop bound), `GenTieStateful` (storageRouting: function literals of `calcOutflow`, panics as `none`, the abstract
`fn.FindRoot` instantiated by the hand model), `GenTieGR4J` (slice buffers, inner loops, the unit-hydrograph construction;
list lemmas in `OW/Proofs/GenLoops.lean`), `GenTieDates` (int arithmetic, the table `DAYS_IN_MONTH`, a loop that may panic),
`GenTieStorage` (tables, function literals, the two sub-step loops with explicit fuel, statements after the loop),
`GenTieSacramento` (by `rfl` against the copy `OW/Proofs/SacramentoMid.lean`, which is proved equal to the hand model).
The vocabulary of those translations (`sliceGet`, `forRange`, `whileLoop`, …) is `OW/Gen/Prelude.lean`; the tactic `tie` and the
literal identities `LitZero`, `NatZero` are in `GenTieBase.lean`.

Literal identities. Over an abstract `Num α` differently spelled literals are different terms; where a hand model spells a Go
constant differently from the (exactly folded, once rounded) constant of the source, the theorem carries the identity as a
hypothesis: `LitZero` (`0.0` = `Num.zero`), `NatZero` (`0` = `0.0`), `Lit1000`, `Lit86400` — all true at `ℝ`
(`GenTieReal.lean`) and at `Float` — and `TwoPi`, `AnnualToDaily`, where the hand model writes a constant EXPRESSION of the
source differently (31 digits of 2π; the run-time quotient `1 / 365.25`): the same float64, but different reals, so those two
ties hold at `Float` (where the models are executed) and are modulo that literal at `ℝ`. `litChecks` evaluates all of them at
`Float` when this file is compiled (`#guard`; a test, not a proof: `Float` literals are opaque to the kernel).
-/
namespace OW.Props.GenTie

-- which rewrite rules fire depends on how the source is written at the moment
set_option linter.unusedSimpArgs false
open OW OW.Kernels OW.Gen.K

/-! ### models/rr/coeff.go -/

/-- `runoffCoefficient` = `Coeff.run` (element-wise), no early return -/
theorem gen_eq_RunoffCoefficient {α} [Num α] (coeff : α) (rain : List α) :
    Coeff.run coeff rain = rain.map (runoffCoefficient.step coeff) ∧ runoffCoefficient.guard coeff = false :=
  ⟨rfl, rfl⟩

/-! ### models/routing -/

/-- `muskingum`: the loop starts from the state parameters, and one iteration is `Muskingum.step` with the coefficients
`Muskingum.coef k x deltaT` (the code computes them before the loop from the parameters alone: they are `let`s at the top of the
regenerated `step`, wherever the source computes them; the storage state `s` is passed through unchanged) -/
theorem gen_eq_Muskingum {α} [Num α] (k x deltaT s prevInflow prevOutflow inflow lateral : α) :
    muskingum.init s prevInflow prevOutflow k x deltaT = (s, prevInflow, prevOutflow) ∧
    muskingum.guard s prevInflow prevOutflow k x deltaT = false ∧
    muskingum.step k x deltaT s prevInflow prevOutflow inflow lateral =
      (let r := Muskingum.step (Muskingum.coef k x deltaT) (prevInflow, prevOutflow) (inflow, lateral); ((s, r.1.1, r.1.2), r.2)) :=
  ⟨rfl, rfl, rfl⟩

/-- `LumpedConstituentTransport` (series arguments non-nil, as the generated wrapper passes them) = `LumpedConstituent.step`.
The hand model writes the `0.0` of the flush branch as `Num.zero`: hypothesis `LitZero`. -/
theorem gen_eq_LumpedConstituent {α} [Num α] (hz : LitZero α)
    (initialStoredMass x pointInput deltaT storedMass inflowLoad lateralLoad outflow storage : α) :
    LumpedConstituentTransport.init initialStoredMass x pointInput deltaT = initialStoredMass ∧
    LumpedConstituentTransport.guard initialStoredMass x pointInput deltaT = false ∧
    LumpedConstituentTransport.step initialStoredMass x pointInput deltaT storedMass inflowLoad lateralLoad outflow storage =
      (let r := LumpedConstituent.step pointInput deltaT storedMass (inflowLoad, lateralLoad, outflow, storage)
       (r.1, (r.2.outflowLoad, r.2.pointSourceLoad))) := by
  refine ⟨rfl, rfl, ?_⟩
  unfold LitZero at hz
  unfold LumpedConstituentTransport.step LumpedConstituent.step
  simp only [LumpedConstituent.minimumVolume]
  tie [hz]

/-- `constituentDecay` = `ConstituentDecay.step` (the `inflows` series is not read by the code) -/
theorem gen_eq_ConstituentDecay {α} [Num α]
    (x halflife deltaT storedMass inflowLoad lateralLoad inflow outflow storage : α) :
    constituentDecay.init storedMass x halflife deltaT = storedMass ∧
    constituentDecay.guard storedMass x halflife deltaT = false ∧
    constituentDecay.step x halflife deltaT storedMass inflowLoad lateralLoad outflow storage =
      (let r := ConstituentDecay.step halflife deltaT storedMass (inflowLoad, lateralLoad, inflow, outflow, storage)
       (r.1, (r.2.decayedLoad, r.2.outflowLoad))) := by
  refine ⟨rfl, rfl, ?_⟩
  unfold constituentDecay.step ConstituentDecay.step ConstituentDecay.decay
  simp only [ConstituentDecay.minimumVolume]
  tie

/-- `instreamCoarseSediment` = `InstreamCoarseSediment.step`. The source writes `totalDailyConstituentMass = 0`, the hand
model `0.0`: hypothesis `NatZero`. -/
theorem gen_eq_InstreamCoarseSediment {α} [Num α] (h0 : NatZero α)
    (deltaT channelStore storedMass upstreamMass lateralMass reachLocalMass : α) :
    instreamCoarseSediment.init channelStore storedMass deltaT = (channelStore, storedMass) ∧
    instreamCoarseSediment.guard channelStore storedMass deltaT = false ∧
    instreamCoarseSediment.step deltaT channelStore storedMass upstreamMass lateralMass reachLocalMass =
      (let r := InstreamCoarseSediment.step deltaT (channelStore, storedMass) (upstreamMass, lateralMass, reachLocalMass)
       (r.1, r.2.loadDownstream)) := by
  refine ⟨rfl, rfl, ?_⟩
  unfold NatZero at h0
  unfold instreamCoarseSediment.step InstreamCoarseSediment.step
  simp only [h0]

/-- `instreamParticulateNutrient` = `InstreamParticulateNutrient.step` -/
theorem gen_eq_InstreamParticulateNutrient {α} [Num α]
    (i0 c0 pnc spf dur instreamStoredMass channelStoredMass : α) (i : InstreamParticulateNutrient.In α) :
    instreamParticulateNutrient.init i0 c0 pnc spf dur = (i0, c0) ∧
    instreamParticulateNutrient.guard i0 c0 pnc spf dur = false ∧
    instreamParticulateNutrient.step i0 c0 pnc spf dur instreamStoredMass channelStoredMass
        i.incomingMassUpstream i.incomingMassLateral i.reachVolume i.outflow i.streamBankErosion i.lateralSediment
        i.floodplainDepositionFraction i.channelDepositionFraction =
      (let r := InstreamParticulateNutrient.step pnc spf dur (instreamStoredMass, channelStoredMass) i
       (r.1, (r.2.loadDeposited, r.2.loadFromStreambank, r.2.loadDownstream, r.2.loadToFloodplain))) := by
  refine ⟨rfl, rfl, ?_⟩
  unfold instreamParticulateNutrient.step InstreamParticulateNutrient.step InstreamParticulateNutrient.forDeposition
    InstreamParticulateNutrient.bedExchange
  simp only [LumpedConstituent.minimumVolume]
  tie

/-! ### models/conversion -/

/-- `applyScaling` (ApplyScalingFactor and DeliveryRatio) = `Scaling.run` -/
theorem gen_eq_Scaling {α} [Num α] (scale : α) (input : List α) :
    Scaling.run scale input =
      if applyScaling.guard scale then zeros input.length else input.map (applyScaling.step scale) := rfl

/-- `depthToRate` = `DepthToRate.run` (the conversion factor `DepthToRate.conversion` is a `let` of the regenerated `step`) -/
theorem gen_eq_DepthToRate {α} [Num α] (deltaT area : α) (inputs : List α) :
    DepthToRate.run deltaT area inputs =
      if depthToRate.guard deltaT area then zeros inputs.length
      else inputs.map (depthToRate.step deltaT area) := rfl

/-- `fixedPartition` = `FixedPartition.step` -/
theorem gen_eq_FixedPartition {α} [Num α] (fraction incoming : α) :
    FixedPartition.step fraction incoming = fixedPartition.step fraction incoming ∧ fixedPartition.guard fraction = false :=
  ⟨rfl, rfl⟩

/-- `variablePartition` = `VariablePartition.step` -/
theorem gen_eq_VariablePartition {α} [Num α] (incoming frac : α) :
    VariablePartition.step (incoming, frac) = variablePartition.step incoming frac ∧
    variablePartition.guard (α := α) = false := ⟨rfl, rfl⟩

/-- `ratingPartition`. `fn.Piecewise` is NOT translated: `step` takes it as an argument (`none` = its error result is
non-nil, on which the code panics), here the hand model's `Fn.piecewise` on the two table series; where that function itself
panics (empty table) the loop body is not reached. A `none` of `step` is a panic of the loop body (class "other"). -/
theorem gen_eq_RatingPartition {α} [Num α] (inputAmount proportion : List α) (incoming : α) :
    ratingPartition.guard (α := α) = false ∧
    RatingCurvePartition.step inputAmount proportion incoming =
      (match Fn.piecewise incoming inputAmount proportion with
       | .panic e => .error e
       | _ =>
         match ratingPartition.step (σ := List α)
             (fun x xs ys => match Fn.piecewise x xs ys with | .val v => some v | _ => none)
             incoming inputAmount proportion with
         | none => .error "other"
         | some r => .ok r) := by
  refine ⟨rfl, ?_⟩
  unfold RatingCurvePartition.step ratingPartition.step
  try simp only [gen_unfold]
  try dsimp only
  generalize Fn.piecewise incoming inputAmount proportion = r
  cases r with
  | panic e => rfl
  | err => rfl
  | val frac =>
    dsimp only
    split <;> rfl

/-! ### models/functions -/

/-- `sum` = `Sum.step` -/
theorem gen_eq_Sum {α} [Num α] (a b : α) : Sum.step (a, b) = sum.step a b ∧ sum.guard (α := α) = false := ⟨rfl, rfl⟩

/-- `gate` = `Gate.step` -/
theorem gen_eq_Gate {α} [Num α] (t i : α) : Gate.step (t, i) = gate.step t i ∧ gate.guard (α := α) = false := by
  refine ⟨?_, rfl⟩
  unfold Gate.step gate.step
  tie

/-- `computeProportion` = `ComputeProportion.step` -/
theorem gen_eq_ComputeProportion {α} [Num α] (r n d : α) :
    ComputeProportion.step r (n, d) = computeProportion.step r n d ∧ computeProportion.guard r = false := by
  refine ⟨?_, rfl⟩
  unfold ComputeProportion.step computeProportion.step
  tie

/-- `partitionDemand` = `PartitionDemand.step` (outflow, extraction) -/
theorem gen_eq_PartitionDemand {α} [Num α] (inp dmd : α) :
    PartitionDemand.step (inp, dmd) = partitionDemand.step inp dmd ∧ partitionDemand.guard (α := α) = false := ⟨rfl, rfl⟩

/-! ### models/generation -/

/-- `emcDWC` = `EmcDwc.step` / `EmcDwc.run` (early return when both concentrations are 0) -/
theorem gen_eq_EmcDwc {α} [Num α] (emc dwc qf sf : α) (quickflow slowflow : List α) :
    EmcDwc.step emc dwc (qf, sf) = (let r := emcDWC.step emc dwc qf sf; ⟨r.1, r.2.1, r.2.2⟩) ∧
    EmcDwc.run emc dwc quickflow slowflow =
      if emcDWC.guard emc dwc then List.replicate quickflow.length ⟨Num.zero, Num.zero, Num.zero⟩
      else (quickflow.zip slowflow).map (EmcDwc.step emc dwc) := ⟨rfl, rfl⟩

/-- `fixedConcentration` = `FixedConcentration.run` -/
theorem gen_eq_FixedConcentration {α} [Num α] (conc : α) (flow : List α) :
    FixedConcentration.run conc flow =
      if fixedConcentration.guard conc then zeros flow.length else flow.map (fixedConcentration.step conc) := rfl

/-- `passLoadIfFlow` = `PassLoadIfFlow.step` / `PassLoadIfFlow.run` -/
theorem gen_eq_PassLoadIfFlow {α} [Num α] (scalingFactor f l : α) (flow inputLoad : List α) :
    PassLoadIfFlow.step scalingFactor (f, l) = passLoadIfFlow.step scalingFactor f l ∧
    PassLoadIfFlow.run scalingFactor flow inputLoad =
      if passLoadIfFlow.guard scalingFactor then zeros flow.length
      else (flow.zip inputLoad).map (PassLoadIfFlow.step scalingFactor) := by
  refine ⟨?_, rfl⟩
  unfold PassLoadIfFlow.step passLoadIfFlow.step
  simp only [PassLoadIfFlow.effectivelyZero]
  tie

/-- `dissolvedNutrients` = `DissolvedNutrients.step` -/
theorem gen_eq_DissolvedNutrients {α} [Num α] (emc dwc qf sf : α) :
    DissolvedNutrients.step emc dwc (qf, sf) = (let r := dissolvedNutrients.step emc dwc qf sf; ⟨r.1, r.2.1, r.2.2⟩) ∧
    dissolvedNutrients.guard emc dwc = false := ⟨rfl, rfl⟩

/-- `particulateNutrients` = `ParticulateNutrients.step` -/
theorem gen_eq_ParticulateNutrients {α} [Num α] (p : ParticulateNutrients.Params α) (a b c d e : α) :
    ParticulateNutrients.step p (a, b, c, d, e) =
      (let r := particulateNutrients.step p.area p.nutSurfSoilConc p.hillDeliveryRatio p.nutrientEnrichmentRatio
          p.nutSubSoilConc p.nutrientEnrichmentRatioGully p.gullyDeliveryRatio p.nutrientDWC p.doPCreamsEnrichment a b c d e
       ⟨r.1, r.2.1, r.2.2.1, r.2.2.2.1, r.2.2.2.2⟩) := by
  unfold ParticulateNutrients.step particulateNutrients.step
  tie

/-! ### models/rr/simhyd.go, surm.go -/

/-- `simhyd` = `Simhyd.step` -/
theorem gen_eq_Simhyd {α} [Num α] (i0 g0 t0 : α) (p : Simhyd.Params α) (st : Simhyd.State α) (rain pet : α) :
    simhyd.init i0 g0 t0 p.baseflowCoefficient p.imperviousThreshold p.infiltrationCoefficient p.infiltrationShape
      p.interflowCoefficient p.perviousFraction p.risc p.rechargeCoefficient p.smsc = (i0, g0, t0) ∧
    simhyd.guard i0 g0 t0 p.baseflowCoefficient p.imperviousThreshold p.infiltrationCoefficient p.infiltrationShape
      p.interflowCoefficient p.perviousFraction p.risc p.rechargeCoefficient p.smsc = false ∧
    simhyd.step i0 g0 t0 p.baseflowCoefficient p.imperviousThreshold p.infiltrationCoefficient p.infiltrationShape
      p.interflowCoefficient p.perviousFraction p.risc p.rechargeCoefficient p.smsc st.sms st.gw st.total rain pet =
      (let r := Simhyd.step p st (rain, pet)
       ((r.1.sms, r.1.gw, r.1.total), (r.2.runoff, r.2.quickflow, r.2.baseflow, r.2.store))) := by
  refine ⟨rfl, rfl, ?_⟩
  unfold simhyd.step Simhyd.step
  simp only [Simhyd.soilEtConst]
  tie

/-- `surm` = `Surm.step` (the two values computed before the loop, `fperv` and `fieldCapacity`, are `let`s of both) -/
theorem gen_eq_Surm {α} [Num α] (i0 g0 t0 : α) (p : Surm.Params α) (st : Surm.State α) (rain pet : α) :
    surm.init i0 g0 t0 p.bfac p.coeff p.dseep p.fcFrac p.fimp p.rfac p.smax p.sq p.thres = (i0, g0, t0) ∧
    surm.guard i0 g0 t0 p.bfac p.coeff p.dseep p.fcFrac p.fimp p.rfac p.smax p.sq p.thres = false ∧
    surm.step i0 g0 t0 p.bfac p.coeff p.dseep p.fcFrac p.fimp p.rfac p.smax p.sq p.thres st.sms st.gw st.total rain pet =
      (let r := Surm.step p st (rain, pet)
       ((r.1.sms, r.1.gw, r.1.total), (r.2.runoff, r.2.quickflow, r.2.baseflow, r.2.store))) := by
  refine ⟨rfl, rfl, ?_⟩
  unfold surm.step Surm.step
  tie

/-! ### models/storage -/

/-- `storageParticulateTrapping` = `StorageParticulateTrapping.step` -/
theorem gen_eq_StorageParticulateTrapping {α} [Num α] (ism : α) (p : StorageParticulateTrapping.Params α)
    (storedMass inflowMass storageInflow storageOutflow storageVolume : α) :
    storageParticulateTrapping.init ism p.deltaT p.reservoirCapacity p.reservoirLength p.subtractor p.multiplier
      p.lengthDischargeFactor p.lengthDischargePower = ism ∧
    storageParticulateTrapping.guard ism p.deltaT p.reservoirCapacity p.reservoirLength p.subtractor p.multiplier
      p.lengthDischargeFactor p.lengthDischargePower = false ∧
    storageParticulateTrapping.step ism p.deltaT p.reservoirCapacity p.reservoirLength p.subtractor p.multiplier
        p.lengthDischargeFactor p.lengthDischargePower storedMass inflowMass storageInflow storageOutflow storageVolume =
      (let r := StorageParticulateTrapping.step p storedMass (inflowMass, storageInflow, storageOutflow, storageVolume)
       (r.1, (r.2.trappedMass, r.2.outflowLoad))) := by
  refine ⟨rfl, rfl, ?_⟩
  unfold storageParticulateTrapping.step StorageParticulateTrapping.step StorageParticulateTrapping.damTrappingPC
  tie

/-- `storageDissolvedDecay`: the branch `doStorageDecay < 0.5` runs `LumpedConstituentTransport` with a nil lateral series,
`x = 0.0`, `pointInput = 0.0` and a nil point-source output (`StorageDissolvedDecay.stepOff`; the hand model of the lumped
step writes the `0.0` of the flush branch as `Num.zero`: hypothesis `LitZero`); otherwise one iteration is `stepOn`. -/
theorem gen_eq_StorageDissolvedDecay {α} [Num α] (hz : LitZero α)
    (ism deltaT doStorageDecay ari bankFullFlow mfrt storedMass inflowMass storageInflow storageOutflow storageVolume : α) :
    storageDissolvedDecay.delegates ism deltaT doStorageDecay ari bankFullFlow mfrt = decide (doStorageDecay < 0.5) ∧
    storageDissolvedDecay.delegateInit ism deltaT doStorageDecay ari bankFullFlow mfrt = ism ∧
    storageDissolvedDecay.delegateFinal ism deltaT doStorageDecay ari bankFullFlow mfrt storedMass = storedMass ∧
    storageDissolvedDecay.delegateStep ism deltaT doStorageDecay ari bankFullFlow mfrt storedMass inflowMass storageOutflow storageVolume =
      (let r := StorageDissolvedDecay.stepOff deltaT storedMass (inflowMass, storageInflow, storageOutflow, storageVolume)
       (r.1, (r.2.decayedMass, r.2.outflowMass))) ∧
    storageDissolvedDecay.init ism deltaT doStorageDecay ari bankFullFlow mfrt = ism ∧
    storageDissolvedDecay.guard ism deltaT doStorageDecay ari bankFullFlow mfrt = false ∧
    storageDissolvedDecay.step ism deltaT doStorageDecay ari bankFullFlow mfrt storedMass inflowMass storageOutflow storageVolume =
      (let r := StorageDissolvedDecay.stepOn deltaT bankFullFlow mfrt storedMass (inflowMass, storageInflow, storageOutflow, storageVolume)
       (r.1, (r.2.decayedMass, r.2.outflowMass))) := by
  refine ⟨rfl, rfl, rfl, ?_, rfl, rfl, ?_⟩
  · unfold LitZero at hz
    unfold storageDissolvedDecay.delegateStep storageDissolvedDecay.delegate.step StorageDissolvedDecay.stepOff LumpedConstituent.step
    simp only [LumpedConstituent.minimumVolume]
    tie [hz]
  · unfold storageDissolvedDecay.step StorageDissolvedDecay.stepOn
    tie

/-! ### models/generation: bank erosion, USLE, gully -/

/-- `bankErosion` = `BankErosion.step` with the mean annual erosion `BankErosion.meanAnnualBankErosion p` (computed before the
loop from the parameters alone by a helper translated from the source: a `let` of the regenerated `step`) -/
theorem gen_eq_BankErosion {α} [Num α] (p : BankErosion.Params α) (outflow totalVolume : α) :
    bankErosion.guard p.riparianVegPercent p.maxRiparianVegEffectiveness p.soilErodibility p.bankErosionCoeff p.linkSlope p.bankFullFlow p.bankMgtFactor p.sedBulkDensity p.bankHeight p.linkLength p.dailyFlowPowerFactor p.longTermAvDailyFlow p.soilPercentFine p.durationInSeconds = false ∧
    bankErosion.step p.riparianVegPercent p.maxRiparianVegEffectiveness p.soilErodibility p.bankErosionCoeff p.linkSlope p.bankFullFlow p.bankMgtFactor p.sedBulkDensity p.bankHeight p.linkLength p.dailyFlowPowerFactor p.longTermAvDailyFlow p.soilPercentFine p.durationInSeconds outflow totalVolume =
      BankErosion.step p (BankErosion.meanAnnualBankErosion p) (outflow, totalVolume) := by
  refine ⟨rfl, ?_⟩
  unfold bankErosion.step BankErosion.step BankErosion.totalKgPerSecond BankErosion.linkDischargeFactor BankErosion.meanAnnualBankErosion
  simp only [gen_unfold, Units.daysPerYear, Units.tonnesToKg, Units.percentToProportion]
  all_goals tie

/-- the constant expression `2 * math.Pi`, folded exactly and rounded once by the Go compiler (the float64
0x401921FB54442D18, printed with the shortest decimal that round-trips), is the `twoPi` of the hand model (the same float64,
written with 31 digits). The two decimals are different reals (they differ by < 5e-16), so this holds at `Float` only
(`#guard` below): at `ℝ` the tie of `usleFine` is modulo this literal. -/
def TwoPi (α : Type) [Num α] : Prop := (6.283185307179586 : α) = UsleFine.twoPi

/-- `usleFine` = `UsleFine.step` (the `useAvModel` branch of the source is dead code: `useAvModel := false`). The hand model
writes the quick-flow load of a day without an event as `0` (the source: `loadQ = 0` in an else-arm, or the initial `0.0` kept):
hypothesis `NatZero`. -/
theorem gen_eq_UsleFine {α} [Num α] (h2pi : TwoPi α) (h0 : NatZero α) (p : UsleFine.Params α) (i : UsleFine.In α) :
    usleFine.guard p.s p.p p.rainThreshold p.alpha p.beta p.eta p.a1 p.a2 p.a3 p.dwc p.avK p.avLS p.avFines p.area p.maxConc p.usleHSDRFine p.usleHSDRCoarse p.timeStepInSeconds = false ∧
    UsleFine.step p i =
      (let r := usleFine.step p.s p.p p.rainThreshold p.alpha p.beta p.eta p.a1 p.a2 p.a3 p.dwc p.avK p.avLS p.avFines p.area p.maxConc p.usleHSDRFine p.usleHSDRCoarse p.timeStepInSeconds i.qf i.sf i.rain i.klsc i.klscFine i.cFactor i.doy
       ⟨r.1, r.2.1, r.2.2.1, r.2.2.2.1, r.2.2.2.2.1, r.2.2.2.2.2.1, r.2.2.2.2.2.2.1, r.2.2.2.2.2.2.2⟩) := by
  refine ⟨rfl, ?_⟩
  unfold TwoPi at h2pi
  unfold NatZero at h0
  unfold usleFine.step UsleFine.step UsleFine.rFactor UsleFine.adjustedRates UsleFine.litresPerDay
  simp only [gen_unfold, Units.mgPerLitreToKgPerM3, Units.squareMetresToHectares, Units.tonnesToKg, Units.kgToMilligram,
    Units.cumecsToMegaLitresPerDay, Units.megaLitresToLitres, h2pi, h0]
  all_goals tie [h2pi, h0]

/-- the constant expression `1 / 365.25` of `gullyLoadOrig`, folded by the Go compiler, is the quotient the hand model
computes at run time (equal at `Float`: IEEE division of two exactly representable numbers is the correctly rounded exact
quotient; `#guard` below. Different reals.) -/
def AnnualToDaily (α : Type) [Num α] : Prop := (0.0027378507871321013 : α) = 1 / 365.25

/-- `sednetGullyOrig` (the whole body is `sednetGully(…, gullyLoadOrig)`) = `SednetGully.step gullyLoadOrig` -/
theorem gen_eq_SednetGully {α} [Num α] (hadj : AnnualToDaily α) (p : SednetGully.Params α) (q yr ar al : α) :
    sednetGullyOrig.delegates p.yearDisturbance p.gullyEndYear p.area p.averageGullyActivityFactor p.annualAverageSedimentSupply p.percentFine p.managementPracticeFactor p.longtermRunoffFactor p.dailyRunoffPowerFactor p.sdrFine p.sdrCoarse p.timestepInSeconds = true ∧
    sednetGullyOrig.delegateStep p.yearDisturbance p.gullyEndYear p.area p.averageGullyActivityFactor p.annualAverageSedimentSupply p.percentFine p.managementPracticeFactor p.longtermRunoffFactor p.dailyRunoffPowerFactor p.sdrFine p.sdrCoarse p.timestepInSeconds q yr ar al =
      (let r := SednetGully.step SednetGully.gullyLoadOrig p (q, yr, ar, al)
       (r.fineLoad, r.coarseLoad, r.generatedFine, r.generatedCoarse)) := by
  refine ⟨rfl, ?_⟩
  unfold AnnualToDaily at hadj
  unfold sednetGullyOrig.delegateStep sednetGullyOrig.delegate.step
    SednetGully.step SednetGully.gullyLoadOrig SednetGully.dailyRunoffFactor SednetGully.activityFactor
  simp only [gen_unfold, Units.tonnesToKg, hadj]
  all_goals tie [hadj]

/-- `sednetGullyDerm` (the whole body is `sednetGully(…, gullyLoadDerm)`) = `SednetGully.step gullyLoadDerm` -/
theorem gen_eq_SednetGullyAlt {α} [Num α] (p : SednetGully.Params α) (q yr ar al : α) :
    sednetGullyDerm.delegates p.yearDisturbance p.gullyEndYear p.area p.averageGullyActivityFactor p.annualAverageSedimentSupply p.percentFine p.managementPracticeFactor p.longtermRunoffFactor p.dailyRunoffPowerFactor p.sdrFine p.sdrCoarse p.timestepInSeconds = true ∧
    sednetGullyDerm.delegateStep p.yearDisturbance p.gullyEndYear p.area p.averageGullyActivityFactor p.annualAverageSedimentSupply p.percentFine p.managementPracticeFactor p.longtermRunoffFactor p.dailyRunoffPowerFactor p.sdrFine p.sdrCoarse p.timestepInSeconds q yr ar al =
      (let r := SednetGully.step SednetGully.gullyLoadDerm p (q, yr, ar, al)
       (r.fineLoad, r.coarseLoad, r.generatedFine, r.generatedCoarse)) := by
  refine ⟨rfl, ?_⟩
  unfold sednetGullyDerm.delegateStep sednetGullyDerm.delegate.step
    SednetGully.step SednetGully.gullyLoadDerm SednetGully.activityFactor
  simp only [gen_unfold, Units.metresToMillimetres, Units.secondsPerDay]
  all_goals tie

/-! ### models/routing: dissolved nutrient, fine sediment -/

/-- `instreamDissolvedNutrient`. Before the loop the code reads `reachVolume[0]` (`v0`: the initial `prevVolume`, a hidden
state of the loop — it is carried between iterations and not returned). The branch `doDecay < 0.5` runs
`LumpedConstituentTransport` (= `LumpedConstituent.step` with the point source per second, hypothesis `LitZero` as for
`gen_eq_LumpedConstituent`); otherwise one iteration is `InstreamDissolvedNutrient.step` with the two values the code computes
before the loop from the parameters alone, `timeStepInDays = 86400 / dur` and `pointSourcePerSecond = psl / 31557600` (the hand
model writes the `0` of the comparisons as `0.0`: hypothesis `NatZero`), the returned `storedMass` passing through unchanged. -/
theorem gen_eq_InstreamDissolvedNutrient {α} [Num α] (hz : LitZero α) (h0 : NatZero α)
    (sm dd psl lh lw ll uv dur v0 s pv up lat vol out : α) :
    instreamDissolvedNutrient.delegates sm dd psl lh lw ll uv dur v0 = decide (dd < 0.5) ∧
    instreamDissolvedNutrient.delegateInit sm dd psl lh lw ll uv dur v0 = sm ∧
    instreamDissolvedNutrient.delegateFinal sm dd psl lh lw ll uv dur v0 s = s ∧
    instreamDissolvedNutrient.delegateStep sm dd psl lh lw ll uv dur v0 s up lat vol out =
      (let r := LumpedConstituent.step (psl / 31557600) dur s (up, lat, out, vol)
       (r.1, (Num.zero, r.2.outflowLoad, r.2.pointSourceLoad))) ∧
    instreamDissolvedNutrient.init sm dd psl lh lw ll uv dur v0 = (sm, v0) ∧
    instreamDissolvedNutrient.guard sm dd psl lh lw ll uv dur v0 = false ∧
    instreamDissolvedNutrient.step dd psl lh lw ll uv dur sm pv up lat vol out =
      (let r := InstreamDissolvedNutrient.step sm (psl / 31557600) lh lw ll uv dur (86400 / dur) pv (up, lat, vol, out)
       ((sm, r.1), (r.2.decayed.getD Num.zero, r.2.downstream, r.2.pointSource.getD Num.zero))) := by
  refine ⟨rfl, rfl, rfl, ?_, rfl, rfl, ?_⟩
  · unfold LitZero at hz
    unfold instreamDissolvedNutrient.delegateStep instreamDissolvedNutrient.delegate.step LumpedConstituent.step
    simp only [LumpedConstituent.minimumVolume]
    all_goals tie [hz]
  · unfold NatZero at h0
    unfold instreamDissolvedNutrient.step InstreamDissolvedNutrient.step
    simp only [h0]
    all_goals tie [h0]

/-- the constants `units.TONNES_TO_KG = 1e3` and `units.SECONDS_PER_DAY = 24 * 60 * 60` are rendered as the integers they
are; the hand model of the fine-sediment kernel writes them `1000.0` and `86400.0` -/
def Lit1000 (α : Type) [Num α] : Prop := (1000 : α) = 1000.0
def Lit86400 (α : Type) [Num α] : Prop := (86400 : α) = 86400.0

/-- `instreamFineSediment`, main path (`bankFullFlow > 1e-8`): `init` = `initStore`, one iteration = `stepMain` (with the
`maxStorage` the code computes before the loop from the parameters alone; `LitZero`: a value the step does not compute is the
literal `0.0` or the zero value of a variable); the condition of the branch `bankFullFlow <= 1e-8` is `lumped` (its run: `gen_eq_InstreamFineSediment_lumped`). -/
theorem gen_eq_InstreamFineSediment {α} [Num α] (h1 : Lit1000 α) (h2 : Lit86400 α) (hz : LitZero α) (p : InstreamFineSediment.Params α)
    (csf tsm up lat loc vol out : α) :
    instreamFineSediment.delegates csf tsm p.bankFullFlow p.fineSedSettVelocityFlood p.floodPlainArea p.linkWidth p.linkLength p.linkSlope p.bankHeight p.propBankHeightForFineDep p.sedBulkDensity p.manningsN p.fineSedSettVelocity p.fineSedReMobVelocity p.durationInSeconds = InstreamFineSediment.lumped p ∧
    instreamFineSediment.init csf tsm p.bankFullFlow p.fineSedSettVelocityFlood p.floodPlainArea p.linkWidth p.linkLength p.linkSlope p.bankHeight p.propBankHeightForFineDep p.sedBulkDensity p.manningsN p.fineSedSettVelocity p.fineSedReMobVelocity p.durationInSeconds = (InstreamFineSediment.initStore p csf, tsm) ∧
    instreamFineSediment.guard csf tsm p.bankFullFlow p.fineSedSettVelocityFlood p.floodPlainArea p.linkWidth p.linkLength p.linkSlope p.bankHeight p.propBankHeightForFineDep p.sedBulkDensity p.manningsN p.fineSedSettVelocity p.fineSedReMobVelocity p.durationInSeconds = false ∧
    instreamFineSediment.step p.bankFullFlow p.fineSedSettVelocityFlood p.floodPlainArea p.linkWidth p.linkLength p.linkSlope p.bankHeight p.propBankHeightForFineDep p.sedBulkDensity p.manningsN p.fineSedSettVelocity p.fineSedReMobVelocity p.durationInSeconds csf tsm up lat loc vol out =
      (let r := InstreamFineSediment.stepMain p (csf, tsm) (up, lat, loc, vol, out)
       (r.1, (r.2.loadDownstream, r.2.loadToFloodplain, r.2.loadToChannelDeposition, r.2.floodplainDepositionFraction,
              r.2.channelDepositionFraction))) := by
  have h1' := h1
  have h2' := h2
  unfold Lit1000 at h1'
  unfold Lit86400 at h2'
  unfold LitZero at hz
  refine ⟨rfl, ?_, rfl, ?_⟩
  · unfold instreamFineSediment.init InstreamFineSediment.initStore InstreamFineSediment.maxStorage
    simp only [h1']
    all_goals tie [h1']
  · unfold instreamFineSediment.step InstreamFineSediment.stepMain InstreamFineSediment.maxStorage
      InstreamFineSediment.floodPlainDepositionEmperical InstreamFineSediment.inChannelStorage InstreamFineSediment.stc
    simp only [gen_unfold, h1', h2']
    all_goals tie [h1', h2', ← hz]

/-- `instreamFineSediment`, the branch `bankFullFlow <= 1e-8`: it builds the temporary series `lateralAndLocalMass`
(`NewArray1DFloat64`, `CopyFrom(lateralMass)`, `AddToFloat64Array(…, reachLocalMass)`: at every step `lateralMass +
reachLocalMass`) and hands the run to `LumpedConstituentTransport` with `x = 0`, `pointInput = 0.0` and a nil point-source
output: one iteration is `InstreamFineSediment.stepLumped` (the four outputs the branch does not write keep `Num.zero`; the
hand model of the lumped step writes the `0.0` of the flush branch as `Num.zero`: hypothesis `LitZero`). -/
theorem gen_eq_InstreamFineSediment_lumped {α} [Num α] (hz : LitZero α) (p : InstreamFineSediment.Params α)
    (csf tsm s up lat loc vol out : α) :
    instreamFineSediment.delegateInit csf tsm p.bankFullFlow p.fineSedSettVelocityFlood p.floodPlainArea p.linkWidth p.linkLength p.linkSlope p.bankHeight p.propBankHeightForFineDep p.sedBulkDensity p.manningsN p.fineSedSettVelocity p.fineSedReMobVelocity p.durationInSeconds = tsm ∧
    instreamFineSediment.delegateFinal csf tsm p.bankFullFlow p.fineSedSettVelocityFlood p.floodPlainArea p.linkWidth p.linkLength p.linkSlope p.bankHeight p.propBankHeightForFineDep p.sedBulkDensity p.manningsN p.fineSedSettVelocity p.fineSedReMobVelocity p.durationInSeconds s = (csf, s) ∧
    instreamFineSediment.delegateStep csf tsm p.bankFullFlow p.fineSedSettVelocityFlood p.floodPlainArea p.linkWidth p.linkLength p.linkSlope p.bankHeight p.propBankHeightForFineDep p.sedBulkDensity p.manningsN p.fineSedSettVelocity p.fineSedReMobVelocity p.durationInSeconds s up lat loc vol out =
      (let r := InstreamFineSediment.stepLumped p (csf, s) (up, lat, loc, vol, out)
       (r.1.2, (r.2.loadDownstream, r.2.loadToFloodplain, r.2.loadToChannelDeposition, r.2.floodplainDepositionFraction,
         r.2.channelDepositionFraction))) := by
  refine ⟨rfl, rfl, ?_⟩
  unfold LitZero at hz
  unfold instreamFineSediment.delegateStep instreamFineSediment.delegate.step InstreamFineSediment.stepLumped LumpedConstituent.step
  simp only [LumpedConstituent.minimumVolume]
  tie [hz]

/-! ### models/functions/baseflow.go, models/climate -/

/-- `baseflowFilter`: the loop body is empty — one iteration has no result (`Unit`: no output is written, as in
`BaseflowFilter.run`, which returns zeros); a body that writes something changes the type of `step` -/
theorem gen_eq_BaseflowFilter {α} [Num α] (x : α) :
    baseflowFilter.step x = () ∧ baseflowFilter.guard (α := α) = false := ⟨rfl, rfl⟩

/-- a loop with `break` on a larger state simulates the same loop on a projection of it -/
theorem boundedLoop_sim {σ τ : Type} (body : σ → σ × Bool) (g : τ → τ × Bool) (π : σ → τ)
    (hsim : ∀ c, (π (body c).1, (body c).2) = g (π c)) :
    ∀ (n : Nat) (c : σ) (d : τ), π c = d → π (boundedLoop body n c) = boundedLoop g n d := by
  intro n
  induction n with
  | zero => intro c d h; exact h
  | succ n ih =>
    intro c d h
    subst h
    unfold boundedLoop
    have h1 := hsim c
    have h2 : (g (π c)).2 = (body c).2 := by rw [← h1]
    have h3 : (g (π c)).1 = π (body c).1 := by rw [← h1]
    simp only [h2, h3]
    split
    · rfl
    · exact ih _ _ rfl

/-- one pass of the bisection of `calcWetBulb` on the pair (rtb, dx): the new pair, and whether the loop is left -/
def bisectBody {α} [Num α] (f : α → α) (h : α) (c : α × α) : (α × α) × Bool :=
  let dx := c.2 * 0.5
  let xmid := c.1 + dx
  let fmid := f xmid
  let rtb := if 0 < h - fmid then xmid else c.1
  ((rtb, dx), decide (Num.abs dx < Climate.acc))

/-- `Climate.bisect` is that loop -/
theorem bisect_eq_boundedLoop {α} [Num α] (f : α → α) (h : α) :
    ∀ (n : Nat) (rtb dx : α), Climate.bisect f h n rtb dx = (boundedLoop (bisectBody f h) n (rtb, dx)).1 := by
  intro n
  induction n with
  | zero => intros; rfl
  | succ n ih =>
    intro rtb dx
    unfold Climate.bisect boundedLoop bisectBody
    dsimp only
    by_cases hc : Num.abs (dx * 0.5) < (Climate.acc : α)
    · simp only [hc, ↓reduceIte, decide_true]
    · simp only [hc, ↓reduceIte, decide_false, Bool.false_eq_true]
      exact ih _ _

/-- four outputs, the last being the first input minus the third output -/
theorem out4_ext {α} [Num α] {a a' b b' c c' t : α} (ha : a = a') (hb : b = b') (hc : c = c') :
    (a, b, c, t - c) = (a', b', c', t - c') := by rw [ha, hb, hc]

/-- `climateVariables`: one iteration is `Climate.sample` (the Goff-Gratch vapour pressure, the dew point, the humidity ratio,
the enthalpy and the 40-step bisection with `break`, however the source distributes them over helper functions: the helpers
are unfolded, the bisection loop — whatever else it carries besides (rtb, dx), in that order, first — is shown to simulate
`Climate.bisect`). The source compares `(hEnthalpy - fmid) > 0.0`, the hand model `0 < h - fmid`: hypothesis `NatZero`. -/
theorem gen_eq_ClimateVariables {α} [Num α] (h0 : NatZero α) (elevation t rh : α) :
    climateVariables.guard elevation = false ∧
    climateVariables.step elevation t rh =
      (let r := Climate.sample (Climate.barometricPressure elevation) t rh; (r.vaporPressure, r.dewPoint, r.wetBulb, r.deltaT)) := by
  unfold NatZero at h0
  refine ⟨rfl, ?_⟩
  unfold climateVariables.step Climate.sample Climate.wetBulb
  simp only [gen_unfold, bisect_eq_boundedLoop]
  refine out4_ext ?_ ?_ ?_
  · unfold Climate.vaporPressure
    tie
  · unfold Climate.dewPoint Climate.vaporPressure
    tie
  · first
      | refine congrArg Prod.fst (boundedLoop_sim _ _ (fun (c : α × α) => c) ?_ 40 _ _ ?_)
      | refine congrArg Prod.fst (boundedLoop_sim _ _ (fun (c : α × α × _) => (c.1, c.2.1)) ?_ 40 _ _ ?_)
    · intro c
      unfold bisectBody Climate.satEnthalpy Climate.enthalpy Climate.humidityRatioActual Climate.humidityRatio
        Climate.barometricPressure Climate.vaporPressure Climate.acc
      simp only [← h0]
      tie
    · unfold Climate.dewPoint Climate.vaporPressure
      tie
/-! ### the literal identities at `Float` (evaluated, not proved) -/

/-- the literal hypotheses of this file as Boolean tests with Go's `==` -/
def litChecks (α : Type) [Num α] : List Bool :=
  [Num.feq (0.0 : α) Num.zero, Num.feq (0 : α) 0.0, Num.feq (1000 : α) 1000.0, Num.feq (86400 : α) 86400.0,
   Num.feq (6.283185307179586 : α) UsleFine.twoPi, Num.feq (0.0027378507871321013 : α) (1 / 365.25)]

#guard (litChecks Float).all id

end OW.Props.GenTie
