import OW.Sim.Wrapper
import OW.Kernels.Coeff
/-!
C04 — vectorised Run equals independent single-cell runs and touches nothing else.
Theorems about the wrapper semantics `OW.Sim.run` (core Lean only), for EVERY kernel model `km`,
every parameter layout `spec`, every number of cells, parameter sets, input blocks and series lengths.
-/
namespace OW.Props.C04
open OW OW.Sim

variable {α : Type} [Num α]

/-! ### writes are confined: `overwrite` changes a prefix and keeps the length -/

theorem overwrite_length (row xs : List α) : (overwrite row xs).length = row.length := by
  unfold overwrite
  simp only [List.length_append, List.length_take, List.length_drop]
  omega

/-- elements at positions `≥ xs.length` (timesteps beyond the series, state columns beyond the model's states)
are left exactly as they were -/
theorem overwrite_frame (row xs : List α) (k : Nat) (hk : xs.length ≤ k) :
    (overwrite row xs)[k]? = row[k]? := by
  unfold overwrite
  by_cases h : k < row.length
  · have h1 : (xs.take row.length).length = xs.length := by
      simp only [List.length_take]; omega
    rw [List.getElem?_append_right (by omega)]
    simp only [List.getElem?_drop, h1]
    congr 1; omega
  · have : row[k]? = none := List.getElem?_eq_none (by omega)
    rw [this]
    apply List.getElem?_eq_none
    simp only [List.length_append, List.length_take, List.length_drop]; omega

/-- the written prefix is what the kernel returned -/
theorem overwrite_written (row xs : List α) (k : Nat) (hk : k < xs.length) (hr : k < row.length) :
    (overwrite row xs)[k]? = xs[k]? := by
  unfold overwrite
  rw [List.getElem?_append_left (by simp only [List.length_take]; omega)]
  simp only [List.getElem?_take]
  split <;> first | rfl | omega

/-! ### `cellStep`: the guard on the number of input blocks, and the body -/

/-- with at least one input block `cellStep` is its body (decode, pick the block, run the kernel, overwrite) -/
theorem cellStep_blocks (km : KModel α) (spec : ParamSpec) (lay : List (Nat × Nat)) (params : List (List α))
    (inputs : List (List (List α))) (i : Nat) (st : List α) (orow : List (List α)) (hb : inputs.length ≠ 0) :
    cellStep km spec lay params inputs i st orow =
      (do let p ← cellParams spec lay params i
          let r ← km.run p (inputs[i % inputs.length]?.getD []) st
          pure (overwrite st r.states,
            (orow.zip (r.outputs ++ List.replicate (orow.length - r.outputs.length) [])).map
              fun (old, new) => overwrite old new)) := by
  unfold cellStep
  rw [if_neg hb]

/-- **no input block = Go's integer divide by zero** (`i % numInputSequences` is the goroutine's first statement): the
step fails; in particular a successful step had at least one block, so `i % nBlocks` is a block index -/
theorem cellStep_no_blocks (km : KModel α) (spec : ParamSpec) (lay : List (Nat × Nat)) (params : List (List α))
    (i : Nat) (st : List α) (orow : List (List α)) :
    cellStep km spec lay params [] i st orow = .error "int-div-zero" := rfl

theorem cellStep_ok_blocks {km : KModel α} {spec : ParamSpec} {lay : List (Nat × Nat)} {params : List (List α)}
    {inputs : List (List (List α))} {i : Nat} {st : List α} {orow : List (List α)} {so : List α × List (List α)}
    (h : cellStep km spec lay params inputs i st orow = .ok so) : inputs.length ≠ 0 := by
  intro h0
  unfold cellStep at h
  rw [if_pos h0] at h
  cases h

/-- the output rows `cellStep` produces, pointwise: row `o` is the old row overwritten by the kernel's series `o`
(by nothing when the kernel returned fewer series; series beyond the rows are dropped) -/
theorem newRows_getElem? (orow outs : List (List α)) (o : Nat) (ho : o < orow.length) :
    ((orow.zip (outs ++ List.replicate (orow.length - outs.length) [])).map
        fun (p : List α × List α) => overwrite p.1 p.2)[o]? =
      some (overwrite (orow[o]'ho) (outs[o]?.getD [])) := by
  have hpad : (outs ++ List.replicate (orow.length - outs.length) ([] : List α))[o]? = some (outs[o]?.getD []) := by
    by_cases h : o < outs.length
    · rw [List.getElem?_append_left h, List.getElem?_eq_getElem h]; rfl
    · rw [List.getElem?_append_right (by omega), List.getElem?_replicate, if_pos (by omega),
        List.getElem?_eq_none (by omega)]
      rfl
  rw [List.getElem?_map]
  have : (orow.zip (outs ++ List.replicate (orow.length - outs.length) ([] : List α)))[o]? =
      some (orow[o]'ho, outs[o]?.getD []) :=
    List.getElem?_zip_eq_some.mpr ⟨List.getElem?_eq_getElem ho, hpad⟩
  rw [this]
  rfl

/-! ### the N-cell run is exactly the per-cell steps, each on its own row -/

/-- **run_decomposes / run_frame (rows).** If the vectorised run succeeds then it produced one state row per
cell, kept the number of output rows, cell `k`'s new state row and output rows are exactly `cellStep` applied to
ITS OWN state row and output rows with index `i + k` (so they do not depend on any other cell's rows — any order
of the cells gives the same result), and output rows of cells that do not run are untouched. -/
theorem runCells_spec (km : KModel α) (spec : ParamSpec) (lay : List (Nat × Nat)) (params : List (List α))
    (inputs : List (List (List α))) :
    ∀ (cells : List (List α)) (outs : List (List (List α))) (i : Nat) (ss : List (List α)) (os : List (List (List α))),
      runCells km spec lay params inputs i cells outs = .ok (ss, os) →
      ss.length = cells.length ∧ os.length = outs.length ∧ cells.length ≤ outs.length ∧
      (∀ k (hk : k < cells.length) (ho : k < outs.length),
          ∃ s' o', cellStep km spec lay params inputs (i + k) cells[k] outs[k] = .ok (s', o') ∧
            ss[k]? = some s' ∧ os[k]? = some o') ∧
      (∀ k, cells.length ≤ k → os[k]? = outs[k]?) := by
  intro cells
  induction cells with
  | nil =>
    intro outs i ss os h
    simp only [runCells] at h
    cases h
    exact ⟨rfl, rfl, Nat.zero_le _, fun k hk => absurd hk (Nat.not_lt_zero k), fun k _ => rfl⟩
  | cons st restS ih =>
    intro outs i ss os h
    cases outs with
    | nil => simp [runCells] at h
    | cons orow restO =>
      simp only [runCells] at h
      cases hc : cellStep km spec lay params inputs i st orow with
      | error e => simp [hc, bind, Except.bind] at h
      | ok so =>
        obtain ⟨s', o'⟩ := so
        cases hr : runCells km spec lay params inputs (i + 1) restS restO with
        | error e => simp [hc, hr, bind, Except.bind] at h
        | ok r =>
          obtain ⟨ss', os'⟩ := r
          simp only [hc, hr, bind, Except.bind, pure, Except.pure] at h
          cases h
          obtain ⟨h1, h2, h3, h4, h5⟩ := ih restO (i + 1) ss' os' hr
          refine ⟨by simp [h1], by simp [h2], by simp; omega, ?_, ?_⟩
          · intro k hk ho
            cases k with
            | zero => exact ⟨s', o', by simpa using hc, rfl, rfl⟩
            | succ k =>
              have hk' : k < restS.length := by simpa using hk
              have ho' : k < restO.length := by simpa using ho
              obtain ⟨a, b, e1, e2, e3⟩ := h4 k hk' ho'
              refine ⟨a, b, ?_, by simpa using e2, by simpa using e3⟩
              have : i + (k + 1) = i + 1 + k := by omega
              simpa [this] using e1
          · intro k hk
            cases k with
            | zero => simp at hk
            | succ k => simpa using h5 k (by simpa using hk)

/-- **Cell independence.** `cellStep` for cell `i` reads, of the state and output arrays, only its own rows; so
changing ANY other cell's state row or output rows (here: replacing the whole surrounding lists) cannot change
what cell `i` computes. Stated as: the result is a function of `(params, inputs, i, own state row, own output rows)`. -/
theorem cellStep_own_rows (km : KModel α) (spec : ParamSpec) (lay : List (Nat × Nat)) (params : List (List α))
    (inputs : List (List (List α))) (i : Nat) (st : List α) (orow : List (List α))
    (cells cells' : List (List α)) (outs outs' : List (List (List α))) (k : Nat)
    (h1 : cells[k]? = some st) (h1' : cells'[k]? = some st) (h2 : outs[k]? = some orow) (h2' : outs'[k]? = some orow) :
    (match cells[k]?, outs[k]? with
      | some a, some b => cellStep km spec lay params inputs i a b
      | _, _ => .error "none") =
    (match cells'[k]?, outs'[k]? with
      | some a, some b => cellStep km spec lay params inputs i a b
      | _, _ => .error "none") := by
  rw [h1, h1', h2, h2']

/-- **run_frame (timesteps).** A successful step of cell `i` IS a run of the kernel: there are the parameter column `p`
of the cell (`cellParams`), at least one input block, and a kernel result `r` with
`km.run p inputs[i % nBlocks] st = .ok r` — `r` is the kernel's result, not an arbitrary witness — such that
* the new state row is `st` overwritten by `r.states`: same length, columns `≥ r.states.length` untouched, columns
  below it are `r.states`;
* the new output rows are as many as before; row `o` is the old row overwritten by the kernel's series `o` (same length);
  every element at a timestep `t ≥` (length of the kernel's series `o`; `0` if the kernel returned fewer series) is
  untouched, and the elements below it (inside the row) are the kernel's. -/
theorem cellStep_frame (km : KModel α) (spec : ParamSpec) (lay : List (Nat × Nat)) (params : List (List α))
    (inputs : List (List (List α))) (i : Nat) (st : List α) (orow : List (List α)) (s' : List α) (o' : List (List α))
    (h : cellStep km spec lay params inputs i st orow = .ok (s', o')) :
    s'.length = st.length ∧ o'.length = orow.length ∧ inputs.length ≠ 0 ∧
    ∃ (p : List α) (r : KOut α), cellParams spec lay params i = .ok p ∧
      km.run p (inputs[i % inputs.length]?.getD []) st = .ok r ∧
      s' = overwrite st r.states ∧
      (∀ k, r.states.length ≤ k → s'[k]? = st[k]?) ∧
      (∀ k, k < r.states.length → k < st.length → s'[k]? = r.states[k]?) ∧
      (∀ o (ho : o < orow.length), o'[o]? = some (overwrite orow[o] (r.outputs[o]?.getD []))) ∧
      (∀ (o t : Nat), (r.outputs[o]?.getD []).length ≤ t → (o'[o]?).bind (·[t]?) = (orow[o]?).bind (·[t]?)) ∧
      (∀ (o t : Nat) (ho : o < orow.length), t < (r.outputs[o]?.getD []).length → t < orow[o].length →
        (o'[o]?).bind (·[t]?) = (r.outputs[o]?.getD [])[t]?) := by
  have hb := cellStep_ok_blocks h
  rw [cellStep_blocks _ _ _ _ _ _ _ _ hb] at h
  cases hp : cellParams spec lay params i with
  | error e => simp [hp, bind, Except.bind] at h
  | ok p =>
    cases hr : km.run p (inputs[i % inputs.length]?.getD []) st with
    | error e => simp [hp, hr, bind, Except.bind] at h
    | ok r =>
      simp only [hp, hr, bind, Except.bind, pure, Except.pure] at h
      injection h with h
      injection h with hs ho
      subst hs
      have hlen : o'.length = orow.length := by
        subst ho
        simp only [List.length_map, List.length_zip, List.length_append, List.length_replicate]
        omega
      have hrow : ∀ o (ho' : o < orow.length), o'[o]? = some (overwrite orow[o] (r.outputs[o]?.getD [])) := by
        intro o ho'
        subst ho
        exact newRows_getElem? orow r.outputs o ho'
      refine ⟨overwrite_length _ _, hlen, hb, p, r, rfl, hr, rfl, fun k hk => overwrite_frame _ _ k hk,
        fun k hk hk' => overwrite_written _ _ k hk hk', hrow, fun o t ht => ?_, fun o t ho' ht ht' => ?_⟩
      · by_cases ho' : o < orow.length
        · rw [hrow o ho', List.getElem?_eq_getElem ho']
          exact overwrite_frame _ _ t ht
        · rw [List.getElem?_eq_none (by omega), List.getElem?_eq_none (by omega)]
      · rw [hrow o ho']
        exact overwrite_written _ _ t ht ht'

/-- **Cyclic reuse of input blocks**: cell `i` is run on input block `i % nBlocks` (when there are blocks). -/
theorem cellStep_input_block (km : KModel α) (spec : ParamSpec) (lay : List (Nat × Nat)) (params : List (List α))
    (inputs : List (List (List α))) (i : Nat) (st : List α) (orow : List (List α)) (p : List α)
    (hp : cellParams spec lay params i = .ok p) (hb : 0 < inputs.length) :
    cellStep km spec lay params inputs i st orow =
      (do let r ← km.run p (inputs[i % inputs.length]'(Nat.mod_lt _ hb)) st
          pure (overwrite st r.states,
            (orow.zip (r.outputs ++ List.replicate (orow.length - r.outputs.length) [])).map
              fun (old, new) => overwrite old new)) := by
  rw [cellStep_blocks _ _ _ _ _ _ _ _ (by omega)]
  have : inputs[i % inputs.length]?.getD [] = inputs[i % inputs.length]'(Nat.mod_lt _ hb) := by
    rw [List.getElem?_eq_getElem (Nat.mod_lt _ hb)]; rfl
  simp [hp, this, bind, Except.bind]


/-! ### Parameter decoding (scalar parameters): cell `i` gets `parameters[row j][i % nSets]` -/

/-- all-scalar layout: parameter `j` occupies exactly row `j` -/
theorem layout_go_scalar (params : List (List α)) :
    ∀ (n idx : Nat) (acc : List (Nat × Nat)) (maxv : List Int), idx + n ≤ params.length →
      layout.go params (List.replicate n none) idx acc maxv =
        .ok (acc.reverse ++ (List.range n).map fun j => (idx + j, 1)) := by
  intro n
  induction n with
  | zero => intro idx acc maxv _; simp [layout.go]
  | succ n ih =>
    intro idx acc maxv h
    have hlen : ((params.drop idx).take 1).length = 1 := by
      simp only [List.length_take, List.length_drop]; omega
    simp only [List.replicate_succ, layout.go]
    rw [if_neg (by omega)]
    rw [ih (idx + 1) _ _ (by omega)]
    congr 1
    simp only [List.reverse_cons, List.append_assoc, List.range_succ_eq_map, List.map_cons, List.map_map]
    congr 1
    simp only [List.cons_append, List.nil_append, Nat.add_zero]
    congr 1
    apply List.map_congr_left
    intro j _
    simp only [Function.comp]
    congr 1; omega

/-- **param_decoding (scalars)**: for a model whose `n` parameters are all scalars and a parameter array with at
least `n` rows, the layout is row `j` for parameter `j`. -/
theorem layout_scalar (n : Nat) (params : List (List α)) (h : n ≤ params.length) :
    layout (List.replicate n none) params = .ok ((List.range n).map fun j => (j, 1)) := by
  unfold layout
  rw [layout_go_scalar params n 0 [] [] (by omega)]
  simp

/-- the value a scalar parameter stored in row `j` takes for cell `i`: column `i % nSets` (cyclic reuse of sets) -/
def pick (params : List (List α)) (i j : Nat) : Option α :=
  match params[j]? with
  | some r => if r.length = 0 then none else r[i % r.length]?
  | none => none

theorem cellParams_go_scalar (params : List (List α)) (i : Nat) :
    ∀ (js : List Nat) (acc vals : List α), (∀ j ∈ js, (pick params i j).isSome) →
      cellParams.go params i (js.map fun j => (none, (j, 1))) acc vals =
        .ok (acc ++ js.filterMap (pick params i)) := by
  intro js
  induction js with
  | nil => intro acc vals _; simp [cellParams.go]
  | cons j js ih =>
    intro acc vals h
    have hj := h j (List.mem_cons_self)
    unfold pick at hj
    simp only [List.map_cons, cellParams.go]
    cases hr : params[j]? with
    | none => simp [hr] at hj
    | some r =>
      simp only [hr] at hj ⊢
      by_cases h0 : r.length = 0
      · simp [h0] at hj
      · simp only [h0, if_false] at hj ⊢
        cases hv : r[i % r.length]? with
        | none => simp [hv] at hj
        | some v =>
          simp only
          rw [ih _ _ (fun k hk => h k (List.mem_cons_of_mem _ hk))]
          simp [List.filterMap_cons, pick, hr, h0, hv]

/-- **param_decoding (scalars)**: cell `i`'s parameter column is `parameters[j][i % nSets]`, `j = 0 … n-1`
(when there are fewer parameter sets than cells they repeat cyclically). -/
theorem cellParams_scalar (n : Nat) (params : List (List α)) (i : Nat)
    (h : ∀ j < n, (pick params i j).isSome) :
    cellParams (List.replicate n none) ((List.range n).map fun j => (j, 1)) params i =
      .ok ((List.range n).filterMap (pick params i)) := by
  unfold cellParams
  have hz : ∀ n : Nat, (List.replicate n (none : Option Nat)).zip ((List.range n).map fun j => (j, 1)) =
      (List.range n).map fun j => ((none : Option Nat), (j, 1)) := by
    intro n
    induction n with
    | zero => simp
    | succ n ih =>
      rw [List.replicate_succ', List.range_succ, List.map_append, List.zip_append (by simp), ih, List.map_append]
      simp
  rw [hz n, cellParams_go_scalar params i (List.range n) [] [] (fun j hj => h j (List.mem_range.mp hj))]
  simp

/-! ### "run alone": cell `i` of the N-cell `Sim.run` is `Sim.run` with ONE cell on that cell's own data -/

/-- a successful `cellStep` decoded a parameter column -/
theorem cellStep_ok_params {km : KModel α} {spec : ParamSpec} {lay : List (Nat × Nat)} {params : List (List α)}
    {inputs : List (List (List α))} {i : Nat} {st : List α} {orow : List (List α)} {so : List α × List (List α)}
    (h : cellStep km spec lay params inputs i st orow = .ok so) : ∃ p, cellParams spec lay params i = .ok p := by
  rw [cellStep_blocks _ _ _ _ _ _ _ _ (cellStep_ok_blocks h)] at h
  cases hp : cellParams spec lay params i with
  | error e => simp [hp, bind, Except.bind] at h
  | ok p => exact ⟨p, rfl⟩

/-- **cellStep depends on the parameter array only through the cell's column and on the input array only through the
cell's block**: for ANY spec (tables included), if parameter array `params₁` with layout `lay₁` decodes, for its cell `0`,
to the column `params`/`lay` decode for cell `i`, then cell `i`'s step on the `nBlocks`-block input array equals cell
`0`'s step on the one-block array holding block `i % nBlocks`. -/
theorem cellStep_alone (km : KModel α) (spec : ParamSpec) (lay lay₁ : List (Nat × Nat)) (params params₁ : List (List α))
    (inputs : List (List (List α))) (i : Nat) (st : List α) (orow : List (List α)) (p : List α) (blk : List (List α))
    (hp : cellParams spec lay params i = .ok p) (hp₁ : cellParams spec lay₁ params₁ 0 = .ok p)
    (hblk : inputs[i % inputs.length]? = some blk) :
    cellStep km spec lay params inputs i st orow = cellStep km spec lay₁ params₁ [blk] 0 st orow := by
  have hb : inputs.length ≠ 0 := by
    intro h0
    rw [List.getElem?_eq_none (by omega)] at hblk
    cases hblk
  rw [cellStep_blocks _ _ _ _ _ _ _ _ hb, cellStep_blocks _ _ _ _ _ _ _ _ (by simp), hp, hp₁, hblk]
  rfl

/-- `Sim.run` with the states given, unfolded -/
theorem run_some (km : KModel α) (spec : ParamSpec) (x : RunIn α) (states : List (List α)) (hx : x.states = some states) :
    run km spec x = (do
      let lay ← layout spec x.params
      let (ss, os) ← runCells km spec lay x.params x.inputs 0 states x.outputs
      pure { outputs := os, states := ss }) := by
  unfold run
  rw [hx]
  cases layout spec x.params <;> rfl

/-- **single_cell_eq (any spec, the column given).** Let the N-cell `Run` on given states succeed with `out`. For every
cell `i` that runs there are its state row `st`, its output rows `orow`, its input block `blk = inputs[i % nBlocks]` and
its parameter column `p`, and for EVERY one-cell parameter array `params₁` that `FindDimensions`/`ApplyParameters` decode
(for its only cell) to the same column `p`: `Run` with ONE cell on `params₁`, the one block `blk`, the one state row `st`
and the one cell's output rows `orow` succeeds and returns exactly cell `i`'s part of `out`. -/
theorem single_cell_eq_of_column (km : KModel α) (spec : ParamSpec) (x : RunIn α) (states : List (List α))
    (hx : x.states = some states) (out : RunOut α) (h : run km spec x = .ok out) (i : Nat) (hi : i < states.length) :
    ∃ (lay : List (Nat × Nat)) (p st : List α) (orow blk : List (List α)) (s' : List α) (o' : List (List α)),
      layout spec x.params = .ok lay ∧ cellParams spec lay x.params i = .ok p ∧
      states[i]? = some st ∧ x.outputs[i]? = some orow ∧ x.inputs[i % x.inputs.length]? = some blk ∧
      out.states[i]? = some s' ∧ out.outputs[i]? = some o' ∧
      ∀ (params₁ : List (List α)) (lay₁ : List (Nat × Nat)), layout spec params₁ = .ok lay₁ →
        cellParams spec lay₁ params₁ 0 = .ok p →
        run km spec { params := params₁, inputs := [blk], states := some [st], nCells := 1, outputs := [orow] } =
          .ok { outputs := [o'], states := [s'] } := by
  rw [run_some km spec x states hx] at h
  cases hl : layout spec x.params with
  | error e => simp [hl, bind, Except.bind] at h
  | ok lay =>
    cases hr : runCells km spec lay x.params x.inputs 0 states x.outputs with
    | error e => simp [hl, hr, bind, Except.bind] at h
    | ok r =>
      obtain ⟨ss, os⟩ := r
      simp only [hl, hr, bind, Except.bind, pure, Except.pure] at h
      injection h with h
      subst h
      obtain ⟨_, _, hle, hstep, _⟩ := runCells_spec km spec lay x.params x.inputs states x.outputs 0 ss os hr
      have hio : i < x.outputs.length := by omega
      obtain ⟨s', o', hc, hs', ho'⟩ := hstep i hi hio
      rw [Nat.zero_add] at hc
      obtain ⟨p, hp⟩ := cellStep_ok_params hc
      have hb := cellStep_ok_blocks hc
      have hm : i % x.inputs.length < x.inputs.length := Nat.mod_lt _ (by omega)
      refine ⟨lay, p, states[i], x.outputs[i], x.inputs[i % x.inputs.length], s', o', rfl, hp,
        List.getElem?_eq_getElem hi, List.getElem?_eq_getElem hio, List.getElem?_eq_getElem hm, hs', ho', ?_⟩
      intro params₁ lay₁ hl₁ hp₁
      rw [run_some km spec _ [states[i]] rfl]
      simp only [hl₁, bind, Except.bind, runCells]
      rw [← cellStep_alone km spec lay lay₁ x.params params₁ x.inputs i states[i] x.outputs[i] p _ hp hp₁
        (List.getElem?_eq_getElem hm), hc]
      rfl

/-- the column `p` as a parameter array with ONE parameter set: row `j` is `[p[j]]` -/
def oneSet (p : List α) : List (List α) := p.map fun v => [v]

theorem filterMap_range_take (p : List α) : ∀ n, n ≤ p.length → (List.range n).filterMap (fun j => p[j]?) = p.take n
  | 0, _ => by simp
  | n + 1, h => by
    rw [List.range_succ, List.filterMap_append, filterMap_range_take p n (by omega), List.take_succ]
    simp [List.getElem?_eq_getElem (show n < p.length by omega)]

theorem filterMap_range_getElem? (p : List α) : (List.range p.length).filterMap (fun j => p[j]?) = p := by
  rw [filterMap_range_take p _ (Nat.le_refl _)]; simp

theorem pick_oneSet (p : List α) (j : Nat) : pick (oneSet p) 0 j = p[j]? := by
  unfold pick oneSet
  rw [List.getElem?_map]
  cases p[j]? <;> simp

/-- the one-set array of a column of `n` scalars decodes, for its only cell, to the column -/
theorem cellParams_oneSet (p : List α) :
    layout (List.replicate p.length none) (oneSet p) = .ok ((List.range p.length).map fun j => (j, 1)) ∧
    cellParams (List.replicate p.length none) ((List.range p.length).map fun j => (j, 1)) (oneSet p) 0 = .ok p := by
  constructor
  · exact layout_scalar p.length (oneSet p) (by simp [oneSet])
  · rw [cellParams_scalar p.length (oneSet p) 0]
    · have : pick (oneSet p) 0 = fun j => p[j]? := funext (pick_oneSet p)
      rw [this, filterMap_range_getElem?]
    · intro j hj
      rw [pick_oneSet, List.getElem?_eq_getElem hj]
      rfl

/-- a successful scalar decoding found every parameter -/
theorem cellParams_go_scalar_some (params : List (List α)) (i : Nat) :
    ∀ (js : List Nat) (acc vals p : List α),
      cellParams.go params i (js.map fun j => (none, (j, 1))) acc vals = .ok p → ∀ j ∈ js, (pick params i j).isSome := by
  intro js
  induction js with
  | nil => intro _ _ _ _ j hj; cases hj
  | cons j0 js ih =>
    intro acc vals p h j hj
    simp only [List.map_cons, cellParams.go] at h
    cases hr : params[j0]? with
    | none => simp [hr] at h
    | some r =>
      simp only [hr] at h
      by_cases h0 : r.length = 0
      · simp [h0] at h
      · simp only [h0, if_false] at h
        cases hv : r[i % r.length]? with
        | none => simp [hv] at h
        | some v =>
          simp only [hv] at h
          rcases List.mem_cons.mp hj with rfl | hj'
          · simp [pick, hr, h0, hv]
          · exact ih _ _ _ h j hj'

/-- the column of `n` scalar parameters has `n` entries -/
theorem cellParams_scalar_length (n : Nat) (params : List (List α)) (i : Nat) (p : List α)
    (h : cellParams (List.replicate n none) ((List.range n).map fun j => (j, 1)) params i = .ok p) :
    p.length = n ∧ ∀ j, j < n → pick params i j = p[j]? := by
  have hz : ∀ n : Nat, (List.replicate n (none : Option Nat)).zip ((List.range n).map fun j => (j, 1)) =
      (List.range n).map fun j => ((none : Option Nat), (j, 1)) := by
    intro n
    induction n with
    | zero => simp
    | succ n ih =>
      rw [List.replicate_succ', List.range_succ, List.map_append, List.zip_append (by simp), ih, List.map_append]
      simp
  have hsome : ∀ j < n, (pick params i j).isSome := by
    intro j hj
    unfold cellParams at h
    rw [hz n] at h
    exact cellParams_go_scalar_some params i (List.range n) [] [] p h j (List.mem_range.mpr hj)
  rw [cellParams_scalar n params i hsome] at h
  injection h with h
  subst h
  have key : ∀ (m : Nat), (∀ j < m, (pick params i j).isSome) →
      ((List.range m).filterMap (pick params i)).length = m ∧
      ∀ j, j < m → pick params i j = ((List.range m).filterMap (pick params i))[j]? := by
    intro m
    induction m with
    | zero => intro _; exact ⟨rfl, fun j hj => absurd hj (Nat.not_lt_zero j)⟩
    | succ m ih =>
      intro hm
      obtain ⟨l1, l2⟩ := ih (fun j hj => hm j (by omega))
      obtain ⟨v, hv⟩ := Option.isSome_iff_exists.mp (hm m (by omega))
      rw [List.range_succ, List.filterMap_append]
      simp only [List.filterMap_cons, hv, List.filterMap_nil]
      refine ⟨by simp [l1], fun j hj => ?_⟩
      by_cases hjm : j < m
      · rw [List.getElem?_append_left (by omega)]; exact l2 j hjm
      · have : j = m := by omega
        subst this
        rw [List.getElem?_append_right (by omega), l1, Nat.sub_self, hv]
        rfl
  exact key n hsome

/-- **single_cell_eq** (specs with `n` scalar parameters). Let the vectorised `Run` on `N` cells (given states; a
parameter array with at least `n` rows, any number of parameter sets and input blocks, both reused cyclically; output
array possibly oversized) succeed with `out`. Then for every cell `i < N`: with `p` the cell's own parameter column
(`p[j] = parameters[j][i % nSets]`), `blk = inputs[i % nBlocks]` its input block, `st` its state row and `orow` its output
rows, `Run` ALONE — one cell, the one-set parameter array `oneSet p`, the one block `blk`, the one state row, the one
cell's output rows — succeeds and returns exactly cell `i`'s state row and output rows of `out`. -/
theorem single_cell_eq (km : KModel α) (n : Nat) (x : RunIn α) (states : List (List α)) (hx : x.states = some states)
    (hn : n ≤ x.params.length) (out : RunOut α) (h : run km (List.replicate n none) x = .ok out) (i : Nat)
    (hi : i < states.length) :
    ∃ (p st : List α) (orow blk : List (List α)) (s' : List α) (o' : List (List α)),
      p.length = n ∧ (∀ j, j < n → pick x.params i j = p[j]?) ∧
      states[i]? = some st ∧ x.outputs[i]? = some orow ∧ x.inputs[i % x.inputs.length]? = some blk ∧
      out.states[i]? = some s' ∧ out.outputs[i]? = some o' ∧
      run km (List.replicate n none)
          { params := oneSet p, inputs := [blk], states := some [st], nCells := 1, outputs := [orow] } =
        .ok { outputs := [o'], states := [s'] } := by
  obtain ⟨lay, p, st, orow, blk, s', o', hl, hp, h1, h2, h3, h4, h5, hall⟩ :=
    single_cell_eq_of_column km _ x states hx out h i hi
  rw [layout_scalar n x.params hn] at hl
  injection hl with hl
  subst hl
  obtain ⟨hlen, hpick⟩ := cellParams_scalar_length n x.params i p hp
  obtain ⟨q1, q2⟩ := cellParams_oneSet p
  rw [hlen] at q1 q2
  exact ⟨p, st, orow, blk, s', o', hlen, hpick, h1, h2, h3, h4, h5, hall (oneSet p) _ q1 q2⟩

/-! ### Non-vacuity: the registry kernel `RunoffCoefficient` on 3 cells, 2 parameter sets, 2 input blocks -/

section Example
/-- the empty run -/
example (km : KModel α) (spec : ParamSpec) :
    runCells km spec [] [] [] 0 [] [[[]]] = .ok ([], [[[]]]) := rfl

/-- the REGISTRY kernel `RunoffCoefficient` on 3 cells, 2 parameter sets (`a`, `b`), 2 input blocks of 2 timesteps, an
oversized output array (4 cell rows, 3 timesteps, sentinel `e`), over any arithmetic -/
def xC (a b u v w z e : α) : RunIn α :=
  { params := [[a, b]], inputs := [[[u, v]], [[w, z]]], states := some [[], [], []], nCells := 3,
    outputs := [[[e, e, e]], [[e, e, e]], [[e, e, e]], [[e, e, e]]] }

/-- the vectorised run succeeds: cells 0 and 2 use set 0 / block 0, cell 1 uses set 1 / block 1; timestep 2 of every row
and row 3 keep the sentinel -/
theorem xC_run (a b u v w z e : α) : run (Kernels.Coeff.model (α := α)) [none] (xC a b u v w z e) =
    .ok { outputs := [[[a * u, a * v, e]], [[b * w, b * z, e]], [[a * u, a * v, e]], [[e, e, e]]],
          states := [[], [], []] } := by
  simp [run, xC, layout, layout.go, runCells, cellStep, cellParams, cellParams.go, Kernels.Coeff.model, Kernels.Coeff.run,
    overwrite, bind, Except.bind, pure, Except.pure]

/-- `single_cell_eq` applies to it (cell 1) … -/
example (a b u v w z e : α) :=
  single_cell_eq (Kernels.Coeff.model (α := α)) 1 (xC a b u v w z e) [[], [], []] rfl (Nat.le_refl 1) _
    (xC_run a b u v w z e) 1 (by simp)

/-- … and the run ALONE of cell 1 (its column `[b]` as a one-set array, its block, its rows) is what the theorem says -/
example (a b u v w z e : α) : run (Kernels.Coeff.model (α := α)) [none]
    { params := oneSet [b], inputs := [[[w, z]]], states := some [[]], nCells := 1, outputs := [[[e, e, e]]] } =
    .ok { outputs := [[[b * w, b * z, e]]], states := [[]] } := by
  simp [run, oneSet, layout, layout.go, runCells, cellStep, cellParams, cellParams.go, Kernels.Coeff.model,
    Kernels.Coeff.run, overwrite, bind, Except.bind, pure, Except.pure]

/-- `cellStep_frame` applies to a step of it, with the witness tied to the kernel -/
example (a b u v w z e : α) (s' : List α) (o' : List (List α))
    (h : cellStep (Kernels.Coeff.model (α := α)) [none] [(0, 1)] [[a, b]] [[[u, v]], [[w, z]]] 1 [] [[e, e, e]] = .ok (s', o')) :=
  cellStep_frame _ _ _ _ _ _ _ _ _ _ h

/-- no input block: the step is Go's integer-divide-by-zero panic, whatever the kernel -/
example (km : KModel α) (a : α) : cellStep km [none] [(0, 1)] [[a]] [] 0 [] [] = .error "int-div-zero" := rfl
end Example

end OW.Props.C04
