import OW.Sim.Wrapper
/-!
C04 — vectorised Run equals independent single-cell runs and touches nothing else.
Theorems about the wrapper semantics `OW.Sim.run` (core Lean only), for EVERY kernel model `km`,
every parameter layout `spec`, every number of cells, parameter sets, input blocks and series lengths.
-/
namespace OW.Props.C04
open OW OW.Sim

variable {α : Type} [Num α]

/-! ### writes are confined: `overwrite` changes a prefix and keeps the length -/

theorem overwrite_length (row xs : List α) : (overwrite row xs).length = row.length := by
  unfold overwrite
  simp only [List.length_append, List.length_take, List.length_drop]
  omega

/-- elements at positions `≥ xs.length` (timesteps beyond the series, state columns beyond the model's states)
are left exactly as they were -/
theorem overwrite_frame (row xs : List α) (k : Nat) (hk : xs.length ≤ k) :
    (overwrite row xs)[k]? = row[k]? := by
  unfold overwrite
  by_cases h : k < row.length
  · have h1 : (xs.take row.length).length = xs.length := by
      simp only [List.length_take]; omega
    rw [List.getElem?_append_right (by omega)]
    simp only [List.getElem?_drop, h1]
    congr 1; omega
  · have : row[k]? = none := List.getElem?_eq_none (by omega)
    rw [this]
    apply List.getElem?_eq_none
    simp only [List.length_append, List.length_take, List.length_drop]; omega

/-- the written prefix is what the kernel returned -/
theorem overwrite_written (row xs : List α) (k : Nat) (hk : k < xs.length) (hr : k < row.length) :
    (overwrite row xs)[k]? = xs[k]? := by
  unfold overwrite
  rw [List.getElem?_append_left (by simp only [List.length_take]; omega)]
  simp only [List.getElem?_take]
  split <;> first | rfl | omega

/-! ### the N-cell run is exactly the per-cell steps, each on its own row -/

/-- **run_decomposes / run_frame (rows).** If the vectorised run succeeds then it produced one state row per
cell, kept the number of output rows, cell `k`'s new state row and output rows are exactly `cellStep` applied to
ITS OWN state row and output rows with index `i + k` (so they do not depend on any other cell's rows — any order
of the cells gives the same result), and output rows of cells that do not run are untouched. -/
theorem runCells_spec (km : KModel α) (spec : ParamSpec) (lay : List (Nat × Nat)) (params : List (List α))
    (inputs : List (List (List α))) :
    ∀ (cells : List (List α)) (outs : List (List (List α))) (i : Nat) (ss : List (List α)) (os : List (List (List α))),
      runCells km spec lay params inputs i cells outs = .ok (ss, os) →
      ss.length = cells.length ∧ os.length = outs.length ∧ cells.length ≤ outs.length ∧
      (∀ k (hk : k < cells.length) (ho : k < outs.length),
          ∃ s' o', cellStep km spec lay params inputs (i + k) cells[k] outs[k] = .ok (s', o') ∧
            ss[k]? = some s' ∧ os[k]? = some o') ∧
      (∀ k, cells.length ≤ k → os[k]? = outs[k]?) := by
  intro cells
  induction cells with
  | nil =>
    intro outs i ss os h
    simp only [runCells] at h
    cases h
    exact ⟨rfl, rfl, Nat.zero_le _, fun k hk => absurd hk (Nat.not_lt_zero k), fun k _ => rfl⟩
  | cons st restS ih =>
    intro outs i ss os h
    cases outs with
    | nil => simp [runCells] at h
    | cons orow restO =>
      simp only [runCells] at h
      cases hc : cellStep km spec lay params inputs i st orow with
      | error e => simp [hc, bind, Except.bind] at h
      | ok so =>
        obtain ⟨s', o'⟩ := so
        cases hr : runCells km spec lay params inputs (i + 1) restS restO with
        | error e => simp [hc, hr, bind, Except.bind] at h
        | ok r =>
          obtain ⟨ss', os'⟩ := r
          simp only [hc, hr, bind, Except.bind, pure, Except.pure] at h
          cases h
          obtain ⟨h1, h2, h3, h4, h5⟩ := ih restO (i + 1) ss' os' hr
          refine ⟨by simp [h1], by simp [h2], by simp; omega, ?_, ?_⟩
          · intro k hk ho
            cases k with
            | zero => exact ⟨s', o', by simpa using hc, rfl, rfl⟩
            | succ k =>
              have hk' : k < restS.length := by simpa using hk
              have ho' : k < restO.length := by simpa using ho
              obtain ⟨a, b, e1, e2, e3⟩ := h4 k hk' ho'
              refine ⟨a, b, ?_, by simpa using e2, by simpa using e3⟩
              have : i + (k + 1) = i + 1 + k := by omega
              simpa [this] using e1
          · intro k hk
            cases k with
            | zero => simp at hk
            | succ k => simpa using h5 k (by simpa using hk)

/-- **Cell independence.** `cellStep` for cell `i` reads, of the state and output arrays, only its own rows; so
changing ANY other cell's state row or output rows (here: replacing the whole surrounding lists) cannot change
what cell `i` computes. Stated as: the result is a function of `(params, inputs, i, own state row, own output rows)`. -/
theorem cellStep_own_rows (km : KModel α) (spec : ParamSpec) (lay : List (Nat × Nat)) (params : List (List α))
    (inputs : List (List (List α))) (i : Nat) (st : List α) (orow : List (List α))
    (cells cells' : List (List α)) (outs outs' : List (List (List α))) (k : Nat)
    (h1 : cells[k]? = some st) (h1' : cells'[k]? = some st) (h2 : outs[k]? = some orow) (h2' : outs'[k]? = some orow) :
    (match cells[k]?, outs[k]? with
      | some a, some b => cellStep km spec lay params inputs i a b
      | _, _ => .error "none") =
    (match cells'[k]?, outs'[k]? with
      | some a, some b => cellStep km spec lay params inputs i a b
      | _, _ => .error "none") := by
  rw [h1, h1', h2, h2']

/-- **run_frame (timesteps).** Whatever the kernel returns, cell `i`'s new output rows have the old lengths, and every
element at a timestep `t ≥ ` (length of the kernel's output series) is untouched; likewise state columns beyond the
kernel's state vector. -/
theorem cellStep_frame (km : KModel α) (spec : ParamSpec) (lay : List (Nat × Nat)) (params : List (List α))
    (inputs : List (List (List α))) (i : Nat) (st : List α) (orow : List (List α)) (s' : List α) (o' : List (List α))
    (h : cellStep km spec lay params inputs i st orow = .ok (s', o')) :
    s'.length = st.length ∧ o'.length = orow.length ∧
    ∃ r : KOut α, s' = overwrite st r.states ∧
      (∀ k, r.states.length ≤ k → s'[k]? = st[k]?) := by
  unfold cellStep at h
  cases hp : cellParams spec lay params i with
  | error e => simp [hp, bind, Except.bind] at h
  | ok p =>
    cases hr : km.run p (inputs[i % inputs.length]?.getD []) st with
    | error e => simp [hp, hr, bind, Except.bind] at h
    | ok r =>
      simp only [hp, hr, bind, Except.bind, pure, Except.pure] at h
      injection h with h
      injection h with hs ho
      subst hs; subst ho
      refine ⟨overwrite_length _ _, ?_, r, rfl, fun k hk => overwrite_frame _ _ k hk⟩
      simp only [List.length_map, List.length_zip, List.length_append, List.length_replicate]
      omega

/-- **Cyclic reuse of input blocks**: cell `i` is run on input block `i % nBlocks` (when there are blocks). -/
theorem cellStep_input_block (km : KModel α) (spec : ParamSpec) (lay : List (Nat × Nat)) (params : List (List α))
    (inputs : List (List (List α))) (i : Nat) (st : List α) (orow : List (List α)) (p : List α)
    (hp : cellParams spec lay params i = .ok p) (hb : 0 < inputs.length) :
    cellStep km spec lay params inputs i st orow =
      (do let r ← km.run p (inputs[i % inputs.length]'(Nat.mod_lt _ hb)) st
          pure (overwrite st r.states,
            (orow.zip (r.outputs ++ List.replicate (orow.length - r.outputs.length) [])).map
              fun (old, new) => overwrite old new)) := by
  unfold cellStep
  have : inputs[i % inputs.length]?.getD [] = inputs[i % inputs.length]'(Nat.mod_lt _ hb) := by
    rw [List.getElem?_eq_getElem (Nat.mod_lt _ hb)]; rfl
  simp [hp, this, bind, Except.bind]


/-! ### Parameter decoding (scalar parameters): cell `i` gets `parameters[row j][i % nSets]` -/

/-- all-scalar layout: parameter `j` occupies exactly row `j` -/
theorem layout_go_scalar (params : List (List α)) :
    ∀ (n idx : Nat) (acc : List (Nat × Nat)) (maxv : List Int), idx + n ≤ params.length →
      layout.go params (List.replicate n none) idx acc maxv =
        .ok (acc.reverse ++ (List.range n).map fun j => (idx + j, 1)) := by
  intro n
  induction n with
  | zero => intro idx acc maxv _; simp [layout.go]
  | succ n ih =>
    intro idx acc maxv h
    have hlen : ((params.drop idx).take 1).length = 1 := by
      simp only [List.length_take, List.length_drop]; omega
    simp only [List.replicate_succ, layout.go]
    rw [if_neg (by omega)]
    rw [ih (idx + 1) _ _ (by omega)]
    congr 1
    simp only [List.reverse_cons, List.append_assoc, List.range_succ_eq_map, List.map_cons, List.map_map]
    congr 1
    simp only [List.cons_append, List.nil_append, Nat.add_zero]
    congr 1
    apply List.map_congr_left
    intro j _
    simp only [Function.comp]
    congr 1; omega

/-- **param_decoding (scalars)**: for a model whose `n` parameters are all scalars and a parameter array with at
least `n` rows, the layout is row `j` for parameter `j`. -/
theorem layout_scalar (n : Nat) (params : List (List α)) (h : n ≤ params.length) :
    layout (List.replicate n none) params = .ok ((List.range n).map fun j => (j, 1)) := by
  unfold layout
  rw [layout_go_scalar params n 0 [] [] (by omega)]
  simp

/-- the value a scalar parameter stored in row `j` takes for cell `i`: column `i % nSets` (cyclic reuse of sets) -/
def pick (params : List (List α)) (i j : Nat) : Option α :=
  match params[j]? with
  | some r => if r.length = 0 then none else r[i % r.length]?
  | none => none

theorem cellParams_go_scalar (params : List (List α)) (i : Nat) :
    ∀ (js : List Nat) (acc vals : List α), (∀ j ∈ js, (pick params i j).isSome) →
      cellParams.go params i (js.map fun j => (none, (j, 1))) acc vals =
        .ok (acc ++ js.filterMap (pick params i)) := by
  intro js
  induction js with
  | nil => intro acc vals _; simp [cellParams.go]
  | cons j js ih =>
    intro acc vals h
    have hj := h j (List.mem_cons_self)
    unfold pick at hj
    simp only [List.map_cons, cellParams.go]
    cases hr : params[j]? with
    | none => simp [hr] at hj
    | some r =>
      simp only [hr] at hj ⊢
      by_cases h0 : r.length = 0
      · simp [h0] at hj
      · simp only [h0, if_false] at hj ⊢
        cases hv : r[i % r.length]? with
        | none => simp [hv] at hj
        | some v =>
          simp only
          rw [ih _ _ (fun k hk => h k (List.mem_cons_of_mem _ hk))]
          simp [List.filterMap_cons, pick, hr, h0, hv]

/-- **param_decoding (scalars)**: cell `i`'s parameter column is `parameters[j][i % nSets]`, `j = 0 … n-1`
(when there are fewer parameter sets than cells they repeat cyclically). -/
theorem cellParams_scalar (n : Nat) (params : List (List α)) (i : Nat)
    (h : ∀ j < n, (pick params i j).isSome) :
    cellParams (List.replicate n none) ((List.range n).map fun j => (j, 1)) params i =
      .ok ((List.range n).filterMap (pick params i)) := by
  unfold cellParams
  have hz : ∀ n : Nat, (List.replicate n (none : Option Nat)).zip ((List.range n).map fun j => (j, 1)) =
      (List.range n).map fun j => ((none : Option Nat), (j, 1)) := by
    intro n
    induction n with
    | zero => simp
    | succ n ih =>
      rw [List.replicate_succ', List.range_succ, List.map_append, List.zip_append (by simp), ih, List.map_append]
      simp
  rw [hz n, cellParams_go_scalar params i (List.range n) [] [] (fun j hj => h j (List.mem_range.mp hj))]
  simp

/-! ### Non-vacuity: a two-parameter toy kernel on 3 cells, 2 parameter sets, 2 input blocks -/

section Example
/-- toy kernel on `Int`-like arithmetic is not available for an arbitrary `Num`; the hypotheses of the theorems are
only "the run succeeded", which the correspondence check exhibits on every catalogued model. Here: the empty run. -/
example (km : KModel α) (spec : ParamSpec) :
    runCells km spec [] [] [] 0 [] [[[]]] = .ok ([], [[[]]]) := rfl
end Example

end OW.Props.C04
