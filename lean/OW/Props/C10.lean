import OW.Proofs.Surm
import OW.Proofs.Simhyd
import OW.Proofs.GR4JBudget
import OW.Proofs.GR4JModel
import OW.Proofs.Sacramento
import OW.Kernels.Coeff
/-!
C10 — rainfall-runoff models never create water and keep stores within bounds.

Kernel models: OW/Kernels/{Coeff,Surm,Simhyd,GR4J,Sacramento}.lean (mirrors of models/rr/*.go, tied to the Go code on
every run by the K correspondence). Theorems are over exact real arithmetic (`Num ℝ`), parameters in their
physically meaningful ranges, rainfall and PET non-negative, initial state = the model's own or any state satisfying
the invariant. Every divisor is proved non-zero from the parameter ranges (`*_divisors_pos`).
"No water created" is stated for every prefix of every run: Σ runoff (+ Σ reported AET) ≤ Σ rainfall + storage₀.
-/
namespace OW.Props.C10
open OW OW.Kernels

/-- a two-day series used by the non-vacuity examples: a wet day with PET, then a dry day -/
def demoSeries : List (ℝ × ℝ) := [(10, 2), (0, 3)]

theorem demoSeries_nonneg : ∀ x ∈ demoSeries, 0 ≤ x.1 ∧ 0 ≤ x.2 := by
  intro x hx
  simp only [demoSeries, List.mem_cons, List.not_mem_nil, or_false] at hx
  rcases hx with rfl | rfl <;> norm_num

/-- the same rainfall with zero PET (GR4J closed balance) -/
def demoSeriesNoPet : List (ℝ × ℝ) := [(10, 0), (0, 0), (25, 0)]

theorem demoSeriesNoPet_ok : ∀ x ∈ demoSeriesNoPet, 0 ≤ x.1 ∧ x.2 = 0 := by
  intro x hx
  simp only [demoSeriesNoPet, List.mem_cons, List.not_mem_nil, or_false] at hx
  rcases hx with rfl | rfl | rfl <;> norm_num

/-! ## RunoffCoefficient -/

/-- the only reported component is the total: runoff_t = coeff · rain_t (any coeff) -/
theorem coeff_components_sum (c : ℝ) (rain : List ℝ) : Coeff.run c rain = rain.map (fun r => c * r) := rfl

/-- 0 ≤ coeff ≤ 1, rain ≥ 0: every output is non-negative and at most that day's rainfall -/
theorem coeff_bounds (c : ℝ) (hc0 : 0 ≤ c) (hc1 : c ≤ 1) (rain : List ℝ) (hr : ∀ r ∈ rain, 0 ≤ r) :
    List.Forall₂ (fun r q => 0 ≤ q ∧ q ≤ r) rain (Coeff.run c rain) := by
  induction rain with
  | nil => exact List.Forall₂.nil
  | cons r rs ih =>
    have hr0 := hr r (List.mem_cons_self ..)
    exact List.Forall₂.cons ⟨mul_nonneg hc0 hr0, by nlinarith⟩ (ih (fun x hx => hr x (List.mem_cons_of_mem _ hx)))

/-- for every prefix: cumulative runoff ≤ cumulative rainfall (the model has no store) -/
theorem coeff_no_water_created (c : ℝ) (hc1 : c ≤ 1) (rain : List ℝ) (hr : ∀ r ∈ rain, 0 ≤ r)
    (n : ℕ) : ((Coeff.run c rain).take n).sum ≤ (rain.take n).sum := by
  have h : ∀ l : List ℝ, (∀ r ∈ l, 0 ≤ r) → (l.map (fun r => c * r)).sum ≤ l.sum := by
    intro l hl
    induction l with
    | nil => simp
    | cons r rs ih =>
      have hr0 := hl r (List.mem_cons_self ..)
      have := ih (fun x hx => hl x (List.mem_cons_of_mem _ hx))
      simp only [List.map_cons, List.sum_cons]
      nlinarith
  rw [coeff_components_sum, ← List.map_take]
  exact h _ (fun r hr' => hr r (List.mem_of_mem_take hr'))

example : (0 : ℝ) ≤ 0.35 ∧ (0.35 : ℝ) ≤ 1 ∧ ∀ r ∈ [(12 : ℝ), 0, 3.5], 0 ≤ r := by
  refine ⟨by norm_num, by norm_num, ?_⟩
  intro r hr
  simp only [List.mem_cons, List.not_mem_nil, or_false] at hr
  rcases hr with rfl | rfl | rfl <;> norm_num

/-! ## SURM -/

/-- runoff = quickflow + baseflow on every step of every run (any parameters, any inputs, any state) -/
theorem surm_components_sum (p : Surm.Params ℝ) (s : Surm.State ℝ) (xs : List (ℝ × ℝ)) :
    ∀ o ∈ (Surm.run p s xs).2, o.runoff = o.quickflow + o.baseflow := by
  induction xs generalizing s with
  | nil => intro o ho; simp [Surm.run, scan] at ho
  | cons x xs ih =>
    intro o ho
    simp only [Surm.run, scan, List.mem_cons] at ho
    rcases ho with rfl | ho
    · rfl
    · exact ih _ o ho

/-- the only divisor of the loop body is smax -/
theorem surm_divisors_pos (p : Surm.Params ℝ) (hp : RR.Surm.ParamsOk p) : p.smax ≠ 0 :=
  (RR.Surm.divisors_pos p hp).ne'

/-- **Invariant.** Parameters in range (fractions in [0,1], smax ≥ 10 mm), rain/PET ≥ 0, initial stores within
bounds: after every run 0 ≤ soil store ≤ smax, groundwater ≥ 0, and every output (runoff, quickflow, baseflow,
reported store) is non-negative with runoff = quickflow + baseflow. -/
theorem surm_invariant (p : Surm.Params ℝ) (hp : RR.Surm.ParamsOk p) (s : Surm.State ℝ) (hs : RR.Surm.Inv p s)
    (xs : List (ℝ × ℝ)) (hx : ∀ x ∈ xs, 0 ≤ x.1 ∧ 0 ≤ x.2) :
    RR.Surm.Inv p (Surm.run p s xs).1 ∧ ∀ o ∈ (Surm.run p s xs).2, RR.Surm.OutOk o := by
  have h := RR.scan_budget_le (Surm.step p) (RR.Surm.Inv p) (fun x => 0 ≤ x.1 ∧ 0 ≤ x.2) (RR.Surm.stor p)
    (fun x => x.1) (fun o => o.runoff) RR.Surm.OutOk (fun s x hs hx => RR.Surm.step_spec p hp s x hs hx) xs s hs hx
  exact ⟨h.1, h.2.2⟩

/-- **Budget invariant.** cumulative runoff + water held ≤ cumulative rainfall + water held initially
(water held = (1 − fimp)·(soil store + groundwater), per unit catchment area). -/
theorem surm_budget (p : Surm.Params ℝ) (hp : RR.Surm.ParamsOk p) (s : Surm.State ℝ) (hs : RR.Surm.Inv p s)
    (xs : List (ℝ × ℝ)) (hx : ∀ x ∈ xs, 0 ≤ x.1 ∧ 0 ≤ x.2) :
    ((Surm.run p s xs).2.map (·.runoff)).sum + RR.Surm.stor p (Surm.run p s xs).1 ≤
      (xs.map (·.1)).sum + RR.Surm.stor p s :=
  (RR.scan_budget_le (Surm.step p) (RR.Surm.Inv p) (fun x => 0 ≤ x.1 ∧ 0 ≤ x.2) (RR.Surm.stor p)
    (fun x => x.1) (fun o => o.runoff) RR.Surm.OutOk (fun s x hs hx => RR.Surm.step_spec p hp s x hs hx) xs s hs hx).2.1

/-- **No water created**, every prefix: Σ_{t<n} runoff ≤ Σ_{t<n} rain + initial storage. -/
theorem surm_no_water_created (p : Surm.Params ℝ) (hp : RR.Surm.ParamsOk p) (s : Surm.State ℝ)
    (hs : RR.Surm.Inv p s) (xs : List (ℝ × ℝ)) (hx : ∀ x ∈ xs, 0 ≤ x.1 ∧ 0 ≤ x.2) (n : ℕ) :
    (((Surm.run p s xs).2.take n).map (·.runoff)).sum ≤ ((xs.take n).map (·.1)).sum + RR.Surm.stor p s :=
  RR.prefix_budget (Surm.step p) (RR.Surm.Inv p) (fun x => 0 ≤ x.1 ∧ 0 ≤ x.2) (RR.Surm.stor p)
    (fun x => x.1) (fun o => o.runoff) RR.Surm.OutOk (fun s x hs hx => RR.Surm.step_spec p hp s x hs hx)
    (fun s hs => mul_nonneg (by linarith [hp.fimp1]) (by linarith [hs.1, hs.2.2])) xs s hs hx n

/-- non-vacuity: a parameter set in range, the model's own (empty) initial state -/
example : RR.Surm.ParamsOk ⟨0.3, 120, 0.05, 0.4, 0.1, 0.5, 150, 3, 2⟩ ∧
    RR.Surm.Inv ⟨0.3, 120, 0.05, 0.4, 0.1, 0.5, 150, 3, 2⟩ ⟨0, 0, 0⟩ := by
  refine ⟨by constructor <;> norm_num, ?_⟩
  unfold RR.Surm.Inv; norm_num

/-- the hypotheses of the SURM theorems are met by a concrete non-trivial run (rain on day 1, both prefixes) -/
example : (((Surm.run ⟨0.3, 120, 0.05, 0.4, 0.1, 0.5, 150, 3, 2⟩ ⟨0, 0, 0⟩ demoSeries).2.take 2).map (·.runoff)).sum ≤
    ((demoSeries.take 2).map (·.1)).sum + RR.Surm.stor ⟨0.3, 120, 0.05, 0.4, 0.1, 0.5, 150, 3, 2⟩ ⟨0, 0, 0⟩ :=
  surm_no_water_created _ (by constructor <;> norm_num) _ (by unfold RR.Surm.Inv; norm_num) _ demoSeries_nonneg 2

/-! ## SIMHYD -/

theorem simhyd_components_sum (p : Simhyd.Params ℝ) (s : Simhyd.State ℝ) (xs : List (ℝ × ℝ)) :
    ∀ o ∈ (Simhyd.run p s xs).2, o.runoff = o.quickflow + o.baseflow := by
  induction xs generalizing s with
  | nil => intro o ho; simp [Simhyd.run, scan] at ho
  | cons x xs ih =>
    intro o ho
    simp only [Simhyd.run, scan, List.mem_cons] at ho
    rcases ho with rfl | ho
    · simp only [Simhyd.step]; ring
    · exact ih _ o ho

/-- the only divisor of the loop body is the soil moisture store capacity -/
theorem simhyd_divisors_pos (p : Simhyd.Params ℝ) (hp : RR.Simhyd.ParamsOk p) : p.smsc ≠ 0 :=
  RR.Simhyd.divisors_pos p hp

/-- **Invariant.** Parameters in range, rain/PET ≥ 0, initial stores within bounds: after every run
0 ≤ soil store ≤ capacity, groundwater ≥ 0; every output is non-negative, the reported store lies in [0, capacity]
and runoff = quickflow + baseflow. -/
theorem simhyd_invariant (p : Simhyd.Params ℝ) (hp : RR.Simhyd.ParamsOk p) (s : Simhyd.State ℝ)
    (hs : RR.Simhyd.Inv p s) (xs : List (ℝ × ℝ)) (hx : ∀ x ∈ xs, 0 ≤ x.1 ∧ 0 ≤ x.2) :
    RR.Simhyd.Inv p (Simhyd.run p s xs).1 ∧ ∀ o ∈ (Simhyd.run p s xs).2, RR.Simhyd.OutOk p o := by
  have h := RR.scan_budget_le (Simhyd.step p) (RR.Simhyd.Inv p) (fun x => 0 ≤ x.1 ∧ 0 ≤ x.2) (RR.Simhyd.stor p)
    (fun x => x.1) (fun o => o.runoff + o.aet) (RR.Simhyd.OutOk p)
    (fun s x hs hx => by
      obtain ⟨h1, h2, h3, _⟩ := RR.Simhyd.step_spec p hp s x hs hx
      exact ⟨h1, h2.le, h3⟩) xs s hs hx
  exact ⟨h.1, h.2.2⟩

/-- **Exact balance.** Σ runoff + Σ evapotranspiration + water held = Σ rainfall + water held initially, where
evapotranspiration is the `totalEt` of the source (impervious + interception + soil ET; computed by the model as
a ghost output, the Go code has the line commented out) and water held = perviousFraction·(soil store + groundwater). -/
theorem simhyd_balance (p : Simhyd.Params ℝ) (hp : RR.Simhyd.ParamsOk p) (s : Simhyd.State ℝ)
    (hs : RR.Simhyd.Inv p s) (xs : List (ℝ × ℝ)) (hx : ∀ x ∈ xs, 0 ≤ x.1 ∧ 0 ≤ x.2) :
    ((Simhyd.run p s xs).2.map (fun o => o.runoff + o.aet)).sum + RR.Simhyd.stor p (Simhyd.run p s xs).1 =
      (xs.map (·.1)).sum + RR.Simhyd.stor p s :=
  (RR.scan_budget_eq (Simhyd.step p) (RR.Simhyd.Inv p) (fun x => 0 ≤ x.1 ∧ 0 ≤ x.2) (RR.Simhyd.stor p)
    (fun x => x.1) (fun o => o.runoff + o.aet)
    (fun s x hs hx => by
      obtain ⟨h1, h2, _⟩ := RR.Simhyd.step_spec p hp s x hs hx
      exact ⟨h1, h2⟩) xs s hs hx).2

/-- **No water created**, every prefix: Σ_{t<n} (runoff + evapotranspiration) ≤ Σ_{t<n} rain + initial storage;
in particular Σ runoff alone (evapotranspiration is non-negative, `simhyd_invariant`). -/
theorem simhyd_no_water_created (p : Simhyd.Params ℝ) (hp : RR.Simhyd.ParamsOk p) (s : Simhyd.State ℝ)
    (hs : RR.Simhyd.Inv p s) (xs : List (ℝ × ℝ)) (hx : ∀ x ∈ xs, 0 ≤ x.1 ∧ 0 ≤ x.2) (n : ℕ) :
    (((Simhyd.run p s xs).2.take n).map (fun o => o.runoff + o.aet)).sum ≤
      ((xs.take n).map (·.1)).sum + RR.Simhyd.stor p s :=
  RR.prefix_budget (Simhyd.step p) (RR.Simhyd.Inv p) (fun x => 0 ≤ x.1 ∧ 0 ≤ x.2) (RR.Simhyd.stor p)
    (fun x => x.1) (fun o => o.runoff + o.aet) (RR.Simhyd.OutOk p)
    (fun s x hs hx => by
      obtain ⟨h1, h2, h3, _⟩ := RR.Simhyd.step_spec p hp s x hs hx
      exact ⟨h1, h2.le, h3⟩)
    (fun s hs => mul_nonneg hp.pf0 (by linarith [hs.1, hs.2.2])) xs s hs hx n

example : RR.Simhyd.ParamsOk ⟨0.3, 1, 200, 3, 0.1, 0.9, 1.5, 0.2, 320⟩ ∧
    RR.Simhyd.Inv ⟨0.3, 1, 200, 3, 0.1, 0.9, 1.5, 0.2, 320⟩ ⟨0, 0, 0⟩ := by
  refine ⟨by constructor <;> norm_num, ?_⟩
  unfold RR.Simhyd.Inv; norm_num

example : ((Simhyd.run ⟨0.3, 1, 200, 3, 0.1, 0.9, 1.5, 0.2, 320⟩ ⟨0, 0, 0⟩ demoSeries).2.map
      (fun o => o.runoff + o.aet)).sum +
      RR.Simhyd.stor ⟨0.3, 1, 200, 3, 0.1, 0.9, 1.5, 0.2, 320⟩
        (Simhyd.run ⟨0.3, 1, 200, 3, 0.1, 0.9, 1.5, 0.2, 320⟩ ⟨0, 0, 0⟩ demoSeries).1 =
    (demoSeries.map (·.1)).sum + RR.Simhyd.stor ⟨0.3, 1, 200, 3, 0.1, 0.9, 1.5, 0.2, 320⟩ ⟨0, 0, 0⟩ :=
  simhyd_balance _ (by constructor <;> norm_num) _ (by unfold RR.Simhyd.Inv; norm_num) _ demoSeries_nonneg

/-! ## GR4J -/

/-- **Unit hydrographs.** For every x4 > 0 the ordinates of UH1 (length ⌈x4⌉) and UH2 (length ⌈2·x4⌉) built by
the code are non-negative. -/
theorem uh_nonneg (x4 : ℝ) (hx : 0 < x4) :
    (∀ u ∈ GR4J.uh1 x4 ⌈x4⌉₊, 0 ≤ u) ∧ (∀ u ∈ GR4J.uh2 x4 ⌈2 * x4⌉₊, 0 ≤ u) :=
  ⟨RR.GR4J.uh1_nonneg x4 hx, RR.GR4J.uh2_nonneg x4 hx⟩

/-- … and sum to one (nothing is lost or created by the routing delay). -/
theorem uh_sum_one (x4 : ℝ) (hx : 0 < x4) :
    (GR4J.uh1 x4 ⌈x4⌉₊).sum = 1 ∧ (GR4J.uh2 x4 ⌈2 * x4⌉₊).sum = 1 :=
  ⟨RR.GR4J.uh1_sum x4 hx, RR.GR4J.uh2_sum x4 hx⟩

example : (0 : ℝ) < 0.5 ∧ (0 : ℝ) < 3.7 := by constructor <;> norm_num

/-- the divisors of the day loop: x1, x3, x4 (parameters), `1 + (S/x1)·tanh`, `1 + (1−S/x1)·tanh` (≥ 1 for a
production store within [0, x1], shown inside `RR.GR4J.production_spec`) and `(1 + (R/x3)⁴)^(1/4)` (≥ 1) -/
theorem gr4j_divisors_pos (x1 x3 x4 : ℝ) (hp : RR.GR4J.ParamsOk x1 x3 x4) (r : ℝ) (hr : 0 ≤ r) :
    x1 ≠ 0 ∧ x3 ≠ 0 ∧ x4 ≠ 0 ∧ 1 ≤ (1 + (r / x3) ^ 4) ^ ((1 : ℝ) / 4) :=
  ⟨hp.x1pos.ne', hp.x3pos.ne', hp.x4pos.ne', (RR.GR4J.routing_spec x3 r hp.x3pos hr).2.2.2⟩

/-- runoff = routed flow Qr + direct flow Qd on every day of every run (the two reported-by-the-source branches) -/
theorem gr4j_components_sum (x1 x2 x3 x4 : ℝ) (n1 n2 : ℕ) (s : GR4J.State ℝ) (xs : List (ℝ × ℝ)) :
    ∀ o ∈ (GR4J.run x1 x2 x3 x4 n1 n2 s xs).2, o.runoff = o.qr + o.qd := by
  induction xs generalizing s with
  | nil => intro o ho; simp [GR4J.run, scan] at ho
  | cons x xs ih =>
    intro o ho
    simp only [GR4J.run, scan, List.mem_cons] at ho
    rcases ho with rfl | ho
    · rfl
    · exact ih _ o ho

/-- **Invariant** (any exchange coefficient x2). x1, x3, x4 > 0, rain/PET ≥ 0, initial state within bounds:
after every run 0 ≤ S ≤ x1, 0 ≤ R ≤ x3, all water in transit in the unit hydrographs ≥ 0, and every day's runoff,
Qr, Qd are non-negative. -/
theorem gr4j_invariant (x1 x2 x3 x4 : ℝ) (hp : RR.GR4J.ParamsOk x1 x3 x4) (s : GR4J.State ℝ)
    (hs : RR.GR4J.Inv x1 x3 x4 s) (xs : List (ℝ × ℝ)) (hx : ∀ x ∈ xs, 0 ≤ x.1 ∧ 0 ≤ x.2) :
    RR.GR4J.Inv x1 x3 x4 (GR4J.run x1 x2 x3 x4 ⌈x4⌉₊ ⌈2 * x4⌉₊ s xs).1 ∧
    ∀ o ∈ (GR4J.run x1 x2 x3 x4 ⌈x4⌉₊ ⌈2 * x4⌉₊ s xs).2, RR.GR4J.OutOk o := by
  have h := RR.scan_budget_le (GR4J.step x1 x2 x3 (GR4J.uh1 x4 ⌈x4⌉₊) (GR4J.uh2 x4 ⌈2 * x4⌉₊))
    (RR.GR4J.Inv x1 x3 x4) (fun x => 0 ≤ x.1 ∧ 0 ≤ x.2) (fun _ => 0) (fun _ => 0) (fun _ => 0) RR.GR4J.OutOk
    (fun s x hs hx => RR.GR4J.step_inv x1 x2 x3 x4 hp s x hs hx) xs s hs hx
  exact ⟨h.1, h.2.2⟩

/-- **Budget invariant** (x2 ≤ 0: a positive exchange coefficient imports groundwater by design):
cumulative runoff + water held ≤ cumulative rainfall + water held initially, where water held =
S + R + water in transit in both unit hydrographs. -/
theorem gr4j_budget (x1 x2 x3 x4 : ℝ) (hp : RR.GR4J.ParamsOk x1 x3 x4) (hx2 : x2 ≤ 0) (s : GR4J.State ℝ)
    (hs : RR.GR4J.Inv x1 x3 x4 s) (xs : List (ℝ × ℝ)) (hx : ∀ x ∈ xs, 0 ≤ x.1 ∧ 0 ≤ x.2) :
    ((GR4J.run x1 x2 x3 x4 ⌈x4⌉₊ ⌈2 * x4⌉₊ s xs).2.map (·.runoff)).sum +
        RR.GR4J.stor (GR4J.run x1 x2 x3 x4 ⌈x4⌉₊ ⌈2 * x4⌉₊ s xs).1 ≤
      (xs.map (·.1)).sum + RR.GR4J.stor s :=
  (RR.scan_budget_le (GR4J.step x1 x2 x3 (GR4J.uh1 x4 ⌈x4⌉₊) (GR4J.uh2 x4 ⌈2 * x4⌉₊))
    (RR.GR4J.Inv x1 x3 x4) (fun x => 0 ≤ x.1 ∧ 0 ≤ x.2) RR.GR4J.stor (fun x => x.1) (fun o => o.runoff)
    RR.GR4J.OutOk (fun s x hs hx => RR.GR4J.step_budget x1 x2 x3 x4 hp hx2 s x hs hx) xs s hs hx).2.1

/-- **No water created**, every prefix (x2 ≤ 0): Σ_{t<n} runoff ≤ Σ_{t<n} rain + initial storage. -/
theorem gr4j_no_water_created (x1 x2 x3 x4 : ℝ) (hp : RR.GR4J.ParamsOk x1 x3 x4) (hx2 : x2 ≤ 0)
    (s : GR4J.State ℝ) (hs : RR.GR4J.Inv x1 x3 x4 s) (xs : List (ℝ × ℝ)) (hx : ∀ x ∈ xs, 0 ≤ x.1 ∧ 0 ≤ x.2)
    (n : ℕ) :
    (((GR4J.run x1 x2 x3 x4 ⌈x4⌉₊ ⌈2 * x4⌉₊ s xs).2.take n).map (·.runoff)).sum ≤
      ((xs.take n).map (·.1)).sum + RR.GR4J.stor s :=
  RR.prefix_budget (GR4J.step x1 x2 x3 (GR4J.uh1 x4 ⌈x4⌉₊) (GR4J.uh2 x4 ⌈2 * x4⌉₊))
    (RR.GR4J.Inv x1 x3 x4) (fun x => 0 ≤ x.1 ∧ 0 ≤ x.2) RR.GR4J.stor (fun x => x.1) (fun o => o.runoff)
    RR.GR4J.OutOk (fun s x hs hx => RR.GR4J.step_budget x1 x2 x3 x4 hp hx2 s x hs hx)
    (fun s hs => RR.GR4J.stor_nonneg x1 x3 x4 s hs) xs s hs hx n

/-- **Closed balance.** Zero exchange coefficient and zero PET: rainfall equals runoff plus the change in
production store, routing store and unit-hydrograph stores, exactly:
Σ rain = Σ runoff + (S + R + ΣUH)_final − (S + R + ΣUH)_initial. -/
theorem gr4j_closed_balance (x1 x3 x4 : ℝ) (hp : RR.GR4J.ParamsOk x1 x3 x4) (s : GR4J.State ℝ)
    (hs : RR.GR4J.Inv x1 x3 x4 s) (xs : List (ℝ × ℝ)) (hx : ∀ x ∈ xs, 0 ≤ x.1 ∧ x.2 = 0) :
    (xs.map (·.1)).sum =
      ((GR4J.run x1 0 x3 x4 ⌈x4⌉₊ ⌈2 * x4⌉₊ s xs).2.map (·.runoff)).sum +
        (RR.GR4J.stor (GR4J.run x1 0 x3 x4 ⌈x4⌉₊ ⌈2 * x4⌉₊ s xs).1 - RR.GR4J.stor s) := by
  have h := (RR.scan_budget_eq (GR4J.step x1 0 x3 (GR4J.uh1 x4 ⌈x4⌉₊) (GR4J.uh2 x4 ⌈2 * x4⌉₊))
    (RR.GR4J.Inv x1 x3 x4) (fun x => 0 ≤ x.1 ∧ x.2 = 0) RR.GR4J.stor (fun x => x.1) (fun o => o.runoff)
    (fun s x hs hx => RR.GR4J.step_closed x1 x3 x4 hp s x hs hx) xs s hs hx).2
  unfold GR4J.run
  linarith

/-- non-vacuity: parameters in the documented ranges; the model's own initial state satisfies the invariant,
holds no water, and has the unit-hydrograph lengths the theorems are stated for -/
example : RR.GR4J.ParamsOk 350 90 1.7 ∧ RR.GR4J.Inv 350 90 1.7 (GR4J.initState (1.7 : ℝ)).1 ∧
    RR.GR4J.stor (GR4J.initState (1.7 : ℝ)).1 = 0 ∧ (GR4J.initState (1.7 : ℝ)).2.1 = ⌈(1.7 : ℝ)⌉₊ := by
  have hp : RR.GR4J.ParamsOk 350 90 1.7 := by constructor <;> norm_num
  exact ⟨hp, (RR.GR4J.init_inv 350 90 1.7 hp).1, (RR.GR4J.init_inv 350 90 1.7 hp).2,
    RR.GR4J.init_n1 1.7 (by norm_num)⟩

/-- the GR4J theorems applied to a concrete run from the model's own initial state: losing catchment (x2 = −1)
for the budget, x2 = 0 and zero PET for the closed balance -/
example : (((GR4J.run 350 (-1) 90 1.7 ⌈(1.7 : ℝ)⌉₊ ⌈2 * (1.7 : ℝ)⌉₊ (GR4J.initState (1.7 : ℝ)).1 demoSeries).2.take 1).map
      (·.runoff)).sum ≤ ((demoSeries.take 1).map (·.1)).sum + RR.GR4J.stor (GR4J.initState (1.7 : ℝ)).1 :=
  gr4j_no_water_created 350 (-1) 90 1.7 (by constructor <;> norm_num) (by norm_num) _
    (RR.GR4J.init_inv 350 90 1.7 (by constructor <;> norm_num)).1 _ demoSeries_nonneg 1

example : (demoSeriesNoPet.map (·.1)).sum =
    ((GR4J.run 350 0 90 1.7 ⌈(1.7 : ℝ)⌉₊ ⌈2 * (1.7 : ℝ)⌉₊ (GR4J.initState (1.7 : ℝ)).1 demoSeriesNoPet).2.map (·.runoff)).sum +
      (RR.GR4J.stor (GR4J.run 350 0 90 1.7 ⌈(1.7 : ℝ)⌉₊ ⌈2 * (1.7 : ℝ)⌉₊ (GR4J.initState (1.7 : ℝ)).1 demoSeriesNoPet).1 -
        RR.GR4J.stor (GR4J.initState (1.7 : ℝ)).1) :=
  gr4j_closed_balance 350 90 1.7 (by constructor <;> norm_num) _
    (RR.GR4J.init_inv 350 90 1.7 (by constructor <;> norm_num)).1 _ demoSeriesNoPet_ok

/-! ### GR4J with a positive exchange coefficient (x2 > 0, documented range up to 5)

For `x2 > 0` the property's "never create water" is FALSE for GR4J, by design of the published model: the exchange term
`ech = x2·(R/x3)^3.5` is then an IMPORT of groundwater, added to the routing store and to the direct branch. What holds
for every x2 is the budget with that import on the right-hand side (`gr4j_budget_exchange`,
`gr4j_no_water_created_exchange`); for `x2 ≥ 0` and zero PET it closes exactly (`gr4j_closed_balance_exchange`); and
`gr4j_positive_x2_creates_water` / `gr4j_positive_x2_counterexample` show that the import cannot be dropped. -/

/-- `Σ (f − g) = Σ f − Σ g` over a list -/
theorem list_sum_map_sub {β : Type} (l : List β) (f g : β → ℝ) :
    (l.map (fun o => f o - g o)).sum = (l.map f).sum - (l.map g).sum := by
  induction l with
  | nil => simp
  | cons o os ih => simp only [List.map_cons, List.sum_cons, ih]; ring

/-- **Budget with the imported water, any x2.** Cumulative runoff + water held ≤ cumulative rainfall + water held
initially + Σ 2·max(0, ech_t), where `ech_t = x2·(R_t/x3)^3.5` is the exchange term of day t (ghost output `ech`; it
enters the routing store and the direct-flow branch, hence the factor 2). For `x2 ≤ 0` the last sum is zero and this is
`gr4j_budget`. -/
theorem gr4j_budget_exchange (x1 x2 x3 x4 : ℝ) (hp : RR.GR4J.ParamsOk x1 x3 x4) (s : GR4J.State ℝ)
    (hs : RR.GR4J.Inv x1 x3 x4 s) (xs : List (ℝ × ℝ)) (hx : ∀ x ∈ xs, 0 ≤ x.1 ∧ 0 ≤ x.2) :
    ((GR4J.run x1 x2 x3 x4 ⌈x4⌉₊ ⌈2 * x4⌉₊ s xs).2.map (·.runoff)).sum +
        RR.GR4J.stor (GR4J.run x1 x2 x3 x4 ⌈x4⌉₊ ⌈2 * x4⌉₊ s xs).1 ≤
      (xs.map (·.1)).sum + RR.GR4J.stor s +
        ((GR4J.run x1 x2 x3 x4 ⌈x4⌉₊ ⌈2 * x4⌉₊ s xs).2.map (fun o => 2 * max 0 o.ech)).sum := by
  have h := (RR.scan_budget_le (GR4J.step x1 x2 x3 (GR4J.uh1 x4 ⌈x4⌉₊) (GR4J.uh2 x4 ⌈2 * x4⌉₊))
    (RR.GR4J.Inv x1 x3 x4) (fun x => 0 ≤ x.1 ∧ 0 ≤ x.2) RR.GR4J.stor (fun x => x.1)
    (fun o => o.runoff - 2 * max 0 o.ech) RR.GR4J.OutOk
    (fun s x hs hx => RR.GR4J.step_budget_exchange x1 x2 x3 x4 hp s x hs hx) xs s hs hx).2.1
  rw [list_sum_map_sub] at h
  unfold GR4J.run
  linarith

/-- **No water created beyond the import**, every prefix, any x2:
Σ_{t<n} runoff ≤ Σ_{t<n} rain + initial storage + Σ_{t<n} 2·max(0, ech_t). -/
theorem gr4j_no_water_created_exchange (x1 x2 x3 x4 : ℝ) (hp : RR.GR4J.ParamsOk x1 x3 x4)
    (s : GR4J.State ℝ) (hs : RR.GR4J.Inv x1 x3 x4 s) (xs : List (ℝ × ℝ)) (hx : ∀ x ∈ xs, 0 ≤ x.1 ∧ 0 ≤ x.2)
    (n : ℕ) :
    (((GR4J.run x1 x2 x3 x4 ⌈x4⌉₊ ⌈2 * x4⌉₊ s xs).2.take n).map (·.runoff)).sum ≤
      ((xs.take n).map (·.1)).sum + RR.GR4J.stor s +
        (((GR4J.run x1 x2 x3 x4 ⌈x4⌉₊ ⌈2 * x4⌉₊ s xs).2.take n).map (fun o => 2 * max 0 o.ech)).sum := by
  have h := RR.prefix_budget (GR4J.step x1 x2 x3 (GR4J.uh1 x4 ⌈x4⌉₊) (GR4J.uh2 x4 ⌈2 * x4⌉₊))
    (RR.GR4J.Inv x1 x3 x4) (fun x => 0 ≤ x.1 ∧ 0 ≤ x.2) RR.GR4J.stor (fun x => x.1)
    (fun o => o.runoff - 2 * max 0 o.ech) RR.GR4J.OutOk
    (fun s x hs hx => RR.GR4J.step_budget_exchange x1 x2 x3 x4 hp s x hs hx)
    (fun s hs => RR.GR4J.stor_nonneg x1 x3 x4 s hs) xs s hs hx n
  rw [list_sum_map_sub] at h
  unfold GR4J.run
  linarith

/-- **Closed balance of a gaining catchment** (`x2 ≥ 0`, zero PET): rainfall plus the imported groundwater `Σ 2·ech_t`
equals runoff plus the change in storage, exactly. -/
theorem gr4j_closed_balance_exchange (x1 x2 x3 x4 : ℝ) (hp : RR.GR4J.ParamsOk x1 x3 x4) (hx2 : 0 ≤ x2)
    (s : GR4J.State ℝ) (hs : RR.GR4J.Inv x1 x3 x4 s) (xs : List (ℝ × ℝ)) (hx : ∀ x ∈ xs, 0 ≤ x.1 ∧ x.2 = 0) :
    (xs.map (·.1)).sum + ((GR4J.run x1 x2 x3 x4 ⌈x4⌉₊ ⌈2 * x4⌉₊ s xs).2.map (fun o => 2 * o.ech)).sum =
      ((GR4J.run x1 x2 x3 x4 ⌈x4⌉₊ ⌈2 * x4⌉₊ s xs).2.map (·.runoff)).sum +
        (RR.GR4J.stor (GR4J.run x1 x2 x3 x4 ⌈x4⌉₊ ⌈2 * x4⌉₊ s xs).1 - RR.GR4J.stor s) := by
  have h := (RR.scan_budget_eq (GR4J.step x1 x2 x3 (GR4J.uh1 x4 ⌈x4⌉₊) (GR4J.uh2 x4 ⌈2 * x4⌉₊))
    (RR.GR4J.Inv x1 x3 x4) (fun x => 0 ≤ x.1 ∧ x.2 = 0) RR.GR4J.stor (fun x => x.1)
    (fun o => o.runoff - 2 * o.ech)
    (fun s x hs hx => RR.GR4J.step_closed_exchange x1 x2 x3 x4 hp hx2 s x hs hx) xs s hs hx).2
  rw [list_sum_map_sub] at h
  unfold GR4J.run
  linarith

/-- **A positive x2 creates water (every parameter set, every wet routing store).** `x2 > 0`, any state within the
invariant whose routing store is not empty, one day without rain and without PET: runoff + water held afterwards is
STRICTLY larger than the water held before — by exactly `2·x2·(R/x3)^3.5`. So the budget invariant of `gr4j_budget`
fails at every such step: the hypothesis `x2 ≤ 0` there cannot be dropped. -/
theorem gr4j_positive_x2_creates_water (x1 x2 x3 x4 : ℝ) (hp : RR.GR4J.ParamsOk x1 x3 x4) (hx2 : 0 < x2)
    (s : GR4J.State ℝ) (hs : RR.GR4J.Inv x1 x3 x4 s) (hR : 0 < s.R) :
    (GR4J.step x1 x2 x3 (GR4J.uh1 x4 ⌈x4⌉₊) (GR4J.uh2 x4 ⌈2 * x4⌉₊) s (0, 0)).2.runoff +
      RR.GR4J.stor (GR4J.step x1 x2 x3 (GR4J.uh1 x4 ⌈x4⌉₊) (GR4J.uh2 x4 ⌈2 * x4⌉₊) s (0, 0)).1 =
        RR.GR4J.stor s + 2 * (x2 * (s.R / x3) ^ (3.5 : ℝ)) ∧
    RR.GR4J.stor s <
      (GR4J.step x1 x2 x3 (GR4J.uh1 x4 ⌈x4⌉₊) (GR4J.uh2 x4 ⌈2 * x4⌉₊) s (0, 0)).2.runoff +
      RR.GR4J.stor (GR4J.step x1 x2 x3 (GR4J.uh1 x4 ⌈x4⌉₊) (GR4J.uh2 x4 ⌈2 * x4⌉₊) s (0, 0)).1 := by
  have h := (RR.GR4J.step_closed_exchange x1 x2 x3 x4 hp hx2.le s (0, 0) hs ⟨le_refl _, rfl⟩).2
  have he : (GR4J.step x1 x2 x3 (GR4J.uh1 x4 ⌈x4⌉₊) (GR4J.uh2 x4 ⌈2 * x4⌉₊) s (0, 0)).2.ech =
      x2 * (s.R / x3) ^ (3.5 : ℝ) := rfl
  have hpos : 0 < x2 * (s.R / x3) ^ (3.5 : ℝ) :=
    mul_pos hx2 (Real.rpow_pos_of_pos (div_pos hR hp.x3pos) _)
  rw [he] at h
  simp only at h
  constructor <;> linarith

/-- the exchange term reaches the outlet the same day through the direct branch: on every day of every run
`runoff_t ≥ ech_t = x2·(R_t/x3)^3.5` (any x2) -/
theorem gr4j_runoff_ge_exchange (x1 x2 x3 x4 : ℝ) (hp : RR.GR4J.ParamsOk x1 x3 x4) (s : GR4J.State ℝ)
    (hs : RR.GR4J.Inv x1 x3 x4 s) (xs : List (ℝ × ℝ)) (hx : ∀ x ∈ xs, 0 ≤ x.1 ∧ 0 ≤ x.2) :
    ∀ o ∈ (GR4J.run x1 x2 x3 x4 ⌈x4⌉₊ ⌈2 * x4⌉₊ s xs).2, o.ech ≤ o.runoff :=
  (RR.scan_budget_le (GR4J.step x1 x2 x3 (GR4J.uh1 x4 ⌈x4⌉₊) (GR4J.uh2 x4 ⌈2 * x4⌉₊))
    (RR.GR4J.Inv x1 x3 x4) (fun x => 0 ≤ x.1 ∧ 0 ≤ x.2) (fun _ => 0) (fun _ => 0) (fun _ => 0)
    (fun o => o.ech ≤ o.runoff)
    (fun s x hs hx => ⟨(RR.GR4J.step_inv x1 x2 x3 x4 hp s x hs hx).1, le_refl _,
      RR.GR4J.step_runoff_ge_ech x1 x2 x3 x4 hp s x hs hx⟩) xs s hs hx).2.2

/-- **Counter-example to "Σ runoff ≤ Σ rain + initial storage" for x2 > 0** (x1 = 1, x2 = 5, x3 = 1, x4 = 1: all
inside the documented ranges; a state within the invariant: routing store full, everything else empty, holding 1 mm;
one day without rain or PET): the runoff of that day is at least 5 mm = 0 mm of rain + 1 mm held + 4 mm created.
(The exchange imports 5 mm into the direct branch, which reaches the outlet the same day, and 5 mm into the routing
store.) From the model's own EMPTY initial state the same happens as soon as rain has filled the routing store; the
general statement is `gr4j_positive_x2_creates_water`. -/
theorem gr4j_positive_x2_counterexample :
    RR.GR4J.ParamsOk 1 1 1 ∧ RR.GR4J.Inv 1 1 1 ⟨0, 1, [0, 0], [0]⟩ ∧
    (([(0, 0)] : List (ℝ × ℝ)).map (·.1)).sum + RR.GR4J.stor (⟨0, 1, [0, 0], [0]⟩ : GR4J.State ℝ) + 4 ≤
      ((GR4J.run 1 5 1 1 ⌈(1 : ℝ)⌉₊ ⌈2 * (1 : ℝ)⌉₊ ⟨0, 1, [0, 0], [0]⟩ [(0, 0)]).2.map (·.runoff)).sum := by
  have hp : RR.GR4J.ParamsOk 1 1 1 := by constructor <;> norm_num
  have hc1 : ⌈(1 : ℝ)⌉₊ = 1 := by simp
  have hc2 : ⌈2 * (1 : ℝ)⌉₊ = 2 := by
    rw [mul_one]; exact_mod_cast Nat.ceil_natCast (R := ℝ) 2
  have hinv : RR.GR4J.Inv 1 1 1 ⟨0, 1, [0, 0], [0]⟩ := by
    refine ⟨le_refl _, by norm_num, by norm_num, le_refl _, ?_, ?_, ?_, ?_⟩
    · intro q hq; simp at hq; rw [hq]
    · intro q hq; simp at hq; rw [hq]
    · show ([0] : List ℝ).length = ⌈(1 : ℝ)⌉₊; rw [hc1]; rfl
    · show ([0, 0] : List ℝ).length = ⌈2 * (1 : ℝ)⌉₊; rw [hc2]; rfl
  have hstor : RR.GR4J.stor (⟨0, 1, [0, 0], [0]⟩ : GR4J.State ℝ) = 1 := by
    simp [RR.GR4J.stor]
  refine ⟨hp, hinv, ?_⟩
  have hge := RR.GR4J.step_runoff_ge_ech 1 5 1 1 hp ⟨0, 1, [0, 0], [0]⟩ (0, 0) hinv ⟨le_refl _, le_refl _⟩
  have he : (GR4J.step (1 : ℝ) 5 1 (GR4J.uh1 1 ⌈(1 : ℝ)⌉₊) (GR4J.uh2 1 ⌈2 * (1 : ℝ)⌉₊) ⟨0, 1, [0, 0], [0]⟩ (0, 0)).2.ech =
      5 := by
    show (5 : ℝ) * ((1 : ℝ) / 1) ^ (3.5 : ℝ) = 5
    rw [div_one, Real.one_rpow, mul_one]
  have hrun : (GR4J.run (1 : ℝ) 5 1 1 ⌈(1 : ℝ)⌉₊ ⌈2 * (1 : ℝ)⌉₊ ⟨0, 1, [0, 0], [0]⟩ [(0, 0)]).2 =
      [(GR4J.step (1 : ℝ) 5 1 (GR4J.uh1 1 ⌈(1 : ℝ)⌉₊) (GR4J.uh2 1 ⌈2 * (1 : ℝ)⌉₊) ⟨0, 1, [0, 0], [0]⟩ (0, 0)).2] := rfl
  rw [hrun, hstor]
  simp only [List.map_cons, List.map_nil, List.sum_cons, List.sum_nil, add_zero]
  rw [he] at hge
  linarith

/-- non-vacuity of the exchange budget: a gaining catchment (x2 = +2) from the model's own initial state -/
example : (((GR4J.run 350 2 90 1.7 ⌈(1.7 : ℝ)⌉₊ ⌈2 * (1.7 : ℝ)⌉₊ (GR4J.initState (1.7 : ℝ)).1 demoSeries).2.take 2).map
      (·.runoff)).sum ≤ ((demoSeries.take 2).map (·.1)).sum + RR.GR4J.stor (GR4J.initState (1.7 : ℝ)).1 +
      (((GR4J.run 350 2 90 1.7 ⌈(1.7 : ℝ)⌉₊ ⌈2 * (1.7 : ℝ)⌉₊ (GR4J.initState (1.7 : ℝ)).1 demoSeries).2.take 2).map
        (fun o => 2 * max 0 o.ech)).sum :=
  gr4j_no_water_created_exchange 350 2 90 1.7 (by constructor <;> norm_num) _
    (RR.GR4J.init_inv 350 90 1.7 (by constructor <;> norm_num)).1 _ demoSeries_nonneg 2

/-! ### the runs of these theorems are the runs of the catalogued models (`KModel.run`) -/

/-- **GR4J: `model.init` then `model.run` is `GR4J.run … ⌈x4⌉₊ ⌈2·x4⌉₊ initState`.** The theorems above fix the
unit-hydrograph lengths to ⌈x4⌉ and ⌈2·x4⌉, while `GR4J.model.run` takes n1, n2 from cells 2 and 3 of the state row
(`int(states[2])`, `int(states[3])`): for every x4 > 0 the row written by `InitialiseStates` carries exactly these
lengths, the adapter does not panic, and the result is the output series / packed final state of that run
(`packedResult`: outputs = [runoff series], states = `pack` of the final state with the same n1, n2). -/
theorem gr4j_model_run_init (x1 x2 x3 x4 : ℝ) (hx4 : 0 < x4) (rain pet : List ℝ) :
    ((GR4J.model (α := ℝ)).init [x1, x2, x3, x4] >>= fun row =>
        (GR4J.model (α := ℝ)).run [x1, x2, x3, x4] [rain, pet] row) =
      .ok { outputs := [(GR4J.run x1 x2 x3 x4 ⌈x4⌉₊ ⌈2 * x4⌉₊ (GR4J.initState x4).1 (rain.zip pet)).2.map (·.runoff)],
            states := GR4J.pack (GR4J.run x1 x2 x3 x4 ⌈x4⌉₊ ⌈2 * x4⌉₊ (GR4J.initState x4).1 (rain.zip pet)).1
              ⌈x4⌉₊ ⌈2 * x4⌉₊,
            tags := GR4J.dedup ((GR4J.run x1 x2 x3 x4 ⌈x4⌉₊ ⌈2 * x4⌉₊ (GR4J.initState x4).1 (rain.zip pet)).2.flatMap
                (·.tags)) ++ ["n1=" ++ toString ⌈x4⌉₊, "n2=" ++ toString ⌈2 * x4⌉₊] } :=
  RR.GR4J.model_run_init x1 x2 x3 x4 hx4 rain pet

/-- … and the state row a call returns is accepted by the next call with the same lengths (hot start): a chain of
`model.run` calls is a chain of `GR4J.run … ⌈x4⌉₊ ⌈2·x4⌉₊`, to which the invariant / budget theorems apply call by call -/
theorem gr4j_model_run_chain (x1 x2 x3 x4 : ℝ) (hx4 : 0 < x4) (st : GR4J.State ℝ) (hst : RR.GR4J.Inv x1 x3 x4 st)
    (rain pet : List ℝ) :
    (GR4J.model (α := ℝ)).run [x1, x2, x3, x4] [rain, pet] (GR4J.pack st ⌈x4⌉₊ ⌈2 * x4⌉₊) =
      .ok (RR.GR4J.packedResult x1 x2 x3 x4 ⌈x4⌉₊ ⌈2 * x4⌉₊ st rain pet) :=
  RR.GR4J.model_run_pack x1 x2 x3 x4 _ _ (Nat.ceil_pos.mpr hx4) (Nat.ceil_pos.mpr (by linarith)) st
    hst.2.2.2.2.2.2.2 hst.2.2.2.2.2.2.1 rain pet

/-- RunoffCoefficient: `model.run` on the parameter column `[coeff]`, the rainfall series and the empty state row is
`Coeff.run coeff rain` (one output, no state) -/
theorem coeff_model_run (c : ℝ) (rain : List ℝ) :
    (Coeff.model (α := ℝ)).init [c] = .ok [] ∧
    (Coeff.model (α := ℝ)).run [c] [rain] [] = .ok { outputs := [Coeff.run c rain], states := [] } := ⟨rfl, rfl⟩

/-- SURM: `model.init` is the empty state row `[0, 0, 0]` and `model.run` on a parameter column, the two input series
and a state row is `Surm.run` on the zipped inputs (outputs runoff, quickflow, baseflow, store; final states) -/
theorem surm_model_run (p : Surm.Params ℝ) (rain pet : List ℝ) (s gw tot : ℝ) :
    (Surm.model (α := ℝ)).init [p.bfac, p.coeff, p.dseep, p.fcFrac, p.fimp, p.rfac, p.smax, p.sq, p.thres] =
      .ok [0, 0, 0] ∧
    (Surm.model (α := ℝ)).run [p.bfac, p.coeff, p.dseep, p.fcFrac, p.fimp, p.rfac, p.smax, p.sq, p.thres] [rain, pet]
        [s, gw, tot] =
      .ok { outputs := [(Surm.run p ⟨s, gw, tot⟩ (rain.zip pet)).2.map (·.runoff),
                        (Surm.run p ⟨s, gw, tot⟩ (rain.zip pet)).2.map (·.quickflow),
                        (Surm.run p ⟨s, gw, tot⟩ (rain.zip pet)).2.map (·.baseflow),
                        (Surm.run p ⟨s, gw, tot⟩ (rain.zip pet)).2.map (·.store)],
            states := [(Surm.run p ⟨s, gw, tot⟩ (rain.zip pet)).1.sms, (Surm.run p ⟨s, gw, tot⟩ (rain.zip pet)).1.gw,
                       (Surm.run p ⟨s, gw, tot⟩ (rain.zip pet)).1.total],
            tags := Surm.dedup ((Surm.run p ⟨s, gw, tot⟩ (rain.zip pet)).2.flatMap (·.tags)) } := ⟨rfl, rfl⟩

/-- SIMHYD: the same bridge (`model.init` = `[0, 0, 0]`; `model.run` = `Simhyd.run` on the zipped inputs) -/
theorem simhyd_model_run (p : Simhyd.Params ℝ) (rain pet : List ℝ) (s gw tot : ℝ) :
    (Simhyd.model (α := ℝ)).init [p.baseflowCoefficient, p.imperviousThreshold, p.infiltrationCoefficient,
        p.infiltrationShape, p.interflowCoefficient, p.perviousFraction, p.risc, p.rechargeCoefficient, p.smsc] =
      .ok [0, 0, 0] ∧
    (Simhyd.model (α := ℝ)).run [p.baseflowCoefficient, p.imperviousThreshold, p.infiltrationCoefficient,
        p.infiltrationShape, p.interflowCoefficient, p.perviousFraction, p.risc, p.rechargeCoefficient, p.smsc]
        [rain, pet] [s, gw, tot] =
      .ok { outputs := [(Simhyd.run p ⟨s, gw, tot⟩ (rain.zip pet)).2.map (·.runoff),
                        (Simhyd.run p ⟨s, gw, tot⟩ (rain.zip pet)).2.map (·.quickflow),
                        (Simhyd.run p ⟨s, gw, tot⟩ (rain.zip pet)).2.map (·.baseflow),
                        (Simhyd.run p ⟨s, gw, tot⟩ (rain.zip pet)).2.map (·.store)],
            states := [(Simhyd.run p ⟨s, gw, tot⟩ (rain.zip pet)).1.sms,
                       (Simhyd.run p ⟨s, gw, tot⟩ (rain.zip pet)).1.gw,
                       (Simhyd.run p ⟨s, gw, tot⟩ (rain.zip pet)).1.total],
            tags := Simhyd.dedup ((Simhyd.run p ⟨s, gw, tot⟩ (rain.zip pet)).2.flatMap (·.tags)) } := ⟨rfl, rfl⟩

/-! ## Sacramento

Model of the code as repaired by fixes/sacramento-adimp-ratio.diff (the ADIMP saturation ratio is clamped at 0;
without the clamp the real code produced NaN and 10²³ mm of runoff — see the evidence) and the fracp clamp.
Here: the statements that need NO hypothesis on the stores — components, the channel stage (runoff, baseflow, channel
evaporation non-negative, `sacramento_channel_nonneg`), the normalised unit hydrograph.
The state invariant through the drainage-and-percolation loop, non-negativity of every output and the water budget for
every prefix of every run are proved in OW/Props/C10Sacramento.lean (`sacramento_invariant`, `sacramento_store_bounds`,
`sacramento_outputs_nonneg`, `sacramento_adimc_capacity`, `sacramento_budget`, `sacramento_no_water_created`,
`sacramento_oracle_end_budget`, `sacramento_oracle_prefix_budget`, `sacramento_runoff_le_rain`) under `RR.Sac.ParamsOk`,
`InOk` / `InOkPet` and, for a non-initial state row, `RowInv`; the hypotheses that cannot be dropped carry proved
counter-examples there.
-/

/-- runoff = surfaceRunoff + baseflow on every step of every run (any parameters, inputs, state) -/
theorem sacramento_components_sum (p : Sacramento.Params ℝ) (s : Sacramento.State ℝ) (xs : List (ℝ × ℝ)) :
    ∀ o ∈ (Sacramento.run p s xs).2, o.runoff = o.surfaceRunoff + o.baseflow ∧
      o.actualET = o.e1 + o.e2 + o.e3 + o.e4 + o.e5 := by
  induction xs generalizing s with
  | nil => intro o ho; simp [Sacramento.run, scan] at ho
  | cons x xs ih =>
    intro o ho
    simp only [Sacramento.run, scan, List.mem_cons] at ho
    rcases ho with rfl | ho
    · exact ⟨RR.Sacramento.step_components p _ s x, rfl⟩
    · exact ih _ o ho

/-- **Channel stage, any state.** PET ≥ 0 and sarva ≥ 0 only (no hypothesis on the other parameters or on the stores):
on every step of every run total runoff ≥ 0, baseflow ≥ 0 and the channel evaporation e4 ≥ 0, whatever the stores did.
(Formerly `sacramento_bounds_partial`; the rest of the invariant — surfaceRunoff, imperviousRunoff, e1, e2, e3, e5 ≥ 0 and
the store bounds — is `OW.Props.C10Sacramento.sacramento_invariant` / `sacramento_outputs_nonneg`, under `ParamsOk`.) -/
theorem sacramento_channel_nonneg (p : Sacramento.Params ℝ) (hsarva : 0 ≤ p.sarva) (s : Sacramento.State ℝ)
    (xs : List (ℝ × ℝ)) (hx : ∀ x ∈ xs, 0 ≤ x.2) :
    ∀ o ∈ (Sacramento.run p s xs).2, 0 ≤ o.runoff ∧ 0 ≤ o.baseflow ∧ 0 ≤ o.e4 := by
  induction xs generalizing s with
  | nil => intro o ho; simp [Sacramento.run, scan] at ho
  | cons x xs ih =>
    intro o ho
    simp only [Sacramento.run, scan, List.mem_cons] at ho
    rcases ho with rfl | ho
    · exact RR.Sacramento.step_channel_nonneg p _ s x (hx x (List.mem_cons_self ..)) hsarva
    · exact ih _ (fun y hy => hx y (List.mem_cons_of_mem _ hy)) o ho

/-- the five unit-hydrograph proportions are normalised by their sum (the divisor, positive by hypothesis):
the weights are non-negative and sum to one, so the routing delay neither creates nor loses water -/
theorem sacramento_uh_normalised (p : Sacramento.Params ℝ) (h1 : 0 ≤ p.uh1) (h2 : 0 ≤ p.uh2) (h3 : 0 ≤ p.uh3)
    (h4 : 0 ≤ p.uh4) (h5 : 0 ≤ p.uh5) (hs : 0 < p.uh1 + p.uh2 + p.uh3 + p.uh4 + p.uh5) :
    (Sacramento.makeUnitHydrograph p).sum = 1 ∧ ∀ d ∈ Sacramento.makeUnitHydrograph p, 0 ≤ d :=
  RR.Sacramento.uh_normalised p h1 h2 h3 h4 h5 hs

example : (0 : ℝ) ≤ 0.8 ∧ (0 : ℝ) < 0.8 + 0.1 + 0.05 + 0.03 + 0.02 := by constructor <;> norm_num

end OW.Props.C10
