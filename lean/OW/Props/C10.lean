import OW.Proofs.Surm
import OW.Proofs.Simhyd
import OW.Proofs.GR4JBudget
import OW.Proofs.Sacramento
import OW.Kernels.Coeff
/-!
C10 — rainfall-runoff models never create water and keep stores within bounds.

Kernel models: OW/Kernels/{Coeff,Surm,Simhyd,GR4J,Sacramento}.lean (mirrors of models/rr/*.go, tied to the Go code on
every run by the K correspondence). Theorems are over exact real arithmetic (`Num ℝ`), parameters in their
physically meaningful ranges, rainfall and PET non-negative, initial state = the model's own or any state satisfying
the invariant. Every divisor is proved non-zero from the parameter ranges (`*_divisors_pos`).
"No water created" is stated for every prefix of every run: Σ runoff (+ Σ reported AET) ≤ Σ rainfall + storage₀.
-/
namespace OW.Props.C10
open OW OW.Kernels

/-- a two-day series used by the non-vacuity examples: a wet day with PET, then a dry day -/
def demoSeries : List (ℝ × ℝ) := [(10, 2), (0, 3)]

theorem demoSeries_nonneg : ∀ x ∈ demoSeries, 0 ≤ x.1 ∧ 0 ≤ x.2 := by
  intro x hx
  simp only [demoSeries, List.mem_cons, List.not_mem_nil, or_false] at hx
  rcases hx with rfl | rfl <;> norm_num

/-- the same rainfall with zero PET (GR4J closed balance) -/
def demoSeriesNoPet : List (ℝ × ℝ) := [(10, 0), (0, 0), (25, 0)]

theorem demoSeriesNoPet_ok : ∀ x ∈ demoSeriesNoPet, 0 ≤ x.1 ∧ x.2 = 0 := by
  intro x hx
  simp only [demoSeriesNoPet, List.mem_cons, List.not_mem_nil, or_false] at hx
  rcases hx with rfl | rfl | rfl <;> norm_num

/-! ## RunoffCoefficient -/

/-- the only reported component is the total: runoff_t = coeff · rain_t (any coeff) -/
theorem coeff_components_sum (c : ℝ) (rain : List ℝ) : Coeff.run c rain = rain.map (fun r => c * r) := rfl

/-- 0 ≤ coeff ≤ 1, rain ≥ 0: every output is non-negative and at most that day's rainfall -/
theorem coeff_bounds (c : ℝ) (hc0 : 0 ≤ c) (hc1 : c ≤ 1) (rain : List ℝ) (hr : ∀ r ∈ rain, 0 ≤ r) :
    List.Forall₂ (fun r q => 0 ≤ q ∧ q ≤ r) rain (Coeff.run c rain) := by
  induction rain with
  | nil => exact List.Forall₂.nil
  | cons r rs ih =>
    have hr0 := hr r (List.mem_cons_self ..)
    exact List.Forall₂.cons ⟨mul_nonneg hc0 hr0, by nlinarith⟩ (ih (fun x hx => hr x (List.mem_cons_of_mem _ hx)))

/-- for every prefix: cumulative runoff ≤ cumulative rainfall (the model has no store) -/
theorem coeff_no_water_created (c : ℝ) (hc1 : c ≤ 1) (rain : List ℝ) (hr : ∀ r ∈ rain, 0 ≤ r)
    (n : ℕ) : ((Coeff.run c rain).take n).sum ≤ (rain.take n).sum := by
  have h : ∀ l : List ℝ, (∀ r ∈ l, 0 ≤ r) → (l.map (fun r => c * r)).sum ≤ l.sum := by
    intro l hl
    induction l with
    | nil => simp
    | cons r rs ih =>
      have hr0 := hl r (List.mem_cons_self ..)
      have := ih (fun x hx => hl x (List.mem_cons_of_mem _ hx))
      simp only [List.map_cons, List.sum_cons]
      nlinarith
  rw [coeff_components_sum, ← List.map_take]
  exact h _ (fun r hr' => hr r (List.mem_of_mem_take hr'))

example : (0 : ℝ) ≤ 0.35 ∧ (0.35 : ℝ) ≤ 1 ∧ ∀ r ∈ [(12 : ℝ), 0, 3.5], 0 ≤ r := by
  refine ⟨by norm_num, by norm_num, ?_⟩
  intro r hr
  simp only [List.mem_cons, List.not_mem_nil, or_false] at hr
  rcases hr with rfl | rfl | rfl <;> norm_num

/-! ## SURM -/

/-- runoff = quickflow + baseflow on every step of every run (any parameters, any inputs, any state) -/
theorem surm_components_sum (p : Surm.Params ℝ) (s : Surm.State ℝ) (xs : List (ℝ × ℝ)) :
    ∀ o ∈ (Surm.run p s xs).2, o.runoff = o.quickflow + o.baseflow := by
  induction xs generalizing s with
  | nil => intro o ho; simp [Surm.run, scan] at ho
  | cons x xs ih =>
    intro o ho
    simp only [Surm.run, scan, List.mem_cons] at ho
    rcases ho with rfl | ho
    · rfl
    · exact ih _ o ho

/-- the only divisor of the loop body is smax -/
theorem surm_divisors_pos (p : Surm.Params ℝ) (hp : RR.Surm.ParamsOk p) : p.smax ≠ 0 :=
  (RR.Surm.divisors_pos p hp).ne'

/-- **Invariant.** Parameters in range (fractions in [0,1], smax ≥ 10 mm), rain/PET ≥ 0, initial stores within
bounds: after every run 0 ≤ soil store ≤ smax, groundwater ≥ 0, and every output (runoff, quickflow, baseflow,
reported store) is non-negative with runoff = quickflow + baseflow. -/
theorem surm_invariant (p : Surm.Params ℝ) (hp : RR.Surm.ParamsOk p) (s : Surm.State ℝ) (hs : RR.Surm.Inv p s)
    (xs : List (ℝ × ℝ)) (hx : ∀ x ∈ xs, 0 ≤ x.1 ∧ 0 ≤ x.2) :
    RR.Surm.Inv p (Surm.run p s xs).1 ∧ ∀ o ∈ (Surm.run p s xs).2, RR.Surm.OutOk o := by
  have h := RR.scan_budget_le (Surm.step p) (RR.Surm.Inv p) (fun x => 0 ≤ x.1 ∧ 0 ≤ x.2) (RR.Surm.stor p)
    (fun x => x.1) (fun o => o.runoff) RR.Surm.OutOk (fun s x hs hx => RR.Surm.step_spec p hp s x hs hx) xs s hs hx
  exact ⟨h.1, h.2.2⟩

/-- **Budget invariant.** cumulative runoff + water held ≤ cumulative rainfall + water held initially
(water held = (1 − fimp)·(soil store + groundwater), per unit catchment area). -/
theorem surm_budget (p : Surm.Params ℝ) (hp : RR.Surm.ParamsOk p) (s : Surm.State ℝ) (hs : RR.Surm.Inv p s)
    (xs : List (ℝ × ℝ)) (hx : ∀ x ∈ xs, 0 ≤ x.1 ∧ 0 ≤ x.2) :
    ((Surm.run p s xs).2.map (·.runoff)).sum + RR.Surm.stor p (Surm.run p s xs).1 ≤
      (xs.map (·.1)).sum + RR.Surm.stor p s :=
  (RR.scan_budget_le (Surm.step p) (RR.Surm.Inv p) (fun x => 0 ≤ x.1 ∧ 0 ≤ x.2) (RR.Surm.stor p)
    (fun x => x.1) (fun o => o.runoff) RR.Surm.OutOk (fun s x hs hx => RR.Surm.step_spec p hp s x hs hx) xs s hs hx).2.1

/-- **No water created**, every prefix: Σ_{t<n} runoff ≤ Σ_{t<n} rain + initial storage. -/
theorem surm_no_water_created (p : Surm.Params ℝ) (hp : RR.Surm.ParamsOk p) (s : Surm.State ℝ)
    (hs : RR.Surm.Inv p s) (xs : List (ℝ × ℝ)) (hx : ∀ x ∈ xs, 0 ≤ x.1 ∧ 0 ≤ x.2) (n : ℕ) :
    (((Surm.run p s xs).2.take n).map (·.runoff)).sum ≤ ((xs.take n).map (·.1)).sum + RR.Surm.stor p s :=
  RR.prefix_budget (Surm.step p) (RR.Surm.Inv p) (fun x => 0 ≤ x.1 ∧ 0 ≤ x.2) (RR.Surm.stor p)
    (fun x => x.1) (fun o => o.runoff) RR.Surm.OutOk (fun s x hs hx => RR.Surm.step_spec p hp s x hs hx)
    (fun s hs => mul_nonneg (by linarith [hp.fimp1]) (by linarith [hs.1, hs.2.2])) xs s hs hx n

/-- non-vacuity: a parameter set in range, the model's own (empty) initial state -/
example : RR.Surm.ParamsOk ⟨0.3, 120, 0.05, 0.4, 0.1, 0.5, 150, 3, 2⟩ ∧
    RR.Surm.Inv ⟨0.3, 120, 0.05, 0.4, 0.1, 0.5, 150, 3, 2⟩ ⟨0, 0, 0⟩ := by
  refine ⟨by constructor <;> norm_num, ?_⟩
  unfold RR.Surm.Inv; norm_num

/-- the hypotheses of the SURM theorems are met by a concrete non-trivial run (rain on day 1, both prefixes) -/
example : (((Surm.run ⟨0.3, 120, 0.05, 0.4, 0.1, 0.5, 150, 3, 2⟩ ⟨0, 0, 0⟩ demoSeries).2.take 2).map (·.runoff)).sum ≤
    ((demoSeries.take 2).map (·.1)).sum + RR.Surm.stor ⟨0.3, 120, 0.05, 0.4, 0.1, 0.5, 150, 3, 2⟩ ⟨0, 0, 0⟩ :=
  surm_no_water_created _ (by constructor <;> norm_num) _ (by unfold RR.Surm.Inv; norm_num) _ demoSeries_nonneg 2

/-! ## SIMHYD -/

theorem simhyd_components_sum (p : Simhyd.Params ℝ) (s : Simhyd.State ℝ) (xs : List (ℝ × ℝ)) :
    ∀ o ∈ (Simhyd.run p s xs).2, o.runoff = o.quickflow + o.baseflow := by
  induction xs generalizing s with
  | nil => intro o ho; simp [Simhyd.run, scan] at ho
  | cons x xs ih =>
    intro o ho
    simp only [Simhyd.run, scan, List.mem_cons] at ho
    rcases ho with rfl | ho
    · simp only [Simhyd.step]; ring
    · exact ih _ o ho

/-- the only divisor of the loop body is the soil moisture store capacity -/
theorem simhyd_divisors_pos (p : Simhyd.Params ℝ) (hp : RR.Simhyd.ParamsOk p) : p.smsc ≠ 0 :=
  RR.Simhyd.divisors_pos p hp

/-- **Invariant.** Parameters in range, rain/PET ≥ 0, initial stores within bounds: after every run
0 ≤ soil store ≤ capacity, groundwater ≥ 0; every output is non-negative, the reported store lies in [0, capacity]
and runoff = quickflow + baseflow. -/
theorem simhyd_invariant (p : Simhyd.Params ℝ) (hp : RR.Simhyd.ParamsOk p) (s : Simhyd.State ℝ)
    (hs : RR.Simhyd.Inv p s) (xs : List (ℝ × ℝ)) (hx : ∀ x ∈ xs, 0 ≤ x.1 ∧ 0 ≤ x.2) :
    RR.Simhyd.Inv p (Simhyd.run p s xs).1 ∧ ∀ o ∈ (Simhyd.run p s xs).2, RR.Simhyd.OutOk p o := by
  have h := RR.scan_budget_le (Simhyd.step p) (RR.Simhyd.Inv p) (fun x => 0 ≤ x.1 ∧ 0 ≤ x.2) (RR.Simhyd.stor p)
    (fun x => x.1) (fun o => o.runoff + o.aet) (RR.Simhyd.OutOk p)
    (fun s x hs hx => by
      obtain ⟨h1, h2, h3, _⟩ := RR.Simhyd.step_spec p hp s x hs hx
      exact ⟨h1, h2.le, h3⟩) xs s hs hx
  exact ⟨h.1, h.2.2⟩

/-- **Exact balance.** Σ runoff + Σ evapotranspiration + water held = Σ rainfall + water held initially, where
evapotranspiration is the `totalEt` of the source (impervious + interception + soil ET; computed by the model as
a ghost output, the Go code has the line commented out) and water held = perviousFraction·(soil store + groundwater). -/
theorem simhyd_balance (p : Simhyd.Params ℝ) (hp : RR.Simhyd.ParamsOk p) (s : Simhyd.State ℝ)
    (hs : RR.Simhyd.Inv p s) (xs : List (ℝ × ℝ)) (hx : ∀ x ∈ xs, 0 ≤ x.1 ∧ 0 ≤ x.2) :
    ((Simhyd.run p s xs).2.map (fun o => o.runoff + o.aet)).sum + RR.Simhyd.stor p (Simhyd.run p s xs).1 =
      (xs.map (·.1)).sum + RR.Simhyd.stor p s :=
  (RR.scan_budget_eq (Simhyd.step p) (RR.Simhyd.Inv p) (fun x => 0 ≤ x.1 ∧ 0 ≤ x.2) (RR.Simhyd.stor p)
    (fun x => x.1) (fun o => o.runoff + o.aet)
    (fun s x hs hx => by
      obtain ⟨h1, h2, _⟩ := RR.Simhyd.step_spec p hp s x hs hx
      exact ⟨h1, h2⟩) xs s hs hx).2

/-- **No water created**, every prefix: Σ_{t<n} (runoff + evapotranspiration) ≤ Σ_{t<n} rain + initial storage;
in particular Σ runoff alone (evapotranspiration is non-negative, `simhyd_invariant`). -/
theorem simhyd_no_water_created (p : Simhyd.Params ℝ) (hp : RR.Simhyd.ParamsOk p) (s : Simhyd.State ℝ)
    (hs : RR.Simhyd.Inv p s) (xs : List (ℝ × ℝ)) (hx : ∀ x ∈ xs, 0 ≤ x.1 ∧ 0 ≤ x.2) (n : ℕ) :
    (((Simhyd.run p s xs).2.take n).map (fun o => o.runoff + o.aet)).sum ≤
      ((xs.take n).map (·.1)).sum + RR.Simhyd.stor p s :=
  RR.prefix_budget (Simhyd.step p) (RR.Simhyd.Inv p) (fun x => 0 ≤ x.1 ∧ 0 ≤ x.2) (RR.Simhyd.stor p)
    (fun x => x.1) (fun o => o.runoff + o.aet) (RR.Simhyd.OutOk p)
    (fun s x hs hx => by
      obtain ⟨h1, h2, h3, _⟩ := RR.Simhyd.step_spec p hp s x hs hx
      exact ⟨h1, h2.le, h3⟩)
    (fun s hs => mul_nonneg hp.pf0 (by linarith [hs.1, hs.2.2])) xs s hs hx n

example : RR.Simhyd.ParamsOk ⟨0.3, 1, 200, 3, 0.1, 0.9, 1.5, 0.2, 320⟩ ∧
    RR.Simhyd.Inv ⟨0.3, 1, 200, 3, 0.1, 0.9, 1.5, 0.2, 320⟩ ⟨0, 0, 0⟩ := by
  refine ⟨by constructor <;> norm_num, ?_⟩
  unfold RR.Simhyd.Inv; norm_num

example : ((Simhyd.run ⟨0.3, 1, 200, 3, 0.1, 0.9, 1.5, 0.2, 320⟩ ⟨0, 0, 0⟩ demoSeries).2.map
      (fun o => o.runoff + o.aet)).sum +
      RR.Simhyd.stor ⟨0.3, 1, 200, 3, 0.1, 0.9, 1.5, 0.2, 320⟩
        (Simhyd.run ⟨0.3, 1, 200, 3, 0.1, 0.9, 1.5, 0.2, 320⟩ ⟨0, 0, 0⟩ demoSeries).1 =
    (demoSeries.map (·.1)).sum + RR.Simhyd.stor ⟨0.3, 1, 200, 3, 0.1, 0.9, 1.5, 0.2, 320⟩ ⟨0, 0, 0⟩ :=
  simhyd_balance _ (by constructor <;> norm_num) _ (by unfold RR.Simhyd.Inv; norm_num) _ demoSeries_nonneg

/-! ## GR4J -/

/-- **Unit hydrographs.** For every x4 > 0 the ordinates of UH1 (length ⌈x4⌉) and UH2 (length ⌈2·x4⌉) built by
the code are non-negative. -/
theorem uh_nonneg (x4 : ℝ) (hx : 0 < x4) :
    (∀ u ∈ GR4J.uh1 x4 ⌈x4⌉₊, 0 ≤ u) ∧ (∀ u ∈ GR4J.uh2 x4 ⌈2 * x4⌉₊, 0 ≤ u) :=
  ⟨RR.GR4J.uh1_nonneg x4 hx, RR.GR4J.uh2_nonneg x4 hx⟩

/-- … and sum to one (nothing is lost or created by the routing delay). -/
theorem uh_sum_one (x4 : ℝ) (hx : 0 < x4) :
    (GR4J.uh1 x4 ⌈x4⌉₊).sum = 1 ∧ (GR4J.uh2 x4 ⌈2 * x4⌉₊).sum = 1 :=
  ⟨RR.GR4J.uh1_sum x4 hx, RR.GR4J.uh2_sum x4 hx⟩

example : (0 : ℝ) < 0.5 ∧ (0 : ℝ) < 3.7 := by constructor <;> norm_num

/-- the divisors of the day loop: x1, x3, x4 (parameters), `1 + (S/x1)·tanh`, `1 + (1−S/x1)·tanh` (≥ 1 for a
production store within [0, x1], shown inside `RR.GR4J.production_spec`) and `(1 + (R/x3)⁴)^(1/4)` (≥ 1) -/
theorem gr4j_divisors_pos (x1 x3 x4 : ℝ) (hp : RR.GR4J.ParamsOk x1 x3 x4) (r : ℝ) (hr : 0 ≤ r) :
    x1 ≠ 0 ∧ x3 ≠ 0 ∧ x4 ≠ 0 ∧ 1 ≤ (1 + (r / x3) ^ 4) ^ ((1 : ℝ) / 4) :=
  ⟨hp.x1pos.ne', hp.x3pos.ne', hp.x4pos.ne', (RR.GR4J.routing_spec x3 r hp.x3pos hr).2.2.2⟩

/-- runoff = routed flow Qr + direct flow Qd on every day of every run (the two reported-by-the-source branches) -/
theorem gr4j_components_sum (x1 x2 x3 x4 : ℝ) (n1 n2 : ℕ) (s : GR4J.State ℝ) (xs : List (ℝ × ℝ)) :
    ∀ o ∈ (GR4J.run x1 x2 x3 x4 n1 n2 s xs).2, o.runoff = o.qr + o.qd := by
  induction xs generalizing s with
  | nil => intro o ho; simp [GR4J.run, scan] at ho
  | cons x xs ih =>
    intro o ho
    simp only [GR4J.run, scan, List.mem_cons] at ho
    rcases ho with rfl | ho
    · rfl
    · exact ih _ o ho

/-- **Invariant** (any exchange coefficient x2). x1, x3, x4 > 0, rain/PET ≥ 0, initial state within bounds:
after every run 0 ≤ S ≤ x1, 0 ≤ R ≤ x3, all water in transit in the unit hydrographs ≥ 0, and every day's runoff,
Qr, Qd are non-negative. -/
theorem gr4j_invariant (x1 x2 x3 x4 : ℝ) (hp : RR.GR4J.ParamsOk x1 x3 x4) (s : GR4J.State ℝ)
    (hs : RR.GR4J.Inv x1 x3 x4 s) (xs : List (ℝ × ℝ)) (hx : ∀ x ∈ xs, 0 ≤ x.1 ∧ 0 ≤ x.2) :
    RR.GR4J.Inv x1 x3 x4 (GR4J.run x1 x2 x3 x4 ⌈x4⌉₊ ⌈2 * x4⌉₊ s xs).1 ∧
    ∀ o ∈ (GR4J.run x1 x2 x3 x4 ⌈x4⌉₊ ⌈2 * x4⌉₊ s xs).2, RR.GR4J.OutOk o := by
  have h := RR.scan_budget_le (GR4J.step x1 x2 x3 (GR4J.uh1 x4 ⌈x4⌉₊) (GR4J.uh2 x4 ⌈2 * x4⌉₊))
    (RR.GR4J.Inv x1 x3 x4) (fun x => 0 ≤ x.1 ∧ 0 ≤ x.2) (fun _ => 0) (fun _ => 0) (fun _ => 0) RR.GR4J.OutOk
    (fun s x hs hx => RR.GR4J.step_inv x1 x2 x3 x4 hp s x hs hx) xs s hs hx
  exact ⟨h.1, h.2.2⟩

/-- **Budget invariant** (x2 ≤ 0: a positive exchange coefficient imports groundwater by design):
cumulative runoff + water held ≤ cumulative rainfall + water held initially, where water held =
S + R + water in transit in both unit hydrographs. -/
theorem gr4j_budget (x1 x2 x3 x4 : ℝ) (hp : RR.GR4J.ParamsOk x1 x3 x4) (hx2 : x2 ≤ 0) (s : GR4J.State ℝ)
    (hs : RR.GR4J.Inv x1 x3 x4 s) (xs : List (ℝ × ℝ)) (hx : ∀ x ∈ xs, 0 ≤ x.1 ∧ 0 ≤ x.2) :
    ((GR4J.run x1 x2 x3 x4 ⌈x4⌉₊ ⌈2 * x4⌉₊ s xs).2.map (·.runoff)).sum +
        RR.GR4J.stor (GR4J.run x1 x2 x3 x4 ⌈x4⌉₊ ⌈2 * x4⌉₊ s xs).1 ≤
      (xs.map (·.1)).sum + RR.GR4J.stor s :=
  (RR.scan_budget_le (GR4J.step x1 x2 x3 (GR4J.uh1 x4 ⌈x4⌉₊) (GR4J.uh2 x4 ⌈2 * x4⌉₊))
    (RR.GR4J.Inv x1 x3 x4) (fun x => 0 ≤ x.1 ∧ 0 ≤ x.2) RR.GR4J.stor (fun x => x.1) (fun o => o.runoff)
    RR.GR4J.OutOk (fun s x hs hx => RR.GR4J.step_budget x1 x2 x3 x4 hp hx2 s x hs hx) xs s hs hx).2.1

/-- **No water created**, every prefix (x2 ≤ 0): Σ_{t<n} runoff ≤ Σ_{t<n} rain + initial storage. -/
theorem gr4j_no_water_created (x1 x2 x3 x4 : ℝ) (hp : RR.GR4J.ParamsOk x1 x3 x4) (hx2 : x2 ≤ 0)
    (s : GR4J.State ℝ) (hs : RR.GR4J.Inv x1 x3 x4 s) (xs : List (ℝ × ℝ)) (hx : ∀ x ∈ xs, 0 ≤ x.1 ∧ 0 ≤ x.2)
    (n : ℕ) :
    (((GR4J.run x1 x2 x3 x4 ⌈x4⌉₊ ⌈2 * x4⌉₊ s xs).2.take n).map (·.runoff)).sum ≤
      ((xs.take n).map (·.1)).sum + RR.GR4J.stor s :=
  RR.prefix_budget (GR4J.step x1 x2 x3 (GR4J.uh1 x4 ⌈x4⌉₊) (GR4J.uh2 x4 ⌈2 * x4⌉₊))
    (RR.GR4J.Inv x1 x3 x4) (fun x => 0 ≤ x.1 ∧ 0 ≤ x.2) RR.GR4J.stor (fun x => x.1) (fun o => o.runoff)
    RR.GR4J.OutOk (fun s x hs hx => RR.GR4J.step_budget x1 x2 x3 x4 hp hx2 s x hs hx)
    (fun s hs => RR.GR4J.stor_nonneg x1 x3 x4 s hs) xs s hs hx n

/-- **Closed balance.** Zero exchange coefficient and zero PET: rainfall equals runoff plus the change in
production store, routing store and unit-hydrograph stores, exactly:
Σ rain = Σ runoff + (S + R + ΣUH)_final − (S + R + ΣUH)_initial. -/
theorem gr4j_closed_balance (x1 x3 x4 : ℝ) (hp : RR.GR4J.ParamsOk x1 x3 x4) (s : GR4J.State ℝ)
    (hs : RR.GR4J.Inv x1 x3 x4 s) (xs : List (ℝ × ℝ)) (hx : ∀ x ∈ xs, 0 ≤ x.1 ∧ x.2 = 0) :
    (xs.map (·.1)).sum =
      ((GR4J.run x1 0 x3 x4 ⌈x4⌉₊ ⌈2 * x4⌉₊ s xs).2.map (·.runoff)).sum +
        (RR.GR4J.stor (GR4J.run x1 0 x3 x4 ⌈x4⌉₊ ⌈2 * x4⌉₊ s xs).1 - RR.GR4J.stor s) := by
  have h := (RR.scan_budget_eq (GR4J.step x1 0 x3 (GR4J.uh1 x4 ⌈x4⌉₊) (GR4J.uh2 x4 ⌈2 * x4⌉₊))
    (RR.GR4J.Inv x1 x3 x4) (fun x => 0 ≤ x.1 ∧ x.2 = 0) RR.GR4J.stor (fun x => x.1) (fun o => o.runoff)
    (fun s x hs hx => RR.GR4J.step_closed x1 x3 x4 hp s x hs hx) xs s hs hx).2
  unfold GR4J.run
  linarith

/-- non-vacuity: parameters in the documented ranges; the model's own initial state satisfies the invariant,
holds no water, and has the unit-hydrograph lengths the theorems are stated for -/
example : RR.GR4J.ParamsOk 350 90 1.7 ∧ RR.GR4J.Inv 350 90 1.7 (GR4J.initState (1.7 : ℝ)).1 ∧
    RR.GR4J.stor (GR4J.initState (1.7 : ℝ)).1 = 0 ∧ (GR4J.initState (1.7 : ℝ)).2.1 = ⌈(1.7 : ℝ)⌉₊ := by
  have hp : RR.GR4J.ParamsOk 350 90 1.7 := by constructor <;> norm_num
  exact ⟨hp, (RR.GR4J.init_inv 350 90 1.7 hp).1, (RR.GR4J.init_inv 350 90 1.7 hp).2,
    RR.GR4J.init_n1 1.7 (by norm_num)⟩

/-- the GR4J theorems applied to a concrete run from the model's own initial state: losing catchment (x2 = −1)
for the budget, x2 = 0 and zero PET for the closed balance -/
example : (((GR4J.run 350 (-1) 90 1.7 ⌈(1.7 : ℝ)⌉₊ ⌈2 * (1.7 : ℝ)⌉₊ (GR4J.initState (1.7 : ℝ)).1 demoSeries).2.take 1).map
      (·.runoff)).sum ≤ ((demoSeries.take 1).map (·.1)).sum + RR.GR4J.stor (GR4J.initState (1.7 : ℝ)).1 :=
  gr4j_no_water_created 350 (-1) 90 1.7 (by constructor <;> norm_num) (by norm_num) _
    (RR.GR4J.init_inv 350 90 1.7 (by constructor <;> norm_num)).1 _ demoSeries_nonneg 1

example : (demoSeriesNoPet.map (·.1)).sum =
    ((GR4J.run 350 0 90 1.7 ⌈(1.7 : ℝ)⌉₊ ⌈2 * (1.7 : ℝ)⌉₊ (GR4J.initState (1.7 : ℝ)).1 demoSeriesNoPet).2.map (·.runoff)).sum +
      (RR.GR4J.stor (GR4J.run 350 0 90 1.7 ⌈(1.7 : ℝ)⌉₊ ⌈2 * (1.7 : ℝ)⌉₊ (GR4J.initState (1.7 : ℝ)).1 demoSeriesNoPet).1 -
        RR.GR4J.stor (GR4J.initState (1.7 : ℝ)).1) :=
  gr4j_closed_balance 350 90 1.7 (by constructor <;> norm_num) _
    (RR.GR4J.init_inv 350 90 1.7 (by constructor <;> norm_num)).1 _ demoSeriesNoPet_ok

/-! ## Sacramento

Model of the code as repaired by fixes/sacramento-adimp-ratio.diff (the ADIMP saturation ratio is clamped at 0;
without the clamp the real code produced NaN and 10²³ mm of runoff — see the evidence).
Proved: components, the channel stage (runoff, baseflow, channel evaporation non-negative), the normalised unit
hydrograph. NOT proved (named gap, `sacramento_bounds_partial`): the store bounds and the water budget, which need
an invariant through the drainage-and-percolation loop (`incBody`: 15 coupled updates repeated `ninc` times, twice
per day); they are covered by the oracle on the implementation only. Full statements:

  theorem sacramento_invariant : ParamsOk p → Inv p s → (∀ x ∈ xs, 0 ≤ x.1 ∧ 0 ≤ x.2) →
      Inv p (run p s xs).1 ∧ ∀ o ∈ (run p s xs).2, 0 ≤ o.actualET ∧ 0 ≤ o.imperviousRunoff ∧ 0 ≤ o.surfaceRunoff
    where Inv: 0 ≤ uztwc ≤ uztwm, 0 ≤ uzfwc ≤ uzfwm, 0 ≤ lztwc ≤ lztwm, 0 ≤ alzfpc ≤ alzfpm, 0 ≤ alzfsc ≤ alzfsm, qq ≥ 0
  theorem sacramento_no_water_created : … → ∀ n,
      Σ_{t<n} (runoff + actualET) ≤ Σ_{t<n} rain + (1−pctim−adimp)(uztwc+uzfwc+lztwc+alzfpc+alzfsc)₀ + adimp·adimc₀
-/

/-- runoff = surfaceRunoff + baseflow on every step of every run (any parameters, inputs, state) -/
theorem sacramento_components_sum (p : Sacramento.Params ℝ) (s : Sacramento.State ℝ) (xs : List (ℝ × ℝ)) :
    ∀ o ∈ (Sacramento.run p s xs).2, o.runoff = o.surfaceRunoff + o.baseflow ∧
      o.actualET = o.e1 + o.e2 + o.e3 + o.e4 + o.e5 := by
  induction xs generalizing s with
  | nil => intro o ho; simp [Sacramento.run, scan] at ho
  | cons x xs ih =>
    intro o ho
    simp only [Sacramento.run, scan, List.mem_cons] at ho
    rcases ho with rfl | ho
    · exact ⟨RR.Sacramento.step_components p _ s x, rfl⟩
    · exact ih _ o ho

/-- **Partial (channel stage only).** PET ≥ 0 and sarva ≥ 0: on every step of every run total runoff ≥ 0,
baseflow ≥ 0 and the channel evaporation e4 ≥ 0, whatever the stores did. Missing for the full
`sacramento_invariant`: surfaceRunoff ≥ 0 (needs the unit-hydrograph buffer ≥ 0), e1, e2, e3, e5 ≥ 0, imperviousRunoff ≥ 0
and the store bounds, all of which depend on the drainage-and-percolation loop invariant. -/
theorem sacramento_bounds_partial (p : Sacramento.Params ℝ) (hsarva : 0 ≤ p.sarva) (s : Sacramento.State ℝ)
    (xs : List (ℝ × ℝ)) (hx : ∀ x ∈ xs, 0 ≤ x.2) :
    ∀ o ∈ (Sacramento.run p s xs).2, 0 ≤ o.runoff ∧ 0 ≤ o.baseflow ∧ 0 ≤ o.e4 := by
  induction xs generalizing s with
  | nil => intro o ho; simp [Sacramento.run, scan] at ho
  | cons x xs ih =>
    intro o ho
    simp only [Sacramento.run, scan, List.mem_cons] at ho
    rcases ho with rfl | ho
    · exact RR.Sacramento.step_channel_nonneg p _ s x (hx x (List.mem_cons_self ..)) hsarva
    · exact ih _ (fun y hy => hx y (List.mem_cons_of_mem _ hy)) o ho

/-- the five unit-hydrograph proportions are normalised by their sum (the divisor, positive by hypothesis):
the weights are non-negative and sum to one, so the routing delay neither creates nor loses water -/
theorem sacramento_uh_normalised (p : Sacramento.Params ℝ) (h1 : 0 ≤ p.uh1) (h2 : 0 ≤ p.uh2) (h3 : 0 ≤ p.uh3)
    (h4 : 0 ≤ p.uh4) (h5 : 0 ≤ p.uh5) (hs : 0 < p.uh1 + p.uh2 + p.uh3 + p.uh4 + p.uh5) :
    (Sacramento.makeUnitHydrograph p).sum = 1 ∧ ∀ d ∈ Sacramento.makeUnitHydrograph p, 0 ≤ d :=
  RR.Sacramento.uh_normalised p h1 h2 h3 h4 h5 hs

example : (0 : ℝ) ≤ 0.8 ∧ (0 : ℝ) < 0.8 + 0.1 + 0.05 + 0.03 + 0.02 := by constructor <;> norm_num

end OW.Props.C10
