import OW.Props.GenTie
import OW.Proofs.RealNum
/-!
The two literal-identity hypotheses of `OW/Props/GenTie.lean` hold at `ℝ` (where the property theorems are stated), so at
`ℝ` every `gen_eq_*` is unconditional. (At `Float`, `LitZero` holds by `rfl` — `GenTie.litZero_float`; `NatZero Float`, i.e.
`Float.ofNat 0 = Float.ofScientific 0 true 1`, is a fact about opaque runtime functions and is covered by execution only.)
-/
namespace OW.Props.GenTie
open OW OW.Kernels OW.Gen.K

theorem litZero_real : LitZero ℝ := by unfold LitZero; norm_num [RealNum.zero_eq]

theorem natZero_real : NatZero ℝ := by unfold NatZero; rw [RealNum.ofNat_eq]; norm_num

/-- `gen_eq_LumpedConstituent` at `ℝ`, unconditionally -/
theorem gen_eq_LumpedConstituent_real (initialStoredMass x pointInput deltaT storedMass a b c d : ℝ) :
    LumpedConstituentTransport.step initialStoredMass x pointInput deltaT storedMass a b c d =
      (let r := LumpedConstituent.step pointInput deltaT storedMass (a, b, c, d)
       (r.1, (r.2.outflowLoad, r.2.pointSourceLoad))) :=
  (gen_eq_LumpedConstituent litZero_real initialStoredMass x pointInput deltaT storedMass a b c d).2.2

/-- `gen_eq_InstreamCoarseSediment` at `ℝ`, unconditionally -/
theorem gen_eq_InstreamCoarseSediment_real (deltaT channelStore storedMass a b c : ℝ) :
    instreamCoarseSediment.step deltaT channelStore storedMass a b c =
      (let r := InstreamCoarseSediment.step deltaT (channelStore, storedMass) (a, b, c); (r.1, r.2.loadDownstream)) :=
  (gen_eq_InstreamCoarseSediment natZero_real deltaT channelStore storedMass a b c).2.2

end OW.Props.GenTie
