import OW.Props.GenTie
import OW.Proofs.RealNum
/-!
The literal-identity hypotheses `LitZero`, `NatZero`, `Lit1000`, `Lit86400` of `OW/Props/GenTie.lean` hold at `ℝ` (where the
property theorems are stated), so at `ℝ` the `gen_eq_*` that carry them are unconditional. (At `Float`, `LitZero` holds by
`rfl` — `GenTie.litZero_float`; the others, e.g. `Float.ofNat 0 = Float.ofScientific 0 true 1`, are facts about opaque runtime
functions: `GenTie.litChecks` evaluates them when GenTie.lean is compiled.) `TwoPi` and `AnnualToDaily` (gen_eq_UsleFine,
gen_eq_SednetGully) identify two decimal spellings of one float64 that are different reals: no `ℝ` corollary.
-/
namespace OW.Props.GenTie
open OW OW.Kernels OW.Gen.K

theorem litZero_real : LitZero ℝ := by unfold LitZero; norm_num [RealNum.zero_eq]

theorem natZero_real : NatZero ℝ := by unfold NatZero; rw [RealNum.ofNat_eq]; norm_num

/-- `gen_eq_LumpedConstituent` at `ℝ`, unconditionally -/
theorem gen_eq_LumpedConstituent_real (initialStoredMass x pointInput deltaT storedMass a b c d : ℝ) :
    LumpedConstituentTransport.step initialStoredMass x pointInput deltaT storedMass a b c d =
      (let r := LumpedConstituent.step pointInput deltaT storedMass (a, b, c, d)
       (r.1, (r.2.outflowLoad, r.2.pointSourceLoad))) :=
  (gen_eq_LumpedConstituent litZero_real initialStoredMass x pointInput deltaT storedMass a b c d).2.2

/-- `gen_eq_InstreamCoarseSediment` at `ℝ`, unconditionally -/
theorem gen_eq_InstreamCoarseSediment_real (deltaT channelStore storedMass a b c : ℝ) :
    instreamCoarseSediment.step deltaT channelStore storedMass a b c =
      (let r := InstreamCoarseSediment.step deltaT (channelStore, storedMass) (a, b, c); (r.1, r.2.loadDownstream)) :=
  (gen_eq_InstreamCoarseSediment natZero_real deltaT channelStore storedMass a b c).2.2

theorem lit1000_real : Lit1000 ℝ := by unfold Lit1000; rw [RealNum.ofNat_eq]; norm_num

theorem lit86400_real : Lit86400 ℝ := by unfold Lit86400; rw [RealNum.ofNat_eq]; norm_num

/-- `gen_eq_StorageDissolvedDecay` (the delegated branch) at `ℝ`, unconditionally -/
theorem gen_eq_StorageDissolvedDecay_real (ism dt dsd ari bff mfrt sm a b c d : ℝ) :
    storageDissolvedDecay.delegateStep ism dt dsd ari bff mfrt sm a c d =
      (let r := StorageDissolvedDecay.stepOff dt sm (a, b, c, d); (r.1, (r.2.decayedMass, r.2.outflowMass))) :=
  (gen_eq_StorageDissolvedDecay litZero_real ism dt dsd ari bff mfrt sm a b c d).2.2.2.1

/-- `gen_eq_InstreamDissolvedNutrient` (one iteration of the decay loop) at `ℝ`, unconditionally -/
theorem gen_eq_InstreamDissolvedNutrient_real (sm dd psl lh lw ll uv dur pv up lat vol out : ℝ) :
    instreamDissolvedNutrient.step dd psl lh lw ll uv dur sm pv up lat vol out =
      (let r := InstreamDissolvedNutrient.step sm (psl / 31557600) lh lw ll uv dur (86400 / dur) pv (up, lat, vol, out)
       ((sm, r.1), (r.2.decayed.getD Num.zero, r.2.downstream, r.2.pointSource.getD Num.zero))) :=
  (gen_eq_InstreamDissolvedNutrient litZero_real natZero_real sm dd psl lh lw ll uv dur 0 0 pv up lat vol out).2.2.2.2.2.2

/-- `gen_eq_InstreamFineSediment` (one iteration of the main path) at `ℝ`, unconditionally -/
theorem gen_eq_InstreamFineSediment_real (p : InstreamFineSediment.Params ℝ) (csf tsm up lat loc vol out : ℝ) :
    instreamFineSediment.step p.bankFullFlow p.fineSedSettVelocityFlood p.floodPlainArea p.linkWidth p.linkLength p.linkSlope
        p.bankHeight p.propBankHeightForFineDep p.sedBulkDensity p.manningsN p.fineSedSettVelocity p.fineSedReMobVelocity
        p.durationInSeconds csf tsm up lat loc vol out =
      (let r := InstreamFineSediment.stepMain p (csf, tsm) (up, lat, loc, vol, out)
       (r.1, (r.2.loadDownstream, r.2.loadToFloodplain, r.2.loadToChannelDeposition, r.2.floodplainDepositionFraction,
              r.2.channelDepositionFraction))) :=
  (gen_eq_InstreamFineSediment lit1000_real lit86400_real litZero_real p csf tsm up lat loc vol out).2.2.2

/-- `gen_eq_ClimateVariables` (one iteration, including the bisection) at `ℝ`, unconditionally -/
theorem gen_eq_ClimateVariables_real (elevation t rh : ℝ) :
    climateVariables.step elevation t rh =
      (let r := Climate.sample (Climate.barometricPressure elevation) t rh; (r.vaporPressure, r.dewPoint, r.wetBulb, r.deltaT)) :=
  (gen_eq_ClimateVariables natZero_real elevation t rh).2

end OW.Props.GenTie
