import OW.Proofs.GR4JSpec
import OW.Proofs.GR4JConv
import OW.Proofs.GR4JModel
import OW.Proofs.GR4JClosed
import OW.Proofs.GR4JCap
import Mathlib.Analysis.SpecialFunctions.Artanh
/-!
C15 — GR4J computes the published GR4J equations (Perrin, Michel, Andréassian 2003).

`OW.Kernels.GR4J` mirrors models/rr/gr4j.go expression by expression (tied to the Go code on every run by the
K correspondence); `OW.Spec.GR4J` is written from the paper. The theorems below state, over exact real arithmetic,
that both define the same unit-hydrograph ordinates and the same runs. Proofs are in OW/Proofs/GR4JUH.lean and
OW/Proofs/GR4JSpec.lean; nothing here depends on a division being cancelled (x/0 = 0 is never used: the
equalities are between identical quotients).

All theorems are at `α := ℝ` (exact real arithmetic, `Real.rpow`, `Real.tanh`); they are NOT generic in `Num α`.
Three places where ℝ is more forgiving than float64, and how they are kept out:
* `x / 0 = 0` at ℝ, ±Inf/NaN in Go: the run theorems assume x1 > 0, x3 > 0, x4 > 0 (the only divisors);
* `b ^ 3.5 = 0` for b < 0 at ℝ (`Real.rpow` of a negative base, cos(3.5π) = 0), NaN in Go: the only power with a
  non-integer exponent and a base that is not ≥ 1 by construction is `(R/x3)^3.5`; with x3 > 0 its base is
  non-negative as soon as R ≥ 0, which every day re-establishes (`R ← max(0, ·) − Qr ≥ 0`; C10 `Inv`), so on every
  day after the first — and on the first for an initial store R ≥ 0 — the ℝ power is the power Go computes;
* `int(float64(n)) = n`: exact at ℝ (`toInt_ofNat`), exact at float64 for n < 2^53, checked by execution.

Layers (all in this file): ordinates (`sh1_…`, `sh2_…`, `uh_…`), runs of the kernel vs the specification
(`gr4j_code_eq_spec…`), the adapter `model.run` / `model.init` on packed state rows (`model_run_eq_packed_run`,
`model_run_from_init`, `model_eq_spec_model`), the specification in closed (convolution) form
(`spec_run_closed_form`, `gr4j_code_closed_form`), and the tanh safeguard (`gr4j_spec_cap_inactive`,
`gr4j_code_eq_published`: a PARTIAL result — it needs |P − E| ≤ 13·x1, and `cap_hypothesis_needed` shows the
hypothesis cannot be dropped).
-/
namespace OW.Props.C15
open OW OW.Kernels.GR4J

/-- **SH1.** For every x4 > 0 and every index i < ⌈x4⌉ the code's `SH1[i]` (a power without any case
distinction, then `SH1[n1-1] = 1`) is the published piecewise S-curve SH1 evaluated at t = i+1. -/
theorem sh1_code_eq_spec (x4 : ℝ) (hx : 0 < x4) (i : ℕ) (hi : i < ⌈x4⌉₊) :
    sh1At x4 ⌈x4⌉₊ i = Spec.GR4J.SH1 x4 ((i + 1 : ℕ) : ℝ) :=
  RR.GR4J.sh1_code_eq_spec x4 hx i hi

example : (1 : ℕ) < ⌈(2.5 : ℝ)⌉₊ := Nat.lt_ceil.mpr (by norm_num)

/-- **SH2.** For every x4 > 0 and every index i < ⌈2·x4⌉ the code's `SH2[i]` (three-way test on (i+1)/x4, then
`SH2[n2-1] = 1`) is the published S-curve SH2 at t = i+1. -/
theorem sh2_code_eq_spec (x4 : ℝ) (hx : 0 < x4) (i : ℕ) (hi : i < ⌈2 * x4⌉₊) :
    sh2At x4 ⌈2 * x4⌉₊ i = Spec.GR4J.SH2 x4 ((i + 1 : ℕ) : ℝ) :=
  RR.GR4J.sh2_code_eq_spec x4 hx i hi

example : (3 : ℕ) < ⌈2 * (1.7 : ℝ)⌉₊ := Nat.lt_ceil.mpr (by norm_num)

/-- **Ordinates.** The code's ordinate vectors are the published ordinates UH1(1..⌈x4⌉), UH2(1..⌈2·x4⌉), and
every published ordinate beyond those lengths is zero (the vectors of the code lose nothing). -/
theorem uh_code_eq_spec (x4 : ℝ) (hx : 0 < x4) :
    uh1 x4 ⌈x4⌉₊ = (List.range ⌈x4⌉₊).map (fun i => Spec.GR4J.UH1 x4 (i + 1)) ∧
    uh2 x4 ⌈2 * x4⌉₊ = (List.range ⌈2 * x4⌉₊).map (fun i => Spec.GR4J.UH2 x4 (i + 1)) ∧
    (∀ j, ⌈x4⌉₊ < j → Spec.GR4J.UH1 x4 j = 0) ∧ (∀ j, ⌈2 * x4⌉₊ < j → Spec.GR4J.UH2 x4 j = 0) :=
  ⟨RR.GR4J.uh1_eq_spec x4 hx, RR.GR4J.uh2_eq_spec x4 hx, RR.GR4J.UH1_beyond x4 hx, RR.GR4J.UH2_beyond x4 hx⟩

/-- **Lengths.** `initGR4J` chooses n1 = ⌈x4⌉ and n2 = ⌈2·x4⌉ (via `int(math.Ceil(·))`), and its state is shaped
accordingly; these are the lengths of the published unit hydrographs. -/
theorem init_lengths (x4 : ℝ) (hx : 0 < x4) :
    (initState x4).2.1 = ⌈x4⌉₊ ∧ (initState x4).2.2 = ⌈2 * x4⌉₊ ∧ RR.GR4J.Shaped x4 (initState x4).1 := by
  have h1 := RR.GR4J.init_n1 x4 hx
  have h2 := RR.GR4J.init_n2 x4 hx
  refine ⟨h1, h2, ?_, ?_⟩
  · show (zeros (initState x4).2.1).length = _
    rw [h1]; exact List.length_replicate
  · show (zeros (initState x4).2.2).length = _
    rw [h2]; exact List.length_replicate

/-- **GR4J = published GR4J (tanh argument safeguarded).** For all parameters with x1, x3, x4 > 0, every
rainfall/PET series and every initial production store, routing store and unit-hydrograph stores (vectors of the
lengths ⌈x4⌉, ⌈2·x4⌉), the kernel run and the specification run produce the same runoff series (and the same Qr,
Qd), and end in the same S, R and unit-hydrograph stores.
`x1 > 0`, `x3 > 0` are not used by the proof (the two sides are the same real expressions also for other values);
they are hypotheses because outside them the real expressions are not what Go computes (division by zero, negative
base of `(R/x3)^3.5`: 0 at ℝ, NaN in Go), see the header. -/
theorem gr4j_code_eq_spec (x1 x2 x3 x4 : ℝ) (_hx1 : 0 < x1) (_hx3 : 0 < x3) (hx4 : 0 < x4) (st : State ℝ)
    (hst : RR.GR4J.Shaped x4 st) (xs : List (ℝ × ℝ)) :
    Spec.GR4J.run Spec.GR4J.tanhArgSafeguarded x1 x2 x3 x4 (RR.GR4J.toSpec st) xs =
      (RR.GR4J.toSpec (run x1 x2 x3 x4 ⌈x4⌉₊ ⌈2 * x4⌉₊ st xs).1,
       (run x1 x2 x3 x4 ⌈x4⌉₊ ⌈2 * x4⌉₊ st xs).2.map RR.GR4J.toDay) :=
  (RR.GR4J.run_eq_spec x1 x2 x3 x4 hx4 xs st hst).1

/-- The same from the model's own initial state (what `InitialiseStates` produces). -/
theorem gr4j_code_eq_spec_from_init (x1 x2 x3 x4 : ℝ) (hx1 : 0 < x1) (hx3 : 0 < x3) (hx4 : 0 < x4)
    (xs : List (ℝ × ℝ)) :
    Spec.GR4J.run Spec.GR4J.tanhArgSafeguarded x1 x2 x3 x4 (RR.GR4J.toSpec (initState x4).1) xs =
      (RR.GR4J.toSpec (run x1 x2 x3 x4 (initState x4).2.1 (initState x4).2.2 (initState x4).1 xs).1,
       (run x1 x2 x3 x4 (initState x4).2.1 (initState x4).2.2 (initState x4).1 xs).2.map RR.GR4J.toDay) := by
  obtain ⟨h1, h2, h3⟩ := init_lengths x4 hx4
  rw [h1, h2]
  exact gr4j_code_eq_spec x1 x2 x3 x4 hx1 hx3 hx4 _ h3 xs

example : RR.GR4J.Shaped (1.7 : ℝ) (initState (1.7 : ℝ)).1 := (init_lengths 1.7 (by norm_num)).2.2

/-- **The safeguard is inactive in the physical range.** The specification run with the tanh argument capped
at 13 (what the code and the reference implementations do) is the run of the equations exactly as printed,
whenever |P − E| ≤ 13·x1 on every day (x1 > 0 is the divisor). -/
theorem gr4j_spec_cap_inactive (x1 x2 x3 x4 : ℝ) (hx1 : 0 < x1) (xs : List (ℝ × ℝ))
    (h : ∀ pe ∈ xs, |pe.1 - pe.2| ≤ 13 * x1) (st : Spec.GR4J.State ℝ) :
    Spec.GR4J.run Spec.GR4J.tanhArgPublished x1 x2 x3 x4 st xs =
      Spec.GR4J.run Spec.GR4J.tanhArgSafeguarded x1 x2 x3 x4 st xs :=
  RR.GR4J.run_published_eq x1 x2 x3 x4 hx1 xs h st

example : ∀ pe ∈ [((10 : ℝ), (3 : ℝ)), (0, 5)], |pe.1 - pe.2| ≤ 13 * (300 : ℝ) := by
  intro pe hpe
  simp only [List.mem_cons, List.not_mem_nil, or_false] at hpe
  rcases hpe with rfl | rfl <;> norm_num [abs_le]

/-- Hence: code = equations as printed, on every series with |P − E| ≤ 13·x1 (and x1, x3, x4 > 0).
PARTIAL with respect to the property text ("computes the published equations"): the code caps the argument of
tanh at 13, the published equations do not, so on a day with |P − E| > 13·x1 the two differ (by at most
x1·(1 − tanh 13) ≈ 1.02·10⁻¹¹·x1 in Ps / Es on that day: `cap_day_gap`; `cap_hypothesis_needed` shows the difference
is real; no bound on the propagated difference of a whole run is proved). Listed in
`partial=` of checks/C15.py. The unconditional statement is `gr4j_code_eq_spec` (safeguarded specification). -/
theorem gr4j_code_eq_published (x1 x2 x3 x4 : ℝ) (hx1 : 0 < x1) (hx3 : 0 < x3) (hx4 : 0 < x4) (st : State ℝ)
    (hst : RR.GR4J.Shaped x4 st) (xs : List (ℝ × ℝ)) (h : ∀ pe ∈ xs, |pe.1 - pe.2| ≤ 13 * x1) :
    Spec.GR4J.run Spec.GR4J.tanhArgPublished x1 x2 x3 x4 (RR.GR4J.toSpec st) xs =
      (RR.GR4J.toSpec (run x1 x2 x3 x4 ⌈x4⌉₊ ⌈2 * x4⌉₊ st xs).1,
       (run x1 x2 x3 x4 ⌈x4⌉₊ ⌈2 * x4⌉₊ st xs).2.map RR.GR4J.toDay) := by
  rw [gr4j_spec_cap_inactive x1 x2 x3 x4 hx1 xs h]
  exact gr4j_code_eq_spec x1 x2 x3 x4 hx1 hx3 hx4 st hst xs

/-- **The hypothesis |P − E| ≤ 13·x1 cannot be dropped.** From an empty production store, on any day with net
rainfall Pn > 13·x1 (x1 > 0 is the divisor) the published Ps = x1·tanh(Pn/x1) and the safeguarded Ps = x1·tanh 13
(what the code computes, `production_eq`) are different numbers: tanh is injective. -/
theorem cap_hypothesis_needed (x1 pn : ℝ) (hx1 : 0 < x1) (h : 13 * x1 < pn) :
    Spec.GR4J.Ps Spec.GR4J.tanhArgPublished x1 0 pn ≠ Spec.GR4J.Ps Spec.GR4J.tanhArgSafeguarded x1 0 pn := by
  have h13 : 13 < pn / x1 := by rw [lt_div_iff₀ hx1]; exact h
  rw [RR.GR4J.Ps_real]
  have hc : RR.GR4J.cap (pn / x1) = 13 := by unfold RR.GR4J.cap; rw [if_pos h13]
  rw [hc]
  simp only [Spec.GR4J.Ps, Spec.GR4J.sq, Spec.GR4J.tanhArgPublished, RealNum.tanh_eq, RealNum.ofNat_eq]
  norm_num only
  intro heq
  have h2 : Real.tanh (pn / x1) = Real.tanh 13 := by
    have := heq
    simp only [zero_div, mul_zero, sub_zero, mul_one, zero_mul, add_zero, div_one, ne_eq, OfNat.ofNat_ne_zero,
      not_false_eq_true, zero_pow] at this
    exact mul_left_cancel₀ hx1.ne' this
  have := Real.tanh_injective h2
  linarith

example : (13 : ℝ) * 1 < 14 := by norm_num

/-- **Size of the safeguard on one day.** For x1 > 0 (the divisor), a production store 0 ≤ S ≤ x1 and net
rainfall / net evapotranspiration ≥ 0, the published Ps (resp. Es) is at least the safeguarded one — what the code
computes — and exceeds it by at most x1·(1 − tanh 13), whatever P − E is. (1 − tanh 13 = 2/(e²⁶+1) ≈ 1.02·10⁻¹¹:
hand calculation, not part of the theorem.) This bounds the deviation from the printed equations on ONE day from
equal stores; how it propagates through S over a run is not proved (measured by the KSPEC-published family). -/
theorem cap_day_gap (x1 S pn en : ℝ) (hx1 : 0 < x1) (hS0 : 0 ≤ S) (hS1 : S ≤ x1) (hpn : 0 ≤ pn) (hen : 0 ≤ en) :
    (0 ≤ Spec.GR4J.Ps Spec.GR4J.tanhArgPublished x1 S pn - Spec.GR4J.Ps Spec.GR4J.tanhArgSafeguarded x1 S pn ∧
     Spec.GR4J.Ps Spec.GR4J.tanhArgPublished x1 S pn - Spec.GR4J.Ps Spec.GR4J.tanhArgSafeguarded x1 S pn ≤
       x1 * (1 - Real.tanh 13)) ∧
    (0 ≤ Spec.GR4J.Es Spec.GR4J.tanhArgPublished x1 S en - Spec.GR4J.Es Spec.GR4J.tanhArgSafeguarded x1 S en ∧
     Spec.GR4J.Es Spec.GR4J.tanhArgPublished x1 S en - Spec.GR4J.Es Spec.GR4J.tanhArgSafeguarded x1 S en ≤
       x1 * (1 - Real.tanh 13)) :=
  RR.GR4J.cap_day_gap x1 S pn en hx1 hS0 hS1 hpn hen

example : (0 : ℝ) < 350 ∧ (0 : ℝ) ≤ 100 ∧ (100 : ℝ) ≤ 350 ∧ (0 : ℝ) ≤ 13 * 350 + 1 := by norm_num

/-- **The base of the exchange power is never negative.** With x3 > 0 and an initial routing store R ≥ 0, the
routing store after every prefix of every series is ≥ 0, hence `R/x3 ≥ 0` on every day: `(R/x3)^3.5` is a power of a
non-negative base, where `Real.rpow` and Go's `math.Pow` are the same function (for a negative base ℝ gives 0 and
Go NaN). This is what the hypothesis x3 > 0 of the run theorems buys; no condition on x1, x2, x4 or the inputs. -/
theorem exchange_base_nonneg (x1 x2 x3 x4 : ℝ) (hx3 : 0 < x3) (n1 n2 : ℕ) (st : State ℝ) (hR : 0 ≤ st.R)
    (xs : List (ℝ × ℝ)) (k : ℕ) :
    0 ≤ (run x1 x2 x3 x4 n1 n2 st (xs.take k)).1.R / x3 :=
  div_nonneg (RR.GR4J.run_R_nonneg x1 x2 x3 x4 hx3 n1 n2 _ st hR) hx3.le

example : (0 : ℝ) ≤ (initState (1.7 : ℝ)).1.R := by
  show (0 : ℝ) ≤ 0.0
  rw [RR.GR4J.sciZero]

/-- **The specification's unit hydrographs are the paper's convolutions.** Run day by day from a vector of pending
deliveries of length ⌈x4⌉ (resp. ⌈2·x4⌉), the specification delivers on day t what was pending for that day plus
Σ_{i≤t} UH(t−i+1)·x_i, the discrete convolution of the inputs x_i (0.9·Pr or 0.1·Pr) with the published ordinates. -/
theorem spec_uh_is_convolution (x4 : ℝ) (hx : 0 < x4) (xs : List ℝ) (t : ℕ) (ht : t < xs.length) :
    (∀ pend : List ℝ, pend.length = ⌈x4⌉₊ →
      (RR.GR4J.uhRun (Spec.GR4J.UH1 x4) pend xs).2.getD t 0 =
        pend.getD t 0 + ∑ i ∈ Finset.range (t + 1), Spec.GR4J.UH1 x4 (t - i + 1) * xs.getD i 0) ∧
    (∀ pend : List ℝ, pend.length = ⌈2 * x4⌉₊ →
      (RR.GR4J.uhRun (Spec.GR4J.UH2 x4) pend xs).2.getD t 0 =
        pend.getD t 0 + ∑ i ∈ Finset.range (t + 1), Spec.GR4J.UH2 x4 (t - i + 1) * xs.getD i 0) :=
  ⟨fun pend h => RR.GR4J.uhRun_convolution _ xs pend (fun k hk => RR.GR4J.UH1_beyond x4 hx k (h ▸ hk)) t ht,
   fun pend h => RR.GR4J.uhRun_convolution _ xs pend (fun k hk => RR.GR4J.UH2_beyond x4 hx k (h ▸ hk)) t ht⟩

example : (1 : ℕ) < ([3.5, 0, 12] : List ℝ).length ∧ ([0, 0] : List ℝ).length = ⌈(1.7 : ℝ)⌉₊ := by
  refine ⟨by decide, ?_⟩
  have : ⌈(1.7 : ℝ)⌉₊ = 2 := by
    rw [Nat.ceil_eq_iff (by norm_num)]; constructor <;> norm_num
  rw [this]; rfl

/-! ### The adapter: `model.run` / `model.init` on packed state rows -/

/-- **`model.run` on a packed state is the packed `run`.** For a state whose unit-hydrograph stores have the
lengths n2 (q1) and n1 (q9), both ≥ 1, the adapter — `extractGR4JStates` (reads S, R, `int(n1)`, `int(n2)`, slices
q1 = row[4 .. 4+n2), q9 = row[4+n2 .. 4+n2+n1)), the kernel, `packGR4JStates` — applied to the row
`[S, R, n1, n2, q1…, q9…]` does not panic and returns: the runoff series of `run`, the packed final state of `run`
(same layout, same n1, n2), and the branch tags. The offsets, the `int ∘ float64` round-trip of the two lengths and
the length checks are inside this theorem. -/
theorem model_run_eq_packed_run (x1 x2 x3 x4 : ℝ) (n1 n2 : ℕ) (h1 : 0 < n1) (h2 : 0 < n2) (st : State ℝ)
    (hq1 : st.q1.length = n2) (hq9 : st.q9.length = n1) (rain pet : List ℝ) :
    (model (α := ℝ)).run [x1, x2, x3, x4] [rain, pet] (pack st n1 n2) =
      .ok { outputs := [(run x1 x2 x3 x4 n1 n2 st (rain.zip pet)).2.map (·.runoff)],
            states := pack (run x1 x2 x3 x4 n1 n2 st (rain.zip pet)).1 n1 n2,
            tags := dedup ((run x1 x2 x3 x4 n1 n2 st (rain.zip pet)).2.flatMap (·.tags)) ++
              ["n1=" ++ toString n1, "n2=" ++ toString n2] } :=
  RR.GR4J.model_run_pack x1 x2 x3 x4 n1 n2 h1 h2 st hq1 hq9 rain pet

/-- the hypotheses are satisfiable and the row is what one expects: x4 = 1 gives n1 = 1, n2 = 2 and the row
`[S, R, 1, 2, q1[0], q1[1], q9[0]]` -/
example : pack (⟨0, 90, [2, 0], [3]⟩ : State ℝ) 1 2 = [0, 90, Num.ofNat 1, Num.ofNat 2, 2, 0, 3] ∧
    (⟨0, 90, [2, 0], [3]⟩ : State ℝ).q1.length = 2 ∧ (⟨0, 90, [2, 0], [3]⟩ : State ℝ).q9.length = 1 :=
  ⟨rfl, rfl, rfl⟩

/-- **`model.run p ins (model.init p)`.** For x4 > 0, `InitialiseStates` followed by a run is the packed result of
`run` from `initGR4J`'s state with n1 = ⌈x4⌉, n2 = ⌈2·x4⌉: no panic, runoff series of `run`, final row
`[S, R, ⌈x4⌉, ⌈2·x4⌉, q1…, q9…]`. (`init` returns an `Except`, hence the bind.) -/
theorem model_run_from_init (x1 x2 x3 x4 : ℝ) (hx4 : 0 < x4) (rain pet : List ℝ) :
    ((model (α := ℝ)).init [x1, x2, x3, x4] >>= fun row => (model (α := ℝ)).run [x1, x2, x3, x4] [rain, pet] row) =
      .ok (RR.GR4J.packedResult x1 x2 x3 x4 ⌈x4⌉₊ ⌈2 * x4⌉₊ (initState x4).1 rain pet) ∧
    (RR.GR4J.packedResult x1 x2 x3 x4 ⌈x4⌉₊ ⌈2 * x4⌉₊ (initState x4).1 rain pet).outputs =
      [(run x1 x2 x3 x4 ⌈x4⌉₊ ⌈2 * x4⌉₊ (initState x4).1 (rain.zip pet)).2.map (·.runoff)] ∧
    (RR.GR4J.packedResult x1 x2 x3 x4 ⌈x4⌉₊ ⌈2 * x4⌉₊ (initState x4).1 rain pet).states =
      pack (run x1 x2 x3 x4 ⌈x4⌉₊ ⌈2 * x4⌉₊ (initState x4).1 (rain.zip pet)).1 ⌈x4⌉₊ ⌈2 * x4⌉₊ :=
  ⟨RR.GR4J.model_run_init x1 x2 x3 x4 hx4 rain pet, rfl, rfl⟩

/-- the initial row for x4 = 1, evaluated: `[S, R, n1, n2, q1[0], q1[1], q9[0]] = [0, 0, 1, 2, 0, 0, 0]` -/
example : (model (α := ℝ)).init [350, -1, 90, 1] = .ok [0, 0, 1, 2, 0, 0, 0] := by
  rw [RR.GR4J.model_init]
  have h1 : (initState (1 : ℝ)).2.1 = 1 := by rw [RR.GR4J.init_n1 1 one_pos, Nat.ceil_one]
  have h2 : (initState (1 : ℝ)).2.2 = 2 := by
    rw [RR.GR4J.init_n2 1 one_pos, mul_one]; exact Nat.ceil_natCast 2
  have hS : (initState (1 : ℝ)).1.S = 0 := RR.GR4J.sciZero
  have hR : (initState (1 : ℝ)).1.R = 0 := RR.GR4J.sciZero
  rw [RR.GR4J.pack_cons, RR.GR4J.initState_q1, RR.GR4J.initState_q9, h1, h2, hS, hR]
  simp only [zeros, List.replicate, RealNum.zero_eq, RR.GR4J.numOfNat_eq, List.cons_append, List.nil_append,
    Nat.cast_one, RealNum.ofNat_eq]

/-- **The state row returned by a run can be handed to the next run.** (Hot start at adapter level: the row is
again a packed state with stores of the same lengths, so `model_run_eq_packed_run` applies to it.) -/
theorem model_run_chain (x1 x2 x3 x4 : ℝ) (n1 n2 : ℕ) (h1 : 0 < n1) (h2 : 0 < n2) (st : State ℝ)
    (hq1 : st.q1.length = n2) (hq9 : st.q9.length = n1) (rain pet rain' pet' : List ℝ) :
    (model (α := ℝ)).run [x1, x2, x3, x4] [rain', pet'] (RR.GR4J.packedResult x1 x2 x3 x4 n1 n2 st rain pet).states =
      .ok (RR.GR4J.packedResult x1 x2 x3 x4 n1 n2 (run x1 x2 x3 x4 n1 n2 st (rain.zip pet)).1 rain' pet') :=
  RR.GR4J.model_run_chain x1 x2 x3 x4 n1 n2 h1 h2 st hq1 hq9 rain pet rain' pet'

example : (0 : ℕ) < 1 ∧ (0 : ℕ) < 2 := ⟨by decide, by decide⟩

/-- **Malformed rows are refused, not repaired.** A length cell n1 = 0 is the index panic of `SH1[n1-1]`; a row
shorter than 4 + n1 + n2 is the slice panic of `extractGR4JStates`. -/
theorem model_run_rejects_malformed_row (x1 x2 x3 x4 S R : ℝ) (rest rain pet : List ℝ) :
    (∀ n2f : ℝ, (model (α := ℝ)).run [x1, x2, x3, x4] [rain, pet] (S :: R :: 0 :: n2f :: rest) =
      .error "index-out-of-range") ∧
    (∀ n1 n2 : ℕ, 0 < n1 → 0 < n2 → rest.length < n1 + n2 →
      (model (α := ℝ)).run [x1, x2, x3, x4] [rain, pet]
        (S :: R :: (Num.ofNat n1 : ℝ) :: (Num.ofNat n2 : ℝ) :: rest) = .error "index-out-of-range") :=
  ⟨fun n2f => RR.GR4J.model_run_zero_len x1 x2 x3 x4 S R n2f rest rain pet,
   fun n1 n2 h1 h2 hr => RR.GR4J.model_run_short_row x1 x2 x3 x4 n1 n2 h1 h2 S R rest rain pet hr⟩

example : ([5] : List ℝ).length < 1 + 2 := by decide

/-- **The two programs of the K and KSPEC families agree.** For x1, x3, x4 > 0 and every packed Shaped state, the
code's adapter `model.run` and the specification's adapter `Spec.GR4J.model.run` both succeed on the same row and
return the same output series and the same state row (the specification has no branch tags); and their
`InitialiseStates` rows are equal. So the chain Go ↔ `model` (family K) ↔ `Spec.GR4J.model` (this theorem) ↔ Go
(family KSPEC) closes at the level of the protocol line, not only of `run`. -/
theorem model_eq_spec_model (x1 x2 x3 x4 : ℝ) (_hx1 : 0 < x1) (_hx3 : 0 < x3) (hx4 : 0 < x4) (st : State ℝ)
    (hst : RR.GR4J.Shaped x4 st) (rain pet : List ℝ) :
    (∃ o o' : KOut ℝ,
      (model (α := ℝ)).run [x1, x2, x3, x4] [rain, pet] (pack st ⌈x4⌉₊ ⌈2 * x4⌉₊) = .ok o ∧
      (Spec.GR4J.model (α := ℝ)).run [x1, x2, x3, x4] [rain, pet] (pack st ⌈x4⌉₊ ⌈2 * x4⌉₊) = .ok o' ∧
      o = RR.GR4J.packedResult x1 x2 x3 x4 ⌈x4⌉₊ ⌈2 * x4⌉₊ st rain pet ∧
      o.outputs = o'.outputs ∧ o.states = o'.states) ∧
    (Spec.GR4J.model (α := ℝ)).init [x1, x2, x3, x4] = (model (α := ℝ)).init [x1, x2, x3, x4] :=
  ⟨RR.GR4J.model_eq_spec_model x1 x2 x3 x4 hx4 st hst rain pet, RR.GR4J.spec_model_init _ _ x1 x2 x3 x4⟩

example : RR.GR4J.Shaped (1 : ℝ) (⟨0, 90, [2, 0], [3]⟩ : State ℝ) := by
  refine ⟨?_, ?_⟩
  · show 1 = ⌈(1 : ℝ)⌉₊
    rw [Nat.ceil_one]
  · show 2 = ⌈2 * (1 : ℝ)⌉₊
    rw [mul_one]; exact (Nat.ceil_natCast 2).symm

/-! ### The specification in closed (convolution) form -/

/-- **Closed form of a specification run.** Let Pr(0), Pr(1), … be the series produced by the production-store
recurrence alone (`RR.GR4J.prodDay`: eqs. 1–8, a function of S, P, E only). Then the daily (Q, Qr, Qd) of
`Spec.GR4J.run` are those of the routing recurrence (`RR.GR4J.routeDay`: eqs. 18–22, real form in
`RR.GR4J.routeDay_real`) driven by
  Q9(t) = pend9[t] + Σ_{i≤t} UH1(t−i+1)·0.9·Pr(i),   Q1(t) = pend1[t] + Σ_{i≤t} UH2(t−i+1)·0.1·Pr(i),
the convolutions of the paper with the published ordinates (pend = what was already under way at the start: zero
for a run from `initState`); the final S is that of the production recurrence, the final R that of the routing
recurrence. Holds for either tanh argument. This composes `spec_uh_is_convolution` into `Spec.GR4J.run`. -/
theorem spec_run_closed_form (tanhArg : ℝ → ℝ) (x1 x2 x3 x4 : ℝ) (hx4 : 0 < x4) (st : Spec.GR4J.State ℝ)
    (h9 : st.pend9.length = ⌈x4⌉₊) (h1 : st.pend1.length = ⌈2 * x4⌉₊) (xs : List (ℝ × ℝ)) :
    (Spec.GR4J.run tanhArg x1 x2 x3 x4 st xs).2 =
      (scan (RR.GR4J.routeDay x2 x3) st.R ((List.range xs.length).map (fun t =>
        (st.pend9.getD t 0 + ∑ i ∈ Finset.range (t + 1), Spec.GR4J.UH1 x4 (t - i + 1) *
            (0.9 * (scan (RR.GR4J.prodDay tanhArg x1) st.S xs).2.getD i 0),
         st.pend1.getD t 0 + ∑ i ∈ Finset.range (t + 1), Spec.GR4J.UH2 x4 (t - i + 1) *
            (0.1 * (scan (RR.GR4J.prodDay tanhArg x1) st.S xs).2.getD i 0))))).2 ∧
    (Spec.GR4J.run tanhArg x1 x2 x3 x4 st xs).1.S = (scan (RR.GR4J.prodDay tanhArg x1) st.S xs).1 ∧
    (Spec.GR4J.run tanhArg x1 x2 x3 x4 st xs).1.R =
      (scan (RR.GR4J.routeDay x2 x3) st.R ((List.range xs.length).map (fun t =>
        (st.pend9.getD t 0 + ∑ i ∈ Finset.range (t + 1), Spec.GR4J.UH1 x4 (t - i + 1) *
            (0.9 * (scan (RR.GR4J.prodDay tanhArg x1) st.S xs).2.getD i 0),
         st.pend1.getD t 0 + ∑ i ∈ Finset.range (t + 1), Spec.GR4J.UH2 x4 (t - i + 1) *
            (0.1 * (scan (RR.GR4J.prodDay tanhArg x1) st.S xs).2.getD i 0))))).1 :=
  RR.GR4J.run_closed_form tanhArg x1 x2 x3 x4 hx4 st h9 h1 xs

example : (Spec.GR4J.initState (1 : ℝ)).pend9.length = ⌈(1 : ℝ)⌉₊ := by
  show (zeros (Spec.GR4J.nUH1 (1 : ℝ)) : List ℝ).length = _
  rw [RR.GR4J.zeros_length]
  exact RR.GR4J.toInt_ceil 1 one_pos

/-- **The code in closed form.** The kernel's daily (runoff, Qr, Qd) are the routing recurrence driven by the
convolutions of 0.9·Pr / 0.1·Pr with the published ordinates (plus the initial contents of its UH stores read as
pending deliveries), Pr from the production recurrence with the safeguarded tanh argument. -/
theorem gr4j_code_closed_form (x1 x2 x3 x4 : ℝ) (hx1 : 0 < x1) (hx3 : 0 < x3) (hx4 : 0 < x4) (st : State ℝ)
    (hst : RR.GR4J.Shaped x4 st) (xs : List (ℝ × ℝ)) :
    (run x1 x2 x3 x4 ⌈x4⌉₊ ⌈2 * x4⌉₊ st xs).2.map RR.GR4J.toDay =
      (scan (RR.GR4J.routeDay x2 x3) st.R ((List.range xs.length).map (fun t =>
        (RR.GR4J.Q9 x4 st.q9 (scan (RR.GR4J.prodDay Spec.GR4J.tanhArgSafeguarded x1) st.S xs).2 t,
         RR.GR4J.Q1 x4 st.q1 (scan (RR.GR4J.prodDay Spec.GR4J.tanhArgSafeguarded x1) st.S xs).2 t)))).2 := by
  have e := gr4j_code_eq_spec x1 x2 x3 x4 hx1 hx3 hx4 st hst xs
  have c := (RR.GR4J.run_closed_form Spec.GR4J.tanhArgSafeguarded x1 x2 x3 x4 hx4 (RR.GR4J.toSpec st)
    hst.1 hst.2 xs).1
  rw [e] at c
  exact c

/-! ### A concrete day, both sides evaluated

x1 = 350, x2 = −1, x3 = 90, x4 = 1 (n1 = 1, n2 = 2; UH1 = [1], UH2 = [½, ½]), state S = 0, R = 90,
q1 = [2, 0], q9 = [3], one day with P = E = 0: nothing is produced, 3 mm reach the routing store, the exchange is
x2·(90/90)^3.5 = −1, so R′ = 92, Qr = 92 − 92/(1 + (92/90)⁴)^¼, Qd = max(0, 2 − 1) = 1. -/

/-- the kernel (mirror of the Go code), evaluated: the runoff of the day and the packed final state row
`[S, R, n1, n2, q1[0], q1[1], q9[0]]` -/
theorem concrete_day_kernel :
    (run (350 : ℝ) (-1) 90 1 1 2 ⟨0, 90, [2, 0], [3]⟩ ([0].zip [0])).2.map (·.runoff) =
        [92 - 92 / (1 + (92 / 90 : ℝ) ^ (4 : ℝ)) ^ (0.25 : ℝ) + 1] ∧
    pack (run (350 : ℝ) (-1) 90 1 1 2 ⟨0, 90, [2, 0], [3]⟩ ([0].zip [0])).1 1 2 =
        [0, 92 / (1 + (92 / 90 : ℝ) ^ (4 : ℝ)) ^ (0.25 : ℝ), 1, 2, 0, 0, 0] := by
  have r1 : List.range 1 = [0] := rfl
  have r2 : List.range 2 = [0, 1] := rfl
  constructor
  · simp only [run, scan, step, production, capWs, percolation, routingOutflow, addUH, head0, shift, uh1, uh2,
      List.map_cons, List.map_nil, RealNum.pow_eq, RealNum.tanh_eq, RealNum.ofNat_eq, OW.RR.Surm.sci, r1, r2,
      List.zip_cons_cons, List.zip_nil_right]
    norm_num
  · simp only [run, scan, step, production, capWs, percolation, routingOutflow, addUH, head0, shift, uh1, uh2, pack,
      List.map_cons, List.map_nil, RealNum.pow_eq, RealNum.tanh_eq, RealNum.ofNat_eq, OW.RR.Surm.sci, r1, r2,
      List.zip_cons_cons, List.zip_nil_right, RR.GR4J.numOfNat_eq]
    norm_num

/-- the adapter on the packed row `[0, 90, 1, 2, 2, 0, 3]`, evaluated through `model_run_eq_packed_run`: output
series and returned state row as numbers (the tags are those of `packedResult`) -/
example :
    (model (α := ℝ)).run [350, -1, 90, 1] [[0], [0]] (pack ⟨0, 90, [2, 0], [3]⟩ 1 2) =
      .ok { outputs := [[92 - 92 / (1 + (92 / 90 : ℝ) ^ (4 : ℝ)) ^ (0.25 : ℝ) + 1]],
            states := [0, 92 / (1 + (92 / 90 : ℝ) ^ (4 : ℝ)) ^ (0.25 : ℝ), 1, 2, 0, 0, 0],
            tags := (RR.GR4J.packedResult 350 (-1) 90 1 1 2 ⟨0, 90, [2, 0], [3]⟩ [0] [0]).tags } := by
  rw [model_run_eq_packed_run 350 (-1) 90 1 1 2 (by decide) (by decide) _ rfl rfl, concrete_day_kernel.1,
    concrete_day_kernel.2]
  rfl

/-- the equations as printed (no cap), evaluated -/
example :
    (Spec.GR4J.run Spec.GR4J.tanhArgPublished (350 : ℝ) (-1) 90 1 ⟨0, 90, [2, 0], [3]⟩ [(0, 0)]).2.map (·.Q) =
      [92 * (1 - (1 + (92 / 90 : ℝ) ^ (4 : ℝ)) ^ (-(0.25 : ℝ))) + 1] := by
  simp only [Spec.GR4J.run, scan, Spec.GR4J.day, Spec.GR4J.Pn, Spec.GR4J.En, Spec.GR4J.Ps, Spec.GR4J.Es, Spec.GR4J.Perc,
    Spec.GR4J.F, Spec.GR4J.Qr, Spec.GR4J.pow4, Spec.GR4J.sq, Spec.GR4J.uhDay, Spec.GR4J.tanhArgPublished,
    List.map_cons, List.map_nil, RealNum.pow_eq, RealNum.tanh_eq, RealNum.ofNat_eq, RealNum.gmax_eq, OW.RR.Surm.sci]
  norm_num

/-- the two evaluated values are the same number (the code's `R − R/z^¼` is the paper's `R·(1 − z^(−¼))`) -/
example : 92 - 92 / (1 + (92 / 90 : ℝ) ^ (4 : ℝ)) ^ (0.25 : ℝ) + 1 =
    92 * (1 - (1 + (92 / 90 : ℝ) ^ (4 : ℝ)) ^ (-(0.25 : ℝ))) + 1 := by
  have hb : (0 : ℝ) ≤ 1 + (92 / 90 : ℝ) ^ (4 : ℝ) := by positivity
  rw [Real.rpow_neg hb, div_eq_mul_inv]
  ring

/-- the code's and the published ordinates for x4 = 1, evaluated: UH2 = [½, ½], and the published UH2(3) = 0 -/
example : uh2 (1 : ℝ) 2 = [0.5, 0.5] ∧
    [Spec.GR4J.UH2 (1 : ℝ) 1, Spec.GR4J.UH2 (1 : ℝ) 2, Spec.GR4J.UH2 (1 : ℝ) 3] = [0.5, 0.5, 0] := by
  have r2 : List.range 2 = [0, 1] := rfl
  constructor
  · simp only [uh2, uh2At, RR.GR4J.sh2At_real, r2, List.map_cons, List.map_nil]
    norm_num
  · simp only [Spec.GR4J.UH2, RR.GR4J.SH2_real, RR.GR4J.numOfNat_eq]
    norm_num

end OW.Props.C15
