import OW.Proofs.GR4JSpec
import OW.Proofs.GR4JConv
/-!
C15 — GR4J computes the published GR4J equations (Perrin, Michel, Andréassian 2003).

`OW.Kernels.GR4J` mirrors models/rr/gr4j.go expression by expression (tied to the Go code on every run by the
K correspondence); `OW.Spec.GR4J` is written from the paper. The theorems below state, over exact real arithmetic,
that both define the same unit-hydrograph ordinates and the same runs. Proofs are in OW/Proofs/GR4JUH.lean and
OW/Proofs/GR4JSpec.lean; nothing here depends on a division being cancelled (x/0 = 0 is never used: the
equalities are between identical quotients).
-/
namespace OW.Props.C15
open OW OW.Kernels.GR4J

/-- **SH1.** For every x4 > 0 and every index i < ⌈x4⌉ the code's `SH1[i]` (a power without any case
distinction, then `SH1[n1-1] = 1`) is the published piecewise S-curve SH1 evaluated at t = i+1. -/
theorem sh1_code_eq_spec (x4 : ℝ) (hx : 0 < x4) (i : ℕ) (hi : i < ⌈x4⌉₊) :
    sh1At x4 ⌈x4⌉₊ i = Spec.GR4J.SH1 x4 ((i + 1 : ℕ) : ℝ) :=
  RR.GR4J.sh1_code_eq_spec x4 hx i hi

example : (1 : ℕ) < ⌈(2.5 : ℝ)⌉₊ := Nat.lt_ceil.mpr (by norm_num)

/-- **SH2.** For every x4 > 0 and every index i < ⌈2·x4⌉ the code's `SH2[i]` (three-way test on (i+1)/x4, then
`SH2[n2-1] = 1`) is the published S-curve SH2 at t = i+1. -/
theorem sh2_code_eq_spec (x4 : ℝ) (hx : 0 < x4) (i : ℕ) (hi : i < ⌈2 * x4⌉₊) :
    sh2At x4 ⌈2 * x4⌉₊ i = Spec.GR4J.SH2 x4 ((i + 1 : ℕ) : ℝ) :=
  RR.GR4J.sh2_code_eq_spec x4 hx i hi

example : (3 : ℕ) < ⌈2 * (1.7 : ℝ)⌉₊ := Nat.lt_ceil.mpr (by norm_num)

/-- **Ordinates.** The code's ordinate vectors are the published ordinates UH1(1..⌈x4⌉), UH2(1..⌈2·x4⌉), and
every published ordinate beyond those lengths is zero (the vectors of the code lose nothing). -/
theorem uh_code_eq_spec (x4 : ℝ) (hx : 0 < x4) :
    uh1 x4 ⌈x4⌉₊ = (List.range ⌈x4⌉₊).map (fun i => Spec.GR4J.UH1 x4 (i + 1)) ∧
    uh2 x4 ⌈2 * x4⌉₊ = (List.range ⌈2 * x4⌉₊).map (fun i => Spec.GR4J.UH2 x4 (i + 1)) ∧
    (∀ j, ⌈x4⌉₊ < j → Spec.GR4J.UH1 x4 j = 0) ∧ (∀ j, ⌈2 * x4⌉₊ < j → Spec.GR4J.UH2 x4 j = 0) :=
  ⟨RR.GR4J.uh1_eq_spec x4 hx, RR.GR4J.uh2_eq_spec x4 hx, RR.GR4J.UH1_beyond x4 hx, RR.GR4J.UH2_beyond x4 hx⟩

/-- **Lengths.** `initGR4J` chooses n1 = ⌈x4⌉ and n2 = ⌈2·x4⌉ (via `int(math.Ceil(·))`), and its state is shaped
accordingly; these are the lengths of the published unit hydrographs. -/
theorem init_lengths (x4 : ℝ) (hx : 0 < x4) :
    (initState x4).2.1 = ⌈x4⌉₊ ∧ (initState x4).2.2 = ⌈2 * x4⌉₊ ∧ RR.GR4J.Shaped x4 (initState x4).1 := by
  have h1 := RR.GR4J.init_n1 x4 hx
  have h2 := RR.GR4J.init_n2 x4 hx
  refine ⟨h1, h2, ?_, ?_⟩
  · show (zeros (initState x4).2.1).length = _
    rw [h1]; exact List.length_replicate
  · show (zeros (initState x4).2.2).length = _
    rw [h2]; exact List.length_replicate

/-- **GR4J = published GR4J.** For all parameters (x4 > 0), every rainfall/PET series and every initial
production store, routing store and unit-hydrograph stores (vectors of the lengths ⌈x4⌉, ⌈2·x4⌉), the kernel run
and the specification run produce the same runoff series (and the same Qr, Qd), and end in the same S, R and
unit-hydrograph stores. -/
theorem gr4j_code_eq_spec (x1 x2 x3 x4 : ℝ) (hx4 : 0 < x4) (st : State ℝ) (hst : RR.GR4J.Shaped x4 st)
    (xs : List (ℝ × ℝ)) :
    Spec.GR4J.run Spec.GR4J.tanhArgSafeguarded x1 x2 x3 x4 (RR.GR4J.toSpec st) xs =
      (RR.GR4J.toSpec (run x1 x2 x3 x4 ⌈x4⌉₊ ⌈2 * x4⌉₊ st xs).1,
       (run x1 x2 x3 x4 ⌈x4⌉₊ ⌈2 * x4⌉₊ st xs).2.map RR.GR4J.toDay) :=
  (RR.GR4J.run_eq_spec x1 x2 x3 x4 hx4 xs st hst).1

/-- The same from the model's own initial state (what `InitialiseStates` produces). -/
theorem gr4j_code_eq_spec_from_init (x1 x2 x3 x4 : ℝ) (hx4 : 0 < x4) (xs : List (ℝ × ℝ)) :
    Spec.GR4J.run Spec.GR4J.tanhArgSafeguarded x1 x2 x3 x4 (RR.GR4J.toSpec (initState x4).1) xs =
      (RR.GR4J.toSpec (run x1 x2 x3 x4 (initState x4).2.1 (initState x4).2.2 (initState x4).1 xs).1,
       (run x1 x2 x3 x4 (initState x4).2.1 (initState x4).2.2 (initState x4).1 xs).2.map RR.GR4J.toDay) := by
  obtain ⟨h1, h2, h3⟩ := init_lengths x4 hx4
  rw [h1, h2]
  exact gr4j_code_eq_spec x1 x2 x3 x4 hx4 _ h3 xs

example : RR.GR4J.Shaped (1.7 : ℝ) (initState (1.7 : ℝ)).1 := (init_lengths 1.7 (by norm_num)).2.2

/-- **The safeguard is inactive in the physical range.** The specification run with the tanh argument capped
at 13 (what the code and the reference implementations do) is the run of the equations exactly as printed,
whenever |P − E| ≤ 13·x1 on every day (x1 > 0 is the divisor). -/
theorem gr4j_spec_cap_inactive (x1 x2 x3 x4 : ℝ) (hx1 : 0 < x1) (xs : List (ℝ × ℝ))
    (h : ∀ pe ∈ xs, |pe.1 - pe.2| ≤ 13 * x1) (st : Spec.GR4J.State ℝ) :
    Spec.GR4J.run Spec.GR4J.tanhArgPublished x1 x2 x3 x4 st xs =
      Spec.GR4J.run Spec.GR4J.tanhArgSafeguarded x1 x2 x3 x4 st xs :=
  RR.GR4J.run_published_eq x1 x2 x3 x4 hx1 xs h st

example : ∀ pe ∈ [((10 : ℝ), (3 : ℝ)), (0, 5)], |pe.1 - pe.2| ≤ 13 * (300 : ℝ) := by
  intro pe hpe
  simp only [List.mem_cons, List.not_mem_nil, or_false] at hpe
  rcases hpe with rfl | rfl <;> norm_num [abs_le]

/-- Hence: code = equations as printed, on every series with |P − E| ≤ 13·x1. -/
theorem gr4j_code_eq_published (x1 x2 x3 x4 : ℝ) (hx1 : 0 < x1) (hx4 : 0 < x4) (st : State ℝ)
    (hst : RR.GR4J.Shaped x4 st) (xs : List (ℝ × ℝ)) (h : ∀ pe ∈ xs, |pe.1 - pe.2| ≤ 13 * x1) :
    Spec.GR4J.run Spec.GR4J.tanhArgPublished x1 x2 x3 x4 (RR.GR4J.toSpec st) xs =
      (RR.GR4J.toSpec (run x1 x2 x3 x4 ⌈x4⌉₊ ⌈2 * x4⌉₊ st xs).1,
       (run x1 x2 x3 x4 ⌈x4⌉₊ ⌈2 * x4⌉₊ st xs).2.map RR.GR4J.toDay) := by
  rw [gr4j_spec_cap_inactive x1 x2 x3 x4 hx1 xs h]
  exact gr4j_code_eq_spec x1 x2 x3 x4 hx4 st hst xs

/-- **The specification's unit hydrographs are the paper's convolutions.** Run day by day from a vector of pending
deliveries of length ⌈x4⌉ (resp. ⌈2·x4⌉), the specification delivers on day t what was pending for that day plus
Σ_{i≤t} UH(t−i+1)·x_i, the discrete convolution of the inputs x_i (0.9·Pr or 0.1·Pr) with the published ordinates. -/
theorem spec_uh_is_convolution (x4 : ℝ) (hx : 0 < x4) (xs : List ℝ) (t : ℕ) (ht : t < xs.length) :
    (∀ pend : List ℝ, pend.length = ⌈x4⌉₊ →
      (RR.GR4J.uhRun (Spec.GR4J.UH1 x4) pend xs).2.getD t 0 =
        pend.getD t 0 + ∑ i ∈ Finset.range (t + 1), Spec.GR4J.UH1 x4 (t - i + 1) * xs.getD i 0) ∧
    (∀ pend : List ℝ, pend.length = ⌈2 * x4⌉₊ →
      (RR.GR4J.uhRun (Spec.GR4J.UH2 x4) pend xs).2.getD t 0 =
        pend.getD t 0 + ∑ i ∈ Finset.range (t + 1), Spec.GR4J.UH2 x4 (t - i + 1) * xs.getD i 0) :=
  ⟨fun pend h => RR.GR4J.uhRun_convolution _ xs pend (fun k hk => RR.GR4J.UH1_beyond x4 hx k (h ▸ hk)) t ht,
   fun pend h => RR.GR4J.uhRun_convolution _ xs pend (fun k hk => RR.GR4J.UH2_beyond x4 hx k (h ▸ hk)) t ht⟩

example : (1 : ℕ) < ([3.5, 0, 12] : List ℝ).length ∧ ([0, 0] : List ℝ).length = ⌈(1.7 : ℝ)⌉₊ := by
  refine ⟨by decide, ?_⟩
  have : ⌈(1.7 : ℝ)⌉₊ = 2 := by
    rw [Nat.ceil_eq_iff (by norm_num)]; constructor <;> norm_num
  rw [this]; rfl

end OW.Props.C15
