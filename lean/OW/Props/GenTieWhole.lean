import OW.Gen.Kernels
import OW.Kernels.Lag
import OW.Kernels.StorageTrapAll
import OW.Kernels.C16.Conversions
namespace OW.Props.GenTie
open OW OW.Kernels OW.Gen.K OW.Gen.Prelude
set_option linter.unusedSimpArgs false

theorem forRangeN_eq_forLoop {σ : Type} (g : Int → σ → σ) (n i : Nat) (c : σ) :
    forRangeN g n (i : Int) c = Lag.forLoop (fun j => g (j : Int)) n i c := by
  induction n generalizing i c with
  | zero => rfl
  | succ n ih =>
    rw [forRangeN, Lag.forLoop]
    have : ((i : Int) + 1) = ((i + 1 : Nat) : Int) := by omega
    rw [this, ih]

theorem forRangeN_eq_forLoop0 {σ : Type} (g : Int → σ → σ) (n : Nat) (c : σ) :
    forRangeN g n 0 c = Lag.forLoop (fun j => g (j : Int)) n 0 c := forRangeN_eq_forLoop g n 0 c

/-- the first carried component does not depend on the others -/
theorem forRangeN_fst' {σ τ : Type} (body : Int → σ × τ → σ × τ) (n : Nat) (i : Int) (c : σ) (t : τ)
    (h : ∀ i c t', (body i (c, t')).1 = (body i (c, t)).1) :
    (forRangeN body n i (c, t)).1 = forRangeN (fun i c => (body i (c, t)).1) n i c :=
  forRangeN_fst body _ (fun i c t' => h i c t') n i c t

theorem forLoop_length {α : Type} (g : Nat → List α → List α) (hg : ∀ i c, (g i c).length = c.length) (n i : Nat) (c : List α) :
    (Lag.forLoop g n i c).length = c.length := by
  induction n generalizing i c with
  | zero => rfl
  | succ n ih => rw [Lag.forLoop, ih, hg]

theorem sliceSet_len {α : Type} (xs : List α) (i : Int) (v : α) : (sliceSet xs i v).length = xs.length := by
  simp [sliceSet]

theorem sliceLen_forLoop {α : Type} (g : Nat → List α → List α) (n i : Nat) (c : List α)
    (hg : ∀ i c, (g i c).length = c.length) : sliceLen (Lag.forLoop g n i c) = sliceLen c := by
  unfold sliceLen; rw [forLoop_length g hg]

theorem forLoop_congr {σ : Type} (f g : Nat → σ → σ) (h : ∀ i c, f i c = g i c) (n i : Nat) (c : σ) :
    Lag.forLoop f n i c = Lag.forLoop g n i c := by
  have : f = g := funext fun i => funext fun c => h i c
  rw [this]

/-- the hand model's loop `for i := i0; i < i0+n; i++` with a natural index is the same loop on `Int` -/
theorem forLoop_eq_forRangeN {σ : Type} (g : Nat → σ → σ) (n i : Nat) (c : σ) :
    Lag.forLoop g n i c = forRangeN (fun z => g z.toNat) n (i : Int) c := by
  rw [forRangeN_eq_forLoop]
  rfl

/-- a loop from `lo` is the loop from 0 on the shifted index -/
theorem forRangeN_shift {σ : Type} (body : Int → σ → σ) (n : Nat) (lo i : Int) (c : σ) :
    forRangeN body n (lo + i) c = forRangeN (fun j => body (lo + j)) n i c := by
  induction n generalizing i c with
  | zero => rfl
  | succ n ih =>
    rw [forRangeN, forRangeN, ← ih (i + 1)]
    have e : lo + i + 1 = lo + (i + 1) := by omega
    rw [e]

theorem forRangeN_from0 {σ : Type} (body : Int → σ → σ) (n : Nat) (lo : Int) (c : σ) :
    forRangeN body n lo c = forRangeN (fun j => body (lo + j)) n 0 c := by
  have := forRangeN_shift body n lo 0 c
  rwa [Int.add_zero] at this

/-- two loops from 0 that run equally often from equal values, with bodies that agree on the indices they visit -/
theorem forRangeN0_congr {σ : Type} (f g : Int → σ → σ) (n m : Nat) (c d : σ) (hn : n = m) (hc : c = d)
    (h : ∀ j : Int, 0 ≤ j → j < n → ∀ c, f j c = g j c) : forRangeN f n 0 c = forRangeN g m 0 d := by
  subst hn hc
  exact forRangeN_congr f g n 0 c (fun j h1 h2 c => h j h1 (by omega) c)

/-- "the two loop nests do the same": every loop is brought to the form `forRangeN body n 0 init` on both sides, then the
counts agree and the bodies store the same value at the same cell — integer arithmetic on the indices (`omega`), whatever
index the source lets the loop run over (the source, the destination, an offset of either) -/
syntax "loops_agree" : tactic
macro_rules
  | `(tactic| loops_agree) => `(tactic|
      (repeat' (first
        | rfl
        | (refine forRangeN0_congr _ _ _ _ _ _ (by omega) ?_ ?_)
        | (intro j hj0 hj1 c
           simp only [sliceSet, sliceGet]
           congr 1 <;> (try congr 1) <;> omega))))

theorem gen_eq_Lag_core {α} [Num α] (timeLag : α) (inflow lagged outflow0 : List α) (k : Nat)
    (hk : Num.toInt timeLag = (k : Int)) (hpos : 0 < k) (hlen : outflow0.length = inflow.length) :
    lag.run inflow lagged timeLag outflow0 =
      (let r := Lag.lagCore k inflow lagged outflow0; (r.lagged, r.outflow)) := by
  unfold lag.run Lag.lagCore
  simp only [hk]
  have hk0 : ¬ ((k : Int) = 0) := by omega
  simp only [hk0, ↓reduceIte]
  simp only [forRange]
  simp only [forRangeN_fst', implies_true]
  have hT : sliceLen inflow = (inflow.length : Int) := rfl
  have hO : sliceLen outflow0 = (inflow.length : Int) := by unfold sliceLen; rw [hlen]; rfl
  have hmin : minInt (k : Int) (inflow.length : Int) = ((k.min inflow.length : Nat) : Int) := by
    show _ = ((min k inflow.length : Nat) : Int)
    unfold minInt; split <;> omega
  have hlenN : ∀ (g : Int → List α → List α) (n : Nat) (i : Int) (c : List α),
      (∀ i c, (g i c).length = c.length) → sliceLen (forRangeN g n i c) = sliceLen c := by
    intro g n i c hg
    induction n generalizing i c with
    | zero => rfl
    | succ n ih => rw [forRangeN, ih, show sliceLen (g i c) = sliceLen c from by unfold sliceLen; rw [hg]]
  simp only [hT, hO, hmin, hlenN, sliceSet_len, implies_true, forLoop_eq_forRangeN]
  by_cases hlt : inflow.length < k
  · have hgt : (k : Int) > (inflow.length : Int) := by omega
    simp only [hgt, hlt, ↓reduceIte]
    simp only [forRangeN_from0 _ _ ((_ : Nat) : Int), forRangeN_from0 _ _ ((_ : Int) - _)]
    refine Prod.ext ?_ ?_ <;> dsimp only <;> loops_agree
  · have hgt : ¬ ((k : Int) > (inflow.length : Int)) := by omega
    simp only [hgt, hlt, ↓reduceIte]
    simp only [forRangeN_from0 _ _ ((_ : Nat) : Int), forRangeN_from0 _ _ ((_ : Int) - _)]
    refine Prod.ext ?_ ?_ <;> dsimp only <;> loops_agree

/-- `lag` (models/routing/lag.go, translated as a whole: the in-place loops over computed indices — whichever index the source
lets each loop run over: `gen_eq_Lag_core` brings every loop to the form "n iterations from 0" and compares counts and index
expressions by integer arithmetic —, the early return for `lagSteps == 0`) = `Lag.run` on every run on which the hand model does not report a Go panic (`lagSteps < 0`, state
row shorter than `lagSteps`: index out of range — not part of the generated definition). `outflow` enters as the
zero-initialised output array of the length of `inflow`. -/
theorem gen_eq_Lag {α} [Num α] (timeLag : α) (inflow lagged : List α) (o : Lag.Out α)
    (h : Lag.run timeLag inflow lagged = .ok o) :
    lag.run inflow lagged timeLag (zeros inflow.length) = (o.lagged, o.outflow) := by
  unfold Lag.run at h
  dsimp only at h
  split at h
  · rename_i h0
    have h0' : Num.toInt timeLag = 0 := by simpa using h0
    injection h with h; subst h
    unfold lag.run
    simp only [h0', ↓reduceIte, copyFrom]
  · rename_i h0
    have h0' : ¬ Num.toInt timeLag = 0 := by simpa using h0
    split at h
    · cases h
    · rename_i hneg
      split at h
      · cases h
      · injection h with h; subst h
        have hk : Num.toInt timeLag = ((Num.toInt timeLag).toNat : Int) := by omega
        have hpos : 0 < (Num.toInt timeLag).toNat := by omega
        exact gen_eq_Lag_core timeLag inflow lagged (zeros inflow.length) _ hk hpos (by simp [zeros])

/-- `storageTrapAll` (bulk copy, then element 0) = `StorageTrapAll.trapped`: an empty series keeps the stored mass, else
the initial stored mass is added to element 0 and the stored mass becomes `0.0`; `outflowMass` is not written. -/
theorem gen_eq_StorageTrapAll {α} [Num α] (inflowMass a b c trapped0 outflowMass0 : List α) (ism : α) :
    storageTrapAll.run inflowMass a b c ism trapped0 outflowMass0 =
      (match StorageTrapAll.trapped inflowMass ism with
       | none => (ism, inflowMass)
       | some t => (0.0, t)) := by
  unfold storageTrapAll.run StorageTrapAll.trapped
  cases inflowMass with
  | nil => simp [copyFrom, sliceLen]
  | cons x xs =>
    simp only [copyFrom, sliceLen, List.length_cons]
    have : ¬ (Int.ofNat (xs.length + 1) = 0) := by simp; omega
    simp only [this, ↓reduceIte]
    rfl

/-- `inputNode` (one bulk copy) = `InputNode.run` -/
theorem gen_eq_InputNode {α} [Num α] (input output0 : List α) :
    inputNode.run input output0 = InputNode.run input := rfl

end OW.Props.GenTie
