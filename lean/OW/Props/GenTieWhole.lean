import OW.Gen.Kernels
import OW.Kernels.Lag
import OW.Kernels.StorageTrapAll
import OW.Kernels.C16.Conversions
namespace OW.Props.GenTie
open OW OW.Kernels OW.Gen.K OW.Gen.Prelude

theorem forRangeN_eq_forLoop {σ : Type} (g : Int → σ → σ) (n i : Nat) (c : σ) :
    forRangeN g n (i : Int) c = Lag.forLoop (fun j => g (j : Int)) n i c := by
  induction n generalizing i c with
  | zero => rfl
  | succ n ih =>
    rw [forRangeN, Lag.forLoop]
    have : ((i : Int) + 1) = ((i + 1 : Nat) : Int) := by omega
    rw [this, ih]

theorem forRangeN_eq_forLoop0 {σ : Type} (g : Int → σ → σ) (n : Nat) (c : σ) :
    forRangeN g n 0 c = Lag.forLoop (fun j => g (j : Int)) n 0 c := forRangeN_eq_forLoop g n 0 c

/-- the first carried component does not depend on the others -/
theorem forRangeN_fst' {σ τ : Type} (body : Int → σ × τ → σ × τ) (n : Nat) (i : Int) (c : σ) (t : τ)
    (h : ∀ i c t', (body i (c, t')).1 = (body i (c, t)).1) :
    (forRangeN body n i (c, t)).1 = forRangeN (fun i c => (body i (c, t)).1) n i c :=
  forRangeN_fst body _ (fun i c t' => h i c t') n i c t

theorem forLoop_length {α : Type} (g : Nat → List α → List α) (hg : ∀ i c, (g i c).length = c.length) (n i : Nat) (c : List α) :
    (Lag.forLoop g n i c).length = c.length := by
  induction n generalizing i c with
  | zero => rfl
  | succ n ih => rw [Lag.forLoop, ih, hg]

theorem sliceSet_len {α : Type} (xs : List α) (i : Int) (v : α) : (sliceSet xs i v).length = xs.length := by
  simp [sliceSet]

theorem sliceLen_forLoop {α : Type} (g : Nat → List α → List α) (n i : Nat) (c : List α)
    (hg : ∀ i c, (g i c).length = c.length) : sliceLen (Lag.forLoop g n i c) = sliceLen c := by
  unfold sliceLen; rw [forLoop_length g hg]

theorem forLoop_congr {σ : Type} (f g : Nat → σ → σ) (h : ∀ i c, f i c = g i c) (n i : Nat) (c : σ) :
    Lag.forLoop f n i c = Lag.forLoop g n i c := by
  have : f = g := funext fun i => funext fun c => h i c
  rw [this]

theorem gen_eq_Lag_core {α} [Num α] (timeLag : α) (inflow lagged outflow0 : List α) (k : Nat)
    (hk : Num.toInt timeLag = (k : Int)) (hpos : 0 < k) (hlen : outflow0.length = inflow.length) :
    lag.run inflow lagged timeLag outflow0 =
      (let r := Lag.lagCore k inflow lagged outflow0; (r.lagged, r.outflow)) := by
  unfold lag.run Lag.lagCore
  simp only [hk]
  have hk0 : ¬ ((k : Int) = 0) := by omega
  simp only [hk0, ↓reduceIte]
  simp only [forRange]
  simp only [forRangeN_fst', implies_true]
  have hT : sliceLen inflow = (inflow.length : Int) := rfl
  have hO : sliceLen outflow0 = (inflow.length : Int) := by unfold sliceLen; rw [hlen]; rfl
  have hmin : (minInt (k : Int) (inflow.length : Int) - 0).toNat = k.min inflow.length := by
    show _ = min k inflow.length
    unfold minInt; split <;> omega
  simp only [hT, hO, hmin, forRangeN_eq_forLoop0, forRangeN_eq_forLoop, sliceLen_forLoop, sliceSet_len, implies_true]
  have h2 : ((inflow.length : Int) - k).toNat = inflow.length - k := by omega
  have h3 : ((k : Int) - inflow.length).toNat = k - inflow.length := by omega
  have h4 : ((inflow.length : Int) - 0).toNat = inflow.length := by omega
  have h5 : ((k : Int) - 0).toNat = k := by omega
  simp only [h2, h3, h4, h5]
  have ea : ∀ (j : Nat) (c : List α), sliceSet c (j : Int) (sliceGet lagged (j : Int)) = c.set j (lagged.getD j default) :=
    fun _ _ => rfl
  have eb : ∀ (j : Nat) (c : List α), sliceSet c (j : Int) (sliceGet inflow ((j : Int) - k)) = c.set j (inflow.getD (j - k) default) := by
    intro j c; unfold sliceSet sliceGet
    have : ((j : Int) - k).toNat = j - k := by omega
    rw [this]; rfl
  have ec : ∀ (j : Nat) (c : List α), sliceSet c ((j : Int) - inflow.length) (sliceGet c (j : Int)) = c.set (j - inflow.length) (c.getD j default) := by
    intro j c; unfold sliceSet sliceGet
    have : ((j : Int) - inflow.length).toNat = j - inflow.length := by omega
    rw [this]; rfl
  simp only [ea, eb, ec]
  by_cases hlt : inflow.length < k
  · have hgt : (k : Int) > (inflow.length : Int) := by omega
    have ed : ∀ (j : Nat) (c : List α), sliceSet c ((k : Int) - inflow.length + j) (sliceGet inflow (j : Int)) =
        c.set (k - inflow.length + j) (inflow.getD j default) := by
      intro j c; unfold sliceSet sliceGet
      have : ((k : Int) - inflow.length + j).toNat = k - inflow.length + j := by omega
      rw [this]; rfl
    simp only [hgt, hlt, ↓reduceIte, ed]
  · have hgt : ¬ ((k : Int) > (inflow.length : Int)) := by omega
    have ee : ∀ (j : Nat) (c : List α), sliceSet c (j : Int) (sliceGet inflow ((inflow.length : Int) - k + j)) =
        c.set j (inflow.getD (inflow.length - k + j) default) := by
      intro j c; unfold sliceSet sliceGet
      have : ((inflow.length : Int) - k + j).toNat = inflow.length - k + j := by omega
      rw [this]; rfl
    simp only [hgt, hlt, ↓reduceIte, ee]

/-- `lag` (models/routing/lag.go, translated as a whole: the four in-place loops over computed indices, the early return
for `lagSteps == 0`) = `Lag.run` on every run on which the hand model does not report a Go panic (`lagSteps < 0`, state
row shorter than `lagSteps`: index out of range — not part of the generated definition). `outflow` enters as the
zero-initialised output array of the length of `inflow`. -/
theorem gen_eq_Lag {α} [Num α] (timeLag : α) (inflow lagged : List α) (o : Lag.Out α)
    (h : Lag.run timeLag inflow lagged = .ok o) :
    lag.run inflow lagged timeLag (zeros inflow.length) = (o.lagged, o.outflow) := by
  unfold Lag.run at h
  dsimp only at h
  split at h
  · rename_i h0
    have h0' : Num.toInt timeLag = 0 := by simpa using h0
    injection h with h; subst h
    unfold lag.run
    simp only [h0', ↓reduceIte, copyFrom]
  · rename_i h0
    have h0' : ¬ Num.toInt timeLag = 0 := by simpa using h0
    split at h
    · cases h
    · rename_i hneg
      split at h
      · cases h
      · injection h with h; subst h
        have hk : Num.toInt timeLag = ((Num.toInt timeLag).toNat : Int) := by omega
        have hpos : 0 < (Num.toInt timeLag).toNat := by omega
        exact gen_eq_Lag_core timeLag inflow lagged (zeros inflow.length) _ hk hpos (by simp [zeros])

/-- `storageTrapAll` (bulk copy, then element 0) = `StorageTrapAll.trapped`: an empty series keeps the stored mass, else
the initial stored mass is added to element 0 and the stored mass becomes `0.0`; `outflowMass` is not written. -/
theorem gen_eq_StorageTrapAll {α} [Num α] (inflowMass a b c trapped0 outflowMass0 : List α) (ism : α) :
    storageTrapAll.run inflowMass a b c ism trapped0 outflowMass0 =
      (match StorageTrapAll.trapped inflowMass ism with
       | none => (ism, inflowMass)
       | some t => (0.0, t)) := by
  unfold storageTrapAll.run StorageTrapAll.trapped
  cases inflowMass with
  | nil => simp [copyFrom, sliceLen]
  | cons x xs =>
    simp only [copyFrom, sliceLen, List.length_cons]
    have : ¬ (Int.ofNat (xs.length + 1) = 0) := by simp; omega
    simp only [this, ↓reduceIte]
    rfl

/-- `inputNode` (one bulk copy) = `InputNode.run` -/
theorem gen_eq_InputNode {α} [Num α] (input output0 : List α) :
    inputNode.run input output0 = InputNode.run input := rfl

end OW.Props.GenTie
