import OW.Props.C04
/-!
C04, part 4 — the `states = nil` path of the vectorised `Run` (the wrapper calls `InitialiseStates(nCells)` itself).

`single_cell_eq` / `single_cell_eq_of_column` take the state array as given (`x.states = some states`). Here the other
entry is reduced to it: a `Run` without a state array IS the `Run` on the array that `InitialiseStates(nCells)` builds
(`run_nil_states`), so every cell of it equals the single-cell `Run` started from THAT cell's row of the initial array
(`single_cell_eq_init`). What is deliberately not claimed: that this row equals what `InitialiseStates(1)` would build for
the cell alone — the generated code sizes every row from cell 0's parameters (known findings
KF-C05-GR4J-InitialiseStates-row-width, KF-C05-Lag-InitialiseStates-row-width for the models whose state width depends on a
parameter); the statement is about the row the
code really hands to the cell.
-/
namespace OW.Props.C04
open OW OW.Sim

variable {α : Type} [Num α]

/-- `Run(inputs, nil, outputs)` = `Run(inputs, InitialiseStates(nCells), outputs)`: same result, same error / panic
class, for every kernel, spec, parameter array and shape. -/
theorem run_nil_states (km : KModel α) (spec : ParamSpec) (x : RunIn α) (hx : x.states = none)
    (lay : List (Nat × Nat)) (hl : layout spec x.params = .ok lay)
    (sts : List (List α)) (hi : initStates km spec lay x.params x.nCells = .ok sts) :
    run km spec x = run km spec { x with states := some sts } := by
  unfold run
  simp only [hx, hl, hi, bind, Except.bind, pure, Except.pure]

/-- a `Run` without a state array that fails in `InitialiseStates` fails with that class before any cell runs -/
theorem run_nil_states_error (km : KModel α) (spec : ParamSpec) (x : RunIn α) (hx : x.states = none)
    (lay : List (Nat × Nat)) (hl : layout spec x.params = .ok lay)
    (e : String) (hi : initStates km spec lay x.params x.nCells = .error e) :
    run km spec x = .error e := by
  unfold run
  simp only [hx, hl, hi, bind, Except.bind]

/-- **single_cell_eq for `states = nil`** (any spec, the column given). Let the N-cell `Run` WITHOUT a state array
succeed with `out`. Then `InitialiseStates(nCells)` succeeded with an array `sts`, and for every cell `i` of it there are
its initial state row `st = sts[i]`, its output rows, input block and parameter column `p` such that for EVERY one-cell
parameter array that decodes to `p`, `Run` with ONE cell on that array, the one block, the one state row `st` and the
one cell's output rows succeeds and returns exactly cell `i`'s part of `out`. -/
theorem single_cell_eq_init (km : KModel α) (spec : ParamSpec) (x : RunIn α) (hx : x.states = none)
    (out : RunOut α) (h : run km spec x = .ok out) :
    ∃ (lay : List (Nat × Nat)) (sts : List (List α)),
      layout spec x.params = .ok lay ∧ initStates km spec lay x.params x.nCells = .ok sts ∧
      ∀ i, i < sts.length →
        ∃ (p st : List α) (orow blk : List (List α)) (s' : List α) (o' : List (List α)),
          cellParams spec lay x.params i = .ok p ∧
          sts[i]? = some st ∧ x.outputs[i]? = some orow ∧ x.inputs[i % x.inputs.length]? = some blk ∧
          out.states[i]? = some s' ∧ out.outputs[i]? = some o' ∧
          ∀ (params₁ : List (List α)) (lay₁ : List (Nat × Nat)), layout spec params₁ = .ok lay₁ →
            cellParams spec lay₁ params₁ 0 = .ok p →
            run km spec { params := params₁, inputs := [blk], states := some [st], nCells := 1, outputs := [orow] } =
              .ok { outputs := [o'], states := [s'] } := by
  cases hl : layout spec x.params with
  | error e =>
    unfold run at h
    simp [hl, bind, Except.bind] at h
  | ok lay =>
    cases hi : initStates km spec lay x.params x.nCells with
    | error e =>
      rw [run_nil_states_error km spec x hx lay hl e hi] at h
      cases h
    | ok sts =>
      refine ⟨lay, sts, rfl, hi, ?_⟩
      intro i hlt
      rw [run_nil_states km spec x hx lay hl sts hi] at h
      obtain ⟨lay', p, st, orow, blk, s', o', hl', hp, h1, h2, h3, h4, h5, hall⟩ :=
        single_cell_eq_of_column km spec { x with states := some sts } sts rfl out h i hlt
      have : lay' = lay := by
        have : layout spec x.params = .ok lay' := hl'
        rw [hl] at this
        cases this
        rfl
      subst this
      exact ⟨p, st, orow, blk, s', o', hp, h1, h2, h3, h4, h5, hall⟩

/-! ### non-vacuity: the registry kernel `RunoffCoefficient` (no states: rows of width 0) without a state array -/
example (a u v e : α) :
    run (Kernels.Coeff.model (α := α)) [none]
      { params := [[a]], inputs := [[[u, v]]], states := none, nCells := 1, outputs := [[[e, e, e]]] } =
    run (Kernels.Coeff.model (α := α)) [none]
      { params := [[a]], inputs := [[[u, v]]], states := some [[]], nCells := 1, outputs := [[[e, e, e]]] } :=
  run_nil_states _ _ _ rfl [(0, 1)] rfl [[]] rfl

end OW.Props.C04
