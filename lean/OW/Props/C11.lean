import OW.Kernels.Muskingum
import OW.Kernels.Lag
import OW.Kernels.StorageRouting
import OW.Proofs.RealNum
import OW.Proofs.Lag
import OW.Proofs.Lits
import OW.Proofs.StorageRouting
import OW.Proofs.StorageRoutingStall
import OW.Proofs.Muskingum
import OW.Props.C18
import Mathlib.Tactic.Linarith
import Mathlib.Tactic.Ring
import Mathlib.Tactic.FieldSimp
import Mathlib.Tactic.NormNum
import Mathlib.Algebra.BigOperators.Group.List.Basic
/-!
C11 — flow routing conserves volume and honours its storage-discharge relation.

Models: `OW/Kernels/Muskingum.lean`, `OW/Kernels/Lag.lean`, `OW/Kernels/StorageRouting.lean` (line-by-line models of
`models/routing/{muskingum,lag,storage_routing}.go`), at `ℝ` (exact arithmetic) for Muskingum and StorageRouting; the
Lag theorems are pure list theory and hold for every element type.
-/
namespace OW.Props.C11
open OW OW.Lits

attribute [-simp] OW.RealNum.ofNat_eq

/-! ## Muskingum -/

section Muskingum
open OW.Kernels.Muskingum OW.Proofs.Muskingum

/-- **weights_sum_one.** Whenever the weights are defined (denominator `2K(1−X)+Δt ≠ 0`) they sum to one. -/
theorem weights_sum_one (k x dt : ℝ) (hden : 2 * k * (1 - x) + dt ≠ 0) :
    (coef k x dt).a1 + (coef k x dt).a2 + (coef k x dt).a3 = 1 := by
  rw [coef_eq]
  simp only
  field_simp
  ring

/-- one step with total inflow `q`, carried-over inflow and outflow `q`: the outflow is `q` and so is the new state -/
theorem steady_step (k x dt : ℝ) (hden : 2 * k * (1 - x) + dt ≠ 0) (q inflow lateral : ℝ) (hq : inflow + lateral = q) :
    step (coef k x dt) (q, q) (inflow, lateral) = ((q, q), q) := by
  have hw := weights_sum_one k x dt hden
  unfold step
  simp only
  rw [hq]
  have : (coef k x dt).a1 * q + (coef k x dt).a2 * q + (coef k x dt).a3 * q = q := by
    have : (coef k x dt).a1 * q + (coef k x dt).a2 * q + (coef k x dt).a3 * q =
        ((coef k x dt).a1 + (coef k x dt).a2 + (coef k x dt).a3) * q := by ring
    rw [this, hw, one_mul]
  rw [this]

/-- **steady_passes.** A steady flow passes unchanged: if all water entering the reach (upstream + lateral) is `q` at
every step and the carried-over inflow and outflow are `q`, every outflow is `q` and the state stays `(q, q)`; any
series length. -/
theorem steady_passes (k x dt : ℝ) (hden : 2 * k * (1 - x) + dt ≠ 0) (q : ℝ) (xs : List (ℝ × ℝ))
    (hxs : ∀ i ∈ xs, i.1 + i.2 = q) :
    run k x dt (q, q) xs = ((q, q), xs.map (fun _ => q)) := by
  unfold run
  induction xs with
  | nil => rfl
  | cons i xs ih =>
    obtain ⟨a, b⟩ := i
    have h1 := steady_step k x dt hden q a b (hxs (a, b) (List.mem_cons_self ..))
    simp only [scan, h1, List.map_cons]
    rw [ih (fun j hj => hxs j (List.mem_cons_of_mem _ hj))]

/-- total inflow volume rate summed over the series -/
def totalIn (xs : List (ℝ × ℝ)) : ℝ := (xs.map (fun i => i.1 + i.2)).sum

/-- **budget.** Exact discrete volume budget of a whole run, for every series, every initial state and all parameters
with a defined denominator: `Δt·Σ(I_t − O_t) = K[X(I_T − I_0) + (1−X)(O_T − O_0)] + Δt/2·((I_T − I_0) − (O_T − O_0))`,
where `I_t` = upstream + lateral inflow, `(I_0, O_0)` the carried-over state and `(I_T, O_T)` the final one.
The right-hand side is the change of the Muskingum storage `K[X·I + (1−X)·O]` (plus the half-step correction between
the rectangle sums on the left and the trapezoid sums of the textbook form, `budget_trapezoid`). -/
theorem budget (k x dt : ℝ) (hden : 2 * k * (1 - x) + dt ≠ 0) (xs : List (ℝ × ℝ)) (st : ℝ × ℝ) :
    dt * (totalIn xs - (run k x dt st xs).2.sum) =
      k * (x * ((run k x dt st xs).1.1 - st.1) + (1 - x) * ((run k x dt st xs).1.2 - st.2)) +
        dt / 2 * (((run k x dt st xs).1.1 - st.1) - ((run k x dt st xs).1.2 - st.2)) := by
  unfold run totalIn
  induction xs generalizing st with
  | nil => simp [scan]
  | cons i xs ih =>
    obtain ⟨a, b⟩ := i
    obtain ⟨pi, po⟩ := st
    have hs := step_budget k x dt hden pi po a b
    simp only at hs
    have hst : (step (coef k x dt) (pi, po) (a, b)).1 = (a + b, (step (coef k x dt) (pi, po) (a, b)).2) := by
      unfold step; rfl
    simp only [scan, List.map_cons, List.sum_cons]
    have ih' := ih (step (coef k x dt) (pi, po) (a, b)).1
    rw [hst] at ih' ⊢
    simp only at ih' ⊢
    linarith [hs, ih']

/-- **budget_trapezoid** (the form of DESIGN §6 C11): `Δt·Σ[(I_t+I_{t−1})/2 − (O_t+O_{t−1})/2] = K[X(I_T−I_0) + (1−X)(O_T−O_0)]`,
written with the rectangle sums: `Σ(I_t+I_{t−1})/2 = ΣI_t − (I_T − I_0)/2`. -/
theorem budget_trapezoid (k x dt : ℝ) (hden : 2 * k * (1 - x) + dt ≠ 0) (xs : List (ℝ × ℝ)) (st : ℝ × ℝ) :
    dt * ((totalIn xs - ((run k x dt st xs).1.1 - st.1) / 2) - ((run k x dt st xs).2.sum - ((run k x dt st xs).1.2 - st.2) / 2)) =
      k * (x * ((run k x dt st xs).1.1 - st.1) + (1 - x) * ((run k x dt st xs).1.2 - st.2)) := by
  have := budget k x dt hden xs st
  linarith

/-- **event_volume.** If a run ends in the state it started from, the outflow volume equals the inflow plus lateral volume.
NOTE: `(run …).1 = st` is an exact equality of states; it holds for steady runs (`steady_passes`) but a reach that starts at rest
and has received water never returns EXACTLY to rest (the recession is geometric: `run_zero_tail`). The event-volume clause for a
real event — start at rest, any inflow series, then a recession — is `event_volume_remainder` (exact remainder after `n + 1` dry
steps) and `event_volume_limit` (the remainder tends to zero); `budget` is the exact statement for every run. -/
theorem event_volume (k x dt : ℝ) (hden : 2 * k * (1 - x) + dt ≠ 0) (xs : List (ℝ × ℝ)) (st : ℝ × ℝ)
    (hend : (run k x dt st xs).1 = st) :
    dt * (run k x dt st xs).2.sum = dt * totalIn xs := by
  have := budget k x dt hden xs st
  rw [hend] at this
  simp only [sub_self, mul_zero, add_zero] at this
  linarith

theorem totalIn_append_zeros (xs : List (ℝ × ℝ)) (m : ℕ) : totalIn (xs ++ List.replicate m (0, 0)) = totalIn xs := by
  unfold totalIn
  simp

/-- **event_volume_remainder.** Start at rest, let ANY series `xs` (upstream + lateral) enter, then `n + 1` steps without inflow.
The volume not yet delivered at the outlet is exactly
`Δt·Σ(inflow+lateral) − Δt·Σ outflow = (K(1−X) − Δt/2) · a3ⁿ · O₁`, where `O₁ = a2·I_end + a3·O_end` is the outflow of the first dry
step (`(I_end, O_end)` = state at the end of `xs`): the water still stored in the reach, which decays geometrically with ratio `a3`
(`|a3| < 1` for `K(1−X) > 0`, `Δt > 0`: `OW.Proofs.Muskingum.a3_abs_lt_one`). -/
theorem event_volume_remainder (k x dt : ℝ) (hden : 2 * k * (1 - x) + dt ≠ 0) (xs : List (ℝ × ℝ)) (n : ℕ) :
    dt * totalIn xs - dt * (run k x dt (0, 0) (xs ++ List.replicate (n + 1) (0, 0))).2.sum =
      (k * (1 - x) - dt / 2) * ((coef k x dt).a3 ^ n *
        ((coef k x dt).a2 * (run k x dt (0, 0) xs).1.1 + (coef k x dt).a3 * (run k x dt (0, 0) xs).1.2)) := by
  have hb := budget k x dt hden (xs ++ List.replicate (n + 1) (0, 0)) (0, 0)
  rw [run_event_tail_state, totalIn_append_zeros] at hb
  simp only at hb
  linarith

/-- **event_volume_limit.** For `K(1−X) > 0` and `Δt > 0` (every parameter set of the stable region with `Δt > 0`): started at rest, the
outflow volume of an event followed by a long enough recession is as close to the inflow + lateral volume as one wishes — for every
`ε > 0` there is `N` such that after any `n ≥ N` further dry steps the two volumes differ by less than `ε`. (The divisor
`2K(1−X)+Δt` is positive under the hypotheses.) -/
theorem event_volume_limit (k x dt : ℝ) (hk : 0 < k * (1 - x)) (hdt : 0 < dt) (xs : List (ℝ × ℝ)) (ε : ℝ) (hε : 0 < ε) :
    ∃ N, ∀ n, N ≤ n →
      |dt * totalIn xs - dt * (run k x dt (0, 0) (xs ++ List.replicate (n + 1) (0, 0))).2.sum| < ε := by
  have h2 : 2 * k * (1 - x) = 2 * (k * (1 - x)) := by ring
  have hden : 2 * k * (1 - x) + dt ≠ 0 := by rw [h2]; exact ne_of_gt (by linarith)
  have ha := a3_abs_lt_one k x dt hk hdt
  set O1 := (coef k x dt).a2 * (run k x dt (0, 0) xs).1.1 + (coef k x dt).a3 * (run k x dt (0, 0) xs).1.2 with hO1
  set C := |k * (1 - x) - dt / 2| * |O1| with hC
  have hC0 : 0 ≤ C := mul_nonneg (abs_nonneg _) (abs_nonneg _)
  have hδ : 0 < ε / (C + 1) := div_pos hε (by linarith)
  obtain ⟨N, hN⟩ := exists_pow_lt_of_lt_one hδ ha
  refine ⟨N, fun n hn => ?_⟩
  rw [event_volume_remainder k x dt hden xs n, ← hO1, abs_mul, abs_mul, abs_pow]
  have hpow : |(coef k x dt).a3| ^ n ≤ |(coef k x dt).a3| ^ N := pow_le_pow_of_le_one (abs_nonneg _) (le_of_lt ha) hn
  have e : |k * (1 - x) - dt / 2| * (|(coef k x dt).a3| ^ n * |O1|) = C * |(coef k x dt).a3| ^ n := by rw [hC]; ring
  rw [e]
  have hmul : (C + 1) * (ε / (C + 1)) = ε := by field_simp
  calc C * |(coef k x dt).a3| ^ n ≤ C * |(coef k x dt).a3| ^ N := mul_le_mul_of_nonneg_left hpow hC0
    _ ≤ C * (ε / (C + 1)) := mul_le_mul_of_nonneg_left (le_of_lt hN) hC0
    _ < (C + 1) * (ε / (C + 1)) := by nlinarith
    _ = ε := hmul

/-- non-vacuity of `event_volume_remainder` / `event_volume_limit`: `K = Δt = 86400`, `X = 0.25` lie in the stable region
(`2KX ≤ Δt ≤ 2K(1−X)`), `K(1−X) > 0`, `a3 = 1/5`; one unit of inflow for one step, then two dry steps: outflows 1/5, 16/25, 16/125,
undelivered volume `Δt·(1 − 121/125) = (K(1−X) − Δt/2)·a3·O₁` with `O₁ = 16/25` — not zero, so `event_volume`'s hypothesis fails for
this run while the remainder theorem applies -/
example : (0 : ℝ) < 86400 * (1 - 0.25) ∧ 2 * (86400 : ℝ) * 0.25 ≤ 86400 ∧ (86400 : ℝ) ≤ 2 * 86400 * (1 - 0.25) ∧
    (coef (86400 : ℝ) 0.25 86400).a3 = 1 / 5 ∧
    (run (86400 : ℝ) 0.25 86400 (0, 0) ([(1, 0)] ++ List.replicate (1 + 1) (0, 0))).2 = [1 / 5, 16 / 25, 16 / 125] := by
  have hc : coef (86400 : ℝ) 0.25 86400 = ⟨1 / 5, 3 / 5, 1 / 5⟩ := by
    rw [coef_eq]; norm_num
  refine ⟨by norm_num, by norm_num, by norm_num, by rw [hc], ?_⟩
  unfold run
  rw [hc]
  simp only [List.replicate, List.cons_append, List.nil_append, scan, step]
  norm_num

/-- non-vacuity: parameters of the stable region have a non-zero denominator; a concrete steady run -/
example : (2 : ℝ) * 86400 * (1 - 0.25) + 86400 ≠ 0 ∧
    run (86400 : ℝ) 0.25 86400 (3, 3) [(2, 1), (3, 0), (1, 2)] = ((3, 3), [3, 3, 3]) := by
  refine ⟨by norm_num, ?_⟩
  have := steady_passes 86400 0.25 86400 (by norm_num) 3 [(2, 1), (3, 0), (1, 2)] (by
    intro i hi
    simp only [List.mem_cons, List.not_mem_nil, or_false] at hi
    rcases hi with rfl | rfl | rfl <;> norm_num)
  simpa using this

end Muskingum

/-! ## Lag (pure list theory; any element type) -/

section Lag
open OW.Kernels.Lag OW.Proofs.Lag
variable {α : Type} [Inhabited α]

/-- **lag_spec (outflow).** For any lag ≥ 1 (in steps), any series length (shorter or longer than the lag) and any
buffer of at least `lag` cells (`lag ≤ lagged.length`: a shorter buffer is the Go code's index-out-of-range panic, `lag_run_short`;
the statement is in terms of `[i]?`, so no default value stands in for a cell that does not exist): the outflow has the length of
the inflow and `outflow[i] = if i < lag then buffer₀[i] else inflow[i − lag]`. (Lag 0: `lag_zero`; the kernel: `lag_run_spec`.) -/
theorem lag_spec_outflow (lag : Nat) (inflow lagged out0 : List α) (hout : out0.length = inflow.length)
    (hlen : lag ≤ lagged.length) :
    (lagCore lag inflow lagged out0).outflow.length = inflow.length ∧
    ∀ i, i < inflow.length → (lagCore lag inflow lagged out0).outflow[i]? =
      if i < lag then lagged[i]? else inflow[i - lag]? := by
  obtain ⟨hl, hg⟩ := lagCore_outflow lag inflow lagged out0 hout
  refine ⟨hl, fun i hi => ?_⟩
  have h1 : i < (lagCore lag inflow lagged out0).outflow.length := by rw [hl]; exact hi
  rw [List.getElem?_eq_getElem h1, ← getD_of_lt _ default h1, hg i hi]
  by_cases hlag : i < lag
  · rw [if_pos hlag, if_pos hlag, getD_of_lt _ _ (by omega : i < lagged.length), List.getElem?_eq_getElem]
  · rw [if_neg hlag, if_neg hlag, getD_of_lt _ _ (by omega : i - lag < inflow.length), List.getElem?_eq_getElem]

/-- **lag_spec (buffer).** With a buffer of exactly `lag` cells the final buffer is the last `lag` elements of
`buffer₀ ++ inflow`, for any lag and any series length. -/
theorem lag_spec_buffer (inflow lagged out0 : List α) :
    (lagCore lagged.length inflow lagged out0).lagged = (lagged ++ inflow).drop inflow.length := by
  obtain ⟨hl, hg⟩ := lagCore_lagged lagged.length inflow lagged out0 (Nat.le_refl _)
  apply List.ext_getElem
  · rw [hl, List.length_drop, List.length_append]; omega
  · intro j h1 h2
    have := hg j
    rw [getD_of_lt _ _ h1] at this
    rw [this, List.getElem_drop]
    rw [hl] at h1
    rw [if_pos h1]
    by_cases hjt : j + inflow.length < lagged.length
    · rw [if_pos hjt, getD_of_lt _ _ hjt, List.getElem_append_left (by omega)]
      congr 1; omega
    · rw [if_neg hjt]
      have h3 : j + inflow.length - lagged.length < inflow.length := by omega
      rw [getD_of_lt _ _ h3, List.getElem_append_right (by omega)]
      congr 1; omega

/-- a longer state row: the cells beyond the lag are carried through untouched, the first `lag` cells are the last `lag`
elements of `buffer₀[0..lag) ++ inflow` -/
theorem lag_spec_buffer_padded (lag : Nat) (inflow lagged out0 : List α) (hlen : lag ≤ lagged.length) :
    (lagCore lag inflow lagged out0).lagged.length = lagged.length ∧
    ∀ j, (lagCore lag inflow lagged out0).lagged.getD j default =
      if j < lag then ((lagged.take lag ++ inflow).drop inflow.length).getD j default else lagged.getD j default := by
  obtain ⟨hl, hg⟩ := lagCore_lagged lag inflow lagged out0 hlen
  refine ⟨hl, fun j => ?_⟩
  rw [hg j]
  by_cases hj : j < lag
  · rw [if_pos hj, if_pos hj]
    have hlt : j < ((lagged.take lag ++ inflow).drop inflow.length).length := by
      rw [List.length_drop, List.length_append, List.length_take]; omega
    rw [getD_of_lt _ _ hlt, List.getElem_drop]
    by_cases hjt : j + inflow.length < lag
    · rw [if_pos hjt, List.getElem_append_left (by rw [List.length_take]; omega), List.getElem_take,
        getD_of_lt _ _ (by omega)]
      congr 1; omega
    · rw [if_neg hjt]
      have h3 : j + inflow.length - lag < inflow.length := by omega
      rw [getD_of_lt _ _ h3, List.getElem_append_right (by rw [List.length_take]; omega)]
      congr 1
      rw [List.length_take]; omega
  · rw [if_neg hj, if_neg hj]

end Lag

section LagKernel
open OW.Kernels.Lag

/-- **lag_zero.** `int(timeLag) = 0`: the outflow is the inflow and the buffer is returned untouched. -/
theorem lag_zero (timeLag : ℝ) (inflow lagged : List ℝ) (h : Num.toInt timeLag = 0) :
    run timeLag inflow lagged = .ok ⟨inflow, lagged⟩ := by
  unfold run
  simp [h]

/-- the kernel for a positive lag with a long enough state row is `lagCore` on a zero-initialised output series;
a shorter state row is the Go code's index-out-of-range panic -/
theorem lag_run (timeLag : ℝ) (inflow lagged : List ℝ) (h : 0 < Num.toInt timeLag) :
    run timeLag inflow lagged =
      if lagged.length < (Num.toInt timeLag).toNat then .error "index-out-of-range"
      else .ok (lagCore (Num.toInt timeLag).toNat inflow lagged (zeros inflow.length)) := by
  unfold run
  have h1 : (Num.toInt timeLag == 0) = false := by simp; omega
  have h2 : ¬ Num.toInt timeLag < 0 := by omega
  simp only [h1, h2, Bool.false_eq_true, if_false]

/-- a positive lag with a state row shorter than the lag: the Go code indexes `lagged[i]` out of range -/
theorem lag_run_short (timeLag : ℝ) (inflow lagged : List ℝ) (h : 0 < Num.toInt timeLag)
    (hshort : lagged.length < (Num.toInt timeLag).toNat) :
    run timeLag inflow lagged = .error "index-out-of-range" := by
  rw [lag_run timeLag inflow lagged h, if_pos hshort]

/-- **lag_run_spec** (the kernel `Lag.run`, not only its core loop): for `lag = int(timeLag) ≥ 1` and a state row of at least `lag`
cells the run completes, the outflow has the length of the inflow with
`outflow[i] = if i < lag then buffer₀[i] else inflow[i − lag]` (every cell read exists), and the returned state row has the length
of the one given, its first `lag` cells being the last `lag` elements of `buffer₀[0..lag) ++ inflow`, the others untouched.
With a shorter state row the run is the index-out-of-range panic (`lag_run_short`); lag 0 is `lag_zero`; a negative `int(timeLag)`
is a panic by the definition of `run`. -/
theorem lag_run_spec (timeLag : ℝ) (inflow lagged : List ℝ) (h : 0 < Num.toInt timeLag)
    (hlen : (Num.toInt timeLag).toNat ≤ lagged.length) :
    ∃ o, run timeLag inflow lagged = .ok o ∧ o.outflow.length = inflow.length ∧
      (∀ i, i < inflow.length → o.outflow[i]? =
        if i < (Num.toInt timeLag).toNat then lagged[i]? else inflow[i - (Num.toInt timeLag).toNat]?) ∧
      o.lagged.length = lagged.length ∧
      ∀ j, o.lagged.getD j default =
        if j < (Num.toInt timeLag).toNat then
          ((lagged.take (Num.toInt timeLag).toNat ++ inflow).drop inflow.length).getD j default
        else lagged.getD j default := by
  have hz : (zeros inflow.length : List ℝ).length = inflow.length := by simp [zeros]
  refine ⟨_, by rw [lag_run timeLag inflow lagged h, if_neg (by omega)], ?_⟩
  obtain ⟨o1, o2⟩ := lag_spec_outflow (Num.toInt timeLag).toNat inflow lagged (zeros inflow.length) hz hlen
  obtain ⟨b1, b2⟩ := lag_spec_buffer_padded (Num.toInt timeLag).toNat inflow lagged (zeros inflow.length) hlen
  exact ⟨o1, o2, b1, b2⟩

/-- non-vacuity: lag 2 on a series of length 1 (lag longer than the series) and of length 3 -/
example : (lagCore 2 [7] [1, 2] [0] : Out Nat).outflow = [1] ∧ (lagCore 2 [7] [1, 2] [0] : Out Nat).lagged = [2, 7] ∧
    (lagCore 2 [7, 8, 9] [1, 2] [0, 0, 0] : Out Nat).outflow = [1, 2, 7] ∧
    (lagCore 2 [7, 8, 9] [1, 2] [0, 0, 0] : Out Nat).lagged = [8, 9] := by
  decide

/-- non-vacuity of `lag_spec_outflow`'s new hypothesis: with a buffer SHORTER than the lag the `getD` form of the statement would
read a default value (`lagCore 2 [7, 8, 9] [1] …` puts `default = 0` into `outflow[1]`) where the Go code panics; with
`lag ≤ lagged.length` every cell read exists -/
example : (lagCore 2 [7, 8, 9] [1] [0, 0, 0] : Out Nat).outflow = [1, 0, 7] ∧ ¬ (2 ≤ ([1] : List Nat).length) ∧
    (2 ≤ ([1, 2] : List Nat).length) := by
  decide

/-- non-vacuity of `lag_run_spec` / `lag_run_short`: `timeLag = 2` is a positive lag; a two-cell state row is long enough, a one-cell
row is the panic case -/
example : 0 < Num.toInt (2 : ℝ) ∧ (Num.toInt (2 : ℝ)).toNat ≤ ([1, 2] : List ℝ).length ∧
    ([7] : List ℝ).length < (Num.toInt (2 : ℝ)).toNat := by
  have h : Num.toInt (2 : ℝ) = 2 := by
    show (if (0:ℝ) ≤ 2 then ⌊(2:ℝ)⌋ else ⌈(2:ℝ)⌉) = 2
    rw [if_pos (by norm_num)]
    exact Int.floor_ofNat 2
  rw [h]
  decide

end LagKernel


/-! ## StorageRouting: one call of `calcOutflow` (= one timestep) -/

section StorageRouting
open OW.Kernels.StorageRouting OW.Proofs.StorageRouting OW.Fn

variable (inflow lateral bias prevQi po prevStorage ner area dead dur rp rc ql kl ko : ℝ)

/-- **balance_path_zero_at_minqi** (`delta ≥ massBalanceLimit` at `minQI`, repaired): no outflow, and the reported
storage is exactly `prevStorage + (inflow + lateral − netEvaporation)·Δt`. -/
theorem balance_path_zero_at_minqi (hd : 0 < dur) (hp : 0 ≤ prevStorage) (hl : 0 ≤ lateral) (tag : String) :
    let c := mkCtx inflow lateral bias prevStorage ner area dead dur rp rc ql kl ko
    balanceErr c ⟨bias * (inflow + lateral), 0, newStorage c, tag⟩ = 0 := by
  intro c
  obtain ⟨_, hns, _⟩ := avail_nonneg inflow lateral bias prevStorage ner area dead dur rp rc ql kl ko hd hp hl
  unfold balanceErr
  simp only
  rw [hns]; ring

/-- **balance_path_full_drain** (`delta < massBalanceLimit` at `maxQI`, repaired to drain the lateral too): everything
present leaves, the reported storage is exactly the balance value (zero). -/
theorem balance_path_full_drain (hd : 0 < dur) (hp : 0 ≤ prevStorage) (hl : 0 ≤ lateral) (q : ℝ) (tag : String) :
    let c := mkCtx inflow lateral bias prevStorage ner area dead dur rp rc ql kl ko
    balanceErr c ⟨q, drainOutflow c, drainStorage c, tag⟩ = 0 ∧ drainStorage c = 0 ∧ 0 ≤ drainOutflow c := by
  intro c
  obtain ⟨_, _, h0⟩ := avail_nonneg inflow lateral bias prevStorage ner area dead dur rp rc ql kl ko hd hp hl
  have hflux := flux_eq_avail inflow lateral bias prevStorage ner area dead dur rp rc ql kl ko hd hp
  simp only at hflux
  have hdo : drainOutflow c = c.initialFluxMax - netEvaporationFlux c + c.lateral := by
    unfold drainOutflow; exact max_eq_right h0
  have hin : c.storage + (c.inflow + c.lateral - netEvaporationFlux c - drainOutflow c) * c.duration = 0 := by
    have : c.storage + (c.inflow + c.lateral - netEvaporationFlux c - drainOutflow c) * c.duration =
        avail c - drainOutflow c * c.duration := by unfold avail; ring
    rw [this, hdo, hflux]; ring
  have hds : drainStorage c = 0 := by
    unfold drainStorage; rw [hin]; exact max_self 0
  refine ⟨?_, hds, by rw [hdo]; exact h0⟩
  rw [balanceErr_eq]
  simp only
  rw [hds, hin]; ring

/-- **zero_maxqi_unreachable.** In exact arithmetic the `maxQI <= minQI` exit cannot be taken (previous storage ≥ 0,
lateral ≥ 0, bias < 0.999, `SIndex(minQI) ≥ 0`): a residual below `−massBalanceLimit` at `minQI` means water is present,
and all of it may leave, so `maxQI > minQI`. (The generator reaches the exit only through rounding at 10¹⁴ m³.) -/
theorem zero_maxqi_unreachable (hd : 0 < dur) (hp : 0 ≤ prevStorage) (hl : 0 ≤ lateral) (hb : bias < 0.999) :
    let c := mkCtx inflow lateral bias prevStorage ner area dead dur rp rc ql kl ko
    let minQI := bias * (inflow + lateral)
    0 ≤ sIndex c minQI → (rr c minQI).massBalance < -massBalanceLimit → minQI < maxQI c minQI := by
  intro c minQI hS hmb
  obtain ⟨_, hns, _⟩ := avail_nonneg inflow lateral bias prevStorage ner area dead dur rp rc ql kl ko hd hp hl
  have hflux := flux_eq_avail inflow lateral bias prevStorage ner area dead dur rp rc ql kl ko hd hp
  simp only at hflux
  have hcb : c.bias < 0.999 := hb
  rw [rr_massBalance c minQI hcb, hns] at hmb
  have hz : (minQI - c.bias * (c.inflow + c.lateral)) = 0 := by
    show bias * (inflow + lateral) - bias * (inflow + lateral) = 0; ring
  rw [hz, zero_mul, zero_div, zero_add] at hmb
  have hW : 0 < avail c := by linarith [mbl_pos]
  have hfl : 0 < c.initialFluxMax - netEvaporationFlux c + c.lateral := by
    by_contra hcon
    have : (c.initialFluxMax - netEvaporationFlux c + c.lateral) * c.duration ≤ 0 :=
      mul_nonpos_of_nonpos_of_nonneg (not_lt.mp hcon) (le_of_lt hd)
    linarith
  have hb1 : (0 : ℝ) < 1 - c.bias := by
    have : (0.999 : ℝ) < 1 := by norm_num
    linarith
  unfold maxQI
  simp only [RealNum.gmax_eq, z0, o1]
  rw [max_eq_right (le_of_lt hfl)]
  have := mul_pos hb1 hfl
  linarith

/-- **calcOutflow_balance**: the water balance of one timestep, on every exit path of `calcOutflow`
(previous storage ≥ 0, lateral ≥ 0, Δt > 0, bias < 0.999). With
`err = storage' − (prevStorage + (inflow + lateral − netEvaporation − outflow)·Δt)`:
* always `0 ≤ err` (the solver never loses water);
* `err = 0` exactly on the exits `zero-at-minqi`, `zero-maxqi-le-minqi`, `full-drain-at-maxqi`;
* `err < massBalanceLimit` on `balanced-at-minqi`, `prev-qi`, `mid-qi`;
* on `root`: `err ≤ max 0 delta` for the residual `delta` returned by FindRoot, which returned either through its
  tolerance test (then `err < massBalanceLimit`) or by running out of its 20 iterations — never through the
  convergence-in-x exit (repaired `convergenceLimit = 0`). -/
theorem calcOutflow_balance (hd : 0 < dur) (hp : 0 ≤ prevStorage) (hl : 0 ≤ lateral) (hb : bias < 0.999) (r : CO ℝ)
    (h : calcOutflow inflow lateral bias prevQi po prevStorage ner area dead dur rp rc ql kl ko = .ok r) :
    let c := mkCtx inflow lateral bias prevStorage ner area dead dur rp rc ql kl ko
    0 ≤ balanceErr c r ∧
    ((r.tag = "zero-at-minqi" ∨ r.tag = "zero-maxqi-le-minqi" ∨ r.tag = "full-drain-at-maxqi") ∧ balanceErr c r = 0 ∨
     (r.tag = "balanced-at-minqi" ∨ r.tag = "prev-qi" ∨ r.tag = "mid-qi") ∧ balanceErr c r < massBalanceLimit ∨
     r.tag = "root" ∧ ∃ fr, findRoot (massBalanceFn c) (some (slopeOfMassBalance c)) (bias * (inflow + lateral))
          (bias * (inflow + lateral)) (maxQI c (bias * (inflow + lateral))) massBalanceLimit convergenceLimit maxIterations = .ok fr ∧
        r.qi = fr.x ∧ fr.delta = (rr c fr.x).massBalance ∧ balanceErr c r ≤ max 0 fr.delta ∧ fr.exit ≠ .conv ∧
        (fr.exit = .tol → balanceErr c r < massBalanceLimit)) := by
  intro c
  obtain ⟨_, hns, _⟩ := avail_nonneg inflow lateral bias prevStorage ner area dead dur rp rc ql kl ko hd hp hl
  have hcd : 0 < c.duration := hd
  have hcb : c.bias < 0.999 := hb
  have hmin : c.bias * (c.inflow + c.lateral) = bias * (inflow + lateral) := rfl
  have hmb_min : (rr c (bias * (inflow + lateral))).massBalance = sIndex c (bias * (inflow + lateral)) - avail c := by
    rw [rr_massBalance c _ hcb, hns, hmin, sub_self, zero_mul, zero_div, zero_add]
  rcases calcOutflow_cases inflow lateral bias prevQi po prevStorage ner area dead dur rp rc ql kl ko r h with
    ⟨rfl, _⟩ | ⟨rfl, hlt, _⟩ | ⟨rfl, _, _⟩ | ⟨hneg, hlt, hsolve⟩
  · have := balance_path_zero_at_minqi inflow lateral bias prevStorage ner area dead dur rp rc ql kl ko hd hp hl "zero-at-minqi"
    simp only at this
    exact ⟨by rw [this], Or.inl ⟨Or.inl rfl, this⟩⟩
  · obtain ⟨e0, _, e2⟩ := sindex_exit_err c (bias * (inflow + lateral)) "balanced-at-minqi" hcd hns hcb (le_of_eq hmin)
    refine ⟨e0, Or.inr (Or.inl ⟨Or.inl rfl, ?_⟩)⟩
    refine lt_of_le_of_lt e2 ?_
    exact max_lt mbl_pos hlt
  · have := balance_path_zero_at_minqi inflow lateral bias prevStorage ner area dead dur rp rc ql kl ko hd hp hl "zero-maxqi-le-minqi"
    simp only at this
    exact ⟨by rw [this], Or.inl ⟨Or.inr (Or.inl rfl), this⟩⟩
  · rcases solve_cases c prevQi _ _ r hsolve with ⟨rfl, _⟩ | ⟨hpos, hc⟩
    · obtain ⟨e, _, _⟩ := balance_path_full_drain inflow lateral bias prevStorage ner area dead dur rp rc ql kl ko hd hp hl
        (maxQI c (bias * (inflow + lateral))) "full-drain-at-maxqi"
      exact ⟨by rw [e], Or.inl ⟨Or.inr (Or.inr rfl), e⟩⟩
    · rcases hc with ⟨h1, _, habs, rfl⟩ | ⟨_, habs, rfl⟩ | ⟨fr, hfr, rfl⟩
      · obtain ⟨e0, _, e2⟩ := sindex_exit_err c prevQi "prev-qi" hcd hns hcb (by rw [hmin]; exact le_of_lt h1)
        refine ⟨e0, Or.inr (Or.inl ⟨Or.inr (Or.inl rfl), lt_of_le_of_lt e2 (max_lt mbl_pos ?_)⟩)⟩
        exact lt_of_le_of_lt (le_abs_self _) habs
      · obtain ⟨e0, _, e2⟩ := sindex_exit_err c ((bias * (inflow + lateral) + maxQI c (bias * (inflow + lateral))) / 2)
          "mid-qi" hcd hns hcb (by rw [hmin]; linarith)
        refine ⟨e0, Or.inr (Or.inl ⟨Or.inr (Or.inr rfl), lt_of_le_of_lt e2 (max_lt mbl_pos ?_)⟩)⟩
        exact lt_of_le_of_lt (le_abs_self _) habs
      · -- the root-finder path: C18 facts about FindRoot
        have f1 : massBalanceFn c (bias * (inflow + lateral)) ≤ 0 := by
          rw [massBalanceFn_real]; linarith [mbl_pos]
        have f2 : 0 ≤ massBalanceFn c (maxQI c (bias * (inflow + lateral))) := by
          rw [massBalanceFn_real]; linarith [mbl_pos]
        have hle := le_of_lt hlt
        have hx0 : bias * (inflow + lateral) ≤ bias * (inflow + lateral) ∧
            bias * (inflow + lateral) ≤ maxQI c (bias * (inflow + lateral)) := ⟨le_refl _, hle⟩
        have hin := C18.result_in_interval hle f1 f2 hx0 hfr
        have hval := C18.result_delta_is_value hle f1 f2 hfr
        rw [massBalanceFn_real] at hval
        have hnc := C18.no_conv_exit (le_of_eq conv_eq) hle f1 f2 hfr
        obtain ⟨e0, _, e2⟩ := sindex_exit_err c fr.x "root" hcd hns hcb (by rw [hmin]; exact hin.1)
        refine ⟨e0, Or.inr (Or.inr ⟨rfl, fr, hfr, rfl, hval, by rw [hval]; exact e2, hnc, fun hex => ?_⟩)⟩
        have ht := C18.tol_exit hle f1 f2 hfr hex
        rw [hval] at ht
        exact lt_of_le_of_lt e2 (max_lt mbl_pos (lt_of_le_of_lt (le_abs_self _) ht))


/-- **calcOutflow_nonneg**: on every exit path the outflow and the storage are non-negative (Δt > 0, and the index storage
is non-negative, which `sIndex_nonneg`/`setup_facts` establish for the parameter region). -/
theorem calcOutflow_nonneg (hd : 0 < dur) (r : CO ℝ)
    (hS : ∀ q, 0 ≤ sIndex (mkCtx inflow lateral bias prevStorage ner area dead dur rp rc ql kl ko) q)
    (h : calcOutflow inflow lateral bias prevQi po prevStorage ner area dead dur rp rc ql kl ko = .ok r) :
    0 ≤ r.outflow ∧ 0 ≤ r.storage := by
  set c := mkCtx inflow lateral bias prevStorage ner area dead dur rp rc ql kl ko with hc
  have hcd : 0 < c.duration := hd
  rcases calcOutflow_cases inflow lateral bias prevQi po prevStorage ner area dead dur rp rc ql kl ko r h with
    ⟨rfl, _⟩ | ⟨rfl, _, _⟩ | ⟨rfl, _, _⟩ | ⟨_, _, hsolve⟩
  · exact ⟨le_refl _, newStorage_nonneg _⟩
  · exact ⟨rr_outflow_nonneg _ _ hcd, hS _⟩
  · exact ⟨le_refl _, newStorage_nonneg _⟩
  · rcases solve_cases c prevQi _ _ r hsolve with ⟨rfl, _⟩ | ⟨_, hcase⟩
    · exact ⟨le_max_left _ _, le_max_right _ _⟩
    · rcases hcase with ⟨_, _, _, rfl⟩ | ⟨_, _, rfl⟩ | ⟨fr, _, rfl⟩
      · exact ⟨rr_outflow_nonneg _ _ hcd, hS _⟩
      · exact ⟨rr_outflow_nonneg _ _ hcd, hS _⟩
      · exact ⟨rr_outflow_nonneg _ _ hcd, hS _⟩

/-- **sq_relation** (a fact about `runRouting` at an ARBITRARY index flow `q ≥ 0`, not about what `calcOutflow` returns — that is
`sq_calcOutflow` / `sq_calcOutflow_converged` / `sq_full_drain` below): zero inflow bias (`bias = 0`, hence `Klimit = k`,
`Qlimit = 0`, `Koffset = 0` for `m ≤ 1`). The index storage that `runRouting` reports at `q` is `S = k·q^m + dead` (`S = dead` at
`q = 0`), and the outflow it reports differs from `q` by at most the mass-balance residual expressed as a flow:
`|q − outflow|·Δt ≤ |residual(q)|`. -/
theorem sq_relation (hd : 0 < dur) (q : ℝ) (hq : 0 ≤ q) (hrp : rp ≤ 1) :
    let c := mkCtx inflow lateral 0 prevStorage ner area dead dur rp rc 0 rc 0
    (rr c q).sIndex = (if q ≤ 0 then dead else rc * q ^ rp + dead) ∧
      |q - (rr c q).outflow| * dur ≤ |(rr c q).massBalance| := by
  intro c
  have hcb : c.bias < 0.999 := by show (0 : ℝ) < 0.999; norm_num
  have hS : sIndex c q = if q ≤ 0 then dead else rc * q ^ rp + dead := by
    rw [sIndex_eq]
    show (if q ≤ 0 then dead else if (rp ≤ 1 ∧ q < 0) ∨ (1 < rp ∧ 0 < q) then rc * q + dead else rc * q ^ rp - 0 + dead) = _
    by_cases hq0 : q ≤ 0
    · rw [if_pos hq0, if_pos hq0]
    · rw [if_neg hq0, if_neg hq0, if_neg, sub_zero]
      rintro (⟨_, h⟩ | ⟨h, _⟩) <;> linarith
  refine ⟨hS, ?_⟩
  have hmb : (rr c q).massBalance = q * dur + sIndex c q - newStorage c := by
    rw [rr_massBalance c q hcb]
    show (q - 0 * (inflow + lateral)) * dur / (1 - 0) + sIndex c q - newStorage c = _
    ring
  have hout : (rr c q).outflow * dur = max 0 (newStorage c - sIndex c q) := by
    rw [rr_outflow]
    show max 0 (newStorage c - sIndex c q) / dur * dur = _
    rw [div_mul_cancel₀ _ (ne_of_gt hd)]
  have : |q - (rr c q).outflow| * dur = |q * dur - (rr c q).outflow * dur| := by
    rw [← sub_mul, abs_mul, abs_of_pos hd]
  rw [this, hout, hmb]
  rcases le_total (sIndex c q) (newStorage c) with h | h
  · rw [max_eq_right (by linarith)]
    have : q * dur - (newStorage c - sIndex c q) = q * dur + sIndex c q - newStorage c := by ring
    rw [this]
  · rw [max_eq_left (by linarith), sub_zero]
    have h1 : 0 ≤ q * dur := mul_nonneg hq (le_of_lt hd)
    rw [abs_of_nonneg h1, abs_of_nonneg (by linarith)]
    linarith

/-! ### the storage-discharge relation of what `calcOutflow` RETURNS

`sq_relation` above is a fact about `runRouting` at an arbitrary index flow `q`. The theorems below are about the record `r`
returned by `calcOutflow`: which index flow it carries, that the reported storage and outflow are those of that index flow, and how
large the residual at it can be, exit by exit. -/

/-- the index storage for zero inflow bias and `m ≤ 1` (`Klimit = k`, `Qlimit = 0`, `Koffset = 0`): the plain power law -/
theorem sIndex_zero_bias (q : ℝ) (hrp : rp ≤ 1) :
    sIndex (mkCtx inflow lateral 0 prevStorage ner area dead dur rp rc 0 rc 0) q =
      if q ≤ 0 then dead else rc * q ^ rp + dead := by
  rw [sIndex_eq]
  show (if q ≤ 0 then dead else if (rp ≤ 1 ∧ q < 0) ∨ (1 < rp ∧ 0 < q) then rc * q + dead else rc * q ^ rp - 0 + dead) = _
  by_cases hq0 : q ≤ 0
  · rw [if_pos hq0, if_pos hq0]
  · rw [if_neg hq0, if_neg hq0, if_neg, sub_zero]
    rintro (⟨_, h⟩ | ⟨h, _⟩) <;> linarith

/-- the index flow is `q = bias·(inflow+lateral) + (1−bias)·outflow`; solved for the outflow and compared with the outflow that
`runRouting` reports at `q ≥ minQI`, the difference as a volume is at most the mass-balance residual at `q`
(divisors `Δt` and `1 − bias` non-zero: `Δt > 0`, `bias < 0.999`). -/
theorem sq_index_flow (c : Ctx ℝ) (q : ℝ) (hd : 0 < c.duration) (hb : c.bias < 0.999)
    (hq : c.bias * (c.inflow + c.lateral) ≤ q) :
    |(q - c.bias * (c.inflow + c.lateral)) / (1 - c.bias) - (rr c q).outflow| * c.duration ≤ |(rr c q).massBalance| := by
  have hb1 : (0 : ℝ) < 1 - c.bias := by
    have : (0.999 : ℝ) < 1 := by norm_num
    linarith
  have hA : 0 ≤ (q - c.bias * (c.inflow + c.lateral)) * c.duration / (1 - c.bias) :=
    div_nonneg (mul_nonneg (by linarith) (le_of_lt hd)) (le_of_lt hb1)
  have hout : (rr c q).outflow * c.duration = max 0 (newStorage c - sIndex c q) := by
    rw [rr_outflow, div_mul_cancel₀ _ (ne_of_gt hd)]
  have e : |(q - c.bias * (c.inflow + c.lateral)) / (1 - c.bias) - (rr c q).outflow| * c.duration =
      |(q - c.bias * (c.inflow + c.lateral)) * c.duration / (1 - c.bias) - (rr c q).outflow * c.duration| := by
    have : (q - c.bias * (c.inflow + c.lateral)) * c.duration / (1 - c.bias) - (rr c q).outflow * c.duration =
        ((q - c.bias * (c.inflow + c.lateral)) / (1 - c.bias) - (rr c q).outflow) * c.duration := by ring
    rw [this, abs_mul, abs_of_pos hd]
  rw [e, hout, rr_massBalance c q hb]
  generalize (q - c.bias * (c.inflow + c.lateral)) * c.duration / (1 - c.bias) = A at hA ⊢
  rcases le_total (sIndex c q) (newStorage c) with h | h
  · rw [max_eq_right (by linarith)]
    have : A - (newStorage c - sIndex c q) = A + sIndex c q - newStorage c := by ring
    rw [this]
  · rw [max_eq_left (by linarith), sub_zero, abs_of_nonneg hA, abs_of_nonneg (by linarith)]
    linarith

theorem maxQI_eq (c : Ctx ℝ) (m : ℝ) : maxQI c m = m + (1 - c.bias) * drainOutflow c := by
  unfold maxQI drainOutflow
  simp only [RealNum.gmax_eq, z0, o1]

/-- what `calcOutflow` returns, exit by exit (no hypothesis on the parameters): the two zero-outflow exits, the full-drain exit,
and the four exits that report the values of `runRouting` at the returned index flow `r.qi ≥ minQI` with what is known of the
residual there. -/
theorem calcOutflow_sq_cases (r : CO ℝ)
    (h : calcOutflow inflow lateral bias prevQi po prevStorage ner area dead dur rp rc ql kl ko = .ok r) :
    let c := mkCtx inflow lateral bias prevStorage ner area dead dur rp rc ql kl ko
    let minQI := bias * (inflow + lateral)
    ((r.tag = "zero-at-minqi" ∨ r.tag = "zero-maxqi-le-minqi") ∧ r.qi = minQI ∧ r.outflow = 0 ∧ r.storage = newStorage c) ∨
    (r.tag = "full-drain-at-maxqi" ∧ r.qi = maxQI c minQI ∧ r.outflow = drainOutflow c ∧ r.storage = drainStorage c ∧
      minQI < maxQI c minQI ∧ (rr c (maxQI c minQI)).massBalance < massBalanceLimit) ∨
    (minQI ≤ r.qi ∧ r.outflow = (rr c r.qi).outflow ∧ r.storage = sIndex c r.qi ∧
      (r.tag = "balanced-at-minqi" ∧ r.qi = minQI ∧ |(rr c r.qi).massBalance| ≤ massBalanceLimit ∨
       (r.tag = "prev-qi" ∨ r.tag = "mid-qi") ∧ |(rr c r.qi).massBalance| < massBalanceLimit ∨
       r.tag = "root" ∧ ∃ fr, findRoot (massBalanceFn c) (some (slopeOfMassBalance c)) minQI minQI (maxQI c minQI)
            massBalanceLimit convergenceLimit maxIterations = .ok fr ∧
          r.qi = fr.x ∧ fr.delta = (rr c fr.x).massBalance ∧ fr.exit ≠ .conv ∧
          (fr.exit = .tol → |(rr c fr.x).massBalance| < massBalanceLimit))) := by
  intro c minQI
  rcases calcOutflow_cases inflow lateral bias prevQi po prevStorage ner area dead dur rp rc ql kl ko r h with
    ⟨rfl, _⟩ | ⟨rfl, hlt, hge⟩ | ⟨rfl, _, _⟩ | ⟨hneg, hlt, hsolve⟩
  · exact Or.inl ⟨Or.inl rfl, rfl, rfl, rfl⟩
  · refine Or.inr (Or.inr ⟨le_refl _, rfl, rfl, Or.inl ⟨rfl, rfl, ?_⟩⟩)
    exact abs_le.mpr ⟨hge, le_of_lt hlt⟩
  · exact Or.inl ⟨Or.inr rfl, rfl, rfl, rfl⟩
  · rcases solve_cases c prevQi _ _ r hsolve with ⟨rfl, hmx⟩ | ⟨hpos, hc⟩
    · exact Or.inr (Or.inl ⟨rfl, rfl, rfl, rfl, hlt, hmx⟩)
    · rcases hc with ⟨h1, _, habs, rfl⟩ | ⟨_, habs, rfl⟩ | ⟨fr, hfr, rfl⟩
      · exact Or.inr (Or.inr ⟨le_of_lt h1, rfl, rfl, Or.inr (Or.inl ⟨Or.inl rfl, habs⟩)⟩)
      · refine Or.inr (Or.inr ⟨?_, rfl, rfl, Or.inr (Or.inl ⟨Or.inr rfl, habs⟩)⟩)
        show minQI ≤ (minQI + maxQI c minQI) / 2
        linarith
      · have f1 : massBalanceFn c minQI ≤ 0 := by
          rw [massBalanceFn_real]; linarith [mbl_pos]
        have f2 : 0 ≤ massBalanceFn c (maxQI c minQI) := by
          rw [massBalanceFn_real]; linarith [mbl_pos]
        have hle := le_of_lt hlt
        have hx0 : minQI ≤ minQI ∧ minQI ≤ maxQI c minQI := ⟨le_refl _, hle⟩
        have hin := C18.result_in_interval hle f1 f2 hx0 hfr
        have hval := C18.result_delta_is_value hle f1 f2 hfr
        rw [massBalanceFn_real] at hval
        have hnc := C18.no_conv_exit (le_of_eq conv_eq) hle f1 f2 hfr
        refine Or.inr (Or.inr ⟨hin.1, rfl, rfl, Or.inr (Or.inr ⟨rfl, fr, hfr, rfl, hval, hnc, fun hex => ?_⟩)⟩)
        have ht := C18.tol_exit hle f1 f2 hfr hex
        rwa [hval] at ht

/-- the four exits of `calcOutflow` that report the values of `runRouting` -/
def SIndexExit (tag : String) : Prop :=
  tag = "balanced-at-minqi" ∨ tag = "prev-qi" ∨ tag = "mid-qi" ∨ tag = "root"

/-- **sq_calcOutflow_bias** (any inflow bias `< 0.999`, `Δt > 0`): what `calcOutflow` RETURNS on the four exits that report the
index storage. With `minQI = bias·(inflow+lateral)` and `residual = (rr c r.qi).massBalance`:
* the returned index flow is `≥ minQI`, the reported storage IS the index storage of the returned index flow
  (`r.storage = S(r.qi)`: dead storage / linear extension / `k·q^m − Koffset + dead`, `sIndex_eq`), and the reported outflow differs from
  the outflow that the index-flow definition `q = bias·(inflow+lateral) + (1−bias)·outflow` gives by at most the residual as a volume;
* `|residual| ≤ massBalanceLimit` on `balanced-at-minqi` (where `r.qi = minQI`), `< massBalanceLimit` on `prev-qi`, `mid-qi`;
* on `root` the returned index flow is the one FindRoot returned, `delta` is its residual, the convergence-in-x exit was not taken,
  and `|residual| < massBalanceLimit` if FindRoot returned through its tolerance test (it need not: `root_not_converged_counterexample`). -/
theorem sq_calcOutflow_bias (hd : 0 < dur) (hb : bias < 0.999) (r : CO ℝ)
    (h : calcOutflow inflow lateral bias prevQi po prevStorage ner area dead dur rp rc ql kl ko = .ok r)
    (htag : SIndexExit r.tag) :
    let c := mkCtx inflow lateral bias prevStorage ner area dead dur rp rc ql kl ko
    let minQI := bias * (inflow + lateral)
    minQI ≤ r.qi ∧ r.storage = sIndex c r.qi ∧
    |(r.qi - minQI) / (1 - bias) - r.outflow| * dur ≤ |(rr c r.qi).massBalance| ∧
    (r.tag = "balanced-at-minqi" → r.qi = minQI ∧ |(rr c r.qi).massBalance| ≤ massBalanceLimit) ∧
    (r.tag = "prev-qi" ∨ r.tag = "mid-qi" → |(rr c r.qi).massBalance| < massBalanceLimit) ∧
    (r.tag = "root" → ∃ fr, findRoot (massBalanceFn c) (some (slopeOfMassBalance c)) minQI minQI (maxQI c minQI)
          massBalanceLimit convergenceLimit maxIterations = .ok fr ∧
        r.qi = fr.x ∧ fr.delta = (rr c r.qi).massBalance ∧ fr.exit ≠ .conv ∧
        (fr.exit = .tol → |(rr c r.qi).massBalance| < massBalanceLimit)) := by
  intro c minQI
  have hcd : 0 < c.duration := hd
  have hcb : c.bias < 0.999 := hb
  rcases calcOutflow_sq_cases inflow lateral bias prevQi po prevStorage ner area dead dur rp rc ql kl ko r h with
    ⟨ht, _⟩ | ⟨ht, _⟩ | ⟨hge, hout, hst, hc⟩
  · exfalso
    rcases htag with h' | h' | h' | h' <;> rcases ht with ht | ht <;> rw [h'] at ht <;> exact absurd ht (by decide)
  · exfalso
    rcases htag with h' | h' | h' | h' <;> rw [h'] at ht <;> exact absurd ht (by decide)
  · have hflow := sq_index_flow c r.qi hcd hcb hge
    rw [← hout] at hflow
    refine ⟨hge, hst, hflow, ?_, ?_, ?_⟩
    · intro ht
      rcases hc with ⟨_, e, hm⟩ | ⟨h', _⟩ | ⟨h', _⟩
      · exact ⟨e, hm⟩
      · rcases h' with h' | h' <;> rw [ht] at h' <;> exact absurd h' (by decide)
      · rw [ht] at h'; exact absurd h' (by decide)
    · intro ht
      rcases hc with ⟨h', _⟩ | ⟨_, hm⟩ | ⟨h', _⟩
      · rcases ht with ht | ht <;> rw [ht] at h' <;> exact absurd h' (by decide)
      · exact hm
      · rcases ht with ht | ht <;> rw [ht] at h' <;> exact absurd h' (by decide)
    · intro ht
      rcases hc with ⟨h', _⟩ | ⟨h', _⟩ | ⟨_, fr, hfr, e, hv, hnc, htol⟩
      · rw [ht] at h'; exact absurd h' (by decide)
      · rcases h' with h' | h' <;> rw [ht] at h' <;> exact absurd h' (by decide)
      · exact ⟨fr, hfr, e, by rw [e]; exact hv, hnc, by rw [e]; exact htol⟩

/-- **sq_calcOutflow**: zero inflow bias (`bias = 0`, hence `Klimit = k`, `Qlimit = 0`, `Koffset = 0` for `m ≤ 1`), `Δt > 0`. If
`calcOutflow` returns `r` through one of the four exits that report the index storage, then for the RETURNED index flow `r.qi`:
`r.qi ≥ 0`, the reported storage is `S = k·r.qi^m + dead` (`dead` at `r.qi = 0`) exactly, and the reported outflow differs from
the index flow by at most the residual: `|r.qi − r.outflow|·Δt ≤ |residual(r.qi)|`, where `|residual| ≤ massBalanceLimit` on
`balanced-at-minqi` (`r.qi = 0`), `< massBalanceLimit` on `prev-qi` / `mid-qi`, and on `root` when FindRoot returned through its
tolerance test. (Corollary in the `… < massBalanceLimit` form: `sq_calcOutflow_converged`.) -/
theorem sq_calcOutflow (hd : 0 < dur) (hrp : rp ≤ 1) (r : CO ℝ)
    (h : calcOutflow inflow lateral 0 prevQi po prevStorage ner area dead dur rp rc 0 rc 0 = .ok r)
    (htag : SIndexExit r.tag) :
    let c := mkCtx inflow lateral 0 prevStorage ner area dead dur rp rc 0 rc 0
    0 ≤ r.qi ∧ r.storage = (if r.qi ≤ 0 then dead else rc * r.qi ^ rp + dead) ∧
    |r.qi - r.outflow| * dur ≤ |(rr c r.qi).massBalance| ∧
    (r.tag = "balanced-at-minqi" → r.qi = 0 ∧ |(rr c r.qi).massBalance| ≤ massBalanceLimit) ∧
    (r.tag = "prev-qi" ∨ r.tag = "mid-qi" → |(rr c r.qi).massBalance| < massBalanceLimit) ∧
    (r.tag = "root" → ∃ fr, findRoot (massBalanceFn c) (some (slopeOfMassBalance c)) 0 0 (maxQI c 0)
          massBalanceLimit convergenceLimit maxIterations = .ok fr ∧
        r.qi = fr.x ∧ fr.delta = (rr c r.qi).massBalance ∧ fr.exit ≠ .conv ∧
        (fr.exit = .tol → |(rr c r.qi).massBalance| < massBalanceLimit)) := by
  intro c
  have hb : (0 : ℝ) < 0.999 := by norm_num
  obtain ⟨h1, h2, h3, h4, h5, h6⟩ :=
    sq_calcOutflow_bias inflow lateral 0 prevQi po prevStorage ner area dead dur rp rc 0 rc 0 hd hb r h htag
  simp only [zero_mul, sub_zero, div_one] at h1 h3 h4 h6
  rw [sIndex_zero_bias inflow lateral prevStorage ner area dead dur rp rc r.qi hrp] at h2
  exact ⟨h1, h2, h3, h4, h5, h6⟩

/-- **sq_calcOutflow_converged** (the assembled storage-discharge statement): zero inflow bias, `m ≤ 1`, `Δt > 0`. If `calcOutflow`
returns `r` with tag `balanced-at-minqi`, `prev-qi`, `mid-qi`, or `root` with the root search converged (FindRoot returned through
its tolerance test), then `r.storage = k·r.qi^m + dead` and `|r.qi − r.outflow|·Δt ≤ massBalanceLimit`, strictly below except on
`balanced-at-minqi` (whose acceptance test `−massBalanceLimit ≤ residual` is not strict; there `r.qi = 0`). -/
theorem sq_calcOutflow_converged (hd : 0 < dur) (hrp : rp ≤ 1) (r : CO ℝ)
    (h : calcOutflow inflow lateral 0 prevQi po prevStorage ner area dead dur rp rc 0 rc 0 = .ok r)
    (htag : SIndexExit r.tag)
    (hconv : r.tag = "root" → ∀ fr,
      findRoot (massBalanceFn (mkCtx inflow lateral 0 prevStorage ner area dead dur rp rc 0 rc 0))
        (some (slopeOfMassBalance (mkCtx inflow lateral 0 prevStorage ner area dead dur rp rc 0 rc 0))) 0 0
        (maxQI (mkCtx inflow lateral 0 prevStorage ner area dead dur rp rc 0 rc 0) 0)
        massBalanceLimit convergenceLimit maxIterations = .ok fr → fr.exit = .tol) :
    0 ≤ r.qi ∧ r.storage = (if r.qi ≤ 0 then dead else rc * r.qi ^ rp + dead) ∧
    |r.qi - r.outflow| * dur ≤ massBalanceLimit ∧
    (r.tag ≠ "balanced-at-minqi" → |r.qi - r.outflow| * dur < massBalanceLimit) := by
  obtain ⟨h1, h2, h3, h4, h5, h6⟩ :=
    sq_calcOutflow inflow lateral prevQi po prevStorage ner area dead dur rp rc hd hrp r h htag
  have hstrict : r.tag ≠ "balanced-at-minqi" →
      |(rr (mkCtx inflow lateral 0 prevStorage ner area dead dur rp rc 0 rc 0) r.qi).massBalance| < massBalanceLimit := by
    intro hne
    rcases htag with ht | ht | ht | ht
    · exact absurd ht hne
    · exact h5 (Or.inl ht)
    · exact h5 (Or.inr ht)
    · obtain ⟨fr, hfr, _, _, _, htol⟩ := h6 ht
      exact htol (hconv ht fr hfr)
  refine ⟨h1, h2, ?_, fun hne => lt_of_le_of_lt h3 (hstrict hne)⟩
  by_cases hbal : r.tag = "balanced-at-minqi"
  · exact le_trans h3 (h4 hbal).2
  · exact le_of_lt (lt_of_le_of_lt h3 (hstrict hbal))

/-- **sq_full_drain** (any inflow bias `< 0.999`, previous storage ≥ 0, lateral ≥ 0, `Δt > 0`): the `full-drain-at-maxqi` exit.
The returned index flow is `maxQI > minQI`; the reported outflow is POSITIVE and is exactly the outflow of that index flow
(`r.qi = minQI + (1−bias)·r.outflow`; for zero bias `r.qi = r.outflow`); the reported storage is `0`; and the residual test that
selects this exit says precisely that the index storage of the returned index flow is below the tolerance:
`S(r.qi) < massBalanceLimit`. Hence, with `S ≥ 0`, the storage-discharge relation holds within the tolerance on this exit too:
`|r.storage − S(r.qi)| < massBalanceLimit`. -/
theorem sq_full_drain (hd : 0 < dur) (hp : 0 ≤ prevStorage) (hl : 0 ≤ lateral) (hb : bias < 0.999) (r : CO ℝ)
    (h : calcOutflow inflow lateral bias prevQi po prevStorage ner area dead dur rp rc ql kl ko = .ok r)
    (htag : r.tag = "full-drain-at-maxqi") :
    let c := mkCtx inflow lateral bias prevStorage ner area dead dur rp rc ql kl ko
    let minQI := bias * (inflow + lateral)
    r.qi = maxQI c minQI ∧ minQI < r.qi ∧ 0 < r.outflow ∧ r.qi = minQI + (1 - bias) * r.outflow ∧ r.storage = 0 ∧
      sIndex c r.qi < massBalanceLimit ∧ (0 ≤ sIndex c r.qi → |r.storage - sIndex c r.qi| < massBalanceLimit) := by
  intro c minQI
  have hcb : c.bias < 0.999 := hb
  have hb1 : (0 : ℝ) < 1 - c.bias := by
    have : (0.999 : ℝ) < 1 := by norm_num
    linarith
  obtain ⟨_, hns, h0⟩ := avail_nonneg inflow lateral bias prevStorage ner area dead dur rp rc ql kl ko hd hp hl
  have hflux := flux_eq_avail inflow lateral bias prevStorage ner area dead dur rp rc ql kl ko hd hp
  simp only at hflux
  rcases calcOutflow_sq_cases inflow lateral bias prevQi po prevStorage ner area dead dur rp rc ql kl ko r h with
    ⟨ht, _⟩ | ⟨_, hqi, hout, hst, hlt, hmx⟩ | ⟨_, _, _, hc⟩
  · exfalso
    rcases ht with ht | ht <;> rw [htag] at ht <;> exact absurd ht (by decide)
  · obtain ⟨_, hds, _⟩ := balance_path_full_drain inflow lateral bias prevStorage ner area dead dur rp rc ql kl ko hd hp hl
      r.qi r.tag
    have hdo : drainOutflow c = c.initialFluxMax - netEvaporationFlux c + c.lateral := by
      unfold drainOutflow; exact max_eq_right h0
    have hmq : maxQI c minQI = minQI + (1 - c.bias) * drainOutflow c := maxQI_eq c minQI
    have hpos : 0 < drainOutflow c := by
      have : 0 < (1 - c.bias) * drainOutflow c := by linarith
      exact (mul_pos_iff_of_pos_left hb1).mp this
    have hS : sIndex c (maxQI c minQI) < massBalanceLimit := by
      rw [rr_massBalance c _ hcb, hns] at hmx
      have hmin : c.bias * (c.inflow + c.lateral) = minQI := rfl
      have e : (maxQI c minQI - c.bias * (c.inflow + c.lateral)) * c.duration / (1 - c.bias) = avail c := by
        rw [hmin, hmq, ← hflux, ← hdo]
        field_simp
        ring
      rw [e] at hmx
      linarith
    rw [hqi, hout, hst]
    refine ⟨rfl, hlt, hpos, hmq, hds, hS, fun hnn => ?_⟩
    rw [hds, zero_sub, abs_neg, abs_of_nonneg hnn]
    exact hS
  · exfalso
    rcases hc with ⟨ht, _⟩ | ⟨ht, _⟩ | ⟨ht, _⟩
    · rw [htag] at ht; exact absurd ht (by decide)
    · rcases ht with ht | ht <;> rw [htag] at ht <;> exact absurd ht (by decide)
    · rw [htag] at ht; exact absurd ht (by decide)

/-- **sq_zero_at_minqi** (why the storage-discharge relation is NOT claimed on the zero-outflow exit; bias `< 0.999`): on
`zero-at-minqi` the outflow is `0`, the index flow is `minQI`, and the reported (water-balance) storage lies at least
`massBalanceLimit` BELOW the index storage of that index flow — a reach filling up below its index storage releases nothing.
(Witness: the last `example` of this file — dead storage 1000 m³, reported storage 86.4 m³. The other zero-outflow exit,
`zero-maxqi-le-minqi`, cannot be taken in exact arithmetic: `zero_maxqi_unreachable`.) -/
theorem sq_zero_at_minqi (hb : bias < 0.999) (r : CO ℝ)
    (h : calcOutflow inflow lateral bias prevQi po prevStorage ner area dead dur rp rc ql kl ko = .ok r)
    (htag : r.tag = "zero-at-minqi") :
    let c := mkCtx inflow lateral bias prevStorage ner area dead dur rp rc ql kl ko
    r.qi = bias * (inflow + lateral) ∧ r.outflow = 0 ∧ r.storage = newStorage c ∧
      r.storage + massBalanceLimit ≤ sIndex c r.qi := by
  intro c
  have hcb : c.bias < 0.999 := hb
  rcases calcOutflow_cases inflow lateral bias prevQi po prevStorage ner area dead dur rp rc ql kl ko r h with
    ⟨rfl, hge⟩ | ⟨rfl, _, _⟩ | ⟨rfl, _, _⟩ | ⟨_, _, hsolve⟩
  · refine ⟨rfl, rfl, rfl, ?_⟩
    rw [rr_massBalance c _ hcb] at hge
    have hz : bias * (inflow + lateral) - c.bias * (c.inflow + c.lateral) = 0 := by
      show bias * (inflow + lateral) - bias * (inflow + lateral) = 0; ring
    rw [hz, zero_mul, zero_div, zero_add] at hge
    show newStorage c + massBalanceLimit ≤ sIndex c (bias * (inflow + lateral))
    linarith
  · simp only at htag; exact absurd htag (by decide)
  · simp only at htag; exact absurd htag (by decide)
  · rcases solve_cases c prevQi _ _ r hsolve with ⟨rfl, _⟩ | ⟨_, ⟨_, _, _, rfl⟩ | ⟨_, _, rfl⟩ | ⟨fr, _, rfl⟩⟩ <;>
      (simp only at htag; exact absurd htag (by decide))

/-- non-vacuity of `sq_calcOutflow` / `sq_calcOutflow_converged` / `sq_calcOutflow_bias`: a call that leaves through `balanced-at-minqi`
(zero bias, `k = 5000`, `m = 0.8`, no dead storage, empty reach, no inflow: index flow 0, storage 0, outflow 0) -/
example : calcOutflow (0 : ℝ) 0 0 0 0 0 0 0 0 86400 0.8 5000 0 5000 0 = .ok ⟨0, 0, 0, "balanced-at-minqi"⟩ ∧
    SIndexExit "balanced-at-minqi" ∧ (0 : ℝ) < 86400 ∧ (0.8 : ℝ) ≤ 1 := by
  refine ⟨?_, Or.inl rfl, by norm_num, by norm_num⟩
  have hS : sIndex (mkCtx (0 : ℝ) 0 0 0 0 0 0 86400 0.8 5000 0 5000 0) (0 * (0 + 0)) = 0 := by
    rw [sIndex_eq]; simp [mkCtx]
  have hN : newStorage (mkCtx (0 : ℝ) 0 0 0 0 0 0 86400 0.8 5000 0 5000 0) = 0 := by
    rw [newStorage_eq, nef_eq]
    simp only [mkCtx, RealNum.gmax_eq, z0]
    norm_num
  have hM : (rr (mkCtx (0 : ℝ) 0 0 0 0 0 0 86400 0.8 5000 0 5000 0) (0 * (0 + 0))).massBalance = 0 := by
    rw [rr_massBalance _ _ (by show (0:ℝ) < 0.999; norm_num), hS, hN]
    simp [mkCtx]
  have hO : (rr (mkCtx (0 : ℝ) 0 0 0 0 0 0 86400 0.8 5000 0 5000 0) (0 * (0 + 0))).outflow = 0 := by
    rw [rr_outflow, hS, hN]; simp
  unfold calcOutflow
  simp only [runRouting_real, RealNum.isNaN_eq, Bool.or_self, Bool.false_eq_true, if_false, z0]
  rw [if_neg (by rw [hM, mbl_eq]; norm_num), if_pos (by rw [hM, mbl_eq]; norm_num), hO, rr_sIndex, hS]
  norm_num

/-- non-vacuity of `sq_full_drain`: zero bias, `k = 1/2`, `m = 1`, 100 m³ in the reach, no inflow, Δt = 86400 s: the index storage at the
maximum index flow is 50/86400 m³ < `massBalanceLimit`, the call leaves through `full-drain-at-maxqi` with index flow = outflow =
100/86400 m³/s (positive) and storage 0 -/
example : calcOutflow (0:ℝ) 0 0 0 0 100 0 0 0 86400 1 (1/2) 0 (1/2) 0 = .ok ⟨100/86400, 100/86400, 0, "full-drain-at-maxqi"⟩ := by
  have hifm : (mkCtx (0:ℝ) 0 0 100 0 0 0 86400 1 (1/2) 0 (1/2) 0).initialFluxMax = 100 / 86400 := by
    rw [mkCtx_ifm _ _ _ _ _ _ _ _ _ _ _ _ _ (by norm_num)]; norm_num
  have hnef : netEvaporationFlux (mkCtx (0:ℝ) 0 0 100 0 0 0 86400 1 (1/2) 0 (1/2) 0) = 0 := by
    rw [nef_eq, hifm]; simp only [mkCtx]; norm_num
  have hN : newStorage (mkCtx (0:ℝ) 0 0 100 0 0 0 86400 1 (1/2) 0 (1/2) 0) = 100 := by
    rw [newStorage_eq, hnef]; simp only [mkCtx]; norm_num
  have hS0 : sIndex (mkCtx (0:ℝ) 0 0 100 0 0 0 86400 1 (1/2) 0 (1/2) 0) (0 * (0 + 0)) = 0 := by
    rw [sIndex_eq]; simp [mkCtx]
  have hmx : maxQI (mkCtx (0:ℝ) 0 0 100 0 0 0 86400 1 (1/2) 0 (1/2) 0) (0 * (0 + 0)) = 100 / 86400 := by
    rw [maxQI_eq]; unfold drainOutflow; rw [hifm, hnef]; simp only [mkCtx]; norm_num
  have hS1 : sIndex (mkCtx (0:ℝ) 0 0 100 0 0 0 86400 1 (1/2) 0 (1/2) 0) (100 / 86400) = 50 / 86400 := by
    rw [sIndex_eq]; simp only [mkCtx]
    rw [if_neg (by norm_num), Real.rpow_one]; norm_num
  have hM0 : (rr (mkCtx (0:ℝ) 0 0 100 0 0 0 86400 1 (1/2) 0 (1/2) 0) (0 * (0 + 0))).massBalance = -100 := by
    rw [rr_massBalance _ _ (by show (0:ℝ) < 0.999; norm_num), hS0, hN]; simp [mkCtx]
  have hM1 : (rr (mkCtx (0:ℝ) 0 0 100 0 0 0 86400 1 (1/2) 0 (1/2) 0) (100 / 86400)).massBalance = 50 / 86400 := by
    rw [rr_massBalance _ _ (by show (0:ℝ) < 0.999; norm_num), hS1, hN]; simp only [mkCtx]; norm_num
  unfold calcOutflow
  simp only [runRouting_real, RealNum.isNaN_eq, Bool.or_self, Bool.false_eq_true, if_false, z0]
  rw [if_neg (by rw [hM0, mbl_eq]; norm_num), if_neg (by rw [hM0, mbl_eq]; norm_num), hmx, if_neg (by norm_num)]
  unfold solve
  simp only [runRouting_real, RealNum.gmax_eq, z0]
  rw [if_pos (by rw [hM1, mbl_eq]; norm_num), hifm, hnef]
  simp only [mkCtx]
  norm_num

/-- if the first halving trial is within the tolerance, FindRoot returns it through its tolerance test -/
theorem findRoot_first_halving_tol {f : ℝ → ℝ} {f' : Option (ℝ → ℝ)} {x0 lo hi tol conv : ℝ} {n : Nat}
    (h1 : f lo ≤ 0) (h2 : 0 ≤ f hi) (ht : |f (halvingX ⟨lo, f lo, hi, f hi⟩)| < tol) :
    ∃ r, findRoot f f' x0 lo hi tol conv (n + 1) = .ok r ∧ r.x = halvingX ⟨lo, f lo, hi, f hi⟩ ∧ r.exit = .tol := by
  rw [OW.Proofs.FindRoot.findRoot_eq h1 h2]
  obtain ⟨rest, hrest⟩ := OW.Proofs.FindRoot.trialXs_head f' x0 (f x0) ⟨lo, f lo, hi, f hi⟩
  refine ⟨_, rfl, ?_⟩
  unfold iterate
  simp only [hrest, trialLoop, trialStep, RealNum.abs_eq, if_pos ht]
  exact ⟨trivial, trivial⟩

/-- context of the converged-root example below -/
noncomputable abbrev cConv : Ctx ℝ := mkCtx (0:ℝ) 0 0 172800 0 0 0 86400 1 86400 0 86400 0

/-- the numbers of the converged-root example -/
theorem cConv_facts :
    cConv.initialFluxMax = 2 ∧ netEvaporationFlux cConv = 0 ∧ newStorage cConv = 172800 ∧
    maxQI cConv (0 * (0 + 0)) = 2 ∧
    (∀ q : ℝ, 0 < q → (rr cConv q).massBalance = q * 86400 + 86400 * q - 172800) ∧
    (rr cConv (0 * (0 + 0))).massBalance = -172800 := by
  have hifm : cConv.initialFluxMax = 2 := by
    rw [mkCtx_ifm _ _ _ _ _ _ _ _ _ _ _ _ _ (by norm_num)]; norm_num
  have hnef : netEvaporationFlux cConv = 0 := by
    rw [nef_eq, hifm]; simp only [mkCtx]; norm_num
  have hN : newStorage cConv = 172800 := by
    rw [newStorage_eq, hnef]; simp only [mkCtx]; norm_num
  have hmx : maxQI cConv (0 * (0 + 0)) = 2 := by
    rw [maxQI_eq]; unfold drainOutflow; rw [hifm, hnef]; simp only [mkCtx]; norm_num
  refine ⟨hifm, hnef, hN, hmx, ?_, ?_⟩
  · intro q hq
    have hS : sIndex cConv q = 86400 * q := by
      rw [sIndex_eq]; simp only [mkCtx]
      rw [if_neg (not_le.mpr hq), if_neg (by rintro (⟨_, h⟩ | ⟨h, _⟩) <;> linarith), Real.rpow_one]; ring
    rw [rr_massBalance _ _ (by show (0:ℝ) < 0.999; norm_num), hS, hN]; simp only [mkCtx]; ring
  · have hS0 : sIndex cConv (0 * (0 + 0)) = 0 := by
      rw [sIndex_eq]; simp [mkCtx]
    rw [rr_massBalance _ _ (by show (0:ℝ) < 0.999; norm_num), hS0, hN]; simp only [mkCtx]; norm_num

/-- non-vacuity of the `root` branch of `sq_calcOutflow` / `sq_calcOutflow_converged` (a CONVERGED root search): zero bias, `k = 86400`,
`m = 1`, Δt = 86400 s, 172800 m³ in the reach, no inflow, carried index flow 1/2. The residual at the carried index flow is −86400 m³,
so `calcOutflow` calls FindRoot on `[0, 2]`; its first halving trial `q = 1` has residual 0 and is returned through the tolerance
test; the call reports index flow 1 = outflow 1 m³/s and storage 86400 = k·1^m m³ with tag `root`, and the convergence hypothesis of
`sq_calcOutflow_converged` holds -/
example : calcOutflow (0:ℝ) 0 0 (1/2) 0 172800 0 0 0 86400 1 86400 0 86400 0 = .ok ⟨1, 1, 86400, "root"⟩ ∧
    (∀ fr, findRoot (massBalanceFn cConv) (some (slopeOfMassBalance cConv)) 0 0 (maxQI cConv 0)
        massBalanceLimit convergenceLimit maxIterations = .ok fr → fr.exit = .tol) := by
  obtain ⟨hifm, hnef, hN, hmx, hmb, hmb0⟩ := cConv_facts
  have e0 : (0:ℝ) * (0 + 0) = 0 := by ring
  have f1 : massBalanceFn cConv 0 ≤ 0 := by rw [massBalanceFn_real, ← e0, hmb0]; norm_num
  have f2 : 0 ≤ massBalanceFn cConv 2 := by rw [massBalanceFn_real, hmb 2 (by norm_num)]; norm_num
  have hh : halvingX (⟨0, massBalanceFn cConv 0, 2, massBalanceFn cConv 2⟩ : Bracket ℝ) = 1 := by
    unfold halvingX; norm_num
  have ht : |massBalanceFn cConv (halvingX ⟨0, massBalanceFn cConv 0, 2, massBalanceFn cConv 2⟩)| < massBalanceLimit := by
    rw [hh, massBalanceFn_real, hmb 1 (by norm_num), mbl_eq]; norm_num
  obtain ⟨fr, hfr, hx, hex⟩ := findRoot_first_halving_tol (f' := some (slopeOfMassBalance cConv)) (x0 := 0)
    (conv := convergenceLimit) (n := 19) f1 f2 ht
  rw [hh] at hx
  have hmx0 : maxQI cConv 0 = 2 := by rw [← e0]; exact hmx
  constructor
  · have hS1 : sIndex cConv 1 = 86400 := by
      rw [sIndex_eq]; simp only [mkCtx]
      rw [if_neg (by norm_num), if_neg (by rintro (⟨_, h⟩ | ⟨h, _⟩) <;> linarith), Real.rpow_one]; norm_num
    have hO1 : (rr cConv 1).outflow = 1 := by
      rw [rr_outflow, hS1, hN]; simp only [mkCtx]; norm_num
    unfold calcOutflow
    simp only [runRouting_real, RealNum.isNaN_eq, Bool.or_self, Bool.false_eq_true, if_false, z0]
    rw [if_neg (by rw [hmb0, mbl_eq]; norm_num), if_neg (by rw [hmb0, mbl_eq]; norm_num), hmx, if_neg (by norm_num)]
    unfold solve
    simp only [runRouting_real, RealNum.abs_eq, RealNum.isNaN_eq]
    rw [if_neg (by rw [hmb 2 (by norm_num), mbl_eq]; norm_num)]
    have hr : (decide ((1/2 : ℝ) ≤ 0 * (0 + 0)) || decide ((2:ℝ) ≤ 1/2)) = false := by
      simp only [Bool.or_eq_false_iff, decide_eq_false_iff_not]; constructor <;> norm_num
    simp only [hr, Bool.false_eq_true, if_false]
    rw [if_neg (by rw [hmb (1/2) (by norm_num), mbl_eq]; norm_num), e0]
    have hfr' : findRoot (massBalanceFn cConv) (some (slopeOfMassBalance cConv)) 0 0 2 massBalanceLimit convergenceLimit
        maxIterations = .ok fr := hfr
    simp only [hfr', List.any_eq_true, Bool.false_eq_true, and_false, exists_false, if_false]
    rw [hx, hO1, rr_sIndex, hS1]
  · intro fr' hfr'
    rw [hmx0] at hfr'
    have : findRoot (massBalanceFn cConv) (some (slopeOfMassBalance cConv)) 0 0 2 massBalanceLimit convergenceLimit
        (19 + 1) = .ok fr' := hfr'
    rw [hfr] at this
    cases this
    exact hex

/- FULL STATEMENT: on the `root` exit FindRoot always returns through its tolerance test, i.e.
   `|residual(q)| < massBalanceLimit` for the returned index flow, for all parameters of the region and all inputs.
   THIS IS FALSE for the code (exact arithmetic AND the real float code): `root_not_converged_counterexample` below.
   What the algorithm supports without further hypotheses is `root_exit_unconditional` / `root_residual_le_ends_zero_bias`;
   what is proved under a sufficient-budget hypothesis is: -/
/-- **root_converges_partial.** On the root-finder path the returned residual is below `massBalanceLimit` whenever interval
halving alone suffices within the 20 iterations: residual function non-decreasing and `L`-Lipschitz on `[minQI, maxQI]`
with `L·(maxQI − minQI)/2²⁰ < massBalanceLimit`.
The full statement (no Lipschitz/budget hypothesis) is FALSE: for `m < 1` the slope `k·m·q^(m−1)` of the residual is unbounded near
`q = 0`, and for small routing powers the halving + secant + Newton trials do not reach the root in 20 iterations
(`root_not_converged_counterexample`: m = 0.05, proved; on the real code unconverged steps appear for m ≲ 0.15, none found for
m ≥ 0.2 in 8·10⁴ random single steps). -/
theorem root_converges_partial (c : Ctx ℝ) (minQI mx L : ℝ) (hle : minQI ≤ mx)
    (h1 : (rr c minQI).massBalance ≤ 0) (h2 : 0 ≤ (rr c mx).massBalance)
    (hmono : MonotoneOn (massBalanceFn c) (Set.Icc minQI mx))
    (hlip : ∀ a ∈ Set.Icc minQI mx, ∀ b ∈ Set.Icc minQI mx, a ≤ b → massBalanceFn c b - massBalanceFn c a ≤ L * (b - a))
    (hbudget : L * (mx - minQI) / 2 ^ maxIterations < massBalanceLimit) {fr : Res ℝ}
    (hfr : findRoot (massBalanceFn c) (some (slopeOfMassBalance c)) minQI minQI mx massBalanceLimit convergenceLimit
      maxIterations = .ok fr) :
    |(rr c fr.x).massBalance| < massBalanceLimit := by
  have f1 : massBalanceFn c minQI ≤ 0 := by rw [massBalanceFn_real]; exact h1
  have f2 : 0 ≤ massBalanceFn c mx := by rw [massBalanceFn_real]; exact h2
  have hx0 : minQI ≤ minQI ∧ minQI ≤ mx := ⟨le_refl _, hle⟩
  have := C18.tolerance_reached hmono hlip (le_of_eq conv_eq) hle f1 f2 (by unfold maxIterations; norm_num) hbudget hfr
  rw [C18.result_delta_is_value hle f1 f2 hfr, massBalanceFn_real] at this
  exact this

/-- **root_exit_unconditional.** What the root search of `calcOutflow` guarantees for EVERY context `c` (any parameters, any
function shape — no monotonicity, no Lipschitz bound), given only the bracket `residual(minQI) ≤ 0 ≤ residual(maxQI)` under which
`calcOutflow` calls it: the returned index flow lies in `[minQI, maxQI]` and `delta` is its residual; the final bracket is
nested in the initial one with `residual(min) ≤ 0 ≤ residual(max)` (maintained by every trial kind: halving, secant, Newton);
the convergence-in-x exit is never taken (`convergenceLimit = 0`); the tolerance exit means `|residual| < massBalanceLimit`; and
if the 20 iterations run out, the final bracket is at most `(maxQI − minQI)/2²⁰` wide and the returned residual is no larger in
magnitude than the residual at either end of that final bracket. -/
theorem root_exit_unconditional (c : Ctx ℝ) (minQI mx : ℝ) (hle : minQI ≤ mx)
    (h1 : (rr c minQI).massBalance ≤ 0) (h2 : 0 ≤ (rr c mx).massBalance) {fr : Res ℝ}
    (hfr : findRoot (massBalanceFn c) (some (slopeOfMassBalance c)) minQI minQI mx massBalanceLimit convergenceLimit
      maxIterations = .ok fr) :
    (minQI ≤ fr.x ∧ fr.x ≤ mx) ∧ fr.delta = (rr c fr.x).massBalance ∧
    (minQI ≤ fr.b.minX ∧ fr.b.minX ≤ fr.b.maxX ∧ fr.b.maxX ≤ mx ∧
      (rr c fr.b.minX).massBalance ≤ 0 ∧ 0 ≤ (rr c fr.b.maxX).massBalance) ∧
    fr.exit ≠ .conv ∧
    (fr.exit = .tol → |(rr c fr.x).massBalance| < massBalanceLimit) ∧
    (fr.exit = .fuel → fr.b.maxX - fr.b.minX ≤ (mx - minQI) / 2 ^ 20 ∧
      |(rr c fr.x).massBalance| ≤ |(rr c fr.b.minX).massBalance| ∧
      |(rr c fr.x).massBalance| ≤ (rr c fr.b.maxX).massBalance) := by
  have f1 : massBalanceFn c minQI ≤ 0 := by rw [massBalanceFn_real]; exact h1
  have f2 : 0 ≤ massBalanceFn c mx := by rw [massBalanceFn_real]; exact h2
  have hx0 : minQI ≤ minQI ∧ minQI ≤ mx := ⟨le_refl _, hle⟩
  have hval := C18.result_delta_is_value hle f1 f2 hfr
  rw [massBalanceFn_real] at hval
  obtain ⟨b1, b2, b3, _, _, b6, b7⟩ := C18.bracket_inv hle f1 f2 hx0 hfr
  rw [massBalanceFn_real] at b6 b7
  refine ⟨C18.result_in_interval hle f1 f2 hx0 hfr, hval, ⟨b2, b1, b3, b6, b7⟩,
    C18.no_conv_exit (le_of_eq conv_eq) hle f1 f2 hfr, ?_, ?_⟩
  · intro he
    have := C18.tol_exit hle f1 f2 hfr he
    rwa [hval] at this
  · intro he
    have hw := C18.width_halves hle f1 f2 hfr he
    have hne : fr.exit ≠ .tol := by rw [he]; intro h; cases h
    obtain ⟨a, b⟩ := C18.delta_le_final_ends hle f1 f2 (by unfold maxIterations; norm_num) hfr hne
    rw [hval, massBalanceFn_real] at a b
    exact ⟨hw, a, b⟩

/-- the residual function is non-decreasing for zero inflow bias (`bias = 0`, `qlimit = 0`, `koffset = 0` as set by the prologue),
`k ≥ 0`, `0 ≤ m ≤ 1`, `Δt ≥ 0` -/
theorem massBalanceFn_mono_zero_bias (c : Ctx ℝ) (hb : c.bias = 0) (hq : c.qlimit = 0) (hko : c.koffset = 0)
    (hk : 0 ≤ c.routingConstant) (hm0 : 0 ≤ c.routingPower) (hm1 : c.routingPower ≤ 1) (hd : 0 ≤ c.duration) :
    Monotone (massBalanceFn c) := by
  have hcb : c.bias < 0.999 := by rw [hb]; norm_num
  have hS : ∀ q, sIndex c q = if q ≤ 0 then c.deadStorage else c.routingConstant * q ^ c.routingPower + c.deadStorage := by
    intro q
    rw [sIndex_eq, hq, hko]
    by_cases h0 : q ≤ 0
    · rw [if_pos h0, if_pos h0]
    · rw [if_neg h0, if_neg h0, if_neg]
      · ring
      · rintro (⟨_, h⟩ | ⟨h, _⟩)
        · exact h0 (le_of_lt h)
        · linarith
  intro a b hab
  rw [massBalanceFn_real, massBalanceFn_real, rr_massBalance c a hcb, rr_massBalance c b hcb, hS a, hS b, hb]
  have hlin : (a - 0 * (c.inflow + c.lateral)) * c.duration / (1 - 0) ≤ (b - 0 * (c.inflow + c.lateral)) * c.duration / (1 - 0) := by
    simp only [zero_mul, sub_zero, div_one]
    exact mul_le_mul_of_nonneg_right hab hd
  have hSab : (if a ≤ 0 then c.deadStorage else c.routingConstant * a ^ c.routingPower + c.deadStorage)
      ≤ (if b ≤ 0 then c.deadStorage else c.routingConstant * b ^ c.routingPower + c.deadStorage) := by
    by_cases ha : a ≤ 0
    · rw [if_pos ha]
      by_cases hb0 : b ≤ 0
      · rw [if_pos hb0]
      · rw [if_neg hb0]
        have : 0 ≤ c.routingConstant * b ^ c.routingPower :=
          mul_nonneg hk (Real.rpow_nonneg (le_of_lt (not_le.mp hb0)) _)
        linarith
    · have hb0 : ¬ b ≤ 0 := fun h => ha (le_trans hab h)
      rw [if_neg ha, if_neg hb0]
      have := Real.rpow_le_rpow (le_of_lt (not_le.mp ha)) hab hm0
      have := mul_le_mul_of_nonneg_left this hk
      linarith
  linarith

/-- **root_residual_le_ends_zero_bias.** Zero inflow bias, `k ≥ 0`, `0 ≤ m ≤ 1`: with NO hypothesis on slopes or iteration budget,
the residual returned by the root search is below `massBalanceLimit`, or at most as large in magnitude as the residual at the
better end of the INITIAL bracket `[minQI, maxQI]` (the search never makes things worse than its starting bracket). -/
theorem root_residual_le_ends_zero_bias (c : Ctx ℝ) (hb : c.bias = 0) (hq : c.qlimit = 0) (hko : c.koffset = 0)
    (hk : 0 ≤ c.routingConstant) (hm0 : 0 ≤ c.routingPower) (hm1 : c.routingPower ≤ 1) (hd : 0 ≤ c.duration)
    (minQI mx : ℝ) (hle : minQI ≤ mx)
    (h1 : (rr c minQI).massBalance ≤ 0) (h2 : 0 ≤ (rr c mx).massBalance) {fr : Res ℝ}
    (hfr : findRoot (massBalanceFn c) (some (slopeOfMassBalance c)) minQI minQI mx massBalanceLimit convergenceLimit
      maxIterations = .ok fr) :
    |(rr c fr.x).massBalance| ≤ min |(rr c minQI).massBalance| |(rr c mx).massBalance| ∨
      |(rr c fr.x).massBalance| < massBalanceLimit := by
  have f1 : massBalanceFn c minQI ≤ 0 := by rw [massBalanceFn_real]; exact h1
  have f2 : 0 ≤ massBalanceFn c mx := by rw [massBalanceFn_real]; exact h2
  have hx0 : minQI ≤ minQI ∧ minQI ≤ mx := ⟨le_refl _, hle⟩
  have hmono : MonotoneOn (massBalanceFn c) (Set.Icc minQI mx) :=
    (massBalanceFn_mono_zero_bias c hb hq hko hk hm0 hm1 hd).monotoneOn _
  have := C18.better_end hmono hle f1 f2 hx0 (by unfold maxIterations; norm_num) hfr
  rw [C18.result_delta_is_value hle f1 f2 hfr] at this
  simpa only [massBalanceFn_real] using this

/-- **root_not_converged_counterexample.** "20 iterations always suffice" is FALSE for the code. Zero inflow bias, routing
constant k = 10⁶, routing power m = 0.05 (inside the property's region k > 0, 0 < m ≤ 1), no evaporation, no dead storage,
Δt = 86400 s, 1000 m³ in the reach, no inflow, first timestep. In exact arithmetic the root search uses all 20 iterations without
ever moving its lower end (`OW.Proofs.FindRoot.stalled_findRoot` with the certificate `stall_cert`: every halving, secant and
Newton trial lands where the residual is ≥ 1000 m³) and `calcOutflow` reports the values of the index flow `q = 0`:
* the step leaves through the `root` exit with outflow 1000/86400 m³/s and storage 0 — the reach is emptied —
* the residual of the returned index flow is 1000 m³, a million times `massBalanceLimit`,
* the storage-discharge relation is not honoured in any sense the tolerance allows: every index flow whose outflow volume is
  within `massBalanceLimit` of the reported one has an index storage ≥ 999 m³, the reported storage is 0.
(The solution of the step's equation is q ≈ 10⁻⁶⁰ m³/s: practically all 1000 m³ should stay.) The real code returns the same
numbers bit for bit (outflow 0.011574074074074073, storage 0; corpus case `C11:StorageRouting` of the K family,
known finding KF-C11-StorageRouting-unconverged-small-power). -/
theorem root_not_converged_counterexample :
    calcOutflow (0:ℝ) 0 0 0 0 1000 0 0 0 86400 0.05 1000000 0 1000000 0 = .ok ⟨0, 1000 / 86400, 0, "root"⟩ ∧
    |(rr cStall 0).massBalance| = 1000 ∧ (massBalanceLimit : ℝ) < 1000 ∧
    (∀ q : ℝ, |q - 1000 / 86400| * 86400 ≤ massBalanceLimit → 999 ≤ sIndex cStall q) := by
  refine ⟨calcOutflow_stall 0, ?_, by rw [mbl_eq]; norm_num, ?_⟩
  · rw [← massBalanceFn_real, fStall_zero]; norm_num
  · intro q hq
    rw [mbl_eq] at hq
    have h1 : |q - 1000 / 86400| ≤ 1 / 1000 / 86400 := by
      rw [le_div_iff₀ (by norm_num)]; exact hq
    obtain ⟨hlo, hhi⟩ := abs_le.mp h1
    have hq500 : (1:ℝ) / 500 ≤ q := by
      have : (1:ℝ) / 500 ≤ 1000 / 86400 - 1 / 1000 / 86400 := by norm_num
      linarith
    have hf := fStall_ge_of_ge q hq500
    have hqpos : 0 < q := by linarith
    rw [fStall_pos q hqpos, ← sIndex_stall_pos q hqpos] at hf
    have : 86400 * q ≤ 1000 + 1 / 1000 := by
      have : q ≤ 1000 / 86400 + 1 / 1000 / 86400 := by linarith
      calc 86400 * q ≤ 86400 * (1000 / 86400 + 1 / 1000 / 86400) := by nlinarith
        _ = 1000 + 1 / 1000 := by norm_num
    linarith

/-- the same on the whole kernel: a one-step run of the model from 1000 m³ reports outflow 1000/86400 and storage 0 -/
theorem run_not_converged_counterexample :
    ((run (0:ℝ) 1000000 0.05 0 0 86400 1000 [(0, 0, 0, 0)]).2.map fun o => (o.outflow, o.storage, o.tag))
      = [(1000 / 86400, 0, "root")] := by
  unfold run
  have hsu : setup (0:ℝ) 1000000 0.05 86400 = ⟨0, 0.05, 1000000, 0, 0⟩ :=
    setup_zero_bias 0 1000000 0.05 86400 (by norm_num) (by norm_num)
  rw [hsu]
  simp only [scan, step]
  have e : ((0:ℝ) - 0) / 86400 = 0 := by norm_num
  rw [e, z0, calcOutflow_stall 0]
  rfl

/-- non-vacuity of `root_exit_unconditional` / `root_residual_le_ends_zero_bias`, and tightness of the latter: on the context of
`root_not_converged_counterexample` the hypotheses hold (bracket `[0, 1000/86400]`, residual −1000 at the lower end), the search
ends by exhausting its iterations, and the returned residual EQUALS the residual at the better end of the initial bracket -/
example : ∃ fr, findRoot (massBalanceFn cStall) (some (slopeOfMassBalance cStall)) 0 0 (1000 / 86400) massBalanceLimit
      convergenceLimit maxIterations = .ok fr ∧ fr.exit = .fuel ∧
      |(rr cStall fr.x).massBalance| = min |(rr cStall 0).massBalance| |(rr cStall (1000 / 86400)).massBalance| := by
  obtain ⟨fr, hfr, hexit, hx, _⟩ := findRoot_stall
  refine ⟨fr, hfr, hexit, ?_⟩
  have h0 : (rr cStall 0).massBalance = -1000 := by rw [← massBalanceFn_real]; exact fStall_zero
  have h1 : (1000:ℝ) ≤ (rr cStall (1000 / 86400)).massBalance := by
    rw [← massBalanceFn_real]; exact fStall_ge_of_ge _ (by norm_num)
  rw [hx, h0, abs_neg, abs_of_pos (by norm_num : (0:ℝ) < 1000), abs_of_nonneg (by linarith), min_eq_left h1]

example : (rr cStall 0).massBalance ≤ 0 ∧ 0 ≤ (rr cStall (1000 / 86400)).massBalance ∧
    cStall.bias = 0 ∧ cStall.qlimit = 0 ∧ cStall.koffset = 0 ∧ 0 ≤ cStall.routingConstant ∧
    0 ≤ cStall.routingPower ∧ cStall.routingPower ≤ 1 ∧ 0 ≤ cStall.duration := by
  have h0 : (rr cStall 0).massBalance = -1000 := by rw [← massBalanceFn_real]; exact fStall_zero
  have h1 : (1000:ℝ) ≤ (rr cStall (1000 / 86400)).massBalance := by
    rw [← massBalanceFn_real]; exact fStall_ge_of_ge _ (by norm_num)
  refine ⟨by rw [h0]; norm_num, by linarith, rfl, rfl, rfl, ?_, ?_, ?_, ?_⟩
  · show (0:ℝ) ≤ 1000000; norm_num
  · show (0:ℝ) ≤ 0.05; norm_num
  · show (0.05:ℝ) ≤ 1; norm_num
  · show (0:ℝ) ≤ 86400; norm_num

/-! ### the whole run: the balance closes at EVERY timestep -/

/-- what must hold between the storage before a step, the step's inputs and its reported outputs. Last clause: on a `root` step
the balance error is bounded by the residual `δ` that FindRoot returned for this step's context (`err ≤ max 0 δ`; the search is a
function of the storage before the step, the step's inputs and the parameters only), `δ` being the residual at the returned index
flow, never through the convergence-in-x exit, and `err < massBalanceLimit` whenever FindRoot returned through its tolerance test. -/
def StepOK (su : Setup ℝ) (k area dead dt : ℝ) (prev : ℝ) (i : ℝ × ℝ × ℝ × ℝ) (o : Out ℝ) : Prop :=
  let c := mkCtx i.1 i.2.1 su.bias prev ((i.2.2.2 - i.2.2.1) / dt) area dead dt su.x k su.qlimit su.klimit su.koffset
  let err := o.storage - (prev + (i.1 + i.2.1 - netEvaporationFlux c - o.outflow) * dt)
  0 ≤ o.outflow ∧ 0 ≤ o.storage ∧ 0 ≤ err ∧ (err < massBalanceLimit ∨ o.tag = "root") ∧
    (o.tag = "zero-at-minqi" ∨ o.tag = "zero-maxqi-le-minqi" ∨ o.tag = "full-drain-at-maxqi" → err = 0) ∧
    (o.tag = "root" → ∃ fr, findRoot (massBalanceFn c) (some (slopeOfMassBalance c)) (su.bias * (i.1 + i.2.1))
        (su.bias * (i.1 + i.2.1)) (maxQI c (su.bias * (i.1 + i.2.1))) massBalanceLimit convergenceLimit maxIterations = .ok fr ∧
      fr.delta = (rr c fr.x).massBalance ∧ err ≤ max 0 fr.delta ∧ fr.exit ≠ .conv ∧
      (fr.exit = .tol → err < massBalanceLimit))

def Chain (P : ℝ → ℝ × ℝ × ℝ × ℝ → Out ℝ → Prop) : ℝ → List (ℝ × ℝ × ℝ × ℝ) → List (Out ℝ) → Prop
  | _, [], [] => True
  | s, i :: is, o :: os => P s i o ∧ Chain P o.storage is os
  | _, _, _ => False

/-- the induction behind `run_balance`: from any state with non-negative storage every further step completes and satisfies
`StepOK` (one `calcOutflow_balance` + `calcOutflow_nonneg` per element of the series) -/
theorem scan_chain (su : Setup ℝ) (k area dead dt : ℝ) (hdt : 0 < dt) (hb : su.bias < 0.999)
    (hS : ∀ (i : ℝ × ℝ × ℝ × ℝ) (prev q : ℝ),
      0 ≤ sIndex (mkCtx i.1 i.2.1 su.bias prev ((i.2.2.2 - i.2.2.1) / dt) area dead dt su.x k su.qlimit su.klimit su.koffset) q) :
    ∀ (xs : List (ℝ × ℝ × ℝ × ℝ)) (st : St ℝ), 0 ≤ st.storage → (∀ i ∈ xs, 0 ≤ i.2.1) →
      (∃ fin, (scan (step su k area dead dt) (.ok st) xs).1 = .ok fin) ∧
      Chain (StepOK su k area dead dt) st.storage xs (scan (step su k area dead dt) (.ok st) xs).2 := by
  intro xs
  induction xs with
  | nil => intro st _ _; exact ⟨⟨st, rfl⟩, trivial⟩
  | cons i xs ih =>
    intro st hst hlat
    obtain ⟨inflow, lateral, rain, evap⟩ := i
    have hl : 0 ≤ lateral := hlat _ (List.mem_cons_self ..)
    obtain ⟨r, hr⟩ := calcOutflow_ok inflow lateral su.bias st.qi st.outflow st.storage ((evap - rain) / dt) area dead dt
      su.x k su.qlimit su.klimit su.koffset
    have hbal := calcOutflow_balance inflow lateral su.bias st.qi st.outflow st.storage ((evap - rain) / dt) area dead dt
      su.x k su.qlimit su.klimit su.koffset hdt hst hl hb r hr
    have hnn := calcOutflow_nonneg inflow lateral su.bias st.qi st.outflow st.storage ((evap - rain) / dt) area dead dt
      su.x k su.qlimit su.klimit su.koffset hdt r (hS (inflow, lateral, rain, evap) st.storage) hr
    simp only at hbal
    have hstep : step su k area dead dt (.ok st) (inflow, lateral, rain, evap) =
        (.ok ⟨r.qi, r.outflow, r.storage, inflow⟩, ⟨r.outflow, r.storage, r.tag⟩) := by
      unfold step
      simp only [hr]
    simp only [scan, hstep]
    obtain ⟨hfin, hchain⟩ := ih ⟨r.qi, r.outflow, r.storage, inflow⟩ hnn.2 (fun j hj => hlat j (List.mem_cons_of_mem _ hj))
    refine ⟨hfin, ⟨?_, hchain⟩⟩
    unfold StepOK
    simp only
    rw [balanceErr_eq] at hbal
    obtain ⟨e0, ecase⟩ := hbal
    refine ⟨hnn.1, hnn.2, e0, ?_, ?_, ?_⟩
    rotate_left 2
    · intro htag
      rcases ecase with ⟨ht, _⟩ | ⟨ht, _⟩ | ⟨_, fr, hfr, _, hval, hle, hnc, htol⟩
      · rcases ht with h' | h' | h' <;> rw [htag] at h' <;> exact absurd h' (by decide)
      · rcases ht with h' | h' | h' <;> rw [htag] at h' <;> exact absurd h' (by decide)
      · exact ⟨fr, hfr, hval, hle, hnc, htol⟩
    · rcases ecase with ⟨_, h0⟩ | ⟨_, hlt⟩ | ⟨hroot, _⟩
      · left
        have : r.storage - (st.storage + (inflow + lateral - netEvaporationFlux (mkCtx inflow lateral su.bias st.storage
            ((evap - rain) / dt) area dead dt su.x k su.qlimit su.klimit su.koffset) - r.outflow) * dt) = 0 := h0
        rw [this]; exact mbl_pos
      · left; exact hlt
      · right; exact hroot
    · intro htag
      rcases ecase with ⟨_, h0⟩ | ⟨ht, _⟩ | ⟨hroot, _⟩
      · exact h0
      · rcases htag with h | h | h <;> rcases ht with h' | h' | h' <;> rw [h] at h' <;> exact absurd h' (by decide)
      · rcases htag with h | h | h <;> rw [h] at hroot <;> exact absurd hroot (by decide)

/-- **run_balance.** For every parameter set of the region (`bias ≥ 0` and `< 0.999` after the prologue, `k > 0`, `0 < m ≤ 1`,
`dead ≥ 0`, `Δt > 0`), every initial storage `s ≥ 0` and every series with non-negative lateral inflow (any inflow, rain and
evaporation): the run completes (no panic), and AT EVERY TIMESTEP the reported outflow and storage are non-negative and
`storage_t − (storage_{t−1} + (inflow + lateral − netEvaporation − outflow)·Δt)` is `≥ 0`, is `0` on the three exits without
a solver, and `< massBalanceLimit` except possibly on root-finder steps whose 20 iterations ran out; on EVERY root-finder step
`StepOK` carries `err ≤ max 0 δ` for the residual `δ` FindRoot returned for that step (`δ` = residual at the returned index flow,
convergence-in-x exit never taken, tolerance exit ⇒ `err < massBalanceLimit`). A run with such an unconverged root step exists:
`run_not_converged_counterexample` (there `δ = −1000 m³`, so `err = 0`: the balance closes, the S–Q relation does not). -/
theorem run_balance (bias k x area dead dt s : ℝ) (hb0 : 0 ≤ bias) (hb1 : bias < 0.999) (hk : 0 < k) (hx0 : 0 < x) (hx1 : x ≤ 1)
    (hdead : 0 ≤ dead) (hdt : 0 < dt) (hs : 0 ≤ s) (xs : List (ℝ × ℝ × ℝ × ℝ)) (hlat : ∀ i ∈ xs, 0 ≤ i.2.1) :
    (∃ fin, (run bias k x area dead dt s xs).1 = .ok fin) ∧
      Chain (StepOK (setup bias k x dt) k area dead dt) s xs (run bias k x area dead dt s xs).2 := by
  obtain ⟨f1, f2, f3, f4, f5, _, f7⟩ := setup_facts bias k x dt hb0 hk hx0 hx1 hdt
  unfold run
  have hS : ∀ (i : ℝ × ℝ × ℝ × ℝ) (prev q : ℝ),
      0 ≤ sIndex (mkCtx i.1 i.2.1 (setup bias k x dt).bias prev ((i.2.2.2 - i.2.2.1) / dt) area dead dt (setup bias k x dt).x k
        (setup bias k x dt).qlimit (setup bias k x dt).klimit (setup bias k x dt).koffset) q := by
    intro i prev q
    have := sIndex_nonneg (mkCtx i.1 i.2.1 (setup bias k x dt).bias prev ((i.2.2.2 - i.2.2.1) / dt) area dead dt
      (setup bias k x dt).x k (setup bias k x dt).qlimit (setup bias k x dt).klimit (setup bias k x dt).koffset)
      f1 (le_of_lt hk) f2 f3 (fun _ => f5) (fun h => absurd f4 (not_le.mpr h)) q
    exact le_trans hdead this
  have := scan_chain (setup bias k x dt) k area dead dt hdt (f7 hb1) hS xs ⟨0.0, 0.0, s, 0.0⟩ hs hlat
  exact this

/-- non-vacuity, and the witness of the repaired defect D16: dead storage 1000 m³, empty start, inflow 0.001 m³/s, Δt = 86400 s,
`k = 5000`, `m = 0.8`, zero bias. The hypotheses of `calcOutflow_balance` hold, the call takes the `zero-at-minqi` exit and
reports the balance storage 86.4 m³ (the unrepaired code reported the dead storage, 1000 m³). -/
example : (0 : ℝ) < 86400 ∧ (0 : ℝ) ≤ 0 ∧ (0 : ℝ) < 0.999 ∧
    calcOutflow (1/1000 : ℝ) 0 0 0 0 0 0 0 1000 86400 0.8 5000 0 5000 0 = .ok ⟨0, 0, 432/5, "zero-at-minqi"⟩ := by
  refine ⟨by norm_num, le_refl _, by norm_num, ?_⟩
  have hS : sIndex (mkCtx (1/1000 : ℝ) 0 0 0 0 0 1000 86400 0.8 5000 0 5000 0) (0 * (1/1000 + 0)) = 1000 := by
    rw [sIndex_eq]; simp [mkCtx]
  have hN : newStorage (mkCtx (1/1000 : ℝ) 0 0 0 0 0 1000 86400 0.8 5000 0 5000 0) = 432/5 := by
    rw [newStorage_eq, nef_eq]
    simp only [mkCtx, RealNum.gmax_eq, z0]
    norm_num
  have hM : (rr (mkCtx (1/1000 : ℝ) 0 0 0 0 0 1000 86400 0.8 5000 0 5000 0) (0 * (1/1000 + 0))).massBalance = 1000 - 432/5 := by
    rw [rr_massBalance _ _ (by show (0:ℝ) < 0.999; norm_num), hS, hN]
    simp [mkCtx]
  unfold calcOutflow
  simp only [runRouting_real, RealNum.isNaN_eq, Bool.or_self, Bool.false_eq_true, if_false, z0]
  rw [if_pos (by rw [hM, mbl_eq]; norm_num), hN]
  norm_num

end StorageRouting

end OW.Props.C11
