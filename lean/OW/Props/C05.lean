import OW.Sim.Interleave
/-!
C05 — concurrent cell and model execution is race-free and schedule-independent.

Generic part (this section): theorems about `OW.Sim.Interleave` (atomic steps with declared footprints over a shared
memory, tasks = lists of steps, all interleavings). Core Lean only.

TRUSTED, not proved here (Go memory model): a data-race-free Go program behaves like some interleaving of atomic
steps of its goroutines; a channel receive happens after the matching send; the Go scheduler.
-/
namespace OW.Props.C05
open OW.Sim.Interleave

variable {Addr Val : Type}

/-! ### T1 — two steps with non-conflicting footprints commute -/

/-- **T1 `steps_commute`.** If neither step writes an address the other reads or writes, the two orders of
execution give the same memory (for every initial memory). -/
theorem steps_commute [DecidableEq Addr] (s t : Step Addr Val) (h : NoConflict s t) (m : Mem Addr Val) :
    s.run (t.run m) = t.run (s.run m) := by
  funext a
  by_cases hs : a ∈ s.writes
  · have ht : a ∉ t.writes := fun h' => h.1 a hs (by simp [Step.foot, h'])
    rw [t.frame _ a ht]
    apply s.loc
    · intro b hb
      apply t.frame
      intro hbw
      exact h.2 b hbw hb
    · exact hs
  · by_cases ht : a ∈ t.writes
    · rw [s.frame _ a hs]
      symm
      apply t.loc
      · intro b hb
        apply s.frame
        intro hbw
        exact h.1 b hbw hb
      · exact ht
    · rw [s.frame _ a hs, t.frame _ a ht, t.frame _ a ht, s.frame _ a hs]

/-- a step that conflicts with none of the steps in `pre` can be moved in front of all of them -/
theorem commute_past [DecidableEq Addr] (s : Step Addr Val) :
    ∀ (pre : List (Step Addr Val)), (∀ t, t ∈ pre → NoConflict s t) → ∀ m : Mem Addr Val,
      runList pre (s.run m) = s.run (runList pre m)
  | [], _, _ => rfl
  | t :: pre, h, m => by
    simp only [runList_cons]
    rw [← steps_commute s t (h t List.mem_cons_self) m]
    exact commute_past s pre (fun u hu => h u (List.mem_cons_of_mem _ hu)) (t.run m)

/-! ### T2 — every interleaving of pairwise disjoint tasks equals the sequential run -/

/-- the hypothesis of T2: for any two DIFFERENT tasks, no step of the one writes an address that a step of the other
reads or writes -/
def TasksDisjoint (tasks : List (Task Addr Val)) : Prop :=
  ∀ (i j : Nat) (ti tj : Task Addr Val), tasks[i]? = some ti → tasks[j]? = some tj → i ≠ j →
    ∀ s, s ∈ ti → ∀ t, t ∈ tj → WritesAvoid s t

theorem TasksDisjoint.noConflict {tasks : List (Task Addr Val)} (hd : TasksDisjoint tasks) {i j : Nat}
    {ti tj : Task Addr Val} (hi : tasks[i]? = some ti) (hj : tasks[j]? = some tj) (hij : i ≠ j)
    {s t : Step Addr Val} (hs : s ∈ ti) (ht : t ∈ tj) : NoConflict s t :=
  ⟨hd i j ti tj hi hj hij s hs t ht, hd j i tj ti hj hi (Ne.symm hij) t ht s hs⟩

theorem split_at {α : Type} : ∀ (l : List α) (i : Nat) (x : α), l[i]? = some x →
    ∃ pre post, l = pre ++ x :: post ∧ pre.length = i ∧ ∀ y, l.set i y = pre ++ y :: post
  | [], i, x, h => by simp at h
  | a :: l, 0, x, h => by
    simp at h
    subst h
    exact ⟨[], l, rfl, rfl, fun y => rfl⟩
  | a :: l, i + 1, x, h => by
    have h' : l[i]? = some x := by simpa using h
    obtain ⟨pre, post, e, hl, hs⟩ := split_at l i x h'
    refine ⟨a :: pre, post, by simp [e], by simp [hl], fun y => ?_⟩
    simp [hs y]

theorem flatten_eq_nil_of_all_nil {α : Type} : ∀ (l : List (List α)), (∀ t, t ∈ l → t = []) → l.flatten = []
  | [], _ => rfl
  | t :: l, h => by
    have ht : t = [] := h t List.mem_cons_self
    subst ht
    simpa using flatten_eq_nil_of_all_nil l (fun u hu => h u (List.mem_cons_of_mem _ hu))

/-- after task `i` has executed its head, what remains is still pairwise disjoint -/
theorem TasksDisjoint.set {tasks : List (Task Addr Val)} (hd : TasksDisjoint tasks) {i : Nat} {s : Step Addr Val}
    {rest : Task Addr Val} (hi : tasks[i]? = some (s :: rest)) : TasksDisjoint (tasks.set i rest) := by
  have hlen : i < tasks.length := by
    rcases List.getElem?_eq_some_iff.mp hi with ⟨h, _⟩
    exact h
  have key : ∀ (a : Nat) (ta : Task Addr Val), (tasks.set i rest)[a]? = some ta →
      ∃ ta' : Task Addr Val, tasks[a]? = some ta' ∧ ∀ u, u ∈ ta → u ∈ ta' := by
    intro a ta h
    by_cases ha : i = a
    · subst ha
      rw [List.getElem?_set_self hlen] at h
      cases h
      exact ⟨s :: rest, hi, fun u hu => List.mem_cons_of_mem _ hu⟩
    · rw [List.getElem?_set_ne ha] at h
      exact ⟨ta, h, fun u hu => hu⟩
  intro a b ta tb ha hb hab u hu v hv
  obtain ⟨ta', ha', sa⟩ := key a ta ha
  obtain ⟨tb', hb', sb⟩ := key b tb hb
  exact hd a b ta' tb' ha' hb' hab u (sa u hu) v (sb v hv)

/-- **T2 `disjoint_interleaving` (final memory).** If the tasks are pairwise disjoint (no task writes what another
task reads or writes), then EVERY interleaving of their steps — every schedule that preserves each task's own
order — ends in exactly the memory obtained by running the tasks one after the other in index order. -/
theorem disjoint_interleaving [DecidableEq Addr] (tasks : List (Task Addr Val)) (hd : TasksDisjoint tasks) (sched : Sched Addr Val)
    (hi : Interleaving tasks sched) (m : Mem Addr Val) : runSched sched m = seqRun tasks m := by
  induction hi generalizing m with
  | done h => simp [seqRun, flatten_eq_nil_of_all_nil _ h]
  | @step tasks sched i s rest hget _ ih =>
    rw [runSched_cons, ih (hd.set hget)]
    obtain ⟨pre, post, e, hl, hs⟩ := split_at tasks i (s :: rest) hget
    have hpre : ∀ t, t ∈ pre.flatten → NoConflict s t := by
      intro t ht
      obtain ⟨tj, htj, htt⟩ := List.mem_flatten.mp ht
      obtain ⟨j, hj⟩ := List.mem_iff_getElem?.mp htj
      have hjlt : j < pre.length := by
        rcases List.getElem?_eq_some_iff.mp hj with ⟨h, _⟩
        exact h
      have hj' : tasks[j]? = some tj := by
        rw [e, List.getElem?_append_left hjlt]; exact hj
      exact hd.noConflict hget hj' (by omega) List.mem_cons_self htt
    rw [hs rest]
    simp only [seqRun, e, List.flatten_append, List.flatten_cons, runList_append, runList_cons,
      List.cons_append]
    rw [commute_past s pre.flatten hpre m]

/-! #### per-task view: every step sees, at its footprint, exactly what its own task produced so far -/

/-- running the same steps from two memories that agree on a region `A` closed under the steps' footprints gives
memories that agree on `A` -/
theorem runList_agree [DecidableEq Addr] (A : Addr → Prop) :
    ∀ (l : List (Step Addr Val)), (∀ u, u ∈ l → ∀ a, a ∈ u.foot → A a) → ∀ (m m' : Mem Addr Val),
      (∀ a, A a → m a = m' a) → ∀ a, A a → runList l m a = runList l m' a
  | [], _, _, _, h, a, ha => h a ha
  | u :: l, hl, m, m', h, a, ha => by
    simp only [runList_cons]
    apply runList_agree A l (fun v hv => hl v (List.mem_cons_of_mem _ hv)) (u.run m) (u.run m') _ a ha
    intro b hb
    by_cases hw : b ∈ u.writes
    · exact u.loc m m' (fun c hc => h c (hl u List.mem_cons_self c hc)) b hw
    · rw [u.frame m b hw, u.frame m' b hw]; exact h b hb

theorem mem_proj {i : Nat} {sched : Sched Addr Val} {u : Step Addr Val} (h : u ∈ proj i sched) :
    ∃ x, x ∈ sched ∧ x.1 = i ∧ x.2 = u := by
  unfold proj at h
  obtain ⟨x, hx, rfl⟩ := List.mem_map.mp h
  obtain ⟨hx1, hx2⟩ := List.mem_filter.mp hx
  exact ⟨x, hx1, by simpa using hx2, rfl⟩

/-- on a region `A` that contains the footprints of task `i`'s steps and that no other task's step writes, a
schedule acts exactly like task `i`'s own steps alone -/
theorem own_view [DecidableEq Addr] (i : Nat) (A : Addr → Prop) :
    ∀ (sched : Sched Addr Val), (∀ x, x ∈ sched → x.1 = i → ∀ a, a ∈ x.2.foot → A a) →
      (∀ x, x ∈ sched → x.1 ≠ i → ∀ a, a ∈ x.2.writes → ¬ A a) → ∀ (m : Mem Addr Val) a, A a →
        runSched sched m a = runList (proj i sched) m a
  | [], _, _, _, _, _ => rfl
  | x :: sched, hown, hoth, m, a, ha => by
    have hown' : ∀ y, y ∈ sched → y.1 = i → ∀ a, a ∈ y.2.foot → A a :=
      fun y hy => hown y (List.mem_cons_of_mem _ hy)
    have hoth' : ∀ y, y ∈ sched → y.1 ≠ i → ∀ a, a ∈ y.2.writes → ¬ A a :=
      fun y hy => hoth y (List.mem_cons_of_mem _ hy)
    have ih := own_view i A sched hown' hoth'
    by_cases hx : x.1 = i
    · have : proj i (x :: sched) = x.2 :: proj i sched := by simp [proj, hx]
      rw [this, runSched_cons, runList_cons]
      exact ih (x.2.run m) a ha
    · have : proj i (x :: sched) = proj i sched := by simp [proj, hx]
      rw [this, runSched_cons, ih (x.2.run m) a ha]
      apply runList_agree A (proj i sched) _ (x.2.run m) m _ a ha
      · intro u hu b hb
        obtain ⟨y, hy, hy1, hy2⟩ := mem_proj hu
        subst hy2
        exact hown' y hy hy1 b hb
      · intro b hb
        apply x.2.frame
        intro hw
        exact hoth x List.mem_cons_self hx b hw hb

/-- every scheduled step belongs to the task it is tagged with -/
theorem mem_of_interleaving {tasks : List (Task Addr Val)} {sched : Sched Addr Val} (hi : Interleaving tasks sched) :
    ∀ j t, (j, t) ∈ sched → ∃ tj, tasks[j]? = some tj ∧ t ∈ tj := by
  induction hi with
  | done _ => intro j t h; simp at h
  | @step tasks sched i s rest hget _ ih =>
    intro j t h
    have hlen : i < tasks.length := by
      rcases List.getElem?_eq_some_iff.mp hget with ⟨h, _⟩
      exact h
    rcases List.mem_cons.mp h with h | h
    · cases h
      exact ⟨s :: rest, hget, List.mem_cons_self⟩
    · obtain ⟨tj, h1, h2⟩ := ih j t h
      by_cases hij : i = j
      · subst hij
        rw [List.getElem?_set_self hlen] at h1
        cases h1
        exact ⟨s :: rest, hget, List.mem_cons_of_mem _ h2⟩
      · rw [List.getElem?_set_ne hij] at h1
        exact ⟨tj, h1, h2⟩

/-- the projection of an interleaving on task `i` is task `i` -/
theorem proj_interleaving {tasks : List (Task Addr Val)} {sched : Sched Addr Val} (hi : Interleaving tasks sched)
    (i : Nat) : proj i sched = (tasks[i]?).getD [] := by
  induction hi with
  | @done tasks h =>
    cases hg : tasks[i]? with
    | none => rfl
    | some t =>
      have : t = [] := h t (List.mem_of_getElem? hg)
      simp [proj, this]
  | @step tasks sched k s rest hget _ ih =>
    have hlen : k < tasks.length := by
      rcases List.getElem?_eq_some_iff.mp hget with ⟨h, _⟩
      exact h
    by_cases hk : k = i
    · subst hk
      have : proj k ((k, s) :: sched) = s :: proj k sched := by simp [proj]
      rw [this, ih, List.getElem?_set_self hlen, hget]
      rfl
    · have : proj i ((k, s) :: sched) = proj i sched := by simp [proj, hk]
      rw [this, ih, List.getElem?_set_ne hk]

/-- **T2 `disjoint_interleaving` (per-task values).** Under the same hypothesis, cut ANY interleaving just before
a step `s` of task `i`: at every address in `s`'s footprint the memory holds exactly what task `i`'s own earlier
steps, run alone from the initial memory, leave there. The other tasks and the schedule do not matter, so every
step reads the same values — and hence computes the same results — in every interleaving, in particular in the
sequential one. -/
theorem disjoint_interleaving_view [DecidableEq Addr] (tasks : List (Task Addr Val)) (hd : TasksDisjoint tasks)
    (sched pre post : Sched Addr Val) (i : Nat) (s : Step Addr Val) (hi : Interleaving tasks sched)
    (hs : sched = pre ++ (i, s) :: post) (m : Mem Addr Val) :
    ∀ a, a ∈ s.foot → runSched pre m a = runList (proj i pre) m a := by
  intro a ha
  have hmem := mem_of_interleaving hi
  have hsi : (i, s) ∈ sched := by rw [hs]; simp
  obtain ⟨ti, hti, hsti⟩ := hmem i s hsi
  -- region: everything task i may touch
  let A : Addr → Prop := fun b => ∃ u, u ∈ ti ∧ b ∈ u.foot
  have hpre : ∀ x, x ∈ pre → x ∈ sched := fun x hx => by rw [hs]; exact List.mem_append_left _ hx
  apply own_view i A pre _ _ m a ⟨s, hsti, ha⟩
  · intro x hx hxi b hb
    obtain ⟨tj, h1, h2⟩ := hmem x.1 x.2 (hpre x hx)
    rw [hxi, hti] at h1
    cases h1
    exact ⟨x.2, h2, hb⟩
  · intro x hx hxi b hb hA
    obtain ⟨u, hu, hbu⟩ := hA
    obtain ⟨tj, h1, h2⟩ := hmem x.1 x.2 (hpre x hx)
    exact (hd.noConflict h1 hti hxi h2 hu).1 b hb hbu

/-- Same cut in two interleavings of the same disjoint tasks (e.g. a concurrent one and the sequential one): the
`k`-th step of task `i` finds the same values at its footprint in both. -/
theorem same_view_in_all_interleavings [DecidableEq Addr] (tasks : List (Task Addr Val)) (hd : TasksDisjoint tasks)
    (sched pre post sched' pre' post' : Sched Addr Val) (i : Nat) (s : Step Addr Val)
    (hi : Interleaving tasks sched) (hi' : Interleaving tasks sched')
    (hs : sched = pre ++ (i, s) :: post) (hs' : sched' = pre' ++ (i, s) :: post')
    (hk : (proj i pre).length = (proj i pre').length) (m : Mem Addr Val) :
    ∀ a, a ∈ s.foot → runSched pre m a = runSched pre' m a := by
  intro a ha
  rw [disjoint_interleaving_view tasks hd sched pre post i s hi hs m a ha,
    disjoint_interleaving_view tasks hd sched' pre' post' i s hi' hs' m a ha]
  -- both prefixes project to the same initial segment of task i
  have p := proj_interleaving hi i
  have p' := proj_interleaving hi' i
  have e : ∀ (l₁ l₂ : Sched Addr Val), proj i (l₁ ++ l₂) = proj i l₁ ++ proj i l₂ := by
    intro l₁ l₂; simp [proj, List.filter_append]
  rw [hs, e] at p
  rw [hs', e] at p'
  have : proj i pre = proj i pre' := by
    have h := p.trans p'.symm
    exact List.append_inj_left h hk
  rw [this]

/-- the sequential schedule is one of the interleavings (so the theorems above compare every concurrent schedule
with something that can actually happen, e.g. under GOMAXPROCS=1 with run-to-completion) -/
theorem seqSched_interleaving : ∀ (ts : List (Task Addr Val)) (k : Nat),
    Interleaving (List.replicate k [] ++ ts) (seqSched k ts)
  | [], k => by
    simp only [seqSched, List.append_nil]
    exact Interleaving.done (fun t ht => (List.mem_replicate.mp ht).2)
  | t :: ts, k => by
    induction t with
    | nil =>
      have h := seqSched_interleaving ts (k + 1)
      have e : List.replicate (k + 1) ([] : Task Addr Val) ++ ts = List.replicate k [] ++ [] :: ts := by
        rw [List.replicate_succ']; simp
      rw [e] at h
      simpa [seqSched] using h
    | cons s rest ih =>
      have hget : (List.replicate k ([] : Task Addr Val) ++ (s :: rest) :: ts)[k]? = some (s :: rest) := by
        rw [List.getElem?_append_right (by simp)]; simp
      have hset : (List.replicate k ([] : Task Addr Val) ++ (s :: rest) :: ts).set k rest =
          List.replicate k [] ++ rest :: ts := by
        rw [List.set_append_right _ _ (by simp)]; simp
      have := Interleaving.step (tasks := List.replicate k ([] : Task Addr Val) ++ (s :: rest) :: ts) k s rest hget
        (by rw [hset]; exact ih)
      simpa [seqSched] using this

theorem runSched_seqSched : ∀ (ts : List (Task Addr Val)) (k : Nat) (m : Mem Addr Val),
    runSched (seqSched k ts) m = seqRun ts m
  | [], _, _ => rfl
  | t :: ts, k, m => by
    simp only [seqSched, runSched_append, seqRun, List.flatten_cons, runList_append]
    have : runSched (t.map fun s => (k, s)) m = runList t m := by simp [runSched, List.map_map, Function.comp_def]
    rw [this]
    exact runSched_seqSched ts (k + 1) (runList t m)

end OW.Props.C05
