import OW.Sim.Interleave
import OW.Sim.CellTasks
import OW.Sim.Join
import OW.Sim.JoinWG
import OW.Props.C04
import OW.Props.C05Facts
/-!
C05 — concurrent cell and model execution is race-free and schedule-independent. Core Lean only.

* T1 `steps_commute`, T2 `disjoint_interleaving` (+ `disjoint_interleaving_view`, `same_view_in_all_interleavings`,
  `perm_runList`): theorems about `OW.Sim.Interleave` (atomic steps with declared footprints over a shared memory,
  tasks = lists of steps, ALL interleavings);
* T3 `cells_disjoint`, `cells_schedule_independent`, `cells_any_interleaving(_arrays)`: the instance on the wrapper
  semantics `OW.Sim.cellStep` / `runCells` (C04), via `OW.Sim.CellTasks`;
* T4 `join_complete` (+ `sender_never_stuck`, `join_progress`, `return_only_after_all_finished`,
  `last_receive_after_all_finished`): the `doneChan` transition system `OW.Sim.Join`, for every N;
  T4' `wg_join_complete`: the same for a `sync.WaitGroup` join (`OW.Sim.JoinWG`);
* re-plumbings of the launch: T2 quantifies over ANY task list with pairwise disjoint footprints, so it covers a
  bounded WORKER POOL once the workers are shown disjoint — `workers_disjoint` (a task is a worker, its footprint the
  union of the rows of the cells it received; no index reaches two workers), `pool_interleaving`, and on the wrapper
  semantics `pool_cells_any_interleaving` (every schedule of every pool over the cells `0 … N-1` yields `runCells`);
* tie A (`OW.Props.C05Facts`, imported): `current_run_facts_ok` on the facts regenerated from the source.

TRUSTED, not proved here (Go memory model): a data-race-free Go program behaves like some interleaving of atomic
steps of its goroutines; a channel receive happens after the matching send; the Go scheduler. The theorems are about
the footprints of the MODEL; the property is partial by nature for this technique.
-/
namespace OW.Props.C05
open OW.Sim.Interleave

variable {Addr Val : Type}

/-! ### T1 — two steps with non-conflicting footprints commute -/

/-- **T1 `steps_commute`.** If neither step writes an address the other reads or writes, the two orders of
execution give the same memory (for every initial memory). -/
theorem steps_commute [DecidableEq Addr] (s t : Step Addr Val) (h : NoConflict s t) (m : Mem Addr Val) :
    s.run (t.run m) = t.run (s.run m) := by
  funext a
  by_cases hs : a ∈ s.writes
  · have ht : a ∉ t.writes := fun h' => h.1 a hs (by simp [Step.foot, h'])
    rw [t.frame _ a ht]
    apply s.loc
    · intro b hb
      apply t.frame
      intro hbw
      exact h.2 b hbw hb
    · exact hs
  · by_cases ht : a ∈ t.writes
    · rw [s.frame _ a hs]
      symm
      apply t.loc
      · intro b hb
        apply s.frame
        intro hbw
        exact h.1 b hbw hb
      · exact ht
    · rw [s.frame _ a hs, t.frame _ a ht, t.frame _ a ht, s.frame _ a hs]

/-- a step that conflicts with none of the steps in `pre` can be moved in front of all of them -/
theorem commute_past [DecidableEq Addr] (s : Step Addr Val) :
    ∀ (pre : List (Step Addr Val)), (∀ t, t ∈ pre → NoConflict s t) → ∀ m : Mem Addr Val,
      runList pre (s.run m) = s.run (runList pre m)
  | [], _, _ => rfl
  | t :: pre, h, m => by
    simp only [runList_cons]
    rw [← steps_commute s t (h t List.mem_cons_self) m]
    exact commute_past s pre (fun u hu => h u (List.mem_cons_of_mem _ hu)) (t.run m)

/-! ### T2 — every interleaving of pairwise disjoint tasks equals the sequential run -/

/-- the hypothesis of T2: for any two DIFFERENT tasks, no step of the one writes an address that a step of the other
reads or writes -/
def TasksDisjoint (tasks : List (Task Addr Val)) : Prop :=
  ∀ (i j : Nat) (ti tj : Task Addr Val), tasks[i]? = some ti → tasks[j]? = some tj → i ≠ j →
    ∀ s, s ∈ ti → ∀ t, t ∈ tj → WritesAvoid s t

theorem TasksDisjoint.noConflict {tasks : List (Task Addr Val)} (hd : TasksDisjoint tasks) {i j : Nat}
    {ti tj : Task Addr Val} (hi : tasks[i]? = some ti) (hj : tasks[j]? = some tj) (hij : i ≠ j)
    {s t : Step Addr Val} (hs : s ∈ ti) (ht : t ∈ tj) : NoConflict s t :=
  ⟨hd i j ti tj hi hj hij s hs t ht, hd j i tj ti hj hi (Ne.symm hij) t ht s hs⟩

theorem split_at {α : Type} : ∀ (l : List α) (i : Nat) (x : α), l[i]? = some x →
    ∃ pre post, l = pre ++ x :: post ∧ pre.length = i ∧ ∀ y, l.set i y = pre ++ y :: post
  | [], i, x, h => by simp at h
  | a :: l, 0, x, h => by
    simp at h
    subst h
    exact ⟨[], l, rfl, rfl, fun y => rfl⟩
  | a :: l, i + 1, x, h => by
    have h' : l[i]? = some x := by simpa using h
    obtain ⟨pre, post, e, hl, hs⟩ := split_at l i x h'
    refine ⟨a :: pre, post, by simp [e], by simp [hl], fun y => ?_⟩
    simp [hs y]

theorem flatten_eq_nil_of_all_nil {α : Type} : ∀ (l : List (List α)), (∀ t, t ∈ l → t = []) → l.flatten = []
  | [], _ => rfl
  | t :: l, h => by
    have ht : t = [] := h t List.mem_cons_self
    subst ht
    simpa using flatten_eq_nil_of_all_nil l (fun u hu => h u (List.mem_cons_of_mem _ hu))

/-- after task `i` has executed its head, what remains is still pairwise disjoint -/
theorem TasksDisjoint.set {tasks : List (Task Addr Val)} (hd : TasksDisjoint tasks) {i : Nat} {s : Step Addr Val}
    {rest : Task Addr Val} (hi : tasks[i]? = some (s :: rest)) : TasksDisjoint (tasks.set i rest) := by
  have hlen : i < tasks.length := by
    rcases List.getElem?_eq_some_iff.mp hi with ⟨h, _⟩
    exact h
  have key : ∀ (a : Nat) (ta : Task Addr Val), (tasks.set i rest)[a]? = some ta →
      ∃ ta' : Task Addr Val, tasks[a]? = some ta' ∧ ∀ u, u ∈ ta → u ∈ ta' := by
    intro a ta h
    by_cases ha : i = a
    · subst ha
      rw [List.getElem?_set_self hlen] at h
      cases h
      exact ⟨s :: rest, hi, fun u hu => List.mem_cons_of_mem _ hu⟩
    · rw [List.getElem?_set_ne ha] at h
      exact ⟨ta, h, fun u hu => hu⟩
  intro a b ta tb ha hb hab u hu v hv
  obtain ⟨ta', ha', sa⟩ := key a ta ha
  obtain ⟨tb', hb', sb⟩ := key b tb hb
  exact hd a b ta' tb' ha' hb' hab u (sa u hu) v (sb v hv)

/-- **T2 `disjoint_interleaving` (final memory).** If the tasks are pairwise disjoint (no task writes what another
task reads or writes), then EVERY interleaving of their steps — every schedule that preserves each task's own
order — ends in exactly the memory obtained by running the tasks one after the other in index order. -/
theorem disjoint_interleaving [DecidableEq Addr] (tasks : List (Task Addr Val)) (hd : TasksDisjoint tasks) (sched : Sched Addr Val)
    (hi : Interleaving tasks sched) (m : Mem Addr Val) : runSched sched m = seqRun tasks m := by
  induction hi generalizing m with
  | done h => simp [seqRun, flatten_eq_nil_of_all_nil _ h]
  | @step tasks sched i s rest hget _ ih =>
    rw [runSched_cons, ih (hd.set hget)]
    obtain ⟨pre, post, e, hl, hs⟩ := split_at tasks i (s :: rest) hget
    have hpre : ∀ t, t ∈ pre.flatten → NoConflict s t := by
      intro t ht
      obtain ⟨tj, htj, htt⟩ := List.mem_flatten.mp ht
      obtain ⟨j, hj⟩ := List.mem_iff_getElem?.mp htj
      have hjlt : j < pre.length := by
        rcases List.getElem?_eq_some_iff.mp hj with ⟨h, _⟩
        exact h
      have hj' : tasks[j]? = some tj := by
        rw [e, List.getElem?_append_left hjlt]; exact hj
      exact hd.noConflict hget hj' (by omega) List.mem_cons_self htt
    rw [hs rest]
    simp only [seqRun, e, List.flatten_append, List.flatten_cons, runList_append, runList_cons,
      List.cons_append]
    rw [commute_past s pre.flatten hpre m]

/-! #### per-task view: every step sees, at its footprint, exactly what its own task produced so far -/

/-- running the same steps from two memories that agree on a region `A` closed under the steps' footprints gives
memories that agree on `A` -/
theorem runList_agree [DecidableEq Addr] (A : Addr → Prop) :
    ∀ (l : List (Step Addr Val)), (∀ u, u ∈ l → ∀ a, a ∈ u.foot → A a) → ∀ (m m' : Mem Addr Val),
      (∀ a, A a → m a = m' a) → ∀ a, A a → runList l m a = runList l m' a
  | [], _, _, _, h, a, ha => h a ha
  | u :: l, hl, m, m', h, a, ha => by
    simp only [runList_cons]
    apply runList_agree A l (fun v hv => hl v (List.mem_cons_of_mem _ hv)) (u.run m) (u.run m') _ a ha
    intro b hb
    by_cases hw : b ∈ u.writes
    · exact u.loc m m' (fun c hc => h c (hl u List.mem_cons_self c hc)) b hw
    · rw [u.frame m b hw, u.frame m' b hw]; exact h b hb

theorem mem_proj {i : Nat} {sched : Sched Addr Val} {u : Step Addr Val} (h : u ∈ proj i sched) :
    ∃ x, x ∈ sched ∧ x.1 = i ∧ x.2 = u := by
  unfold proj at h
  obtain ⟨x, hx, rfl⟩ := List.mem_map.mp h
  obtain ⟨hx1, hx2⟩ := List.mem_filter.mp hx
  exact ⟨x, hx1, by simpa using hx2, rfl⟩

/-- on a region `A` that contains the footprints of task `i`'s steps and that no other task's step writes, a
schedule acts exactly like task `i`'s own steps alone -/
theorem own_view [DecidableEq Addr] (i : Nat) (A : Addr → Prop) :
    ∀ (sched : Sched Addr Val), (∀ x, x ∈ sched → x.1 = i → ∀ a, a ∈ x.2.foot → A a) →
      (∀ x, x ∈ sched → x.1 ≠ i → ∀ a, a ∈ x.2.writes → ¬ A a) → ∀ (m : Mem Addr Val) a, A a →
        runSched sched m a = runList (proj i sched) m a
  | [], _, _, _, _, _ => rfl
  | x :: sched, hown, hoth, m, a, ha => by
    have hown' : ∀ y, y ∈ sched → y.1 = i → ∀ a, a ∈ y.2.foot → A a :=
      fun y hy => hown y (List.mem_cons_of_mem _ hy)
    have hoth' : ∀ y, y ∈ sched → y.1 ≠ i → ∀ a, a ∈ y.2.writes → ¬ A a :=
      fun y hy => hoth y (List.mem_cons_of_mem _ hy)
    have ih := own_view i A sched hown' hoth'
    by_cases hx : x.1 = i
    · have : proj i (x :: sched) = x.2 :: proj i sched := by simp [proj, hx]
      rw [this, runSched_cons, runList_cons]
      exact ih (x.2.run m) a ha
    · have : proj i (x :: sched) = proj i sched := by simp [proj, hx]
      rw [this, runSched_cons, ih (x.2.run m) a ha]
      apply runList_agree A (proj i sched) _ (x.2.run m) m _ a ha
      · intro u hu b hb
        obtain ⟨y, hy, hy1, hy2⟩ := mem_proj hu
        subst hy2
        exact hown' y hy hy1 b hb
      · intro b hb
        apply x.2.frame
        intro hw
        exact hoth x List.mem_cons_self hx b hw hb

/-- every scheduled step belongs to the task it is tagged with -/
theorem mem_of_interleaving {tasks : List (Task Addr Val)} {sched : Sched Addr Val} (hi : Interleaving tasks sched) :
    ∀ j t, (j, t) ∈ sched → ∃ tj, tasks[j]? = some tj ∧ t ∈ tj := by
  induction hi with
  | done _ => intro j t h; simp at h
  | @step tasks sched i s rest hget _ ih =>
    intro j t h
    have hlen : i < tasks.length := by
      rcases List.getElem?_eq_some_iff.mp hget with ⟨h, _⟩
      exact h
    rcases List.mem_cons.mp h with h | h
    · cases h
      exact ⟨s :: rest, hget, List.mem_cons_self⟩
    · obtain ⟨tj, h1, h2⟩ := ih j t h
      by_cases hij : i = j
      · subst hij
        rw [List.getElem?_set_self hlen] at h1
        cases h1
        exact ⟨s :: rest, hget, List.mem_cons_of_mem _ h2⟩
      · rw [List.getElem?_set_ne hij] at h1
        exact ⟨tj, h1, h2⟩

/-- the projection of an interleaving on task `i` is task `i` -/
theorem proj_interleaving {tasks : List (Task Addr Val)} {sched : Sched Addr Val} (hi : Interleaving tasks sched)
    (i : Nat) : proj i sched = (tasks[i]?).getD [] := by
  induction hi with
  | @done tasks h =>
    cases hg : tasks[i]? with
    | none => rfl
    | some t =>
      have : t = [] := h t (List.mem_of_getElem? hg)
      simp [proj, this]
  | @step tasks sched k s rest hget _ ih =>
    have hlen : k < tasks.length := by
      rcases List.getElem?_eq_some_iff.mp hget with ⟨h, _⟩
      exact h
    by_cases hk : k = i
    · subst hk
      have : proj k ((k, s) :: sched) = s :: proj k sched := by simp [proj]
      rw [this, ih, List.getElem?_set_self hlen, hget]
      rfl
    · have : proj i ((k, s) :: sched) = proj i sched := by simp [proj, hk]
      rw [this, ih, List.getElem?_set_ne hk]

/-- **T2 `disjoint_interleaving` (per-task values).** Under the same hypothesis, cut ANY interleaving just before
a step `s` of task `i`: at every address in `s`'s footprint the memory holds exactly what task `i`'s own earlier
steps, run alone from the initial memory, leave there. The other tasks and the schedule do not matter, so every
step reads the same values — and hence computes the same results — in every interleaving, in particular in the
sequential one. -/
theorem disjoint_interleaving_view [DecidableEq Addr] (tasks : List (Task Addr Val)) (hd : TasksDisjoint tasks)
    (sched pre post : Sched Addr Val) (i : Nat) (s : Step Addr Val) (hi : Interleaving tasks sched)
    (hs : sched = pre ++ (i, s) :: post) (m : Mem Addr Val) :
    ∀ a, a ∈ s.foot → runSched pre m a = runList (proj i pre) m a := by
  intro a ha
  have hmem := mem_of_interleaving hi
  have hsi : (i, s) ∈ sched := by rw [hs]; simp
  obtain ⟨ti, hti, hsti⟩ := hmem i s hsi
  -- region: everything task i may touch
  let A : Addr → Prop := fun b => ∃ u, u ∈ ti ∧ b ∈ u.foot
  have hpre : ∀ x, x ∈ pre → x ∈ sched := fun x hx => by rw [hs]; exact List.mem_append_left _ hx
  apply own_view i A pre _ _ m a ⟨s, hsti, ha⟩
  · intro x hx hxi b hb
    obtain ⟨tj, h1, h2⟩ := hmem x.1 x.2 (hpre x hx)
    rw [hxi, hti] at h1
    cases h1
    exact ⟨x.2, h2, hb⟩
  · intro x hx hxi b hb hA
    obtain ⟨u, hu, hbu⟩ := hA
    obtain ⟨tj, h1, h2⟩ := hmem x.1 x.2 (hpre x hx)
    exact (hd.noConflict h1 hti hxi h2 hu).1 b hb hbu

/-- Same cut in two interleavings of the same disjoint tasks (e.g. a concurrent one and the sequential one): the
`k`-th step of task `i` finds the same values at its footprint in both. -/
theorem same_view_in_all_interleavings [DecidableEq Addr] (tasks : List (Task Addr Val)) (hd : TasksDisjoint tasks)
    (sched pre post sched' pre' post' : Sched Addr Val) (i : Nat) (s : Step Addr Val)
    (hi : Interleaving tasks sched) (hi' : Interleaving tasks sched')
    (hs : sched = pre ++ (i, s) :: post) (hs' : sched' = pre' ++ (i, s) :: post')
    (hk : (proj i pre).length = (proj i pre').length) (m : Mem Addr Val) :
    ∀ a, a ∈ s.foot → runSched pre m a = runSched pre' m a := by
  intro a ha
  rw [disjoint_interleaving_view tasks hd sched pre post i s hi hs m a ha,
    disjoint_interleaving_view tasks hd sched' pre' post' i s hi' hs' m a ha]
  -- both prefixes project to the same initial segment of task i
  have p := proj_interleaving hi i
  have p' := proj_interleaving hi' i
  have e : ∀ (l₁ l₂ : Sched Addr Val), proj i (l₁ ++ l₂) = proj i l₁ ++ proj i l₂ := by
    intro l₁ l₂; simp [proj, List.filter_append]
  rw [hs, e] at p
  rw [hs', e] at p'
  have : proj i pre = proj i pre' := by
    have h := p.trans p'.symm
    exact List.append_inj_left h hk
  rw [this]

/-- the sequential schedule is one of the interleavings (so the theorems above compare every concurrent schedule
with something that can actually happen, e.g. under GOMAXPROCS=1 with run-to-completion) -/
theorem seqSched_interleaving : ∀ (ts : List (Task Addr Val)) (k : Nat),
    Interleaving (List.replicate k [] ++ ts) (seqSched k ts)
  | [], k => by
    simp only [seqSched, List.append_nil]
    exact Interleaving.done (fun t ht => (List.mem_replicate.mp ht).2)
  | t :: ts, k => by
    induction t with
    | nil =>
      have h := seqSched_interleaving ts (k + 1)
      have e : List.replicate (k + 1) ([] : Task Addr Val) ++ ts = List.replicate k [] ++ [] :: ts := by
        rw [List.replicate_succ']; simp
      rw [e] at h
      simpa [seqSched] using h
    | cons s rest ih =>
      have hget : (List.replicate k ([] : Task Addr Val) ++ (s :: rest) :: ts)[k]? = some (s :: rest) := by
        rw [List.getElem?_append_right (by simp)]; simp
      have hset : (List.replicate k ([] : Task Addr Val) ++ (s :: rest) :: ts).set k rest =
          List.replicate k [] ++ rest :: ts := by
        rw [List.set_append_right _ _ (by simp)]; simp
      have := Interleaving.step (tasks := List.replicate k ([] : Task Addr Val) ++ (s :: rest) :: ts) k s rest hget
        (by rw [hset]; exact ih)
      simpa [seqSched] using this

theorem runSched_seqSched : ∀ (ts : List (Task Addr Val)) (k : Nat) (m : Mem Addr Val),
    runSched (seqSched k ts) m = seqRun ts m
  | [], _, _ => rfl
  | t :: ts, k, m => by
    simp only [seqSched, runSched_append, seqRun, List.flatten_cons, runList_append]
    have : runSched (t.map fun s => (k, s)) m = runList t m := by simp [runSched, List.map_map, Function.comp_def]
    rw [this]
    exact runSched_seqSched ts (k + 1) (runList t m)

/-! ### T2 for a bounded worker pool: a task is a worker, its footprint the union of its cells' footprints -/

/-- the task of a pool worker that received the cell indices `idx`, in that order: the steps of those cells, one
cell after the other -/
def workerTask (cells : List (Task Addr Val)) (idx : List Nat) : Task Addr Val :=
  (idx.map fun i => (cells[i]?).getD []).flatten

theorem mem_workerTask {cells : List (Task Addr Val)} {idx : List Nat} {s : Step Addr Val}
    (h : s ∈ workerTask cells idx) : ∃ i t, i ∈ idx ∧ cells[i]? = some t ∧ s ∈ t := by
  unfold workerTask at h
  obtain ⟨l, hl, hs⟩ := List.mem_flatten.mp h
  obtain ⟨i, hi, rfl⟩ := List.mem_map.mp hl
  cases hc : cells[i]? with
  | none => simp [hc] at hs
  | some t => exact ⟨i, t, hi, hc, by simpa [hc] using hs⟩

/-- **`workers_disjoint`.** A bounded worker pool: the cells' tasks are pairwise disjoint and no cell index is handed
to two different workers (every value sent on the channel of cell indices is received once). Then the WORKERS' tasks —
each the concatenation of the tasks of the cells it received — are pairwise disjoint, so T2 applies to the pool. -/
theorem workers_disjoint (cells : List (Task Addr Val)) (hd : TasksDisjoint cells) (groups : List (List Nat))
    (hx : ∀ (a b : Nat) (ga gb : List Nat), groups[a]? = some ga → groups[b]? = some gb → a ≠ b →
      ∀ i, i ∈ ga → ∀ j, j ∈ gb → i ≠ j) :
    TasksDisjoint (groups.map (workerTask cells)) := by
  intro a b ta tb ha hb hab s hs t ht
  rw [List.getElem?_map] at ha hb
  cases hga : groups[a]? with
  | none => simp [hga] at ha
  | some ga =>
    cases hgb : groups[b]? with
    | none => simp [hgb] at hb
    | some gb =>
      simp only [hga, hgb, Option.map_some, Option.some.injEq] at ha hb
      subst ha; subst hb
      obtain ⟨i, ti, hi, hci, hsi⟩ := mem_workerTask hs
      obtain ⟨j, tj, hj, hcj, htj⟩ := mem_workerTask ht
      exact hd i j ti tj hci hcj (hx a b ga gb hga hgb hab i hi j hj) s hsi t htj

/-- every interleaving of the workers of a pool ends in the memory of running the workers one after the other -/
theorem pool_interleaving [DecidableEq Addr] (cells : List (Task Addr Val)) (hd : TasksDisjoint cells) (groups : List (List Nat))
    (hx : ∀ (a b : Nat) (ga gb : List Nat), groups[a]? = some ga → groups[b]? = some gb → a ≠ b →
      ∀ i, i ∈ ga → ∀ j, j ∈ gb → i ≠ j)
    (sched : Sched Addr Val) (hi : Interleaving (groups.map (workerTask cells)) sched) (m : Mem Addr Val) :
    runSched sched m = seqRun (groups.map (workerTask cells)) m :=
  disjoint_interleaving _ (workers_disjoint cells hd groups hx) sched hi m


theorem flatten_map_workerTask (cells : List (Task Addr Val)) : ∀ groups : List (List Nat),
    (groups.map (workerTask cells)).flatten = workerTask cells groups.flatten
  | [] => rfl
  | g :: gs => by
    simp only [List.map_cons, List.flatten_cons, flatten_map_workerTask cells gs]
    simp [workerTask, List.map_append, List.flatten_append]

/-- no index occurs in two different groups of a list of groups whose concatenation has no duplicates -/
theorem groups_distinct : ∀ (groups : List (List Nat)), groups.flatten.Nodup →
    ∀ (a b : Nat) (ga gb : List Nat), groups[a]? = some ga → groups[b]? = some gb → a ≠ b →
      ∀ i, i ∈ ga → ∀ j, j ∈ gb → i ≠ j
  | [], _, a, b, ga, gb, ha, _, _, _, _, _, _ => by simp at ha
  | g :: gs, hn, a, b, ga, gb, ha, hb, hab, i, hi, j, hj => by
    rw [List.flatten_cons, List.nodup_append] at hn
    obtain ⟨_, hgs, hcross⟩ := hn
    cases a with
    | zero =>
      cases b with
      | zero => exact absurd rfl hab
      | succ b =>
        simp only [List.getElem?_cons_zero, Option.some.injEq] at ha
        simp only [List.getElem?_cons_succ] at hb
        subst ha
        exact hcross i hi j (List.mem_flatten.mpr ⟨gb, List.mem_of_getElem? hb, hj⟩)
    | succ a =>
      cases b with
      | zero =>
        simp only [List.getElem?_cons_zero, Option.some.injEq] at hb
        simp only [List.getElem?_cons_succ] at ha
        subst hb
        exact fun e => hcross j hj i (List.mem_flatten.mpr ⟨ga, List.mem_of_getElem? ha, hi⟩) e.symm
      | succ b =>
        simp only [List.getElem?_cons_succ] at ha hb
        exact groups_distinct gs hgs a b ga gb ha hb (by omega) i hi j hj

/-! ### order of pairwise non-conflicting steps does not matter (permutation form) -/

/-- steps drawn from a family `f` whose members with different indices never conflict: running them in the order
`l₁` or in any permutation `l₂` of it gives the same memory -/
theorem perm_runList [DecidableEq Addr] (f : Nat → Step Addr Val) (hf : ∀ i j, i ≠ j → NoConflict (f i) (f j))
    {l₁ l₂ : List Nat} (hp : l₁.Perm l₂) : l₁.Nodup → ∀ m : Mem Addr Val, runList (l₁.map f) m = runList (l₂.map f) m := by
  induction hp with
  | nil => intro _ m; rfl
  | cons x _ ih =>
    intro hn m
    simp only [List.map_cons, runList_cons]
    exact ih (List.nodup_cons.mp hn).2 _
  | swap x y l =>
    intro hn m
    simp only [List.map_cons, runList_cons]
    have hxy : y ≠ x := by
      intro e
      have := (List.nodup_cons.mp hn).1
      exact this (by simp [e])
    rw [steps_commute (f x) (f y) (hf x y (Ne.symm hxy)) m]
  | trans h₁ _ ih₁ ih₂ =>
    intro hn m
    rw [ih₁ hn m, ih₂ (h₁.nodup_iff.mp hn) m]

/-! ### T3 — the cells of one `Run` call: pairwise disjoint, hence schedule independent -/

section Cells
open OW OW.Sim OW.Sim.CellTasks

variable {α : Type} [Num α]
variable (km : KModel α) (spec : ParamSpec) (lay : List (Nat × Nat)) (params : List (List α))
  (inputs : List (List (List α)))

/-- **T3 `cells_disjoint`.** For `i ≠ j` the step of cell `i` (reads and writes its own state row and output rows,
nothing else in the shared arrays) and the step of cell `j` do not conflict. -/
theorem cells_disjoint (i j : Nat) (h : i ≠ j) :
    NoConflict (cellStepM km spec lay params inputs i) (cellStepM km spec lay params inputs j) := by
  constructor <;> intro a ha <;> simp [cellStepM, Step.foot] at ha ⊢ <;>
    rcases ha with e | e <;> subst e <;> simp <;> omega

theorem cellTasks_get (n i : Nat) (t : Task CAddr (CVal α))
    (h : (cellTasks km spec lay params inputs n)[i]? = some t) : t = [cellStepM km spec lay params inputs i] := by
  unfold cellTasks at h
  rw [List.getElem?_map] at h
  cases hr : (List.range n)[i]? with
  | none => simp [hr] at h
  | some k =>
    have hk : k = i := by
      have := List.getElem?_eq_some_iff.mp hr
      obtain ⟨_, e⟩ := this
      simpa using e.symm
    subst hk
    simpa [hr] using h.symm

theorem cellTasks_disjoint (n : Nat) : TasksDisjoint (cellTasks km spec lay params inputs n) := by
  intro i j ti tj hi hj hij s hs t ht
  rw [cellTasks_get km spec lay params inputs n i ti hi] at hs
  rw [cellTasks_get km spec lay params inputs n j tj hj] at ht
  simp only [List.mem_singleton] at hs ht
  subst hs; subst ht
  exact (cells_disjoint km spec lay params inputs i j hij).1

theorem flatten_map_singleton {β γ : Type} (f : β → γ) : ∀ l : List β, (l.map fun i => [f i]).flatten = l.map f
  | [] => rfl
  | x :: l => by simp [flatten_map_singleton f l]

/-- memory after the cells `0 … k-1` have run (in index order): their rows are the final ones, the others untouched -/
def mix (m0 mf : Mem CAddr (CVal α)) (k : Nat) : Mem CAddr (CVal α) := fun a => if a.idx < k then mf a else m0 a

/-- the sequential cell-by-cell execution of the step model IS `runCells` -/
theorem seq_eq_runCells (cells : List (List α)) (outs : List (List (List α))) (ss : List (List α))
    (os : List (List (List α))) (h : runCells km spec lay params inputs 0 cells outs = .ok (ss, os)) :
    runList ((List.range cells.length).map (cellStepM km spec lay params inputs)) (memOf cells outs) = memOf ss os := by
  obtain ⟨hl1, hl2, hle, hstep, hrest⟩ := OW.Props.C04.runCells_spec km spec lay params inputs cells outs 0 ss os h
  have key : ∀ k, k ≤ cells.length →
      runList ((List.range k).map (cellStepM km spec lay params inputs)) (memOf cells outs) =
        mix (memOf cells outs) (memOf ss os) k := by
    intro k
    induction k with
    | zero => intro _; funext a; simp [mix]
    | succ k ih =>
      intro hk
      have hk' : k < cells.length := by omega
      have hko : k < outs.length := by omega
      rw [List.range_succ, List.map_append, runList_append, ih (by omega)]
      simp only [List.map_cons, List.map_nil, runList_cons, runList_nil]
      obtain ⟨s', o', hc, hs', ho'⟩ := hstep k hk' hko
      have hc' : cellStep km spec lay params inputs k cells[k] outs[k] = .ok (s', o') := by simpa using hc
      have e1 : mix (memOf cells outs) (memOf ss os) k (.st k) = .st cells[k] := by
        simp [mix, CAddr.idx, memOf, List.getElem?_eq_getElem hk']
      have e2 : mix (memOf cells outs) (memOf ss os) k (.out k) = .out outs[k] := by
        simp [mix, CAddr.idx, memOf, List.getElem?_eq_getElem hko]
      show cellRun km spec lay params inputs k (mix (memOf cells outs) (memOf ss os) k) = _
      unfold cellRun
      rw [e1, e2]
      simp only [cellNew, hc']
      funext a
      by_cases ha1 : a = .st k
      · subst ha1
        simp [upd, mix, CAddr.idx, memOf, hs']
      · by_cases ha2 : a = .out k
        · subst ha2
          simp [upd, mix, CAddr.idx, memOf, ho']
        · rw [upd_other _ _ _ _ ha2, upd_other _ _ _ _ ha1]
          have hidx : a.idx ≠ k := by
            cases a with
            | st i => intro e; apply ha1; simp [CAddr.idx] at e; rw [e]
            | out i => intro e; apply ha2; simp [CAddr.idx] at e; rw [e]
          simp only [mix]
          by_cases hlt : a.idx < k
          · rw [if_pos hlt, if_pos (by omega)]
          · rw [if_neg hlt, if_neg (by omega)]
  rw [key cells.length (Nat.le_refl _)]
  funext a
  simp only [mix]
  by_cases hlt : a.idx < cells.length
  · rw [if_pos hlt]
  · rw [if_neg hlt]
    cases a with
    | st i =>
      have hi : cells.length ≤ i := by simpa [CAddr.idx] using hlt
      simp [memOf, List.getElem?_eq_none hi, List.getElem?_eq_none (by omega : ss.length ≤ i)]
    | out i =>
      have hi : cells.length ≤ i := by simpa [CAddr.idx] using hlt
      simp [memOf, hrest i hi]

/-- **T3 `cells_schedule_independent` (permutation form).** If the vectorised run of the model succeeds with result
`(ss, os)`, then running the per-cell steps in ANY order `perm` (any permutation of `0 … N-1`) on the initial arrays
produces exactly the arrays `(ss, os)` of `runCells`, the sequential cell-by-cell result. -/
theorem cells_schedule_independent (cells : List (List α)) (outs : List (List (List α))) (ss : List (List α))
    (os : List (List (List α))) (h : runCells km spec lay params inputs 0 cells outs = .ok (ss, os))
    (perm : List Nat) (hp : perm.Perm (List.range cells.length)) :
    runList (perm.map (cellStepM km spec lay params inputs)) (memOf cells outs) = memOf ss os := by
  rw [perm_runList (cellStepM km spec lay params inputs) (cells_disjoint km spec lay params inputs) hp
    (hp.nodup_iff.mpr List.nodup_range)]
  exact seq_eq_runCells km spec lay params inputs cells outs ss os h

/-- **T3 `cells_any_interleaving` (through T2).** Every interleaving of the cells' tasks — every schedule of the
goroutines at the granularity of the footprints — ends in the memory image of `runCells`' result.
Granularity: one atomic step per cell; `refined_cells_any_interleaving` (below) removes that.
Row width: the statement is about the list-level model, whose `overwrite` TRUNCATES a state vector longer than the cell's
row; the code copies on into the next cell's row there (overlapping footprints, schedule-dependent states: known findings
KF-C05-GR4J/Lag-InitialiseStates-row-width). Model = code needs `r.states.length ≤ st.length` for every cell — listed in
the check's `assumptions`. -/
theorem cells_any_interleaving (cells : List (List α)) (outs : List (List (List α))) (ss : List (List α))
    (os : List (List (List α))) (h : runCells km spec lay params inputs 0 cells outs = .ok (ss, os))
    (sched : Sched CAddr (CVal α)) (hi : Interleaving (cellTasks km spec lay params inputs cells.length) sched) :
    runSched sched (memOf cells outs) = memOf ss os := by
  rw [disjoint_interleaving _ (cellTasks_disjoint km spec lay params inputs cells.length) sched hi]
  simp only [seqRun, cellTasks, flatten_map_singleton]
  exact seq_eq_runCells km spec lay params inputs cells outs ss os h

/-- … read as arrays: if a schedule's final memory is the image of arrays `(ss', os')`, these are `runCells`' arrays -/
theorem cells_any_interleaving_arrays (cells : List (List α)) (outs : List (List (List α))) (ss ss' : List (List α))
    (os os' : List (List (List α))) (h : runCells km spec lay params inputs 0 cells outs = .ok (ss, os))
    (sched : Sched CAddr (CVal α)) (hi : Interleaving (cellTasks km spec lay params inputs cells.length) sched)
    (hm : runSched sched (memOf cells outs) = memOf ss' os') : ss' = ss ∧ os' = os := by
  rw [cells_any_interleaving km spec lay params inputs cells outs ss os h sched hi] at hm
  obtain ⟨a, b⟩ := memOf_inj hm
  exact ⟨a.symm, b.symm⟩

end Cells

/-! ### T3 for a bounded worker pool over the cells of one `Run` -/

section PoolCells
open OW OW.Sim OW.Sim.CellTasks

variable {α : Type} [Num α]
variable (km : KModel α) (spec : ParamSpec) (lay : List (Nat × Nat)) (params : List (List α))
  (inputs : List (List (List α)))

theorem workerTask_cellTasks (n : Nat) : ∀ idx : List Nat, (∀ i, i ∈ idx → i < n) →
    workerTask (cellTasks km spec lay params inputs n) idx = idx.map (cellStepM km spec lay params inputs)
  | [], _ => rfl
  | i :: idx, h => by
    have hi : i < n := h i List.mem_cons_self
    have ih := workerTask_cellTasks n idx (fun k hk => h k (List.mem_cons_of_mem _ hk))
    unfold workerTask at ih ⊢
    simp only [List.map_cons, List.flatten_cons, ih]
    have : (cellTasks km spec lay params inputs n)[i]? = some [cellStepM km spec lay params inputs i] := by
      simp [cellTasks, List.getElem?_map, List.getElem?_range hi]
    simp [this]

/-- **`pool_cells_any_interleaving`.** A bounded worker pool over the cells of one `Run`: `groups[w]` are the cell
indices worker `w` received, in the order it received them, and together they are exactly `0 … N-1`, each once (the
channel was filled with exactly these and every value sent is received once). Then EVERY interleaving of the workers
— every schedule of the pool at the granularity of the footprints, whatever the number of workers and whichever
worker got which cell — ends in the memory image of `runCells`' result, the sequential cell-by-cell run. -/
theorem pool_cells_any_interleaving (cells : List (List α)) (outs : List (List (List α))) (ss : List (List α))
    (os : List (List (List α))) (h : runCells km spec lay params inputs 0 cells outs = .ok (ss, os))
    (groups : List (List Nat)) (hp : groups.flatten.Perm (List.range cells.length))
    (sched : Sched CAddr (CVal α))
    (hi : Interleaving (groups.map (workerTask (cellTasks km spec lay params inputs cells.length))) sched) :
    runSched sched (memOf cells outs) = memOf ss os := by
  have hn : groups.flatten.Nodup := hp.nodup_iff.mpr List.nodup_range
  rw [pool_interleaving _ (cellTasks_disjoint km spec lay params inputs cells.length) groups (groups_distinct groups hn) sched hi]
  simp only [seqRun, flatten_map_workerTask]
  rw [workerTask_cellTasks km spec lay params inputs cells.length groups.flatten
    (fun i hi => List.mem_range.mp (hp.mem_iff.mp hi))]
  exact cells_schedule_independent km spec lay params inputs cells outs ss os h groups.flatten hp

end PoolCells

/-! ### T3, refined granularity: a cell's goroutine as MANY steps -/

section RefinedCells
open OW OW.Sim OW.Sim.CellTasks

variable {α : Type} [Num α]
variable (km : KModel α) (spec : ParamSpec) (lay : List (Nat × Nat)) (params : List (List α))
  (inputs : List (List (List α)))

/-- running task lists one after the other, when each task as a whole acts like one given step -/
theorem runList_flatten_eq {Addr Val : Type} :
    ∀ (tasks : List (Task Addr Val)) (fs : List (Step Addr Val)), tasks.length = fs.length →
      (∀ (i : Nat) (t : Task Addr Val) (f : Step Addr Val), tasks[i]? = some t → fs[i]? = some f → ∀ m, runList t m = f.run m) →
      ∀ m, runList tasks.flatten m = runList fs m
  | [], [], _, _, _ => rfl
  | [], _ :: _, h, _, _ => by simp at h
  | _ :: _, [], h, _, _ => by simp at h
  | t :: ts, f :: fs, hl, hrun, m => by
    rw [List.flatten_cons, runList_append, runList_cons, hrun 0 t f rfl rfl m]
    exact runList_flatten_eq ts fs (by simpa using hl) (fun i t' f' ht hf => hrun (i + 1) t' f' (by simpa using ht) (by simpa using hf)) _

/-- **`refined_cells_any_interleaving`.** The goroutine of cell `i` need not be ONE atomic step (`cellStepM`, the
granularity of `cells_any_interleaving`): take ANY splitting of it into a list of atomic steps `tasks[i]` — element reads
of the state row, kernel arithmetic, element writes into the output rows, in any number — such that
* every step's declared footprint (reads and writes) lies inside the cell's own rows `{st i, out i}`, and
* run one after the other WITHOUT interference, the steps of the task have the effect of `cellStepM … i`.
Then EVERY interleaving of the steps of all cells (every schedule preserving each goroutine's own order) ends in the
memory image of `runCells`' result, the sequential cell-by-cell run. (A corollary of `disjoint_interleaving`: the
atomicity of the per-cell step in `CellTasks` is not needed for schedule independence.) -/
theorem refined_cells_any_interleaving (cells : List (List α)) (outs : List (List (List α))) (ss : List (List α))
    (os : List (List (List α))) (h : runCells km spec lay params inputs 0 cells outs = .ok (ss, os))
    (tasks : List (Task CAddr (CVal α))) (hlen : tasks.length = cells.length)
    (hfoot : ∀ (i : Nat) (t : Task CAddr (CVal α)), tasks[i]? = some t → ∀ s : Step CAddr (CVal α), s ∈ t →
      ∀ a : CAddr, a ∈ s.foot → a = CAddr.st i ∨ a = CAddr.out i)
    (hseq : ∀ (i : Nat) (t : Task CAddr (CVal α)), tasks[i]? = some t →
      ∀ m, runList t m = (cellStepM km spec lay params inputs i).run m)
    (sched : Sched CAddr (CVal α)) (hi : Interleaving tasks sched) :
    runSched sched (memOf cells outs) = memOf ss os := by
  have hd : TasksDisjoint tasks := by
    intro i j ti tj hti htj hij s hs t ht a ha ha'
    have h1 := hfoot i ti hti s hs a (by simp [Step.foot, ha])
    have h2 := hfoot j tj htj t ht a ha'
    rcases h1 with e | e <;> rcases h2 with e' | e' <;> rw [e] at e' <;> cases e' <;> exact hij rfl
  rw [disjoint_interleaving tasks hd sched hi]
  unfold seqRun
  rw [runList_flatten_eq tasks ((List.range cells.length).map (cellStepM km spec lay params inputs))
    (by simp [hlen]) ?_]
  · exact seq_eq_runCells km spec lay params inputs cells outs ss os h
  · intro i t f ht hf m
    rw [List.getElem?_map] at hf
    cases hr : (List.range cells.length)[i]? with
    | none => simp [hr] at hf
    | some k =>
      have hk : k = i := by
        obtain ⟨_, e⟩ := List.getElem?_eq_some_iff.mp hr
        simpa using e.symm
      subst hk
      simp only [hr, Option.map_some, Option.some.injEq] at hf
      subst hf
      exact hseq k t ht m

/-- non-vacuity: the one-step tasks of `CellTasks` meet the hypotheses (so the theorem generalises
`cells_any_interleaving`) … -/
example (cells : List (List α)) (outs : List (List (List α))) (ss : List (List α))
    (os : List (List (List α))) (h : runCells km spec lay params inputs 0 cells outs = .ok (ss, os))
    (sched : Sched CAddr (CVal α)) (hi : Interleaving (cellTasks km spec lay params inputs cells.length) sched) :
    runSched sched (memOf cells outs) = memOf ss os :=
  refined_cells_any_interleaving km spec lay params inputs cells outs ss os h _ (by simp [cellTasks])
    (fun i t ht s hs a ha => by
      rw [cellTasks_get km spec lay params inputs _ i t ht] at hs
      simp only [List.mem_singleton] at hs
      subst hs
      simp [cellStepM, Step.foot] at ha
      rcases ha with e | e | e | e <;> simp [e])
    (fun i t ht m => by
      rw [cellTasks_get km spec lay params inputs _ i t ht]; rfl)
    sched hi

/-- … and so does a genuinely split task: the cell's step followed by a second step that re-reads and rewrites the
cell's own state row unchanged (two atomic steps per goroutine) -/
def touchSt (i : Nat) : Step CAddr (CVal α) :=
  Step.ofFun [.st i] [.st i] (fun m a => m a) (fun m m' h a ha => h a (by simp [ha]))

example (cells : List (List α)) (outs : List (List (List α))) (ss : List (List α))
    (os : List (List (List α))) (h : runCells km spec lay params inputs 0 cells outs = .ok (ss, os))
    (sched : Sched CAddr (CVal α))
    (hi : Interleaving ((List.range cells.length).map fun i => [cellStepM km spec lay params inputs i, touchSt i]) sched) :
    runSched sched (memOf cells outs) = memOf ss os :=
  refined_cells_any_interleaving km spec lay params inputs cells outs ss os h _ (by simp)
    (fun i t ht s hs a ha => by
      rw [List.getElem?_map] at ht
      cases hr : (List.range cells.length)[i]? with
      | none => simp [hr] at ht
      | some k =>
        have hk : k = i := by
          obtain ⟨_, e⟩ := List.getElem?_eq_some_iff.mp hr
          simpa using e.symm
        subst hk
        simp only [hr, Option.map_some, Option.some.injEq] at ht
        subst ht
        simp only [List.mem_cons, List.mem_singleton, List.not_mem_nil, or_false] at hs
        rcases hs with e | e <;> subst e <;> simp [cellStepM, touchSt, Step.ofFun, Step.foot] at ha
        · rcases ha with e | e | e | e <;> simp [e]
        · simp [ha])
    (fun i t ht m => by
      rw [List.getElem?_map] at ht
      cases hr : (List.range cells.length)[i]? with
      | none => simp [hr] at ht
      | some k =>
        have hk : k = i := by
          obtain ⟨_, e⟩ := List.getElem?_eq_some_iff.mp hr
          simpa using e.symm
        subst hk
        simp only [hr, Option.map_some, Option.some.injEq] at ht
        subst ht
        simp only [runList_cons, runList_nil]
        funext a
        simp [touchSt, Step.ofFun])
    sched hi

end RefinedCells

/-! ### T4 — the `doneChan` join: no sender blocked forever, the parent returns only after all tasks finished -/

section Join
open OW.Sim.Join

theorem sumf_set (f : Phase → Nat) : ∀ (l : List Phase) (i : Nat) (a b : Phase), l[i]? = some a →
    sumf f (l.set i b) + f a = sumf f l + f b
  | [], i, a, b, h => by simp at h
  | p :: l, 0, a, b, h => by
    simp at h; subst h
    simp only [List.set_cons_zero, sumf]; omega
  | p :: l, i + 1, a, b, h => by
    have h' : l[i]? = some a := by simpa using h
    have := sumf_set f l i a b h'
    simp only [List.set_cons_succ, sumf]; omega

theorem sumf_isDone_le : ∀ l : List Phase, sumf isDone l ≤ l.length
  | [] => Nat.le_refl 0
  | p :: l => by
    have := sumf_isDone_le l
    cases p <;> simp only [sumf, isDone, List.length_cons] <;> omega

theorem sumf_isDone_lt : ∀ (l : List Phase) (i : Nat) (a : Phase), l[i]? = some a → a ≠ .done → sumf isDone l < l.length
  | [], i, a, h, _ => by simp at h
  | p :: l, 0, a, h, hne => by
    simp at h; subst h
    have := sumf_isDone_le l
    cases p <;> simp only [sumf, isDone, List.length_cons] <;> first | omega | exact absurd rfl hne
  | p :: l, i + 1, a, h, hne => by
    have h' : l[i]? = some a := by simpa using h
    have := sumf_isDone_lt l i a h' hne
    cases p <;> simp only [sumf, isDone, List.length_cons] <;> omega

theorem allDone_of_sumf_eq : ∀ l : List Phase, sumf isDone l = l.length → ∀ p, p ∈ l → p = .done := by
  intro l h p hp
  obtain ⟨i, hi⟩ := List.mem_iff_getElem?.mp hp
  by_cases hd : p = .done
  · exact hd
  · have := sumf_isDone_lt l i p hi hd
    omega

theorem sumf_eq_of_allDone : ∀ l : List Phase, (∀ p, p ∈ l → p = .done) → sumf isDone l = l.length
  | [], _ => rfl
  | p :: l, h => by
    have hp : p = .done := h p List.mem_cons_self
    subst hp
    have := sumf_eq_of_allDone l (fun q hq => h q (List.mem_cons_of_mem _ hq))
    simp only [sumf, isDone, List.length_cons]; omega

theorem weight_zero_allDone : ∀ l : List Phase, sumf weight l = 0 → ∀ p, p ∈ l → p = .done
  | [], _, p, hp => by simp at hp
  | q :: l, h, p, hp => by
    simp only [sumf] at h
    rcases List.mem_cons.mp hp with e | e
    · subst e
      cases p <;> simp only [weight] at h <;> first | rfl | omega
    · exact weight_zero_allDone l (by omega) p e

theorem sumf_weight_replicate : ∀ n : Nat, sumf weight (List.replicate n .running) = 2 * n
  | 0 => rfl
  | n + 1 => by
    have := sumf_weight_replicate n
    simp only [List.replicate_succ, sumf, weight]; omega

theorem sumf_isDone_replicate : ∀ n : Nat, sumf isDone (List.replicate n .running) = 0
  | 0 => rfl
  | n + 1 => by
    have := sumf_isDone_replicate n
    simp only [List.replicate_succ, sumf, isDone]; omega

theorem trans_length {s t : St} (h : Trans s t) : t.ph.length = s.ph.length := by
  cases h <;> simp

theorem reach_length {n : Nat} {s : St} (h : Reach n s) : s.ph.length = n := by
  induction h with
  | init => simp [init]
  | step _ ht ih => rw [trans_length ht, ih]

/-- invariant: the parent has received exactly as many values as goroutines are past their send -/
theorem reach_inv {n : Nat} {s : St} (h : Reach n s) : s.recvd = sumf isDone s.ph := by
  induction h with
  | init => simp [init, sumf_isDone_replicate]
  | @step s t _ ht ih =>
    cases ht with
    | finish i hi =>
      have := sumf_set isDone s.ph i .running .ready hi
      show s.recvd = sumf isDone (s.ph.set i .ready)
      simp only [isDone] at this
      omega
    | rendezvous i hi hlt =>
      have := sumf_set isDone s.ph i .ready .done hi
      show s.recvd + 1 = sumf isDone (s.ph.set i .done)
      simp only [isDone] at this
      omega

/-- every transition consumes exactly one remaining action -/
theorem trans_measure {s t : St} (h : Trans s t) : remaining t + 1 = remaining s := by
  cases h with
  | finish i hi =>
    have := sumf_set weight s.ph i .running .ready hi
    simp only [remaining, weight] at this ⊢
    omega
  | rendezvous i hi hlt =>
    have := sumf_set weight s.ph i .ready .done hi
    simp only [remaining, weight] at this ⊢
    omega

theorem path_reach {n : Nat} {s t : St} {k : Nat} (hs : Reach n s) (h : Path s t k) : Reach n t := by
  induction h with
  | nil => exact hs
  | snoc _ ht ih => exact Reach.step ih ht

theorem path_measure {s t : St} {k : Nat} (h : Path s t k) : remaining t + k = remaining s := by
  induction h with
  | nil => rfl
  | snoc _ ht ih => have := trans_measure ht; omega

/-- **T4a `sender_never_stuck`.** In every reachable state, a goroutine that is blocked at its send can complete it
right now: the parent still has a receive to do. (So no sender is blocked forever, whatever the other goroutines do.) -/
theorem sender_never_stuck (n : Nat) (s : St) (hr : Reach n s) (i : Nat) (hi : s.ph[i]? = some .ready) :
    ∃ t, Trans s t ∧ t.ph[i]? = some .done := by
  have hinv := reach_inv hr
  have hlt : s.recvd < s.ph.length := by
    rw [hinv]; exact sumf_isDone_lt s.ph i .ready hi (by decide)
  refine ⟨_, Trans.rendezvous s i hi hlt, ?_⟩
  have : i < s.ph.length := by
    rcases List.getElem?_eq_some_iff.mp hi with ⟨h, _⟩
    exact h
  simp [List.getElem?_set_self this]

/-- **T4b `join_progress`.** Deadlock freedom: every reachable state in which not all goroutines are done has a
successor. -/
theorem join_progress (n : Nat) (s : St) (hr : Reach n s) (hnd : ¬ AllDone s) : ∃ t, Trans s t := by
  have : ∃ p, p ∈ s.ph ∧ p ≠ .done := by
    apply Classical.byContradiction
    intro hne
    apply hnd
    intro p hp
    apply Classical.byContradiction
    intro hpd
    exact hne ⟨p, hp, hpd⟩
  obtain ⟨p, hp, hpd⟩ := this
  obtain ⟨i, hi⟩ := List.mem_iff_getElem?.mp hp
  cases p with
  | running => exact ⟨_, Trans.finish s i hi⟩
  | ready =>
    obtain ⟨t, ht, _⟩ := sender_never_stuck n s hr i hi
    exact ⟨t, ht⟩
  | done => exact absurd rfl hpd

/-- **T4c `return_only_after_all_finished`.** Whenever the parent has completed its N receives (it returns from
`Run` / `runGeneration`), every goroutine has finished its work and completed its send. -/
theorem return_only_after_all_finished (n : Nat) (s : St) (hr : Reach n s) (ht : Terminal s) : AllDone s := by
  have hinv := reach_inv hr
  unfold Terminal at ht
  exact allDone_of_sumf_eq s.ph (by omega)

/-- … and at the very moment of the parent's N-th receive no goroutine is still running -/
theorem last_receive_after_all_finished (n : Nat) (s t : St) (hr : Reach n s) (h : Trans s t)
    (hN : t.recvd = n) : ∀ p, p ∈ s.ph → p ≠ .running := by
  have hrt : Reach n t := Reach.step hr h
  have hall := return_only_after_all_finished n t hrt (by unfold Terminal; rw [hN, reach_length hrt])
  have hm := trans_measure h
  have h0 : remaining t = 0 := by
    have : sumf isDone t.ph = t.ph.length := sumf_eq_of_allDone t.ph hall
    -- all done ⇒ weight 0
    unfold remaining
    have hz : ∀ l : List Phase, (∀ p, p ∈ l → p = .done) → sumf weight l = 0 := by
      intro l
      induction l with
      | nil => intro _; rfl
      | cons q l ih =>
        intro hq
        have : q = .done := hq q List.mem_cons_self
        subst this
        simp only [sumf, weight, ih (fun r hr => hq r (List.mem_cons_of_mem _ hr))]
    exact hz t.ph hall
  -- remaining s = 1: a single `ready` goroutine, nobody running
  intro p hp hrun
  subst hrun
  obtain ⟨i, hi⟩ := List.mem_iff_getElem?.mp hp
  have hge : ∀ (l : List Phase) (i : Nat), l[i]? = some .running → 2 ≤ sumf weight l := by
    intro l
    induction l with
    | nil => intro i h; simp at h
    | cons q l ih =>
      intro i h
      cases i with
      | zero => simp at h; subst h; simp only [sumf, weight]; omega
      | succ i => have := ih i (by simpa using h); simp only [sumf]; omega
  have := hge s.ph i hi
  unfold remaining at hm h0
  omega

/-- **T4 `join_complete`.** For EVERY number `n` of goroutines (induction, not a bounded check): from the initial
state (all running, no receive done)
1. every execution has at most `2n` transitions (each goroutine finishes once and sends once);
2. every reachable state that is not all-done has a successor (no deadlock; in particular a blocked sender can
   always proceed — `sender_never_stuck`), so executions can only stop in an all-done state;
3. every execution of `2n` transitions ends in the terminal state: the parent has done its `n` receives and all
   goroutines are done;
4. the parent's `n`-th receive is completed only in states where all goroutines have finished. -/
theorem join_complete (n : Nat) :
    (∀ t k, Path (init n) t k → k ≤ 2 * n) ∧
    (∀ s, Reach n s → ¬ AllDone s → ∃ t, Trans s t) ∧
    (∀ t, Path (init n) t (2 * n) → Terminal t ∧ AllDone t) ∧
    (∀ s, Reach n s → Terminal s → AllDone s) ∧
    (∀ s, Reach n s → AllDone s → Terminal s) := by
  have hm0 : remaining (init n) = 2 * n := by simp [remaining, init, sumf_weight_replicate]
  refine ⟨?_, join_progress n, ?_, return_only_after_all_finished n, ?_⟩
  · intro t k hp
    have := path_measure hp
    omega
  · intro t hp
    have hmt := path_measure hp
    have hr : Reach n t := path_reach Reach.init hp
    have hall : AllDone t := weight_zero_allDone t.ph (by unfold remaining at hmt hm0; omega)
    refine ⟨?_, hall⟩
    unfold Terminal
    rw [reach_inv hr]
    exact sumf_eq_of_allDone t.ph hall
  · intro s hr hall
    unfold Terminal
    rw [reach_inv hr]
    exact sumf_eq_of_allDone s.ph hall

end Join

/-! ### T4' — the `sync.WaitGroup` join: `Wait()` returns only after every goroutine has called `Done()` -/

section JoinWG
open OW.Sim.JoinWG

theorem count_set_false : ∀ (l : List Bool) (i : Nat), l[i]? = some true → count (l.set i false) + 1 = count l
  | [], i, h => by simp at h
  | b :: l, 0, h => by
    simp at h; subst h; simp [count]; omega
  | b :: l, i+1, h => by
    have := count_set_false l i (by simpa using h)
    simp only [List.set_cons_succ, count]; omega

theorem count_replicate : ∀ n : Nat, count (List.replicate n true) = n
  | 0 => rfl
  | n+1 => by simp [List.replicate_succ, count, count_replicate n]; omega

theorem count_zero_allDone : ∀ l : List Bool, count l = 0 → ∀ b, b ∈ l → b = false
  | [], _, b, hb => by simp at hb
  | x :: l, h, b, hb => by
    cases x with
    | true => simp [count] at h
    | false =>
      simp [count] at h
      rcases List.mem_cons.mp hb with e | e
      · exact e
      · exact count_zero_allDone l h b e

theorem count_pos_of_running : ∀ (l : List Bool) (i : Nat), l[i]? = some true → 0 < count l
  | [], i, h => by simp at h
  | b :: l, 0, h => by simp at h; subst h; simp [count]; omega
  | b :: l, i+1, h => by
    have := count_pos_of_running l i (by simpa using h)
    simp only [count]; omega

theorem exists_running_of_count_pos : ∀ l : List Bool, 0 < count l → ∃ i : Nat, l[i]? = some true
  | [], h => by simp [count] at h
  | true :: l, _ => ⟨0, by simp⟩
  | false :: l, h => by
    have h' : 0 < count l := by simpa [count] using h
    obtain ⟨i, hi⟩ := exists_running_of_count_pos l h'
    exact ⟨i + 1, by simpa using hi⟩

theorem wg_reach_inv {n : Nat} {s : St} (h : Reach n s) :
    s.counter = count s.running ∧ (s.waited = true → count s.running = 0) := by
  induction h with
  | init => simp [init, count_replicate]
  | step _ ht ih =>
    cases ht with
    | done i hi =>
      have hc := count_set_false _ i hi
      have hp := count_pos_of_running _ i hi
      refine ⟨?_, ?_⟩
      · simp only; omega
      · intro hw
        have := ih.2 hw
        omega
    | wait h0 hw =>
      refine ⟨ih.1, ?_⟩
      intro _
      simp only
      omega

theorem wg_trans_measure {s t : St} (h : Trans s t) : remaining t + 1 = remaining s := by
  cases h with
  | done i hi =>
    have hc := count_set_false _ i hi
    have hp := count_pos_of_running _ i hi
    simp only [remaining]
    omega
  | wait h0 hw =>
    simp [remaining, hw]


theorem wg_path_reach {n : Nat} {s t : St} {k : Nat} (hs : Reach n s) (h : Path s t k) : Reach n t := by
  induction h with
  | nil => exact hs
  | snoc _ ht ih => exact Reach.step ih ht

theorem wg_path_measure {s t : St} {k : Nat} (h : Path s t k) : remaining t + k = remaining s := by
  induction h with
  | nil => simp
  | snoc _ ht ih => have := wg_trans_measure ht; omega

/-- `Done()` never drives the counter below zero: a goroutine that has not yet called it finds the counter positive -/
theorem wg_counter_positive (n : Nat) (s : St) (hr : Reach n s) (i : Nat) (hi : s.running[i]? = some true) : 0 < s.counter := by
  rw [(wg_reach_inv hr).1]
  exact count_pos_of_running s.running i hi

/-- no deadlock: as long as the parent's `Wait()` has not returned there is a next step (a `Done()`, or the `Wait()`) -/
theorem wg_progress (n : Nat) (s : St) (hr : Reach n s) (hw : s.waited = false) : ∃ t, Trans s t := by
  by_cases h0 : count s.running = 0
  · exact ⟨_, Trans.wait s (by rw [(wg_reach_inv hr).1]; exact h0) hw⟩
  · obtain ⟨i, hi⟩ := exists_running_of_count_pos s.running (by omega)
    exact ⟨_, Trans.done s i hi⟩

/-- the parent's `Wait()` has returned only in states where every goroutine has called `Done()` -/
theorem wg_wait_only_after_all_done (n : Nat) (s : St) (hr : Reach n s) (hw : s.waited = true) : AllDone s :=
  count_zero_allDone s.running ((wg_reach_inv hr).2 hw)

/-- **T4' `wg_join_complete`.** The `sync.WaitGroup` join (`Add(n)` before the launches, one `Done()` at the end of every
goroutine, `Wait()` after the launch loop), for EVERY number `n` of goroutines: from the initial state (counter `n`, all running)
1. every execution has at most `n + 1` transitions (each goroutine calls `Done()` once, the parent's `Wait()` returns once);
2. as long as `Wait()` has not returned there is a next step (`Done()` never blocks; `Wait()` is enabled when the counter is 0);
3. every execution of `n + 1` transitions ends with `Wait()` returned and all goroutines done;
4. `Wait()` has returned only in states where every goroutine has called `Done()` — `Run` returns only after all cells finished;
5. the counter never goes negative (a `Done()` always finds it positive). -/
theorem wg_join_complete (n : Nat) :
    (∀ t k, Path (init n) t k → k ≤ n + 1) ∧
    (∀ s, Reach n s → s.waited = false → ∃ t, Trans s t) ∧
    (∀ t, Path (init n) t (n + 1) → t.waited = true ∧ AllDone t) ∧
    (∀ s, Reach n s → s.waited = true → AllDone s) ∧
    (∀ (s : St) (i : Nat), Reach n s → s.running[i]? = some true → 0 < s.counter) := by
  have hm0 : remaining (init n) = n + 1 := by simp [remaining, init, count_replicate]
  refine ⟨?_, wg_progress n, ?_, wg_wait_only_after_all_done n, fun s i hr hi => wg_counter_positive n s hr i hi⟩
  · intro t k hp
    have := wg_path_measure hp
    omega
  · intro t hp
    have hmt := wg_path_measure hp
    have hr : Reach n t := wg_path_reach Reach.init hp
    have h0 : remaining t = 0 := by omega
    have hw : t.waited = true := by
      cases hwt : t.waited with
      | true => rfl
      | false => simp [remaining, hwt] at h0
    exact ⟨hw, wg_wait_only_after_all_done n t hr hw⟩

end JoinWG

/-! ### Non-vacuity -/

section Examples
open OW OW.Sim OW.Sim.CellTasks OW.Sim.Join

/-- `m[a] += 1` -/
def inc (a : Nat) : Step Nat Nat :=
  Step.ofFun [a] [a] (fun m _ => m a + 1) (by intro m m' h b _; simp [h a (by simp)])
/-- `m[0] = 1` -/
def setOne : Step Nat Nat := Step.ofFun [] [0] (fun _ _ => 1) (by intro _ _ _ _ _; rfl)
/-- `m[0] *= 2` -/
def dbl : Step Nat Nat := Step.ofFun [0] [0] (fun m _ => 2 * m 0) (by intro m m' h b _; simp [h 0 (by simp)])

/-- T1's hypothesis is satisfiable … -/
example : NoConflict (inc 0) (inc 1) := by
  constructor <;> intro a ha <;> simp [inc, Step.ofFun, Step.foot] at ha ⊢ <;> omega
example (m : Mem Nat Nat) : (inc 0).run ((inc 1).run m) = (inc 1).run ((inc 0).run m) :=
  steps_commute _ _ (by constructor <;> intro a ha <;> simp [inc, Step.ofFun, Step.foot] at ha ⊢ <;> omega) m
/-- … and needed: two steps that write the same address do not commute -/
example : setOne.run (dbl.run (fun _ => 0)) 0 = 1 ∧ dbl.run (setOne.run (fun _ => 0)) 0 = 2 := by
  simp [setOne, dbl, Step.ofFun]

/-- a toy kernel without arithmetic: the output series is the old state row, the new state row is the first input -/
def toyKernel {α : Type} : KModel α :=
  ⟨"toy", fun _ => .ok [], fun _ ins st => .ok { outputs := [st], states := ins.headD [] }⟩

/-- the hypothesis of T3 (`runCells` succeeds) is satisfiable: two cells sharing one input block -/
theorem toy_run {α : Type} [Num α] (a b u v : α) :
    runCells (toyKernel (α := α)) [] [] [] [[[u]]] 0 [[a], [b]] [[[v]], [[v]]] = .ok ([[u], [u]], [[[a]], [[b]]]) := by
  simp [runCells, cellStep, cellParams, cellParams.go, toyKernel, overwrite, bind, Except.bind, pure, Except.pure]

/-- T3 on it: running cell 1 before cell 0 gives the arrays of the sequential run -/
example {α : Type} [Num α] (a b u v : α) :
    runList ([1, 0].map (cellStepM (toyKernel (α := α)) [] [] [] [[[u]]])) (memOf [[a], [b]] [[[v]], [[v]]]) =
      memOf [[u], [u]] [[[a]], [[b]]] :=
  cells_schedule_independent toyKernel [] [] [] [[[u]]] [[a], [b]] [[[v]], [[v]]] _ _ (toy_run a b u v) [1, 0]
    (List.Perm.swap 0 1 [])

/-- T2's hypotheses are satisfiable by a non-sequential schedule: cell 1's goroutine runs first -/
example {α : Type} [Num α] (a b u v : α) :
    runSched [(1, cellStepM (toyKernel (α := α)) [] [] [] [[[u]]] 1), (0, cellStepM toyKernel [] [] [] [[[u]]] 0)]
        (memOf [[a], [b]] [[[v]], [[v]]]) = memOf [[u], [u]] [[[a]], [[b]]] := by
  apply cells_any_interleaving toyKernel [] [] [] [[[u]]] [[a], [b]] [[[v]], [[v]]] _ _ (toy_run a b u v)
  refine Interleaving.step 1 _ [] rfl (Interleaving.step 0 _ [] rfl (Interleaving.done ?_))
  intro t ht
  simp [cellTasks, List.range, List.range.loop] at ht
  rcases ht with rfl | rfl <;> rfl

/-- every list of tasks has at least one interleaving (the sequential one), and it runs to `seqRun` -/
example {Addr Val : Type} (ts : List (Task Addr Val)) : Interleaving ts (seqSched 0 ts) := by
  simpa using seqSched_interleaving ts 0

/-- T4: a concrete execution for two goroutines: 1 finishes, 0 finishes, 1 sends, 0 sends — the parent returns -/
example : Path (Join.init 2) ⟨[.done, .done], 2⟩ 4 :=
  Path.snoc (Path.snoc (Path.snoc (Path.snoc (Path.nil _)
    (Trans.finish (Join.init 2) 1 rfl))
    (Trans.finish ⟨[.running, .ready], 0⟩ 0 rfl))
    (Trans.rendezvous ⟨[.ready, .ready], 0⟩ 1 rfl (by decide)))
    (Trans.rendezvous ⟨[.ready, .done], 1⟩ 0 rfl (by decide))
/-- before all goroutines are done the parent has not returned: a state with `recvd = 2` and a running goroutine is
not reachable -/
example : ¬ Reach 2 ⟨[.running, .done], 2⟩ := by
  intro h
  have := return_only_after_all_finished 2 _ h rfl
  have := this .running (by simp)
  cases this
/-- the guard `recvd < N` of the rendezvous is what a missing receive would change: in the state where the parent
has already done all the receives it is going to do, a goroutine still waiting at its send has no transition — which
is why the run facts insist on exactly one receive per launched goroutine (`recvPerIter = 1`, `sameBound`) -/
example : ¬ ∃ t, Trans ⟨[.done, .ready], 2⟩ t := by
  intro ⟨t, h⟩
  cases h with
  | finish i hi =>
    have : i < 2 := by
      rcases List.getElem?_eq_some_iff.mp hi with ⟨h, _⟩
      simpa using h
    rcases i with _ | _ | i <;> simp at hi <;> omega
  | rendezvous i hi hlt => simp at hlt

/-- `workers_disjoint`: its hypotheses are satisfiable — three disjoint one-step cells, worker 0 got cells 0 and 2,
worker 1 got cell 1 -/
example : TasksDisjoint ([[0, 2], [1]].map (workerTask [[inc 0], [inc 1], [inc 2]])) := by
  apply workers_disjoint
  · intro i j ti tj hi hj hij s hs t ht
    have hi' : i < 3 := by
      rcases List.getElem?_eq_some_iff.mp hi with ⟨h, _⟩
      simpa using h
    have hj' : j < 3 := by
      rcases List.getElem?_eq_some_iff.mp hj with ⟨h, _⟩
      simpa using h
    rcases i with _ | _ | _ | i <;> rcases j with _ | _ | _ | j <;> simp at hi hj hij <;> try omega
    all_goals (subst hi; subst hj; simp at hs ht; subst hs; subst ht; intro a ha; simp [inc, Step.ofFun, Step.foot] at ha ⊢; omega)
  · exact groups_distinct [[0, 2], [1]] (by decide)

/-- `pool_cells_any_interleaving` on the toy kernel: ONE worker that received cell 1 and then cell 0 -/
example {α : Type} [Num α] (a b u v : α) :
    runSched [(0, cellStepM (toyKernel (α := α)) [] [] [] [[[u]]] 1), (0, cellStepM toyKernel [] [] [] [[[u]]] 0)]
        (memOf [[a], [b]] [[[v]], [[v]]]) = memOf [[u], [u]] [[[a]], [[b]]] := by
  apply pool_cells_any_interleaving toyKernel [] [] [] [[[u]]] [[a], [b]] [[[v]], [[v]]] _ _ (toy_run a b u v) [[1, 0]]
    (List.Perm.swap 0 1 [])
  have hw : workerTask (cellTasks (toyKernel (α := α)) [] [] [] [[[u]]] 2) [1, 0] =
      [cellStepM toyKernel [] [] [] [[[u]]] 1, cellStepM toyKernel [] [] [] [[[u]]] 0] := by
    simp [workerTask, cellTasks, List.range, List.range.loop]
  simp only [List.map_cons, List.map_nil, List.length_cons, List.length_nil, hw]
  refine Interleaving.step 0 _ _ rfl (Interleaving.step 0 _ [] rfl (Interleaving.done ?_))
  intro t ht
  simp at ht
  exact ht

/-- T4': a concrete execution for two goroutines: 1 calls `Done()`, 0 calls `Done()`, the parent's `Wait()` returns -/
example : OW.Sim.JoinWG.Path (OW.Sim.JoinWG.init 2) ⟨[false, false], 0, true⟩ 3 :=
  .snoc (.snoc (.snoc (.nil _) (.done _ 1 rfl)) (.done _ 0 rfl)) (.wait _ rfl rfl)
/-- before every goroutine has called `Done()` the parent's `Wait()` has not returned -/
example : ¬ OW.Sim.JoinWG.Reach 2 ⟨[true, false], 1, true⟩ := by
  intro h
  have := wg_wait_only_after_all_done 2 _ h rfl
  exact absurd (this true (by simp)) (by decide)
/-- the guard "counter = 0" of `Wait()` is what a wrong `Add` count would change: with `Add(1)` for two goroutines the
counter reaches zero — and `Wait()` is enabled — while a goroutine is still running; which is why the run facts insist on
the `Add` count being the launch count (`sameBound`) -/
example : ∃ t, OW.Sim.JoinWG.Trans ⟨[true, false], 0, false⟩ t ∧ t.waited = true := ⟨_, .wait _ rfl rfl, rfl⟩

end Examples

end OW.Props.C05
