import OW.Proofs.NdC02Bulk
/-!
C02 — bulk array operations equal their element-by-element, row-major definition; contiguity; integer helpers.

Only the property theorems (helper lemmas are in `OW/Proofs/NdC02*.lean`). The model the theorems are about is
`OW/Nd/{Ints,View,Array}.lean` (frozen; tied to /repo/data by the differential correspondence check).
Go `int` is `Int` (no overflow); all element types are covered by polymorphism in `α`.
-/
namespace OW.Props.C02
open OW.Nd

/-! ## Part A — integer index helpers (`data/sliceops.go`, `data/arraysint.go`) -/

/-- A1. `Product` as the Go loop computes it (left fold from 1) is the product of the list. -/
theorem productL_eq (ix : Idx) : productL ix = product ix := by
  unfold productL; rw [NdC02.foldl_mul_eq]; omega

/-- A1. The element count of a shape with all extents ≥ 1 is ≥ 1. -/
theorem product_pos {l : Idx} (h : Pos l) : 1 ≤ product l := NdC02.product_pos h

example : productL [2, 3, 4] = 24 ∧ product [2, 3, 4] = 24 := by decide

/-- A2. `Offsets(dims)` for non-empty `dims` succeeds and returns the row-major strides:
same length, entry `i` is the product of the extents after `i`; recursively
`offsets (d :: ds) = Π ds :: offsets ds`. An empty `dims` panics (index out of range). -/
theorem offsets_spec (dims : Idx) (hne : dims ≠ []) :
    offsets dims = .ok (offsetsT dims) ∧ (offsetsT dims).length = dims.length ∧
    (∀ i, i < dims.length → (offsetsT dims)[i]? = some (product (dims.drop (i + 1)))) ∧
    (∀ d ds, offsetsT (d :: ds) = product ds :: offsetsT ds) ∧
    offsets [] = .error "index-out-of-range" :=
  ⟨NdC02.offsets_ok hne, NdC02.offsetsT_length dims, NdC02.offsetsT_getElem? dims, NdC02.offsetsT_cons, rfl⟩

example : offsets [2, 3, 4] = .ok [12, 4, 1] := by decide

/-- A3. Mixed-radix bijection. For extents ≥ 1 and `0 ≤ k < Π dims`,
`IDivMod(k, Offsets(dims), dims)` succeeds and is the row-major multi-index `unravel k dims` of rank `k`:
it is in bounds and its row-major rank is `k`; conversely every in-bounds index is the `unravel` of its rank. -/
theorem idivmod_rowmajor {dims : Idx} (hd : Pos dims) :
    (∀ k, 0 ≤ k → k < product dims →
      idivmod k (offsetsT dims) dims = .ok (unravel k dims) ∧
      InBounds (unravel k dims) dims ∧ ravel (unravel k dims) dims = k) ∧
    (∀ i, InBounds i dims → unravel (ravel i dims) dims = i ∧ 0 ≤ ravel i dims ∧ ravel i dims < product dims) :=
  ⟨fun _ h0 h1 => ⟨NdC02.idivmod_rowmajor' hd h0 h1, NdC02.unravel_inBounds hd h0 h1, NdC02.ravel_unravel hd h0 h1⟩,
   fun _ h => ⟨NdC02.unravel_ravel h, NdC02.ravel_bounds h⟩⟩

/-- A3 (beyond the range). For any `k ≥ 0`, `IDivMod` yields the digits of `k mod Π dims` (it wraps, never fails). -/
theorem idivmod_wraps {dims : Idx} (hd : Pos dims) {k : Int} (h0 : 0 ≤ k) :
    idivmod k (offsetsT dims) dims = .ok (unravel (k % product dims) dims) := NdC02.idivmod_offsetsT hd h0

example : idivmod 17 (offsetsT [2, 3, 4]) [2, 3, 4] = .ok [1, 1, 1] ∧ unravel 17 [2, 3, 4] = [1, 1, 1]
    ∧ ravel [1, 1, 1] [2, 3, 4] = 17 := by decide

/-- A4. One `Increment(v, dims)` on an in-bounds index succeeds, stays in bounds, and advances the row-major
rank by one modulo the element count (the last index wraps to all zeros). -/
theorem increment_rowmajor {v dims : Idx} (h : InBounds v dims) :
    ∃ v', increment v dims = .ok v' ∧ InBounds v' dims ∧ ravel v' dims = (ravel v dims + 1) % product dims :=
  NdC02.increment_spec h

/-- A4. Iterating `Increment` `k` times from the all-zeros index gives the row-major index of rank `k`
(= `IDivMod(k, Offsets(dims), dims)`), for every `k < Π dims`. -/
theorem increment_iter {dims : Idx} (hd : Pos dims) (k : Nat) (hk : (k : Int) < product dims) :
    NdC02.incrN dims k (uniform dims.length 0) = .ok (unravel k dims) ∧
    idivmod k (offsetsT dims) dims = .ok (unravel k dims) := by
  have h := NdC02.incrN_spec k (NdC02.inBounds_zeros hd) (by rw [NdC02.ravel_zeros]; omega)
  rw [NdC02.ravel_zeros, Int.zero_add] at h
  exact ⟨h, NdC02.idivmod_rowmajor' hd (by omega) hk⟩

example : increment [0, 2, 3] [2, 3, 4] = .ok [1, 0, 0] ∧ increment [1, 2, 3] [2, 3, 4] = .ok [0, 0, 0] := by decide
example : NdC02.incrN [2, 3, 4] 17 [0, 0, 0] = .ok [1, 1, 1] := by decide

/-- A5. `Multiply(lhs, rhs)` is the pointwise product when `rhs` is at least as long as `lhs`
(in particular for equal lengths), and panics when `rhs` is shorter. -/
theorem multiply_spec (a b : Idx) :
    (a.length ≤ b.length → multiply a b = .ok (List.zipWith (· * ·) a b)) ∧
    (b.length < a.length → multiply a b = .error "index-out-of-range") :=
  ⟨NdC02.multiply_eq, NdC02.multiply_short⟩

/-- A5. `dotProduct(lhs, rhs)` is `Σ lhs[i]·rhs[i]` when `rhs` is at least as long as `lhs`, and panics when shorter. -/
theorem dotProduct_spec (a b : Idx) :
    (a.length ≤ b.length → dotProduct a b = .ok (List.zipWith (· * ·) a b).sum) ∧
    (b.length < a.length → dotProduct a b = .error "index-out-of-range") :=
  ⟨NdC02.dotProduct_eq, NdC02.dotProduct_short⟩

example : multiply [1, 2, 3] [4, 5, 6] = .ok [4, 10, 18] ∧ dotProduct [1, 2, 3] [4, 5, 6] = .ok 32 := by decide

/-- A5. `Maximum(vector)` of a non-empty list is a member of the list and an upper bound of it;
the empty list panics. -/
theorem maximum_spec :
    (∀ v vs, ∃ m, maximum (v :: vs) = .ok m ∧ m ∈ v :: vs ∧ ∀ x ∈ v :: vs, x ≤ m) ∧
    maximum [] = .error "index-out-of-range" :=
  ⟨fun v vs => ⟨_, rfl, NdC02.foldl_max_spec vs v⟩, rfl⟩

/-- A5. `Argmax(vector)` of a non-empty list is the LEAST index of a maximal element: `0 ≤ r < len`,
`vector[r]` is an upper bound of the list, and every earlier element is strictly smaller.
The empty list panics. -/
theorem argmax_spec :
    (∀ v vs, ∃ r m, argmax (v :: vs) = .ok r ∧ 0 ≤ r ∧ r < (v :: vs).length ∧
      (v :: vs)[r.toNat]? = some m ∧ (∀ x ∈ v :: vs, x ≤ m) ∧
      ∀ j : Nat, (j : Int) < r → ∀ x, (v :: vs)[j]? = some x → x < m) ∧
    argmax [] = .error "index-out-of-range" := by
  refine ⟨fun v vs => ?_, rfl⟩
  have h := NdC02.argmaxLoop_spec vs [v] 1 v 0 rfl (by omega) (by omega) (by simp) (by simp) (by intro j hj; omega)
  obtain ⟨h0, h1, m, hm, hub, hlt⟩ := h
  exact ⟨_, m, rfl, h0, h1, hm, hub, hlt⟩

example : argmax [1, 5, 2, 5] = .ok 1 ∧ maximum [1, 5, 2, 5] = .ok 5 := by decide

/-! ## Part B — contiguity (`Contiguous()` of `data/arrays.go`) -/

/-- B1. For every view reachable by in-bounds slicing of a root (any rank, stepped or not),
`Contiguous()` does not panic, and it reports `true` exactly when the elements are adjacent in storage in
row-major order: the element of row-major rank `k` is at address `Start + k`, for every `0 ≤ k < size`. -/
theorem contiguous_iff {v : View} (h : Reach v) :
    (v.contiguous = .ok true ↔
      ∀ k, 0 ≤ k → k < v.size → v.index (unravel k v.dims) = .ok (v.start + k)) ∧
    (∀ e, v.contiguous ≠ .error e) := by
  obtain ⟨hiff, b, hb⟩ := NdC02.contiguous_iff_geo (reach_geo h)
  exact ⟨hiff, fun e he => by rw [hb] at he; exact absurd he (by simp)⟩

/-- B1 (arithmetic form). `Contiguous()` is true exactly when every dimension with more than one element has
cumulative step 1 and all later dimensions are taken whole (`NdC02.Dense`). -/
theorem contiguous_dense {v : View} (h : Reach v) :
    (NdC02.Dense v.dims v.orig v.step → v.contiguous = .ok true) ∧
    (¬ NdC02.Dense v.dims v.orig v.step → v.contiguous = .ok false) :=
  NdC02.contiguous_eq (reach_geo h)

/-! ## Part C — bulk operations (`data/arrays_go.go`, `data/cdata/arrays_c.go`, `data/arrayops.go`)

Reference semantics (`OW/Proofs/NdC02Bulk.lean`): `NdC02.rowMajor dims` is the list of multi-indices of ranks
`0, 1, …, size-1` in row-major order; `NdC02.getAll h a idxs` is the sequential `Get` over a list of indices;
`NdC02.setAll h a idxs xs` the sequential `Set`. `ArrOK h a` (agentG, `OW/Proofs/NdC01.lean`) are the window
conditions: the storage exists, `0 ≤ base`, `base + len ≤` storage length, the allocated shape fits in `len`
(and in the `1<<30` C array type). -/

section
variable {α : Type}

/-- C1. `Unroll()` of a reachable, well-windowed array never panics and returns exactly the elements visited one by
one in row-major order (`getAll` over `rowMajor`; pointwise: entry `k` is `Get(unravel k dims)`).
Go back-end: a contiguous view is returned as an ALIAS of the window `[base+start, base+start+size)` of the same
storage (no copy), a non-contiguous view as a fresh slice. C back-end: always a fresh slice. -/
theorem unroll_spec (h : Heap α) (a : Arr) (hr : Reach a.v) (ok : ArrOK h a) :
    ∃ sl vals, unroll h a = .ok sl ∧ sliceVals h sl = .ok vals ∧
      NdC02.getAll h a (NdC02.rowMajor a.v.dims) = .ok vals ∧ vals.length = a.v.size.toNat ∧
      (∀ k : Nat, (k : Int) < a.v.size → ∃ x, vals[k]? = some x ∧ get h a (unravel (k : Int) a.v.dims) = .ok x) ∧
      (a.isC = false → a.v.contiguous = .ok true → sl = .alias a.sid (a.base + a.v.start) a.v.size) ∧
      (a.isC = false → a.v.contiguous = .ok false → sl = .fresh vals) ∧
      (a.isC = true → sl = .fresh vals) := by
  have g := reach_geo hr
  obtain ⟨vals, hv, hl⟩ := NdC02.elems_ok g ok
  have hpt := NdC02.elems_getElem hv
  obtain ⟨b, hb⟩ := (NdC02.contiguous_iff_geo g).2
  by_cases hgo : a.isC = false ∧ b = true
  · obtain ⟨hgo, rfl⟩ := hgo
    refine ⟨_, vals, NdC02.unroll_contig g ok hgo hb, ?_, hv, hl, hpt, fun _ _ => rfl, ?_, ?_⟩
    · rw [NdC02.sliceVals_alias_contig g ok hb, hv]
    · intro _ hc; rw [hb] at hc; exact absurd hc (by simp)
    · intro hc; rw [hgo] at hc; exact absurd hc (by simp)
  · have hcase : a.isC = true ∨ a.v.contiguous = .ok false := by
      cases hC : a.isC with
      | true => exact Or.inl rfl
      | false =>
        right; rw [hb]; cases b with
        | false => rfl
        | true => exact absurd ⟨hC, rfl⟩ hgo
    have hu : unroll h a = .ok (.fresh vals) := by
      rw [NdC02.unroll_gather hcase, NdC02.unrollGather_eq g, hv]; rfl
    refine ⟨_, vals, hu, rfl, hv, hl, hpt, ?_, fun _ _ => rfl, fun _ => rfl⟩
    intro hC hc
    rcases hcase with h1 | h1
    · rw [hC] at h1; exact absurd h1 (by simp)
    · rw [hc] at h1; exact absurd h1 (by simp)

/-- C2 (dead branch). The "Special case 1D" branch of `Reshape` is unreachable for reachable views: its guard
`Maximum(Dims) == 1` (with a 1-D new shape) forces a single-element view, which `Contiguous()` reports as
contiguous — so the earlier `contiguous || !reshapeToSeries` branch is always the one taken. -/
theorem reshape_special_dead {v : View} (hr : Reach v) (hm : maximum v.dims = .ok 1) :
    v.size = 1 ∧ v.contiguous = .ok true :=
  NdC02.max_one_contig (reach_geo hr) hm

/-- C2. `Reshape(newShape)` on a reachable, well-windowed array:
* returns the error `"size-mismatch"` (heap untouched) exactly when `Π newShape ≠ size`; it returns no other error value;
* otherwise, for a non-empty shape with extents ≥ 1, it succeeds with an array `b` whose view is a ROOT view of shape
  `newShape`, and element `k` (row-major) of `b` is element `k` (row-major) of `a`, for every `0 ≤ k < size`;
* contiguous view: the heap is unchanged and `b` ALIASES the storage of `a` (Go: `Impl` re-based to
  `base + start`, length `size`; C: same pointer, root view starting at `Start`);
* non-contiguous view (either back-end): `b` is Go-backed on a FRESH storage holding the row-major elements;
* a Go-backed result is again reachable and well-windowed (so all theorems apply to it). -/
theorem reshape_spec (h : Heap α) (a : Arr) (hr : Reach a.v) (ok : ArrOK h a) (s : Idx) :
    (product s ≠ a.v.size → reshape h a s = .ok (h, .inl "size-mismatch")) ∧
    (∀ h' m, reshape h a s = .ok (h', .inl m) → product s ≠ a.v.size ∧ m = "size-mismatch" ∧ h' = h) ∧
    (product s = a.v.size → s ≠ [] → Pos s → ∃ h' b, reshape h a s = .ok (h', .inr b) ∧
      b.v = rootView s (if a.isC = true ∧ a.v.contiguous = .ok true then a.v.start else 0) ∧
      (∀ k, 0 ≤ k → k < a.v.size →
        ∃ x, get h a (unravel k a.v.dims) = .ok x ∧ get h' b (unravel k s) = .ok x) ∧
      (a.v.contiguous = .ok true →
        h' = h ∧ b = (if a.isC = true then NdC02.cAliasArr a s else NdC02.aliasArr a s)) ∧
      (a.v.contiguous = .ok false → ∃ vals, NdC02.getAll h a (NdC02.rowMajor a.v.dims) = .ok vals ∧
        h' = h ++ [vals] ∧ b = NdC02.freshArr h vals s) ∧
      (b.isC = false → Reach b.v ∧ ArrOK h' b)) := by
  have g := reach_geo hr
  have hmis := NdC02.reshape_mismatch h a s
  obtain ⟨c, hc⟩ := (NdC02.contiguous_iff_geo g).2
  have helem : ∀ k, 0 ≤ k → k < a.v.size → ∃ x, get h a (unravel k a.v.dims) = .ok x := by
    intro k k0 k1
    obtain ⟨_, x, _, _, _, _, hx⟩ := NdC02.get_cell g ok (NdC02.unravel_inBounds g.pos_dims k0 k1)
    exact ⟨x, hx⟩
  have hsucc : product s = a.v.size → s ≠ [] → Pos s → ∃ h' b, reshape h a s = .ok (h', .inr b) ∧
      b.v = rootView s (if a.isC = true ∧ a.v.contiguous = .ok true then a.v.start else 0) ∧
      (∀ k, 0 ≤ k → k < a.v.size →
        ∃ x, get h a (unravel k a.v.dims) = .ok x ∧ get h' b (unravel k s) = .ok x) ∧
      (a.v.contiguous = .ok true →
        h' = h ∧ b = (if a.isC = true then NdC02.cAliasArr a s else NdC02.aliasArr a s)) ∧
      (a.v.contiguous = .ok false → ∃ vals, NdC02.getAll h a (NdC02.rowMajor a.v.dims) = .ok vals ∧
        h' = h ++ [vals] ∧ b = NdC02.freshArr h vals s) ∧
      (b.isC = false → Reach b.v ∧ ArrOK h' b) := by
    intro hsz hs hp
    cases c with
    | false =>
      obtain ⟨vals, hv, hl⟩ := NdC02.elems_ok g ok
      have hl' : (vals.length : Int) = product s := by
        have := NdC02.product_pos g.pos_dims
        rw [hl, hsz]; simp only [View.size]; omega
      refine ⟨_, _, NdC02.reshape_copy g hs hsz hc hv, ?_, ?_, ?_, fun _ => ⟨vals, hv, rfl, rfl⟩, fun _ =>
        ⟨NdC02.reach_rootView hs hp, NdC02.arrOK_fresh h vals hl'⟩⟩
      · have : ¬ (a.isC = true ∧ a.v.contiguous = .ok true) := by rw [hc]; simp
        rw [if_neg this]; rfl
      · intro k k0 k1
        have hk : ((k.toNat : Nat) : Int) = k := by omega
        obtain ⟨x, hx1, hx2⟩ := NdC02.elems_getElem hv k.toNat (by rw [hk]; exact k1)
        rw [hk] at hx2
        refine ⟨x, hx2, ?_⟩
        have := NdC02.get_fresh (h := h) hs hp hl' k.toNat (by rw [hk, hsz]; exact k1) hx1
        rwa [hk] at this
      · intro h1; rw [hc] at h1; exact absurd h1 (by simp)
    | true =>
      cases hC : a.isC with
      | true =>
        refine ⟨_, _, NdC02.reshape_c_alias g hs hsz hc hC, ?_, ?_, fun _ => ⟨rfl, by simp⟩, ?_, ?_⟩
        · rw [if_pos ⟨rfl, hc⟩]; rfl
        · intro k k0 k1
          obtain ⟨x, hx⟩ := helem k k0 k1
          exact ⟨x, hx, by rw [NdC02.get_cAlias g hc hp hsz k0 k1, hx]⟩
        · intro h1; rw [hc] at h1; exact absurd h1 (by simp)
        · intro h1
          have : (NdC02.cAliasArr a s).isC = a.isC := rfl
          rw [this, hC] at h1; exact absurd h1 (by simp)
      | false =>
        refine ⟨_, _, NdC02.reshape_go_alias g ok hs hsz hc hC, ?_, ?_, fun _ => ⟨rfl, by simp⟩, ?_, fun _ =>
          ⟨NdC02.reach_rootView hs hp, NdC02.arrOK_alias g ok hc hsz⟩⟩
        · rw [if_neg (by simp)]; rfl
        · intro k k0 k1
          obtain ⟨x, hx⟩ := helem k k0 k1
          exact ⟨x, hx, by rw [NdC02.get_alias g ok hc hs hp hsz k0 k1, hx]⟩
        · intro h1; rw [hc] at h1; exact absurd h1 (by simp)
  refine ⟨hmis, ?_, hsucc⟩
  intro h' m hres
  by_cases hsz : product s = a.v.size
  · exfalso
    by_cases hs : s = []
    · subst hs
      rw [NdC02.reshape_nil g ok hsz] at hres
      exact absurd hres (by simp)
    · -- a non-empty shape of the right size never yields an error value (no `Pos` needed for that)
      cases c with
      | false =>
        obtain ⟨vals, hv, _⟩ := NdC02.elems_ok g ok
        rw [NdC02.reshape_copy g hs hsz hc hv] at hres
        simp at hres
      | true =>
        cases hC : a.isC with
        | true => rw [NdC02.reshape_c_alias g hs hsz hc hC] at hres; simp at hres
        | false => rw [NdC02.reshape_go_alias g ok hs hsz hc hC] at hres; simp at hres
  · rw [hmis hsz] at hres
    simp only [Except.ok.injEq, Prod.mk.injEq, Sum.inl.injEq] at hres
    exact ⟨hsz, hres.2.symm, hres.1.symm⟩

/-- C2. `ReshapeFast(newShape)` returns the error `"not-contiguous"` exactly on non-contiguous views (checked
before anything else, heap untouched), and otherwise behaves exactly as `Reshape`. -/
theorem reshapeFast_spec (h : Heap α) (a : Arr) (hr : Reach a.v) (ok : ArrOK h a) (s : Idx) :
    (a.v.contiguous = .ok false → reshapeFast h a s = .ok (h, .inl "not-contiguous")) ∧
    (a.v.contiguous = .ok true → reshapeFast h a s = reshape h a s) ∧
    (∀ h', reshapeFast h a s = .ok (h', .inl "not-contiguous") → a.v.contiguous = .ok false) := by
  refine ⟨NdC02.reshapeFast_noncontig s, NdC02.reshapeFast_contig s, ?_⟩
  intro h' hres
  obtain ⟨c, hc⟩ := (NdC02.contiguous_iff_geo (reach_geo hr)).2
  cases c with
  | false => exact hc
  | true =>
    rw [NdC02.reshapeFast_contig s hc] at hres
    have := ((reshape_spec h a hr ok s).2.1 h' _ hres).2.1
    exact absurd this (by decide)

/-- C2. `MustReshape` is `Reshape` with the returned error turned into a panic. -/
theorem mustReshape_spec (h : Heap α) (a : Arr) (s : Idx) :
    (∀ h' b, reshape h a s = .ok (h', .inr b) → mustReshape h a s = .ok (h', b)) ∧
    (∀ h' m, reshape h a s = .ok (h', .inl m) → mustReshape h a s = .error m) := by
  constructor <;> intro h' x hres <;> simp [mustReshape, hres, bind, Except.bind, pure, Except.pure]

/-- C3. `Maximum()` / `Minimum()` (strict comparison `better v res`, e.g. `v > res`) of a reachable, well-windowed
array never panic and equal the left fold of "keep the better one" over the row-major element list, starting from
the first element (for a total order: the max / min of the elements; ties keep the earliest). -/
theorem extremum_spec (better : α → α → Bool) (h : Heap α) (a : Arr) (hr : Reach a.v) (ok : ArrOK h a) :
    ∃ v0 rest, NdC02.getAll h a (NdC02.rowMajor a.v.dims) = .ok (v0 :: rest) ∧
      extremum better h a = .ok ((v0 :: rest).foldl (fun res v => if better v res then v else res) v0) := by
  have g := reach_geo hr
  obtain ⟨vals, hv, hl⟩ := NdC02.elems_ok g ok
  have := NdC02.product_pos g.pos_dims
  cases vals with
  | nil => simp at hl; omega
  | cons v0 rest => exact ⟨v0, rest, hv, NdC02.extremum_eq g better hv⟩

end

end OW.Props.C02
