import OW.Proofs.NdC02Zip
import OW.Proofs.NdC02Slice
/-!
C02 — bulk array operations equal their element-by-element, row-major definition; contiguity; integer helpers.

Only the property theorems (helper lemmas are in `OW/Proofs/NdC02*.lean`). The model the theorems are about is
`OW/Nd/{Ints,View,Array}.lean` (frozen; tied to /repo/data by the differential correspondence check).
Go `int` is `Int` (no overflow); all element types are covered by polymorphism in `α`.
-/
namespace OW.Props.C02
open OW.Nd

/-! ## Part A — integer index helpers (`data/sliceops.go`, `data/arraysint.go`) -/

/-- A1. `Product` as the Go loop computes it (left fold from 1) is the product of the list. -/
theorem productL_eq (ix : Idx) : productL ix = product ix := by
  unfold productL; rw [NdC02.foldl_mul_eq]; omega

/-- A1. The element count of a shape with all extents ≥ 1 is ≥ 1. -/
theorem product_pos {l : Idx} (h : Pos l) : 1 ≤ product l := NdC02.product_pos h

example : productL [2, 3, 4] = 24 ∧ product [2, 3, 4] = 24 := by decide

/-- A2. `Offsets(dims)` for non-empty `dims` succeeds and returns the row-major strides:
same length, entry `i` is the product of the extents after `i`; recursively
`offsets (d :: ds) = Π ds :: offsets ds`. An empty `dims` panics (index out of range). -/
theorem offsets_spec (dims : Idx) (hne : dims ≠ []) :
    offsets dims = .ok (offsetsT dims) ∧ (offsetsT dims).length = dims.length ∧
    (∀ i, i < dims.length → (offsetsT dims)[i]? = some (product (dims.drop (i + 1)))) ∧
    (∀ d ds, offsetsT (d :: ds) = product ds :: offsetsT ds) ∧
    offsets [] = .error "index-out-of-range" :=
  ⟨NdC02.offsets_ok hne, NdC02.offsetsT_length dims, NdC02.offsetsT_getElem? dims, NdC02.offsetsT_cons, rfl⟩

example : offsets [2, 3, 4] = .ok [12, 4, 1] := by decide

/-- A3. Mixed-radix bijection. For extents ≥ 1 and `0 ≤ k < Π dims`,
`IDivMod(k, Offsets(dims), dims)` succeeds and is the row-major multi-index `unravel k dims` of rank `k`:
it is in bounds and its row-major rank is `k`; conversely every in-bounds index is the `unravel` of its rank. -/
theorem idivmod_rowmajor {dims : Idx} (hd : Pos dims) :
    (∀ k, 0 ≤ k → k < product dims →
      idivmod k (offsetsT dims) dims = .ok (unravel k dims) ∧
      InBounds (unravel k dims) dims ∧ ravel (unravel k dims) dims = k) ∧
    (∀ i, InBounds i dims → unravel (ravel i dims) dims = i ∧ 0 ≤ ravel i dims ∧ ravel i dims < product dims) :=
  ⟨fun _ h0 h1 => ⟨NdC02.idivmod_rowmajor' hd h0 h1, NdC02.unravel_inBounds hd h0 h1, NdC02.ravel_unravel hd h0 h1⟩,
   fun _ h => ⟨NdC02.unravel_ravel h, NdC02.ravel_bounds h⟩⟩

/-- A3 (beyond the range). For any `k ≥ 0`, `IDivMod` yields the digits of `k mod Π dims` (it wraps, never fails). -/
theorem idivmod_wraps {dims : Idx} (hd : Pos dims) {k : Int} (h0 : 0 ≤ k) :
    idivmod k (offsetsT dims) dims = .ok (unravel (k % product dims) dims) := NdC02.idivmod_offsetsT hd h0

example : idivmod 17 (offsetsT [2, 3, 4]) [2, 3, 4] = .ok [1, 1, 1] ∧ unravel 17 [2, 3, 4] = [1, 1, 1]
    ∧ ravel [1, 1, 1] [2, 3, 4] = 17 := by decide

/-- A4. One `Increment(v, dims)` on an in-bounds index succeeds, stays in bounds, and advances the row-major
rank by one modulo the element count (the last index wraps to all zeros). -/
theorem increment_rowmajor {v dims : Idx} (h : InBounds v dims) :
    ∃ v', increment v dims = .ok v' ∧ InBounds v' dims ∧ ravel v' dims = (ravel v dims + 1) % product dims :=
  NdC02.increment_spec h

/-- A4. Iterating `Increment` `k` times from the all-zeros index gives the row-major index of rank `k`
(= `IDivMod(k, Offsets(dims), dims)`), for every `k < Π dims`. -/
theorem increment_iter {dims : Idx} (hd : Pos dims) (k : Nat) (hk : (k : Int) < product dims) :
    NdC02.incrN dims k (uniform dims.length 0) = .ok (unravel k dims) ∧
    idivmod k (offsetsT dims) dims = .ok (unravel k dims) := by
  have h := NdC02.incrN_spec k (NdC02.inBounds_zeros hd) (by rw [NdC02.ravel_zeros]; omega)
  rw [NdC02.ravel_zeros, Int.zero_add] at h
  exact ⟨h, NdC02.idivmod_rowmajor' hd (by omega) hk⟩

example : increment [0, 2, 3] [2, 3, 4] = .ok [1, 0, 0] ∧ increment [1, 2, 3] [2, 3, 4] = .ok [0, 0, 0] := by decide
example : NdC02.incrN [2, 3, 4] 17 [0, 0, 0] = .ok [1, 1, 1] := by decide

/-- A5. `Multiply(lhs, rhs)` is the pointwise product when `rhs` is at least as long as `lhs`
(in particular for equal lengths), and panics when `rhs` is shorter. -/
theorem multiply_spec (a b : Idx) :
    (a.length ≤ b.length → multiply a b = .ok (List.zipWith (· * ·) a b)) ∧
    (b.length < a.length → multiply a b = .error "index-out-of-range") :=
  ⟨NdC02.multiply_eq, NdC02.multiply_short⟩

/-- A5. `dotProduct(lhs, rhs)` is `Σ lhs[i]·rhs[i]` when `rhs` is at least as long as `lhs`, and panics when shorter. -/
theorem dotProduct_spec (a b : Idx) :
    (a.length ≤ b.length → dotProduct a b = .ok (List.zipWith (· * ·) a b).sum) ∧
    (b.length < a.length → dotProduct a b = .error "index-out-of-range") :=
  ⟨NdC02.dotProduct_eq, NdC02.dotProduct_short⟩

example : multiply [1, 2, 3] [4, 5, 6] = .ok [4, 10, 18] ∧ dotProduct [1, 2, 3] [4, 5, 6] = .ok 32 := by decide

/-- A5. `Maximum(vector)` of a non-empty list is a member of the list and an upper bound of it;
the empty list panics. -/
theorem maximum_spec :
    (∀ v vs, ∃ m, maximum (v :: vs) = .ok m ∧ m ∈ v :: vs ∧ ∀ x ∈ v :: vs, x ≤ m) ∧
    maximum [] = .error "index-out-of-range" :=
  ⟨fun v vs => ⟨_, rfl, NdC02.foldl_max_spec vs v⟩, rfl⟩

/-- A5. `Argmax(vector)` of a non-empty list is the LEAST index of a maximal element: `0 ≤ r < len`,
`vector[r]` is an upper bound of the list, and every earlier element is strictly smaller.
The empty list panics. -/
theorem argmax_spec :
    (∀ v vs, ∃ r m, argmax (v :: vs) = .ok r ∧ 0 ≤ r ∧ r < (v :: vs).length ∧
      (v :: vs)[r.toNat]? = some m ∧ (∀ x ∈ v :: vs, x ≤ m) ∧
      ∀ j : Nat, (j : Int) < r → ∀ x, (v :: vs)[j]? = some x → x < m) ∧
    argmax [] = .error "index-out-of-range" := by
  refine ⟨fun v vs => ?_, rfl⟩
  have h := NdC02.argmaxLoop_spec vs [v] 1 v 0 rfl (by omega) (by omega) (by simp) (by simp) (by intro j hj; omega)
  obtain ⟨h0, h1, m, hm, hub, hlt⟩ := h
  exact ⟨_, m, rfl, h0, h1, hm, hub, hlt⟩

example : argmax [1, 5, 2, 5] = .ok 1 ∧ maximum [1, 5, 2, 5] = .ok 5 := by decide

/-! ## Part B — contiguity (`Contiguous()` of `data/arrays.go`) -/

/-- B1. For every view reachable by in-bounds slicing of a root (any rank, stepped or not),
`Contiguous()` does not panic, and it reports `true` exactly when the elements are adjacent in storage in
row-major order: the element of row-major rank `k` is at address `Start + k`, for every `0 ≤ k < size`. -/
theorem contiguous_iff {v : View} (h : Reach v) :
    (v.contiguous = .ok true ↔
      ∀ k, 0 ≤ k → k < v.size → v.index (unravel k v.dims) = .ok (v.start + k)) ∧
    (∀ e, v.contiguous ≠ .error e) := by
  obtain ⟨hiff, b, hb⟩ := NdC02.contiguous_iff_geo (reach_geo h)
  exact ⟨hiff, fun e he => by rw [hb] at he; exact absurd he (by simp)⟩

/-- B1 (arithmetic form). `Contiguous()` is true exactly when every dimension with more than one element has
cumulative step 1 and all later dimensions are taken whole (`NdC02.Dense`). -/
theorem contiguous_dense {v : View} (h : Reach v) :
    (NdC02.Dense v.dims v.orig v.step → v.contiguous = .ok true) ∧
    (¬ NdC02.Dense v.dims v.orig v.step → v.contiguous = .ok false) :=
  NdC02.contiguous_eq (reach_geo h)

/-! ## Part C — bulk operations (`data/arrays_go.go`, `data/cdata/arrays_c.go`, `data/arrayops.go`)

Reference semantics (`OW/Proofs/NdC02Bulk.lean`): `NdC02.rowMajor dims` is the list of multi-indices of ranks
`0, 1, …, size-1` in row-major order; `NdC02.getAll h a idxs` is the sequential `Get` over a list of indices;
`NdC02.setAll h a idxs xs` the sequential `Set`. `ArrOK h a` (agentG, `OW/Proofs/NdC01.lean`) are the window
conditions: the storage exists, `0 ≤ base`, `base + len ≤` storage length, the allocated shape fits in `len`
(and in the `1<<30` C array type). -/

section
variable {α : Type}

/-- C1. `Unroll()` of a reachable, well-windowed array never panics and returns exactly the elements visited one by
one in row-major order (`getAll` over `rowMajor`; pointwise: entry `k` is `Get(unravel k dims)`).
Go back-end: a contiguous view is returned as an ALIAS of the window `[base+start, base+start+size)` of the same
storage (no copy), a non-contiguous view as a fresh slice. C back-end: always a fresh slice. -/
theorem unroll_spec (h : Heap α) (a : Arr) (hr : Reach a.v) (ok : ArrOK h a) :
    ∃ sl vals, unroll h a = .ok sl ∧ sliceVals h sl = .ok vals ∧
      NdC02.getAll h a (NdC02.rowMajor a.v.dims) = .ok vals ∧ vals.length = a.v.size.toNat ∧
      (∀ k : Nat, (k : Int) < a.v.size → ∃ x, vals[k]? = some x ∧ get h a (unravel (k : Int) a.v.dims) = .ok x) ∧
      (a.isC = false → a.v.contiguous = .ok true → sl = .alias a.sid (a.base + a.v.start) a.v.size) ∧
      (a.isC = false → a.v.contiguous = .ok false → sl = .fresh vals) ∧
      (a.isC = true → sl = .fresh vals) := by
  have g := reach_geo hr
  obtain ⟨vals, hv, hl⟩ := NdC02.elems_ok g ok
  have hpt := NdC02.elems_getElem hv
  obtain ⟨b, hb⟩ := (NdC02.contiguous_iff_geo g).2
  by_cases hgo : a.isC = false ∧ b = true
  · obtain ⟨hgo, rfl⟩ := hgo
    refine ⟨_, vals, NdC02.unroll_contig g ok hgo hb, ?_, hv, hl, hpt, fun _ _ => rfl, ?_, ?_⟩
    · rw [NdC02.sliceVals_alias_contig g ok hb, hv]
    · intro _ hc; rw [hb] at hc; exact absurd hc (by simp)
    · intro hc; rw [hgo] at hc; exact absurd hc (by simp)
  · have hcase : a.isC = true ∨ a.v.contiguous = .ok false := by
      cases hC : a.isC with
      | true => exact Or.inl rfl
      | false =>
        right; rw [hb]; cases b with
        | false => rfl
        | true => exact absurd ⟨hC, rfl⟩ hgo
    have hu : unroll h a = .ok (.fresh vals) := by
      rw [NdC02.unroll_gather hcase, NdC02.unrollGather_eq g, hv]; rfl
    refine ⟨_, vals, hu, rfl, hv, hl, hpt, ?_, fun _ _ => rfl, fun _ => rfl⟩
    intro hC hc
    rcases hcase with h1 | h1
    · rw [hC] at h1; exact absurd h1 (by simp)
    · rw [hc] at h1; exact absurd h1 (by simp)

/-- C2 (dead branch). The "Special case 1D" branch of `Reshape` is unreachable for reachable views: its guard
`Maximum(Dims) == 1` (with a 1-D new shape) forces a single-element view, which `Contiguous()` reports as
contiguous — so the earlier `contiguous || !reshapeToSeries` branch is always the one taken. -/
theorem reshape_special_dead {v : View} (hr : Reach v) (hm : maximum v.dims = .ok 1) :
    v.size = 1 ∧ v.contiguous = .ok true :=
  NdC02.max_one_contig (reach_geo hr) hm

/-- C2. `Reshape(newShape)` on a reachable, well-windowed array:
* returns the error `"size-mismatch"` (heap untouched) exactly when `Π newShape ≠ size`; it returns no other error value;
* otherwise, for a non-empty shape with extents ≥ 1, it succeeds with an array `b` whose view is a ROOT view of shape
  `newShape`, and element `k` (row-major) of `b` is element `k` (row-major) of `a`, for every `0 ≤ k < size`;
* contiguous view: the heap is unchanged and `b` ALIASES the storage of `a` (Go: `Impl` re-based to
  `base + start`, length `size`; C: same pointer, root view starting at `Start`);
* non-contiguous view (either back-end): `b` is Go-backed on a FRESH storage holding the row-major elements;
* a Go-backed result is again reachable and well-windowed (so all theorems apply to it). -/
theorem reshape_spec (h : Heap α) (a : Arr) (hr : Reach a.v) (ok : ArrOK h a) (s : Idx) :
    (product s ≠ a.v.size → reshape h a s = .ok (h, .inl "size-mismatch")) ∧
    (∀ h' m, reshape h a s = .ok (h', .inl m) → product s ≠ a.v.size ∧ m = "size-mismatch" ∧ h' = h) ∧
    (product s = a.v.size → s ≠ [] → Pos s → ∃ h' b, reshape h a s = .ok (h', .inr b) ∧
      b.v = rootView s (if a.isC = true ∧ a.v.contiguous = .ok true then a.v.start else 0) ∧
      (∀ k, 0 ≤ k → k < a.v.size →
        ∃ x, get h a (unravel k a.v.dims) = .ok x ∧ get h' b (unravel k s) = .ok x) ∧
      (a.v.contiguous = .ok true →
        h' = h ∧ b = (if a.isC = true then NdC02.cAliasArr a s else NdC02.aliasArr a s)) ∧
      (a.v.contiguous = .ok false → ∃ vals, NdC02.getAll h a (NdC02.rowMajor a.v.dims) = .ok vals ∧
        h' = h ++ [vals] ∧ b = NdC02.freshArr h vals s) ∧
      (b.isC = false → Reach b.v ∧ ArrOK h' b)) := by
  have g := reach_geo hr
  have hmis := NdC02.reshape_mismatch h a s
  obtain ⟨c, hc⟩ := (NdC02.contiguous_iff_geo g).2
  have helem : ∀ k, 0 ≤ k → k < a.v.size → ∃ x, get h a (unravel k a.v.dims) = .ok x := by
    intro k k0 k1
    obtain ⟨_, x, _, _, _, _, hx⟩ := NdC02.get_cell g ok (NdC02.unravel_inBounds g.pos_dims k0 k1)
    exact ⟨x, hx⟩
  have hsucc : product s = a.v.size → s ≠ [] → Pos s → ∃ h' b, reshape h a s = .ok (h', .inr b) ∧
      b.v = rootView s (if a.isC = true ∧ a.v.contiguous = .ok true then a.v.start else 0) ∧
      (∀ k, 0 ≤ k → k < a.v.size →
        ∃ x, get h a (unravel k a.v.dims) = .ok x ∧ get h' b (unravel k s) = .ok x) ∧
      (a.v.contiguous = .ok true →
        h' = h ∧ b = (if a.isC = true then NdC02.cAliasArr a s else NdC02.aliasArr a s)) ∧
      (a.v.contiguous = .ok false → ∃ vals, NdC02.getAll h a (NdC02.rowMajor a.v.dims) = .ok vals ∧
        h' = h ++ [vals] ∧ b = NdC02.freshArr h vals s) ∧
      (b.isC = false → Reach b.v ∧ ArrOK h' b) := by
    intro hsz hs hp
    cases c with
    | false =>
      obtain ⟨vals, hv, hl⟩ := NdC02.elems_ok g ok
      have hl' : (vals.length : Int) = product s := by
        have := NdC02.product_pos g.pos_dims
        rw [hl, hsz]; simp only [View.size]; omega
      refine ⟨_, _, NdC02.reshape_copy g hs hsz hc hv, ?_, ?_, ?_, fun _ => ⟨vals, hv, rfl, rfl⟩, fun _ =>
        ⟨NdC02.reach_rootView hs hp, NdC02.arrOK_fresh h vals hl'⟩⟩
      · have : ¬ (a.isC = true ∧ a.v.contiguous = .ok true) := by rw [hc]; simp
        rw [if_neg this]; rfl
      · intro k k0 k1
        have hk : ((k.toNat : Nat) : Int) = k := by omega
        obtain ⟨x, hx1, hx2⟩ := NdC02.elems_getElem hv k.toNat (by rw [hk]; exact k1)
        rw [hk] at hx2
        refine ⟨x, hx2, ?_⟩
        have := NdC02.get_fresh (h := h) hs hp hl' k.toNat (by rw [hk, hsz]; exact k1) hx1
        rwa [hk] at this
      · intro h1; rw [hc] at h1; exact absurd h1 (by simp)
    | true =>
      cases hC : a.isC with
      | true =>
        refine ⟨_, _, NdC02.reshape_c_alias g hs hsz hc hC, ?_, ?_, fun _ => ⟨rfl, by simp⟩, ?_, ?_⟩
        · rw [if_pos ⟨rfl, hc⟩]; rfl
        · intro k k0 k1
          obtain ⟨x, hx⟩ := helem k k0 k1
          exact ⟨x, hx, by rw [NdC02.get_cAlias g hc hp hsz k0 k1, hx]⟩
        · intro h1; rw [hc] at h1; exact absurd h1 (by simp)
        · intro h1
          have : (NdC02.cAliasArr a s).isC = a.isC := rfl
          rw [this, hC] at h1; exact absurd h1 (by simp)
      | false =>
        refine ⟨_, _, NdC02.reshape_go_alias g ok hs hsz hc hC, ?_, ?_, fun _ => ⟨rfl, by simp⟩, ?_, fun _ =>
          ⟨NdC02.reach_rootView hs hp, NdC02.arrOK_alias g ok hc hsz⟩⟩
        · rw [if_neg (by simp)]; rfl
        · intro k k0 k1
          obtain ⟨x, hx⟩ := helem k k0 k1
          exact ⟨x, hx, by rw [NdC02.get_alias g ok hc hs hp hsz k0 k1, hx]⟩
        · intro h1; rw [hc] at h1; exact absurd h1 (by simp)
  refine ⟨hmis, ?_, hsucc⟩
  intro h' m hres
  by_cases hsz : product s = a.v.size
  · exfalso
    by_cases hs : s = []
    · subst hs
      rw [NdC02.reshape_nil g ok hsz] at hres
      exact absurd hres (by simp)
    · -- a non-empty shape of the right size never yields an error value (no `Pos` needed for that)
      cases c with
      | false =>
        obtain ⟨vals, hv, _⟩ := NdC02.elems_ok g ok
        rw [NdC02.reshape_copy g hs hsz hc hv] at hres
        simp at hres
      | true =>
        cases hC : a.isC with
        | true => rw [NdC02.reshape_c_alias g hs hsz hc hC] at hres; simp at hres
        | false => rw [NdC02.reshape_go_alias g ok hs hsz hc hC] at hres; simp at hres
  · rw [hmis hsz] at hres
    simp only [Except.ok.injEq, Prod.mk.injEq, Sum.inl.injEq] at hres
    exact ⟨hsz, hres.2.symm, hres.1.symm⟩

/-- C2. `ReshapeFast(newShape)` returns the error `"not-contiguous"` exactly on non-contiguous views (checked
before anything else, heap untouched), and otherwise behaves exactly as `Reshape`. -/
theorem reshapeFast_spec (h : Heap α) (a : Arr) (hr : Reach a.v) (ok : ArrOK h a) (s : Idx) :
    (a.v.contiguous = .ok false → reshapeFast h a s = .ok (h, .inl "not-contiguous")) ∧
    (a.v.contiguous = .ok true → reshapeFast h a s = reshape h a s) ∧
    (∀ h', reshapeFast h a s = .ok (h', .inl "not-contiguous") → a.v.contiguous = .ok false) := by
  refine ⟨NdC02.reshapeFast_noncontig s, NdC02.reshapeFast_contig s, ?_⟩
  intro h' hres
  obtain ⟨c, hc⟩ := (NdC02.contiguous_iff_geo (reach_geo hr)).2
  cases c with
  | false => exact hc
  | true =>
    rw [NdC02.reshapeFast_contig s hc] at hres
    have := ((reshape_spec h a hr ok s).2.1 h' _ hres).2.1
    exact absurd this (by decide)

/-- C2. `MustReshape` is `Reshape` with the returned error turned into a panic. -/
theorem mustReshape_spec (h : Heap α) (a : Arr) (s : Idx) :
    (∀ h' b, reshape h a s = .ok (h', .inr b) → mustReshape h a s = .ok (h', b)) ∧
    (∀ h' m, reshape h a s = .ok (h', .inl m) → mustReshape h a s = .error m) := by
  constructor <;> intro h' x hres <;> simp [mustReshape, hres, bind, Except.bind, pure, Except.pure]

/-- C3. `Maximum()` / `Minimum()` (strict comparison `better v res`, e.g. `v > res`) of a reachable, well-windowed
array never panic and equal the left fold of "keep the better one" over the row-major element list, starting from
the first element (for a total order: the max / min of the elements; ties keep the earliest). -/
theorem extremum_spec (better : α → α → Bool) (h : Heap α) (a : Arr) (hr : Reach a.v) (ok : ArrOK h a) :
    ∃ v0 rest, NdC02.getAll h a (NdC02.rowMajor a.v.dims) = .ok (v0 :: rest) ∧
      extremum better h a = .ok ((v0 :: rest).foldl (fun res v => if better v res then v else res) v0) := by
  have g := reach_geo hr
  obtain ⟨vals, hv, hl⟩ := NdC02.elems_ok g ok
  have := NdC02.product_pos g.pos_dims
  cases vals with
  | nil => simp at hl; omega
  | cons v0 rest => exact ⟨v0, rest, hv, NdC02.extremum_eq g better hv⟩

/-- C3. The whole-array helpers of `data/arrayops.go` (scale, add-to, apply-function; modelled by
`zipWithInto f`: `dest[k] = f dest[k] source[k]`, including the write-back `storeUnrolled` through a flat reshaped
view) on reachable, well-windowed arrays of the same shape held in DIFFERENT storages: for every contiguity
combination of source and destination and for both back-ends (Go/C, for either array) the call never panics and
the resulting heap is exactly the one obtained by visiting the elements one by one in row-major order
(`setAll` over `rowMajor`) with the values `f dest_k source_k` computed from the pre-state.
Pointwise: destination element `k` becomes `f dest_k source_k` for every `k`; the source is unchanged; no storage
changes length. -/
theorem zipWithInto_spec (f : α → α → α) (h : Heap α) (dest source : Arr) (hrd : Reach dest.v) (hrs : Reach source.v)
    (okd : ArrOK h dest) (oks : ArrOK h source) (hdims : source.v.dims = dest.v.dims)
    (hsid : dest.sid ≠ source.sid) :
    ∃ dv sv h', NdC02.getAll h dest (NdC02.rowMajor dest.v.dims) = .ok dv ∧
      NdC02.getAll h source (NdC02.rowMajor dest.v.dims) = .ok sv ∧
      zipWithInto f h dest source = .ok h' ∧
      NdC02.setAll h dest (NdC02.rowMajor dest.v.dims) (List.zipWith f dv sv) = .ok h' ∧
      (∀ k : Nat, (k : Int) < dest.v.size → ∃ dx sx,
        get h dest (unravel (k : Int) dest.v.dims) = .ok dx ∧ get h source (unravel (k : Int) dest.v.dims) = .ok sx ∧
        get h' dest (unravel (k : Int) dest.v.dims) = .ok (f dx sx)) ∧
      (∀ j, InBounds j source.v.dims → get h' source j = get h source j) ∧
      SameShape h h' ∧ ArrOK h' dest ∧ ArrOK h' source := by
  have gd := reach_geo hrd
  have gs := reach_geo hrs
  have hp := gd.pos_dims
  obtain ⟨dv, hdv, hld⟩ := NdC02.elems_ok gd okd
  obtain ⟨sv, hsv, hls⟩ := NdC02.elems_ok gs oks
  rw [hdims] at hsv hls
  have hib := NdC02.rowMajor_inBounds hp
  obtain ⟨h', hres, okd', oks', ss⟩ := NdC02.setAll_arrOK gd (b := source) (NdC02.rowMajor dest.v.dims)
    (List.zipWith f dv sv) h okd oks hib
  refine ⟨dv, sv, h', hdv, hsv, ?_, hres, ?_, ?_, ss, okd', oks'⟩
  · rw [NdC02.zipWithInto_eq f gd gs okd oks hdims hsid hdv hsv, hres]
  · intro k hk
    obtain ⟨dx, hdx1, hdx2⟩ := NdC02.elems_getElem hdv k hk
    have hsv' : NdC02.getAll h source (NdC02.rowMajor source.v.dims) = .ok sv := by rw [hdims]; exact hsv
    obtain ⟨sx, hsx1, hsx2⟩ := NdC02.elems_getElem hsv' k (by rw [hdims]; exact hk)
    rw [hdims] at hsx2
    refine ⟨dx, sx, hdx2, hsx2, ?_⟩
    have hidx := NdC02.rowMajorFrom_getElem? dest.v.dims 0 (product dest.v.dims).toNat k
      (by have : (k : Int) < product dest.v.dims := hk; omega)
    rw [Nat.zero_add] at hidx
    exact NdC02.setAll_get gd _ _ h h' okd hib (NdC02.rowMajor_nodup hp) hres k _ (f dx sx) hidx
      (by simp [List.getElem?_zipWith, hdx1, hsx1])
  · intro j hj
    exact NdC02.setAll_get_other gd gs (fun e => hsid e.symm) hj _ _ h h' okd oks hib hres

/-- C3. `Apply(loc, dim, step, vals)` on a reachable, well-windowed Go-backed array, for a run that lies inside the
array (`SliceOK`: `0 ≤ loc`, `step ≥ 1`, `vals` non-empty, last written index in bounds): whichever path the
contiguity test of the target slice selects, the result is the element loop
`Set(loc[dim ↦ loc[dim] + i·step], vals[i])`, `i = 0, 1, …` (`setAll` over `runIdxs`). In particular the contiguous
fast path (block copy `writeRun` into the aliased window) and the element loop produce the same heap. -/
theorem apply_paths_agree (h : Heap α) (a : Arr) (hr : Reach a.v) (ok : ArrOK h a) (hgo : a.isC = false)
    (loc : Idx) (dim step : Int) (vals : List α) (h0 : 0 ≤ dim) (h1 : dim < a.v.dims.length)
    (hok : SliceOK a.v.dims loc (NdC02.applyDims a dim vals.length) (NdC02.applySteps a dim step)) :
    ∃ start sl, loc[dim.toNat]? = some start ∧
      slice a loc (NdC02.applyDims a dim vals.length) (some (NdC02.applySteps a dim step)) = .ok sl ∧
      -- the result, whichever path is taken, is the element loop
      apply h a loc dim step vals =
        NdC02.setAll h a (NdC02.runIdxs loc dim.toNat start step 0 vals.length) vals ∧
      apply.go a loc step dim.toNat start h 0 vals =
        NdC02.setAll h a (NdC02.runIdxs loc dim.toNat start step 0 vals.length) vals ∧
      -- fast path taken iff the slice is contiguous, and then it is the block write
      (sl.v.contiguous = .ok true →
        apply h a loc dim step vals = .ok (writeRun h a.sid (a.base + sl.v.start).toNat vals) ∧
        apply.go a loc step dim.toNat start h 0 vals = .ok (writeRun h a.sid (a.base + sl.v.start).toNat vals)) ∧
      (sl.v.contiguous = .ok false → apply h a loc dim step vals = apply.go a loc step dim.toNat start h 0 vals) := by
  obtain ⟨start, sl, hl, hsl, _, _, hall, hloop, hfast, hslow⟩ :=
    NdC02.apply_go_spec (h := h) (vals := vals) (reach_geo hr) ok hgo h0 h1 hok
  exact ⟨start, sl, hl, hsl, hall, hloop, fun hc => ⟨hfast hc, by rw [hloop, ← hall, hfast hc]⟩, hslow⟩

/-- C3 (C back-end). `Apply` on a C-backed array is the element loop (there is no fast path). -/
theorem apply_c_loop (h : Heap α) (a : Arr) (hC : a.isC = true) (loc : Idx) (dim step start : Int) (vals : List α)
    (h0 : 0 ≤ dim) (h1 : dim < a.v.dims.length) (hl : loc[dim.toNat]? = some start) :
    apply h a loc dim step vals = NdC02.setAll h a (NdC02.runIdxs loc dim.toNat start step 0 vals.length) vals :=
  NdC02.apply_c_spec hC h0 h1 hl

/-- C3. `ApplySlice(loc, step, src)` for a reachable destination and source (window conditions, an in-bounds
request, **source and destination in different storages** — in the overlapping case the fast path is a `memmove`
and the loop a sequential copy, which genuinely differ, so it is excluded by hypothesis): on every path — Go
contiguous fast path `copy(slice.Unroll(), vals.Unroll())` with an aliased or a gathered source, Go element loop,
C element loop — the resulting heap is the one of the element loop `copyLoop` on the destination sub-array `sl`,
which is the sequential `Set` of the source's row-major elements (read in the pre-state) over the row-major indices
of `sl`. Pointwise: element `k` of `sl` becomes element `k` of the source; the source is unchanged. -/
theorem applySlice_paths_agree (h : Heap α) (a src : Arr) (hr : Reach a.v) (ok : ArrOK h a) (hrs : Reach src.v)
    (oks : ArrOK h src) (hsid : src.sid ≠ a.sid) (loc : Idx) (step : Option Idx)
    (okS : SliceOK a.v.dims loc src.v.dims (stepOr a.v.dims.length step)) :
    ∃ sl vals h', slice a loc src.v.dims step = .ok sl ∧ Reach sl.v ∧ sl.v.dims = src.v.dims ∧
      NdC02.getAll h src (NdC02.rowMajor src.v.dims) = .ok vals ∧
      applySlice h a loc step src = .ok h' ∧
      copyLoop h sl src src.v.dims = .ok h' ∧
      NdC02.setAll h sl (NdC02.rowMajor src.v.dims) vals = .ok h' ∧
      (∀ k : Nat, (k : Int) < src.v.size → ∃ x, get h src (unravel (k : Int) src.v.dims) = .ok x ∧
        get h' sl (unravel (k : Int) src.v.dims) = .ok x) ∧
      (∀ j, InBounds j src.v.dims → get h' src j = get h src j) ∧ SameShape h h' := by
  have g := reach_geo hr
  have gs := reach_geo hrs
  obtain ⟨vals, hv, _⟩ := NdC02.elems_ok gs oks
  obtain ⟨hslice, gS, hloop, hseq⟩ := NdC02.applySlice_loop g ok gs oks hsid okS hv
  obtain ⟨hl1, _, hl3⟩ := okS.lengths
  have hsl := sliceInto_eq g loc src.v.dims step hl1 hl3
  have okSl : ArrOK h (dstSlice a loc src.v.dims step) := ⟨ok.store, ok.base_nonneg, ok.fits, ok.cfits⟩
  have hib : ∀ i ∈ NdC02.rowMajor src.v.dims, InBounds i (dstSlice a loc src.v.dims step).v.dims :=
    NdC02.rowMajor_inBounds gs.pos_dims
  obtain ⟨h', hres, _, _, ss⟩ := NdC02.setAll_arrOK gS (b := src) (NdC02.rowMajor src.v.dims) vals h okSl oks hib
  refine ⟨_, vals, h', hslice, Reach.slice hr okS hsl, rfl, hv, by rw [hseq, hres], by rw [← hloop, hseq, hres], hres,
    ?_, ?_, ss⟩
  · intro k hk
    obtain ⟨x, hx1, hx2⟩ := NdC02.elems_getElem hv k hk
    refine ⟨x, hx2, ?_⟩
    have hidx := NdC02.rowMajorFrom_getElem? src.v.dims 0 (product src.v.dims).toNat k
      (by have : (k : Int) < product src.v.dims := hk; omega)
    rw [Nat.zero_add] at hidx
    exact NdC02.setAll_get gS _ _ h h' okSl hib (NdC02.rowMajor_nodup gs.pos_dims) hres k _ x hidx hx1
  · intro j hj
    exact NdC02.setAll_get_other gS gs hsid hj _ _ h h' okSl oks hib hres

/-- C3. `CopyFrom(other)` for two reachable, well-windowed arrays of the same shape in different storages: never
panics; the resulting heap is exactly the sequential `a.Set(idx, other.Get(idx))` over the row-major indices (values
read in the pre-state), whichever path (`copy` of unrolled slices, or the element loop) is taken and for both
back-ends; afterwards element `k` of `a` is element `k` of `other` for every `k`, and `other` is unchanged. -/
theorem copyFrom_spec (h : Heap α) (a other : Arr) (hr : Reach a.v) (ok : ArrOK h a) (hro : Reach other.v)
    (oko : ArrOK h other) (hsid : other.sid ≠ a.sid) (hshape : other.v.dims = a.v.dims) :
    ∃ vals h', NdC02.getAll h other (NdC02.rowMajor a.v.dims) = .ok vals ∧
      copyFrom h a other = .ok h' ∧
      copyLoop h a other a.v.dims = .ok h' ∧
      NdC02.setAll h a (NdC02.rowMajor a.v.dims) vals = .ok h' ∧
      (∀ k : Nat, (k : Int) < a.v.size → ∃ x, get h other (unravel (k : Int) a.v.dims) = .ok x ∧
        get h' a (unravel (k : Int) a.v.dims) = .ok x) ∧
      (∀ j, InBounds j other.v.dims → get h' other j = get h other j) ∧ SameShape h h' := by
  have g := reach_geo hr
  have okS : SliceOK a.v.dims (a.v.newIndex 0) other.v.dims (stepOr a.v.dims.length none) := by
    rw [hshape]; exact sliceOK_zero_ones a.v.dims g.pos_dims
  obtain ⟨sl, vals, h', hslice, _, _, hv, hres, hloop, hseq, hpt, hsrc, ss⟩ :=
    applySlice_paths_agree h a other hr ok hro oko hsid (a.v.newIndex 0) none okS
  have hsl : sl = a := by
    have e1 := (NdC02.applySlice_loop g ok (reach_geo hro) oko hsid okS hv).1
    rw [hslice] at e1
    injection e1 with e1
    rw [e1, hshape, NdC02.dstSlice_self g]
  subst hsl
  rw [hshape] at hv hloop hseq hpt
  exact ⟨vals, h', hv, hres, hloop, hseq, fun k hk => hpt k (by simpa [View.size, hshape] using hk), hsrc, ss⟩

end

/-! ## Non-vacuity: the hypotheses are met, and the operations are evaluated, on concrete views -/
namespace Ex

/-- storage 0: a 3×4 array `0..11`; storage 1: a 3×2 array `100..600` -/
def heap : Heap Int := [[0, 1, 2, 3, 4, 5, 6, 7, 8, 9, 10, 11], [100, 200, 300, 400, 500, 600]]
/-- the 3×4 root on storage 0 (Go-backed) -/
def root : Arr := { v := rootView [3, 4] 0, sid := 0, base := 0, len := 12, isC := false }
/-- the 3×2 root on storage 1 (Go-backed) and the same buffer seen as a C array -/
def small : Arr := { v := rootView [3, 2] 0, sid := 1, base := 0, len := 6, isC := false }
def smallC : Arr := { small with isC := true }
/-- a row-gapped slice `[0:3, 1:3]`, a column `[0:3, 2]` (1-wide dimension), a stepped slice `[0:3:2, 0:4:2]`,
whole rows `[1:3, :]`, a single element `[1, 2]` -/
def rowGap : Arr := { root with v := sliceView root.v [0, 1] [3, 2] none }
def col : Arr := { root with v := sliceView root.v [0, 2] [3, 1] none }
def stepped : Arr := { root with v := sliceView root.v [0, 0] [2, 2] (some [2, 2]) }
def rows : Arr := { root with v := sliceView root.v [1, 0] [2, 4] none }
def single : Arr := { root with v := sliceView root.v [1, 2] [1, 1] none }

theorem reach_root : Reach root.v := NdC02.reach_rootView (by decide) (by simp [Pos])
theorem reach_small : Reach small.v := NdC02.reach_rootView (by decide) (by simp [Pos])
theorem reach_rowGap : Reach rowGap.v := .slice reach_root (loc := [0, 1]) (dims := [3, 2]) (step := none)
  (by simp [root, rootView, SliceOK, stepOr, uniform]) rfl
theorem reach_col : Reach col.v := .slice reach_root (loc := [0, 2]) (dims := [3, 1]) (step := none)
  (by simp [root, rootView, SliceOK, stepOr, uniform]) rfl
theorem reach_stepped : Reach stepped.v := .slice reach_root (loc := [0, 0]) (dims := [2, 2]) (step := some [2, 2])
  (by simp [root, rootView, SliceOK, stepOr]) rfl
theorem reach_rows : Reach rows.v := .slice reach_root (loc := [1, 0]) (dims := [2, 4]) (step := none)
  (by simp [root, rootView, SliceOK, stepOr, uniform]) rfl
theorem reach_single : Reach single.v := .slice reach_root (loc := [1, 2]) (dims := [1, 1]) (step := none)
  (by simp [root, rootView, SliceOK, stepOr, uniform]) rfl

theorem ok_root : ArrOK heap root := ⟨⟨_, rfl, by decide⟩, by decide, by decide, by simp [root]⟩
theorem ok_small : ArrOK heap small := ⟨⟨_, rfl, by decide⟩, by decide, by decide, by simp [small]⟩
theorem ok_smallC : ArrOK heap smallC := ⟨⟨_, rfl, by decide⟩, by decide, by decide, fun _ => by decide⟩
theorem ok_rowGap : ArrOK heap rowGap := ⟨⟨_, rfl, by decide⟩, by decide, by decide, by simp [rowGap, root]⟩

-- B1: verdicts of `Contiguous()`
example : rowGap.v.contiguous = .ok false ∧ col.v.contiguous = .ok false ∧ stepped.v.contiguous = .ok false ∧
    rows.v.contiguous = .ok true ∧ single.v.contiguous = .ok true ∧ root.v.contiguous = .ok true := by decide
-- B1 applied: the whole rows `[1:3, :]` are the 8 cells from address 4
example : ∀ k, 0 ≤ k → k < 8 → rows.v.index (unravel k [2, 4]) = .ok (4 + k) :=
  (contiguous_iff reach_rows).1.mp rfl
-- B1 applied: the column is not adjacent in storage
example : ¬ ∀ k, 0 ≤ k → k < col.v.size → col.v.index (unravel k col.v.dims) = .ok (col.v.start + k) :=
  fun hall => absurd ((contiguous_iff reach_col).1.mpr hall) (by decide)

-- C1: Unroll gathers a gapped / stepped view row-major, aliases a contiguous Go view, copies a C view
example : (unroll heap rowGap >>= sliceVals heap) = .ok [1, 2, 5, 6, 9, 10] := by decide
example : (unroll heap stepped >>= sliceVals heap) = .ok [0, 2, 8, 10] := by decide
example : (unroll heap col >>= sliceVals heap) = .ok [2, 6, 10] := by decide
example : unroll heap rows = .ok (.alias 0 4 8) := rfl
example : unroll heap single = .ok (.alias 0 6 1) := rfl
example : unroll heap smallC = .ok (.fresh [100, 200, 300, 400, 500, 600]) := rfl

-- C2: Reshape
example : reshape heap rows [3] = .ok (heap, .inl "size-mismatch") := by decide
example : reshapeFast heap rowGap [6] = .ok (heap, .inl "not-contiguous") := by decide
example : reshape heap rows [8] = .ok (heap, .inr (NdC02.aliasArr rows [8])) := by decide
example : reshape heap rowGap [2, 3] =
    .ok (heap ++ [[1, 2, 5, 6, 9, 10]], .inr (NdC02.freshArr heap [1, 2, 5, 6, 9, 10] [2, 3])) := by decide
example : reshape heap smallC [6] = .ok (heap, .inr (NdC02.cAliasArr smallC [6])) := by decide

-- C3: Maximum / Minimum of a stepped view
example : extremum (fun v r => decide (v > r)) heap stepped = .ok 10 ∧
    extremum (fun v r => decide (v < r)) heap stepped = .ok 0 := by decide

-- C3: add-to, every contiguity / back-end combination used below has source and destination in different storages
example : zipWithInto (· + ·) heap rowGap small =
    .ok [[0, 101, 202, 3, 4, 305, 406, 7, 8, 509, 610, 11], [100, 200, 300, 400, 500, 600]] := by decide
example : zipWithInto (· + ·) heap small rowGap =
    .ok [[0, 1, 2, 3, 4, 5, 6, 7, 8, 9, 10, 11], [101, 202, 305, 406, 509, 610]] := by decide
example : zipWithInto (· + ·) heap smallC rowGap =
    .ok [[0, 1, 2, 3, 4, 5, 6, 7, 8, 9, 10, 11], [101, 202, 305, 406, 509, 610]] := by decide
example : zipWithInto (fun _ s => 2 * s) heap rowGap smallC =
    .ok [[0, 200, 400, 3, 4, 600, 800, 7, 8, 1000, 1200, 11], [100, 200, 300, 400, 500, 600]] := by decide

-- C3: Apply — a row segment takes the fast path, a column segment the element loop
example : apply heap root [1, 1] 1 1 [70, 71, 72] =
    .ok [[0, 1, 2, 3, 4, 70, 71, 72, 8, 9, 10, 11], [100, 200, 300, 400, 500, 600]] := by decide
example : apply heap root [0, 1] 0 1 [70, 71, 72] =
    .ok [[0, 70, 2, 3, 4, 71, 6, 7, 8, 72, 10, 11], [100, 200, 300, 400, 500, 600]] := by decide
example : SliceOK root.v.dims [1, 1] (NdC02.applyDims root 1 3) (NdC02.applySteps root 1 1) := by
  simp [root, rootView, NdC02.applyDims, NdC02.applySteps, uniform, SliceOK]

-- C3: CopyFrom / ApplySlice into a gapped view
example : copyFrom heap rowGap small =
    .ok [[0, 100, 200, 3, 4, 300, 400, 7, 8, 500, 600, 11], [100, 200, 300, 400, 500, 600]] := by decide
example : applySlice heap root [0, 2] none small =
    .ok [[0, 1, 100, 200, 4, 5, 300, 400, 8, 9, 500, 600], [100, 200, 300, 400, 500, 600]] := by decide

-- the theorems instantiated (hypotheses discharged) on these arrays
example := unroll_spec heap rowGap reach_rowGap ok_rowGap
example := reshape_spec heap rowGap reach_rowGap ok_rowGap [2, 3]
example := extremum_spec (fun v r => decide (v > r)) heap rowGap reach_rowGap ok_rowGap
example := zipWithInto_spec (· + ·) heap rowGap small reach_rowGap reach_small ok_rowGap ok_small rfl (by decide)
example := zipWithInto_spec (· + ·) heap smallC rowGap reach_small reach_rowGap ok_smallC ok_rowGap rfl (by decide)
example := copyFrom_spec heap rowGap small reach_rowGap ok_rowGap reach_small ok_small (by decide) rfl
example := applySlice_paths_agree heap root small reach_root ok_root reach_small ok_small (by decide) [0, 2] none
  (by simp [root, small, rootView, SliceOK, stepOr, uniform])
example := apply_paths_agree heap root reach_root ok_root rfl [1, 1] 1 1 [70, 71, 72] (by decide) (by decide)
  (by simp [root, rootView, NdC02.applyDims, NdC02.applySteps, uniform, SliceOK])
example := contiguous_dense reach_stepped


/-! ### why the two-array theorems exclude overlapping storages (same `sid`)

`r4` is a 4-element root, `hi = r4[1:4]`, `lo = r4[0:3]` overlap in storage 0. -/
def heap4 : Heap Int := [[1, 2, 3, 4]]
def r4 : Arr := { v := rootView [4] 0, sid := 0, base := 0, len := 4, isC := false }
def hi : Arr := { r4 with v := sliceView r4.v [1] [3] none }
def lo : Arr := { r4 with v := sliceView r4.v [0] [3] none }

/-- `zipWithInto_spec` needs `dest.sid ≠ source.sid`: on overlapping views the running sum sees its own writes
(`2+1, 3+3, 4+6`), which is not `f dest_k source_k` of the pre-state (`2+1, 3+2, 4+3`). -/
example : zipWithInto (· + ·) heap4 hi lo = .ok [[1, 3, 6, 10]] ∧
    NdC02.setAll heap4 hi (NdC02.rowMajor [3]) (List.zipWith (· + ·) [2, 3, 4] [1, 2, 3]) = .ok [[1, 3, 5, 7]] := by
  decide

/-- `applySlice_paths_agree` / `copyFrom_spec` need `src.sid ≠ a.sid`: on overlapping views the Go fast path is a
`memmove` (`1 1 2 3`) while the element loop — the only path of the C back-end — propagates the first element
(`1 1 1 1`). -/
example : copyFrom heap4 hi lo = .ok [[1, 1, 2, 3]] ∧
    copyFrom heap4 { hi with isC := true } { lo with isC := true } = .ok [[1, 1, 1, 1]] ∧
    copyLoop heap4 hi lo [3] = .ok [[1, 1, 1, 1]] := by decide

/-! ### why `zipWithInto_spec` assumes IDENTICAL shapes (`hdims`) -/

/-- **zipWithInto_shape_mismatch_paths_differ.** Off the hypothesis `source.v.dims = dest.v.dims` of `zipWithInto_spec` the
two paths of `data/arrayops.go` pair DIFFERENT elements: the contiguous fast path pairs flat positions (`dest[k] ↔ source[k]`
of the unrolled slices), the general path pairs multi-indices (`dest[i,j] ↔ source[i,j]`). A `2×3` source `0 … 5` applied
(`ApplyFunc1`-style, `f _ s = s`) to a contiguous `2×2` destination gives `[0,1,2,3]`; to the same `2×2` destination as a
gapped view of a `2×3` root gives `[0,1,3,4]`. (Every caller in the repository passes arrays of equal shape.) -/
theorem zipWithInto_shape_mismatch_paths_differ :
    let h : Heap Int := [[9, 9, 9, 9], [9, 9, 9, 9, 9, 9], [0, 1, 2, 3, 4, 5]]
    let src : Arr := ⟨rootView [2, 3] 0, 2, 0, 6, false⟩
    let dContig : Arr := ⟨rootView [2, 2] 0, 0, 0, 4, false⟩
    let dRoot : Arr := ⟨rootView [2, 3] 0, 1, 0, 6, false⟩
    let dGap : Arr := { dRoot with v := sliceView dRoot.v [0, 0] [2, 2] none }
    zipWithInto (fun _ s => s) h dContig src = .ok [[0, 1, 2, 3], [9, 9, 9, 9, 9, 9], [0, 1, 2, 3, 4, 5]] ∧
    zipWithInto (fun _ s => s) h dGap src = .ok [[9, 9, 9, 9], [0, 1, 9, 3, 4, 9], [0, 1, 2, 3, 4, 5]] := by decide

/-! ### why the success clause of `reshape_spec` assumes `s ≠ []` and extents `≥ 1` -/

/-- **reshape_nil.** `Reshape([]int{})` of a single-element view (element count `Π [] = 1` matches) does not return an
error value: it PANICS (index out of range in `Offsets`), on both back-ends. -/
theorem reshape_nil {α : Type} {h : Heap α} {a : Arr} (hr : Reach a.v) (ok : ArrOK h a) (hsz : product [] = a.v.size) :
    reshape h a [] = .error "index-out-of-range" :=
  NdC02.reshape_nil (reach_geo hr) ok hsz

example : reshape heap single [] = .error "index-out-of-range" :=
  reshape_nil reach_single ⟨⟨_, rfl, by decide⟩, by decide, by decide, by simp [single, root]⟩ (by decide)

/-! ### the integer helpers outside their specified range: Go's truncated division -/

/-- `IDivMod` on a NEGATIVE `k` (outside `idivmod_rowmajor` / `idivmod_wraps`, which need `0 ≤ k`) follows Go's truncated
`/` and `%`: digits of mixed sign, not the mathematical residues. `Increment` beyond in-bounds indices and `Offsets` on
non-positive extents are likewise outside the specs (`increment_rowmajor` needs `InBounds`, `offsets_spec` is unconditional
on `dims ≠ []`). -/
example : idivmod (-5) (offsetsT [2, 3]) [2, 3] = .ok [-1, -2] ∧ unravel ((-5) % product [2, 3]) [2, 3] = [0, 1] := by decide

end Ex

end OW.Props.C02
