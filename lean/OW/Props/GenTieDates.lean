import OW.Gen.Kernels
import OW.Util.Dates
import OW.Kernels.DateGenerator
import OW.Props.GenTieBase
namespace OW.Props.GenTie
open OW OW.Gen.K OW.Gen.Prelude
set_option linter.unusedSimpArgs false

/-! ### models/functions/dates.go -/

/-- a multiple of `b` is a multiple of every divisor `a` of `b` (the three tests of the Gregorian rule may come in any order) -/
theorem tmod_zero_of_dvd (y a b : Int) (hab : a ∣ b) (h : Int.tmod y b = 0) : Int.tmod y a = 0 :=
  Int.tmod_eq_zero_of_dvd (Int.dvd_trans hab (Int.dvd_of_tmod_eq_zero h))

theorem gen_eq_DateGenerator_leapYear {α} [Num α] (y : Int) :
    dateGenerator.leapYear (α := α) y = Dates.leapYear y := by
  unfold dateGenerator.leapYear Dates.leapYear
  have d1 := tmod_zero_of_dvd y 4 100 (by decide)
  have d2 := tmod_zero_of_dvd y 4 400 (by decide)
  have d3 := tmod_zero_of_dvd y 100 400 (by decide)
  by_cases h4 : Int.tmod y 4 = 0 <;> by_cases h100 : Int.tmod y 100 = 0 <;> by_cases h400 : Int.tmod y 400 = 0 <;>
    simp_all

theorem gen_eq_DateGenerator_daysInMonth {α} [Num α] (m y : Int) :
    dateGenerator.daysInMonth (α := α) m y = Dates.daysInMonth m y := by
  unfold dateGenerator.daysInMonth Dates.daysInMonth intTable Dates.dimTable
  rw [gen_eq_DateGenerator_leapYear]
  by_cases h2 : m = 2 <;> cases hl : Dates.leapYear y <;> simp [h2, hl]

/-- the month loop of `_dayOfYear`: `forRangeO` over `[1, m)` is the fuelled loop of the hand model -/
theorem gen_eq_DateGenerator_doyLoop (body : Int → Int → Option Int) (y m : Int)
    (hb : ∀ mi doy, body mi doy = (Dates.daysInMonth mi y).map (fun k => doy + k))
    (fuel : Nat) (mi acc : Int) (h : mi + fuel = m) :
    forRangeNO body fuel mi acc = Dates.doyLoop y m fuel mi acc := by
  induction fuel generalizing mi acc with
  | zero => rfl
  | succ n ih =>
    unfold forRangeNO Dates.doyLoop
    have hlt : mi < m := by omega
    simp only [hlt, ↓reduceIte, hb]
    cases Dates.daysInMonth mi y with
    | none => rfl
    | some k => exact ih (mi + 1) (acc + k) (by omega)

theorem gen_eq_DateGenerator_dayOfYear {α} [Num α] (d m y : Int) :
    dateGenerator._dayOfYear (α := α) d m y = Dates.dayOfYear d m y := by
  unfold dateGenerator._dayOfYear Dates.dayOfYear forRangeO
  dsimp only
  by_cases hm : 1 ≤ m
  · rw [gen_eq_DateGenerator_doyLoop _ y m (fun mi doy => by
        simp only [gen_eq_DateGenerator_daysInMonth]
        cases Dates.daysInMonth mi y <;> rfl) (m - 1).toNat 1 0 (by omega)]
    cases Dates.doyLoop y m (m - 1).toNat 1 0 <;> rfl
  · have : (m - 1).toNat = 0 := by omega
    rw [this]
    rfl

/-- a month whose length the table gives is one of the twelve (so the month can only pass December by the increment at the end
of a month: the test `m > 12` may stand inside that branch or after it) -/
theorem daysInMonth_some_le (m y dim : Int) (h : Dates.daysInMonth m y = some dim) : 1 ≤ m ∧ m ≤ 12 := by
  unfold Dates.daysInMonth at h
  by_cases h2 : m = 2
  · omega
  · have h2' : (m == 2) = false := by simpa using h2
    simp only [h2', Bool.false_and, Bool.false_eq_true, ↓reduceIte] at h
    split at h
    · cases h
    · rename_i hneg
      by_cases hlt : (m - 1).toNat < 12
      · omega
      · rw [List.getElem?_eq_none (by simp [Dates.dimTable]; omega)] at h
        cases h

/-- `dateGenerator`: the three start parameters are truncated with `int(…)` before the loop (`init`; `d, m, y` are hidden
state: carried between iterations, not returned); one iteration — day of year through the translated helpers `_dayOfYear`,
`daysInMonth`, `leapYear` and the table `DAYS_IN_MONTH`, then the calendar increment — is `Dates.step` (`none` = the index
panic of the table lookup), the four outputs being `float64` of the ints. -/
theorem gen_eq_DateGenerator {α} [Num α] (startDate startMonth startYear tick : α) (t : Dates.Date) :
    dateGenerator.guard startDate startMonth startYear = false ∧
    dateGenerator.init startDate startMonth startYear = (Num.toInt startDate, Num.toInt startMonth, Num.toInt startYear) ∧
    dateGenerator.step startDate startMonth startYear t.d t.m t.y tick =
      (match Dates.step t with
       | none => none
       | some (r, t') => some ((t'.d, t'.m, t'.y),
           ((Num.ofInt r.date : α), (Num.ofInt r.month : α), (Num.ofInt r.year : α), (Num.ofInt r.doy : α)))) := by
  refine ⟨rfl, rfl, ?_⟩
  unfold dateGenerator.step Dates.step
  simp only [gen_unfold, ↓gen_eq_DateGenerator_dayOfYear, ↓gen_eq_DateGenerator_daysInMonth]
  cases Dates.dayOfYear t.d t.m t.y with
  | none => rfl
  | some doy =>
    cases hd : Dates.daysInMonth t.m t.y with
    | none => rfl
    | some dim =>
      have hm := daysInMonth_some_le t.m t.y dim hd
      dsimp only
      have e1 : (t.d + 1 ≤ dim) = ¬ (dim < t.d + 1) := by simp only [Int.not_lt]
      simp only [gt_iff_lt, ge_iff_le, e1]
      by_cases c1 : dim < t.d + 1 <;> by_cases c2 : 12 < t.m + 1 <;> by_cases c3 : 12 < t.m <;>
        simp only [c1, c2, c3, ↓reduceIte, not_true_eq_false, not_false_eq_true] <;> first | rfl | omega

end OW.Props.GenTie
