import OW.Gen.Kernels
import OW.Util.Dates
import OW.Kernels.DateGenerator
import OW.Props.GenTieBase
namespace OW.Props.GenTie
open OW OW.Gen.K OW.Gen.Prelude

/-! ### models/functions/dates.go -/

theorem gen_eq_DateGenerator_leapYear {α} [Num α] (y : Int) :
    dateGenerator.leapYear (α := α) y = Dates.leapYear y := by
  unfold dateGenerator.leapYear Dates.leapYear
  by_cases h4 : Int.tmod y 4 = 0 <;> by_cases h100 : Int.tmod y 100 = 0 <;> by_cases h400 : Int.tmod y 400 = 0 <;>
    simp [h4, h100, h400]

theorem gen_eq_DateGenerator_daysInMonth {α} [Num α] (m y : Int) :
    dateGenerator.daysInMonth (α := α) m y = Dates.daysInMonth m y := by
  unfold dateGenerator.daysInMonth Dates.daysInMonth intTable Dates.dimTable
  rw [gen_eq_DateGenerator_leapYear]
  by_cases h2 : m = 2 <;> cases hl : Dates.leapYear y <;> simp [h2, hl]

/-- the month loop of `_dayOfYear`: `forRangeO` over `[1, m)` is the fuelled loop of the hand model -/
theorem gen_eq_DateGenerator_doyLoop (body : Int → Int → Option Int) (y m : Int)
    (hb : ∀ mi doy, body mi doy = (Dates.daysInMonth mi y).map (fun k => doy + k))
    (fuel : Nat) (mi acc : Int) (h : mi + fuel = m) :
    forRangeNO body fuel mi acc = Dates.doyLoop y m fuel mi acc := by
  induction fuel generalizing mi acc with
  | zero => rfl
  | succ n ih =>
    unfold forRangeNO Dates.doyLoop
    have hlt : mi < m := by omega
    simp only [hlt, ↓reduceIte, hb]
    cases Dates.daysInMonth mi y with
    | none => rfl
    | some k => exact ih (mi + 1) (acc + k) (by omega)

theorem gen_eq_DateGenerator_dayOfYear {α} [Num α] (d m y : Int) :
    dateGenerator._dayOfYear (α := α) d m y = Dates.dayOfYear d m y := by
  unfold dateGenerator._dayOfYear Dates.dayOfYear forRangeO
  dsimp only
  by_cases hm : 1 ≤ m
  · rw [gen_eq_DateGenerator_doyLoop _ y m (fun mi doy => by
        simp only [gen_eq_DateGenerator_daysInMonth]
        cases Dates.daysInMonth mi y <;> rfl) (m - 1).toNat 1 0 (by omega)]
    cases Dates.doyLoop y m (m - 1).toNat 1 0 <;> rfl
  · have : (m - 1).toNat = 0 := by omega
    rw [this]
    rfl

/-- `dateGenerator`: the three start parameters are truncated with `int(…)` before the loop (`init`; `d, m, y` are hidden
state: carried between iterations, not returned); one iteration — day of year through the translated helpers `_dayOfYear`,
`daysInMonth`, `leapYear` and the table `DAYS_IN_MONTH`, then the calendar increment — is `Dates.step` (`none` = the index
panic of the table lookup), the four outputs being `float64` of the ints. -/
theorem gen_eq_DateGenerator {α} [Num α] (startDate startMonth startYear tick : α) (t : Dates.Date) :
    dateGenerator.guard startDate startMonth startYear = false ∧
    dateGenerator.init startDate startMonth startYear = (Num.toInt startDate, Num.toInt startMonth, Num.toInt startYear) ∧
    dateGenerator.step startDate startMonth startYear t.d t.m t.y tick =
      (match Dates.step t with
       | none => none
       | some (r, t') => some ((t'.d, t'.m, t'.y),
           ((Num.ofInt r.date : α), (Num.ofInt r.month : α), (Num.ofInt r.year : α), (Num.ofInt r.doy : α)))) := by
  refine ⟨rfl, rfl, ?_⟩
  unfold dateGenerator.step Dates.step
  simp only [gen_eq_DateGenerator_dayOfYear, gen_eq_DateGenerator_daysInMonth]
  cases Dates.dayOfYear t.d t.m t.y with
  | none => rfl
  | some doy =>
    cases Dates.daysInMonth t.m t.y with
    | none => rfl
    | some dim =>
      dsimp only
      split <;> split <;> simp_all

end OW.Props.GenTie
