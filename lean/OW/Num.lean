/-
`Num α`: the arithmetic interface the kernel models are written against (core Lean only).
One definition, two instances: `Float` (execution, correspondence with the Go code) in this file,
`ℝ` (theorems) in OW/Proofs/RealNum.lean.

Go details mirrored by the Float instance:
* `math.Min/Max` propagate NaN and order signed zeros  → `gmin/gmax`
* `util/m.MinFloat64/MaxFloat64` are plain comparisons → `pmin/pmax`
* `int(x)` truncates toward zero                        → `toInt`
-/
namespace OW

class Num (α : Type) extends Add α, Sub α, Mul α, Div α, Neg α, LT α, LE α, OfScientific α, Inhabited α where
  decLt : DecidableRel (α := α) (· < ·)
  decLe : DecidableRel (α := α) (· ≤ ·)
  /-- Go `==` -/
  feq : α → α → Bool
  zero : α
  one : α
  ofNat : Nat → α
  ofInt : Int → α
  exp : α → α
  pow : α → α → α
  log : α → α
  log10 : α → α
  tanh : α → α
  cos : α → α
  sqrt : α → α
  abs : α → α
  floor : α → α
  ceil : α → α
  /-- Go `int(x)` (truncation); only used on in-range values -/
  toInt : α → Int
  isNaN : α → Bool
  nan : α
  /-- Go `math.Min` -/
  gmin : α → α → α
  /-- Go `math.Max` -/
  gmax : α → α → α

namespace Num
variable {α : Type} [Num α]

instance (priority := low) : DecidableRel (α := α) (· < ·) := Num.decLt
instance (priority := low) : DecidableRel (α := α) (· ≤ ·) := Num.decLe
instance (priority := low) instOfNat (n : Nat) : OfNat α n := ⟨Num.ofNat n⟩

/-- `m.MinFloat64` -/
@[inline] def pmin (a b : α) : α := if b < a then b else a
/-- `m.MaxFloat64` -/
@[inline] def pmax (a b : α) : α := if b < a then a else b

end Num

/-! ### Float instance -/

def floatGMin (x y : Float) : Float :=
  if x.isInf && x < 0 then x
  else if y.isInf && y < 0 then y
  else if x.isNaN || y.isNaN then (0.0 / 0.0)
  else if x == 0 && y == 0 then (if x.toBits == 0x8000000000000000 then x else y)
  else if x < y then x else y

def floatGMax (x y : Float) : Float :=
  if x.isInf && x > 0 then x
  else if y.isInf && y > 0 then y
  else if x.isNaN || y.isNaN then (0.0 / 0.0)
  else if x == 0 && y == 0 then (if x.toBits == 0x8000000000000000 then y else x)
  else if x > y then x else y

/-- truncation like Go's `int(x)` for in-range values (via Int64) -/
def floatToInt (x : Float) : Int := x.toInt64.toInt

instance : Num Float where
  decLt := fun a b => inferInstanceAs (Decidable (a < b))
  decLe := fun a b => inferInstanceAs (Decidable (a ≤ b))
  feq := fun a b => a == b
  zero := 0.0
  one := 1.0
  ofNat := Float.ofNat
  ofInt := Float.ofInt
  exp := Float.exp
  pow := Float.pow
  log := Float.log
  log10 := Float.log10
  tanh := Float.tanh
  cos := Float.cos
  sqrt := Float.sqrt
  abs := Float.abs
  floor := Float.floor
  ceil := Float.ceil
  toInt := floatToInt
  isNaN := Float.isNaN
  nan := 0.0 / 0.0
  gmin := floatGMin
  gmax := floatGMax
  default := 0.0

end OW
