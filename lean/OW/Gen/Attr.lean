import Lean.Meta.Tactic.Simp.RegisterCommand
/-!
# The simp set of the regenerated helper definitions

`harness/cmd/owtranslate` tags every HELPER function it translates (a function of the Go source other than the kernel itself,
and every function literal it lambda-lifts) with `@[gen_unfold]`. The tie theorems unfold them with `simp only [gen_unfold]`
instead of naming them, so that extracting part of a kernel into a new helper function, or inlining one, does not invalidate
the proof script (the unfolded terms are the same up to zeta / beta reduction). Hand-written; core Lean only.
-/

/-- the helper functions of the regenerated kernels (`OW/Gen/Kernels.lean`) -/
register_simp_attr gen_unfold
