import OW.Num
/-!
# Prelude of the regenerated kernel definitions (hand-written, core Lean only)

`harness/cmd/owtranslate` regenerates `OW/Gen/Kernels.lean` from the Go source. The vocabulary it uses for Go slices,
int ranges and sub-step loops is defined here once, with the lemmas the tie theorems (`OW/Props/GenTie*.lean`) need.

Conventions (what the generated text means):

* Go `int` ↦ `Int` (Go's int is 64-bit; overflow is OUTSIDE the model). `int(x)` ↦ `Num.toInt x`, `float64(i)` ↦ `Num.ofInt i`,
  integer `/` and `%` ↦ `Int.tdiv`, `Int.tmod` (truncation toward zero).
* Go `[]float64`, and a whole series (`data.ND1Float64`) in whole-function mode ↦ `List α`.
  `xs[i]` ↦ `sliceGet xs i`, `xs[i] = v` ↦ `xs := sliceSet xs i v`, `make([]float64, n)` ↦ `mkSlice n`, `len(xs)` /
  `xs.Len1()` ↦ `sliceLen xs`, `dst.CopyFrom(src)` ↦ `dst := copyFrom dst src`, `copy(dst[a:b], src[c:d])` ↦
  `dst := sliceCopy dst a b src c d`.
  An OUT-OF-RANGE access is a panic in Go; here `sliceGet` returns the default value and `sliceSet` leaves the list
  unchanged (a negative index is treated like index 0 by `Int.toNat`): panics of this kind are NOT part of the tie — the
  hand-written models guard them explicitly and the behavioural correspondence runs check them.
* `for i := a; i < b; i++ { … }` ↦ `forRange a b body carried`: `carried` = the tuple of the outer variables the body
  assigns; the bounds are evaluated once (the translator checks that the body cannot change them). `forRangeO` when the
  body may panic (`none`).
* `for cond { … }` / `for { … break … }` ↦ `whileLoop fuel cond body carried` : `Option` — `none` = a panic in the body OR
  the fuel ran out (Lean needs a termination measure; the fuel is an explicit argument of the generated definitions and
  the tie theorems hold for every fuel).
-/
namespace OW.Gen.Prelude
open OW

variable {α : Type}

/-- `xs[i]` -/
def sliceGet [Inhabited α] (xs : List α) (i : Int) : α := xs.getD i.toNat default
/-- `xs[i] = v` -/
def sliceSet (xs : List α) (i : Int) (v : α) : List α := xs.set i.toNat v
/-- `make([]float64, n)` -/
def mkSlice [Num α] (n : Int) : List α := List.replicate n.toNat Num.zero
/-- `len(xs)`, `xs.Len1()` -/
def sliceLen (xs : List α) : Int := Int.ofNat xs.length
/-- `dst.CopyFrom(src)`: the two arrays have the same shape (the generated wrappers allocate every output with the
length of the inputs); copying between different shapes is outside the model -/
def copyFrom (_dst src : List α) : List α := src
/-- `m.MinInt` (util/m/gen-math.go: `if a > b { return b }; return a`) -/
def minInt (a b : Int) : Int := if a > b then b else a
/-- `m.MaxInt` (util/m/gen-math.go: `if a > b { return a }; return b`) -/
def maxInt (a b : Int) : Int := if a > b then a else b
/-- `T[i]` of a package-level table of int constants; `none` = index out of range (a Go panic) -/
def intTable (t : List Int) (i : Int) : Option Int := if i < 0 then none else t[i.toNat]?

/-- `t.Get(idx)` of a table series at a constant index; `none` = index out of range (a Go panic) -/
def tableGet (t : List α) (i : Int) : Option α := if i < 0 then none else t[i.toNat]?

/-- `n` iterations from index `i` upward -/
def forRangeN {σ : Type} (body : Int → σ → σ) : Nat → Int → σ → σ
  | 0, _, c => c
  | n + 1, i, c => forRangeN body n (i + 1) (body i c)

/-- `for i := lo; i < hi; i++ { c = body i c }` -/
def forRange {σ : Type} (lo hi : Int) (body : Int → σ → σ) (c : σ) : σ := forRangeN body (hi - lo).toNat lo c

/-- `n` iterations from index `i` downward -/
def forDownN {σ : Type} (body : Int → σ → σ) : Nat → Int → σ → σ
  | 0, _, c => c
  | n + 1, i, c => forDownN body n (i - 1) (body i c)

/-- `for i := hi; i > lo; i-- { c = body i c }` -/
def forRangeDown {σ : Type} (hi lo : Int) (body : Int → σ → σ) (c : σ) : σ := forDownN body (hi - lo).toNat hi c

def forRangeNO {σ : Type} (body : Int → σ → Option σ) : Nat → Int → σ → Option σ
  | 0, _, c => some c
  | n + 1, i, c =>
    match body i c with
    | none => none
    | some c' => forRangeNO body n (i + 1) c'

/-- `for i := lo; i < hi; i++ { c = body i c }` where the body may panic (`none`) -/
def forRangeO {σ : Type} (lo hi : Int) (body : Int → σ → Option σ) (c : σ) : Option σ :=
  forRangeNO body (hi - lo).toNat lo c

/-- `for cond(c) { c = body c; if <break> { break } }`: `body` returns the new carried values and whether the loop is left;
`none` = the body panics, or the fuel ran out -/
def whileLoop {σ : Type} (cond : σ → Bool) (body : σ → Option (σ × Bool)) : Nat → σ → Option σ
  | 0, _ => none
  | fuel + 1, c =>
    if cond c then
      match body c with
      | none => none
      | some r => if r.2 then some r.1 else whileLoop cond body fuel r.1
    else some c

/-- the same loop with a `Nat` index (vocabulary of the lemmas in OW/Proofs/GenLoops.lean) -/
def forNat {σ : Type} (body : Nat → σ → σ) : Nat → Nat → σ → σ
  | 0, _, c => c
  | n + 1, i, c => forNat body n (i + 1) (body i c)

/-! ### lemmas -/

theorem forRangeN_eq_forNat {σ : Type} (g : Int → σ → σ) (n i : Nat) (c : σ) :
    forRangeN g n (i : Int) c = forNat (fun j => g (j : Int)) n i c := by
  induction n generalizing i c with
  | zero => rfl
  | succ n ih =>
    rw [forRangeN, forNat]
    have : ((i : Int) + 1) = ((i + 1 : Nat) : Int) := by omega
    rw [this, ih]

theorem forNat_succ_right {σ : Type} (body : Nat → σ → σ) (n i : Nat) (c : σ) :
    forNat body (n + 1) i c = body (i + n) (forNat body n i c) := by
  induction n generalizing i c with
  | zero => simp [forNat]
  | succ n ih =>
    rw [forNat, ih]
    have : i + 1 + n = i + (n + 1) := by omega
    rw [this]
    rfl

theorem forRangeN_succ_right {σ : Type} (body : Int → σ → σ) (n : Nat) (i : Int) (c : σ) :
    forRangeN body (n + 1) i c = body (i + n) (forRangeN body n i c) := by
  induction n generalizing i c with
  | zero => simp [forRangeN]
  | succ n ih =>
    rw [forRangeN, ih]
    have : i + 1 + (n : Int) = i + ((n + 1 : Nat) : Int) := by omega
    rw [this]
    rfl

/-- a loop that carries extra values the body recomputes before reading them: the first component runs on its own -/
theorem forRangeN_fst {σ τ : Type} (body : Int → σ × τ → σ × τ) (g : Int → σ → σ)
    (h : ∀ i c t, (body i (c, t)).1 = g i c) (n : Nat) (i : Int) (c : σ) (t : τ) :
    (forRangeN body n i (c, t)).1 = forRangeN g n i c := by
  induction n generalizing i c t with
  | zero => rfl
  | succ n ih =>
    rw [forRangeN, forRangeN]
    have hb : body i (c, t) = ((body i (c, t)).1, (body i (c, t)).2) := rfl
    rw [hb, ih, h]

theorem forRangeN_congr {σ : Type} (f g : Int → σ → σ) (n : Nat) (i : Int) (c : σ)
    (h : ∀ j, i ≤ j → j < i + n → ∀ c, f j c = g j c) : forRangeN f n i c = forRangeN g n i c := by
  induction n generalizing i c with
  | zero => rfl
  | succ n ih =>
    rw [forRangeN, forRangeN, h i (Int.le_refl i) (by omega)]
    exact ih _ _ (fun j h1 h2 c => h j (by omega) (by omega) c)

theorem sliceSet_length (xs : List α) (i : Int) (v : α) : sliceLen (sliceSet xs i v) = sliceLen xs := by
  simp [sliceLen, sliceSet]

/-! ### `copy` (work package R3) -/

/-- `copy(dst[dlo:dhi], src[slo:shi])`: Go copies `min (dhi - dlo) (shi - slo)` elements, as if through a temporary (the two
slices may overlap, or be the same). Slice bounds beyond the length are a Go panic (beyond the capacity): NOT modelled — the
segment is cut to what the lists hold, and the length of `dst` is kept. -/
def sliceCopy (dst : List α) (dlo dhi : Int) (src : List α) (slo shi : Int) : List α :=
  let seg := (((src.drop slo.toNat).take (shi - slo).toNat).take (dhi - dlo).toNat).take (dst.length - dlo.toNat)
  dst.take dlo.toNat ++ seg ++ dst.drop (dlo.toNat + seg.length)

theorem sliceCopy_length (dst : List α) (dlo dhi : Int) (src : List α) (slo shi : Int) :
    (sliceCopy dst dlo dhi src slo shi).length = dst.length := by
  unfold sliceCopy
  simp only [List.length_append, List.length_take, List.length_drop]
  omega

/-- `copy(q[:n-1], q[1:n])` moves every element one place down (the last one stays) -/
theorem sliceCopy_shift (q : List α) (n : Nat) (hq : q.length = n) :
    sliceCopy q 0 ((n : Int) - 1) q 1 (n : Int) = q.tail ++ q.drop (n - 1) := by
  unfold sliceCopy
  have h1 : ((n : Int) - 1 - 0).toNat = n - 1 := by omega
  have h2 : ((n : Int) - 1).toNat = n - 1 := by omega
  have h3 : (1 : Int).toNat = 1 := rfl
  have h4 : (0 : Int).toNat = 0 := rfl
  simp only [h1, h2, h3, h4, List.take_zero, List.nil_append, Nat.sub_zero, Nat.zero_add, hq, List.drop_one]
  have ht : q.tail.length = n - 1 := by simp [hq]
  have e1 : List.take (n - 1) q.tail = q.tail := List.take_of_length_le (by omega)
  have e2 : List.take n q.tail = q.tail := List.take_of_length_le (by omega)
  rw [e1, e1, e2, ht]

end OW.Gen.Prelude
