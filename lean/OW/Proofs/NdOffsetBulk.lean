import OW.Proofs.NdOffsetRoot
/-!
Offset roots, continued: the two-array operations and `Reshape` on an array and on its normal form
(`ApplySlice`, `CopyFrom`, `zipWithInto`, `Reshape`, `ReshapeFast`).
-/
namespace OW.NdOff
open OW.Nd OW.NdC02 OW.NdC03

section
variable {α : Type}

/-! ### `ApplySlice` / `CopyFrom` -/

/-- the element copy loop on an array pair and on the normal forms -/
theorem copyLoop_norm (h : Heap α) {d d' s s' : Arr} (nd : Norm d d') (ns : Norm s s') (gd : Geo d'.v) (gs : Geo s'.v)
    {shape : Idx} (hd : d'.v.dims = shape) (hs : s'.v.dims = shape) :
    copyLoop h d s shape = copyLoop h d' s' shape := by
  have hp : Pos shape := by rw [← hd]; exact gd.pos_dims
  have e1 : d.v.newIndex 0 = uniform shape.length 0 := by
    rw [nd.newIndex]; unfold View.newIndex View.ndims; rw [hd]
  have e2 : d'.v.newIndex 0 = uniform shape.length 0 := by
    unfold View.newIndex View.ndims; rw [hd]
  unfold copyLoop
  rw [e1, e2, forIdx_rowMajor hp, forIdx_rowMajor hp]
  apply foldIdx_congr (P := fun i => InBounds i shape)
  · intro hh i hi
    show (do let x ← Nd.get hh s i; Nd.set hh d i x) = (do let x ← Nd.get hh s' i; Nd.set hh d' i x)
    rw [get_norm hh ns gs (by rw [hs]; exact hi)]
    cases Nd.get hh s' i with
    | error e => rfl
    | ok x =>
      simp only [bind, Except.bind]
      exact set_norm hh nd gd (by rw [hd]; exact hi) x
  · exact rowMajor_inBounds hp

/-- **transfer: `ApplySlice`** (an in-bounds request; either argument may be an offset-root array) -/
theorem applySlice_norm (h : Heap α) {a a' v v' : Arr} (na : Norm a a') (nv : Norm v v') (ga : Geo a'.v) (gv : Geo v'.v)
    {loc : Idx} {step : Option Idx} (okS : SliceOK a'.v.dims loc v'.v.dims (stepOr a'.v.dims.length step)) :
    Nd.applySlice h a loc step v = Nd.applySlice h a' loc step v' := by
  obtain ⟨hl1, _, hl3⟩ := okS.lengths
  have hw := sliceInto_eq ga loc v'.v.dims step hl1 hl3
  obtain ⟨sl', hsl', gsl, hdsl, hCsl⟩ : ∃ sl', Nd.slice a' loc v'.v.dims step = .ok sl' ∧ Geo sl'.v ∧
      sl'.v.dims = v'.v.dims ∧ sl'.isC = a'.isC :=
    ⟨{ a' with v := sliceView a'.v loc v'.v.dims step }, by unfold Nd.slice; rw [hw]; rfl, geo_slice ga okS hw, rfl, rfl⟩
  obtain ⟨sl, hsl, nsl, _⟩ := (slice_norm na loc v'.v.dims step).2 _ hsl'
  unfold Nd.applySlice
  rw [nv.dims]
  simp only [hsl, hsl', bind, Except.bind]
  rw [na.isC]
  by_cases hC : a'.isC = true
  · rw [if_pos hC, if_pos hC]
    exact copyLoop_norm h nsl nv gsl gv hdsl rfl
  · rw [if_neg hC, if_neg hC]
    have e : sl' = sl := nsl.eq_of_go (by rw [nsl.isC, hCsl]; simpa using hC)
    subst e
    cases hc : sl'.v.contiguous with
    | error e => rfl
    | ok b =>
      simp only
      cases b with
      | true =>
        simp only [if_true]
        rw [unroll_norm h nv gv]
      | false =>
        simp only [Bool.false_eq_true, if_false]
        exact copyLoop_norm h (Norm.refl _) nv gsl gv hdsl rfl

/-- **transfer: `CopyFrom`** (same shape) -/
theorem copyFrom_norm (h : Heap α) {a a' v v' : Arr} (na : Norm a a') (nv : Norm v v') (ga : Geo a'.v) (gv : Geo v'.v)
    (hshape : v'.v.dims = a'.v.dims) : Nd.copyFrom h a v = Nd.copyFrom h a' v' := by
  unfold Nd.copyFrom
  rw [na.newIndex]
  apply applySlice_norm h na nv ga gv
  rw [hshape]
  exact sliceOK_zero_ones a'.v.dims ga.pos_dims

/-! ### `Reshape` -/

/-- undo `unshift` on a C-backed array (a Go-backed array is left alone) -/
def reshift (st : Int) (a : Arr) : Arr :=
  if a.isC = true then { v := shiftV a.v st, sid := a.sid, base := a.base - st, len := a.len + st, isC := true } else a

theorem reshift_unshift (st : Int) {c : Arr} (hC : c.isC = true) : reshift st (unshift st c) = c := by
  obtain ⟨v, sid, base, len, isC⟩ := c
  simp only at hC
  subst hC
  simp [reshift, unshift, shiftV_neg_cancel]

theorem unshift_reshift (st : Int) {c : Arr} (hC : c.isC = true) : unshift st (reshift st c) = c := by
  obtain ⟨v, sid, base, len, isC⟩ := c
  simp only at hC
  subst hC
  simp [reshift, unshift, shiftV_cancel_neg]

/-- the result of `Reshape` on the normal form, translated back -/
def reshiftRes (st : Int) (p : Heap α × (String ⊕ Arr)) : Heap α × (String ⊕ Arr) := (p.1, p.2.map id (reshift st))

/-- the "reshape to series" test of `Reshape` (a function of the extents) -/
def rtsOf (v : View) (newShape : Idx) : R Bool :=
  if newShape.length = 1 then do
    let m ← maximum v.dims
    pure (decide (m = newShape.length))
  else pure false

/-- `Reshape` after the size test and the "reshape to series" test -/
def reshapeTail (h : Heap α) (a : Arr) (newShape : Idx) (reshapeToSeries : Bool) : R (Heap α × (String ⊕ Arr)) := do
  let c ← a.v.contiguous
  if a.isC ∧ ¬ c ∧ ¬ reshapeToSeries then
    let vs ← unrollGather h a
    let (h', sid) := alloc h vs
    let v ← View.root newShape
    pure (h', .inr { v := v, sid := sid, base := 0, len := vs.length, isC := false })
  else if c ∨ ¬ reshapeToSeries then
    if a.isC then
      let v ← View.root newShape a.v.start
      pure (h, .inr { a with v := v })
    else
      let u ← Nd.unroll h a
      let (h', sid, base, len) := implOf h u
      let v ← View.root newShape
      pure (h', .inr { v := v, sid := sid, base := base, len := len, isC := false })
  else
    let sd ← argmax a.v.dims
    match a.v.step[sd.toNat]?, a.v.offset[sd.toNat]? with
    | some st, some off =>
      pure (h, .inr { a with v := { orig := a.v.orig, dims := newShape, start := a.v.start, step := [st], offset := [off], offStep := [st * off] } })
    | _, _ => oob

theorem reshape_unfold (h : Heap α) (a : Arr) (newShape : Idx) :
    Nd.reshape h a newShape =
      (if product newShape ≠ a.v.size then pure (h, .inl "size-mismatch")
       else (rtsOf a.v newShape >>= fun rts => reshapeTail h a newShape rts)) := by
  unfold Nd.reshape rtsOf reshapeTail
  rfl

theorem reshapeTail_sh (h : Heap α) {st : Int} {c c' : Arr} (s : Sh st c c') (g : Geo c'.v) (shape : Idx) (r : Bool) :
    reshapeTail h c shape r = (reshapeTail h c' shape r).map (reshiftRes st) := by
  have hv := s.view
  have hC := s.isC
  have hC' : c'.isC = true := by rw [s.eq]; exact s.isC
  have hug := unrollGather_norm h (Or.inr ⟨st, s⟩) g
  have hc : c = reshift st c' := by rw [s.eq, reshift_unshift st hC]
  unfold reshapeTail
  simp only [hv, shiftV_dims, shiftV_contiguous, hC, hC', shiftV_start, shiftV_step, shiftV_offset, shiftV_orig, hug]
  cases c'.v.contiguous with
  | error e => rfl
  | ok b =>
    simp only [bind, Except.bind, pure, Except.pure]
    cases b with
    | false =>
      cases r with
      | false =>
        simp only [Bool.false_eq_true, not_false_eq_true, and_self, if_true]
        cases unrollGather h c' with
        | error e => rfl
        | ok vs =>
          simp only [alloc]
          cases View.root shape with
          | error e => rfl
          | ok v => simp [Except.map, reshiftRes, reshift]
      | true =>
        simp only [Bool.false_eq_true, not_false_eq_true, not_true_eq_false, and_false, and_true, if_false,
          or_self]
        cases argmax c'.v.dims with
        | error e => rfl
        | ok sd =>
          simp only
          cases c'.v.step[sd.toNat]? with
          | none => cases c'.v.offset[sd.toNat]? <;> rfl
          | some st1 =>
            cases c'.v.offset[sd.toNat]? with
            | none => rfl
            | some off =>
              simp only [Except.map, reshiftRes, Sum.map_inr]
              rw [hc]
              simp [reshift, hC', shiftV]
    | true =>
      simp only [not_true_eq_false, false_and, and_false, if_false, true_or, if_true]
      have hroot := shiftV_root shape c'.v.start st
      rw [hroot]
      cases View.root shape c'.v.start with
      | error e => rfl
      | ok v =>
        simp only [Except.map, reshiftRes, Sum.map_inr]
        rw [hc]
        simp [reshift, hC']

/-- **transfer: `Reshape`** (every request, every branch): on a C-backed array that is the `st`-shift of `c'`,
`Reshape` returns what it returns on `c'`, shifted back when it is C-backed (the alias results) and unchanged when it is
a Go-backed copy. -/
theorem reshape_sh (h : Heap α) {st : Int} {c c' : Arr} (s : Sh st c c') (g : Geo c'.v) (shape : Idx) :
    Nd.reshape h c shape = (Nd.reshape h c' shape).map (reshiftRes st) := by
  have hv := s.view
  rw [reshape_unfold, reshape_unfold]
  simp only [hv, shiftV_size]
  by_cases hsz : product shape ≠ c'.v.size
  · simp only [if_pos hsz, pure, Except.pure, Except.map, reshiftRes, Sum.map_inl, id]
  · simp only [if_neg hsz]
    have hr : rtsOf (shiftV c'.v st) shape = rtsOf c'.v shape := rfl
    rw [hr]
    cases rtsOf c'.v shape with
    | error e => rfl
    | ok r =>
      simp only [bind, Except.bind]
      exact reshapeTail_sh h s g shape r

/-- `Reshape` on an array and on its normal form: same heap, same error value, results again in normal-form relation
`Norm` up to the `1 << 30` bound (`Sh.bound`), which the caller supplies for the C-backed alias results -/
theorem reshape_norm (h : Heap α) {c c' : Arr} (n : Norm c c') (g : Geo c'.v) (shape : Idx) :
    (∀ e, Nd.reshape h c' shape = .error e → Nd.reshape h c shape = .error e) ∧
    (∀ h' m, Nd.reshape h c' shape = .ok (h', .inl m) → Nd.reshape h c shape = .ok (h', .inl m)) ∧
    (∀ h' b', Nd.reshape h c' shape = .ok (h', .inr b') → ∃ b, Nd.reshape h c shape = .ok (h', .inr b) ∧
      (b = b' ∨ ∃ st, Sh st c c' ∧ b'.isC = true ∧ b = reshift st b')) := by
  rcases n with rfl | ⟨st, s⟩
  · exact ⟨fun e he => he, fun h' m he => he, fun h' b' he => ⟨b', he, Or.inl rfl⟩⟩
  · rw [reshape_sh h s g shape]
    refine ⟨fun e he => by rw [he]; rfl, fun h' m he => by rw [he]; rfl, fun h' b' he => ?_⟩
    rw [he]
    refine ⟨reshift st b', rfl, ?_⟩
    by_cases hb : b'.isC = true
    · exact Or.inr ⟨st, s, hb, rfl⟩
    · left; simp [reshift, hb]

/-- `ReshapeFast` on an array and on its normal form -/
theorem reshapeFast_norm (h : Heap α) {c c' : Arr} (n : Norm c c') (shape : Idx) :
    Nd.reshapeFast h c shape =
      (match c'.v.contiguous with
        | .error e => .error e
        | .ok b => if ¬ b then .ok (h, .inl "not-contiguous") else Nd.reshape h c shape) := by
  unfold Nd.reshapeFast
  rw [n.contiguous]
  cases c'.v.contiguous <;> rfl

/-! ### `zipWithInto` -/

/-- the write-back `storeUnrolled(dest, vals)` of `zipWithInto`: `ReshapeFast` to a flat view, then `Apply` -/
def storeUnrolled (h : Heap α) (dest : Arr) (vals : List α) : R (Heap α) :=
  if vals.isEmpty then pure h
  else do
    let (h2, r) ← reshapeFast h dest [(vals.length : Int)]
    match r with
    | .inl e => .error e
    | .inr flat => Nd.apply h2 flat [0] 0 1 vals

/-- the flat C-backed view `Reshape([n])` of a contiguous C-backed view, and its normal form (root from 0 on the window
moved to the view's `Start`) -/
theorem flat_sh {c : Arr} {n : Int} (hC : c.isC = true) (h0 : 0 ≤ c.v.start) (hb : c.v.start + n ≤ 1073741824) :
    Sh c.v.start (cAliasArr c [n]) (unshift c.v.start (cAliasArr c [n])) :=
  ⟨hC, h0, rfl, by show c.v.start + product [n] ≤ _; simp [product]; omega⟩

/-- `Apply([0], 0, 1, vals)` through the flat reshaped views of a C-backed contiguous array and of its `unshift` writes
the same cells -/
theorem apply_flat_sh (h : Heap α) {st : Int} {c c' : Arr} (s : Sh st c c') (g : Geo c'.v)
    (hc : c'.v.contiguous = .ok true) {vals : List α} (hne : vals ≠ [])
    (hsz : product [(vals.length : Int)] = c'.v.size) :
    Nd.apply h (cAliasArr c [(vals.length : Int)]) [0] 0 1 vals =
      Nd.apply h (cAliasArr c' [(vals.length : Int)]) [0] 0 1 vals := by
  obtain ⟨w0, w1⟩ := contig_window g hc
  have hn : (vals.length : Int) = product c'.v.dims := by
    simp only [product, View.size, Int.mul_one] at hsz; exact hsz
  have hn1 : (1 : Int) ≤ vals.length := by
    cases vals with
    | nil => exact absurd rfl hne
    | cons x xs => simp
  have hC' : c'.isC = true := by rw [s.eq]; exact s.isC
  have hst := s.nonneg
  have hb := s.bound
  have ho : c.v.orig = c'.v.orig := by rw [s.eq]; rfl
  have hstart : c.v.start = c'.v.start + st := by rw [s.view]; rfl
  -- the common normal form of the two flat views
  have s1 := flat_sh (c := c) (n := (vals.length : Int)) s.isC (by omega) (by rw [ho] at hb; omega)
  have s2 := flat_sh (c := c') (n := (vals.length : Int)) hC' w0 (by rw [ho] at hb; omega)
  have e : unshift c.v.start (cAliasArr c [(vals.length : Int)]) =
      unshift c'.v.start (cAliasArr c' [(vals.length : Int)]) := by
    rw [s.eq]
    simp only [unshift, cAliasArr, shiftV_rootView, shiftV_start]
    congr 1
    · congr 1; omega
    · omega
    · omega
  have gN : Geo (unshift c.v.start (cAliasArr c [(vals.length : Int)])).v := by
    have : (unshift c.v.start (cAliasArr c [(vals.length : Int)])).v = rootView [(vals.length : Int)] 0 := by
      simp only [unshift, cAliasArr, shiftV_rootView]
      congr 1; omega
    rw [this]
    exact reach_geo (reach_rootView (by simp) (by intro x hx; simp at hx; omega))
  have hok : SliceOK (unshift c.v.start (cAliasArr c [(vals.length : Int)])).v.dims [0]
      (applyDims (unshift c.v.start (cAliasArr c [(vals.length : Int)])) 0 vals.length)
      (applySteps (unshift c.v.start (cAliasArr c [(vals.length : Int)])) 0 1) := by
    simp only [unshift, cAliasArr, shiftV_dims, rootView, applyDims, applySteps, List.length_cons, List.length_nil,
      uniform, List.replicate, Int.toNat_zero, List.set_cons_zero, SliceOK_cons, SliceOK_nil]
    exact ⟨by omega, hn1, by omega, by omega, trivial⟩
  rw [apply_norm h (Or.inr ⟨_, s1⟩) gN (by omega) (by simp [unshift, cAliasArr, rootView]) hok]
  rw [e] at gN hok ⊢
  rw [apply_norm h (Or.inr ⟨_, s2⟩) gN (by omega) (by simp [unshift, cAliasArr, rootView]) hok]

/-- the write-back on a contiguous array and on its normal form -/
theorem storeUnrolled_norm (h : Heap α) {c c' : Arr} (n : Norm c c') (g : Geo c'.v) (hc : c'.v.contiguous = .ok true)
    (vals : List α) : storeUnrolled h c vals = storeUnrolled h c' vals := by
  rcases n with rfl | ⟨st, s⟩
  · rfl
  · have hC' : c'.isC = true := by rw [s.eq]; exact s.isC
    have n : Norm c c' := Or.inr ⟨st, s⟩
    unfold storeUnrolled
    cases hv : vals.isEmpty with
    | true => rfl
    | false =>
      have hne : vals ≠ [] := by intro e; rw [e] at hv; simp at hv
      simp only [Bool.false_eq_true, if_false]
      rw [reshapeFast_contig _ (by rw [n.contiguous]; exact hc), reshapeFast_contig _ hc]
      by_cases hsz : product [(vals.length : Int)] = c'.v.size
      · have hs : [(vals.length : Int)] ≠ [] := by simp
        rw [reshape_sh h s g, reshape_c_alias g hs hsz hc hC']
        simp only [Except.map, reshiftRes, Sum.map_inr, bind, Except.bind]
        have e : reshift st (cAliasArr c' [(vals.length : Int)]) = cAliasArr c [(vals.length : Int)] := by
          have hcc : c = reshift st c' := by rw [s.eq, reshift_unshift st s.isC]
          rw [hcc]
          simp [reshift, cAliasArr, hC', shiftV_rootView]
        rw [e]
        exact apply_flat_sh h s g hc hne hsz
      · rw [reshape_mismatch h c _ (by rw [n.size]; exact hsz), reshape_mismatch h c' _ hsz]

/-- `zipWithInto`, with the write-back named -/
theorem zipWithInto_unfold (f : α → α → α) (h : Heap α) (dest source : Arr) :
    Nd.zipWithInto f h dest source = (do
      let cd ← dest.v.contiguous
      let cs ← (if cd then source.v.contiguous else pure false : R Bool)
      if cd ∧ cs then
        let d ← Nd.unroll h dest
        let s ← Nd.unroll h source
        let (h1, vals) ← (match d with
          | .alias dsid dlo dn => do
            let h1 ← zipLoopAlias f dsid dlo.toNat s h 0 dn.toNat
            let vs ← sliceVals h1 (.alias dsid dlo dn)
            pure (h1, vs)
          | .fresh dv => do
            let sv ← sliceVals h s
            let vs ← zipLoopFresh f dv sv
            pure (h, vs) : R (Heap α × List α))
        storeUnrolled h1 dest vals
      else
        forIdx dest.v.dims (zipBody f dest source) (product dest.v.dims).toNat (dest.v.newIndex 0) h) := by
  unfold Nd.zipWithInto storeUnrolled
  rfl

/-- **transfer: `zipWithInto`** (same shape; every contiguity combination; either argument may be an offset-root array) -/
theorem zipWithInto_norm (f : α → α → α) (h : Heap α) {d d' s s' : Arr} (nd : Norm d d') (ns : Norm s s')
    (gd : Geo d'.v) (gs : Geo s'.v) (hdims : s'.v.dims = d'.v.dims) :
    Nd.zipWithInto f h d s = Nd.zipWithInto f h d' s' := by
  rw [zipWithInto_unfold, zipWithInto_unfold, nd.contiguous, ns.contiguous, nd.dims, nd.newIndex,
    unroll_norm h nd gd, unroll_norm h ns gs]
  obtain ⟨bd, hbd⟩ := (contiguous_iff_geo gd).2
  obtain ⟨bs, hbs⟩ := (contiguous_iff_geo gs).2
  have hp := gd.pos_dims
  have hslow : forIdx d'.v.dims (zipBody f d s) (product d'.v.dims).toNat (d'.v.newIndex 0) h =
      forIdx d'.v.dims (zipBody f d' s') (product d'.v.dims).toNat (d'.v.newIndex 0) h := by
    have e2 : d'.v.newIndex 0 = uniform d'.v.dims.length 0 := rfl
    rw [e2, forIdx_rowMajor hp, forIdx_rowMajor hp]
    apply foldIdx_congr (P := fun i => InBounds i d'.v.dims)
    · intro hh i hi
      simp only [zipBody]
      rw [get_norm hh nd gd hi, get_norm hh ns gs (by rw [hdims]; exact hi)]
      cases Nd.get hh d' i with
      | error e => rfl
      | ok dx =>
        simp only [bind, Except.bind]
        cases Nd.get hh s' i with
        | error e => rfl
        | ok sx => exact set_norm hh nd gd hi _
    · exact rowMajor_inBounds hp
  rw [hbd]
  cases bd with
  | false =>
    simp only [bind, Except.bind, pure, Except.pure, Bool.false_eq_true, if_false, false_and]
    exact hslow
  | true =>
    simp only [bind, Except.bind, if_true, hbs]
    cases bs with
    | false =>
      simp only [Bool.false_eq_true, and_false, if_false]
      exact hslow
    | true =>
      simp only [and_self, if_true]
      cases Nd.unroll h d' with
      | error e => rfl
      | ok du =>
        simp only
        cases Nd.unroll h s' with
        | error e => rfl
        | ok su =>
          simp only
          rcases du with ⟨dsid, dlo, dn⟩ | ⟨dv⟩
          · simp only
            cases zipLoopAlias f dsid dlo.toNat su h 0 dn.toNat with
            | error e => rfl
            | ok h1 =>
              simp only
              cases sliceVals h1 (Slice.alias dsid dlo dn) with
              | error e => rfl
              | ok vs => exact storeUnrolled_norm h1 nd gd hbd vs
          · simp only
            cases sliceVals h su with
            | error e => rfl
            | ok sv =>
              simp only
              cases zipLoopFresh f dv sv with
              | error e => rfl
              | ok vs => exact storeUnrolled_norm h nd gd hbd vs

end
end OW.NdOff
