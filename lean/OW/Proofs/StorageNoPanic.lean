import OW.Proofs.Storage
/-!
Helper lemmas for C13, "when does a run return": under
* `Total t`           — every table evaluation the kernel makes returns a value (no single-knot / short / unordered table), and
* `SafeAt … v est`    — the two "volume would become negative" tests of the inner trial loop pass for every sub-step of at
                        most 6 s at the volume `v` (this is what the code needs in order not to panic at its 6 s floor),
the fuelled loops of OW/Kernels/Storage.lean can only fail by running out of fuel (`trial_err_fuel`, `outerBody_err_fuel`,
`outer_err_fuel`); together with the termination theorems of OW/Proofs/Storage.lean this gives `.ok`.
`safeAt_of_release_limited` and `safeAt_of_net_gain` derive `SafeAt` from conditions on the tables and the inputs alone.
-/
namespace OW.Proofs.Storage
open OW OW.Kernels.Storage

/-- every table evaluation the kernel makes returns a value -/
structure Total (t : Tables ℝ) : Prop where
  areas : ∀ v, ∃ y, cappedPiecewise t v t.areas = .ok y
  minRelease : ∀ v, ∃ y, cappedPiecewise t v t.minRelease = .ok y
  maxRelease : ∀ v, ∃ y, cappedPiecewise t v t.maxRelease = .ok y
  levels : ∀ v, ∃ y, cappedPiecewise t v t.levels = .ok y

theorem releaseRate_total (t : Tables ℝ) (ht : Total t) (d v : ℝ) : ∃ q, releaseRate t d v = .ok q := by
  obtain ⟨m, hm⟩ := ht.minRelease v
  obtain ⟨M, hM⟩ := ht.maxRelease v
  unfold releaseRate
  simp only [hm, hM, bind, Except.bind, pure, Except.pure]
  split_ifs <;> exact ⟨_, rfl⟩

/-- `a` is a value of the area table (at some volume) -/
def AreaVal (t : Tables ℝ) (a : ℝ) : Prop := ∃ w, cappedPiecewise t w t.areas = .ok a

/-- `q` is a value of the release rule for `demand` (at some volume) -/
def RelVal (t : Tables ℝ) (demand q : ℝ) : Prop := ∃ u, releaseRate t demand u = .ok q

/-- **6 s safety** at the volume `volume` whose release is `est`: for every sub-step of at most 6 s and every value `a` of the
area table, neither the first trial volume (release `est`) nor the averaged trial volume (release = mean of `est` and the release
`q'` evaluated AT the first trial volume) is negative. These are exactly the two tests after which the code panics
(`testVol < 0.0 and subtimestep <= MIN_TIMESTEP_SECONDS…`) once the sub-step is at its floor. -/
structure SafeAt (t : Tables ℝ) (inflow demand netFlux volume est : ℝ) : Prop where
  first : ∀ sub a, 0 < sub → sub ≤ 6 → AreaVal t a → 0 ≤ volume + ((inflow - est) + netFlux * a) * sub
  avg : ∀ sub a q', 0 < sub → sub ≤ 6 → AreaVal t a →
    releaseRate t demand (volume + ((inflow - est) + netFlux * a) * sub) = .ok q' →
    0 ≤ volume + ((inflow - (q' + est) / 2) + netFlux * a) * sub

theorem quarter_pos (sub : ℝ) : 0 < max (max (sub * 0.5) 6 * 0.5) 6 :=
  lt_of_lt_of_le (by norm_num) (le_max_right _ _)

theorem half_pos (sub : ℝ) : 0 < max (sub * 0.5) 6 :=
  lt_of_lt_of_le (by norm_num) (le_max_right _ _)

/-- Under `Total` and `SafeAt` the inner trial loop can only fail by running out of fuel. -/
theorem trial_err_fuel (t : Tables ℝ) (ht : Total t) (inflow demand netFlux volume est area : ℝ)
    (harea : AreaVal t area) (hs : SafeAt t inflow demand netFlux volume est) :
    ∀ (fuel : Nat) (sub : ℝ) (tags : List String) (e : String), 0 < sub →
      trial t inflow demand netFlux volume est area fuel sub tags = .error e → e = "fuel" := by
  intro fuel
  induction fuel with
  | zero => intro sub tags e _ h; simp only [trial, Except.error.injEq] at h; exact h.symm
  | succ n ih =>
    intro sub tags e hpos h
    simp only [trial, minStepNeg_eq, minStepPos_eq, RealNum.gmax_eq, zero_lit, two_lit] at h
    by_cases h1 : volume + (inflow - est + netFlux * area) * sub < 0
    · rw [if_pos h1] at h
      by_cases h2 : sub ≤ 6
      · exfalso
        have := hs.first sub area hpos h2 harea
        linarith
      · rw [if_neg h2] at h
        exact ih _ _ _ (quarter_pos sub) h
    · rw [if_neg h1] at h
      cases hA : cappedPiecewise t
          ((volume + (inflow - est + netFlux * area) * sub + volume) / 2) t.areas with
      | error e' =>
        obtain ⟨y, hy⟩ := ht.areas ((volume + (inflow - est + netFlux * area) * sub + volume) / 2)
        rw [hy] at hA; cases hA
      | ok avgArea =>
        rw [hA] at h
        simp only [bind, Except.bind] at h
        cases hR : releaseRate t demand (volume + (inflow - est + netFlux * avgArea) * sub) with
        | error e' =>
          obtain ⟨y, hy⟩ := releaseRate_total t ht demand (volume + (inflow - est + netFlux * avgArea) * sub)
          rw [hy] at hR; cases hR
        | ok after =>
          rw [hR] at h
          simp only at h
          by_cases h3 : 0 ≤ volume + (inflow - (after + est) / 2 + netFlux * avgArea) * sub
          · rw [if_pos h3] at h
            by_cases h4 : releaseRatesCloseEnough est ((after + est) / 2) = true
            · rw [if_pos h4] at h; cases h
            · rw [if_neg h4] at h
              by_cases h5 : sub ≤ 60
              · rw [if_pos h5] at h; cases h
              · rw [if_neg h5] at h
                exact ih _ _ _ (half_pos sub) h
          · rw [if_neg h3] at h
            by_cases h6 : sub ≤ 6
            · exfalso
              have := hs.avg sub avgArea after hpos h6 ⟨_, hA⟩ hR
              exact h3 this
            · rw [if_neg h6] at h
              exact ih _ _ _ (half_pos sub) h

/-- Under `Total` and `SafeAt` (at the loop's current volume) one iteration of the `for timeRemaining > 0` loop can only fail
by running out of (inner) fuel. In particular the test `if volume < 0 { panic }` after the update never fires at ℝ: the updated
volume is the last trial volume, which the trial loop accepted as non-negative. -/
theorem outerBody_err_fuel (t : Tables ℝ) (ht : Total t) (keep : Bool) (fi : Nat) (inflow demand rps pps netFlux : ℝ)
    (s : Loop ℝ) (e : String)
    (hs : ∀ est, releaseRate t demand s.volume = .ok est → SafeAt t inflow demand netFlux s.volume est)
    (hsub : 0 < min s.timeRemaining (s.subtimestep * 2))
    (h : outerBody t keep fi inflow demand rps pps netFlux s = .error e) : e = "fuel" := by
  unfold outerBody at h
  simp only [RealNum.gmin_eq, zero_lit, two_lit, bind, Except.bind] at h
  cases hE : releaseRate t demand s.volume with
  | error e' =>
    obtain ⟨y, hy⟩ := releaseRate_total t ht demand s.volume
    rw [hy] at hE; cases hE
  | ok est =>
    rw [hE] at h; simp only at h
    cases hA : cappedPiecewise t s.volume t.areas with
    | error e' =>
      obtain ⟨y, hy⟩ := ht.areas s.volume
      rw [hy] at hA; cases hA
    | ok area =>
      rw [hA] at h; simp only at h
      cases hT : trial t inflow demand netFlux s.volume est area fi (min s.timeRemaining (s.subtimestep * 2)) s.tags with
      | error e' =>
        rw [hT] at h
        simp only [Except.error.injEq] at h
        subst h
        exact trial_err_fuel t ht inflow demand netFlux s.volume est area ⟨_, hA⟩ (hs est hE) fi _ _ _ hsub hT
      | ok a =>
        rw [hT] at h; simp only at h
        have ts := trial_spec _ _ _ _ _ _ _ _ _ _ _ hT
        by_cases hv : s.volume + (inflow + netFlux * a.avgArea - a.avgOutflow) * a.sub < 0
        · exfalso
          have h0 := ts.testVol_nonneg
          rw [ts.testVol_eq] at h0
          have key : s.volume + (inflow + netFlux * a.avgArea - a.avgOutflow) * a.sub
              = s.volume + (inflow - a.avgOutflow + netFlux * a.avgArea) * a.sub := by ring
          linarith
        · rw [if_neg hv] at h
          cases h

/-- Under `Total`, a non-negative full-supply volume and `SafeAt` at every non-negative volume, the `for timeRemaining > 0`
loop started at a non-negative volume with a positive carried sub-step can only fail by running out of fuel. -/
theorem outer_err_fuel (t : Tables ℝ) (ht : Total t) (hfull : 0 ≤ t.volCurveMax) (keep : Bool) (fi : Nat)
    (inflow demand rps pps netFlux : ℝ)
    (hs : ∀ v est, 0 ≤ v → releaseRate t demand v = .ok est → SafeAt t inflow demand netFlux v est) :
    ∀ (fo : Nat) (s : Loop ℝ) (e : String), 0 ≤ s.volume → 0 < s.subtimestep →
      outer t keep fi inflow demand rps pps netFlux fo s = .error e → e = "fuel" := by
  intro fo
  induction fo with
  | zero => intro s e _ _ h; simp only [outer, Except.error.injEq] at h; exact h.symm
  | succ n ih =>
    intro s e hv hsub h
    simp only [outer, zero_lit] at h
    by_cases ht' : 0 < s.timeRemaining
    · rw [if_pos ht'] at h
      have hsub0 : 0 < min s.timeRemaining (s.subtimestep * 2) := lt_min ht' (by linarith)
      cases hB : outerBody t keep fi inflow demand rps pps netFlux s with
      | error e' =>
        rw [hB] at h
        simp only [Except.error.injEq] at h
        subst h
        exact outerBody_err_fuel t ht keep fi inflow demand rps pps netFlux s _ (fun est he => hs _ est hv he) hsub0 hB
      | ok s' =>
        rw [hB] at h; simp only at h
        obtain ⟨a, b⟩ := outerBody_ok _ _ _ _ _ _ _ _ _ _ hB
        refine ih s' e ?_ ?_ h
        · obtain ⟨p1, p2, p3, p4⟩ := spill_spec t (updated inflow netFlux s a) a.avgOutflow a.sub
          rw [b.vol, p2]
          by_cases hc : t.volCurveMax < updated inflow netFlux s a
          · have := p4 hc; linarith
          · have : (spill t (updated inflow netFlux s a) a.avgOutflow a.sub).1 = 0 := by
              by_contra hne; exact hc (p3 hne)
            rw [this]; linarith [b.upd_nonneg]
        · rw [b.sub]
          exact lt_of_lt_of_le (lt_min hsub0 (by norm_num)) b.trial.sub_ge
    · rw [if_neg ht'] at h
      cases h


/-! ### the converse: a net loss that the 6 s floor cannot absorb ends the run -/

/-- If the first trial volume is negative for every sub-step length from `lower ≤ 6` on, the inner trial loop panics
(`.error "other"` = `panic("testVol < 0.0 and subtimestep <= MIN_TIMESTEP_SECONDS")`): every retry shortens the sub-step, none
changes the sign, and at the 6 s floor the code gives up. -/
theorem trial_panics (t : Tables ℝ) (inflow demand netFlux volume est area lower : ℝ) (hl : lower ≤ 6)
    (hneg : ∀ s, lower ≤ s → volume + (inflow - est + netFlux * area) * s < 0) :
    ∀ (n fuel : Nat) (sub : ℝ) (tags : List String), lower ≤ sub → sub ≤ 6 * 2 ^ n → n + 1 ≤ fuel →
      trial t inflow demand netFlux volume est area fuel sub tags = .error "other" := by
  intro n
  induction n with
  | zero =>
    intro fuel sub tags hlo hs hf
    obtain ⟨f, rfl⟩ : ∃ f, fuel = f + 1 := ⟨fuel - 1, by omega⟩
    have hs6 : sub ≤ 6 := by
      have : (6:ℝ) * 2 ^ 0 = 6 := by norm_num
      linarith
    simp only [trial, minStepNeg_eq, minStepPos_eq, RealNum.gmax_eq, zero_lit, two_lit]
    rw [if_pos (hneg sub hlo), if_pos hs6]
  | succ m ih =>
    intro fuel sub tags hlo hs hf
    obtain ⟨f, rfl⟩ : ∃ f, fuel = f + 1 := ⟨fuel - 1, by omega⟩
    have hf' : m + 1 ≤ f := by omega
    have hpow : (1:ℝ) ≤ 2 ^ m := one_le_pow₀ (by norm_num)
    simp only [trial, minStepNeg_eq, minStepPos_eq, RealNum.gmax_eq, zero_lit, two_lit]
    rw [if_pos (hneg sub hlo)]
    by_cases h6 : sub ≤ 6
    · rw [if_pos h6]
    · rw [if_neg h6]
      apply ih _ _ _ (le_trans hl (le_max_right _ _)) ?_ hf'
      apply max_le
      · have h0 : (0:ℝ) ≤ max (sub * 0.5) 6 := le_trans (by norm_num) (le_max_right _ _)
        have h1 : max (sub * 0.5) 6 ≤ 6 * 2 ^ m := by
          apply max_le
          · rw [pow_succ] at hs; linarith
          · linarith
        linarith
      · linarith

/-! ### `Total` from the shape of the tables -/

theorem bracketLoop_some (x : ℝ) : ∀ (l : List ℝ) (j : Nat), (∃ u ∈ l, x ≤ u) →
    ∃ p, Fn.bracketLoop x l j = some (p - 1, p) ∧ j ≤ p ∧ p < j + l.length := by
  intro l
  induction l with
  | nil => intro j ⟨u, hu, _⟩; cases hu
  | cons v rest ih =>
    intro j h
    simp only [Fn.bracketLoop]
    by_cases hv : x ≤ v
    · rw [if_pos hv]; exact ⟨j, rfl, le_refl _, by simp⟩
    · rw [if_neg hv]
      obtain ⟨u, hu, hxu⟩ := h
      rcases List.mem_cons.mp hu with rfl | hu'
      · exact absurd hxu hv
      · obtain ⟨p, hp, h1, h2⟩ := ih (j + 1) ⟨u, hu', hxu⟩
        exact ⟨p, hp, by omega, by simp only [List.length_cons]; omega⟩

/-- `Piecewise` returns a number whenever the table has at least two knots, `x` lies between the first and the last knot and the
value table is at least as long as the knot table (no ordering of the knots is needed for that). -/
theorem piecewise_total (x x0 : ℝ) (rest ys : List ℝ) (hrest : rest ≠ []) (h0 : ¬ x < x0)
    (hl : ¬ (x0 :: rest).getLast?.getD x0 < x) (hy : (x0 :: rest).length ≤ ys.length) :
    ∃ y, Fn.piecewise x (x0 :: rest) ys = .val y := by
  have hlast : (x0 :: rest).getLast?.getD x0 = rest.getLast hrest := by
    rw [List.getLast?_eq_some_getLast (by simp : (x0 :: rest) ≠ []), Option.getD_some, List.getLast_cons hrest]
  have hx : x ≤ rest.getLast hrest := by rw [hlast] at hl; exact not_lt.mp hl
  obtain ⟨p, hp, h1, h2⟩ := bracketLoop_some x rest 1 ⟨_, List.getLast_mem hrest, hx⟩
  have hlen : (x0 :: rest).length = rest.length + 1 := by simp
  have e1 : (x0 :: rest)[p - 1]? = some ((x0 :: rest)[p - 1]'(by omega)) := List.getElem?_eq_getElem (by omega)
  have e2 : (x0 :: rest)[p]? = some ((x0 :: rest)[p]'(by omega)) := List.getElem?_eq_getElem (by omega)
  have e3 : ys[p - 1]? = some (ys[p - 1]'(by omega)) := List.getElem?_eq_getElem (by omega)
  have e4 : ys[p]? = some (ys[p]'(by omega)) := List.getElem?_eq_getElem (by omega)
  unfold Fn.piecewise Fn.brackets
  simp only [if_neg h0, if_neg hl, hp, e1, e2, e3, e4]
  split_ifs <;> exact ⟨_, rfl⟩

/-- the shape `mkTables` + the wrapper's slicing give for `nLVA ≥ 2`: at least two knots, the curve ends read from the volume
table, value tables at least as long as the volume table -/
structure WellFormed (t : Tables ℝ) : Prop where
  two : 2 ≤ t.volumes.length
  vmin : t.volumes[0]? = some t.volCurveMin
  vmax : t.volumes[t.volumes.length - 1]? = some t.volCurveMax
  levels : t.volumes.length ≤ t.levels.length
  areas : t.volumes.length ≤ t.areas.length
  minRelease : t.volumes.length ≤ t.minRelease.length
  maxRelease : t.volumes.length ≤ t.maxRelease.length

theorem capped_total (t : Tables ℝ) (hw : WellFormed t) (ys : List ℝ) (hy : t.volumes.length ≤ ys.length) (v : ℝ) :
    ∃ y, cappedPiecewise t v ys = .ok y := by
  have h2 := hw.two
  unfold cappedPiecewise
  split_ifs with h1 h3
  · exact ⟨ys[0]'(by omega), by simp only [getAt, List.getElem?_eq_getElem (by omega : 0 < ys.length)]⟩
  · exact ⟨ys[t.volumes.length - 1]'(by omega), by
      simp only [getAt, List.getElem?_eq_getElem (by omega : t.volumes.length - 1 < ys.length)]⟩
  · match hv : t.volumes, hw.vmin, hw.vmax, hy, h2 with
    | [], _, _, _, h2 => simp at h2
    | x0 :: rest, vmin, vmax, hy, h2 =>
      have hrest : rest ≠ [] := by
        intro h; subst h; simp at h2
      have e0 : x0 = t.volCurveMin := by simpa using vmin
      have elast : (x0 :: rest).getLast?.getD x0 = t.volCurveMax := by
        rw [List.getLast?_eq_getElem?, vmax, Option.getD_some]
      obtain ⟨y, hy'⟩ := piecewise_total v x0 rest ys hrest (by rw [e0]; exact h1) (by rw [elast]; exact h3) hy
      exact ⟨y, by rw [hy']⟩

theorem total_of_wellFormed (t : Tables ℝ) (hw : WellFormed t) : Total t :=
  ⟨capped_total t hw _ hw.areas, capped_total t hw _ hw.minRelease, capped_total t hw _ hw.maxRelease,
    capped_total t hw _ hw.levels⟩

/-! ### `SafeAt` from conditions on the tables and the inputs -/

/-- **Release limited by the content, no net loss through the surface.** If the release rule never releases in 6 s more than
the water present (`q·6 ≤ max u 0`, releases non-negative) and the surface flux never outweighs the inflow
(`0 ≤ inflow + netFlux·a` for every value `a` of the area table: rain ≥ evaporation, or zero area where it evaporates, or
enough inflow), then the 6 s safety holds at every non-negative volume. -/
theorem safeAt_of_release_limited (t : Tables ℝ) (inflow demand netFlux : ℝ)
    (hq : ∀ u q, releaseRate t demand u = .ok q → 0 ≤ q ∧ q * 6 ≤ max u 0)
    (ha : ∀ a, AreaVal t a → 0 ≤ inflow + netFlux * a) :
    ∀ v est, 0 ≤ v → releaseRate t demand v = .ok est → SafeAt t inflow demand netFlux v est := by
  intro v est hv he
  obtain ⟨e0, e6⟩ := hq v est he
  rw [max_eq_left hv] at e6
  have first : ∀ sub a, 0 < sub → sub ≤ 6 → AreaVal t a → 0 ≤ v + ((inflow - est) + netFlux * a) * sub := by
    intro sub a hp h6 hA
    have g : 0 ≤ (inflow + netFlux * a) * sub := mul_nonneg (ha a hA) hp.le
    have r : est * sub ≤ est * 6 := mul_le_mul_of_nonneg_left h6 e0
    have key : v + ((inflow - est) + netFlux * a) * sub = (v - est * sub) + (inflow + netFlux * a) * sub := by ring
    rw [key]; linarith
  refine ⟨first, ?_⟩
  intro sub a q' hp h6 hA hq'
  have hu := first sub a hp h6 hA
  obtain ⟨q0, q6⟩ := hq _ q' hq'
  rw [max_eq_left hu] at q6
  have g : 0 ≤ (inflow + netFlux * a) * sub := mul_nonneg (ha a hA) hp.le
  have r : q' * sub ≤ q' * 6 := mul_le_mul_of_nonneg_left h6 q0
  have key : v + ((inflow - (q' + est) / 2) + netFlux * a) * sub
      = ((v + (inflow + netFlux * a) * sub) + ((v + ((inflow - est) + netFlux * a) * sub) - q' * sub)) / 2 := by ring
  rw [key]
  have : 0 ≤ (v + ((inflow - est) + netFlux * a) * sub) - q' * sub := by linarith
  linarith

/-- **Net gain.** If for every value `q` of the release rule and every value `a` of the area table the net rate
`inflow − q + netFlux·a` is non-negative (filling: the reservoir never loses water), the 6 s safety holds at every
non-negative volume. -/
theorem safeAt_of_net_gain (t : Tables ℝ) (inflow demand netFlux : ℝ)
    (hg : ∀ q a, RelVal t demand q → AreaVal t a → 0 ≤ inflow - q + netFlux * a) :
    ∀ v est, 0 ≤ v → releaseRate t demand v = .ok est → SafeAt t inflow demand netFlux v est := by
  intro v est hv he
  refine ⟨?_, ?_⟩
  · intro sub a hp _ hA
    have := mul_nonneg (hg est a ⟨v, he⟩ hA) hp.le
    linarith
  · intro sub a q' hp _ hA hq'
    have g1 := hg est a ⟨v, he⟩ hA
    have g2 := hg q' a ⟨_, hq'⟩ hA
    have key : v + ((inflow - (q' + est) / 2) + netFlux * a) * sub
        = v + (((inflow - est + netFlux * a) + (inflow - q' + netFlux * a)) / 2) * sub := by ring
    rw [key]
    have := mul_nonneg (by linarith : 0 ≤ ((inflow - est + netFlux * a) + (inflow - q' + netFlux * a)) / 2) hp.le
    linarith

end OW.Proofs.Storage
