import OW.Proofs.SacramentoInvInc
import Mathlib.Analysis.SpecialFunctions.Sqrt
/-!
C10 for Sacramento, part 3 — the zones of a time step before the drainage loop (upper-zone evaporation, transfer of
free water to tension water, lower-zone and ADIMP evaporation, resupply of the lower tension water, filling of the
upper tension water), the one or two `ii` passes, the channel stage with the unit hydrograph, and the one-step
theorem `step_spec` (invariant, non-negative outputs, water budget).
-/
namespace OW.RR.Sac
open OW OW.Kernels.Sacramento

/-! ### evaporation from the upper zone -/

/-- e1 from the tension water (all of it when the demand exceeds the content: "dry" case, then e2 from the free
water), both non-negative and together at most the demand; contents stay non-negative and nothing else moves.
Last clause: either the tension water is emptied and (the demand is met or the free water is emptied too), or
e2 = 0 and e1 = evapt·uztwc/uztwm (the divisor `uztwm` is positive). -/
theorem uzEt_spec (p : Params ℝ) (hp : ParamsOk p) (uztwc uzfwc E : ℝ) (hu0 : 0 ≤ uztwc) (hu1 : uztwc ≤ p.uztwm)
    (hf0 : 0 ≤ uzfwc) (hE : 0 ≤ E) :
    0 ≤ e1bOf p uztwc E ∧ 0 ≤ e2aOf p uztwc uzfwc E ∧ e1bOf p uztwc E + e2aOf p uztwc uzfwc E ≤ E ∧
    0 ≤ uztwc1Of p uztwc E ∧ e1bOf p uztwc E + uztwc1Of p uztwc E = uztwc ∧
    0 ≤ uzfwc1Of p uztwc uzfwc E ∧ e2aOf p uztwc uzfwc E + uzfwc1Of p uztwc uzfwc E = uzfwc ∧
    ((uztwc1Of p uztwc E = 0 ∧
        (E - e1bOf p uztwc E - e2aOf p uztwc uzfwc E = 0 ∨ uzfwc1Of p uztwc uzfwc E = 0)) ∨
      (e2aOf p uztwc uzfwc E = 0 ∧ e1bOf p uztwc E * p.uztwm = E * uztwc)) := by
  have hT := hp.uztwm
  have ha : e1aOf p uztwc E = E * uztwc / p.uztwm := by
    unfold e1aOf; sacnum; rw [if_pos hT]
  have ha0 : 0 ≤ e1aOf p uztwc E := by rw [ha]; exact div_nonneg (mul_nonneg hE hu0) hT.le
  have ha1 : e1aOf p uztwc E * p.uztwm = E * uztwc := by rw [ha]; exact div_mul_cancel₀ _ hT.ne'
  have ha2 : e1aOf p uztwc E ≤ E := by
    have : e1aOf p uztwc E * p.uztwm ≤ E * p.uztwm := by
      rw [ha1]; exact mul_le_mul_of_nonneg_left hu1 hE
    exact le_of_mul_le_mul_right this hT
  unfold uzfwc1Of e2aOf e1bOf uztwc1Of
  generalize e1aOf p uztwc E = a at ha0 ha1 ha2
  sacnum
  by_cases h : uztwc < a
  · simp only [if_pos h]
    have hm0 : 0 ≤ min (E - uztwc) uzfwc := le_min (by linarith) hf0
    have hm1 : min (E - uztwc) uzfwc ≤ E - uztwc := min_le_left _ _
    have hm2 : min (E - uztwc) uzfwc ≤ uzfwc := min_le_right _ _
    refine ⟨hu0, hm0, by linarith, le_refl _, by ring, by linarith, by ring, Or.inl ⟨trivial, ?_⟩⟩
    rcases min_choice (E - uztwc) uzfwc with hc | hc
    · left; rw [hc]; ring
    · right; rw [hc]; ring
  · simp only [if_neg h]
    exact ⟨ha0, le_refl _, by linarith, by linarith [not_lt.mp h], by ring, hf0, by ring, Or.inr ⟨trivial, ha1⟩⟩

/-! ### transfer of upper free water to upper tension water -/

/-- when the free water is relatively fuller than the tension water both are set to the common relative content:
contents stay within capacities, their sum is unchanged, afterwards the free water is relatively not fuller than
the tension water, the tension water does not decrease, and the transferred amount is
`(uztwm·uzfwc − uztwc·uzfwm)/(uztwm + uzfwm)` (divisors `uztwm`, `uzfwm`, `uztwm + uzfwm` positive). -/
theorem transfer_spec (p : Params ℝ) (hp : ParamsOk p) (u1 f1 : ℝ) (hu0 : 0 ≤ u1) (hu1 : u1 ≤ p.uztwm)
    (hf0 : 0 ≤ f1) (hf1 : f1 ≤ p.uzfwm) :
    0 ≤ uztwc2Of p u1 f1 ∧ uztwc2Of p u1 f1 ≤ p.uztwm ∧ 0 ≤ uzfwc2Of p u1 f1 ∧ uzfwc2Of p u1 f1 ≤ p.uzfwm ∧
    uztwc2Of p u1 f1 + uzfwc2Of p u1 f1 = u1 + f1 ∧
    uzfwc2Of p u1 f1 * p.uztwm ≤ uztwc2Of p u1 f1 * p.uzfwm ∧ u1 ≤ uztwc2Of p u1 f1 ∧
    (uztwc2Of p u1 f1 = u1 ∨
      (uztwc2Of p u1 f1 - u1) * (p.uztwm + p.uzfwm) = p.uztwm * f1 - u1 * p.uzfwm) := by
  have hT := hp.uztwm
  have hF := hp.uzfwm
  have hTF : 0 < p.uztwm + p.uzfwm := by linarith
  have hcond : (a1Of p u1 < b1Of p f1) ↔ u1 * p.uzfwm < f1 * p.uztwm := by
    unfold a1Of b1Of; sacnum
    rw [if_pos hT, if_pos hF, div_lt_div_iff₀ hT hF]
  unfold uztwc2Of uzfwc2Of
  sacnum
  generalize ha2 : (u1 + f1) / (p.uztwm + p.uzfwm) = a2
  have hk : a2 * (p.uztwm + p.uzfwm) = u1 + f1 := by rw [← ha2]; exact div_mul_cancel₀ _ hTF.ne'
  have ha20 : 0 ≤ a2 := by rw [← ha2]; exact div_nonneg (by linarith) hTF.le
  have ha21 : a2 ≤ 1 := by rw [← ha2, div_le_one hTF]; linarith
  by_cases h : a1Of p u1 < b1Of p f1
  · simp only [if_pos h]
    rw [hcond] at h
    have e1 : (p.uztwm * a2 - u1) * (p.uztwm + p.uzfwm) = p.uztwm * f1 - u1 * p.uzfwm := by
      have : (p.uztwm * a2 - u1) * (p.uztwm + p.uzfwm) =
          p.uztwm * (a2 * (p.uztwm + p.uzfwm)) - u1 * (p.uztwm + p.uzfwm) := by ring
      rw [this, hk]; ring
    have e2 : 0 ≤ p.uztwm * a2 - u1 := by
      have : 0 ≤ (p.uztwm * a2 - u1) * (p.uztwm + p.uzfwm) := by rw [e1]; linarith
      exact nonneg_of_mul_nonneg_left this hTF
    refine ⟨mul_nonneg hT.le ha20, by nlinarith, mul_nonneg hF.le ha20, by nlinarith, ?_, ?_, by linarith,
      Or.inr e1⟩
    · have : p.uztwm * a2 + p.uzfwm * a2 = a2 * (p.uztwm + p.uzfwm) := by ring
      rw [this, hk]
    · apply le_of_eq; ring
  · simp only [if_neg h]
    rw [hcond, not_lt] at h
    exact ⟨hu0, hu1, hf0, hf1, trivial, h, le_refl _, Or.inl trivial⟩

/-! ### evaporation from the lower tension water and from the ADIMP area -/

theorem e3_spec (p : Params ℝ) (hp : ParamsOk p) (E e1b e2a lztwc : ℝ) (hred : 0 ≤ E - e1b - e2a)
    (ht0 : 0 ≤ lztwc) : 0 ≤ e3aOf p E e1b e2a lztwc ∧ e3aOf p E e1b e2a lztwc ≤ lztwc := by
  have hM : 0 < p.uztwm + p.lztwm := by linarith [hp.uztwm, hp.lztwm_pos]
  unfold e3aOf; sacnum
  rw [if_pos hM]
  exact ⟨le_min (div_nonneg (mul_nonneg hred ht0) hM.le) ht0, min_le_right _ _⟩

/-- e5 (per unit ADIMP area) is at most the store; for a residual demand in [0, uztwm + lztwm] the excess of the
ADIMP store over the upper tension water does not grow; e5 ≥ 0 as soon as `e1·(uztwm+lztwm) + red·D ≥ 0`
(`D = adimc − e1 − uztwc`; the divisor `uztwm + lztwm` is positive) -/
theorem e5_spec (p : Params ℝ) (hp : ParamsOk p) (E e1b e2a adimc u2 : ℝ) (hred0 : 0 ≤ E - e1b - e2a)
    (hred1 : E - e1b - e2a ≤ p.uztwm + p.lztwm) (hu2 : 0 ≤ u2) :
    e5aOf p E e1b e2a adimc u2 ≤ adimc ∧
    (adimc - e5aOf p E e1b e2a adimc u2 - u2 ≤ 0 ∨
      adimc - e5aOf p E e1b e2a adimc u2 - u2 ≤ adimc - e1b - u2) ∧
    (0 ≤ adimc → 0 ≤ e1b * (p.uztwm + p.lztwm) + (E - e1b - e2a) * (adimc - e1b - u2) →
      0 ≤ e5aOf p E e1b e2a adimc u2) := by
  have hM : 0 < p.uztwm + p.lztwm := by linarith [hp.uztwm, hp.lztwm_pos]
  unfold e5aOf; sacnum
  rw [if_pos hM]
  generalize ht : (E - e1b - e2a) * (adimc - e1b - u2) / (p.uztwm + p.lztwm) = t
  have hk : t * (p.uztwm + p.lztwm) = (E - e1b - e2a) * (adimc - e1b - u2) := by
    rw [← ht]; exact div_mul_cancel₀ _ hM.ne'
  generalize E - e1b - e2a = red at *
  generalize hD : adimc - e1b - u2 = D at *
  refine ⟨min_le_right _ _, ?_, ?_⟩
  · rcases le_total (e1b + t) adimc with h | h
    · rw [min_eq_left h]
      by_cases hd : 0 ≤ D
      · right
        have : 0 ≤ t * (p.uztwm + p.lztwm) := by rw [hk]; exact mul_nonneg hred0 hd
        have : 0 ≤ t := nonneg_of_mul_nonneg_left this hM
        linarith
      · left
        have hd' : D ≤ 0 := (not_le.mp hd).le
        have h1 : (p.uztwm + p.lztwm) * D ≤ red * D := mul_le_mul_of_nonpos_right hred1 hd'
        have h2 : 0 ≤ (t - D) * (p.uztwm + p.lztwm) := by
          have : (t - D) * (p.uztwm + p.lztwm) = t * (p.uztwm + p.lztwm) - (p.uztwm + p.lztwm) * D := by ring
          rw [this, hk]; linarith
        have : 0 ≤ t - D := nonneg_of_mul_nonneg_left h2 hM
        linarith
    · rw [min_eq_right h]
      left; linarith
  · intro ha hx
    have h2 : 0 ≤ (e1b + t) * (p.uztwm + p.lztwm) := by
      have : (e1b + t) * (p.uztwm + p.lztwm) = e1b * (p.uztwm + p.lztwm) + t * (p.uztwm + p.lztwm) := by ring
      rw [this, hk]; exact hx
    exact le_min (nonneg_of_mul_nonneg_left h2 hM) ha

/-- the bound on potential evapotranspiration under which e5 is proved non-negative:
`evapt ≤ uztwm + lztwm` and `evapt·uzfwm ≤ lztwm·(uztwm + uzfwm)` (both follow from `evapt ≤ lztwm`) -/
def PetOk (p : Params ℝ) (E : ℝ) : Prop :=
  E ≤ p.uztwm + p.lztwm ∧ E * p.uzfwm ≤ p.lztwm * (p.uztwm + p.uzfwm)

theorem petOk_of_le_lztwm (p : Params ℝ) (hp : ParamsOk p) (E : ℝ) (hE : E ≤ p.lztwm) :
    PetOk p E := by
  refine ⟨by linarith [hp.uztwm], ?_⟩
  have h1 : E * p.uzfwm ≤ p.lztwm * p.uzfwm := mul_le_mul_of_nonneg_right hE hp.uzfwm.le
  have h2 : 0 ≤ p.lztwm * p.uztwm := mul_nonneg hp.lztwm_pos.le hp.uztwm.le
  linarith

/-- the algebra behind e5 ≥ 0: from the facts delivered by `uzEt_spec` and `transfer_spec`, the relative-content
invariant `uzfwc·uztwm ≤ uztwc·uzfwm` and the PET bound -/
theorem e5_arg_nonneg (p : Params ℝ) (hp : ParamsOk p) (E uztwc uzfwc adimc e1b e2a u1 f1 u2 : ℝ)
    (hpet : PetOk p E) (hu0 : 0 ≤ uztwc) (hU : uzfwc * p.uztwm ≤ uztwc * p.uzfwm) (ha : 0 ≤ adimc)
    (h1 : 0 ≤ e1b) (h2 : 0 ≤ e2a) (h3 : e1b + e2a ≤ E) (h5 : e1b + u1 = uztwc) (h7 : e2a + f1 = uzfwc)
    (hcase : (u1 = 0 ∧ (E - e1b - e2a = 0 ∨ f1 = 0)) ∨ (e2a = 0 ∧ e1b * p.uztwm = E * uztwc))
    (ht1 : u1 ≤ u2) (ht2 : u2 = u1 ∨ (u2 - u1) * (p.uztwm + p.uzfwm) = p.uztwm * f1 - u1 * p.uzfwm) :
    0 ≤ e1b * (p.uztwm + p.lztwm) + (E - e1b - e2a) * (adimc - e1b - u2) := by
  obtain ⟨hpet1, hpet2⟩ := hpet
  have hT := hp.uztwm
  have hF := hp.uzfwm
  have hTF : 0 < p.uztwm + p.uzfwm := by linarith
  have hred0 : 0 ≤ E - e1b - e2a := by linarith
  have hred1 : E - e1b - e2a ≤ E := by linarith
  -- it suffices to bound red·(e1b + u2)
  have hD : -(e1b + u2) ≤ adimc - e1b - u2 := by linarith
  have hmul : (E - e1b - e2a) * (-(e1b + u2)) ≤ (E - e1b - e2a) * (adimc - e1b - u2) :=
    mul_le_mul_of_nonneg_left hD hred0
  suffices hs : (E - e1b - e2a) * (e1b + u2) ≤ e1b * (p.uztwm + p.lztwm) by
    have : (E - e1b - e2a) * (-(e1b + u2)) = -((E - e1b - e2a) * (e1b + u2)) := by ring
    linarith
  rcases hcase with ⟨hu1z, hor⟩ | ⟨he2, he1⟩
  · rcases hor with hr | hf
    · rw [hr, zero_mul]; exact mul_nonneg h1 (by linarith [hp.lztwm_pos])
    · have hu2 : u2 = 0 := by
        rcases ht2 with h | h
        · rw [h, hu1z]
        · rw [hu1z, hf] at h
          have : u2 * (p.uztwm + p.uzfwm) = 0 := by linarith
          rcases mul_eq_zero.mp this with h' | h'
          · exact h'
          · linarith
      rw [hu2, add_zero]
      have : (E - e1b - e2a) * e1b ≤ (p.uztwm + p.lztwm) * e1b :=
        mul_le_mul_of_nonneg_right (by linarith) h1
      linarith
  · -- e2a = 0, e1b·uztwm = E·uztwc
    have htr0 : 0 ≤ u2 - u1 := by linarith
    have htr : (u2 - u1) * (p.uztwm + p.uzfwm) ≤ e1b * p.uzfwm := by
      rcases ht2 with h | h
      · rw [h, sub_self, zero_mul]; exact mul_nonneg h1 hF.le
      · rw [h]
        have hf1 : f1 = uzfwc := by linarith
        have hu1 : u1 = uztwc - e1b := by linarith
        rw [hf1, hu1]
        have : p.uztwm * uzfwc - (uztwc - e1b) * p.uzfwm = (uzfwc * p.uztwm - uztwc * p.uzfwm) + e1b * p.uzfwm := by
          ring
        linarith
    -- E·tr ≤ e1b·lztwm
    have hEtr : E * (u2 - u1) ≤ e1b * p.lztwm := by
      have hE0 : 0 ≤ E := by linarith
      have a1 : E * ((u2 - u1) * (p.uztwm + p.uzfwm)) ≤ E * (e1b * p.uzfwm) := mul_le_mul_of_nonneg_left htr hE0
      have a2 : e1b * (E * p.uzfwm) ≤ e1b * (p.lztwm * (p.uztwm + p.uzfwm)) := mul_le_mul_of_nonneg_left hpet2 h1
      have a3 : (e1b * p.lztwm - E * (u2 - u1)) * (p.uztwm + p.uzfwm) =
          e1b * (p.lztwm * (p.uztwm + p.uzfwm)) - E * ((u2 - u1) * (p.uztwm + p.uzfwm)) := by ring
      have a4 : E * (e1b * p.uzfwm) = e1b * (E * p.uzfwm) := by ring
      have : 0 ≤ (e1b * p.lztwm - E * (u2 - u1)) * (p.uztwm + p.uzfwm) := by rw [a3]; linarith
      have := nonneg_of_mul_nonneg_left this hTF
      linarith
    have hsum : e1b + u2 = uztwc + (u2 - u1) := by linarith
    rw [hsum, he2, sub_zero]
    have b1 : (E - e1b) * uztwc ≤ E * uztwc := mul_le_mul_of_nonneg_right (by linarith) hu0
    have b2 : (E - e1b) * (u2 - u1) ≤ E * (u2 - u1) := mul_le_mul_of_nonneg_right (by linarith) htr0
    have b3 : (E - e1b) * (uztwc + (u2 - u1)) = (E - e1b) * uztwc + (E - e1b) * (u2 - u1) := by ring
    have b4 : e1b * (p.uztwm + p.lztwm) = e1b * p.uztwm + e1b * p.lztwm := by ring
    rw [b3, b4, he1]
    linarith

/-! ### resupply of the lower tension water from the lower free water -/

/-- the lower tension water is topped up from the supplemental (then the primary) free water when it is relatively
emptier than the whole lower zone above the reserved part: the three contents stay within their capacities and
their sum is unchanged (divisors `lztwm` and `alzfpm + alzfsm − saved + lztwm ≥ lztwm` positive) -/
theorem resupply_spec (p : Params ℝ) (c : Consts ℝ) (hp : ParamsOk p) (hc : ConstsOk c) (t s pp : ℝ)
    (ht0 : 0 ≤ t) (ht1 : t ≤ p.lztwm) (hs0 : 0 ≤ s) (hs1 : s ≤ c.alzfsm) (hp0 : 0 ≤ pp) (hp1 : pp ≤ c.alzfpm) :
    0 ≤ lztwc2Of p c t s pp ∧ lztwc2Of p c t s pp ≤ p.lztwm ∧
    0 ≤ alzfsc1Of p c t s pp ∧ alzfsc1Of p c t s pp ≤ c.alzfsm ∧
    0 ≤ alzfpc1Of p c t s pp ∧ alzfpc1Of p c t s pp ≤ c.alzfpm ∧
    lztwc2Of p c t s pp + alzfsc1Of p c t s pp + alzfpc1Of p c t s pp = t + s + pp := by
  have hL := hp.lztwm_pos
  have hDn : 0 < c.alzfpm + c.alzfsm - c.saved + p.lztwm := by linarith [hc.saved1]
  have ha : a3Of p t = t / p.lztwm := by unfold a3Of; sacnum; rw [if_pos hL]
  have hb : b3Of p c t s pp = (pp + s - c.saved + t) / (c.alzfpm + c.alzfsm - c.saved + p.lztwm) := by
    unfold b3Of; sacnum; rw [if_pos hDn]
  have hak : a3Of p t * p.lztwm = t := by rw [ha]; exact div_mul_cancel₀ _ hL.ne'
  have hbk : b3Of p c t s pp * (c.alzfpm + c.alzfsm - c.saved + p.lztwm) = pp + s - c.saved + t := by
    rw [hb]; exact div_mul_cancel₀ _ hDn.ne'
  have ha0 : 0 ≤ a3Of p t := by rw [ha]; exact div_nonneg ht0 hL.le
  have hb1 : b3Of p c t s pp ≤ 1 := by rw [hb, div_le_one hDn]; linarith
  unfold alzfpc1Of alzfsc1Of alzfsc0Of lztwc2Of delOf
  generalize a3Of p t = a at *
  generalize b3Of p c t s pp = b at *
  sacnum
  by_cases h : a < b
  · simp only [if_pos h]
    have hb0 : 0 ≤ b := by linarith
    -- del = b·lztwm − t = (pp + s) − saved − b·(alzfpm + alzfsm − saved)
    have hdel : (b - a) * p.lztwm = b * p.lztwm - t := by rw [sub_mul, hak]
    have hdel0 : 0 ≤ (b - a) * p.lztwm := mul_nonneg (by linarith) hL.le
    have hdel1 : (b - a) * p.lztwm ≤ pp + s := by
      have e : b * p.lztwm = pp + s - c.saved + t - b * (c.alzfpm + c.alzfsm - c.saved) := by
        rw [← hbk]; ring
      have : 0 ≤ b * (c.alzfpm + c.alzfsm - c.saved) := mul_nonneg hb0 (by linarith [hc.saved1])
      rw [hdel, e]; linarith [hc.saved0]
    have hbl : b * p.lztwm ≤ p.lztwm := by nlinarith
    generalize (b - a) * p.lztwm = del at *
    split_ifs with h2
    · exact ⟨by linarith, by linarith, le_refl _, hc.sm.le, by linarith, by linarith, by ring⟩
    · exact ⟨by linarith, by linarith, not_lt.mp h2, by linarith, hp0, hp1, by ring⟩
  · simp only [if_neg h]
    exact ⟨ht0, ht1, hs0, hs1, hp0, hp1, trivial⟩

/-! ### filling of the upper tension water by the rain -/

/-- the rain first fills the upper tension water (and the ADIMP store by the same amount); what is left is `pav ≥ 0`,
positive only if the tension water is full -/
theorem fillTw_spec (p : Params ℝ) (pliq u2 adimc1 : ℝ) (hr : 0 ≤ pliq) (hu1 : u2 ≤ p.uztwm) :
    0 ≤ pavOf p pliq u2 ∧ u2 ≤ uztwc3Of p pliq u2 ∧ uztwc3Of p pliq u2 ≤ p.uztwm ∧
    (0 < pavOf p pliq u2 → uztwc3Of p pliq u2 = p.uztwm) ∧
    uztwc3Of p pliq u2 + pavOf p pliq u2 = u2 + pliq ∧
    adimc2Of p pliq u2 adimc1 - uztwc3Of p pliq u2 = adimc1 - u2 := by
  unfold pavOf uztwc3Of adimc2Of pav0Of
  sacnum
  split_ifs with h
  · exact ⟨le_refl _, by linarith, by linarith, fun h' => absurd h' (lt_irrefl _), by ring, by ring⟩
  · exact ⟨not_lt.mp h, hu1, le_refl _, fun _ => rfl, by ring, by ring⟩

/-! ### the one or two `ii` passes -/

theorem sci508 : @OfScientific.ofScientific ℝ (Num.toOfScientific) 508 true 2 = 127 / 25 := by
  rw [OW.RR.Surm.sci]; norm_num
theorem sci254 : @OfScientific.ofScientific ℝ (Num.toOfScientific) 254 true 1 = 127 / 5 := by
  rw [OW.RR.Surm.sci]; norm_num
theorem sci127 : @OfScientific.ofScientific ℝ (Num.toOfScientific) 127 true 1 = 127 / 10 := by
  rw [OW.RR.Surm.sci]; norm_num
theorem sci05 : @OfScientific.ofScientific ℝ (Num.toOfScientific) 5 true 1 = 1 / 2 := by
  rw [OW.RR.Surm.sci]; norm_num

/-- the fraction of the day given to the first pass lies in [0,1] (divisors 25.4 and `pav > 5.08`) -/
theorem adj_spec (pav : ℝ) : 0 ≤ adjOf pav ∧ adjOf pav ≤ 1 := by
  unfold adjOf
  sacnum
  rw [sci508, sci254, sci127, sci05, RealNum.sqrt_eq]
  split_ifs with h1 h2
  · exact ⟨zero_le_one, le_refl _⟩
  · have hs0 : 0 ≤ Real.sqrt (pav / (127 / 5)) := Real.sqrt_nonneg _
    have hs1 : Real.sqrt (pav / (127 / 5)) ≤ 1 := by
      rw [Real.sqrt_le_one, div_le_one (by norm_num)]; exact h2.le
    exact ⟨by linarith, by linarith⟩
  · have hp : 0 < pav := by linarith [not_le.mp h1]
    have h3 : 127 / 5 ≤ pav := not_lt.mp h2
    have h4 : 0 ≤ 127 / 10 / pav := div_nonneg (by norm_num) hp.le
    have h5 : 127 / 10 / pav ≤ 1 := by rw [div_le_one hp]; linarith
    exact ⟨by linarith, by linarith⟩

theorem hpl_nonneg (c : Consts ℝ) (hc : ConstsOk c) : 0 ≤ hplOf c := by
  unfold hplOf; sacnum
  exact div_nonneg hc.pm.le (by linarith [hc.pm, hc.sm])

/-- **All increments of a time step**: loop invariant kept, pervious-area water grows by exactly `pav`,
additional-impervious-area water by `adimp·pav`. -/
theorem loops_spec (p : Params ℝ) (c : Consts ℝ) (hp : ParamsOk p) (hc : ConstsOk c) (u3 pav : ℝ)
    (hu0 : 0 ≤ u3) (hpav : 0 ≤ pav) (hfull : 0 < pav → u3 = p.uztwm) (v : Inner ℝ) (hv : LoopInv p c u3 v) :
    LoopInv p c u3 (loopsOf p c u3 pav v) ∧ wp (loopsOf p c u3 pav v) = wp v + pav ∧
    wa p (loopsOf p c u3 pav v) = wa p v + p.adimp * pav := by
  obtain ⟨ha0, ha1⟩ := adj_spec pav
  have hh := hpl_nonneg c hc
  obtain ⟨i1, i2, i3⟩ := iiBody_spec p c hp hc u3 (hplOf c) (adjOf pav) pav hh hu0 ha0 hpav hfull v hv
  unfold loopsOf
  split_ifs with h
  · exact ⟨i1, i2, i3⟩
  · sacnum
    obtain ⟨j1, j2, j3⟩ := iiBody_spec p c hp hc u3 (hplOf c) (1 - adjOf pav) 0 hh hu0 (by linarith) (le_refl _)
      (fun h' => absurd h' (lt_irrefl _)) _ i1
    refine ⟨j1, ?_, ?_⟩
    · rw [j2, i2]; ring
    · rw [j3, i3]; ring

theorem loops_G (p : Params ℝ) (c : Consts ℝ) (hp : ParamsOk p) (hc : ConstsOk c) (h10 : 10 ≤ p.lztwm) (u3 pav : ℝ)
    (hu0 : 0 ≤ u3) (hpav : 0 ≤ pav) (hfull : 0 < pav → u3 = p.uztwm) (v : Inner ℝ) (hv : LoopInv p c u3 v)
    (hG : v.adimc - u3 ≤ p.lztwm) : (loopsOf p c u3 pav v).adimc - u3 ≤ p.lztwm := by
  obtain ⟨ha0, ha1⟩ := adj_spec pav
  have hh := hpl_nonneg c hc
  obtain ⟨i1, -, -⟩ := iiBody_spec p c hp hc u3 (hplOf c) (adjOf pav) pav hh hu0 ha0 hpav hfull v hv
  have g1 := iiBody_G p c hp hc h10 u3 (hplOf c) (adjOf pav) pav hh hu0 ha0 hpav hfull v hv hG
  unfold loopsOf
  split_ifs with h
  · exact g1
  · sacnum
    exact iiBody_G p c hp hc h10 u3 (hplOf c) (1 - adjOf pav) 0 hh hu0 (by linarith) (le_refl _)
      (fun h' => absurd h' (lt_irrefl _)) _ i1 g1

/-! ### the channel stage and the unit hydrograph -/

/-- water in transit in the unit-hydrograph buffer: the inflow of `j` steps ago is still owed the ordinates `j … 4`
(slot 0 of the buffer is overwritten by the next inflow before it is read) -/
def uhStor : List ℝ → List ℝ → ℝ
  | [_, q1, q2, q3, q4], [_, d1, d2, d3, d4] =>
    q1 * (d1 + d2 + d3 + d4) + q2 * (d2 + d3 + d4) + q3 * (d3 + d4) + q4 * d4
  | _, _ => 0

theorem channel_spec (p : Params ℝ) (c : Consts ℝ) (hp : ParamsOk p) (a q1 q2 q3 q4 d0 d1 d2 d3 d4 E : ℝ)
    (v2 : Inner ℝ) (hdro : c.dro = [d0, d1, d2, d3, d4])
    (hq1 : 0 ≤ q1) (hq2 : 0 ≤ q2) (hq3 : 0 ≤ q3) (hq4 : 0 ≤ q4)
    (hd0 : 0 ≤ d0) (hd1 : 0 ≤ d1) (hd2 : 0 ≤ d2) (hd3 : 0 ≤ d3) (hd4 : 0 ≤ d4)
    (hsum : d0 + d1 + d2 + d3 + d4 = 1) (hE : 0 ≤ E)
    (hbf : 0 ≤ v2.flobf) (hsf : 0 ≤ v2.flosf) (hin : 0 ≤ v2.floin) (hro : 0 ≤ v2.roimp) :
    (channel p c [a, q1, q2, q3, q4] E v2).qq =
      [v2.flosf * (1 - p.pctim - p.adimp) + v2.roimp + v2.floin * (1 - p.pctim - p.adimp),
       v2.flosf * (1 - p.pctim - p.adimp) + v2.roimp + v2.floin * (1 - p.pctim - p.adimp), q1, q2, q3] ∧
    (channel p c [a, q1, q2, q3, q4] E v2).lzfpc * (1 + p.side) = v2.alzfpc ∧
    (channel p c [a, q1, q2, q3, q4] E v2).lzfsc * (1 + p.side) = v2.alzfsc ∧
    0 ≤ (channel p c [a, q1, q2, q3, q4] E v2).qf ∧ 0 ≤ (channel p c [a, q1, q2, q3, q4] E v2).bf ∧
    (channel p c [a, q1, q2, q3, q4] E v2).bf ≤ (channel p c [a, q1, q2, q3, q4] E v2).qf ∧
    0 ≤ (channel p c [a, q1, q2, q3, q4] E v2).e4 ∧
    (channel p c [a, q1, q2, q3, q4] E v2).qf + (channel p c [a, q1, q2, q3, q4] E v2).e4 +
        uhStor (channel p c [a, q1, q2, q3, q4] E v2).qq c.dro ≤
      v2.flobf * (1 - p.pctim - p.adimp) +
        (v2.flosf * (1 - p.pctim - p.adimp) + v2.roimp + v2.floin * (1 - p.pctim - p.adimp)) +
        uhStor [a, q1, q2, q3, q4] c.dro := by
  have hf : 0 ≤ 1 - p.pctim - p.adimp := by linarith [hp.area]
  have hs : 0 < 1 + p.side := by linarith [hp.side0]
  simp only [channel, hdro, convolve, List.tail_cons, List.zipWith_cons_cons, List.zipWith_nil_right,
    List.foldl_cons, List.foldl_nil, List.dropLast, uhStor]
  sacnum
  have hq0' : 0 ≤ v2.flosf * (1 - p.pctim - p.adimp) + v2.roimp + v2.floin * (1 - p.pctim - p.adimp) := by
    have := mul_nonneg hsf hf
    have := mul_nonneg hin hf
    linarith
  have hbb : 0 ≤ v2.flobf * (1 - p.pctim - p.adimp) := mul_nonneg hbf hf
  have hb0 : 0 ≤ v2.flobf * (1 - p.pctim - p.adimp) / (1 + p.side) := div_nonneg hbb hs.le
  have hb1 : v2.flobf * (1 - p.pctim - p.adimp) / (1 + p.side) ≤ v2.flobf * (1 - p.pctim - p.adimp) := by
    rw [div_le_iff₀ hs]
    have := mul_nonneg hbb hp.side0
    linarith
  have hcp : v2.alzfpc / (1 + p.side) * (1 + p.side) = v2.alzfpc := div_mul_cancel₀ _ hs.ne'
  have hcs : v2.alzfsc / (1 + p.side) * (1 + p.side) = v2.alzfsc := div_mul_cancel₀ _ hs.ne'
  generalize v2.flosf * (1 - p.pctim - p.adimp) + v2.roimp + v2.floin * (1 - p.pctim - p.adimp) = q0 at *
  generalize v2.flobf * (1 - p.pctim - p.adimp) = fb at *
  generalize fb / (1 + p.side) = flwbf at *
  simp only [if_neg (not_lt.mpr hb0)]
  have hsf0 : 0 ≤ 0 + q0 * d0 + q1 * d1 + q2 * d2 + q3 * d3 + q4 * d4 := by
    have := mul_nonneg hq0' hd0
    have := mul_nonneg hq1 hd1
    have := mul_nonneg hq2 hd2
    have := mul_nonneg hq3 hd3
    have := mul_nonneg hq4 hd4
    linarith
  have huh : 0 + q0 * d0 + q1 * d1 + q2 * d2 + q3 * d3 + q4 * d4 +
      (q0 * (d1 + d2 + d3 + d4) + q1 * (d2 + d3 + d4) + q2 * (d3 + d4) + q3 * d4) =
      q0 + (q1 * (d1 + d2 + d3 + d4) + q2 * (d2 + d3 + d4) + q3 * (d3 + d4) + q4 * d4) := by
    have : 0 + q0 * d0 + q1 * d1 + q2 * d2 + q3 * d3 + q4 * d4 +
        (q0 * (d1 + d2 + d3 + d4) + q1 * (d2 + d3 + d4) + q2 * (d3 + d4) + q3 * d4) =
        q0 * (d0 + d1 + d2 + d3 + d4) +
          (q1 * (d1 + d2 + d3 + d4) + q2 * (d2 + d3 + d4) + q3 * (d3 + d4) + q4 * d4) := by ring
    rw [this, hsum, mul_one]
  generalize 0 + q0 * d0 + q1 * d1 + q2 * d2 + q3 * d3 + q4 * d4 = flwsf at *
  have hqf10 : 0 ≤ max 0 (flwbf + flwsf - p.ssout) := le_max_left _ _
  have hqf11 : max 0 (flwbf + flwsf - p.ssout) ≤ flwbf + flwsf := max_le (by linarith) (by linarith [hp.ssout0])
  generalize max 0 (flwbf + flwsf - p.ssout) = qf1 at *
  have he40 : 0 ≤ min (E * p.sarva) qf1 := le_min (mul_nonneg hE hp.sarva0) hqf10
  have he41 : min (E * p.sarva) qf1 ≤ qf1 := min_le_right _ _
  generalize min (E * p.sarva) qf1 = e4 at *
  have hbff : 0 ≤ (if 0 < flwbf + flwsf then flwbf / (flwbf + flwsf) else 0) ∧
      (if 0 < flwbf + flwsf then flwbf / (flwbf + flwsf) else 0) ≤ 1 := by
    split_ifs with h
    · exact ⟨div_nonneg hb0 h.le, by rw [div_le_one h]; linarith⟩
    · exact ⟨le_refl _, zero_le_one⟩
  generalize (if 0 < flwbf + flwsf then flwbf / (flwbf + flwsf) else 0) = bff at *
  have hqf : 0 ≤ qf1 - e4 := by linarith
  refine ⟨trivial, hcp, hcs, hqf, mul_nonneg hbff.1 hqf, ?_, he40, ?_⟩
  · nlinarith [hbff.2]
  · linarith

/-! ### the constants computed before the time loop -/

theorem consts_alzfsm (p : Params ℝ) : (consts p).alzfsm = p.lzfsm * (1 + p.side) := by
  unfold consts; sacnum
theorem consts_alzfpm (p : Params ℝ) : (consts p).alzfpm = p.lzfpm * (1 + p.side) := by
  unfold consts; sacnum
theorem consts_saved (p : Params ℝ) : (consts p).saved = p.rserv * (p.lzfpm + p.lzfsm) := by
  unfold consts; sacnum
theorem consts_pbase (p : Params ℝ) :
    (consts p).pbase = p.lzfsm * (1 + p.side) * p.lzsk + p.lzfpm * (1 + p.side) * p.lzpk := by
  unfold consts; sacnum
theorem consts_dro (p : Params ℝ) : (consts p).dro = makeUnitHydrograph p := rfl

theorem consts_ok (p : Params ℝ) (hp : ParamsOk p) : ConstsOk (consts p) := by
  have hs : 0 < 1 + p.side := by linarith [hp.side0]
  have h1 : 0 < p.lzfsm * (1 + p.side) := mul_pos hp.lzfsm hs
  have h2 : 0 < p.lzfpm * (1 + p.side) := mul_pos hp.lzfpm hs
  refine ⟨by rw [consts_alzfsm]; exact h1, by rw [consts_alzfpm]; exact h2, ?_, ?_, ?_⟩
  · rw [consts_pbase]
    exact add_nonneg (mul_nonneg h1.le hp.lzsk0) (mul_nonneg h2.le hp.lzpk0)
  · rw [consts_saved]; exact mul_nonneg hp.rserv0 (by linarith [hp.lzfpm, hp.lzfsm])
  · rw [consts_saved, consts_alzfsm, consts_alzfpm]
    have hsum : 0 ≤ p.lzfpm + p.lzfsm := by linarith [hp.lzfpm, hp.lzfsm]
    have a1 : p.rserv * (p.lzfpm + p.lzfsm) ≤ 1 * (p.lzfpm + p.lzfsm) := mul_le_mul_of_nonneg_right hp.rserv1 hsum
    have a2 : 0 ≤ (p.lzfpm + p.lzfsm) * p.side := mul_nonneg hsum hp.side0
    linarith

/-- the unit hydrograph as an explicit five-element list of non-negative weights summing to one (the divisor is the
sum of the proportions, positive by `ParamsOk.uhs`) -/
theorem dro_spec (p : Params ℝ) (hp : ParamsOk p) :
    ∃ d0 d1 d2 d3 d4 : ℝ, (consts p).dro = [d0, d1, d2, d3, d4] ∧ 0 ≤ d0 ∧ 0 ≤ d1 ∧ 0 ≤ d2 ∧ 0 ≤ d3 ∧ 0 ≤ d4 ∧
      d0 + d1 + d2 + d3 + d4 = 1 := by
  obtain ⟨hsum, hnn⟩ := OW.RR.Sacramento.uh_normalised p hp.uh1 hp.uh2 hp.uh3 hp.uh4 hp.uh5 hp.uhs
  rw [consts_dro]
  unfold makeUnitHydrograph at hsum hnn ⊢
  simp only [] at hsum hnn ⊢
  generalize (0.0 : ℝ) + p.uh1 + p.uh2 + p.uh3 + p.uh4 + p.uh5 = sm at *
  refine ⟨_, _, _, _, _, rfl, hnn _ (by simp), hnn _ (by simp), hnn _ (by simp), hnn _ (by simp),
    hnn _ (by simp), ?_⟩
  simp only [List.sum_cons, List.sum_nil, add_zero] at hsum
  sacnum at hsum
  sacnum
  linarith

/-! ### state invariant and water held -/

/-- **The invariant of the Sacramento state** between time steps: the five stores of the pervious area within
their capacities (the lower free-water stores in the (1+side)-scaled form the code works with, consistent with the
reported `LwrPrimaryFreeWater`, `LwrSupplFreeWater`), the additional impervious store in `[0, uztwc + 5/4·lztwm]`,
the upper free water relatively not fuller than the upper tension water (`uzfwc/uzfwm ≤ uztwc/uztwm`, established by
the free-to-tension transfer of every step), and a five-slot unit-hydrograph buffer with non-negative entries. -/
structure SacInv (p : Params ℝ) (st : State ℝ) : Prop where
  tw0 : 0 ≤ st.uztwc
  tw1 : st.uztwc ≤ p.uztwm
  fw0 : 0 ≤ st.uzfwc
  fw1 : st.uzfwc ≤ p.uzfwm
  lt0 : 0 ≤ st.lztwc
  lt1 : st.lztwc ≤ p.lztwm
  s0 : 0 ≤ st.alzfsc
  s1 : st.alzfsc ≤ p.lzfsm * (1 + p.side)
  p0 : 0 ≤ st.alzfpc
  p1 : st.alzfpc ≤ p.lzfpm * (1 + p.side)
  cs : st.lzfsc * (1 + p.side) = st.alzfsc
  cp : st.lzfpc * (1 + p.side) = st.alzfpc
  a0 : 0 ≤ st.adimc
  a1 : 4 * (st.adimc - st.uztwc) ≤ 5 * p.lztwm
  u : st.uzfwc * p.uztwm ≤ st.uztwc * p.uzfwm
  qq : ∃ a q1 q2 q3 q4 : ℝ, st.qq = [a, q1, q2, q3, q4] ∧ 0 ≤ q1 ∧ 0 ≤ q2 ∧ 0 ≤ q3 ∧ 0 ≤ q4

/-- water of the pervious area (per unit pervious area); the lower free-water stores count (1+side)-fold -/
def wSt (st : State ℝ) : ℝ := st.uztwc + st.uzfwc + st.lztwc + st.alzfsc + st.alzfpc

/-- water held per unit catchment area: pervious stores × (1 − pctim − adimp), additional impervious store × adimp,
plus the water in transit in the unit-hydrograph buffer -/
noncomputable def stor (p : Params ℝ) (st : State ℝ) : ℝ :=
  (1 - p.pctim - p.adimp) * wSt st + p.adimp * st.adimc + uhStor st.qq (consts p).dro

/-! ### everything before the drainage loop -/

theorem sci0_le : (0 : ℝ) ≤ @OfScientific.ofScientific ℝ (Num.toOfScientific) 0 true 1 := by rw [N.sci0]

/-- **Before the loop.** From a state satisfying the invariant, rain ≥ 0 and 0 ≤ PET ≤ uztwm + lztwm:
e1, e2, e3 ≥ 0 and e5 ≤ adimc; the loop starts from variables satisfying the loop invariant; the rain is split into
the filling of the upper tension water and `pav ≥ 0`; the water of the pervious area and of the additional
impervious area is accounted for exactly; and under `PetOk` also e5 ≥ 0. -/
theorem pre_spec (p : Params ℝ) (hp : ParamsOk p) (st : State ℝ) (x : ℝ × ℝ) (hs : SacInv p st)
    (hr : 0 ≤ x.1) (hE0 : 0 ≤ x.2) (hE1 : x.2 ≤ p.uztwm + p.lztwm) :
    0 ≤ (preOf p (consts p) st x).e1b ∧ 0 ≤ (preOf p (consts p) st x).e2a ∧ 0 ≤ (preOf p (consts p) st x).e3a ∧
    LoopInv p (consts p) (preOf p (consts p) st x).uztwc3 (v0Of p (consts p) st x) ∧
    0 ≤ (preOf p (consts p) st x).uztwc3 ∧ (preOf p (consts p) st x).uztwc3 ≤ p.uztwm ∧
    0 ≤ (preOf p (consts p) st x).pav ∧
    (0 < (preOf p (consts p) st x).pav → (preOf p (consts p) st x).uztwc3 = p.uztwm) ∧
    (preOf p (consts p) st x).uztwc3 + wp (v0Of p (consts p) st x) + (preOf p (consts p) st x).pav =
      wSt st - (preOf p (consts p) st x).e1b - (preOf p (consts p) st x).e2a - (preOf p (consts p) st x).e3a + x.1 ∧
    wa p (v0Of p (consts p) st x) + p.adimp * (preOf p (consts p) st x).pav =
      p.adimp * (st.adimc - (preOf p (consts p) st x).e5a + x.1) + x.1 * p.pctim ∧
    (PetOk p x.2 → 0 ≤ (preOf p (consts p) st x).e5a) ∧
    (v0Of p (consts p) st x).adimc - (preOf p (consts p) st x).uztwc3 ≤ max 0 (st.adimc - st.uztwc) := by
  have hc := consts_ok p hp
  obtain ⟨pliq, E⟩ := x
  simp only at hr hE0 hE1
  -- upper zone evaporation
  obtain ⟨h1, h2, h3, h4, h5, h6, h7, h8⟩ := uzEt_spec p hp st.uztwc st.uzfwc E hs.tw0 hs.tw1 hs.fw0 hE0
  have hu1' : uztwc1Of p st.uztwc E ≤ p.uztwm := by linarith [hs.tw1]
  have hf1' : uzfwc1Of p st.uztwc st.uzfwc E ≤ p.uzfwm := by linarith [hs.fw1]
  -- transfer
  obtain ⟨t1, t2, t3, t4, t5, t6, t7, t8⟩ := transfer_spec p hp (uztwc1Of p st.uztwc E)
    (uzfwc1Of p st.uztwc st.uzfwc E) h4 hu1' h6 hf1'
  have hred0 : 0 ≤ E - e1bOf p st.uztwc E - e2aOf p st.uztwc st.uzfwc E := by linarith
  have hred1 : E - e1bOf p st.uztwc E - e2aOf p st.uztwc st.uzfwc E ≤ p.uztwm + p.lztwm := by linarith
  -- lower zone and ADIMP evaporation
  obtain ⟨g1, g2⟩ := e3_spec p hp E (e1bOf p st.uztwc E) (e2aOf p st.uztwc st.uzfwc E) st.lztwc hred0 hs.lt0
  obtain ⟨k1, k2, k3⟩ := e5_spec p hp E (e1bOf p st.uztwc E) (e2aOf p st.uztwc st.uzfwc E) st.adimc
    (uztwc2Of p (uztwc1Of p st.uztwc E) (uzfwc1Of p st.uztwc st.uzfwc E)) hred0 hred1 t1
  have k4 : PetOk p E → 0 ≤ e5aOf p E (e1bOf p st.uztwc E) (e2aOf p st.uztwc st.uzfwc E) st.adimc
      (uztwc2Of p (uztwc1Of p st.uztwc E) (uzfwc1Of p st.uztwc st.uzfwc E)) := fun hpet =>
    k3 hs.a0 (e5_arg_nonneg p hp E st.uztwc st.uzfwc st.adimc _ _ _ _ _ hpet hs.tw0 hs.u hs.a0 h1 h2 h3 h5 h7 h8
      t7 t8)
  -- resupply
  have hs1' : st.alzfsc ≤ (consts p).alzfsm := by rw [consts_alzfsm]; exact hs.s1
  have hp1' : st.alzfpc ≤ (consts p).alzfpm := by rw [consts_alzfpm]; exact hs.p1
  obtain ⟨r1, r2, r3, r4, r5, r6, r7⟩ := resupply_spec p (consts p) hp hc
    (st.lztwc - e3aOf p E (e1bOf p st.uztwc E) (e2aOf p st.uztwc st.uzfwc E) st.lztwc) st.alzfsc st.alzfpc
    (by linarith) (by linarith [hs.lt1]) hs.s0 hs1' hs.p0 hp1'
  -- filling of the upper tension water
  obtain ⟨f1, f2, f3, f4, f5, f6⟩ := fillTw_spec p pliq
    (uztwc2Of p (uztwc1Of p st.uztwc E) (uzfwc1Of p st.uztwc st.uzfwc E))
    (st.adimc - e5aOf p E (e1bOf p st.uztwc E) (e2aOf p st.uztwc st.uzfwc E) st.adimc
      (uztwc2Of p (uztwc1Of p st.uztwc E) (uzfwc1Of p st.uztwc st.uzfwc E))) hr t2
  have hpre : preOf p (consts p) st (pliq, E) =
      ⟨e1bOf p st.uztwc E, e2aOf p st.uztwc st.uzfwc E,
        uztwc2Of p (uztwc1Of p st.uztwc E) (uzfwc1Of p st.uztwc st.uzfwc E),
        uzfwc2Of p (uztwc1Of p st.uztwc E) (uzfwc1Of p st.uztwc st.uzfwc E),
        e3aOf p E (e1bOf p st.uztwc E) (e2aOf p st.uztwc st.uzfwc E) st.lztwc,
        e5aOf p E (e1bOf p st.uztwc E) (e2aOf p st.uztwc st.uzfwc E) st.adimc (uztwc2Of p (uztwc1Of p st.uztwc E) (uzfwc1Of p st.uztwc st.uzfwc E)),
        lztwc2Of p (consts p) (st.lztwc - e3aOf p E (e1bOf p st.uztwc E) (e2aOf p st.uztwc st.uzfwc E) st.lztwc) st.alzfsc st.alzfpc,
        alzfsc1Of p (consts p) (st.lztwc - e3aOf p E (e1bOf p st.uztwc E) (e2aOf p st.uztwc st.uzfwc E) st.lztwc) st.alzfsc st.alzfpc,
        alzfpc1Of p (consts p) (st.lztwc - e3aOf p E (e1bOf p st.uztwc E) (e2aOf p st.uztwc st.uzfwc E) st.lztwc) st.alzfsc st.alzfpc,
        adimc2Of p pliq (uztwc2Of p (uztwc1Of p st.uztwc E) (uzfwc1Of p st.uztwc st.uzfwc E)) (st.adimc - e5aOf p E (e1bOf p st.uztwc E) (e2aOf p st.uztwc st.uzfwc E) st.adimc (uztwc2Of p (uztwc1Of p st.uztwc E) (uzfwc1Of p st.uztwc st.uzfwc E))),
        uztwc3Of p pliq (uztwc2Of p (uztwc1Of p st.uztwc E) (uzfwc1Of p st.uztwc st.uzfwc E)),
        pavOf p pliq (uztwc2Of p (uztwc1Of p st.uztwc E) (uzfwc1Of p st.uztwc st.uzfwc E))⟩ := rfl
  have hv0 : v0Of p (consts p) st (pliq, E) =
      ⟨alzfpc1Of p (consts p) (st.lztwc - e3aOf p E (e1bOf p st.uztwc E) (e2aOf p st.uztwc st.uzfwc E) st.lztwc) st.alzfsc st.alzfpc,
        alzfsc1Of p (consts p) (st.lztwc - e3aOf p E (e1bOf p st.uztwc E) (e2aOf p st.uztwc st.uzfwc E) st.lztwc) st.alzfsc st.alzfpc,
        uzfwc2Of p (uztwc1Of p st.uztwc E) (uzfwc1Of p st.uztwc st.uzfwc E),
        lztwc2Of p (consts p) (st.lztwc - e3aOf p E (e1bOf p st.uztwc E) (e2aOf p st.uztwc st.uzfwc E) st.lztwc) st.alzfsc st.alzfpc,
        adimc2Of p pliq (uztwc2Of p (uztwc1Of p st.uztwc E) (uzfwc1Of p st.uztwc st.uzfwc E)) (st.adimc - e5aOf p E (e1bOf p st.uztwc E) (e2aOf p st.uztwc st.uzfwc E) st.adimc (uztwc2Of p (uztwc1Of p st.uztwc E) (uzfwc1Of p st.uztwc st.uzfwc E))),
        0.0, 0.0, 0.0, pliq * p.pctim, []⟩ := rfl
  rw [hv0, hpre]
  clear hv0 hpre
  simp only []
  generalize e1bOf p st.uztwc E = e1b at *
  generalize e2aOf p st.uztwc st.uzfwc E = e2a at *
  generalize uztwc1Of p st.uztwc E = u1 at *
  generalize uzfwc1Of p st.uztwc st.uzfwc E = fw1 at *
  generalize uztwc2Of p u1 fw1 = u2 at *
  generalize uzfwc2Of p u1 fw1 = fw2 at *
  generalize e3aOf p E e1b e2a st.lztwc = e3a at *
  generalize e5aOf p E e1b e2a st.adimc u2 = e5a at *
  generalize lztwc2Of p (consts p) (st.lztwc - e3a) st.alzfsc st.alzfpc = lt2 at *
  generalize alzfsc1Of p (consts p) (st.lztwc - e3a) st.alzfsc st.alzfpc = sc1 at *
  generalize alzfpc1Of p (consts p) (st.lztwc - e3a) st.alzfsc st.alzfpc = pc1 at *
  generalize adimc2Of p pliq u2 (st.adimc - e5a) = ad2 at *
  generalize uztwc3Of p pliq u2 = u3 at *
  generalize pavOf p pliq u2 = pav at *
  have hu3nn : 0 ≤ u3 := le_trans t1 f2
  have hG : 4 * (ad2 - u3) ≤ 5 * p.lztwm := by
    rw [f6]
    rcases k2 with h | h
    · linarith [hp.lztwm_pos]
    · linarith [hs.a1]
  refine ⟨h1, h2, g1, ?_, hu3nn, f3, f1, f4, ?_, ?_, k4, ?_⟩
  · refine ⟨r5, r6, r3, r4, t3, t4, r1, r2, ?_, hG, ?_, sci0_le, sci0_le, sci0_le, mul_nonneg hr hp.pctim0⟩
    · show 0 ≤ ad2
      linarith
    · show fw2 * p.uztwm ≤ u3 * p.uzfwm
      have := mul_le_mul_of_nonneg_right f2 hp.uzfwm.le
      linarith
  · unfold wp wSt
    simp only []
    rw [N.sci0]
    linarith
  · unfold wa
    simp only []
    have e : ad2 = st.adimc - e5a + pliq - pav := by linarith
    rw [e]; ring
  · rw [f6]
    rcases k2 with h | h
    · exact le_trans h (le_max_left _ _)
    · exact le_trans (by linarith) (le_max_right _ _)

/-! ### one time step -/

/-- what the outputs of every step satisfy (under rain ≥ 0 and 0 ≤ PET ≤ uztwm + lztwm) -/
structure OutOk (o : Out ℝ) : Prop where
  comp : o.runoff = o.surfaceRunoff + o.baseflow
  aet : o.actualET = o.e1 + o.e2 + o.e3 + o.e4 + o.e5
  runoff0 : 0 ≤ o.runoff
  baseflow0 : 0 ≤ o.baseflow
  surface0 : 0 ≤ o.surfaceRunoff
  imperv0 : 0 ≤ o.imperviousRunoff
  e10 : 0 ≤ o.e1
  e20 : 0 ≤ o.e2
  e30 : 0 ≤ o.e3
  e40 : 0 ≤ o.e4

theorem v2Of_eq (p : Params ℝ) (c : Consts ℝ) (st : State ℝ) (x : ℝ × ℝ) :
    loopsOf p c (preOf p c st x).uztwc3 (preOf p c st x).pav (v0Of p c st x) = v2Of p c st x := rfl

/-- **One time step.** From a state satisfying `SacInv`, with rain ≥ 0 and 0 ≤ PET ≤ uztwm + lztwm:
the invariant is kept; runoff + reported actual evapotranspiration + water held afterwards ≤ rain + water held
before; runoff, baseflow, surface runoff, impervious runoff and e1…e4 are non-negative and the components add up;
and if moreover `PetOk` holds, e5 and the reported actual evapotranspiration are non-negative. -/
theorem step_spec (p : Params ℝ) (hp : ParamsOk p) (st : State ℝ) (x : ℝ × ℝ) (hs : SacInv p st)
    (hr : 0 ≤ x.1) (hE0 : 0 ≤ x.2) (hE1 : x.2 ≤ p.uztwm + p.lztwm) :
    SacInv p (step p (consts p) st x).1 ∧
    (step p (consts p) st x).2.runoff + (step p (consts p) st x).2.actualET + stor p (step p (consts p) st x).1 ≤
      x.1 + stor p st ∧
    OutOk (step p (consts p) st x).2 ∧
    (PetOk p x.2 → 0 ≤ (step p (consts p) st x).2.e5 ∧ 0 ≤ (step p (consts p) st x).2.actualET) := by
  have hc := consts_ok p hp
  have hf : 0 ≤ 1 - p.pctim - p.adimp := by linarith [hp.area]
  have hside : 0 < 1 + p.side := by linarith [hp.side0]
  obtain ⟨b1, b2, b3, hv0, b5, b6, b7, b8, b9, b10, b11, -⟩ := pre_spec p hp st x hs hr hE0 hE1
  obtain ⟨l1, l2, l3⟩ := loops_spec p (consts p) hp hc _ _ b5 b7 b8 _ hv0
  rw [v2Of_eq] at l1 l2 l3
  obtain ⟨a, q1, q2, q3, q4, hqq, hq1, hq2, hq3, hq4⟩ := hs.qq
  obtain ⟨d0, d1, d2, d3, d4, hdro, hd0, hd1, hd2, hd3, hd4, hdsum⟩ := dro_spec p hp
  obtain ⟨c1, c2, c3, c4, c5, c6, c7, c8⟩ := channel_spec p (consts p) hp a q1 q2 q3 q4 d0 d1 d2 d3 d4 x.2
    (v2Of p (consts p) st x) hdro hq1 hq2 hq3 hq4 hd0 hd1 hd2 hd3 hd4 hdsum hE0 l1.bf0 l1.sf0 l1.in0 l1.ro0
  have hch : channel p (consts p) [a, q1, q2, q3, q4] x.2 (v2Of p (consts p) st x) = chOf p (consts p) st x := by
    unfold chOf; rw [hqq]
  rw [hch] at c1 c2 c3 c4 c5 c6 c7 c8
  have e1 := step_uztwc p (consts p) st x
  have e2 := step_uzfwc p (consts p) st x
  have e3 := step_lztwc p (consts p) st x
  have e4 := step_lzfpc p (consts p) st x
  have e5 := step_lzfsc p (consts p) st x
  have e6 := step_adimc p (consts p) st x
  have e7 := step_alzfsc p (consts p) st x
  have e8 := step_alzfpc p (consts p) st x
  have e9 := step_qq p (consts p) st x
  have o1 := step_runoff p (consts p) st x
  have o2 := step_baseflow p (consts p) st x
  have o3 := step_surface p (consts p) st x
  have o4 := step_impervious p (consts p) st x
  have o5 := step_e1 p (consts p) st x
  have o6 := step_e2 p (consts p) st x
  have o7 := step_e3 p (consts p) st x
  have o8 := step_e4 p (consts p) st x
  have o9 := step_e5 p (consts p) st x
  have o10 := OW.RR.Sacramento.step_aet_parts p (consts p) st x
  sacnum at o3
  sacnum at o5
  sacnum at o6
  sacnum at o7
  sacnum at o9
  have hstor : stor p (step p (consts p) st x).1 =
      (1 - p.pctim - p.adimp) * ((step p (consts p) st x).1.uztwc + (step p (consts p) st x).1.uzfwc +
        (step p (consts p) st x).1.lztwc + (step p (consts p) st x).1.alzfsc + (step p (consts p) st x).1.alzfpc) +
      p.adimp * (step p (consts p) st x).1.adimc + uhStor (step p (consts p) st x).1.qq (consts p).dro := rfl
  have hstor0 : stor p st = (1 - p.pctim - p.adimp) * wSt st + p.adimp * st.adimc +
      uhStor [a, q1, q2, q3, q4] (consts p).dro := by unfold stor; rw [hqq]
  generalize step p (consts p) st x = r at *
  obtain ⟨s', o⟩ := r
  simp only at e1 e2 e3 e4 e5 e6 e7 e8 e9 o1 o2 o3 o4 o5 o6 o7 o8 o9 o10 hstor ⊢
  generalize preOf p (consts p) st x = pr at *
  generalize v0Of p (consts p) st x = v0 at *
  generalize v2Of p (consts p) st x = v2 at *
  generalize chOf p (consts p) st x = ch at *
  have hq0 : 0 ≤ v2.flosf * (1 - p.pctim - p.adimp) + v2.roimp + v2.floin * (1 - p.pctim - p.adimp) := by
    have := mul_nonneg l1.sf0 hf
    have := mul_nonneg l1.in0 hf
    linarith [l1.ro0]
  have n1 : 0 ≤ pr.e1b * (1 - p.adimp - p.pctim) := mul_nonneg b1 (by linarith)
  have n2 : 0 ≤ pr.e2a * (1 - p.adimp - p.pctim) := mul_nonneg b2 (by linarith)
  have n3 : 0 ≤ pr.e3a * (1 - p.adimp - p.pctim) := mul_nonneg b3 (by linarith)
  refine ⟨?_, ?_, ?_, ?_⟩
  · refine ⟨?_, ?_, ?_, ?_, ?_, ?_, ?_, ?_, ?_, ?_, ?_, ?_, ?_, ?_, ?_, ?_⟩
    · rw [e1]; exact b5
    · rw [e1]; exact b6
    · rw [e2]; exact l1.f0
    · rw [e2]; exact l1.f1
    · rw [e3]; exact l1.t0
    · rw [e3]; exact l1.t1
    · rw [e7]; exact l1.s0
    · rw [e7, ← consts_alzfsm]; exact l1.s1
    · rw [e8]; exact l1.p0
    · rw [e8, ← consts_alzfpm]; exact l1.p1
    · rw [e5, e7]; exact c3
    · rw [e4, e8]; exact c2
    · rw [e6]; exact l1.a0
    · rw [e6, e1]; exact l1.a1
    · rw [e2, e1]; exact l1.u
    · rw [e9, c1]
      exact ⟨_, _, _, _, _, rfl, hq0, hq1, hq2, hq3⟩
  · -- the budget
    rw [hstor, hstor0, e1, e2, e3, e6, e7, e8, e9, o1, o10, o5, o6, o7, o8, o9]
    have hZ : pr.uztwc3 + wp v2 = wSt st - pr.e1b - pr.e2a - pr.e3a + x.1 := by rw [l2]; linarith
    unfold wp at hZ
    have key : (1 - p.pctim - p.adimp) *
        (pr.uztwc3 + (v2.uzfwc + v2.lztwc + v2.alzfsc + v2.alzfpc + v2.flobf + v2.flosf + v2.floin)) =
        (1 - p.pctim - p.adimp) * (wSt st - pr.e1b - pr.e2a - pr.e3a + x.1) := by rw [hZ]
    have hA : p.adimp * v2.adimc + v2.roimp = p.adimp * (st.adimc - pr.e5a + x.1) + x.1 * p.pctim := by
      unfold wa at l3 b10; linarith
    linarith
  · refine ⟨?_, o10, ?_, ?_, ?_, ?_, ?_, ?_, ?_, ?_⟩
    · rw [o1, o2, o3]; ring
    · rw [o1]; exact c4
    · rw [o2]; exact c5
    · rw [o3]; linarith
    · rw [o4]; exact l1.ro0
    · rw [o5]; exact n1
    · rw [o6]; exact n2
    · rw [o7]; exact n3
    · rw [o8]; exact c7
  · intro hpet
    have n5 : 0 ≤ pr.e5a * p.adimp := mul_nonneg (b11 hpet) hp.adimp0
    refine ⟨by rw [o9]; exact n5, ?_⟩
    rw [o10, o5, o6, o7, o8, o9]
    linarith

/-- **The nominal capacity of the additional impervious store.** For `lztwm ≥ 10` (a rain increment, below 5 mm, is
then at most `lztwm/2`) a step keeps `adimc − uztwc ≤ lztwm`, i.e. the saturation ratio of the ADIMP area stays ≤ 1. -/
theorem step_G (p : Params ℝ) (hp : ParamsOk p) (h10 : 10 ≤ p.lztwm) (st : State ℝ) (x : ℝ × ℝ) (hs : SacInv p st)
    (hr : 0 ≤ x.1) (hE0 : 0 ≤ x.2) (hE1 : x.2 ≤ p.uztwm + p.lztwm) (hG : st.adimc - st.uztwc ≤ p.lztwm) :
    (step p (consts p) st x).1.adimc - (step p (consts p) st x).1.uztwc ≤ p.lztwm := by
  have hc := consts_ok p hp
  obtain ⟨-, -, -, hv0, b5, -, b7, b8, -, -, -, b12⟩ := pre_spec p hp st x hs hr hE0 hE1
  have hG0 : (v0Of p (consts p) st x).adimc - (preOf p (consts p) st x).uztwc3 ≤ p.lztwm :=
    le_trans b12 (max_le hp.lztwm_pos.le hG)
  have h := loops_G p (consts p) hp hc h10 _ _ b5 b7 b8 _ hv0 hG0
  rw [v2Of_eq] at h
  rw [step_adimc, step_uztwc]
  exact h

end OW.RR.Sac
