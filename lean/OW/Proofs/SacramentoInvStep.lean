import OW.Proofs.SacramentoInvInc
import Mathlib.Analysis.SpecialFunctions.Sqrt
/-!
C10 for Sacramento, part 3 — the zones of a time step before the drainage loop (upper-zone evaporation, transfer of
free water to tension water, lower-zone and ADIMP evaporation, resupply of the lower tension water, filling of the
upper tension water), the one or two `ii` passes, the channel stage with the unit hydrograph, and the one-step
theorem `step_spec` (invariant, non-negative outputs, water budget).
-/
namespace OW.RR.SacInv
open OW OW.Kernels.Sacramento

/-! ### evaporation from the upper zone -/

/-- e1 from the tension water (all of it when the demand exceeds the content: "dry" case, then e2 from the free
water), both non-negative and together at most the demand; contents stay non-negative and nothing else moves.
Last clause: either the tension water is emptied and (the demand is met or the free water is emptied too), or
e2 = 0 and e1 = evapt·uztwc/uztwm (the divisor `uztwm` is positive). -/
theorem uzEt_spec (p : Params ℝ) (hp : ParamsOk p) (uztwc uzfwc E : ℝ) (hu0 : 0 ≤ uztwc) (hu1 : uztwc ≤ p.uztwm)
    (hf0 : 0 ≤ uzfwc) (hE : 0 ≤ E) :
    0 ≤ e1bOf p uztwc E ∧ 0 ≤ e2aOf p uztwc uzfwc E ∧ e1bOf p uztwc E + e2aOf p uztwc uzfwc E ≤ E ∧
    0 ≤ uztwc1Of p uztwc E ∧ e1bOf p uztwc E + uztwc1Of p uztwc E = uztwc ∧
    0 ≤ uzfwc1Of p uztwc uzfwc E ∧ e2aOf p uztwc uzfwc E + uzfwc1Of p uztwc uzfwc E = uzfwc ∧
    ((uztwc1Of p uztwc E = 0 ∧
        (E - e1bOf p uztwc E - e2aOf p uztwc uzfwc E = 0 ∨ uzfwc1Of p uztwc uzfwc E = 0)) ∨
      (e2aOf p uztwc uzfwc E = 0 ∧ e1bOf p uztwc E * p.uztwm = E * uztwc)) := by
  have hT := hp.uztwm
  have ha : e1aOf p uztwc E = E * uztwc / p.uztwm := by
    unfold e1aOf; sacnum; rw [if_pos hT]
  have ha0 : 0 ≤ e1aOf p uztwc E := by rw [ha]; exact div_nonneg (mul_nonneg hE hu0) hT.le
  have ha1 : e1aOf p uztwc E * p.uztwm = E * uztwc := by rw [ha]; exact div_mul_cancel₀ _ hT.ne'
  have ha2 : e1aOf p uztwc E ≤ E := by
    have : e1aOf p uztwc E * p.uztwm ≤ E * p.uztwm := by
      rw [ha1]; exact mul_le_mul_of_nonneg_left hu1 hE
    exact le_of_mul_le_mul_right this hT
  unfold uzfwc1Of e2aOf e1bOf uztwc1Of
  generalize e1aOf p uztwc E = a at ha0 ha1 ha2
  sacnum
  by_cases h : uztwc < a
  · simp only [if_pos h]
    have hm0 : 0 ≤ min (E - uztwc) uzfwc := le_min (by linarith) hf0
    have hm1 : min (E - uztwc) uzfwc ≤ E - uztwc := min_le_left _ _
    have hm2 : min (E - uztwc) uzfwc ≤ uzfwc := min_le_right _ _
    refine ⟨hu0, hm0, by linarith, le_refl _, by ring, by linarith, by ring, Or.inl ⟨trivial, ?_⟩⟩
    rcases min_choice (E - uztwc) uzfwc with hc | hc
    · left; rw [hc]; ring
    · right; rw [hc]; ring
  · simp only [if_neg h]
    exact ⟨ha0, le_refl _, by linarith, by linarith [not_lt.mp h], by ring, hf0, by ring, Or.inr ⟨trivial, ha1⟩⟩

/-! ### transfer of upper free water to upper tension water -/

/-- when the free water is relatively fuller than the tension water both are set to the common relative content:
contents stay within capacities, their sum is unchanged, afterwards the free water is relatively not fuller than
the tension water, the tension water does not decrease, and the transferred amount is
`(uztwm·uzfwc − uztwc·uzfwm)/(uztwm + uzfwm)` (divisors `uztwm`, `uzfwm`, `uztwm + uzfwm` positive). -/
theorem transfer_spec (p : Params ℝ) (hp : ParamsOk p) (u1 f1 : ℝ) (hu0 : 0 ≤ u1) (hu1 : u1 ≤ p.uztwm)
    (hf0 : 0 ≤ f1) (hf1 : f1 ≤ p.uzfwm) :
    0 ≤ uztwc2Of p u1 f1 ∧ uztwc2Of p u1 f1 ≤ p.uztwm ∧ 0 ≤ uzfwc2Of p u1 f1 ∧ uzfwc2Of p u1 f1 ≤ p.uzfwm ∧
    uztwc2Of p u1 f1 + uzfwc2Of p u1 f1 = u1 + f1 ∧
    uzfwc2Of p u1 f1 * p.uztwm ≤ uztwc2Of p u1 f1 * p.uzfwm ∧ u1 ≤ uztwc2Of p u1 f1 ∧
    (uztwc2Of p u1 f1 = u1 ∨
      (uztwc2Of p u1 f1 - u1) * (p.uztwm + p.uzfwm) = p.uztwm * f1 - u1 * p.uzfwm) := by
  have hT := hp.uztwm
  have hF := hp.uzfwm
  have hTF : 0 < p.uztwm + p.uzfwm := by linarith
  have hcond : (a1Of p u1 < b1Of p f1) ↔ u1 * p.uzfwm < f1 * p.uztwm := by
    unfold a1Of b1Of; sacnum
    rw [if_pos hT, if_pos hF, div_lt_div_iff₀ hT hF]
  unfold uztwc2Of uzfwc2Of
  sacnum
  generalize ha2 : (u1 + f1) / (p.uztwm + p.uzfwm) = a2
  have hk : a2 * (p.uztwm + p.uzfwm) = u1 + f1 := by rw [← ha2]; exact div_mul_cancel₀ _ hTF.ne'
  have ha20 : 0 ≤ a2 := by rw [← ha2]; exact div_nonneg (by linarith) hTF.le
  have ha21 : a2 ≤ 1 := by rw [← ha2, div_le_one hTF]; linarith
  by_cases h : a1Of p u1 < b1Of p f1
  · simp only [if_pos h]
    rw [hcond] at h
    have e1 : (p.uztwm * a2 - u1) * (p.uztwm + p.uzfwm) = p.uztwm * f1 - u1 * p.uzfwm := by
      have : (p.uztwm * a2 - u1) * (p.uztwm + p.uzfwm) =
          p.uztwm * (a2 * (p.uztwm + p.uzfwm)) - u1 * (p.uztwm + p.uzfwm) := by ring
      rw [this, hk]; ring
    have e2 : 0 ≤ p.uztwm * a2 - u1 := by
      have : 0 ≤ (p.uztwm * a2 - u1) * (p.uztwm + p.uzfwm) := by rw [e1]; linarith
      exact nonneg_of_mul_nonneg_left this hTF
    refine ⟨mul_nonneg hT.le ha20, by nlinarith, mul_nonneg hF.le ha20, by nlinarith, ?_, ?_, by linarith,
      Or.inr e1⟩
    · have : p.uztwm * a2 + p.uzfwm * a2 = a2 * (p.uztwm + p.uzfwm) := by ring
      rw [this, hk]
    · apply le_of_eq; ring
  · simp only [if_neg h]
    rw [hcond, not_lt] at h
    exact ⟨hu0, hu1, hf0, hf1, trivial, h, le_refl _, Or.inl trivial⟩

/-! ### evaporation from the lower tension water and from the ADIMP area -/

theorem e3_spec (p : Params ℝ) (hp : ParamsOk p) (E e1b e2a lztwc : ℝ) (hred : 0 ≤ E - e1b - e2a)
    (ht0 : 0 ≤ lztwc) : 0 ≤ e3aOf p E e1b e2a lztwc ∧ e3aOf p E e1b e2a lztwc ≤ lztwc := by
  have hM : 0 < p.uztwm + p.lztwm := by linarith [hp.uztwm, hp.lztwm_pos]
  unfold e3aOf; sacnum
  rw [if_pos hM]
  exact ⟨le_min (div_nonneg (mul_nonneg hred ht0) hM.le) ht0, min_le_right _ _⟩

/-- e5 (per unit ADIMP area) is at most the store; for a residual demand in [0, uztwm + lztwm] the excess of the
ADIMP store over the upper tension water does not grow; e5 ≥ 0 as soon as `e1·(uztwm+lztwm) + red·D ≥ 0`
(`D = adimc − e1 − uztwc`; the divisor `uztwm + lztwm` is positive) -/
theorem e5_spec (p : Params ℝ) (hp : ParamsOk p) (E e1b e2a adimc u2 : ℝ) (hred0 : 0 ≤ E - e1b - e2a)
    (hred1 : E - e1b - e2a ≤ p.uztwm + p.lztwm) (hu2 : 0 ≤ u2) :
    e5aOf p E e1b e2a adimc u2 ≤ adimc ∧
    (adimc - e5aOf p E e1b e2a adimc u2 - u2 ≤ 0 ∨
      adimc - e5aOf p E e1b e2a adimc u2 - u2 ≤ adimc - e1b - u2) ∧
    (0 ≤ adimc → 0 ≤ e1b * (p.uztwm + p.lztwm) + (E - e1b - e2a) * (adimc - e1b - u2) →
      0 ≤ e5aOf p E e1b e2a adimc u2) := by
  have hM : 0 < p.uztwm + p.lztwm := by linarith [hp.uztwm, hp.lztwm_pos]
  unfold e5aOf; sacnum
  rw [if_pos hM]
  generalize ht : (E - e1b - e2a) * (adimc - e1b - u2) / (p.uztwm + p.lztwm) = t
  have hk : t * (p.uztwm + p.lztwm) = (E - e1b - e2a) * (adimc - e1b - u2) := by
    rw [← ht]; exact div_mul_cancel₀ _ hM.ne'
  generalize E - e1b - e2a = red at *
  generalize hD : adimc - e1b - u2 = D at *
  refine ⟨min_le_right _ _, ?_, ?_⟩
  · rcases le_total (e1b + t) adimc with h | h
    · rw [min_eq_left h]
      by_cases hd : 0 ≤ D
      · right
        have : 0 ≤ t * (p.uztwm + p.lztwm) := by rw [hk]; exact mul_nonneg hred0 hd
        have : 0 ≤ t := nonneg_of_mul_nonneg_left this hM
        linarith
      · left
        have hd' : D ≤ 0 := (not_le.mp hd).le
        have h1 : (p.uztwm + p.lztwm) * D ≤ red * D := mul_le_mul_of_nonpos_right hred1 hd'
        have h2 : 0 ≤ (t - D) * (p.uztwm + p.lztwm) := by
          have : (t - D) * (p.uztwm + p.lztwm) = t * (p.uztwm + p.lztwm) - (p.uztwm + p.lztwm) * D := by ring
          rw [this, hk]; linarith
        have : 0 ≤ t - D := nonneg_of_mul_nonneg_left h2 hM
        linarith
    · rw [min_eq_right h]
      left; linarith
  · intro ha hx
    have h2 : 0 ≤ (e1b + t) * (p.uztwm + p.lztwm) := by
      have : (e1b + t) * (p.uztwm + p.lztwm) = e1b * (p.uztwm + p.lztwm) + t * (p.uztwm + p.lztwm) := by ring
      rw [this, hk]; exact hx
    exact le_min (nonneg_of_mul_nonneg_left h2 hM) ha

/-- the bound on potential evapotranspiration under which e5 is proved non-negative:
`evapt ≤ uztwm + lztwm` and `evapt·uzfwm ≤ lztwm·(uztwm + uzfwm)` (both follow from `evapt ≤ lztwm`) -/
def PetOk (p : Params ℝ) (E : ℝ) : Prop :=
  E ≤ p.uztwm + p.lztwm ∧ E * p.uzfwm ≤ p.lztwm * (p.uztwm + p.uzfwm)

theorem petOk_of_le_lztwm (p : Params ℝ) (hp : ParamsOk p) (E : ℝ) (hE : E ≤ p.lztwm) :
    PetOk p E := by
  refine ⟨by linarith [hp.uztwm], ?_⟩
  have h1 : E * p.uzfwm ≤ p.lztwm * p.uzfwm := mul_le_mul_of_nonneg_right hE hp.uzfwm.le
  have h2 : 0 ≤ p.lztwm * p.uztwm := mul_nonneg hp.lztwm_pos.le hp.uztwm.le
  linarith

/-- the algebra behind e5 ≥ 0: from the facts delivered by `uzEt_spec` and `transfer_spec`, the relative-content
invariant `uzfwc·uztwm ≤ uztwc·uzfwm` and the PET bound -/
theorem e5_arg_nonneg (p : Params ℝ) (hp : ParamsOk p) (E uztwc uzfwc adimc e1b e2a u1 f1 u2 : ℝ)
    (hpet : PetOk p E) (hu0 : 0 ≤ uztwc) (hU : uzfwc * p.uztwm ≤ uztwc * p.uzfwm) (ha : 0 ≤ adimc)
    (h1 : 0 ≤ e1b) (h2 : 0 ≤ e2a) (h3 : e1b + e2a ≤ E) (h5 : e1b + u1 = uztwc) (h7 : e2a + f1 = uzfwc)
    (hcase : (u1 = 0 ∧ (E - e1b - e2a = 0 ∨ f1 = 0)) ∨ (e2a = 0 ∧ e1b * p.uztwm = E * uztwc))
    (ht1 : u1 ≤ u2) (ht2 : u2 = u1 ∨ (u2 - u1) * (p.uztwm + p.uzfwm) = p.uztwm * f1 - u1 * p.uzfwm) :
    0 ≤ e1b * (p.uztwm + p.lztwm) + (E - e1b - e2a) * (adimc - e1b - u2) := by
  obtain ⟨hpet1, hpet2⟩ := hpet
  have hT := hp.uztwm
  have hF := hp.uzfwm
  have hTF : 0 < p.uztwm + p.uzfwm := by linarith
  have hred0 : 0 ≤ E - e1b - e2a := by linarith
  have hred1 : E - e1b - e2a ≤ E := by linarith
  -- it suffices to bound red·(e1b + u2)
  have hD : -(e1b + u2) ≤ adimc - e1b - u2 := by linarith
  have hmul : (E - e1b - e2a) * (-(e1b + u2)) ≤ (E - e1b - e2a) * (adimc - e1b - u2) :=
    mul_le_mul_of_nonneg_left hD hred0
  suffices hs : (E - e1b - e2a) * (e1b + u2) ≤ e1b * (p.uztwm + p.lztwm) by
    have : (E - e1b - e2a) * (-(e1b + u2)) = -((E - e1b - e2a) * (e1b + u2)) := by ring
    linarith
  rcases hcase with ⟨hu1z, hor⟩ | ⟨he2, he1⟩
  · rcases hor with hr | hf
    · rw [hr, zero_mul]; exact mul_nonneg h1 (by linarith [hp.lztwm_pos])
    · have hu2 : u2 = 0 := by
        rcases ht2 with h | h
        · rw [h, hu1z]
        · rw [hu1z, hf] at h
          have : u2 * (p.uztwm + p.uzfwm) = 0 := by linarith
          rcases mul_eq_zero.mp this with h' | h'
          · exact h'
          · linarith
      rw [hu2, add_zero]
      have : (E - e1b - e2a) * e1b ≤ (p.uztwm + p.lztwm) * e1b :=
        mul_le_mul_of_nonneg_right (by linarith) h1
      linarith
  · -- e2a = 0, e1b·uztwm = E·uztwc
    have htr0 : 0 ≤ u2 - u1 := by linarith
    have htr : (u2 - u1) * (p.uztwm + p.uzfwm) ≤ e1b * p.uzfwm := by
      rcases ht2 with h | h
      · rw [h, sub_self, zero_mul]; exact mul_nonneg h1 hF.le
      · rw [h]
        have hf1 : f1 = uzfwc := by linarith
        have hu1 : u1 = uztwc - e1b := by linarith
        rw [hf1, hu1]
        have : p.uztwm * uzfwc - (uztwc - e1b) * p.uzfwm = (uzfwc * p.uztwm - uztwc * p.uzfwm) + e1b * p.uzfwm := by
          ring
        linarith
    -- E·tr ≤ e1b·lztwm
    have hEtr : E * (u2 - u1) ≤ e1b * p.lztwm := by
      have hE0 : 0 ≤ E := by linarith
      have a1 : E * ((u2 - u1) * (p.uztwm + p.uzfwm)) ≤ E * (e1b * p.uzfwm) := mul_le_mul_of_nonneg_left htr hE0
      have a2 : e1b * (E * p.uzfwm) ≤ e1b * (p.lztwm * (p.uztwm + p.uzfwm)) := mul_le_mul_of_nonneg_left hpet2 h1
      have a3 : (e1b * p.lztwm - E * (u2 - u1)) * (p.uztwm + p.uzfwm) =
          e1b * (p.lztwm * (p.uztwm + p.uzfwm)) - E * ((u2 - u1) * (p.uztwm + p.uzfwm)) := by ring
      have a4 : E * (e1b * p.uzfwm) = e1b * (E * p.uzfwm) := by ring
      have : 0 ≤ (e1b * p.lztwm - E * (u2 - u1)) * (p.uztwm + p.uzfwm) := by rw [a3]; linarith
      have := nonneg_of_mul_nonneg_left this hTF
      linarith
    have hsum : e1b + u2 = uztwc + (u2 - u1) := by linarith
    rw [hsum, he2, sub_zero]
    have b1 : (E - e1b) * uztwc ≤ E * uztwc := mul_le_mul_of_nonneg_right (by linarith) hu0
    have b2 : (E - e1b) * (u2 - u1) ≤ E * (u2 - u1) := mul_le_mul_of_nonneg_right (by linarith) htr0
    have b3 : (E - e1b) * (uztwc + (u2 - u1)) = (E - e1b) * uztwc + (E - e1b) * (u2 - u1) := by ring
    have b4 : e1b * (p.uztwm + p.lztwm) = e1b * p.uztwm + e1b * p.lztwm := by ring
    rw [b3, b4, he1]
    linarith

/-! ### resupply of the lower tension water from the lower free water -/

/-- the lower tension water is topped up from the supplemental (then the primary) free water when it is relatively
emptier than the whole lower zone above the reserved part: the three contents stay within their capacities and
their sum is unchanged (divisors `lztwm` and `alzfpm + alzfsm − saved + lztwm ≥ lztwm` positive) -/
theorem resupply_spec (p : Params ℝ) (c : Consts ℝ) (hp : ParamsOk p) (hc : ConstsOk c) (t s pp : ℝ)
    (ht0 : 0 ≤ t) (ht1 : t ≤ p.lztwm) (hs0 : 0 ≤ s) (hs1 : s ≤ c.alzfsm) (hp0 : 0 ≤ pp) (hp1 : pp ≤ c.alzfpm) :
    0 ≤ lztwc2Of p c t s pp ∧ lztwc2Of p c t s pp ≤ p.lztwm ∧
    0 ≤ alzfsc1Of p c t s pp ∧ alzfsc1Of p c t s pp ≤ c.alzfsm ∧
    0 ≤ alzfpc1Of p c t s pp ∧ alzfpc1Of p c t s pp ≤ c.alzfpm ∧
    lztwc2Of p c t s pp + alzfsc1Of p c t s pp + alzfpc1Of p c t s pp = t + s + pp := by
  have hL := hp.lztwm_pos
  have hDn : 0 < c.alzfpm + c.alzfsm - c.saved + p.lztwm := by linarith [hc.saved1]
  have ha : a3Of p t = t / p.lztwm := by unfold a3Of; sacnum; rw [if_pos hL]
  have hb : b3Of p c t s pp = (pp + s - c.saved + t) / (c.alzfpm + c.alzfsm - c.saved + p.lztwm) := by
    unfold b3Of; sacnum; rw [if_pos hDn]
  have hak : a3Of p t * p.lztwm = t := by rw [ha]; exact div_mul_cancel₀ _ hL.ne'
  have hbk : b3Of p c t s pp * (c.alzfpm + c.alzfsm - c.saved + p.lztwm) = pp + s - c.saved + t := by
    rw [hb]; exact div_mul_cancel₀ _ hDn.ne'
  have ha0 : 0 ≤ a3Of p t := by rw [ha]; exact div_nonneg ht0 hL.le
  have hb1 : b3Of p c t s pp ≤ 1 := by rw [hb, div_le_one hDn]; linarith
  unfold alzfpc1Of alzfsc1Of alzfsc0Of lztwc2Of delOf
  generalize a3Of p t = a at *
  generalize b3Of p c t s pp = b at *
  sacnum
  by_cases h : a < b
  · simp only [if_pos h]
    have hb0 : 0 ≤ b := by linarith
    -- del = b·lztwm − t = (pp + s) − saved − b·(alzfpm + alzfsm − saved)
    have hdel : (b - a) * p.lztwm = b * p.lztwm - t := by rw [sub_mul, hak]
    have hdel0 : 0 ≤ (b - a) * p.lztwm := mul_nonneg (by linarith) hL.le
    have hdel1 : (b - a) * p.lztwm ≤ pp + s := by
      have e : b * p.lztwm = pp + s - c.saved + t - b * (c.alzfpm + c.alzfsm - c.saved) := by
        rw [← hbk]; ring
      have : 0 ≤ b * (c.alzfpm + c.alzfsm - c.saved) := mul_nonneg hb0 (by linarith [hc.saved1])
      rw [hdel, e]; linarith [hc.saved0]
    have hbl : b * p.lztwm ≤ p.lztwm := by nlinarith
    generalize (b - a) * p.lztwm = del at *
    split_ifs with h2
    · exact ⟨by linarith, by linarith, le_refl _, hc.sm.le, by linarith, by linarith, by ring⟩
    · exact ⟨by linarith, by linarith, not_lt.mp h2, by linarith, hp0, hp1, by ring⟩
  · simp only [if_neg h]
    exact ⟨ht0, ht1, hs0, hs1, hp0, hp1, trivial⟩

/-! ### filling of the upper tension water by the rain -/

/-- the rain first fills the upper tension water (and the ADIMP store by the same amount); what is left is `pav ≥ 0`,
positive only if the tension water is full -/
theorem fillTw_spec (p : Params ℝ) (pliq u2 adimc1 : ℝ) (hr : 0 ≤ pliq) (hu0 : 0 ≤ u2) (hu1 : u2 ≤ p.uztwm) :
    0 ≤ pavOf p pliq u2 ∧ u2 ≤ uztwc3Of p pliq u2 ∧ uztwc3Of p pliq u2 ≤ p.uztwm ∧
    (0 < pavOf p pliq u2 → uztwc3Of p pliq u2 = p.uztwm) ∧
    uztwc3Of p pliq u2 + pavOf p pliq u2 = u2 + pliq ∧
    adimc2Of p pliq u2 adimc1 - uztwc3Of p pliq u2 = adimc1 - u2 := by
  unfold pavOf uztwc3Of adimc2Of pav0Of
  sacnum
  split_ifs with h
  · exact ⟨le_refl _, by linarith, by linarith, fun h' => absurd h' (lt_irrefl _), by ring, by ring⟩
  · exact ⟨not_lt.mp h, hu1, le_refl _, fun _ => rfl, by ring, by ring⟩

/-! ### the one or two `ii` passes -/

theorem sci508 : @OfScientific.ofScientific ℝ (Num.toOfScientific) 508 true 2 = 127 / 25 := by
  rw [OW.RR.Surm.sci]; norm_num
theorem sci254 : @OfScientific.ofScientific ℝ (Num.toOfScientific) 254 true 1 = 127 / 5 := by
  rw [OW.RR.Surm.sci]; norm_num
theorem sci127 : @OfScientific.ofScientific ℝ (Num.toOfScientific) 127 true 1 = 127 / 10 := by
  rw [OW.RR.Surm.sci]; norm_num
theorem sci05 : @OfScientific.ofScientific ℝ (Num.toOfScientific) 5 true 1 = 1 / 2 := by
  rw [OW.RR.Surm.sci]; norm_num

/-- the fraction of the day given to the first pass lies in [0,1] (divisors 25.4 and `pav > 5.08`) -/
theorem adj_spec (pav : ℝ) (hpav : 0 ≤ pav) : 0 ≤ adjOf pav ∧ adjOf pav ≤ 1 := by
  unfold adjOf
  sacnum
  rw [sci508, sci254, sci127, sci05, RealNum.sqrt_eq]
  split_ifs with h1 h2
  · exact ⟨zero_le_one, le_refl _⟩
  · have hs0 : 0 ≤ Real.sqrt (pav / (127 / 5)) := Real.sqrt_nonneg _
    have hs1 : Real.sqrt (pav / (127 / 5)) ≤ 1 := by
      apply Real.sqrt_le_one
      rw [div_le_one (by norm_num)]; exact h2.le
    exact ⟨by linarith, by linarith⟩
  · have hp : 0 < pav := by linarith [not_le.mp h1]
    have h3 : 127 / 5 ≤ pav := not_lt.mp h2
    have h4 : 0 ≤ 127 / 10 / pav := div_nonneg (by norm_num) hp.le
    have h5 : 127 / 10 / pav ≤ 1 := by rw [div_le_one hp]; linarith
    exact ⟨by linarith, by linarith⟩

theorem hpl_nonneg (c : Consts ℝ) (hc : ConstsOk c) : 0 ≤ hplOf c := by
  unfold hplOf; sacnum
  exact div_nonneg hc.pm.le (by linarith [hc.pm, hc.sm])

/-- **All increments of a time step**: loop invariant kept, pervious-area water grows by exactly `pav`,
additional-impervious-area water by `adimp·pav`. -/
theorem loops_spec (p : Params ℝ) (c : Consts ℝ) (hp : ParamsOk p) (hc : ConstsOk c) (u3 pav : ℝ)
    (hu0 : 0 ≤ u3) (hpav : 0 ≤ pav) (hfull : 0 < pav → u3 = p.uztwm) (v : Inner ℝ) (hv : LoopInv p c u3 v) :
    LoopInv p c u3 (loopsOf p c u3 pav v) ∧ wp (loopsOf p c u3 pav v) = wp v + pav ∧
    wa p (loopsOf p c u3 pav v) = wa p v + p.adimp * pav := by
  obtain ⟨ha0, ha1⟩ := adj_spec pav hpav
  have hh := hpl_nonneg c hc
  obtain ⟨i1, i2, i3⟩ := iiBody_spec p c hp hc u3 (hplOf c) (adjOf pav) pav hh hu0 ha0 hpav hfull v hv
  unfold loopsOf
  split_ifs with h
  · exact ⟨i1, i2, i3⟩
  · sacnum
    obtain ⟨j1, j2, j3⟩ := iiBody_spec p c hp hc u3 (hplOf c) (1 - adjOf pav) 0 hh hu0 (by linarith) (le_refl _)
      (fun h' => absurd h' (lt_irrefl _)) _ i1
    refine ⟨j1, ?_, ?_⟩
    · rw [j2, i2]; ring
    · rw [j3, i3]; ring

end OW.RR.SacInv
