import OW.Props.C02
import OW.Props.C03
/-!
Helper lemmas for C03 (bulk operations): the simulation between a Go-backed and a C-backed array at the level of
heaps.

* `Win`, `winOf g c`: the pair of storage windows (Go side, C side) an array pair lives in;
* `RelHeaps hg hc w n`: the first `n` cells of the two windows agree;
* `Compat w w'`: two window pairs are either over the same two storages with the same relative displacement on both
  sides, or over different storages on both sides — then the same write through `w` is seen alike through `w'`;
* `Paired w hg hc hg' hc'`: the new heaps are obtained from the old ones by the SAME finite sequence of single-cell
  writes at corresponding addresses of the window pair `w`;
* `RelW`: `Props.C03.Rel` without the back-end flags (so that a pair of Go temporaries is covered too);
* `RelW.getAll`, `paired_setAll`: sequential reads agree, sequential writes are paired.
-/
namespace OW.NdC03
open OW.Nd OW.NdC02
open OW.Props.C03 (Rel)

section
variable {α : Type}

/-- a pair of storage windows: storage `gs` from `gb` on the Go side, storage `cs` from `cb` on the C side -/
structure Win where
  gs : Nat
  gb : Int
  cs : Nat
  cb : Int

/-- the window pair of an array pair -/
def winOf (g c : Arr) : Win := ⟨g.sid, g.base, c.sid, c.base⟩

/-- the first `n` cells of the two windows hold the same elements (or are both absent) -/
def RelHeaps (hg hc : Heap α) (w : Win) (n : Int) : Prop :=
  ∀ p : Int, 0 ≤ p → p < n → cell hg w.gs (w.gb + p).toNat = cell hc w.cs (w.cb + p).toNat

/-- `w'` is over the same two storages as `w` with the same displacement on both sides, or over other storages on
both sides -/
def Compat (w w' : Win) : Prop :=
  (w'.gs = w.gs ∧ w'.cs = w.cs ∧ w'.gb - w.gb = w'.cb - w.cb) ∨ (w'.gs ≠ w.gs ∧ w'.cs ≠ w.cs)

theorem Compat.refl (w : Win) : Compat w w := Or.inl ⟨rfl, rfl, by omega⟩

theorem Compat.symm {w w' : Win} (h : Compat w w') : Compat w' w := by
  rcases h with ⟨a, b, c⟩ | ⟨a, b⟩
  · exact Or.inl ⟨a.symm, b.symm, by omega⟩
  · exact Or.inr ⟨fun e => a e.symm, fun e => b e.symm⟩

theorem Compat.of_ne {w w' : Win} (h1 : w'.gs ≠ w.gs) (h2 : w'.cs ≠ w.cs) : Compat w w' := Or.inr ⟨h1, h2⟩

/-- a compatible pair over the same Go storage is over the same C storage, and conversely -/
theorem Compat.sid_iff {w w' : Win} (h : Compat w w') : w'.gs = w.gs ↔ w'.cs = w.cs := by
  rcases h with ⟨a, b, _⟩ | ⟨a, b⟩
  · exact ⟨fun _ => b, fun _ => a⟩
  · exact ⟨fun e => absurd e a, fun e => absurd e b⟩

/-- one paired write keeps compatible windows cell-wise equal -/
theorem relHeaps_setStore {hg hc : Heap α} {w w' : Win} {n : Int} (hgb : 0 ≤ w.gb) (hcb : 0 ≤ w.cb)
    (hgb' : 0 ≤ w'.gb) (hcb' : 0 ≤ w'.cb) (cp : Compat w w') (r : RelHeaps hg hc w' n)
    (p : Int) (p0 : 0 ≤ p) (x : α) :
    RelHeaps (setStore hg w.gs (w.gb + p).toNat x) (setStore hc w.cs (w.cb + p).toNat x) w' n := by
  intro q q0 q1
  rw [cell_setStore, cell_setStore]
  rcases cp with ⟨e1, e2, e3⟩ | ⟨e1, e2⟩
  · by_cases e : w'.gb + q = w.gb + p
    · have e' : w'.cb + q = w.cb + p := by omega
      rw [if_pos ⟨e1, by rw [e]⟩, if_pos ⟨e2, by rw [e']⟩, r q q0 q1]
    · have e' : ¬ w'.cb + q = w.cb + p := by omega
      rw [if_neg (by intro hh; have := hh.2; omega), if_neg (by intro hh; have := hh.2; omega)]
      exact r q q0 q1
  · rw [if_neg (fun hh => e1 hh.1), if_neg (fun hh => e2 hh.1)]
    exact r q q0 q1

/-- `hg', hc'` are obtained from `hg, hc` by the same finite sequence of single-cell writes at corresponding
addresses `gb + p` / `cb + p` (`p ≥ 0`) of the window pair `w` -/
inductive Paired (w : Win) : Heap α → Heap α → Heap α → Heap α → Prop
  | refl (hg hc : Heap α) : Paired w hg hc hg hc
  | step {hg hc hg' hc' : Heap α} (p : Int) (x : α) (p0 : 0 ≤ p)
      (rest : Paired w (setStore hg w.gs (w.gb + p).toNat x) (setStore hc w.cs (w.cb + p).toNat x) hg' hc') :
      Paired w hg hc hg' hc'

theorem Paired.sameShape {w : Win} {hg hc hg' hc' : Heap α} (pw : Paired w hg hc hg' hc') :
    SameShape hg hg' ∧ SameShape hc hc' := by
  induction pw with
  | refl hg hc => exact ⟨SameShape.refl _, SameShape.refl _⟩
  | step p x _ _ ih => exact ⟨(sameShape_setStore _ _ _ x).trans ih.1, (sameShape_setStore _ _ _ x).trans ih.2⟩

theorem Paired.trans {w : Win} {h1 h2 h3 h4 h5 h6 : Heap α} (a : Paired w h1 h2 h3 h4) (b : Paired w h3 h4 h5 h6) :
    Paired w h1 h2 h5 h6 := by
  induction a with
  | refl _ _ => exact b
  | step p x p0 _ ih => exact .step p x p0 (ih b)

/-- paired writes through `w` keep every compatible window pair cell-wise equal -/
theorem Paired.relHeaps {w w' : Win} {hg hc hg' hc' : Heap α} (pw : Paired w hg hc hg' hc') {n : Int}
    (hgb : 0 ≤ w.gb) (hcb : 0 ≤ w.cb) (hgb' : 0 ≤ w'.gb) (hcb' : 0 ≤ w'.cb) (cp : Compat w w')
    (r : RelHeaps hg hc w' n) : RelHeaps hg' hc' w' n := by
  induction pw with
  | refl _ _ => exact r
  | step p x p0 _ ih => exact ih (relHeaps_setStore hgb hcb hgb' hcb' cp r p p0 x)

/-- the simulation relation of `Props.C03.Rel` without the back-end flags -/
structure RelW (hg hc : Heap α) (g c : Arr) : Prop where
  view : g.v = c.v
  reach : Reach g.v
  okG : ArrOK hg g
  okC : ArrOK hc c
  same : RelHeaps hg hc (winOf g c) (product g.v.orig)

theorem _root_.OW.Props.C03.Rel.toW {hg hc : Heap α} {g c : Arr} (r : Rel hg hc g c) : RelW hg hc g c :=
  ⟨r.view, r.reach, r.okG, r.okC, r.same⟩

theorem RelW.toRel {hg hc : Heap α} {g c : Arr} (r : RelW hg hc g c) (h1 : g.isC = false) (h2 : c.isC = true) :
    Rel hg hc g c := ⟨h1, h2, r.view, r.reach, r.okG, r.okC, r.same⟩

theorem RelW.reachC {hg hc : Heap α} {g c : Arr} (r : RelW hg hc g c) : Reach c.v := by
  rw [← r.view]; exact r.reach

/-- paired writes through the windows of one pair keep every compatible related pair related -/
theorem Paired.relW {g c g' c' : Arr} {hg hc hg' hc' : Heap α} (pw : Paired (winOf g c) hg hc hg' hc')
    (hgb : 0 ≤ g.base) (hcb : 0 ≤ c.base) (r : RelW hg hc g' c') (cp : Compat (winOf g c) (winOf g' c')) :
    RelW hg' hc' g' c' :=
  ⟨r.view, r.reach, r.okG.sameShape pw.sameShape.1, r.okC.sameShape pw.sameShape.2,
    pw.relHeaps hgb hcb r.okG.base_nonneg r.okC.base_nonneg cp r.same⟩

/-! ### views, reads -/

theorem RelW.slice {hg hc : Heap α} {g c : Arr} (r : RelW hg hc g c) {loc dims : Idx} {step : Option Idx}
    (hok : SliceOK g.v.dims loc dims (stepOr g.v.dims.length step)) :
    ∃ g' c', slice g loc dims step = .ok g' ∧ slice c loc dims step = .ok c' ∧ RelW hg hc g' c' ∧
      g' = { g with v := g'.v } ∧ c' = { c with v := g'.v } ∧ g'.v.dims = dims ∧ g'.v.orig = g.v.orig := by
  obtain ⟨hl1, _, hl3⟩ := hok.lengths
  have hw := sliceInto_eq (reach_geo r.reach) loc dims step hl1 hl3
  have hwc : c.v.sliceInto loc dims step = .ok (sliceView g.v loc dims step) := by rw [← r.view]; exact hw
  have hsg : Nd.slice g loc dims step = .ok { g with v := sliceView g.v loc dims step } := by
    unfold Nd.slice; rw [hw]; rfl
  have hsc : Nd.slice c loc dims step = .ok { c with v := sliceView g.v loc dims step } := by
    unfold Nd.slice; rw [hwc]; rfl
  refine ⟨_, _, hsg, hsc, ⟨rfl, Reach.slice r.reach hok hw, r.okG.slice hsg, r.okC.slice hsc, ?_⟩, rfl, rfl, rfl, rfl⟩
  exact r.same

theorem RelW.get {hg hc : Heap α} {g c : Arr} (r : RelW hg hc g c) {i : Idx} (hi : InBounds i g.v.dims) :
    ∃ x, Nd.get hg g i = .ok x ∧ Nd.get hc c i = .ok x := by
  obtain ⟨p, x, hp, h0, hlt, hcell, hget⟩ := get_eq r.reach r.okG hi
  have hic : InBounds i c.v.dims := by rw [← r.view]; exact hi
  obtain ⟨p', x', hp', _, _, hcell', hget'⟩ := get_eq r.reachC r.okC hic
  have hpp : p = p' := by
    rw [r.view] at hp; rw [hp] at hp'; injection hp'
  subst hpp
  have := r.same p h0 hlt
  simp only [winOf] at this
  rw [hcell, hcell'] at this
  injection this with this
  subst this
  exact ⟨x, hget, hget'⟩

/-- sequential reads over in-bounds indices agree -/
theorem RelW.getAll {hg hc : Heap α} {g c : Arr} (r : RelW hg hc g c) :
    ∀ (l : List Idx), (∀ i ∈ l, InBounds i g.v.dims) →
      ∃ vals, NdC02.getAll hg g l = .ok vals ∧ NdC02.getAll hc c l = .ok vals ∧ vals.length = l.length
  | [], _ => ⟨[], rfl, rfl, rfl⟩
  | i :: is, hl => by
    obtain ⟨x, hx, hx'⟩ := r.get (hl i List.mem_cons_self)
    obtain ⟨vs, hv, hv', hlen⟩ := RelW.getAll r is (fun j hj => hl j (List.mem_cons_of_mem _ hj))
    exact ⟨x :: vs, by simp [NdC02.getAll, hx, hv, bind, Except.bind, pure, Except.pure],
      by simp [NdC02.getAll, hx', hv', bind, Except.bind, pure, Except.pure], by simp [hlen]⟩

/-- the row-major element lists of a related pair agree -/
theorem RelW.elems {hg hc : Heap α} {g c : Arr} (r : RelW hg hc g c) :
    ∃ vals, NdC02.getAll hg g (rowMajor g.v.dims) = .ok vals ∧ NdC02.getAll hc c (rowMajor c.v.dims) = .ok vals ∧
      vals.length = (product g.v.dims).toNat := by
  obtain ⟨vals, h1, h2, h3⟩ := r.getAll (rowMajor g.v.dims) (rowMajor_inBounds (reach_geo r.reach).pos_dims)
  exact ⟨vals, h1, by rw [← r.view]; exact h2, by rw [h3, rowMajor_length]⟩

/-! ### writes -/

/-- one `Set` at the same in-bounds index on both sides is one paired write -/
theorem paired_set {g c : Arr} (hv : g.v = c.v) (hr : Reach g.v) {hg hc : Heap α} (okG : ArrOK hg g) (okC : ArrOK hc c)
    {i : Idx} (hi : InBounds i g.v.dims) (x : α) :
    ∃ p, 0 ≤ p ∧ p < product g.v.orig ∧ g.v.index i = .ok p ∧
      Nd.set hg g i x = .ok (setStore hg g.sid (g.base + p).toNat x) ∧
      Nd.set hc c i x = .ok (setStore hc c.sid (c.base + p).toNat x) := by
  obtain ⟨p, hp, h0, hlt, hs⟩ := Nd.set_eq hr okG hi x
  have hrc : Reach c.v := by rw [← hv]; exact hr
  have hic : InBounds i c.v.dims := by rw [← hv]; exact hi
  obtain ⟨p', hp', _, _, hs'⟩ := Nd.set_eq hrc okC hic x
  have hpp : p = p' := by
    rw [hv] at hp; rw [hp] at hp'; injection hp'
  subst hpp
  exact ⟨p, h0, hlt, hp, hs, hs'⟩

/-- sequential `Set`s of the same values at the same in-bounds indices on both sides never panic and are paired
writes through the windows of the pair -/
theorem paired_setAll {g c : Arr} (hv : g.v = c.v) (hr : Reach g.v) :
    ∀ (l : List Idx) (xs : List α) (hg hc : Heap α), ArrOK hg g → ArrOK hc c → (∀ i ∈ l, InBounds i g.v.dims) →
      ∃ hg' hc', setAll hg g l xs = .ok hg' ∧ setAll hc c l xs = .ok hc' ∧ Paired (winOf g c) hg hc hg' hc'
  | [], _, hg, hc, _, _, _ => ⟨hg, hc, by simp [setAll], by simp [setAll], .refl _ _⟩
  | _ :: _, [], hg, hc, _, _, _ => ⟨hg, hc, by simp [setAll], by simp [setAll], .refl _ _⟩
  | i :: is, x :: xs, hg, hc, okG, okC, hl => by
    obtain ⟨p, p0, _, _, hs, hs'⟩ := paired_set hv hr okG okC (hl i List.mem_cons_self) x
    obtain ⟨hg', hc', e1, e2, pw⟩ := paired_setAll hv hr is xs _ _ (arrOK_setStore okG g.sid (g.base + p).toNat x)
      (arrOK_setStore okC c.sid (c.base + p).toNat x) (fun j hj => hl j (List.mem_cons_of_mem _ hj))
    exact ⟨hg', hc', by simp only [setAll, hs, bind, Except.bind]; exact e1,
      by simp only [setAll, hs', bind, Except.bind]; exact e2, .step p x p0 pw⟩

theorem RelW.setAll {hg hc : Heap α} {g c : Arr} (r : RelW hg hc g c) (l : List Idx) (xs : List α)
    (hl : ∀ i ∈ l, InBounds i g.v.dims) :
    ∃ hg' hc', NdC02.setAll hg g l xs = .ok hg' ∧ NdC02.setAll hc c l xs = .ok hc' ∧
      Paired (winOf g c) hg hc hg' hc' :=
  paired_setAll r.view r.reach l xs hg hc r.okG r.okC hl

/-- a related pair stays related under paired writes through its own windows -/
theorem RelW.paired_self {hg hc hg' hc' : Heap α} {g c : Arr} (r : RelW hg hc g c)
    (pw : Paired (winOf g c) hg hc hg' hc') : RelW hg' hc' g c :=
  pw.relW r.okG.base_nonneg r.okC.base_nonneg r (Compat.refl _)

/-! ### allocation of a new storage does not disturb existing pairs -/

theorem cell_append_lt (h : Heap α) (vs : List α) {sid : Nat} (hs : sid < h.length) (pos : Nat) :
    cell (h ++ [vs]) sid pos = cell h sid pos := by
  unfold cell
  rw [List.getElem?_append_left hs]

theorem arrOK_append {h : Heap α} {a : Arr} (ok : ArrOK h a) (vs : List α) : ArrOK (h ++ [vs]) a := by
  obtain ⟨s, hs, hl⟩ := ok.store
  have hlt : a.sid < h.length := by
    by_contra hn
    rw [List.getElem?_eq_none (by omega)] at hs
    cases hs
  exact ⟨⟨s, by rw [List.getElem?_append_left hlt]; exact hs, hl⟩, ok.base_nonneg, ok.fits, ok.cfits⟩

theorem arrOK_sid_lt {h : Heap α} {a : Arr} (ok : ArrOK h a) : a.sid < h.length := by
  obtain ⟨s, hs, _⟩ := ok.store
  by_contra hn
  rw [List.getElem?_eq_none (by omega)] at hs
  cases hs

theorem RelW.append {hg hc : Heap α} {g c : Arr} (r : RelW hg hc g c) (vg vc : List α) :
    RelW (hg ++ [vg]) (hc ++ [vc]) g c := by
  refine ⟨r.view, r.reach, arrOK_append r.okG vg, arrOK_append r.okC vc, ?_⟩
  intro p p0 p1
  simp only [winOf]
  rw [cell_append_lt hg vg (arrOK_sid_lt r.okG), cell_append_lt hc vc (arrOK_sid_lt r.okC)]
  exact r.same p p0 p1

end
end OW.NdC03
