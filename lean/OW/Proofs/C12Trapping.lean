import OW.Proofs.C12Scan
import OW.Kernels.StorageParticulateTrapping
import Mathlib.Tactic.NormNum
import Mathlib.Tactic.LinearCombination
/-!
C12 helpers: `storageParticulateTrapping` over ℝ.
-/
namespace OW.C12
open OW OW.Kernels
open StorageParticulateTrapping (Params)

/-- the trapping efficiency is a percentage whatever the parameters are (it is clipped) -/
theorem damTrappingPC_bounds (p : Params ℝ) (qi : ℝ) :
    0 ≤ StorageParticulateTrapping.damTrappingPC p qi ∧ StorageParticulateTrapping.damTrappingPC p qi ≤ 100 := by
  unfold StorageParticulateTrapping.damTrappingPC
  split_ifs with h
  · realnum
    have h0 : ((0.0 : ℝ)) = 0 := by norm_num
    have h100 : ((100.0 : ℝ)) = 100 := by norm_num
    rw [h0, h100]
    exact ⟨le_min (by norm_num) (le_max_left _ _), min_le_left _ _⟩
  · realnum
    have h0 : ((0.0 : ℝ)) = 0 := by norm_num
    rw [h0]; exact ⟨le_refl _, by norm_num⟩

/-- the divisor of the sedimentation index is positive on the branch that divides by it
(`inflowRate > 0 && reservoirLength > 0`), given a positive length/discharge factor -/
theorem trapping_divisor_pos (p : Params ℝ) (qi : ℝ) (hldf : 0 < p.lengthDischargeFactor)
    (hlen : 0 < p.reservoirLength) (hq : 0 < qi) :
    0 < p.lengthDischargeFactor * p.reservoirLength * qi ^ (2.0 : ℝ) :=
  mul_pos (mul_pos hldf hlen) (Real.rpow_pos_of_pos hq _)

/-- one step -/
theorem trapping_step (p : Params ℝ) (s im qi q v : ℝ) (hdt : 0 ≤ p.deltaT) (hs : 0 ≤ s) (him : 0 ≤ im)
    (hq : 0 ≤ q) (hv : 0 ≤ v) :
    s + im * p.deltaT =
      (StorageParticulateTrapping.step p s (im, qi, q, v)).1 +
      ((StorageParticulateTrapping.step p s (im, qi, q, v)).2.trappedMass +
       (StorageParticulateTrapping.step p s (im, qi, q, v)).2.outflowLoad * p.deltaT) ∧
    0 ≤ (StorageParticulateTrapping.step p s (im, qi, q, v)).1 ∧
    0 ≤ (StorageParticulateTrapping.step p s (im, qi, q, v)).2.trappedMass ∧
    (StorageParticulateTrapping.step p s (im, qi, q, v)).2.trappedMass ≤ im * p.deltaT ∧
    0 ≤ (StorageParticulateTrapping.step p s (im, qi, q, v)).2.outflowLoad := by
  obtain ⟨pc0, pc100⟩ := damTrappingPC_bounds p qi
  unfold StorageParticulateTrapping.step
  simp only []
  generalize StorageParticulateTrapping.damTrappingPC p qi = pc at pc0 pc100 ⊢
  have hin : 0 ≤ im * p.deltaT := mul_nonneg him hdt
  have htr0 : 0 ≤ im * p.deltaT * pc / 100 := div_nonneg (mul_nonneg hin pc0) (by norm_num)
  have htr1 : im * p.deltaT * pc / 100 ≤ im * p.deltaT := by
    rw [div_le_iff₀ (by norm_num : (0:ℝ) < 100)]
    nlinarith
  split_ifs with h
  · realnum
    have h0 : ((0.0 : ℝ)) = 0 := by norm_num
    have h100 : ((100.0 : ℝ)) = 100 := by norm_num
    rw [h0, h100]
    have hne : q * p.deltaT + v ≠ 0 := ne_of_gt h
    generalize hs1 : s + im * p.deltaT - im * p.deltaT * pc / 100 = s1 at *
    have hs1nn : 0 ≤ s1 := by rw [← hs1]; linarith
    generalize hc : s1 / (q * p.deltaT + v) = conc
    have key : conc * (q * p.deltaT + v) = s1 := by rw [← hc]; exact div_mul_cancel₀ _ hne
    have hconc : 0 ≤ conc := by rw [← hc]; exact div_nonneg hs1nn (le_of_lt h)
    have hrest : s1 - q * conc * p.deltaT = conc * v := by linear_combination (-1 : ℝ) * key
    have hmax : max (s1 - q * conc * p.deltaT) 0 = conc * v := by
      rw [hrest]; exact max_eq_left (mul_nonneg hconc hv)
    rw [hmax]
    refine ⟨?_, mul_nonneg hconc hv, htr0, htr1, mul_nonneg hq hconc⟩
    rw [← hs1] at key
    linear_combination (-1 : ℝ) * key
  · realnum
    have h0 : ((0.0 : ℝ)) = 0 := by norm_num
    have h100 : ((100.0 : ℝ)) = 100 := by norm_num
    rw [h0, h100]
    have hs1nn : 0 ≤ s + im * p.deltaT - im * p.deltaT * pc / 100 := by linarith
    have hmax : max (s + im * p.deltaT - im * p.deltaT * pc / 100 - 0 * p.deltaT) 0 =
        s + im * p.deltaT - im * p.deltaT * pc / 100 := by
      rw [zero_mul, sub_zero]; exact max_eq_left hs1nn
    rw [hmax]
    exact ⟨by ring, hs1nn, htr0, htr1, le_refl _⟩

theorem trapping_run (p : Params ℝ) (s0 : ℝ) (xs : List (ℝ × ℝ × ℝ × ℝ)) (hdt : 0 ≤ p.deltaT) (hs : 0 ≤ s0)
    (hx : ∀ x ∈ xs, 0 ≤ x.1 ∧ 0 ≤ x.2.2.1 ∧ 0 ≤ x.2.2.2) :
    0 ≤ (StorageParticulateTrapping.run p s0 xs).1 ∧
    s0 + (xs.map fun x => x.1 * p.deltaT).sum =
      (StorageParticulateTrapping.run p s0 xs).1 +
        ((StorageParticulateTrapping.run p s0 xs).2.map fun o => o.trappedMass + o.outflowLoad * p.deltaT).sum ∧
    List.Forall₂ (fun x o => 0 ≤ o.trappedMass ∧ o.trappedMass ≤ x.1 * p.deltaT ∧ 0 ≤ o.outflowLoad) xs
      (StorageParticulateTrapping.run p s0 xs).2 :=
  scan_budget (StorageParticulateTrapping.step p) (fun s => 0 ≤ s) (fun x => 0 ≤ x.1 ∧ 0 ≤ x.2.2.1 ∧ 0 ≤ x.2.2.2) id
    (fun x => x.1 * p.deltaT) (fun o => o.trappedMass + o.outflowLoad * p.deltaT)
    (fun x o => 0 ≤ o.trappedMass ∧ o.trappedMass ≤ x.1 * p.deltaT ∧ 0 ≤ o.outflowLoad)
    (by
      rintro s ⟨im, qi, q, v⟩ hs ⟨a, b, c⟩
      obtain ⟨h1, h2, h3, h4, h5⟩ := trapping_step p s im qi q v hdt hs a b c
      exact ⟨h2, h1, h3, h4, h5⟩)
    xs s0 hs hx

end OW.C12
