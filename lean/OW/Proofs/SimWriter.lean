import OW.Sim.Writer
/-!
Helper lemmas for property C07-T2: the inductive invariant of the writer-protocol transition system
(OW/Sim/Writer.lean), for every number of generations `G ≥ 1`. Core Lean only.

The invariant says that a reachable state is determined by the main pc, the number `w` of written generations and the
position of the single "baton" (`hd`): writers below the spawn count are `done` below `w` and `waiting` from `w` on,
except the baton holder; generations `< w` are written exactly once, the others not at all.
-/
namespace OW.Sim.Writer
open OW.Sim

/-- number of writers spawned so far -/
def spawned (G : Nat) : MPc → Nat
  | .run i => i
  | .links i => i + 1
  | _ => G

/-- number of generations whose outgoing links have been applied -/
def applied (G : Nat) : MPc → Nat
  | .run i => i
  | .links i => i
  | _ => G

def mainFree (m : MPc) : Prop := m ≠ .exited ∧ ∀ k, m ≠ .hold k

def mpcOK (G : Nat) : MPc → Prop
  | .run i => i < G
  | .links i => i < G
  | _ => True

/-- what the pc of writer `g` must be -/
def expected (sp w : Nat) (hd : Option (Nat × WPc)) (g : Nat) : WPc :=
  if sp ≤ g then .notSpawned
  else match hd with
    | some (h, p) => if g = h then p else if g < w then .done else .waiting
    | none => if g < w then .done else .waiting

/-- admissible pcs of the baton-holding writer `h` when `w` generations are written -/
def pcOK (G w h : Nat) : WPc → Prop
  | .ready => h = w ∧ w < G
  | .writing => h = w ∧ w < G
  | .wrote => h + 1 = w
  | .sending => h + 1 = w
  | .got k => k + 1 = w ∧ w ≤ h
  | .bounce k => k + 1 = w ∧ w < h
  | .resend k => k + 1 = w ∧ w < h
  | _ => False

def holderOK (G : Nat) (m : MPc) (w : Nat) : Option (Nat × WPc) → Prop
  | some (h, p) => h < spawned G m ∧ mainFree m ∧ pcOK G w h p
  | none => (m = .run 0 ∧ w = 0) ∨ (m = .exited ∧ w = G) ∨ (∃ k, m = .hold k ∧ k + 1 = w ∧ w < G)

structure InvP (G : Nat) (s : State) (w : Nat) (hd : Option (Nat × WPc)) : Prop where
  wle : w ≤ G
  mok : mpcOK G s.mpc
  writes : ∀ g, s.writes g = if g < w then 1 else 0
  links : ∀ g, s.links g = decide (g < applied G s.mpc)
  purges : ∀ k, 0 < s.purges k → k < w ∧ k < applied G s.mpc
  wpc : ∀ g, s.wpc g = expected (spawned G s.mpc) w hd g
  hok : holderOK G s.mpc w hd

def Inv (G : Nat) (s : State) : Prop := ∃ w hd, InvP G s w hd

inductive Reachable (G : Nat) : State → Prop where
  | init : Reachable G init
  | step {s s' : State} {l : Label} : Reachable G s → step G s l = some s' → Reachable G s'

/-- reflexive-transitive closure of the step relation -/
inductive Reach (G : Nat) : State → State → Prop where
  | refl (s : State) : Reach G s s
  | step {s s' s'' : State} {l : Label} : step G s l = some s' → Reach G s' s'' → Reach G s s''

theorem inv_init {G : Nat} (hG : 1 ≤ G) : Inv G init := by
  refine ⟨0, none, ⟨Nat.zero_le _, ?_, ?_, ?_, ?_, ?_, ?_⟩⟩
  · show 0 < G; omega
  · intro g; simp [init]
  · intro g; simp [init, applied]
  · intro k h; simp [init] at h
  · intro g; simp [init, expected, spawned]
  · exact Or.inl ⟨rfl, rfl⟩

/-! ### reading the invariant -/

theorem upd_same {β : Type} (f : Nat → β) (i : Nat) (v : β) : upd f i v i = v := by simp [upd]
theorem upd_other {β : Type} (f : Nat → β) {i j : Nat} (v : β) (h : j ≠ i) : upd f i v j = f j := by simp [upd, h]

/-- a pc other than notSpawned / waiting / done occurs only at the baton holder -/
def active : WPc → Prop
  | .notSpawned => False
  | .waiting => False
  | .done => False
  | _ => True

theorem expected_active {sp w : Nat} {hd : Option (Nat × WPc)} {g : Nat} {p : WPc}
    (h : expected sp w hd g = p) (ha : active p) : g < sp ∧ hd = some (g, p) := by
  unfold expected at h
  split at h
  · subst h; exact ha.elim
  · rename_i hsp
    split at h
    · rename_i h0 p0
      split at h
      · rename_i e; subst e; subst h; exact ⟨by omega, rfl⟩
      · split at h <;> (subst h; exact ha.elim)
    · split at h <;> (subst h; exact ha.elim)

theorem expected_waiting {G : Nat} {m : MPc} {w : Nat} {hd : Option (Nat × WPc)} {g : Nat}
    (hok : holderOK G m w hd) (h : expected (spawned G m) w hd g = .waiting) :
    g < spawned G m ∧ w ≤ g ∧ ∀ h' p, hd = some (h', p) → g ≠ h' := by
  unfold expected at h
  split at h
  · cases h
  · rename_i hsp
    split at h
    · rename_i h0 p0
      split at h
      · rename_i e; subst e; subst h
        have := hok.2.2
        simp [pcOK] at this
      · rename_i hne
        split at h
        · cases h
        · refine ⟨by omega, by omega, ?_⟩
          intro h' p e; cases e; exact hne
    · split at h
      · cases h
      · exact ⟨by omega, by omega, fun h' p e => by cases e⟩

/-- writer `w` (the next to write) is waiting whenever it is spawned and is not the holder -/
theorem expected_at_w {sp w : Nat} {hd : Option (Nat × WPc)} (hsp : w < sp)
    (hne : ∀ h p, hd = some (h, p) → w ≠ h) : expected sp w hd w = .waiting := by
  unfold expected
  have : ¬ sp ≤ w := by omega
  simp only [this, if_false]
  split
  · rename_i h p
    have := hne h p rfl
    simp [this]
  · simp

theorem mainFree_run (i : Nat) : mainFree (.run i) := ⟨by simp, by simp⟩
theorem mainFree_links (i : Nat) : mainFree (.links i) := ⟨by simp, by simp⟩
theorem mainFree_final : mainFree .final := ⟨by simp, by simp⟩

theorem expected_self {sp w h : Nat} {p : WPc} (hs : h < sp) : expected sp w (some (h, p)) h = p := by
  unfold expected
  have : ¬ sp ≤ h := by omega
  simp [this]

theorem expected_off {sp w h g : Nat} {p : WPc} (hne : g ≠ h) :
    expected sp w (some (h, p)) g = expected sp w none g := by
  unfold expected
  simp [hne]

theorem expected_none_done {sp w g : Nat} (hs : g < sp) (hw : g < w) : expected sp w none g = .done := by
  unfold expected
  have : ¬ sp ≤ g := by omega
  simp [this, hw]

theorem expected_none_waiting {sp w g : Nat} (hs : g < sp) (hw : w ≤ g) : expected sp w none g = .waiting := by
  unfold expected
  have : ¬ sp ≤ g := by omega
  have : ¬ g < w := by omega
  simp [*]

theorem expected_none_succ {sp w g : Nat} (hne : g ≠ w) : expected sp (w + 1) none g = expected sp w none g := by
  unfold expected
  have : g < w + 1 ↔ g < w := by omega
  simp [this]

theorem spawned_le (G : Nat) {m : MPc} (h : mpcOK G m) : spawned G m ≤ G := by
  cases m <;> simp [spawned, mpcOK] at * <;> omega

theorem spawned_le_applied (G : Nat) (m : MPc) : spawned G m ≤ applied G m + 1 := by
  cases m <;> simp [spawned, applied]

theorem w_le_spawned {G : Nat} {s : State} {w : Nat} {hd : Option (Nat × WPc)} (I : InvP G s w hd) :
    w ≤ spawned G s.mpc := by
  have hok := I.hok
  cases hd with
  | none =>
    rcases hok with ⟨_, h⟩ | ⟨h1, h2⟩ | ⟨k, h1, _, h3⟩
    · omega
    · rw [h1, h2]; simp [spawned]
    · rw [h1]; simp [spawned]; omega
  | some hp =>
    obtain ⟨h, p⟩ := hp
    obtain ⟨h1, _, h3⟩ := hok
    cases p <;> simp [pcOK] at h3 <;> omega

/-! ### every transition preserves the invariant -/

theorem invP_spawn {G : Nat} {s s' : State} {g w : Nat} {hd : Option (Nat × WPc)} (I : InvP G s w hd)
    (h : step G s (.spawn g) = some s') :
    InvP G s' w (if g = 0 then some (0, .ready) else hd) ∧ s.mpc = .run g ∧ s'.mpc = .links g := by
  simp only [step] at h
  split at h
  · rename_i hc
    obtain ⟨hm, hg, hn⟩ := hc
    cases h
    have hsp : spawned G s.mpc = g := by rw [hm]; rfl
    have hap : applied G s.mpc = g := by rw [hm]; rfl
    have hwle := w_le_spawned I
    have hwpc := I.wpc
    rw [hsp] at hwpc hwle
    by_cases h0 : g = 0
    · subst h0
      have hw0 : w = 0 := by omega
      subst hw0
      refine ⟨?_, hm, rfl⟩
      simp only [if_true]
      refine ⟨Nat.zero_le _, hg, I.writes, ?_, ?_, ?_, ?_⟩
      · intro g'; show s.links g' = decide (g' < 0); rw [I.links g', hap]
      · intro k hk; have := I.purges k hk; omega
      · intro g'
        by_cases e : g' = 0
        · subst e; simp [upd, expected, spawned]
        · simp only [upd, e, if_false]
          rw [hwpc g']
          have : 1 ≤ g' := by omega
          simp [expected, spawned, this]
      · exact ⟨by simp [spawned], mainFree_links 0, ⟨rfl, hg⟩⟩
    · -- g > 0: the baton exists already
      have hok := I.hok
      cases hd with
      | none =>
        rcases hok with ⟨h1, _⟩ | ⟨h1, _⟩ | ⟨k, h1, _⟩
        · rw [hm] at h1; cases h1; exact absurd rfl h0
        · rw [hm] at h1; cases h1
        · rw [hm] at h1; cases h1
      | some hp =>
        obtain ⟨h, p⟩ := hp
        obtain ⟨h1, _, h3⟩ := hok
        rw [hsp] at h1
        refine ⟨?_, hm, rfl⟩
        simp only [h0, if_false]
        refine ⟨I.wle, hg, I.writes, ?_, ?_, ?_, ?_⟩
        · intro g'; show s.links g' = decide (g' < g); rw [I.links g', hap]
        · intro k hk; have := I.purges k hk; rw [hap] at this; simpa [applied] using this
        · intro g'
          by_cases e : g' = g
          · subst e
            simp only [upd, if_true]
            rw [expected_off (by omega)]
            exact (expected_none_waiting (by simp [spawned]) hwle).symm
          · simp only [upd, e, if_false]
            rw [hwpc g']
            by_cases e2 : g' < g
            · have a : ¬ g ≤ g' := by omega
              have b : ¬ g + 1 ≤ g' := by omega
              simp [expected, spawned, a, b]
            · have a : g ≤ g' := by omega
              have b : g + 1 ≤ g' := by omega
              simp [expected, spawned, a, b]
        · exact ⟨by simp [spawned]; omega, mainFree_links g, h3⟩
  · cases h

theorem invP_links {G : Nat} {s s' : State} {g w : Nat} {hd : Option (Nat × WPc)} (I : InvP G s w hd)
    (h : step G s (.links g) = some s') :
    InvP G s' w hd ∧ s.mpc = .links g ∧ s'.mpc = (if g + 1 < G then MPc.run (g + 1) else MPc.final) := by
  simp only [step] at h
  split at h
  · rename_i hm
    cases h
    have hgG : g < G := by have := I.mok; rw [hm] at this; exact this
    have hsp : spawned G s.mpc = g + 1 := by rw [hm]; rfl
    have hap : applied G s.mpc = g := by rw [hm]; rfl
    have hsp' : spawned G (if g + 1 < G then MPc.run (g + 1) else MPc.final) = g + 1 := by
      split
      · rfl
      · simp [spawned]; omega
    have hap' : applied G (if g + 1 < G then MPc.run (g + 1) else MPc.final) = g + 1 := by
      split
      · rfl
      · simp [applied]; omega
    have hmf : mainFree (if g + 1 < G then MPc.run (g + 1) else MPc.final) := by
      split
      · exact mainFree_run _
      · exact mainFree_final
    refine ⟨⟨I.wle, ?_, I.writes, ?_, ?_, ?_, ?_⟩, hm, rfl⟩
    · show mpcOK G (if g + 1 < G then MPc.run (g + 1) else MPc.final)
      split
      · assumption
      · trivial
    · intro g'
      show upd s.links g true g' = decide (g' < applied G (if g + 1 < G then MPc.run (g + 1) else MPc.final))
      rw [hap']
      by_cases e : g' = g
      · subst e; simp [upd]
      · simp only [upd, e, if_false]
        rw [I.links g', hap]
        have : g' < g ↔ g' < g + 1 := by omega
        simp [this]
    · intro k hk
      have := I.purges k hk
      show k < w ∧ k < applied G (if g + 1 < G then MPc.run (g + 1) else MPc.final)
      rw [hap'] ; rw [hap] at this; omega
    · intro g'
      show s.wpc g' = expected (spawned G (if g + 1 < G then MPc.run (g + 1) else MPc.final)) w hd g'
      rw [hsp', I.wpc g', hsp]
    · have hok := I.hok
      show holderOK G (if g + 1 < G then MPc.run (g + 1) else MPc.final) w hd
      cases hd with
      | none =>
        rcases hok with ⟨h1, _⟩ | ⟨h1, _⟩ | ⟨k, h1, _⟩
        · rw [hm] at h1; cases h1
        · rw [hm] at h1; cases h1
        · rw [hm] at h1; cases h1
      | some hp =>
        obtain ⟨h, p⟩ := hp
        obtain ⟨h1, _, h3⟩ := hok
        exact ⟨by rw [hsp']; rw [hsp] at h1; exact h1, hmf, h3⟩
  · cases h

/-- a writer-local step that only changes the holder's pc from `p` to `p'` -/
theorem inv_local {G : Nat} {s : State} {w : Nat} {h : Nat} {p p' : WPc}
    (I : InvP G s w (some (h, p))) (hp' : pcOK G w h p') :
    InvP G { s with wpc := upd s.wpc h p' } w (some (h, p')) := by
  have hok := I.hok
  obtain ⟨h1, h2, _⟩ := hok
  refine ⟨I.wle, I.mok, I.writes, I.links, I.purges, ?_, ⟨h1, h2, hp'⟩⟩
  intro g'
  by_cases e : g' = h
  · subst e; simp only [upd, if_true]; exact (expected_self h1).symm
  · simp only [upd, e, if_false]
    rw [I.wpc g', expected_off e, expected_off e]

theorem holder_of_active {G : Nat} {s : State} {w : Nat} {hd : Option (Nat × WPc)} (I : InvP G s w hd)
    {g : Nat} {p : WPc} (hp : s.wpc g = p) (ha : active p) : hd = some (g, p) := by
  rw [I.wpc g] at hp
  exact (expected_active hp ha).2

theorem inv_wstart {G : Nat} {s s' : State} {g : Nat} (hI : Inv G s) (h : step G s (.wstart g) = some s') : Inv G s' := by
  obtain ⟨w, hd, I⟩ := hI
  simp only [step] at h
  split at h
  · rename_i hc
    cases h
    have := holder_of_active I hc.2 trivial
    subst this
    have hp := I.hok.2.2
    exact ⟨w, _, inv_local I (p' := .writing) hp⟩
  · cases h

theorem inv_sent {G : Nat} {s s' : State} {g : Nat} (hI : Inv G s) (h : step G s (.sent g) = some s') : Inv G s' := by
  obtain ⟨w, hd, I⟩ := hI
  simp only [step] at h
  split at h
  · rename_i hc
    cases h
    have := holder_of_active I hc.2 trivial
    subst this
    have hp := I.hok.2.2
    exact ⟨w, _, inv_local I (p' := .sending) hp⟩
  · cases h

theorem inv_resent {G : Nat} {s s' : State} {g k : Nat} (hI : Inv G s) (h : step G s (.resent g k) = some s') : Inv G s' := by
  obtain ⟨w, hd, I⟩ := hI
  simp only [step] at h
  split at h
  · rename_i hc
    cases h
    have := holder_of_active I hc.2 trivial
    subst this
    have hp := I.hok.2.2
    exact ⟨w, _, inv_local I (p' := .resend k) hp⟩
  · cases h

theorem invP_wdone {G : Nat} {s s' : State} {g w : Nat} {hd : Option (Nat × WPc)} (I : InvP G s w hd)
    (h : step G s (.wdone g) = some s') :
    hd = some (g, .writing) ∧ g = w ∧ InvP G s' (w + 1) (some (g, .wrote)) ∧ s'.mpc = s.mpc := by
  simp only [step] at h
  split at h
  · rename_i hc
    cases h
    have := holder_of_active I hc.2 trivial
    subst this
    obtain ⟨h1, h2, h3⟩ := I.hok
    obtain ⟨e, hwG⟩ := h3
    subst e
    refine ⟨rfl, rfl, ⟨by omega, I.mok, ?_, I.links, ?_, ?_, ⟨h1, h2, rfl⟩⟩, rfl⟩
    · intro g'
      by_cases e : g' = g
      · subst e; simp [upd, I.writes g']
      · simp only [upd, e, if_false]
        rw [I.writes g']
        have : g' < g + 1 ↔ g' < g := by omega
        simp [this]
    · intro k hk; have := I.purges k hk; show k < g + 1 ∧ k < applied G s.mpc; omega
    · intro g'
      by_cases e : g' = g
      · subst e; simp only [upd, if_true]; exact (expected_self h1).symm
      · simp only [upd, e, if_false]
        rw [I.wpc g', expected_off e, expected_off e, expected_none_succ e]
  · cases h

theorem invP_purge {G : Nat} {s s' : State} {g k w : Nat} {hd : Option (Nat × WPc)} (I : InvP G s w hd)
    (h : step G s (.purge g k) = some s') :
    hd = some (g, .got k) ∧ InvP G s' w (some (g, if k + 1 = g then WPc.ready else WPc.bounce k)) ∧ s'.mpc = s.mpc := by
  simp only [step] at h
  split at h
  · rename_i hc
    cases h
    have := holder_of_active I hc.2 trivial
    subst this
    obtain ⟨h1, h2, h3⟩ := I.hok
    obtain ⟨e, hwg⟩ := h3
    have hGs := spawned_le G I.mok
    have hsa := spawned_le_applied G s.mpc
    have hp' : pcOK G w g (if k + 1 = g then WPc.ready else WPc.bounce k) := by
      split
      · exact ⟨by omega, by omega⟩
      · exact ⟨e, by omega⟩
    have J := inv_local I hp'
    refine ⟨rfl, ⟨J.wle, J.mok, J.writes, J.links, ?_, J.wpc, J.hok⟩, rfl⟩
    intro k' hk'
    by_cases e' : k' = k
    · subst e'; show k' < w ∧ k' < applied G s.mpc; omega
    · apply I.purges k'
      simpa [upd, e'] using hk'
  · cases h

/-- the receiving writer `r` takes token `k = w-1` from the writer `b` that held it, which becomes `pb` -/
theorem inv_handover {G : Nat} {s : State} {w b r k : Nat} {p pb : WPc}
    (I : InvP G s w (some (b, p))) (hr : s.wpc r = .waiting) (hk : k + 1 = w)
    (hpb : expected (spawned G s.mpc) w none b = pb) :
    InvP G { s with wpc := upd (upd s.wpc b pb) r (.got k) } w (some (r, .got k)) := by
  have hw := I.wpc r
  rw [hr] at hw
  obtain ⟨r1, r2, r3⟩ := expected_waiting I.hok hw.symm
  have rb : r ≠ b := r3 b p rfl
  obtain ⟨h1, h2, _⟩ := I.hok
  refine ⟨I.wle, I.mok, I.writes, I.links, I.purges, ?_, ⟨r1, h2, ⟨hk, r2⟩⟩⟩
  intro g'
  by_cases e : g' = r
  · subst e; simp only [upd, if_true]; exact (expected_self r1).symm
  · simp only [upd, e, if_false]
    rw [expected_off e]
    by_cases e2 : g' = b
    · subst e2; simp only [if_true]; exact hpb.symm
    · simp only [e2, if_false]
      rw [I.wpc g', expected_off e2]

theorem inv_recv {G : Nat} {s s' : State} {r k : Nat} {c : Sender} (hI : Inv G s)
    (h : step G s (.recv r k c) = some s') : Inv G s' := by
  obtain ⟨w, hd, I⟩ := hI
  simp only [step] at h
  split at h
  · rename_i hc
    obtain ⟨hrG, hr⟩ := hc
    split at h
    · rename_i s1 heq
      cases h
      cases c with
      | own =>
        simp only [takeFrom] at heq
        split at heq
        · rename_i hc'
          cases heq
          have := holder_of_active I hc'.2 trivial
          subst this
          obtain ⟨h1, _, h3⟩ := I.hok
          have h3' : k + 1 = w := h3
          exact ⟨w, _, inv_handover I hr h3' (expected_none_done h1 (by omega))⟩
        · cases heq
      | bouncer b =>
        simp only [takeFrom] at heq
        split at heq
        · rename_i hc'
          cases heq
          have := holder_of_active I hc'.2 trivial
          subst this
          obtain ⟨h1, _, h3⟩ := I.hok
          obtain ⟨h3a, h3b⟩ := h3
          exact ⟨w, _, inv_handover I hr h3a (expected_none_waiting h1 (by omega))⟩
        · cases heq
      | main =>
        simp only [takeFrom] at heq
        split at heq
        · rename_i hm
          cases heq
          have hok := I.hok
          cases hd with
          | some hp =>
            obtain ⟨h0, p0⟩ := hp
            exact absurd hm (hok.2.1.2 k)
          | none =>
            have hsp : spawned G s.mpc = G := by rw [hm]; rfl
            have hap : applied G s.mpc = G := by rw [hm]; rfl
            rcases hok with ⟨h1, _⟩ | ⟨h1, _⟩ | ⟨k', h1, h2, h3⟩
            · rw [hm] at h1; cases h1
            · rw [hm] at h1; cases h1
            · rw [hm] at h1; cases h1
              have hw := I.wpc r
              rw [hr] at hw
              obtain ⟨r1, r2, _⟩ := expected_waiting I.hok hw.symm
              rw [hsp] at r1
              refine ⟨w, some (r, .got k), ⟨I.wle, trivial, I.writes, ?_, ?_, ?_, ?_⟩⟩
              · intro g'; show s.links g' = decide (g' < G); rw [I.links g', hap]
              · intro k0 hk0; have := I.purges k0 hk0; rw [hap] at this; exact this
              · intro g'
                show upd s.wpc r (.got k) g' = expected G w (some (r, .got k)) g'
                by_cases e : g' = r
                · subst e; simp only [upd, if_true]; exact (expected_self r1).symm
                · simp only [upd, e, if_false]
                  rw [I.wpc g', hsp, expected_off e]
              · exact ⟨r1, mainFree_final, ⟨h2, r2⟩⟩
        · cases heq
    · cases h
  · cases h

/-- the main goroutine takes token `k = w-1` from the writer `b` that held it, which becomes `pb` -/
theorem inv_main_take {G : Nat} {s : State} {w b k : Nat} {p pb : WPc}
    (I : InvP G s w (some (b, p))) (hm : s.mpc = .final) (hk : k + 1 = w)
    (hpb : expected G w none b = pb) :
    InvP G { s with wpc := upd s.wpc b pb, mpc := if k + 1 = G then .exited else .hold k } w none := by
  have hsp : spawned G s.mpc = G := by rw [hm]; rfl
  have hap : applied G s.mpc = G := by rw [hm]; rfl
  have hsp' : spawned G (if k + 1 = G then MPc.exited else MPc.hold k) = G := by split <;> rfl
  have hap' : applied G (if k + 1 = G then MPc.exited else MPc.hold k) = G := by split <;> rfl
  refine ⟨I.wle, ?_, I.writes, ?_, ?_, ?_, ?_⟩
  · show mpcOK G (if k + 1 = G then MPc.exited else MPc.hold k)
    split <;> trivial
  · intro g'
    show s.links g' = decide (g' < applied G (if k + 1 = G then MPc.exited else MPc.hold k))
    rw [hap', I.links g', hap]
  · intro k0 hk0
    show k0 < w ∧ k0 < applied G (if k + 1 = G then MPc.exited else MPc.hold k)
    have := I.purges k0 hk0
    rw [hap']; rw [hap] at this; exact this
  · intro g'
    show upd s.wpc b pb g' = expected (spawned G (if k + 1 = G then MPc.exited else MPc.hold k)) w none g'
    rw [hsp']
    by_cases e : g' = b
    · subst e; simp only [upd, if_true]; exact hpb.symm
    · simp only [upd, e, if_false]
      rw [I.wpc g', hsp, expected_off e]
  · show holderOK G (if k + 1 = G then MPc.exited else MPc.hold k) w none
    have := I.wle
    split
    · exact Or.inr (Or.inl ⟨rfl, by omega⟩)
    · exact Or.inr (Or.inr ⟨k, rfl, hk, by omega⟩)

theorem inv_mrecv {G : Nat} {s s' : State} {k : Nat} {c : Sender} (hI : Inv G s)
    (h : step G s (.mrecv k c) = some s') : Inv G s' := by
  obtain ⟨w, hd, I⟩ := hI
  simp only [step] at h
  split at h
  · rename_i hm
    have hsp : spawned G s.mpc = G := by rw [hm]; rfl
    split at h
    · rename_i s1 heq
      cases h
      cases c with
      | own =>
        simp only [takeFrom] at heq
        split at heq
        · rename_i hc'
          cases heq
          have := holder_of_active I hc'.2 trivial
          subst this
          obtain ⟨h1, _, h3⟩ := I.hok
          have h3' : k + 1 = w := h3
          rw [hsp] at h1
          exact ⟨w, _, inv_main_take I hm h3' (expected_none_done h1 (by omega))⟩
        · cases heq
      | bouncer b =>
        simp only [takeFrom] at heq
        split at heq
        · rename_i hc'
          cases heq
          have := holder_of_active I hc'.2 trivial
          subst this
          obtain ⟨h1, _, h3⟩ := I.hok
          obtain ⟨h3a, h3b⟩ := h3
          rw [hsp] at h1
          exact ⟨w, _, inv_main_take I hm h3a (expected_none_waiting h1 (by omega))⟩
        · cases heq
      | main =>
        simp only [takeFrom] at heq
        split at heq
        · rename_i hm'
          rw [hm] at hm'; cases hm'
        · cases heq
    · cases h
  · cases h

theorem inv_spawn {G : Nat} {s s' : State} {g : Nat} (hI : Inv G s) (h : step G s (.spawn g) = some s') : Inv G s' := by
  obtain ⟨w, hd, I⟩ := hI
  exact ⟨_, _, (invP_spawn I h).1⟩

theorem inv_links {G : Nat} {s s' : State} {g : Nat} (hI : Inv G s) (h : step G s (.links g) = some s') : Inv G s' := by
  obtain ⟨w, hd, I⟩ := hI
  exact ⟨_, _, (invP_links I h).1⟩

theorem inv_wdone {G : Nat} {s s' : State} {g : Nat} (hI : Inv G s) (h : step G s (.wdone g) = some s') : Inv G s' := by
  obtain ⟨w, hd, I⟩ := hI
  exact ⟨_, _, (invP_wdone I h).2.2.1⟩

theorem inv_purge {G : Nat} {s s' : State} {g k : Nat} (hI : Inv G s) (h : step G s (.purge g k) = some s') : Inv G s' := by
  obtain ⟨w, hd, I⟩ := hI
  exact ⟨_, _, (invP_purge I h).2.1⟩

theorem inv_step {G : Nat} {s s' : State} {l : Label} (hI : Inv G s) (h : step G s l = some s') : Inv G s' := by
  cases l with
  | spawn g => exact inv_spawn hI h
  | links g => exact inv_links hI h
  | recv r k c => exact inv_recv hI h
  | mrecv k c => exact inv_mrecv hI h
  | purge g k => exact inv_purge hI h
  | resent g k => exact inv_resent hI h
  | wstart g => exact inv_wstart hI h
  | wdone g => exact inv_wdone hI h
  | sent g => exact inv_sent hI h

theorem reachable_inv {G : Nat} (hG : 1 ≤ G) {s : State} (h : Reachable G s) : Inv G s := by
  induction h with
  | init => exact inv_init hG
  | step _ hs ih => exact inv_step ih hs

theorem reach_inv {G : Nat} {s s' : State} (hI : Inv G s) (h : Reach G s s') : Inv G s' := by
  induction h with
  | refl => exact hI
  | step hs _ ih => exact ih (inv_step hI hs)

theorem reach_trans {G : Nat} {a b c : State} (h1 : Reach G a b) (h2 : Reach G b c) : Reach G a c := by
  induction h1 with
  | refl => exact h2
  | step hs _ ih => exact Reach.step hs (ih h2)

theorem reachable_reach {G : Nat} {s s' : State} (hs : Reachable G s) (h : Reach G s s') : Reachable G s' := by
  induction h with
  | refl => exact hs
  | step h1 _ ih => exact ih (Reachable.step hs h1)

/-! ### consequences of the invariant -/

theorem pcOK_active {G w h : Nat} {p : WPc} (hp : pcOK G w h p) : active p := by
  cases p <;> simp [pcOK] at hp <;> trivial

theorem exited_terminal {G : Nat} {s : State} (hI : Inv G s) (hm : s.mpc = .exited) : terminal G s = true := by
  obtain ⟨w, hd, I⟩ := hI
  have hok := I.hok
  have hsp : spawned G s.mpc = G := by rw [hm]; rfl
  have hap : applied G s.mpc = G := by rw [hm]; rfl
  cases hd with
  | some hp =>
    obtain ⟨h0, p0⟩ := hp
    exact absurd hm hok.2.1.1
  | none =>
    rcases hok with ⟨h1, h2⟩ | ⟨_, h2⟩ | ⟨k, h1, _⟩
    · -- G = 0
      rw [hm] at h1; cases h1
    · subst h2
      simp only [terminal, hm, decide_true, Bool.true_and, List.all_eq_true, List.mem_range]
      intro g hg
      rw [I.wpc g, I.writes g, I.links g, hsp, hap]
      simp [expected, hg]
    · rw [hm] at h1; cases h1

/-- progress measure: remaining main-loop steps + 10 per unwritten generation + stage of the baton -/
def mainRem (G : Nat) : MPc → Nat
  | .run i => 2 * (G - i)
  | .links i => 2 * (G - i) - 1
  | _ => 0

def stage (w : Nat) : Option (Nat × WPc) → Nat
  | some (_, .ready) => 5
  | some (_, .writing) => 4
  | some (_, .wrote) => 9
  | some (_, .sending) => 8
  | some (h, .got _) => if h = w then 6 else 9
  | some (_, .bounce _) => 8
  | some (_, .resend _) => 7
  | some (_, _) => 0
  | none => 7

def rank (G : Nat) (m : MPc) (w : Nat) (hd : Option (Nat × WPc)) : Nat := mainRem G m + 10 * (G - w) + stage w hd

theorem invP_recv_main {G : Nat} {s : State} {w r k : Nat} (I : InvP G s w none) (hm : s.mpc = .hold k)
    (hr : s.wpc r = .waiting) :
    InvP G { s with mpc := .final, wpc := upd s.wpc r (.got k) } w (some (r, .got k)) := by
  have hsp : spawned G s.mpc = G := by rw [hm]; rfl
  have hap : applied G s.mpc = G := by rw [hm]; rfl
  have hw := I.wpc r
  rw [hr] at hw
  obtain ⟨r1, r2, _⟩ := expected_waiting I.hok hw.symm
  rw [hsp] at r1
  have hk : k + 1 = w := by
    rcases I.hok with ⟨h1, _⟩ | ⟨h1, _⟩ | ⟨k', h1, h2, _⟩
    · rw [hm] at h1; cases h1
    · rw [hm] at h1; cases h1
    · rw [hm] at h1; cases h1; exact h2
  refine ⟨I.wle, trivial, I.writes, ?_, ?_, ?_, ⟨r1, mainFree_final, ⟨hk, r2⟩⟩⟩
  · intro g'; show s.links g' = decide (g' < G); rw [I.links g', hap]
  · intro k0 hk0; have := I.purges k0 hk0; rw [hap] at this; exact this
  · intro g'
    show upd s.wpc r (.got k) g' = expected G w (some (r, .got k)) g'
    by_cases e : g' = r
    · subst e; simp only [upd, if_true]; exact (expected_self r1).symm
    · simp only [upd, e, if_false]
      rw [I.wpc g', hsp, expected_off e]

/-- progress when a writer holds the baton and the main goroutine is in its final wait loop -/
theorem progress_holder {G : Nat} {s : State} {w h : Nat} {p : WPc} (I : InvP G s w (some (h, p)))
    (hm : s.mpc = .final) :
    ∃ l s' w' hd', step G s l = some s' ∧ InvP G s' w' hd' ∧ rank G s'.mpc w' hd' < rank G s.mpc w (some (h, p)) := by
  have hsp : spawned G s.mpc = G := by rw [hm]; rfl
  obtain ⟨h1, h2, h3⟩ := I.hok
  rw [hsp] at h1
  have hself : s.wpc h = p := by rw [I.wpc h, hsp]; exact expected_self h1
  have hwle := I.wle
  cases p with
  | notSpawned => exact h3.elim
  | waiting => exact h3.elim
  | done => exact h3.elim
  | ready =>
    have hst : step G s (.wstart h) = some { s with wpc := upd s.wpc h .writing } := by simp [step, h1, hself]
    exact ⟨_, _, _, _, hst, inv_local I (p' := .writing) h3, by simp [rank, stage]⟩
  | writing =>
    have hst : step G s (.wdone h) = some { s with wpc := upd s.wpc h .wrote, writes := upd s.writes h (s.writes h + 1) } := by
      simp [step, h1, hself]
    obtain ⟨_, _, J, hm'⟩ := invP_wdone I hst
    refine ⟨_, _, _, _, hst, J, ?_⟩
    obtain ⟨e, hwG⟩ := h3
    rw [hm']
    simp [rank, stage]; omega
  | wrote =>
    have hst : step G s (.sent h) = some { s with wpc := upd s.wpc h .sending } := by simp [step, h1, hself]
    exact ⟨_, _, _, _, hst, inv_local I (p' := .sending) h3, by simp [rank, stage]⟩
  | bounce k =>
    have hst : step G s (.resent h k) = some { s with wpc := upd s.wpc h (.resend k) } := by simp [step, h1, hself]
    exact ⟨_, _, _, _, hst, inv_local I (p' := .resend k) h3, by simp [rank, stage]⟩
  | got k =>
    have hst : step G s (.purge h k) = some { s with purges := upd s.purges k (s.purges k + 1), wpc := upd s.wpc h (if k + 1 = h then .ready else .bounce k) } := by
      simp [step, h1, hself]
    obtain ⟨_, J, hm'⟩ := invP_purge I hst
    refine ⟨_, _, _, _, hst, J, ?_⟩
    obtain ⟨e, hwh⟩ := h3
    rw [hm']
    by_cases e2 : k + 1 = h
    · have : h = w := by omega
      simp [rank, stage, e2, this]
    · have : ¬ h = w := by omega
      simp [rank, stage, e2, this]
  | sending =>
    have hk : h + 1 = w := h3
    by_cases hwG : w < G
    · have hr : s.wpc w = .waiting := by
        rw [I.wpc w, hsp]; exact expected_at_w hwG (fun h' p' e => by cases e; omega)
      have hst : step G s (.recv w h .own) = some { s with wpc := upd (upd s.wpc h .done) w (.got h) } := by
        simp [step, takeFrom, h1, hself, hwG, hr]
      have J := inv_handover I hr hk (expected_none_done (by rw [hsp]; exact h1) (by omega))
      exact ⟨_, _, _, _, hst, J, by simp [rank, stage]⟩
    · have hst : step G s (.mrecv h .own) = some { s with wpc := upd s.wpc h .done, mpc := if h + 1 = G then .exited else .hold h } := by
        simp [step, takeFrom, h1, hself, hm]
      have J := inv_main_take I hm hk (expected_none_done h1 (by omega))
      refine ⟨_, _, _, _, hst, J, ?_⟩
      have : h + 1 = G := by omega
      simp [rank, stage, mainRem, this, hm]
  | resend k =>
    obtain ⟨hk, hwh⟩ := h3
    have hwG : w < G := by omega
    have hr : s.wpc w = .waiting := by
      rw [I.wpc w, hsp]; exact expected_at_w hwG (fun h' p' e => by cases e; omega)
    have hst : step G s (.recv w k (.bouncer h)) = some { s with wpc := upd (upd s.wpc h .waiting) w (.got k) } := by
      simp [step, takeFrom, h1, hself, hwG, hr]
    have J := inv_handover I hr hk (expected_none_waiting (by rw [hsp]; exact h1) (by omega))
    exact ⟨_, _, _, _, hst, J, by simp [rank, stage]⟩

/-- **progress**: from every state that satisfies the invariant and in which the main goroutine has not exited, some
transition is enabled that preserves the invariant and strictly decreases the measure -/
theorem progress {G : Nat} {s : State} {w : Nat} {hd : Option (Nat × WPc)} (I : InvP G s w hd)
    (hne : s.mpc ≠ .exited) :
    ∃ l s' w' hd', step G s l = some s' ∧ InvP G s' w' hd' ∧ rank G s'.mpc w' hd' < rank G s.mpc w hd := by
  have hwle := I.wle
  have hwsp := w_le_spawned I
  have hspG := spawned_le G I.mok
  -- main loop first
  cases hm : s.mpc with
  | run i =>
    have hi : i < G := by have := I.mok; rw [hm] at this; exact this
    have hn : s.wpc i = .notSpawned := by
      rw [I.wpc i, hm]; simp [expected, spawned]
    have hst : step G s (.spawn i) = some { s with mpc := .links i, wpc := upd s.wpc i (if i = 0 then .ready else .waiting) } := by
      simp [step, hm, hi, hn]
    obtain ⟨J, _, hm'⟩ := invP_spawn I hst
    refine ⟨_, _, _, _, hst, J, ?_⟩
    rw [hm']
    by_cases h0 : i = 0
    · subst h0
      have : hd = none := by
        cases hd with
        | none => rfl
        | some hp => obtain ⟨h', p'⟩ := hp; have := I.hok.1; rw [hm] at this; simp [spawned] at this
      subst this
      simp [rank, mainRem, stage]; omega
    · simp [rank, mainRem, h0]; omega
  | links i =>
    have hi : i < G := by have := I.mok; rw [hm] at this; exact this
    have hst : step G s (.links i) = some { s with links := upd s.links i true, mpc := if i + 1 < G then .run (i + 1) else .final } := by
      simp [step, hm]
    obtain ⟨J, _, hm'⟩ := invP_links I hst
    refine ⟨_, _, _, _, hst, J, ?_⟩
    rw [hm']
    by_cases h1 : i + 1 < G
    · simp [rank, mainRem, h1]; omega
    · simp [rank, mainRem, h1]; omega
  | exited => exact absurd hm hne
  | final =>
    have hsp : spawned G s.mpc = G := by rw [hm]; rfl
    cases hd with
    | none =>
      rcases I.hok with ⟨h1, _⟩ | ⟨h1, _⟩ | ⟨k, h1, _⟩
      · rw [hm] at h1; cases h1
      · rw [hm] at h1; cases h1
      · rw [hm] at h1; cases h1
    | some hp =>
      obtain ⟨h, p⟩ := hp
      have := progress_holder I hm
      rw [hm] at this; exact this
  | hold k =>
    have hsp : spawned G s.mpc = G := by rw [hm]; rfl
    cases hd with
    | some hp => obtain ⟨h, p⟩ := hp; exact absurd hm (I.hok.2.1.2 k)
    | none =>
      have hkw : k + 1 = w ∧ w < G := by
        rcases I.hok with ⟨h1, _⟩ | ⟨h1, _⟩ | ⟨k', h1, h2, h3⟩
        · rw [hm] at h1; cases h1
        · rw [hm] at h1; cases h1
        · rw [hm] at h1; cases h1; exact ⟨h2, h3⟩
      have hr : s.wpc w = .waiting := by
        rw [I.wpc w, hsp]; exact expected_at_w hkw.2 (fun h p e => by cases e)
      have hst : step G s (.recv w k .main) = some { s with mpc := .final, wpc := upd s.wpc w (.got k) } := by
        simp [step, takeFrom, hm, hkw.2, hr]
      have J := invP_recv_main I hm hr
      refine ⟨_, _, _, _, hst, J, ?_⟩
      simp [rank, mainRem, stage]

theorem reach_exit {G : Nat} : ∀ (n : Nat) (s : State) (w : Nat) (hd : Option (Nat × WPc)), InvP G s w hd →
    rank G s.mpc w hd ≤ n → ∃ s', Reach G s s' ∧ s'.mpc = .exited := by
  intro n
  induction n with
  | zero =>
    intro s w hd I hr
    by_cases hm : s.mpc = .exited
    · exact ⟨s, Reach.refl s, hm⟩
    · obtain ⟨l, s', w', hd', _, _, hlt⟩ := progress I hm
      omega
  | succ n ih =>
    intro s w hd I hr
    by_cases hm : s.mpc = .exited
    · exact ⟨s, Reach.refl s, hm⟩
    · obtain ⟨l, s', w', hd', hst, J, hlt⟩ := progress I hm
      obtain ⟨s'', hre, he⟩ := ih s' w' hd' J (by omega)
      exact ⟨s'', Reach.step hst hre, he⟩

end OW.Sim.Writer
