import OW.Proofs.StorageRouting
import OW.Proofs.FindRootStall
import Mathlib.Tactic.IntervalCases
/-!
A concrete member of the StorageRouting family on which the root search of `calcOutflow` does not converge in its 20 iterations
(exact arithmetic): zero inflow bias, routing constant k = 10⁶, routing power m = 0.05, no evaporation, no dead storage,
Δt = 86400 s; 1000 m³ in the reach, no inflow.

Residual function on (0, ∞): `f q = 86400·q + 10⁶·q^0.05 − 1000`, `f 0 = −1000`; bracket `[0, 1000/86400]`; the root is
`q* ≈ 10⁻⁶⁰`. Certificate for `OW.Proofs.FindRoot.stalled_findRoot`: `δ n = (9/10)^(20·j n)` with
`j = 3, 7, 10, 13, 16, 19, 22, 25, 28, 30, 32, 34, 36, 38, 40, 42, 44, 46, 47, 48, 49` (so `δ n ^ 0.05 = (9/10)^(j n)` is rational).
-/
namespace OW.Proofs.StorageRouting
open OW OW.Lits OW.Kernels.StorageRouting OW.Fn OW.Proofs.FindRoot

attribute [-simp] OW.RealNum.ofNat_eq

/-- the `Ctx` of the call `calcOutflow 0 0 0 _ _ 1000 0 0 0 86400 0.05 10⁶ 0 10⁶ 0` -/
noncomputable def cStall : Ctx ℝ :=
  ⟨0, 0, 1000 / 86400, 1000, 0, 0, 0, 86400, 0, 0.05, 1000000, 0, 1000000, 0⟩

theorem mkCtx_stall : mkCtx (0:ℝ) 0 0 1000 0 0 0 86400 0.05 1000000 0 1000000 0 = cStall := by
  unfold mkCtx cStall
  simp only [RealNum.gmax_eq, z0]
  congr 1
  rw [max_eq_right (by norm_num : (0:ℝ) ≤ 1000)]
  norm_num

theorem nef_stall : netEvaporationFlux cStall = 0 := by
  rw [nef_eq]
  show min ((1000:ℝ) / 86400) (0 * 0) = 0
  rw [mul_zero]
  exact min_eq_right (by norm_num)

theorem newStorage_stall : newStorage cStall = 1000 := by
  rw [newStorage_eq, nef_stall]
  show max ((1000:ℝ) + (0 + 0 - 0) * 86400) 0 = 1000
  norm_num

theorem sIndex_stall_pos (q : ℝ) (hq : 0 < q) : sIndex cStall q = 1000000 * q ^ (0.05 : ℝ) := by
  rw [sIndex_eq]
  show (if q ≤ 0 then (0:ℝ) else if ((0.05:ℝ) ≤ 1 ∧ q < 0) ∨ (1 < (0.05:ℝ) ∧ 0 < q) then 1000000 * q + 0
    else 1000000 * q ^ (0.05:ℝ) - 0 + 0) = _
  rw [if_neg (not_le.mpr hq), if_neg]
  · ring
  · rintro (⟨_, h⟩ | ⟨h, _⟩)
    · linarith
    · norm_num at h

theorem sIndex_stall_zero : sIndex cStall 0 = 0 := by
  rw [sIndex_eq]
  show (if (0:ℝ) ≤ 0 then (0:ℝ) else _) = 0
  rw [if_pos (le_refl _)]

theorem bias_stall : cStall.bias < 0.999 := by
  show (0:ℝ) < 0.999
  norm_num

/-- the residual function of the call in closed form -/
theorem fStall_pos (q : ℝ) (hq : 0 < q) : massBalanceFn cStall q = 86400 * q + 1000000 * q ^ (0.05 : ℝ) - 1000 := by
  rw [massBalanceFn_real, rr_massBalance _ _ bias_stall, sIndex_stall_pos q hq, newStorage_stall]
  show (q - 0 * (0 + 0)) * 86400 / (1 - 0) + 1000000 * q ^ (0.05:ℝ) - 1000 = _
  ring

theorem fStall_zero : massBalanceFn cStall 0 = -1000 := by
  rw [massBalanceFn_real, rr_massBalance _ _ bias_stall, sIndex_stall_zero, newStorage_stall]
  show ((0:ℝ) - 0 * (0 + 0)) * 86400 / (1 - 0) + 0 - 1000 = _
  ring

theorem slope_stall_zero : slopeOfMassBalance cStall 0 = 86400 := by
  unfold slopeOfMassBalance linearZone
  simp only [o1, lit0]
  show (if ((0.05:ℝ) ≤ 1 ∧ (0:ℝ) < 0) ∨ (1 < (0.05:ℝ) ∧ (0:ℝ) < 0) then (86400:ℝ) / (1 - 0) + 1000000
    else if (0:ℝ) < 0 then _ else (86400:ℝ) / (1 - 0)) = 86400
  rw [if_neg, if_neg (lt_irrefl _)]
  · norm_num
  · rintro (⟨_, h⟩ | ⟨_, h⟩) <;> exact lt_irrefl _ h

/-- the exponents of the certificate -/
def jStall : Nat → Nat := fun n =>
  [3, 7, 10, 13, 16, 19, 22, 25, 28, 30, 32, 34, 36, 38, 40, 42, 44, 46, 47, 48, 49].getD n 49

noncomputable def δStall (n : Nat) : ℝ := ((9:ℝ) / 10) ^ (20 * jStall n)

/-- `(r^(20 j))^0.05 = r^j` -/
theorem grid_rpow (r : ℝ) (hr : 0 ≤ r) (j : Nat) : (r ^ (20 * j)) ^ (0.05 : ℝ) = r ^ j := by
  rw [← Real.rpow_natCast r (20 * j), ← Real.rpow_mul hr, ← Real.rpow_natCast r j]
  congr 1
  push_cast
  ring

/-- `t^0.05` from below and above on `t ≥ a > 0`: `a^0.05 ≤ t^0.05 ≤ a^0.05 · t / a` -/
theorem rpow_small_bounds {a t : ℝ} (ha : 0 < a) (hat : a ≤ t) :
    a ^ (0.05 : ℝ) ≤ t ^ (0.05 : ℝ) ∧ t ^ (0.05 : ℝ) ≤ a ^ (0.05 : ℝ) * (t / a) := by
  constructor
  · exact Real.rpow_le_rpow ha.le hat (by norm_num)
  · have h1 : 1 ≤ t / a := by rw [le_div_iff₀ ha]; linarith
    have h2 : (t / a) ^ (0.05 : ℝ) ≤ (t / a) ^ (1 : ℝ) :=
      Real.rpow_le_rpow_of_exponent_le h1 (by norm_num)
    rw [Real.rpow_one] at h2
    have h3 : t = a * (t / a) := by field_simp
    calc t ^ (0.05 : ℝ) = (a * (t / a)) ^ (0.05 : ℝ) := by rw [← h3]
      _ = a ^ (0.05 : ℝ) * (t / a) ^ (0.05 : ℝ) := Real.mul_rpow ha.le (by positivity)
      _ ≤ a ^ (0.05 : ℝ) * (t / a) := mul_le_mul_of_nonneg_left h2 (Real.rpow_nonneg ha.le _)

/-- one step of the certificate from grid exponent `j` to `j'`, reduced to two rational inequalities -/
theorem stall_shrink (j j' : Nat)
    (h1 : ((9:ℝ) / 10) ^ (20 * j') ≤ ((9:ℝ) / 10) ^ (20 * j) / 2)
    (h2 : ((9:ℝ) / 10) ^ (20 * j') * (86400 + 1000000 * ((9:ℝ) / 10) ^ j / ((9:ℝ) / 10) ^ (20 * j)) ≤ 1000)
    (t : ℝ) (ht : ((9:ℝ) / 10) ^ (20 * j) ≤ t) :
    ((9:ℝ) / 10) ^ (20 * j') ≤ t / 2 ∧
      ((9:ℝ) / 10) ^ (20 * j') ≤ t * 1000 / (massBalanceFn cStall t + 1000) := by
  have ha : (0:ℝ) < ((9:ℝ) / 10) ^ (20 * j) := by positivity
  have htpos : 0 < t := lt_of_lt_of_le ha ht
  obtain ⟨_, hub⟩ := rpow_small_bounds ha ht
  rw [grid_rpow _ (by norm_num) j] at hub
  refine ⟨by linarith, ?_⟩
  rw [fStall_pos t htpos]
  have hpw : 0 < t ^ (0.05 : ℝ) := Real.rpow_pos_of_pos htpos _
  have hden : 0 < 86400 * t + 1000000 * t ^ (0.05 : ℝ) - 1000 + 1000 := by nlinarith
  rw [le_div_iff₀ hden]
  have hd' : (0:ℝ) < ((9:ℝ) / 10) ^ (20 * j') := by positivity
  -- δ'·(86400 t + 10⁶ t^0.05) ≤ δ'·t·(86400 + 10⁶ r^j / a) ≤ 1000 t
  have e1 : 86400 * t + 1000000 * t ^ (0.05 : ℝ) - 1000 + 1000
      ≤ t * (86400 + 1000000 * ((9:ℝ) / 10) ^ j / ((9:ℝ) / 10) ^ (20 * j)) := by
    have e2 : ((9:ℝ) / 10) ^ j * (t / ((9:ℝ) / 10) ^ (20 * j)) = t * (((9:ℝ) / 10) ^ j / ((9:ℝ) / 10) ^ (20 * j)) := by
      ring
    have e3 : 1000000 * ((9:ℝ) / 10) ^ j / ((9:ℝ) / 10) ^ (20 * j)
        = 1000000 * (((9:ℝ) / 10) ^ j / ((9:ℝ) / 10) ^ (20 * j)) := by ring
    rw [e2] at hub
    rw [e3]
    generalize ((9:ℝ) / 10) ^ j / ((9:ℝ) / 10) ^ (20 * j) = X at hub ⊢
    linarith
  calc ((9:ℝ) / 10) ^ (20 * j') * (86400 * t + 1000000 * t ^ (0.05 : ℝ) - 1000 + 1000)
      ≤ ((9:ℝ) / 10) ^ (20 * j') * (t * (86400 + 1000000 * ((9:ℝ) / 10) ^ j / ((9:ℝ) / 10) ^ (20 * j))) :=
        mul_le_mul_of_nonneg_left e1 hd'.le
    _ = t * (((9:ℝ) / 10) ^ (20 * j') * (86400 + 1000000 * ((9:ℝ) / 10) ^ j / ((9:ℝ) / 10) ^ (20 * j))) := by ring
    _ ≤ t * 1000 := mul_le_mul_of_nonneg_left h2 htpos.le

/-- the residual is at least 1000 m³ at every point at or above a grid point with exponent `j ≤ 49` -/
theorem stall_big (j : Nat) (hj : j ≤ 49) (t : ℝ) (ht : ((9:ℝ) / 10) ^ (20 * j) ≤ t) :
    (1000:ℝ) ≤ massBalanceFn cStall t := by
  have ha : (0:ℝ) < ((9:ℝ) / 10) ^ (20 * j) := by positivity
  have htpos : 0 < t := lt_of_lt_of_le ha ht
  obtain ⟨hlb, _⟩ := rpow_small_bounds ha ht
  rw [grid_rpow _ (by norm_num) j] at hlb
  rw [fStall_pos t htpos]
  have h49 : ((9:ℝ) / 10) ^ 49 ≤ ((9:ℝ) / 10) ^ j :=
    pow_le_pow_of_le_one (by norm_num) (by norm_num) hj
  have : (0.002:ℝ) ≤ ((9:ℝ) / 10) ^ 49 := by norm_num
  nlinarith

theorem jStall_le (n : Nat) : jStall n ≤ 49 := by
  unfold jStall
  rw [List.getD_eq_getElem?_getD]
  cases h : ([3, 7, 10, 13, 16, 19, 22, 25, 28, 30, 32, 34, 36, 38, 40, 42, 44, 46, 47, 48, 49] : List Nat)[n]? with
  | none => simp
  | some x =>
    have hm := List.mem_of_getElem? h
    simp only [Option.getD_some]
    simp only [List.mem_cons, List.not_mem_nil, or_false] at hm
    omega

set_option exponentiation.threshold 2000 in
/-- the certificate of non-convergence for the call -/
theorem stall_cert :
    Cert (massBalanceFn cStall) (slopeOfMassBalance cStall) massBalanceLimit convergenceLimit 1000 (1000 / 86400)
      maxIterations δStall where
  tol_pos := mbl_pos
  tol_le := by rw [mbl_eq]; norm_num
  conv := le_of_eq conv_eq
  pos := fun n _ => by unfold δStall; positivity
  shrink := by
    intro n hn t ht _
    unfold maxIterations at hn
    unfold δStall at ht ⊢
    apply stall_shrink (jStall n) (jStall (n + 1)) _ _ t ht
    all_goals (interval_cases n <;> (simp only [jStall, List.getD_cons_succ, List.getD_cons_zero]; norm_num))
  big := by
    intro n _ t ht _
    unfold δStall at ht
    exact stall_big (jStall n) (jStall_le n) t ht
  newton := by
    right
    rw [slope_stall_zero]

theorem δStall_zero_le : δStall 0 ≤ 1000 / 86400 := by
  unfold δStall jStall
  simp only [List.getD_cons_zero]
  norm_num

/-- **FindRoot on this call**: all 20 iterations are used and the lower end `q = 0` is returned with residual −1000 m³ -/
theorem findRoot_stall :
    ∃ fr, findRoot (massBalanceFn cStall) (some (slopeOfMassBalance cStall)) 0 0 (1000 / 86400) massBalanceLimit
        convergenceLimit maxIterations = .ok fr ∧ fr.exit = .fuel ∧ fr.x = 0 ∧ fr.delta = -1000 :=
  stalled_findRoot stall_cert fStall_zero δStall_zero_le

theorem maxQI_stall : maxQI cStall 0 = 1000 / 86400 := by
  unfold maxQI
  rw [nef_stall]
  simp only [RealNum.gmax_eq, z0, o1]
  show (0:ℝ) + (1 - 0) * max 0 (1000 / 86400 - 0 + 0) = 1000 / 86400
  rw [max_eq_right (by norm_num)]
  ring

theorem fStall_ge_of_ge (t : ℝ) (ht : (1:ℝ) / 500 ≤ t) : (1000:ℝ) ≤ massBalanceFn cStall t := by
  apply stall_big 3 (by norm_num) t
  refine le_trans ?_ ht
  norm_num

/-- `solve` on the call: neither end of `[0, 1000/86400]` nor its midpoint is accepted, FindRoot stalls, and the step reports
the values of the LOWER END `q = 0`: the whole 1000 m³ leaves the reach (outflow 1000/86400 m³/s, storage 0) -/
theorem solve_stall : solve cStall 0 0 (1000 / 86400) = .ok ⟨0, 1000 / 86400, 0, "root"⟩ := by
  obtain ⟨fr, hfr, _, hx, hd⟩ := findRoot_stall
  have hmx : (1000:ℝ) ≤ (rr cStall (1000 / 86400)).massBalance := by
    rw [← massBalanceFn_real]; exact fStall_ge_of_ge _ (by norm_num)
  have hmid : (1000:ℝ) ≤ (rr cStall ((0 + 1000 / 86400) * 0.5)).massBalance := by
    rw [← massBalanceFn_real]; exact fStall_ge_of_ge _ (by norm_num)
  have hlim : (massBalanceLimit : ℝ) < 1000 := by rw [mbl_eq]; norm_num
  unfold solve
  simp only [runRouting_real, RealNum.isNaN_eq, RealNum.abs_eq]
  rw [if_neg (by linarith)]
  rw [decide_eq_true (le_refl (0:ℝ))]
  simp only [Bool.true_or, if_true]
  rw [if_neg (by rw [abs_of_nonneg (by linarith)]; linarith)]
  simp only [hfr, List.any_eq_true, Bool.false_eq_true, and_false, exists_false, if_false]
  rw [hx]
  have ho : (rr cStall 0).outflow = 1000 / 86400 := by
    rw [rr_outflow, newStorage_stall, sIndex_stall_zero]
    show max (0:ℝ) (1000 - 0) / 86400 = _
    rw [max_eq_right (by norm_num)]
    norm_num
  have hs : (rr cStall 0).sIndex = 0 := by rw [rr_sIndex, sIndex_stall_zero]
  rw [ho, hs]

/-- the whole call `calcOutflow` (first timestep of a run: carried index flow 0) -/
theorem calcOutflow_stall (po : ℝ) :
    calcOutflow (0:ℝ) 0 0 0 po 1000 0 0 0 86400 0.05 1000000 0 1000000 0 = .ok ⟨0, 1000 / 86400, 0, "root"⟩ := by
  have hmin : (rr cStall 0).massBalance = -1000 := by rw [← massBalanceFn_real]; exact fStall_zero
  have hlim : (massBalanceLimit : ℝ) = 1 / 1000 := mbl_eq
  unfold calcOutflow
  simp only [mkCtx_stall, runRouting_real, RealNum.isNaN_eq, Bool.or_self, Bool.false_eq_true, if_false]
  have e0 : (0:ℝ) * (0 + 0) = 0 := by ring
  rw [e0, hmin, maxQI_stall]
  rw [if_neg (by rw [hlim]; norm_num), if_neg (by rw [hlim]; norm_num), if_neg (by norm_num)]
  exact solve_stall

end OW.Proofs.StorageRouting
