import OW.Proofs.NdGeo
/-!
Helper lemmas for C01 (slices are live strided views; exact write footprints).

* the affine identity behind `slice_index`; chains of nested slices (`Chain`, `sliceChain`, `chainIndex`);
* heaps pointwise: `cell h sid pos`, `SameShape`, `setStore` lemmas;
* `ArrOK h a`: the window conditions on an array (its `Impl` window lies inside an existing storage and is large
  enough for the allocated shape), established by the constructors and preserved by every operation;
* closed forms of `get` / `set` for reachable arrays.
-/
namespace OW.Nd

/-! ### slice algebra -/

theorem mulL_comm : ∀ (a b : Idx), mulL a b = mulL b a
  | [], b => by simp
  | _ :: _, [] => by simp
  | a :: as, b :: bs => by simp [mulL_comm as bs, Int.mul_comm]

theorem stepOr_length_of_ok {pd loc dims : Idx} {n : Nat} {step : Option Idx}
    (ok : SliceOK pd loc dims (stepOr n step)) : (stepOr n step).length = pd.length := ok.lengths.2.2

/-- the view produced by an in-bounds slice of a `Geo` view, with the affine identity for its addresses:
for EVERY index `i` of the slice's rank (in bounds or not) `Index_w(i) = Index_v(loc + i ⊙ step)`. -/
theorem sliceInto_index {v w : View} {loc dims : Idx} {step : Option Idx} (g : Geo v)
    (ok : SliceOK v.dims loc dims (stepOr v.dims.length step))
    (h : v.sliceInto loc dims step = .ok w) (i : Idx) (hi : i.length = dims.length) :
    w.index i = v.index (affine loc i (stepOr v.dims.length step)) := by
  obtain ⟨hl, hd, hs⟩ := ok.lengths
  have gw : Geo w := geo_slice g ok h
  rw [sliceInto_eq g loc dims step hl hs] at h
  injection h with h
  subst h
  have hi' : i.length = loc.length := by rw [hi, hd, hl]
  have hs' : (stepOr v.dims.length step).length = loc.length := by rw [hs, hl]
  rw [index_eq gw i (by show i.length ≤ dims.length; omega),
    index_eq g _ (by rw [affine_length loc i _ hi' hs', hl]),
    dot_affine loc i _ _ hi' hs' (by
      rw [mulL_length _ _ (by rw [g.rank_step, g.rank_offset]), g.rank_step, hl])]
  show Except.ok (v.start + dot loc v.offStep +
      dot i (mulL (mulL v.step (stepOr v.dims.length step)) v.offset)) = _
  rw [g.offStep_eq, mulL_comm v.step (stepOr v.dims.length step), ← mulL_assoc, Int.add_assoc]

/-! ### chains of nested slices -/

/-- one slice request `(loc, dims, step)`; `step = none` is Go's `nil` (all ones) -/
abbrev SliceReq := Idx × Idx × Option Idx

/-- apply a list of slice requests, outermost first -/
def sliceChain (v : View) : List SliceReq → R View
  | [] => .ok v
  | (loc, dims, step) :: rest => do
    let w ← v.sliceInto loc dims step
    sliceChain w rest

/-- every request of the chain is in bounds for the view it is applied to (`pdims` = extents of the first parent) -/
def ChainOK : Idx → List SliceReq → Prop
  | _, [] => True
  | pdims, (loc, dims, step) :: rest => SliceOK pdims loc dims (stepOr pdims.length step) ∧ ChainOK dims rest

/-- the composed affine index map of a chain: index `i` of the innermost view ↦ index of the outermost parent -/
def chainIndex (n : Nat) : List SliceReq → Idx → Idx
  | [], i => i
  | (loc, _, step) :: rest, i => affine loc (chainIndex n rest i) (stepOr n step)

/-- extents of the innermost view of a chain starting from extents `pdims` -/
def chainDims : Idx → List SliceReq → Idx
  | pdims, [] => pdims
  | _, (_, dims, _) :: rest => chainDims dims rest

theorem chainDims_length : ∀ (pdims : Idx) (c : List SliceReq), ChainOK pdims c →
    (chainDims pdims c).length = pdims.length
  | _, [], _ => rfl
  | pdims, (loc, dims, step) :: rest, h => by
    obtain ⟨h1, h2⟩ := h
    simp only [chainDims]
    rw [chainDims_length dims rest h2, h1.lengths.2.1]

theorem chainIndex_length : ∀ (pdims : Idx) (c : List SliceReq) (i : Idx), ChainOK pdims c →
    i.length = pdims.length → (chainIndex pdims.length c i).length = pdims.length
  | _, [], _, _, hi => hi
  | pdims, (loc, dims, step) :: rest, i, h, hi => by
    obtain ⟨h1, h2⟩ := h
    obtain ⟨hl, hd, hs⟩ := h1.lengths
    simp only [chainIndex]
    have ih := chainIndex_length dims rest i h2 (by omega)
    rw [hd] at ih
    rw [affine_length loc _ _ (by omega) (by omega), hl]

theorem chainIndex_inBounds : ∀ (pdims : Idx) (c : List SliceReq) (i : Idx), ChainOK pdims c →
    InBounds i (chainDims pdims c) → InBounds (chainIndex pdims.length c i) pdims
  | _, [], _, _, hi => hi
  | pdims, (loc, dims, step) :: rest, i, h, hi => by
    obtain ⟨h1, h2⟩ := h
    simp only [chainIndex]
    have ih := chainIndex_inBounds dims rest i h2 hi
    rw [h1.lengths.2.1] at ih
    exact h1.inBounds ih

/-! ### heaps, pointwise -/

section
variable {α : Type}

/-- the element at position `pos` of storage `sid`, if both exist -/
def cell (h : Heap α) (sid pos : Nat) : Option α := (h[sid]?).bind (·[pos]?)

/-- same number of storages, each of the same length -/
def SameShape (h h' : Heap α) : Prop :=
  h'.length = h.length ∧ ∀ t : Nat, (h'[t]?).map List.length = (h[t]?).map List.length

theorem SameShape.refl (h : Heap α) : SameShape h h := ⟨rfl, fun _ => rfl⟩
theorem SameShape.trans {h1 h2 h3 : Heap α} (a : SameShape h1 h2) (b : SameShape h2 h3) : SameShape h1 h3 :=
  ⟨b.1.trans a.1, fun t => (b.2 t).trans (a.2 t)⟩

theorem SameShape.store {h h' : Heap α} (s : SameShape h h') {t : Nat} {st : List α} (e : h[t]? = some st) :
    ∃ st', h'[t]? = some st' ∧ st'.length = st.length := by
  have := s.2 t
  rw [e] at this
  cases e' : h'[t]? with
  | none => simp [e'] at this
  | some st' => exact ⟨st', rfl, by simpa [e'] using this⟩

theorem getElem?_setStore (h : Heap α) (sid pos : Nat) (x : α) (t : Nat) :
    (setStore h sid pos x)[t]? = if sid = t then (h[t]?).map (fun s => s.set pos x) else h[t]? := by
  unfold setStore
  rw [List.getElem?_modify]
  by_cases e : sid = t
  · simp only [e, if_true]
    cases h[t]? <;> rfl
  · simp only [e, if_false]
    cases h[t]? <;> rfl

theorem sameShape_setStore (h : Heap α) (sid pos : Nat) (x : α) : SameShape h (setStore h sid pos x) := by
  refine ⟨by simp [setStore, List.length_modify], fun t => ?_⟩
  rw [getElem?_setStore]
  by_cases e : sid = t
  · simp only [e, if_true]
    cases h[t]? <;> simp
  · simp only [e, if_false]

/-- `setStore` changes exactly one cell (and nothing if the cell does not exist) -/
theorem cell_setStore (h : Heap α) (sid pos : Nat) (x : α) (t q : Nat) :
    cell (setStore h sid pos x) t q =
      if t = sid ∧ q = pos then (cell h t q).map (fun _ => x) else cell h t q := by
  unfold cell
  rw [getElem?_setStore]
  by_cases e : sid = t
  · subst e
    cases hs : h[sid]? with
    | none => simp
    | some s =>
      by_cases e2 : q = pos
      · subst e2
        by_cases hl : q < s.length
        · simp [hl]
        · simp [hl]
      · have e3 : ¬ pos = q := fun e => e2 e.symm
        simp [e2, e3]
  · have e' : ¬ t = sid := fun e' => e e'.symm
    simp [e, e']

/-! ### window conditions -/

/-- **Window conditions** on an array value `a` in heap `h`: its storage exists, its `Impl` window
`[base, base+len)` lies inside that storage, the window is at least as large as the allocated shape
`Π OriginalDims` (so every address of a reachable view is inside it), and — for the C back-end, whose index is
checked against the `1<<30` array type — the allocated shape is at most `1<<30`.
Holds for the results of `newArray`, `fromStore`, `fromC` (lemmas `arrOK_*`) and is preserved by `slice` and by every
heap operation (which never changes a storage's length). -/
structure ArrOK (h : Heap α) (a : Arr) : Prop where
  store : ∃ s, h[a.sid]? = some s ∧ a.base + a.len ≤ s.length
  base_nonneg : 0 ≤ a.base
  fits : product a.v.orig ≤ a.len
  cfits : a.isC = true → product a.v.orig ≤ 1073741824

theorem ArrOK.sameShape {h h' : Heap α} {a : Arr} (ok : ArrOK h a) (s : SameShape h h') : ArrOK h' a := by
  obtain ⟨st, e, hl⟩ := ok.store
  obtain ⟨st', e', hl'⟩ := s.store e
  exact ⟨⟨st', e', by omega⟩, ok.base_nonneg, ok.fits, ok.cfits⟩

theorem slice_eq {a b : Arr} {loc dims : Idx} {step : Option Idx} (h : slice a loc dims step = .ok b) :
    ∃ w, a.v.sliceInto loc dims step = .ok w ∧ b = { a with v := w } := by
  unfold slice at h
  cases e : a.v.sliceInto loc dims step with
  | error m => simp [e, bind, Except.bind] at h
  | ok w =>
    simp only [e, bind, Except.bind, pure, Except.pure] at h
    injection h with h
    exact ⟨w, rfl, h.symm⟩

theorem sliceInto_orig {v w : View} {loc dims : Idx} {step : Option Idx} (h : v.sliceInto loc dims step = .ok w) :
    w.orig = v.orig ∧ w.dims = dims := by
  unfold View.sliceInto at h
  cases e1 : dotProduct loc v.offStep with
  | error m => simp [e1, bind, Except.bind] at h
  | ok d =>
    cases step with
    | none =>
      cases e3 : multiply v.step v.offset with
      | error m => simp [e1, e3, bind, Except.bind, pure, Except.pure] at h
      | ok os =>
        simp only [e1, e3, bind, Except.bind, pure, Except.pure] at h
        injection h with h; subst h; exact ⟨rfl, rfl⟩
    | some s =>
      cases e2 : multiply v.step s with
      | error m => simp [e1, e2, bind, Except.bind] at h
      | ok st =>
        cases e3 : multiply st v.offset with
        | error m => simp [e1, e2, e3, bind, Except.bind] at h
        | ok os =>
          simp only [e1, e2, e3, bind, Except.bind, pure, Except.pure] at h
          injection h with h; subst h; exact ⟨rfl, rfl⟩

/-- `slice` keeps the storage window, so it preserves the window conditions -/
theorem ArrOK.slice {h : Heap α} {a b : Arr} {loc dims : Idx} {step : Option Idx} (ok : ArrOK h a)
    (hs : slice a loc dims step = .ok b) : ArrOK h b := by
  obtain ⟨w, hw, rfl⟩ := slice_eq hs
  have := (sliceInto_orig hw).1
  exact ⟨ok.store, ok.base_nonneg, by show product w.orig ≤ a.len; rw [this]; exact ok.fits,
    by intro hc; show product w.orig ≤ _; rw [this]; exact ok.cfits hc⟩

/-! ### element access in closed form -/

theorem toNat_lt_length {base p : Int} {n : Nat} (h0 : 0 ≤ base) (hp : 0 ≤ p) (h : base + p < n) :
    (base + p).toNat < n := by omega

/-- reading inside the window of an `ArrOK` array returns the addressed storage cell (never panics) -/
theorem readAt_eq {h : Heap α} {a : Arr} (ok : ArrOK h a) {p : Int} (h0 : 0 ≤ p) (hp : p < product a.v.orig) :
    ∃ x, cell h a.sid (a.base + p).toNat = some x ∧ readAt h a p = .ok x := by
  obtain ⟨s, e, hl⟩ := ok.store
  have hb := ok.base_nonneg
  have hf := ok.fits
  have hlt : (a.base + p).toNat < s.length := by omega
  have hx : s[(a.base + p).toNat]? = some s[(a.base + p).toNat] := List.getElem?_eq_getElem hlt
  refine ⟨s[(a.base + p).toNat], by simp [cell, e, hx], ?_⟩
  unfold readAt storeOf
  simp only [e, bind, Except.bind, pure, Except.pure]
  by_cases hc : a.isC = true
  · have := ok.cfits hc
    have c1 : 0 ≤ p ∧ p < 1073741824 := ⟨h0, by omega⟩
    have c2 : 0 ≤ a.base + p := by omega
    simp only [hc, if_true, c1, c2, and_self, hx]
  · have c1 : 0 ≤ p ∧ p < a.len := ⟨h0, by omega⟩
    simp only [hc, c1, and_self, if_true, hx]
    rfl

/-- writing inside the window of an `ArrOK` array updates exactly the addressed storage cell (never panics) -/
theorem writeAt_eq {h : Heap α} {a : Arr} (ok : ArrOK h a) {p : Int} (h0 : 0 ≤ p) (hp : p < product a.v.orig)
    (x : α) : writeAt h a p x = .ok (setStore h a.sid (a.base + p).toNat x) := by
  obtain ⟨s, e, hl⟩ := ok.store
  have hb := ok.base_nonneg
  have hf := ok.fits
  unfold writeAt storeOf
  simp only [e, bind, Except.bind, pure, Except.pure]
  by_cases hc : a.isC = true
  · have := ok.cfits hc
    have c1 : 0 ≤ p ∧ p < 1073741824 := ⟨h0, by omega⟩
    have c2 : 0 ≤ a.base + p ∧ a.base + p < s.length := ⟨by omega, by omega⟩
    simp only [hc, if_true, c1, c2, and_self]
  · have c1 : 0 ≤ p ∧ p < a.len := ⟨h0, by omega⟩
    simp only [hc, c1, and_self, if_true]
    rfl

end
end OW.Nd
