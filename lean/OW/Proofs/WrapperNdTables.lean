import OW.Sim.WrapperNdTables
import OW.Proofs.WrapperNdRefine
/-!
Helper lemmas for `OW/Props/C04NdTables.lean`: the wrapper template with one-dimensional TABLE parameters.

* `SpecWF`, `tplRows`: well-formed specs (tables refer to earlier scalars) and the template's `paramIdx` accumulation;
* `layout_go_tables`: `OW.Sim.layout` computes the template's rows;
* `entries`, `cellParams_go_tables`: closed form of the list-level parameter column;
* `decodeNd_refines`: the view-level decoding (`scalarParam` / `tableParam` + `readTable`) yields that column;
* `cellStepNdG_refines`: one cell step through the views with ANY parameter decoder that agrees with `cellParams`.
-/
namespace OW.WrapperNd
open OW OW.Nd OW.Sim OW.Sim.WrapperNd

section
variable {α : Type} [Num α]

/-! ### (i) the layout -/

/-- a spec is well formed when every table refers to an EARLIER parameter that is a scalar (its dimension parameter) -/
def SpecWF (spec : ParamSpec) : Prop := ∀ j k : Nat, spec[j]? = some (some k) → k < j ∧ spec[k]? = some none

/-- `int(parameters.Slice([row,0],[1,nSets],nil).Maximum())`: the value `FindDimensions` reads back for a dimension
parameter stored in row `row` -/
def dimMaxZ (params : List (List α)) (row : Nat) : Int :=
  match maxOf ((params[row]?).getD []) with
  | some v => Num.toInt v
  | none => 0

theorem tplRows_length (dims : Nat → Nat) : ∀ (spec : ParamSpec) (idx : Nat), (tplRows dims spec idx).length = spec.length
  | [], _ => rfl
  | none :: rest, idx => by simp [tplRows, tplRows_length dims rest]
  | some k :: rest, idx => by simp [tplRows, tplRows_length dims rest]

theorem tplRows_append (dims : Nat → Nat) : ∀ (a b : ParamSpec) (idx : Nat),
    tplRows dims (a ++ b) idx = tplRows dims a idx ++ tplRows dims b (tplEnd dims a idx)
  | [], _, _ => rfl
  | none :: rest, b, idx => by simp [tplRows, tplEnd, tplRows_append dims rest b]
  | some k :: rest, b, idx => by simp [tplRows, tplEnd, tplRows_append dims rest b]

theorem tplEnd_append (dims : Nat → Nat) : ∀ (a b : ParamSpec) (idx : Nat),
    tplEnd dims (a ++ b) idx = tplEnd dims b (tplEnd dims a idx)
  | [], _, _ => rfl
  | none :: rest, b, idx => by simp [tplEnd, tplEnd_append dims rest b]
  | some k :: rest, b, idx => by simp [tplEnd, tplEnd_append dims rest b]

theorem tplEnd_ge (dims : Nat → Nat) : ∀ (a : ParamSpec) (idx : Nat), idx ≤ tplEnd dims a idx
  | [], _ => Nat.le_refl _
  | none :: rest, idx => by have := tplEnd_ge dims rest (idx + 1); simp only [tplEnd]; omega
  | some k :: rest, idx => by have := tplEnd_ge dims rest (idx + dims k); simp only [tplEnd]; omega

/-- the size the template uses for parameter `p` -/
def paramSz (dims : Nat → Nat) : Option Nat → Nat
  | none => 1
  | some k => dims k

theorem tplRows_cons (dims : Nat → Nat) (p : Option Nat) (rest : ParamSpec) (idx : Nat) :
    tplRows dims (p :: rest) idx = (idx, paramSz dims p) :: tplRows dims rest (idx + paramSz dims p) := by
  cases p <;> rfl

theorem tplEnd_cons (dims : Nat → Nat) (p : Option Nat) (rest : ParamSpec) (idx : Nat) :
    tplEnd dims (p :: rest) idx = tplEnd dims rest (idx + paramSz dims p) := by
  cases p <;> rfl

/-- the row a single-row slice denotes -/
theorem take_one_drop (params : List (List α)) (idx : Nat) (h : idx < params.length) :
    ((params.drop idx).take 1).flatten = (params[idx]?).getD [] := by
  rw [List.drop_eq_getElem_cons h, List.getElem?_eq_getElem h]
  simp only [List.take_succ_cons, List.take_zero, List.flatten_cons, List.flatten_nil, List.append_nil, Option.getD_some]

/-- `layout.go` on a suffix of a well-formed spec, started in the state the template is in after the prefix -/
theorem layout_go_tables (params : List (List α)) (dims : Nat → Nat) (spec : ParamSpec) (wf : SpecWF spec)
    (hd : ∀ j k : Nat, spec[j]? = some (some k) →
      ∃ row, (tplRows dims spec 0)[k]? = some (row, 1) ∧ dims k = (dimMaxZ params row).toNat)
    (hfit : tplEnd dims spec 0 ≤ params.length) :
    ∀ (suf pre : ParamSpec) (idx : Nat) (acc : List (Nat × Nat)) (maxv : List Int), spec = pre ++ suf →
      idx = tplEnd dims pre 0 → acc.reverse = tplRows dims pre 0 → maxv.length = pre.length →
      (∀ (k row sz : Nat), (tplRows dims pre 0)[k]? = some (row, sz) → pre[k]? = some none →
        maxv[k]? = some (dimMaxZ params row)) →
      layout.go params suf idx acc maxv = .ok (tplRows dims spec 0) := by
  intro suf
  induction suf with
  | nil =>
    intro pre idx acc maxv hs _ hacc _ _
    simp only [List.append_nil] at hs
    subst hs
    simp [layout.go, hacc]
  | cons p rest ih =>
    intro pre idx acc maxv hs hidx hacc hlen hinv
    have hend : idx + paramSz dims p ≤ params.length := by
      have e : tplEnd dims spec 0 = tplEnd dims rest (idx + paramSz dims p) := by
        rw [hs, tplEnd_append, tplEnd_cons, ← hidx]
      have := tplEnd_ge dims rest (idx + paramSz dims p)
      omega
    have hrl : ((params.drop idx).take (paramSz dims p)).length = paramSz dims p := by
      simp only [List.length_take, List.length_drop]; omega
    -- the invariant for the parameters before `p` is inherited
    have hold : ∀ (m : Int) (k row sz : Nat), k < pre.length → (tplRows dims (pre ++ [p]) 0)[k]? = some (row, sz) →
        (pre ++ [p])[k]? = some none → (maxv ++ [m])[k]? = some (dimMaxZ params row) := by
      intro m k row sz hk hrow hpk
      rw [tplRows_append, List.getElem?_append_left (by rw [tplRows_length]; exact hk)] at hrow
      rw [List.getElem?_append_left hk] at hpk
      rw [List.getElem?_append_left (by omega)]
      exact hinv k row sz hrow hpk
    have hnew : ∀ (k : Nat), (pre ++ [p])[k]? = some none → ¬ k < pre.length → k = pre.length ∧ p = none := by
      intro k hpk hk
      have := (List.getElem?_eq_some_iff.mp hpk).1
      simp at this
      have hk' : k = pre.length := by omega
      subst hk'
      rw [List.getElem?_append_right (Nat.le_refl _)] at hpk
      simp only [Nat.sub_self, List.getElem?_cons_zero, Option.some.injEq] at hpk
      exact ⟨rfl, hpk⟩
    cases p with
    | none =>
      simp only [paramSz] at hend hrl
      unfold layout.go
      simp only
      rw [if_neg (by omega)]
      apply ih (pre ++ [none])
      · rw [hs]; simp
      · rw [tplEnd_append, ← hidx]; rfl
      · rw [List.reverse_cons, hacc, tplRows_append, ← hidx]; rfl
      · simp [hlen]
      · intro k row sz hrow hpk
        by_cases hk : k < pre.length
        · exact hold _ k row sz hk hrow hpk
        · obtain ⟨hk', _⟩ := hnew k hpk hk
          subst hk'
          rw [tplRows_append, List.getElem?_append_right (by rw [tplRows_length]),
            tplRows_length, Nat.sub_self, ← hidx] at hrow
          simp only [tplRows, List.getElem?_cons_zero, Option.some.injEq, Prod.mk.injEq] at hrow
          obtain ⟨hrow, _⟩ := hrow
          subst hrow
          rw [← hlen, List.getElem?_append_right (Nat.le_refl _)]
          simp only [Nat.sub_self, List.getElem?_cons_zero, Option.some.injEq]
          rw [take_one_drop params idx (by omega)]
          rfl
    | some k =>
      have hj : spec[pre.length]? = some (some k) := by rw [hs]; simp
      obtain ⟨hk, hk2⟩ := wf _ _ hj
      obtain ⟨row, hrow, hdk⟩ := hd _ _ hj
      have hrow' : (tplRows dims pre 0)[k]? = some (row, 1) := by
        rw [hs, tplRows_append] at hrow
        rwa [List.getElem?_append_left (by rw [tplRows_length]; exact hk)] at hrow
      have hpk : pre[k]? = some none := by
        rw [hs, List.getElem?_append_left hk] at hk2; exact hk2
      have hmv := hinv k row 1 hrow' hpk
      have hsz : (maxv.getD k 0).toNat = dims k := by
        rw [List.getD_eq_getElem?_getD, hmv, hdk]; rfl
      simp only [paramSz] at hend hrl
      unfold layout.go
      simp only [hsz]
      rw [if_neg (by omega)]
      apply ih (pre ++ [some k])
      · rw [hs]; simp
      · rw [tplEnd_append, ← hidx]; rfl
      · rw [List.reverse_cons, hacc, tplRows_append, ← hidx]; rfl
      · simp [hlen]
      · intro k' row' sz hrow'' hpk'
        by_cases hk' : k' < pre.length
        · exact hold _ k' row' sz hk' hrow'' hpk'
        · obtain ⟨_, habs⟩ := hnew k' hpk' hk'
          cases habs

/-! ### (ii) the list-level parameter column in closed form -/

/-- row of parameter number `k` in a layout -/
def rowOf (lay : List (Nat × Nat)) (k : Nat) : Nat := (lay[k]?.getD (0, 0)).1

/-- `int(value of the dimension parameter stored in row rk, for cell i)`: the cell's own table length -/
def ownLenZ (params : List (List α)) (i rk : Nat) : Int :=
  match Props.C04.pick params i rk with
  | some v => Num.toInt v
  | none => 0

/-- the entries parameter `(p, (row, size))` contributes to the column of cell `i`: a scalar `parameters[row][i % nSets]`;
a table over dimension parameter `k` the elements `parameters[row + r][i % nSets]`, `r < ownLen_i` -/
def entries (params : List (List α)) (lay : List (Nat × Nat)) (i : Nat) : Option Nat × (Nat × Nat) → List α
  | (none, (row, _)) => (Props.C04.pick params i row).toList
  | (some k, (row, _)) =>
    (List.range (ownLenZ params i (rowOf lay k)).toNat).filterMap (fun r => Props.C04.pick params i (row + r))

omit [Num α] in
/-- the column `cellParams` builds for a table: column `i % nSets` of rows `row … row+own-1` -/
theorem table_col (params : List (List α)) (i row own : Nat)
    (h : ∀ r, r < own → (Props.C04.pick params i (row + r)).isSome) :
    ((params.drop row).take own).map (fun r => if r.length = 0 then none else r[i % r.length]?) =
      (List.range own).map (fun r => Props.C04.pick params i (row + r)) := by
  apply List.ext_getElem?
  intro r
  by_cases hr : r < own
  · have hp := h r hr
    simp only [List.getElem?_map, List.getElem?_take, if_pos hr, List.getElem?_drop, List.getElem?_range hr,
      Option.map_some]
    unfold Props.C04.pick at hp ⊢
    cases hq : params[row + r]? with
    | none => simp [hq] at hp
    | some rr => simp
  · rw [List.getElem?_eq_none (by simp; omega), List.getElem?_eq_none (by simp; omega)]

/-- the own length `cellParams` computes from the scalar values decoded so far -/
def ownOf (vals : List α) (k : Nat) : Nat :=
  match vals[k]? with
  | some v => (Num.toInt v).toNat
  | none => 0

theorem go_table_step (params : List (List α)) (i k row size : Nat) (rest : List (Option Nat × (Nat × Nat)))
    (acc vals : List α) :
    cellParams.go params i ((some k, (row, size)) :: rest) acc vals =
      if ownOf vals k > size then .error "index-out-of-range" else
      if (((params.drop row).take (ownOf vals k)).map
          fun r => if r.length = 0 then none else r[i % r.length]?).any (·.isNone) then .error "index-out-of-range"
      else cellParams.go params i rest (acc ++ (((params.drop row).take (ownOf vals k)).map
          fun r => if r.length = 0 then none else r[i % r.length]?).filterMap id) (vals ++ [Num.zero]) := by
  unfold ownOf
  conv => lhs; unfold cellParams.go
  simp only
  cases vals[k]? <;> rfl

theorem cellParams_go_tables (params : List (List α)) (i : Nat) (spec : ParamSpec) (lay : List (Nat × Nat))
    (wf : SpecWF spec)
    (hS : ∀ (j row sz : Nat), spec[j]? = some none → lay[j]? = some (row, sz) → (Props.C04.pick params i row).isSome)
    (hT : ∀ (j k row sz : Nat), spec[j]? = some (some k) → lay[j]? = some (row, sz) →
      (ownLenZ params i (rowOf lay k)).toNat ≤ sz ∧
      ∀ r, r < (ownLenZ params i (rowOf lay k)).toNat → (Props.C04.pick params i (row + r)).isSome) :
    ∀ (suf done : List (Option Nat × (Nat × Nat))) (acc vals : List α), spec.zip lay = done ++ suf →
      vals.length = done.length →
      (∀ k : Nat, k < done.length → spec[k]? = some none → vals[k]? = Props.C04.pick params i (rowOf lay k)) →
      cellParams.go params i suf acc vals = .ok (acc ++ suf.flatMap (entries params lay i)) := by
  intro suf
  induction suf with
  | nil => intro done acc vals _ _ _; simp [cellParams.go]
  | cons e rest ih =>
    intro done acc vals hz hvl hinv
    obtain ⟨p, row, size⟩ := e
    have hj : (spec.zip lay)[done.length]? = some (p, (row, size)) := by rw [hz]; simp
    obtain ⟨hsp, hly⟩ := List.getElem?_zip_eq_some.mp hj
    have hrow : rowOf lay done.length = row := by simp [rowOf, hly]
    cases p with
    | none =>
      have hp := hS _ _ _ hsp hly
      unfold Props.C04.pick at hp
      unfold cellParams.go
      cases hr : params[row]? with
      | none => simp [hr] at hp
      | some r =>
        simp only [hr] at hp ⊢
        by_cases h0 : r.length = 0
        · simp [h0] at hp
        · simp only [h0, if_false] at hp ⊢
          cases hv : r[i % r.length]? with
          | none => simp [hv] at hp
          | some v =>
            simp only
            rw [ih (done ++ [(none, (row, size))]) _ _ (by rw [hz]; simp) (by simp [hvl])]
            · simp [entries, Props.C04.pick, hr, h0, hv]
            · intro k hk hsk
              by_cases hk' : k < done.length
              · rw [List.getElem?_append_left (by omega)]; exact hinv k hk' hsk
              · have : k = done.length := by simp at hk; omega
                subst this
                rw [← hvl, List.getElem?_append_right (Nat.le_refl _), hvl, hrow]
                simp [Props.C04.pick, hr, h0, hv]
    | some k =>
      obtain ⟨hk, hk2⟩ := wf _ _ hsp
      obtain ⟨hown, hpk⟩ := hT _ _ _ _ hsp hly
      have hvk := hinv k hk hk2
      have hown' : ownOf vals k = (ownLenZ params i (rowOf lay k)).toNat := by
        unfold ownOf ownLenZ
        rw [hvk]
        cases Props.C04.pick params i (rowOf lay k) <;> rfl
      rw [go_table_step, hown', if_neg (by omega), table_col params i row _ hpk]
      have hany : ((List.range (ownLenZ params i (rowOf lay k)).toNat).map
          (fun r => Props.C04.pick params i (row + r))).any (·.isNone) = false := by
        rw [List.any_eq_false]
        intro x hx
        simp only [List.mem_map, List.mem_range] at hx
        obtain ⟨r, hr, rfl⟩ := hx
        have := hpk r hr
        cases hq : Props.C04.pick params i (row + r) with
        | none => simp [hq] at this
        | some v => simp
      rw [hany]
      simp only [Bool.false_eq_true, if_false]
      rw [ih (done ++ [(some k, (row, size))]) _ _ (by rw [hz]; simp) (by simp [hvl])]
      · simp [entries, List.filterMap_map]
      · intro k' hk' hsk
        by_cases hk'' : k' < done.length
        · rw [List.getElem?_append_left (by omega)]; exact hinv k' hk'' hsk
        · have : k' = done.length := by simp at hk'; omega
          subst this
          rw [hsp] at hsk; cases hsk

/-! ### (iii) decoding through the views -/

omit [Num α] in
/-- `pick` on the row-major denotation of the parameters storage: storage position `pb + j·nSets + i % nSets` -/
theorem pick_mat {pst : List α} {pb rows nSets i j : Nat} (hjr : j < rows) (hnS : 0 < nSets)
    (hfit : pb + j * nSets + nSets ≤ pst.length) :
    Props.C04.pick (mat pst pb rows nSets) i j = pst[pb + j * nSets + i % nSets]? := by
  have hmod : i % nSets < nSets := Nat.mod_lt _ hnS
  unfold Props.C04.pick
  rw [mat_getElem? _ _ _ _ _ hjr]
  simp only [rowAt_length hfit]
  rw [if_neg (by omega), rowAt_getElem? _ _ _ _ hmod]

omit [Num α] in
/-- a scalar parameter through the `ApplyParameters` view is `pick` on the denotation -/
theorem scalar_pick {h : Heap α} {parameters : Arr} {rows nSets pb i j : Nat} {pst : List α}
    (rp : RootOn h parameters [(rows : Int), (nSets : Int)]) (hpb : parameters.base = (pb : Int))
    (hp : h[parameters.sid]? = some pst) (hjr : j < rows) :
    ∃ y, scalarParam h parameters (j : Int) (i : Int) = .ok y ∧ Props.C04.pick (mat pst pb rows nSets) i j = some y := by
  obtain ⟨_, hnS⟩ := pos2 rp.pos
  obtain ⟨x, hx, hc⟩ := scalarParam_eq rp (row := (j : Int)) (i := (i : Int)) (by omega) (by omega) (by omega)
  refine ⟨x, hx, ?_⟩
  have hfit := rp.row_fits hpb hp hjr
  have hpos : (parameters.base + ((j : Int) * nSets + (i : Int) % nSets)).toNat = pb + j * nSets + i % nSets := by
    rw [hpb]; omega
  rw [hpos] at hc
  simp only [cell, hp, Option.bind_some] at hc
  rw [pick_mat hjr (by omega) hfit, hc]

omit [Num α] in
/-- `Get1(t0), Get1(t0+1), …` (`n` reads), given pointwise -/
theorem readLoop_filterMap {h : Heap α} {a : Arr} (g : Nat → Option α) :
    ∀ (n t0 : Nat), (∀ q, t0 ≤ q → q < t0 + n → ∃ y, get1 h a (q : Int) = .ok y ∧ g q = some y) →
      readLoop h a n (t0 : Int) = .ok ((List.range' t0 n).filterMap g)
  | 0, _, _ => rfl
  | n + 1, t0, hq => by
    obtain ⟨y, h1, h2⟩ := hq t0 (Nat.le_refl _) (by omega)
    have ih := readLoop_filterMap g n (t0 + 1) (fun q q0 q1 => hq q (by omega) (by omega))
    have e : ((t0 : Int) + 1) = ((t0 + 1 : Nat) : Int) := by omega
    simp only [readLoop, h1, e, ih, bind, Except.bind, pure, Except.pure, List.range'_succ, List.filterMap_cons, h2]

/-- the own length the view-level decoder computes from the scalar values decoded so far: `int(vals[k])` -/
def ownZ (vals : List α) (k : Nat) : Int :=
  match vals[k]? with
  | some v => Num.toInt v
  | none => 0

theorem decodeNd_table_step (h : Heap α) (parameters : Arr) (i : Int) (k row size : Nat)
    (rest : List (Option Nat × (Nat × Nat))) (acc vals : List α) :
    decodeNd h parameters i ((some k, (row, size)) :: rest) acc vals =
      (do let (h1, t) ← tableParam h parameters (row : Int) (size : Int) (ownZ vals k) i
          let col ← readTable h1 t (ownZ vals k).toNat
          decodeNd h parameters i rest (acc ++ col) (vals ++ [Num.zero])) := by
  unfold ownZ
  conv => lhs; unfold decodeNd
  cases vals[k]? <;> rfl

/-- **a table parameter through the views**: `tableParam` then `readTable` of `ownLen` elements (`ownLen ≤ maxLen`) does
not panic, leaves the heap alone, and reads column `i % nSets` of rows `row … row + ownLen - 1` of the denotation -/
theorem table_pick {h : Heap α} {parameters : Arr} {rows nSets pb i row size : Nat} {pst : List α} (ownLen : Int)
    (rp : RootOn h parameters [(rows : Int), (nSets : Int)]) (hpb : parameters.base = (pb : Int))
    (hp : h[parameters.sid]? = some pst) (hsz : 1 ≤ size) (hfit : row + size ≤ rows) (hown : ownLen.toNat ≤ size) :
    ∃ t, tableParam h parameters (row : Int) (size : Int) ownLen (i : Int) = .ok (h, t) ∧
      readTable h t ownLen.toNat =
        .ok ((List.range ownLen.toNat).filterMap (fun r => Props.C04.pick (mat pst pb rows nSets) i (row + r))) ∧
      ∀ r, r < ownLen.toNat → (Props.C04.pick (mat pst pb rows nSets) i (row + r)).isSome := by
  obtain ⟨_, hnS⟩ := pos2 rp.pos
  have hmodlt : i % nSets < nSets := Nat.mod_lt _ (by omega)
  have hc0 : 0 ≤ (i : Int) % (nSets : Int) := Int.emod_nonneg _ (by omega)
  have hc1 : (i : Int) % (nSets : Int) < nSets := Int.emod_lt_of_pos _ (by omega)
  obtain ⟨_, _, rt⟩ := paramView_table_eq (h := h) rp (row := (row : Int)) (maxLen := (size : Int)) (by omega) (by omega)
    (by omega)
  have he := tableParam_eq (h := h) (ownLen := ownLen) (i := (i : Int)) rp (row := (row : Int)) (maxLen := (size : Int))
    (by omega) (by omega) (by omega) (by omega)
  have key : ∀ r : Nat, r < ownLen.toNat → ∃ y,
      get1 h (tableArr parameters.sid (parameters.base + (row : Int) * nSets) size nSets ownLen ((i : Int) % nSets)) (r : Int) = .ok y ∧
      Props.C04.pick (mat pst pb rows nSets) i (row + r) = some y := by
    intro r hr
    obtain ⟨x, hx, _, hg1⟩ := tableArr_get (ownLen := ownLen) rt hc0 hc1 (r := (r : Int)) (by omega) (by omega) (by omega)
    refine ⟨x, hg1, ?_⟩
    have hjr : row + r < rows := by omega
    have hfit' := rp.row_fits hpb hp hjr
    have hpos : (parameters.base + (row : Int) * nSets + ((i : Int) % nSets + (r : Int) * nSets)).toNat =
        pb + (row + r) * nSets + i % nSets := by
      rw [hpb]
      have e1 : ((pb + (row + r) * nSets + i % nSets : Nat) : Int) =
          (pb : Int) + (row : Int) * nSets + ((i : Int) % nSets + (r : Int) * nSets) := by push_cast; ring
      omega
    rw [hpos] at hx
    simp only [cell, hp, Option.bind_some] at hx
    rw [pick_mat hjr (by omega) hfit', hx]
  refine ⟨_, he, ?_, fun r hr => ?_⟩
  · unfold readTable
    have := readLoop_filterMap (h := h)
      (a := tableArr parameters.sid (parameters.base + (row : Int) * nSets) size nSets ownLen ((i : Int) % nSets))
      (fun r => Props.C04.pick (mat pst pb rows nSets) i (row + r)) ownLen.toNat 0
      (fun q _ q1 => key q (by omega))
    rw [List.range_eq_range']
    exact this
  · obtain ⟨y, _, hy⟩ := key r hr
    rw [hy]; rfl

/-- **decodeNd_go_refines.** On a root `parameters [rows, nSets]`, for a well-formed spec laid out in rows `lay` inside the
array (scalars: `row < rows`; tables: `1 ≤ size`, `row + size ≤ rows`) and a cell whose own table lengths fit
(`ownLen_i ≤ size`), the view-level decoder does not panic and returns the closed-form column `entries` of the row-major
denotation of the parameters storage. -/
theorem decodeNd_go_refines {h : Heap α} {parameters : Arr} {rows nSets pb i : Nat} {pst : List α}
    (rp : RootOn h parameters [(rows : Int), (nSets : Int)]) (hpb : parameters.base = (pb : Int))
    (hp : h[parameters.sid]? = some pst) (spec : ParamSpec) (lay : List (Nat × Nat)) (wf : SpecWF spec)
    (hS : ∀ (j row sz : Nat), spec[j]? = some none → lay[j]? = some (row, sz) → row < rows)
    (hT : ∀ (j k row sz : Nat), spec[j]? = some (some k) → lay[j]? = some (row, sz) →
      1 ≤ sz ∧ row + sz ≤ rows ∧ (ownLenZ (mat pst pb rows nSets) i (rowOf lay k)).toNat ≤ sz) :
    ∀ (suf done : List (Option Nat × (Nat × Nat))) (acc vals : List α), spec.zip lay = done ++ suf →
      vals.length = done.length →
      (∀ k : Nat, k < done.length → spec[k]? = some none →
        vals[k]? = Props.C04.pick (mat pst pb rows nSets) i (rowOf lay k)) →
      decodeNd h parameters (i : Int) suf acc vals =
        .ok (acc ++ suf.flatMap (entries (mat pst pb rows nSets) lay i)) := by
  intro suf
  induction suf with
  | nil => intro done acc vals _ _ _; simp [decodeNd]
  | cons e rest ih =>
    intro done acc vals hz hvl hinv
    obtain ⟨p, row, size⟩ := e
    have hj : (spec.zip lay)[done.length]? = some (p, (row, size)) := by rw [hz]; simp
    obtain ⟨hsp, hly⟩ := List.getElem?_zip_eq_some.mp hj
    have hrow : rowOf lay done.length = row := by simp [rowOf, hly]
    cases p with
    | none =>
      obtain ⟨y, hy, hpick⟩ := scalar_pick (i := i) rp hpb hp (hS _ _ _ hsp hly)
      unfold decodeNd
      simp only [hy, bind, Except.bind]
      rw [ih (done ++ [(none, (row, size))]) _ _ (by rw [hz]; simp) (by simp [hvl])]
      · simp [entries, hpick]
      · intro k hk hsk
        by_cases hk' : k < done.length
        · rw [List.getElem?_append_left (by omega)]; exact hinv k hk' hsk
        · have : k = done.length := by simp at hk; omega
          subst this
          rw [← hvl, List.getElem?_append_right (Nat.le_refl _), hvl, hrow, hpick]
          simp
    | some k =>
      obtain ⟨hk, hk2⟩ := wf _ _ hsp
      obtain ⟨hsz, hfit, hown⟩ := hT _ _ _ _ hsp hly
      have hvk := hinv k hk hk2
      have hown' : ownZ vals k = ownLenZ (mat pst pb rows nSets) i (rowOf lay k) := by
        unfold ownZ ownLenZ
        rw [hvk]
      obtain ⟨t, ht, hread, _⟩ := table_pick (i := i) (ownLenZ (mat pst pb rows nSets) i (rowOf lay k)) rp hpb hp hsz hfit hown
      rw [decodeNd_table_step, hown']
      simp only [ht, hread, bind, Except.bind]
      rw [ih (done ++ [(some k, (row, size))]) _ _ (by rw [hz]; simp) (by simp [hvl])]
      · simp [entries]
      · intro k' hk' hsk
        by_cases hk'' : k' < done.length
        · rw [List.getElem?_append_left (by omega)]; exact hinv k' hk'' hsk
        · have : k' = done.length := by simp at hk'; omega
          subst this
          rw [hsp] at hsk; cases hsk

/-! ### one cell step with an arbitrary parameter decoder -/

/-- one cell step through the template's views, with ANY parameter decoder `dec` that returns the column `p` the
list-level `cellParams` returns, is `cellStep` (the proof of `cellStepNd_refines` with the parameter part abstracted) -/
theorem cellStepNdG_refines (km : KModel α) {h : Heap α} {inputs states outputs : Arr}
    {nIn nI T N nS M nO T' i ib sb ob : Nat} {ist sst ost : List α}
    (ri : RootOn h inputs [(nIn : Int), (nI : Int), (T : Int)])
    (rs : RootOn h states [(N : Int), (nS : Int)])
    (ro : RootOn h outputs [(M : Int), (nO : Int), (T' : Int)])
    (hib : inputs.base = (ib : Int)) (hsb : states.base = (sb : Int)) (hob : outputs.base = (ob : Int))
    (hi : h[inputs.sid]? = some ist) (hs : h[states.sid]? = some sst) (ho : h[outputs.sid]? = some ost)
    (hso : states.sid ≠ outputs.sid) (hiN : i < N) (hiM : i < M) (hT : T ≤ T')
    {rd : RunDims} (hrd : runDims inputs states outputs = .ok rd)
    (hK : ∀ p ins st r, ins.length = nI → (∀ s ∈ ins, s.length = T) → st.length = nS → km.run p ins st = .ok r →
      r.outputs.length ≤ nO ∧ (∀ ser ∈ r.outputs, ser.length ≤ T) ∧ r.states.length ≤ nS)
    (spec : ParamSpec) (lay : List (Nat × Nat)) (paramsL : List (List α)) (dec : R (List α)) (p : List α)
    (hdec : dec = .ok p) (hcp : cellParams spec lay paramsL i = .ok p) :
    (∀ e, cellStep km spec lay paramsL (cube ist ib nIn nI T) i (rowAt sst (sb + i * nS) nS)
          (mat ost (ob + i * (nO * T')) nO T') = .error e →
        cellStepNdG km.run dec nI h inputs states outputs rd (i : Int) = .error e) ∧
    (∀ s' o', cellStep km spec lay paramsL (cube ist ib nIn nI T) i (rowAt sst (sb + i * nS) nS)
          (mat ost (ob + i * (nO * T')) nO T') = .ok (s', o') →
      ∃ h', cellStepNdG km.run dec nI h inputs states outputs rd (i : Int) = .ok h' ∧ SameShape h h' ∧
        (∀ s, s < nS → cell h' states.sid (sb + i * nS + s) = s'[s]?) ∧
        (∀ o t, o < nO → t < T' → cell h' outputs.sid (ob + (i * nO + o) * T' + t) = (o'[o]?).bind (·[t]?)) ∧
        (∀ u q, ¬ (u = states.sid ∧ ∃ s, s < nS ∧ q = sb + i * nS + s) →
                ¬ (u = outputs.sid ∧ ∃ o t, o < nO ∧ t < T' ∧ q = ob + (i * nO + o) * T' + t) →
                cell h' u q = cell h u q)) := by
  -- the numbers of the preamble
  rw [runDims_eq ri.view rs.view ro.view] at hrd
  injection hrd with hrd
  subst hrd
  obtain ⟨_, _, hT0⟩ := pos3 ri.pos
  have hT0' : 1 ≤ T := by omega
  -- read side
  obtain ⟨hsv, rsv, hread, hsfit⟩ := state_read_refine rs hsb hs hiN
  obtain ⟨hins, hblock⟩ := inputs_refine (i := i) ri hib hi
  -- both sides up to the kernel call
  have hL : cellStep km spec lay paramsL (cube ist ib nIn nI T) i (rowAt sst (sb + i * nS) nS)
      (mat ost (ob + i * (nO * T')) nO T') =
      (do let r ← km.run p (mat ist (ib + (i % nIn) * (nI * T)) nI T) (rowAt sst (sb + i * nS) nS)
          pure (overwrite (rowAt sst (sb + i * nS) nS) r.states,
            ((mat ost (ob + i * (nO * T')) nO T').zip (r.outputs ++ List.replicate
              ((mat ost (ob + i * (nO * T')) nO T').length - r.outputs.length) [])).map
              fun (p : List α × List α) => overwrite p.1 p.2)) := by
    rw [Props.C04.cellStep_blocks _ _ _ _ _ _ _ _ (by rw [cube_length]; omega)]
    simp only [hcp, hblock, bind, Except.bind]
  have hR : cellStepNdG km.run dec nI h inputs states outputs
      { numCells := N, numStates := nS, numInputSequences := nIn, inputLen := T, cellInputsShape := [(nI : Int), (T : Int)],
        outputStepSlice := [1, 1, 1], outputSizeSlice := [1, 1, (T : Int)], statesSizeSlice := [1, (nS : Int)],
        inputsSizeSlice := [1, (nI : Int), (T : Int)] } (i : Int) =
      (do let r ← km.run p (mat ist (ib + (i % nIn) * (nI * T)) nI T) (rowAt sst (sb + i * nS) nS)
          let h3 ← writeOutputs h outputs (i : Int) (T : Int) 0 r.outputs
          writeView h3 (flat states.sid ((sb + i * nS : Nat) : Int) (nS : Int)) r.states) := by
    have hins' := hins
    simp only [bind, Except.bind] at hins'
    unfold cellStepNdG
    simp only [hdec, hsv, hread, hins', bind, Except.bind]
  rw [hL, hR]
  cases hk : km.run p (mat ist (ib + (i % nIn) * (nI * T)) nI T) (rowAt sst (sb + i * nS) nS) with
  | error e0 =>
    refine ⟨fun e he => ?_, fun s' o' he => ?_⟩
    · simp only [bind, Except.bind] at he ⊢
      cases he; rfl
    · simp [bind, Except.bind] at he
  | ok r =>
    obtain ⟨hps1, hps2, hps3⟩ := passed_shapes (i := i) ri hib hi hsfit
    obtain ⟨hko, hkl, hks⟩ := hK _ _ _ _ hps1 hps2 hps3 hk
    refine ⟨fun e he => by simp [bind, Except.bind, pure, Except.pure] at he, fun s' o' he => ?_⟩
    simp only [bind, Except.bind, pure, Except.pure, Except.ok.injEq, Prod.mk.injEq] at he
    obtain ⟨hs', ho'⟩ := he
    -- write side
    obtain ⟨h3, hw3, hss3, hin3, hout3⟩ := writeOutputs_spec hob hiM hT0' hT r.outputs 0 h ro (by omega) hkl
    have rsv3 := rsv.sameShape hss3
    obtain ⟨hw4, hss4⟩ := writeView_flat rsv3 r.states (by omega)
    simp only [Int.toNat_natCast] at hw4 hss4
    refine ⟨_, ?_, hss3.trans hss4, fun s s1 => ?_, fun o t o1 t1 => ?_, fun u q hns hno => ?_⟩
    · simp only [bind, Except.bind]
      have : ((0 : Nat) : Int) = 0 := rfl
      rw [← this, hw3]
      exact hw4
    · -- state row
      have hrl : (rowAt sst (sb + i * nS) nS).length = nS := rowAt_length hsfit
      rw [cell_writeRun, ← hs', overwrite_getElem? _ _ _ (by rw [hrl]; exact s1), rowAt_getElem? _ _ _ _ s1]
      have h3c : cell h3 states.sid (sb + i * nS + s) = sst[sb + i * nS + s]? := by
        rw [hout3 _ _ (Or.inl hso)]; simp [cell, hs]
      have hsome : sb + i * nS + s < sst.length := by omega
      by_cases hsl : s < r.states.length
      · rw [if_pos ⟨rfl, by omega, by omega⟩, if_pos hsl, h3c, List.getElem?_eq_getElem hsome]
        simp
      · rw [if_neg (by omega), if_neg hsl, h3c]
    · -- output rows
      rw [cell_writeRun, if_neg (by intro c; exact hso c.1.symm), hin3 o t o1 t1, ← ho']
      have hol : (mat ost (ob + i * (nO * T')) nO T').length = nO := mat_length _ _ _ _
      have hfit := ro.row_fits3 hob ho hiM o1
      rw [newO_getElem? _ _ o (by rw [hol]; exact o1) (by rw [hol]; exact hko)]
      have hrow : (mat ost (ob + i * (nO * T')) nO T')[o]'(by rw [hol]; exact o1) =
          rowAt ost (ob + (i * nO + o) * T') T' := by
        have := mat_getElem? ost (ob + i * (nO * T')) nO T' o o1
        rw [List.getElem?_eq_getElem (by rw [hol]; exact o1)] at this
        injection this with this
        rw [this]; congr 1; ring
      simp only [Option.bind_some]
      rw [hrow, overwrite_getElem? _ _ _ (by rw [rowAt_length hfit]; exact t1), rowAt_getElem? _ _ _ _ t1]
      have hcell : cell h outputs.sid (ob + (i * nO + o) * T' + t) = ost[ob + (i * nO + o) * T' + t]? := by
        simp [cell, ho]
      rw [hcell]
      unfold outVal
      simp only [Nat.zero_le, if_true, Nat.sub_zero]
      cases hro : r.outputs[o]? with
      | none => simp
      | some ser =>
        simp only [Option.getD_some, Option.bind_some]
        by_cases htl : t < ser.length
        · rw [if_pos htl, List.getElem?_eq_getElem htl]; simp
        · rw [if_neg htl, List.getElem?_eq_none (by omega)]; simp
    · -- frame
      rw [cell_writeRun, if_neg, hout3]
      · by_cases hu : u = outputs.sid
        · right; intro o t o1 t1 hq
          exact hno ⟨hu, o, t, o1, t1, hq⟩
        · exact Or.inl hu
      · rintro ⟨hu, hq1, hq2⟩
        exact hns ⟨hu, q - (sb + i * nS), by omega, by omega⟩

/-! ### the property statements, proved here so that the run-level helpers can use them -/

/-- closed form of the list-level column (statement and comments: `OW.Props.C04NdTables.cellParams_tables`) -/
theorem cellParams_tables_eq (spec : ParamSpec) (lay : List (Nat × Nat)) (params : List (List α)) (i : Nat)
    (wf : SpecWF spec)
    (hS : ∀ (j row sz : Nat), spec[j]? = some none → lay[j]? = some (row, sz) → (Props.C04.pick params i row).isSome)
    (hT : ∀ (j k row sz : Nat), spec[j]? = some (some k) → lay[j]? = some (row, sz) →
      (ownLenZ params i (rowOf lay k)).toNat ≤ sz ∧
      ∀ r, r < (ownLenZ params i (rowOf lay k)).toNat → (Props.C04.pick params i (row + r)).isSome) :
    cellParams spec lay params i = .ok ((spec.zip lay).flatMap (entries params lay i)) := by
  unfold cellParams
  rw [cellParams_go_tables params i spec lay wf hS hT (spec.zip lay) [] [] [] rfl rfl (fun k hk => by simp at hk)]
  simp

/-- view-level decoding = list-level decoding (statement and comments: `OW.Props.C04NdTables.param_decoding_tables`) -/
theorem param_decoding_tables_eq {h : Heap α} {parameters : Arr} {rows nSets pb i : Nat} {pst : List α}
    (rp : RootOn h parameters [(rows : Int), (nSets : Int)]) (hpb : parameters.base = (pb : Int))
    (hp : h[parameters.sid]? = some pst) (spec : ParamSpec) (lay : List (Nat × Nat)) (wf : SpecWF spec)
    (hS : ∀ (j row sz : Nat), spec[j]? = some none → lay[j]? = some (row, sz) → row < rows)
    (hT : ∀ (j k row sz : Nat), spec[j]? = some (some k) → lay[j]? = some (row, sz) →
      1 ≤ sz ∧ row + sz ≤ rows ∧ (ownLenZ (mat pst pb rows nSets) i (rowOf lay k)).toNat ≤ sz) :
    decodeNd h parameters (i : Int) (spec.zip lay) [] [] =
        .ok ((spec.zip lay).flatMap (entries (mat pst pb rows nSets) lay i)) ∧
    cellParams spec lay (mat pst pb rows nSets) i =
        .ok ((spec.zip lay).flatMap (entries (mat pst pb rows nSets) lay i)) := by
  constructor
  · rw [decodeNd_go_refines rp hpb hp spec lay wf hS hT (spec.zip lay) [] [] [] rfl rfl (fun k hk => by simp at hk)]
    simp
  · apply cellParams_tables_eq spec lay _ i wf
    · intro j row sz hsp hly
      obtain ⟨y, _, hy⟩ := scalar_pick (i := i) rp hpb hp (hS j row sz hsp hly)
      rw [hy]; rfl
    · intro j k row sz hsp hly
      obtain ⟨hsz, hfit, hown⟩ := hT j k row sz hsp hly
      obtain ⟨_, _, _, hpk⟩ := table_pick (i := i) (ownLenZ (mat pst pb rows nSets) i (rowOf lay k)) rp hpb hp hsz hfit hown
      exact ⟨hown, hpk⟩

/-- one cell step with table parameters (statement and comments: `OW.Props.C04NdTables.wrapperNd_refines_tables`) -/
theorem cellStepNdT_refines (km : KModel α) {h : Heap α} {parameters inputs states outputs : Arr}
    {rows nSets nIn nI T N nS M nO T' i pb ib sb ob : Nat} {pst ist sst ost : List α}
    (rp : RootOn h parameters [(rows : Int), (nSets : Int)])
    (ri : RootOn h inputs [(nIn : Int), (nI : Int), (T : Int)])
    (rs : RootOn h states [(N : Int), (nS : Int)])
    (ro : RootOn h outputs [(M : Int), (nO : Int), (T' : Int)])
    (hpb : parameters.base = (pb : Int)) (hib : inputs.base = (ib : Int)) (hsb : states.base = (sb : Int))
    (hob : outputs.base = (ob : Int))
    (hp : h[parameters.sid]? = some pst) (hi : h[inputs.sid]? = some ist)
    (hs : h[states.sid]? = some sst) (ho : h[outputs.sid]? = some ost)
    (hso : states.sid ≠ outputs.sid) (hiN : i < N) (hiM : i < M) (hT : T ≤ T')
    {rd : RunDims} (hrd : runDims inputs states outputs = .ok rd)
    (hK : ∀ p ins st r, ins.length = nI → (∀ s ∈ ins, s.length = T) → st.length = nS → km.run p ins st = .ok r →
      r.outputs.length ≤ nO ∧ (∀ ser ∈ r.outputs, ser.length ≤ T) ∧ r.states.length ≤ nS)
    (spec : ParamSpec) (lay : List (Nat × Nat)) (wf : SpecWF spec)
    (hSc : ∀ (j row sz : Nat), spec[j]? = some none → lay[j]? = some (row, sz) → row < rows)
    (hTb : ∀ (j k row sz : Nat), spec[j]? = some (some k) → lay[j]? = some (row, sz) →
      1 ≤ sz ∧ row + sz ≤ rows ∧ (ownLenZ (mat pst pb rows nSets) i (rowOf lay k)).toNat ≤ sz) :
    (∀ e, cellStep km spec lay (mat pst pb rows nSets) (cube ist ib nIn nI T) i (rowAt sst (sb + i * nS) nS)
          (mat ost (ob + i * (nO * T')) nO T') = .error e →
        cellStepNdT km.run spec lay nI h parameters inputs states outputs rd (i : Int) = .error e) ∧
    (∀ s' o', cellStep km spec lay (mat pst pb rows nSets) (cube ist ib nIn nI T) i (rowAt sst (sb + i * nS) nS)
          (mat ost (ob + i * (nO * T')) nO T') = .ok (s', o') →
      ∃ h', cellStepNdT km.run spec lay nI h parameters inputs states outputs rd (i : Int) = .ok h' ∧ SameShape h h' ∧
        (∀ s, s < nS → cell h' states.sid (sb + i * nS + s) = s'[s]?) ∧
        (∀ o t, o < nO → t < T' → cell h' outputs.sid (ob + (i * nO + o) * T' + t) = (o'[o]?).bind (·[t]?)) ∧
        (∀ u q, ¬ (u = states.sid ∧ ∃ s, s < nS ∧ q = sb + i * nS + s) →
                ¬ (u = outputs.sid ∧ ∃ o t, o < nO ∧ t < T' ∧ q = ob + (i * nO + o) * T' + t) →
                cell h' u q = cell h u q)) := by
  obtain ⟨hdec, hcp⟩ := param_decoding_tables_eq (i := i) rp hpb hp spec lay wf hSc hTb
  exact cellStepNdG_refines km ri rs ro hib hsb hob hi hs ho hso hiN hiM hT hrd hK spec lay _ _ _ hdec hcp

end
end OW.WrapperNd
