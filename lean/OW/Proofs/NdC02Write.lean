import OW.Proofs.NdC02Bulk
import Mathlib.Data.List.Nodup
/-!
Helper lemmas for C02, Part C (writes): `Set` in closed form, frame lemmas for `setStore`, the row-major indices are
pairwise distinct, and the element loop of `zipWithInto` equals the sequential reference `setAll`.
-/
namespace OW.NdC02
open OW.Nd

section
variable {α : Type}

/-! ### `Set` in closed form; frame lemmas -/

theorem set_eq {h : Heap α} {a : Arr} (g : Geo a.v) (ok : ArrOK h a) {i : Idx} (hi : InBounds i a.v.dims) (x : α) :
    ∃ p, a.v.index i = .ok p ∧ 0 ≤ p ∧ p < product a.v.orig ∧
      Nd.set h a i x = .ok (setStore h a.sid (a.base + p).toNat x) := by
  obtain ⟨p, hp, p0, p1⟩ := index_inbounds g hi
  refine ⟨p, hp, p0, p1, ?_⟩
  unfold Nd.set
  rw [hp]
  exact writeAt_eq ok p0 p1 x

theorem arrOK_setStore {h : Heap α} {a : Arr} (ok : ArrOK h a) (sid pos : Nat) (x : α) :
    ArrOK (setStore h sid pos x) a := ok.sameShape (sameShape_setStore h sid pos x)

/-- `Get` is determined by the addressed cell -/
theorem get_of_cell {h : Heap α} {a : Arr} (g : Geo a.v) (ok : ArrOK h a) {i : Idx} (hi : InBounds i a.v.dims)
    {p : Int} (hp : a.v.index i = .ok p) {x : α} (hx : cell h a.sid (a.base + p).toNat = some x) :
    Nd.get h a i = .ok x := by
  obtain ⟨q, y, hq, _, _, hy, hget⟩ := get_cell g ok hi
  rw [hp] at hq
  injection hq with hq
  subst hq
  rw [hx] at hy
  injection hy with hy
  rw [hget, hy]

/-- a write to another storage is not seen -/
theorem get_setStore_other {h : Heap α} {b : Arr} (g : Geo b.v) (ok : ArrOK h b) {j : Idx} (hj : InBounds j b.v.dims)
    {sid : Nat} (hne : b.sid ≠ sid) (pos : Nat) (x : α) :
    Nd.get (setStore h sid pos x) b j = Nd.get h b j := by
  obtain ⟨p, y, hp, _, _, hy, hget⟩ := get_cell g ok hj
  rw [hget]
  apply get_of_cell g (arrOK_setStore ok sid pos x) hj hp
  rw [cell_setStore, if_neg (fun hh => hne hh.1)]
  exact hy

/-- a write to another cell of the same storage is not seen -/
theorem get_setStore_ne {h : Heap α} {a : Arr} (g : Geo a.v) (ok : ArrOK h a) {i j : Idx}
    (hi : InBounds i a.v.dims) (hj : InBounds j a.v.dims) (hij : j ≠ i) {p : Int} (hp : a.v.index i = .ok p) (x : α) :
    Nd.get (setStore h a.sid (a.base + p).toNat x) a j = Nd.get h a j := by
  obtain ⟨q, y, hq, q0, _, hy, hget⟩ := get_cell g ok hj
  obtain ⟨p', hp', p0, _⟩ := index_inbounds g hi
  rw [hp] at hp'
  injection hp' with hp'
  subst hp'
  have hb := ok.base_nonneg
  have hpq : q ≠ p := by
    intro e
    subst e
    exact hij (index_inj g hj hi (by rw [hq, hp]))
  rw [hget]
  apply get_of_cell g (arrOK_setStore ok _ _ x) hj hq
  rw [cell_setStore, if_neg (by intro hh; have := hh.2; omega)]
  exact hy

/-- a write is seen at the written index -/
theorem get_setStore_same {h : Heap α} {a : Arr} (g : Geo a.v) (ok : ArrOK h a) {i : Idx}
    (hi : InBounds i a.v.dims) {p : Int} (hp : a.v.index i = .ok p) (x : α) :
    Nd.get (setStore h a.sid (a.base + p).toNat x) a i = .ok x := by
  obtain ⟨q, y, hq, _, _, hy, _⟩ := get_cell g ok hi
  rw [hp] at hq
  injection hq with hq
  subst hq
  apply get_of_cell g (arrOK_setStore ok _ _ x) hi hp
  rw [cell_setStore, if_pos ⟨rfl, rfl⟩, hy]
  rfl

theorem getAll_congr {h h' : Heap α} {a : Arr} : ∀ (l : List Idx),
    (∀ j ∈ l, Nd.get h' a j = Nd.get h a j) → getAll h' a l = getAll h a l
  | [], _ => rfl
  | i :: is, hl => by
    simp only [getAll]
    rw [hl i List.mem_cons_self, getAll_congr is (fun j hj => hl j (List.mem_cons_of_mem _ hj))]

theorem getAll_cons_ok {h : Heap α} {a : Arr} {i : Idx} {is : List Idx} {vals : List α}
    (e : getAll h a (i :: is) = .ok vals) :
    ∃ x r, vals = x :: r ∧ Nd.get h a i = .ok x ∧ getAll h a is = .ok r := by
  simp only [getAll, bind, Except.bind, pure, Except.pure] at e
  cases hx : Nd.get h a i with
  | error m => simp [hx] at e
  | ok x =>
    cases hr : getAll h a is with
    | error m => simp [hx, hr] at e
    | ok r =>
      simp only [hx, hr] at e
      injection e with e
      exact ⟨x, r, e.symm, rfl, rfl⟩

/-! ### the row-major indices are pairwise distinct -/

theorem rowMajorFrom_nodup {dims : Idx} (hp : Pos dims) (k n : Nat) (hk : ((k + n : Nat) : Int) ≤ product dims) :
    (rowMajorFrom dims k n).Nodup := by
  unfold rowMajorFrom
  apply List.Nodup.map_on _ (List.nodup_range')
  intro x hx y hy e
  simp only [List.mem_range'_1] at hx hy
  have h1 := ravel_unravel hp (k := (x : Int)) (by omega) (by omega)
  have h2 := ravel_unravel hp (k := (y : Int)) (by omega) (by omega)
  rw [e] at h1
  omega

theorem rowMajor_nodup {dims : Idx} (hp : Pos dims) : (rowMajor dims).Nodup := by
  have := product_pos hp
  exact rowMajorFrom_nodup hp 0 _ (by omega)

/-! ### the element loop of the whole-array helpers -/

/-- loop body of `ApplyFunc1` / `AddTo` / scaling, slow path: `dest[idx] = f dest[idx] source[idx]` -/
def zipBody (f : α → α → α) (dest source : Arr) : Heap α → Idx → R (Heap α) :=
  fun h idx => do
    let dx ← Nd.get h dest idx
    let sx ← Nd.get h source idx
    Nd.set h dest idx (f dx sx)

/-- sequential loop = sequential `Set` of the values computed from the PRE-state, for pairwise distinct in-bounds
indices and source / destination in different storages -/
theorem foldIdx_zipBody (f : α → α → α) {dest source : Arr} (gd : Geo dest.v) (gs : Geo source.v)
    (hsid : dest.sid ≠ source.sid) :
    ∀ (l : List Idx), l.Nodup → (∀ i ∈ l, InBounds i dest.v.dims) → (∀ i ∈ l, InBounds i source.v.dims) →
      ∀ (h1 : Heap α), ArrOK h1 dest → ArrOK h1 source → ∀ (dv sv : List α),
        getAll h1 dest l = .ok dv → getAll h1 source l = .ok sv →
        foldIdx (zipBody f dest source) l h1 = setAll h1 dest l (List.zipWith f dv sv)
  | [], _, _, _, h1, _, _, dv, sv, hdv, hsv => by
    simp only [getAll] at hdv hsv
    injection hdv with hdv; injection hsv with hsv
    subst hdv; subst hsv
    rfl
  | i :: is, nd, hl, hls, h1, okd, oks, dv, sv, hdv, hsv => by
    obtain ⟨dx, dr, rfl, hdx, hdr⟩ := getAll_cons_ok hdv
    obtain ⟨sx, sr, rfl, hsx, hsr⟩ := getAll_cons_ok hsv
    have hi := hl i List.mem_cons_self
    obtain ⟨p, hp, _, _, hset⟩ := set_eq gd okd hi (f dx sx)
    have hb : zipBody f dest source h1 i = .ok (setStore h1 dest.sid (dest.base + p).toNat (f dx sx)) := by
      simp only [zipBody, hdx, hsx, bind, Except.bind]
      exact hset
    have nd' := (List.nodup_cons.mp nd)
    simp only [foldIdx, setAll, List.zipWith_cons_cons, hb, hset, bind, Except.bind]
    apply foldIdx_zipBody f gd gs hsid is nd'.2 (fun j hj => hl j (List.mem_cons_of_mem _ hj))
      (fun j hj => hls j (List.mem_cons_of_mem _ hj)) _ (arrOK_setStore okd _ _ _) (arrOK_setStore oks _ _ _)
    · rw [← hdr]
      apply getAll_congr
      intro j hj
      exact get_setStore_ne gd okd hi (hl j (List.mem_cons_of_mem _ hj)) (fun e => nd'.1 (e ▸ hj)) hp _
    · rw [← hsr]
      apply getAll_congr
      intro j hj
      exact get_setStore_other gs oks (hls j (List.mem_cons_of_mem _ hj)) (fun e => hsid e.symm) _ _

end
end OW.NdC02
