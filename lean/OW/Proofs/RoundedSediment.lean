import OW.Proofs.Rounded
import OW.Kernels.C16.BankErosion
import OW.Kernels.C16.SednetGully
import OW.Kernels.C16.UsleFine
/-!
Helper lemmas for OW/Props/Rounded/C16Sediment.lean: signs of the building blocks of the sediment generation kernels over rounded
arithmetic (`RNum R`).
-/
namespace OW.Rounded.Sediment
open OW OW.Kernels OW.Rounded

variable {R : Rounding}

/-- a percentage in `[0, 100]` divided by the (representable) literal `100` is a fraction in `[0, rnd 1]`, so `1 ⊖ fraction ≥ 0` -/
theorem one_sub_percent_nonneg (pc : RNum R) (h100 : R.Rep 100) (h1 : pc.val ≤ 100) :
    0 ≤ ((1 : RNum R) - pc / 100).val := by
  have : (pc / (100 : RNum R)).val ≤ R.rnd 1 := by
    rw [RNum.div_val, RNum.ofNat_val]
    have e : R.rnd ((100 : ℕ) : ℝ) = 100 := by exact_mod_cast h100
    rw [e]
    exact R.rnd_le_rnd (by rw [div_le_one (by norm_num)]; exact h1)
  rw [RNum.sub_val, RNum.ofNat_val, Nat.cast_one]; exact R.rnd_nonneg (by linarith)

/-- the link discharge factor is non-negative (zero on the no-discharge branch, `(outflow·Δt)^p ⊘ longTermFlow` otherwise, where
the branch condition makes the divisor positive) -/
theorem bank_ldf_nonneg (p : BankErosion.Params (RNum R)) (hdt : 0 ≤ p.durationInSeconds.val) (outflow tv : RNum R) :
    0 ≤ (BankErosion.linkDischargeFactor p outflow tv).val := by
  unfold BankErosion.linkDischargeFactor
  split_ifs with h
  · rw [RNum.nat_zero_val]
  · simp only [Bool.or_eq_true, decide_eq_true_eq, not_or, RNum.le_iff, RNum.nat_zero_val, not_le] at h
    apply RNum.div_nonneg _ h.2.le
    rw [RNum.pow_val]
    exact R.rnd_nonneg (Real.rpow_nonneg (RNum.mul_nonneg h.1.2.le hdt) _)

/-- the daily runoff factor of `gullyLoadOrig` is non-negative for non-negative runoff -/
theorem gully_dailyRunoffFactor_nonneg (q ltrf drpf : RNum R) (hq : 0 ≤ q.val) :
    0 ≤ (SednetGully.dailyRunoffFactor q ltrf drpf).val := by
  unfold SednetGully.dailyRunoffFactor
  by_cases h : ltrf > 0
  · rw [if_pos h]
    rw [RNum.gt_iff, RNum.nat_zero_val] at h
    dsimp only
    exact RNum.div_nonneg (by rw [RNum.pow_val]; exact R.rnd_nonneg (Real.rpow_nonneg hq _)) h.le
  · rw [if_neg h]; exact RNum.sci_nonneg _ _ _

/-- `gullyLoadOrig`: non-negative drivers and a fine proportion in `[0, rnd 1]` ⇒ both loads non-negative -/
theorem gullyLoadOrig_nonneg (q ar area pf af mpf al supply ltrf drpf : RNum R) (hq : 0 ≤ q.val)
    (hpf0 : 0 ≤ pf.val) (hpf1 : pf.val ≤ R.rnd 1) (haf : 0 ≤ af.val) (hmpf : 0 ≤ mpf.val) (hsup : 0 ≤ supply.val) :
    0 ≤ (SednetGully.gullyLoadOrig q ar area pf af mpf al supply ltrf drpf).1.val ∧
    0 ≤ (SednetGully.gullyLoadOrig q ar area pf af mpf al supply ltrf drpf).2.val := by
  have ha : 0 ≤ ((1 : RNum R) / 365.25).val := RNum.div_nonneg (RNum.ofNat_nonneg _) (RNum.sci_nonneg _ _ _)
  have hd := gully_dailyRunoffFactor_nonneg q ltrf drpf hq
  simp only [SednetGully.gullyLoadOrig]
  exact ⟨RNum.mul_nonneg (RNum.mul_nonneg (RNum.mul_nonneg (RNum.mul_nonneg (RNum.mul_nonneg (RNum.mul_nonneg ha hd) hpf0) haf)
      hmpf) hsup) (RNum.ofNat_nonneg _),
    RNum.mul_nonneg (RNum.mul_nonneg (RNum.mul_nonneg (RNum.mul_nonneg (RNum.mul_nonneg ha hd)
      (one_sub_nonneg_of_le_rnd_one pf hpf1)) hsup) hmpf) (RNum.ofNat_nonneg _)⟩

/-- `gullyLoadDerm`: the same for the alternative export function (area, annual runoff and annual load non-negative) -/
theorem gullyLoadDerm_nonneg (q ar area pf af mpf al supply ltrf drpf : RNum R) (hq : 0 ≤ q.val) (har : 0 ≤ ar.val)
    (harea : 0 ≤ area.val) (hpf0 : 0 ≤ pf.val) (hpf1 : pf.val ≤ R.rnd 1) (haf : 0 ≤ af.val) (hmpf : 0 ≤ mpf.val)
    (hal : 0 ≤ al.val) :
    0 ≤ (SednetGully.gullyLoadDerm q ar area pf af mpf al supply ltrf drpf).1.val ∧
    0 ≤ (SednetGully.gullyLoadDerm q ar area pf af mpf al supply ltrf drpf).2.val := by
  have hdepth : 0 ≤ (q / area * Units.metresToMillimetres * Units.secondsPerDay / ar).val :=
    RNum.div_nonneg (RNum.mul_nonneg (RNum.mul_nonneg (RNum.div_nonneg hq harea) (RNum.ofNat_nonneg _)) (RNum.ofNat_nonneg _)) har
  simp only [SednetGully.gullyLoadDerm]
  exact ⟨RNum.mul_nonneg (RNum.mul_nonneg (RNum.mul_nonneg hdepth hpf0) haf) (RNum.mul_nonneg hmpf hal),
    RNum.mul_nonneg (RNum.mul_nonneg hdepth (one_sub_nonneg_of_le_rnd_one pf hpf1)) (RNum.mul_nonneg hmpf hal)⟩

/-- one timestep for an arbitrary export function whose two loads are non-negative at this timestep's arguments -/
theorem gully_step_nonneg (f : SednetGully.ExportFn (RNum R)) (p : SednetGully.Params (RNum R))
    (hts : 0 ≤ p.timestepInSeconds.val) (hsf : 0 ≤ p.sdrFine.val) (hsc : 0 ≤ p.sdrCoarse.val) (q yr ar al : RNum R)
    (hloads : 0 ≤ (f q ar p.area (p.percentFine / 100) (SednetGully.activityFactor p yr) p.managementPracticeFactor al
        p.annualAverageSedimentSupply p.longtermRunoffFactor p.dailyRunoffPowerFactor).1.val ∧
      0 ≤ (f q ar p.area (p.percentFine / 100) (SednetGully.activityFactor p yr) p.managementPracticeFactor al
        p.annualAverageSedimentSupply p.longtermRunoffFactor p.dailyRunoffPowerFactor).2.val) :
    0 ≤ (SednetGully.step f p (q, yr, ar, al)).fineLoad.val ∧ 0 ≤ (SednetGully.step f p (q, yr, ar, al)).coarseLoad.val ∧
    0 ≤ (SednetGully.step f p (q, yr, ar, al)).generatedFine.val ∧
    0 ≤ (SednetGully.step f p (q, yr, ar, al)).generatedCoarse.val := by
  have h001 : 0 ≤ (0.01 : RNum R).val := RNum.sci_nonneg _ _ _
  simp only [SednetGully.step]
  split_ifs
  · exact ⟨by rw [RNum.nat_zero_val], by rw [RNum.nat_zero_val], le_refl _, le_refl _⟩
  · exact ⟨by rw [RNum.nat_zero_val], by rw [RNum.nat_zero_val], le_refl _, le_refl _⟩
  · exact ⟨RNum.mul_nonneg (RNum.div_nonneg hloads.1 hts) (RNum.mul_nonneg hsf h001),
      RNum.mul_nonneg (RNum.div_nonneg hloads.2 hts) (RNum.mul_nonneg hsc h001),
      RNum.div_nonneg hloads.1 hts, RNum.div_nonneg hloads.2 hts⟩

/-- the maximum-concentration adjustment keeps non-negative rates non-negative (the adjustment factor `allowed ⊘ current` is a
quotient of non-negative numbers) -/
theorem usle_adjustedRates_nonneg (p : UsleFine.Params (RNum R)) (qf F C : RNum R) (hq : 0 ≤ qf.val) (hF : 0 ≤ F.val)
    (hC : 0 ≤ C.val) (harea : 0 ≤ p.area.val) (hmax : 0 ≤ p.maxConc.val) :
    0 ≤ (UsleFine.adjustedRates p qf F C).1.val ∧ 0 ≤ (UsleFine.adjustedRates p qf F C).2.val := by
  have hlpd : 0 ≤ (UsleFine.litresPerDay qf).val := by
    unfold UsleFine.litresPerDay
    exact RNum.mul_nonneg (RNum.mul_nonneg hq (RNum.sci_nonneg _ _ _)) (RNum.ofNat_nonneg _)
  have hcur : 0 ≤ (F * p.area * Units.squareMetresToHectares * Units.tonnesToKg).val :=
    RNum.mul_nonneg (RNum.mul_nonneg (RNum.mul_nonneg hF harea) (RNum.sci_nonneg _ _ _)) (RNum.ofNat_nonneg _)
  have hadj : 0 ≤ (p.maxConc * UsleFine.litresPerDay qf / Units.kgToMilligram /
      (F * p.area * Units.squareMetresToHectares * Units.tonnesToKg)).val :=
    RNum.div_nonneg (RNum.div_nonneg (RNum.mul_nonneg hmax hlpd) (RNum.ofNat_nonneg _)) hcur
  simp only [UsleFine.adjustedRates]
  split_ifs
  · exact ⟨RNum.mul_nonneg hF hadj, RNum.mul_nonneg hC hadj⟩
  · exact ⟨hF, hC⟩

end OW.Rounded.Sediment
