import OW.Proofs.WrapperNdRefine
/-!
Helper lemmas for `runNd_refines` (C04Nd): the cell step in denotation form (`cell_step_denotes`) and the loop over
the cells (`runCellsNd_loop`).
-/
namespace OW.WrapperNd
open OW OW.Nd OW.Sim OW.Sim.WrapperNd

section
variable {α : Type}

theorem rowAt_congr (a b : List α) (pos len : Nat) (h : ∀ k, k < len → a[pos + k]? = b[pos + k]?) :
    rowAt a pos len = rowAt b pos len := by
  apply List.ext_getElem?
  intro k
  by_cases hk : k < len
  · rw [rowAt_getElem? _ _ _ _ hk, rowAt_getElem? _ _ _ _ hk, h k hk]
  · simp [rowAt, List.getElem?_take, hk]

theorem mat_congr (a b : List α) (base R C : Nat) (h : ∀ q, base ≤ q → q < base + R * C → a[q]? = b[q]?) :
    mat a base R C = mat b base R C := by
  unfold mat
  apply List.map_congr_left
  intro r hr
  have hr' := List.mem_range.mp hr
  apply rowAt_congr
  intro k hk
  have := nat_row_lt (n := C) (s := k) hr' hk
  exact h _ (by omega) (by omega)

theorem getElem?_of_cell {h : Heap α} {sid : Nat} {st : List α} (hs : h[sid]? = some st) (q : Nat) :
    cell h sid q = st[q]? := by simp [cell, hs]

end

section
variable {α : Type} [Num α]

/-- shapes of what `cellStep` returns: the state row and every output row keep their lengths -/
theorem cellStep_rows (km : KModel α) (spec : ParamSpec) (lay : List (Nat × Nat)) (params : List (List α))
    (inputs : List (List (List α))) (i : Nat) (st : List α) (orow : List (List α)) (s' : List α) (o' : List (List α))
    (h : cellStep km spec lay params inputs i st orow = .ok (s', o')) :
    s'.length = st.length ∧ o'.length = orow.length ∧
      ∀ o (ho : o < orow.length), ∃ row, o'[o]? = some row ∧ row.length = (orow[o]).length := by
  rw [Props.C04.cellStep_blocks _ _ _ _ _ _ _ _ (Props.C04.cellStep_ok_blocks h)] at h
  cases hp : cellParams spec lay params i with
  | error e => simp [hp, bind, Except.bind] at h
  | ok p =>
    cases hr : km.run p (inputs[i % inputs.length]?.getD []) st with
    | error e => simp [hp, hr, bind, Except.bind] at h
    | ok r =>
      simp only [hp, hr, bind, Except.bind, pure, Except.pure] at h
      injection h with h
      injection h with hs ho
      subst hs; subst ho
      refine ⟨Props.C04.overwrite_length _ _, ?_, fun o ho => ?_⟩
      · simp only [List.length_map, List.length_zip, List.length_append, List.length_replicate]; omega
      · have hpl : o < (r.outputs ++ List.replicate (orow.length - r.outputs.length) ([] : List α)).length := by
          simp only [List.length_append, List.length_replicate]; omega
        refine ⟨overwrite orow[o] ((r.outputs ++ List.replicate (orow.length - r.outputs.length) ([] : List α))[o]), ?_,
          Props.C04.overwrite_length _ _⟩
        rw [List.getElem?_map]
        have : (orow.zip (r.outputs ++ List.replicate (orow.length - r.outputs.length) ([] : List α)))[o]? =
            some (orow[o], (r.outputs ++ List.replicate (orow.length - r.outputs.length) ([] : List α))[o]) :=
          List.getElem?_zip_eq_some.mpr ⟨List.getElem?_eq_getElem ho, List.getElem?_eq_getElem hpl⟩
        rw [this]; rfl

/-- **cell_step_denotes.** `cellStepNd_refines` with the resulting heap described by its storages: the states and
outputs storages change exactly in row `i` / rows `(i,·,·)`, where they hold `cellStep`'s result; every other storage is
the same list as before. -/
theorem cell_step_denotes (km : KModel α) {h : Heap α} {parameters inputs states outputs : Arr}
    {rows nSets nIn nI T N nS M nO T' nP i pb ib sb ob : Nat} {pst ist sst ost : List α}
    (rp : RootOn h parameters [(rows : Int), (nSets : Int)])
    (ri : RootOn h inputs [(nIn : Int), (nI : Int), (T : Int)])
    (rs : RootOn h states [(N : Int), (nS : Int)])
    (ro : RootOn h outputs [(M : Int), (nO : Int), (T' : Int)])
    (hpb : parameters.base = (pb : Int)) (hib : inputs.base = (ib : Int)) (hsb : states.base = (sb : Int))
    (hob : outputs.base = (ob : Int))
    (hp : h[parameters.sid]? = some pst) (hi : h[inputs.sid]? = some ist)
    (hs : h[states.sid]? = some sst) (ho : h[outputs.sid]? = some ost)
    (hso : states.sid ≠ outputs.sid)
    (hnP : nP ≤ rows) (hiN : i < N) (hiM : i < M) (hT : T ≤ T')
    {rd : RunDims} (hrd : runDims inputs states outputs = .ok rd)
    (hK : ∀ p ins st r, ins.length = nI → (∀ s ∈ ins, s.length = T) → st.length = nS → km.run p ins st = .ok r →
      r.outputs.length ≤ nO ∧ (∀ ser ∈ r.outputs, ser.length ≤ T) ∧ r.states.length ≤ nS)
    {s' : List α} {o' : List (List α)}
    (hcs : cellStep km (List.replicate nP none) ((List.range nP).map fun j => (j, 1)) (mat pst pb rows nSets)
      (cube ist ib nIn nI T) i (rowAt sst (sb + i * nS) nS) (mat ost (ob + i * (nO * T')) nO T') = .ok (s', o')) :
    ∃ h' sst' ost', cellStepNd km.run nP nI h parameters inputs states outputs rd (i : Int) = .ok h' ∧
      SameShape h h' ∧ h'[states.sid]? = some sst' ∧ h'[outputs.sid]? = some ost' ∧
      (∀ u, u ≠ states.sid → u ≠ outputs.sid → h'[u]? = h[u]?) ∧
      (∀ q, (q < sb + i * nS ∨ sb + i * nS + nS ≤ q) → sst'[q]? = sst[q]?) ∧
      (∀ q, (q < ob + i * (nO * T') ∨ ob + i * (nO * T') + nO * T' ≤ q) → ost'[q]? = ost[q]?) ∧
      rowAt sst' (sb + i * nS) nS = s' ∧ mat ost' (ob + i * (nO * T')) nO T' = o' := by
  obtain ⟨h', hstep, hss, hS, hO, hF⟩ :=
    (cellStepNd_refines km rp ri rs ro hpb hib hsb hob hp hi hs ho hso hnP hiN hiM hT hrd hK).2 s' o' hcs
  obtain ⟨sst', hs', hsl⟩ := hss.store hs
  obtain ⟨ost', ho', hol⟩ := hss.store ho
  have hsfit := rs.row_fits hsb hs hiN
  obtain ⟨hsl', hol', hrows⟩ := cellStep_rows km _ _ _ _ _ _ _ _ _ hcs
  rw [rowAt_length hsfit] at hsl'
  rw [mat_length] at hol'
  have hpos : ∀ o t, ob + (i * nO + o) * T' + t = ob + i * (nO * T') + o * T' + t := by
    intro o t; rw [Nat.add_mul, Nat.mul_assoc]; omega
  refine ⟨h', sst', ost', hstep, hss, hs', ho', fun u hu1 hu2 => ?_, fun q hq => ?_, fun q hq => ?_, ?_, ?_⟩
  · -- other storages
    have hc : ∀ q, cell h' u q = cell h u q := fun q =>
      hF u q (fun c => hu1 c.1) (fun c => hu2 c.1)
    have hl := hss.2 u
    cases ha : h[u]? with
    | none =>
      cases hb : h'[u]? with
      | none => rfl
      | some b => rw [ha, hb] at hl; simp at hl
    | some a =>
      cases hb : h'[u]? with
      | none => rw [ha, hb] at hl; simp at hl
      | some b =>
        congr 1
        apply List.ext_getElem?
        intro q
        have := hc q
        rwa [getElem?_of_cell hb, getElem?_of_cell ha] at this
  · rw [← getElem?_of_cell hs', ← getElem?_of_cell hs]
    exact hF _ _ (by rintro ⟨_, s, s1, rfl⟩; omega) (fun c => hso c.1)
  · rw [← getElem?_of_cell ho', ← getElem?_of_cell ho]
    refine hF _ _ (fun c => hso c.1.symm) ?_
    rintro ⟨_, o, t, o1, t1, rfl⟩
    have := nat_row_lt (n := T') (s := t) o1 t1
    rw [hpos] at hq
    omega
  · -- the state row
    apply List.ext_getElem?
    intro k
    by_cases hk : k < nS
    · rw [rowAt_getElem? _ _ _ _ hk, ← getElem?_of_cell hs', hS k hk]
    · have e1 : s'[k]? = none := List.getElem?_eq_none (by rw [hsl']; omega)
      have e2 : (rowAt sst' (sb + i * nS) nS)[k]? = none := by simp [rowAt, List.getElem?_take, hk]
      rw [e1, e2]
  · -- the output rows
    apply List.ext_getElem?
    intro o
    by_cases ho1 : o < nO
    · rw [mat_getElem? _ _ _ _ _ ho1]
      obtain ⟨row, hrow, hrl⟩ := hrows o (by rw [mat_length]; exact ho1)
      have hfit := ro.row_fits3 hob ho hiM ho1
      have hrl' : row.length = T' := by
        rw [hrl]
        have := mat_getElem? ost (ob + i * (nO * T')) nO T' o ho1
        rw [List.getElem?_eq_getElem (by rw [mat_length]; exact ho1)] at this
        injection this with this
        rw [this, rowAt_length (by have := hpos o 0; omega)]
      rw [hrow]
      congr 1
      apply List.ext_getElem?
      intro t
      by_cases ht : t < T'
      · rw [rowAt_getElem? _ _ _ _ ht, ← getElem?_of_cell ho']
        have := hO o t ho1 ht
        rw [hpos, hrow] at this
        rw [this]; rfl
      · have e1 : row[t]? = none := List.getElem?_eq_none (by rw [hrl']; omega)
        have e2 : (rowAt ost' (ob + i * (nO * T') + o * T') T')[t]? = none := by simp [rowAt, List.getElem?_take, ht]
        rw [e1, e2]
    · rw [List.getElem?_eq_none (by rw [mat_length]; omega), List.getElem?_eq_none (by rw [hol']; omega)]

/-- **runCellsNd_loop.** The loop over the cells `i0, …, N-1`, started in a heap whose rows `≥ i0` of the states and
outputs storages are still the original ones: it does not panic, and afterwards these rows hold the results `S k`, `O k`
of the list-level `cellStep` on the ORIGINAL rows; positions before row `i0` and after row `N-1`, and all other
storages, are unchanged. -/
theorem runCellsNd_loop (km : KModel α) {parameters inputs states outputs : Arr}
    {rows nSets nIn nI T N nS M nO T' nP pb ib sb ob : Nat} {pst ist sst0 ost0 : List α}
    (hpb : parameters.base = (pb : Int)) (hib : inputs.base = (ib : Int)) (hsb : states.base = (sb : Int))
    (hob : outputs.base = (ob : Int))
    (hso : states.sid ≠ outputs.sid) (hps : parameters.sid ≠ states.sid) (hpo : parameters.sid ≠ outputs.sid)
    (his : inputs.sid ≠ states.sid) (hio : inputs.sid ≠ outputs.sid)
    (hnP : nP ≤ rows) (hNM : N ≤ M) (hT : T ≤ T')
    {rd : RunDims} (hrd : runDims inputs states outputs = .ok rd)
    (hK : ∀ p ins st r, ins.length = nI → (∀ s ∈ ins, s.length = T) → st.length = nS → km.run p ins st = .ok r →
      r.outputs.length ≤ nO ∧ (∀ ser ∈ r.outputs, ser.length ≤ T) ∧ r.states.length ≤ nS)
    (S : Nat → List α) (O : Nat → List (List α))
    (hcell : ∀ k, k < N → cellStep km (List.replicate nP none) ((List.range nP).map fun j => (j, 1))
      (mat pst pb rows nSets) (cube ist ib nIn nI T) k (rowAt sst0 (sb + k * nS) nS)
      (mat ost0 (ob + k * (nO * T')) nO T') = .ok (S k, O k)) :
    ∀ (n i0 : Nat) (h : Heap α) (sst ost : List α), i0 + n = N →
      RootOn h parameters [(rows : Int), (nSets : Int)] → RootOn h inputs [(nIn : Int), (nI : Int), (T : Int)] →
      RootOn h states [(N : Int), (nS : Int)] → RootOn h outputs [(M : Int), (nO : Int), (T' : Int)] →
      h[parameters.sid]? = some pst → h[inputs.sid]? = some ist → h[states.sid]? = some sst →
      h[outputs.sid]? = some ost →
      (∀ k, i0 ≤ k → k < N → rowAt sst (sb + k * nS) nS = rowAt sst0 (sb + k * nS) nS ∧
        mat ost (ob + k * (nO * T')) nO T' = mat ost0 (ob + k * (nO * T')) nO T') →
      ∃ h' sst' ost', runCellsNd km.run nP nI parameters inputs states outputs rd n (i0 : Int) h = .ok h' ∧
        SameShape h h' ∧ h'[states.sid]? = some sst' ∧ h'[outputs.sid]? = some ost' ∧
        (∀ u, u ≠ states.sid → u ≠ outputs.sid → h'[u]? = h[u]?) ∧
        (∀ q, (q < sb + i0 * nS ∨ sb + N * nS ≤ q) → sst'[q]? = sst[q]?) ∧
        (∀ q, (q < ob + i0 * (nO * T') ∨ ob + N * (nO * T') ≤ q) → ost'[q]? = ost[q]?) ∧
        (∀ k, i0 ≤ k → k < N → rowAt sst' (sb + k * nS) nS = S k ∧ mat ost' (ob + k * (nO * T')) nO T' = O k)
  | 0, i0, h, sst, ost, hn, _, _, _, _, _, _, hs, ho, _ =>
    ⟨h, sst, ost, rfl, SameShape.refl h, hs, ho, fun _ _ _ => rfl, fun _ _ => rfl, fun _ _ => rfl,
      fun k k0 k1 => by omega⟩
  | n + 1, i0, h, sst, ost, hn, rp, ri, rs, ro, hp, hi, hs, ho, hrows => by
    have hi0 : i0 < N := by omega
    have hcs := hcell i0 hi0
    rw [← (hrows i0 (Nat.le_refl _) hi0).1, ← (hrows i0 (Nat.le_refl _) hi0).2] at hcs
    obtain ⟨h1, sst1, ost1, hstep, hss1, hs1, ho1, hoth1, hfS1, hfO1, hrS1, hrO1⟩ :=
      cell_step_denotes km rp ri rs ro hpb hib hsb hob hp hi hs ho hso hnP hi0 (by omega) hT hrd hK hcs
    have hp1 : h1[parameters.sid]? = some pst := by rw [hoth1 _ hps hpo]; exact hp
    have hi1 : h1[inputs.sid]? = some ist := by rw [hoth1 _ his hio]; exact hi
    have hsucc : ∀ X : Nat, (i0 + 1) * X = i0 * X + X := fun X => Nat.succ_mul i0 X
    have hmono : ∀ k X : Nat, i0 + 1 ≤ k → (i0 + 1) * X ≤ k * X := fun k X hk => Nat.mul_le_mul_right X hk
    have hrows1 : ∀ k, i0 + 1 ≤ k → k < N → rowAt sst1 (sb + k * nS) nS = rowAt sst0 (sb + k * nS) nS ∧
        mat ost1 (ob + k * (nO * T')) nO T' = mat ost0 (ob + k * (nO * T')) nO T' := by
      intro k k0 k1
      obtain ⟨e1, e2⟩ := hrows k (by omega) k1
      have m1 := hmono k nS k0
      have m2 := hmono k (nO * T') k0
      rw [hsucc] at m1 m2
      refine ⟨?_, ?_⟩
      · rw [← e1]
        exact rowAt_congr _ _ _ _ (fun j _ => hfS1 _ (by omega))
      · rw [← e2]
        exact mat_congr _ _ _ _ _ (fun q q0 _ => hfO1 q (by omega))
    obtain ⟨h', sst', ost', hrun, hss', hs', ho', hoth', hfS', hfO', hres'⟩ :=
      runCellsNd_loop km hpb hib hsb hob hso hps hpo his hio hnP hNM hT hrd hK S O hcell n (i0 + 1) h1 sst1 ost1
        (by omega) (rp.sameShape hss1) (ri.sameShape hss1) (rs.sameShape hss1) (ro.sameShape hss1) hp1 hi1 hs1 ho1 hrows1
    have mN1 := hmono N nS (by omega)
    have mN2 := hmono N (nO * T') (by omega)
    rw [hsucc] at mN1 mN2
    refine ⟨h', sst', ost', ?_, hss1.trans hss', hs', ho', fun u u1 u2 => ?_, fun q hq => ?_, fun q hq => ?_,
      fun k k0 k1 => ?_⟩
    · simp only [runCellsNd, hstep, bind, Except.bind]
      rw [← hrun]; congr 1
    · rw [hoth' u u1 u2, hoth1 u u1 u2]
    · rw [hfS' q (by rw [hsucc]; omega), hfS1 q (by omega)]
    · rw [hfO' q (by rw [hsucc]; omega), hfO1 q (by omega)]
    · rcases Nat.eq_or_lt_of_le k0 with e | hlt
      · subst e
        refine ⟨?_, ?_⟩
        · rw [← hrS1]
          exact rowAt_congr _ _ _ _ (fun j hj => hfS' _ (by rw [hsucc]; omega))
        · rw [← hrO1]
          exact mat_congr _ _ _ _ _ (fun q _ q1 => hfO' q (by rw [hsucc]; omega))
      · exact hres' k (by omega) k1

/-- the whole `Run` (sequential schedule) through the views is `runCells` (statement and comments:
`OW.Props.C04Nd.runNd_refines`) -/
theorem runNd_eq_runCells (km : KModel α) {h : Heap α} {parameters inputs states outputs : Arr}
    {rows nSets nIn nI T N nS M nO T' nP pb ib sb ob : Nat} {pst ist sst ost : List α}
    (rp : RootOn h parameters [(rows : Int), (nSets : Int)])
    (ri : RootOn h inputs [(nIn : Int), (nI : Int), (T : Int)])
    (rs : RootOn h states [(N : Int), (nS : Int)])
    (ro : RootOn h outputs [(M : Int), (nO : Int), (T' : Int)])
    (hpb : parameters.base = (pb : Int)) (hib : inputs.base = (ib : Int)) (hsb : states.base = (sb : Int))
    (hob : outputs.base = (ob : Int))
    (hp : h[parameters.sid]? = some pst) (hi : h[inputs.sid]? = some ist)
    (hs : h[states.sid]? = some sst) (ho : h[outputs.sid]? = some ost)
    (hso : states.sid ≠ outputs.sid) (hps : parameters.sid ≠ states.sid) (hpo : parameters.sid ≠ outputs.sid)
    (his : inputs.sid ≠ states.sid) (hio : inputs.sid ≠ outputs.sid)
    (hnP : nP ≤ rows) (hNM : N ≤ M) (hT : T ≤ T')
    (hK : ∀ p ins st r, ins.length = nI → (∀ s ∈ ins, s.length = T) → st.length = nS → km.run p ins st = .ok r →
      r.outputs.length ≤ nO ∧ (∀ ser ∈ r.outputs, ser.length ≤ T) ∧ r.states.length ≤ nS)
    {ss : List (List α)} {os : List (List (List α))}
    (hrun : runCells km (List.replicate nP none) ((List.range nP).map fun j => (j, 1)) (mat pst pb rows nSets)
      (cube ist ib nIn nI T) 0 (mat sst sb N nS) (cube ost ob M nO T') = .ok (ss, os)) :
    ∃ h' sst' ost', runNd km.run nP nI h parameters inputs states outputs = .ok h' ∧ SameShape h h' ∧
      h'[states.sid]? = some sst' ∧ h'[outputs.sid]? = some ost' ∧
      (∀ u, u ≠ states.sid → u ≠ outputs.sid → h'[u]? = h[u]?) ∧
      mat sst' sb N nS = ss ∧ cube ost' ob M nO T' = os ∧
      (∀ q, (q < sb ∨ sb + N * nS ≤ q) → sst'[q]? = sst[q]?) ∧
      (∀ q, (q < ob ∨ ob + N * (nO * T') ≤ q) → ost'[q]? = ost[q]?) := by
  obtain ⟨hl1, hl2, _, hk, hrest⟩ := Props.C04.runCells_spec km _ _ _ _ _ _ _ _ _ hrun
  rw [mat_length] at hl1
  rw [cube_length] at hl2
  have hcell : ∀ k, k < N → cellStep km (List.replicate nP none) ((List.range nP).map fun j => (j, 1))
      (mat pst pb rows nSets) (cube ist ib nIn nI T) k (rowAt sst (sb + k * nS) nS)
      (mat ost (ob + k * (nO * T')) nO T') = .ok (ss[k]?.getD [], os[k]?.getD []) := by
    intro k k1
    obtain ⟨s', o', e, e1, e2⟩ := hk k (by rw [mat_length]; exact k1) (by rw [cube_length]; omega)
    have c1 : (mat sst sb N nS)[k]'(by rw [mat_length]; exact k1) = rowAt sst (sb + k * nS) nS := by
      have := mat_getElem? sst sb N nS k k1
      rw [List.getElem?_eq_getElem (by rw [mat_length]; exact k1)] at this
      injection this
    have c2 : (cube ost ob M nO T')[k]'(by rw [cube_length]; omega) = mat ost (ob + k * (nO * T')) nO T' := by
      have := cube_getElem? ost ob M nO T' k (by omega)
      rw [List.getElem?_eq_getElem (by rw [cube_length]; omega)] at this
      injection this
    rw [c1, c2, Nat.zero_add] at e
    rw [e, e1, e2]; rfl
  have hrd := runDims_eq ri.view rs.view ro.view
  obtain ⟨h', sst', ost', hloop, hss, hs', ho', hoth, hfS, hfO, hres⟩ :=
    runCellsNd_loop km hpb hib hsb hob hso hps hpo his hio hnP hNM hT hrd hK _ _ hcell N 0 h sst ost (by omega)
      rp ri rs ro hp hi hs ho (fun _ _ _ => ⟨rfl, rfl⟩)
  refine ⟨h', sst', ost', ?_, hss, hs', ho', hoth, ?_, ?_, fun q hq => hfS q (by omega), fun q hq => hfO q (by omega)⟩
  · unfold runNd
    simp only [hrd, bind, Except.bind, Int.toNat_natCast]
    exact hloop
  · apply List.ext_getElem?
    intro k
    by_cases k1 : k < N
    · obtain ⟨s', o', _, e1, _⟩ := hk k (by rw [mat_length]; exact k1) (by rw [cube_length]; omega)
      rw [mat_getElem? _ _ _ _ _ k1, (hres k (Nat.zero_le _) k1).1, e1]; rfl
    · rw [List.getElem?_eq_none (by rw [mat_length]; omega), List.getElem?_eq_none (by omega)]
  · apply List.ext_getElem?
    intro k
    by_cases k1 : k < N
    · obtain ⟨s', o', _, _, e2⟩ := hk k (by rw [mat_length]; exact k1) (by rw [cube_length]; omega)
      rw [cube_getElem? _ _ _ _ _ _ (by omega), (hres k (Nat.zero_le _) k1).2, e2]; rfl
    · by_cases k2 : k < M
      · rw [hrest k (by rw [mat_length]; omega), cube_getElem? _ _ _ _ _ _ k2, cube_getElem? _ _ _ _ _ _ k2]
        congr 1
        have hm : N * (nO * T') ≤ k * (nO * T') := Nat.mul_le_mul_right _ (by omega)
        exact mat_congr _ _ _ _ _ (fun q q0 _ => hfO q (by omega))
      · rw [List.getElem?_eq_none (by rw [cube_length]; omega), List.getElem?_eq_none (by omega)]

end
end OW.WrapperNd
