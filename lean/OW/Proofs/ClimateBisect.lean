import OW.Proofs.Climate
import Mathlib.Topology.Order.IntermediateValue
import Mathlib.Algebra.Order.Group.Pointwise.Interval
import Mathlib.Order.Interval.Set.UnorderedInterval
/-!
The wet-bulb bisection (`bisect`, the loop of `calcWetBulb`) as a bracketing algorithm, at `α := ℝ`.

State of the loop: `(rtb, dx)`; the bracket is the unordered interval `[[rtb, rtb + dx]]` (`dx` may be negative: the dew point
may exceed the dry bulb). One iteration halves `dx` and moves `rtb` to the midpoint iff `f mid < h`. Hence, whatever the sign of
`dx`, the invariant `f rtb < h ≤ f (rtb + dx)` is preserved, the bracket is nested, and after `k` executed iterations its signed
width is `dx₀ / 2^k`. The loop stops after `k = n` iterations or as soon as `|dx| < acc`.
-/
namespace OW.Proofs.Climate
open OW OW.Kernels.Climate Set

theorem acc_eq : (acc : ℝ) = 0.0001 := rfl

/-- the midpoint and both ends of a half bracket lie in the bracket -/
theorem mid_mem_uIcc (rtb dx : ℝ) : rtb + dx * 0.5 ∈ uIcc rtb (rtb + dx) := by
  rw [mem_uIcc]
  rcases le_total 0 dx with h | h
  · left; constructor <;> nlinarith
  · right; constructor <;> nlinarith

/-- **Invariant of the bisection** (any `f`, any sign of `dx`, no continuity): if `f rtb < h ≤ f (rtb + dx)` on entry, then the
returned point `r` and the final signed width `w = dx / 2^k` (`k ≤ n` iterations executed) satisfy
`f r < h ≤ f (r + w)`, the final bracket is inside the initial one, and the loop ended either by the accuracy test
(`|w| < acc`) or by exhausting the `n` iterations (`k = n`). -/
theorem bisect_invariant (f : ℝ → ℝ) (h : ℝ) (n : Nat) (rtb dx : ℝ)
    (hlo : f rtb < h) (hhi : h ≤ f (rtb + dx)) :
    ∃ k : Nat, k ≤ n ∧
      f (bisect f h n rtb dx) < h ∧ h ≤ f (bisect f h n rtb dx + dx / 2 ^ k) ∧
      (|dx / 2 ^ k| < 0.0001 ∨ k = n) ∧
      uIcc (bisect f h n rtb dx) (bisect f h n rtb dx + dx / 2 ^ k) ⊆ uIcc rtb (rtb + dx) := by
  induction n generalizing rtb dx with
  | zero =>
    refine ⟨0, le_refl _, ?_, ?_, Or.inr rfl, ?_⟩
    · simp only [bisect]; exact hlo
    · simp only [bisect, pow_zero, div_one]; exact hhi
    · simp only [bisect, pow_zero, div_one]; exact subset_rfl
  | succ n ih =>
    have hmid := mid_mem_uIcc rtb dx
    have hhalf : dx * 0.5 = dx / 2 ^ 1 := by norm_num; ring
    have hend : rtb + dx * 0.5 + dx * 0.5 = rtb + dx := by ring
    have hw : ∀ k : Nat, dx / 2 ^ (k + 1) = dx * 0.5 / 2 ^ k := by
      intro k; rw [pow_succ]; field_simp; ring
    -- far end unchanged when rtb moves to the midpoint
    have hsubM : uIcc (rtb + dx * 0.5) (rtb + dx * 0.5 + dx * 0.5) ⊆ uIcc rtb (rtb + dx) := by
      apply uIcc_subset_uIcc hmid
      rw [hend]; exact right_mem_uIcc
    -- far end moves to the midpoint when rtb stays
    have hsubS : uIcc rtb (rtb + dx * 0.5) ⊆ uIcc rtb (rtb + dx) :=
      uIcc_subset_uIcc left_mem_uIcc hmid
    simp only [bisect]
    split_ifs with ha hm hm
    all_goals simp only [zero_lit] at hm
    all_goals (first
      | (have hm' : f (rtb + dx * 0.5) < h := sub_pos.mp hm)
      | (have hm' : h ≤ f (rtb + dx * 0.5) := sub_nonpos.mp (not_lt.mp hm)))
    · -- accuracy reached, rtb moved
      have ha' : |dx * 0.5| < (0.0001 : ℝ) := ha
      have hlo' : f (rtb + dx * 0.5) < h := hm'
      refine ⟨1, Nat.succ_le_succ (Nat.zero_le _), ?_⟩
      rw [← hhalf]
      exact ⟨hlo', by rw [hend]; exact hhi, Or.inl ha', hsubM⟩
    · -- accuracy reached, rtb stays
      have ha' : |dx * 0.5| < (0.0001 : ℝ) := ha
      have hhi' : h ≤ f (rtb + dx * 0.5) := hm'
      refine ⟨1, Nat.succ_le_succ (Nat.zero_le _), ?_⟩
      rw [← hhalf]
      exact ⟨hlo, hhi', Or.inl ha', hsubS⟩
    · -- continue from the midpoint
      have hlo' : f (rtb + dx * 0.5) < h := hm'
      obtain ⟨k, hk, h1, h2, h3, h4⟩ :=
        ih (rtb + dx * 0.5) (dx * 0.5) hlo' (by rw [hend]; exact hhi)
      refine ⟨k + 1, Nat.succ_le_succ hk, ?_⟩
      rw [hw k]
      refine ⟨h1, h2, ?_, h4.trans hsubM⟩
      rcases h3 with h3 | h3
      · exact Or.inl h3
      · exact Or.inr (by rw [h3])
    · -- continue from the same rtb
      have hhi' : h ≤ f (rtb + dx * 0.5) := hm'
      obtain ⟨k, hk, h1, h2, h3, h4⟩ := ih rtb (dx * 0.5) hlo hhi'
      refine ⟨k + 1, Nat.succ_le_succ hk, ?_⟩
      rw [hw k]
      refine ⟨h1, h2, ?_, h4.trans hsubS⟩
      rcases h3 with h3 | h3
      · exact Or.inl h3
      · exact Or.inr (by rw [h3])

/-- a level crossing inside a bracket `[[r, r + w]]` whose ends are on opposite sides of `h`, for `f` continuous there -/
theorem crossing_in_bracket (f : ℝ → ℝ) (h r w : ℝ) (hc : ContinuousOn f (uIcc r (r + w)))
    (hlo : f r < h) (hhi : h ≤ f (r + w)) : ∃ c ∈ uIcc r (r + w), f c = h ∧ |r - c| ≤ |w| := by
  have hmem : h ∈ uIcc (f r) (f (r + w)) := mem_uIcc.mpr (Or.inl ⟨hlo.le, hhi⟩)
  obtain ⟨c, hcm, hfc⟩ := intermediate_value_uIcc hc hmem
  refine ⟨c, hcm, hfc, ?_⟩
  have := abs_sub_left_of_mem_uIcc hcm
  rw [abs_sub_comm]
  simpa using this

end OW.Proofs.Climate
