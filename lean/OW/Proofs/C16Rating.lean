import OW.Proofs.C16Lemmas
import OW.Kernels.C16.Partitions
/-!
Helper lemmas for RatingCurvePartition (C16): the bracket search of util/fn Piecewise inside the table range.
-/
namespace OW.C16
open OW OW.Kernels

/-- the search loop of `brackets` finds a bracket as soon as some later abscissa is ≥ x -/
theorem bracketLoop_some (x : ℝ) (rest : List ℝ) (j : Nat) (h : ∃ v ∈ rest, x ≤ v) :
    ∃ k, Fn.bracketLoop x rest j = some (k - 1, k) ∧ j ≤ k ∧ k < j + rest.length := by
  induction rest generalizing j with
  | nil => obtain ⟨v, hv, _⟩ := h; cases hv
  | cons v rest ih =>
    unfold Fn.bracketLoop
    by_cases hx : x ≤ v
    · rw [if_pos hx]; exact ⟨j, rfl, le_refl _, by simp⟩
    · rw [if_neg hx]
      have h' : ∃ w ∈ rest, x ≤ w := by
        obtain ⟨w, hw, hxw⟩ := h
        rcases List.mem_cons.mp hw with rfl | hw
        · exact absurd hxw hx
        · exact ⟨w, hw, hxw⟩
      obtain ⟨k, hk, h1, h2⟩ := ih (j + 1) h'
      exact ⟨k, hk, by omega, by simp only [List.length_cons]; omega⟩

/-- inside the table range `brackets` returns two adjacent, valid row indices `(k-1, k)` (tables of ≥ 2 rows) -/
theorem brackets_inside (x0 x1 : ℝ) (rest : List ℝ) (x : ℝ)
    (hlo : x0 ≤ x) (hhi : x ≤ (x1 :: rest).getLast (List.cons_ne_nil _ _)) :
    ∃ k, 1 ≤ k ∧ k < (x0 :: x1 :: rest).length ∧ Fn.brackets x (x0 :: x1 :: rest) = .ok (some (k - 1, k)) := by
  have hmem : ∃ v ∈ x1 :: rest, x ≤ v := ⟨_, List.getLast_mem _, hhi⟩
  obtain ⟨k, hk, h1, h2⟩ := bracketLoop_some x (x1 :: rest) 1 hmem
  have hlast : (x0 :: x1 :: rest).getLast?.getD x0 = (x1 :: rest).getLast (List.cons_ne_nil _ _) := by
    simp [List.getLast?_eq_some_getLast]
  refine ⟨k, h1, by simp only [List.length_cons] at h2 ⊢; omega, ?_⟩
  unfold Fn.brackets
  simp only
  rw [if_neg (not_lt.mpr hlo), hlast, if_neg (not_lt.mpr hhi), hk]

end OW.C16
