import OW.Props.C04Nd
import OW.Props.C05
/-!
Helper definitions and lemmas for `OW/Props/C05Addr.lean`: the goroutine of one cell of the VIEW-LEVEL wrapper model
(`OW.Sim.WrapperNd.cellStepNd`, on the n-d array model) as an atomic `Step` of the generic interleaving model
(`OW.Sim.Interleave`) over ADDRESSES `(storage id, position)`, with its footprint given as lists of addresses.

Nothing here asserts a footprint: `frame` and `loc` of the step are PROVED from `C04Nd.wrapperNd_refines` (whose own
proof goes through `cell_views_states/_outputs/_inputs`, `param_decoding_scalar`).
-/
namespace OW.C05Addr
open OW OW.Nd OW.Sim OW.Sim.WrapperNd OW.WrapperNd OW.Sim.Interleave

/-- an address: (storage id, position in that storage) -/
abbrev Addr := Nat × Nat

/-- the four arrays of one `Run` call, their shapes `parameters [rows, nSets]`, `inputs [nIn, nI, T]`,
`states [N, nS]`, `outputs [M, nO, T']`, the number `nP` of scalar parameters and the `Impl` offsets -/
structure Cfg where
  P : Arr
  I : Arr
  S : Arr
  O : Arr
  rows : Nat
  nSets : Nat
  nIn : Nat
  nI : Nat
  T : Nat
  N : Nat
  nS : Nat
  M : Nat
  nO : Nat
  T' : Nat
  nP : Nat
  pb : Nat
  ib : Nat
  sb : Nat
  ob : Nat

/-- what the preamble of `Run` computes on these arrays (`C04Nd.runDims_roots`) -/
def Cfg.rd (c : Cfg) : RunDims :=
  { numCells := (c.N : Int), numStates := (c.nS : Int), numInputSequences := (c.nIn : Int), inputLen := (c.T : Int),
    cellInputsShape := [(c.nI : Int), (c.T : Int)], outputStepSlice := [1, 1, 1],
    outputSizeSlice := [1, 1, (c.T : Int)], statesSizeSlice := [1, (c.nS : Int)],
    inputsSizeSlice := [1, (c.nI : Int), (c.T : Int)] }

section
variable {α : Type}

/-- the hypotheses of `C04Nd.wrapperNd_refines` on a reference heap `h0` (only its SHAPE matters): root arrays, states and
outputs in different storages, `N ≤ M`, `T ≤ T'`, and
ROW WIDTH (`fits`): called on arguments of the shape the wrapper passes, the kernel returns at most `nO` series of at most
`T` values and a state vector that FITS THE CELL'S ROW (`r.states.length ≤ nS`). -/
structure Cfg.OK (c : Cfg) (km : KModel α) (h0 : Heap α) : Prop where
  rp : RootOn h0 c.P [(c.rows : Int), (c.nSets : Int)]
  ri : RootOn h0 c.I [(c.nIn : Int), (c.nI : Int), (c.T : Int)]
  rs : RootOn h0 c.S [(c.N : Int), (c.nS : Int)]
  ro : RootOn h0 c.O [(c.M : Int), (c.nO : Int), (c.T' : Int)]
  hpb : c.P.base = (c.pb : Int)
  hib : c.I.base = (c.ib : Int)
  hsb : c.S.base = (c.sb : Int)
  hob : c.O.base = (c.ob : Int)
  hso : c.S.sid ≠ c.O.sid
  hnP : c.nP ≤ c.rows
  hNM : c.N ≤ c.M
  hT : c.T ≤ c.T'
  fits : ∀ p ins st r, ins.length = c.nI → (∀ s ∈ ins, s.length = c.T) → st.length = c.nS → km.run p ins st = .ok r →
    r.outputs.length ≤ c.nO ∧ (∀ ser ∈ r.outputs, ser.length ≤ c.T) ∧ r.states.length ≤ c.nS

/-- STORAGE DISJOINTNESS (with `OK.hso`: the hypotheses of `C04Nd.views_disjoint`): parameters and inputs live in
storages different from those of states and outputs (parameters and inputs may share one) -/
structure Cfg.Sep (c : Cfg) : Prop where
  hps : c.P.sid ≠ c.S.sid
  hpo : c.P.sid ≠ c.O.sid
  his : c.I.sid ≠ c.S.sid
  hio : c.I.sid ≠ c.O.sid

/-! ### heaps and address-indexed memories -/

/-- storage `u` of a heap (empty if there is none) -/
def stor (h : Heap α) (u : Nat) : List α := (h[u]?).getD []

theorem stor_of_some {h : Heap α} {u : Nat} {st : List α} (e : h[u]? = some st) : stor h u = st := by simp [stor, e]

/-- the heap of the shape of `h0` whose cell `(u, q)` holds `m (u, q)` -/
def rebuild (h0 : Heap α) (m : Mem Addr α) : Heap α :=
  (List.range h0.length).map fun u => (List.range (stor h0 u).length).map fun q => m (u, q)

theorem rebuild_getElem? (h0 : Heap α) (m : Mem Addr α) (u : Nat) :
    (rebuild h0 m)[u]? = (h0[u]?).map fun st => (List.range st.length).map fun q => m (u, q) := by
  unfold rebuild
  rw [List.getElem?_map]
  by_cases hu : u < h0.length
  · rw [List.getElem?_range hu]
    simp [stor, List.getElem?_eq_getElem hu]
  · rw [List.getElem?_eq_none (by simpa using hu), List.getElem?_eq_none (by omega)]
    rfl

theorem sameShape_rebuild (h0 : Heap α) (m : Mem Addr α) : SameShape h0 (rebuild h0 m) := by
  refine ⟨by simp [rebuild], fun t => ?_⟩
  rw [rebuild_getElem?]
  cases h0[t]? <;> simp

theorem cell_rebuild (h0 : Heap α) (m : Mem Addr α) (u q : Nat) :
    cell (rebuild h0 m) u q = (cell h0 u q).map fun _ => m (u, q) := by
  unfold cell
  rw [rebuild_getElem?]
  cases h0[u]? with
  | none => rfl
  | some st =>
    simp only [Option.map_some, Option.bind_some]
    by_cases hq : q < st.length
    · simp [List.getElem?_map, List.getElem?_range hq, List.getElem?_eq_getElem hq]
    · simp [hq]

theorem stor_rebuild_getElem? (h0 : Heap α) (m : Mem Addr α) (u q : Nat) :
    (stor (rebuild h0 m) u)[q]? = (cell h0 u q).map fun _ => m (u, q) := by
  rw [← cell_rebuild]
  unfold stor cell
  cases (rebuild h0 m)[u]? <;> simp

/-- a heap of the shape of `h0` is rebuilt from any memory that holds its cells -/
theorem rebuild_eq_of_denotes {h0 h : Heap α} {m : Mem Addr α} (ss : SameShape h0 h)
    (hm : ∀ u q x, cell h u q = some x → m (u, q) = x) : rebuild h0 m = h := by
  apply List.ext_getElem?
  intro u
  rw [rebuild_getElem?]
  have hl := ss.2 u
  cases e0 : h0[u]? with
  | none =>
    cases e : h[u]? with
    | none => rfl
    | some st => rw [e0, e] at hl; simp at hl
  | some st0 =>
    cases e : h[u]? with
    | none => rw [e0, e] at hl; simp at hl
    | some st =>
      rw [e0, e] at hl
      simp only [Option.map_some, Option.some.injEq] at hl ⊢
      apply List.ext_getElem?
      intro q
      by_cases hq : q < st.length
      · have hc : cell h u q = some st[q] := by simp [cell, e, List.getElem?_eq_getElem hq]
        rw [List.getElem?_map, List.getElem?_range (by omega), List.getElem?_eq_getElem hq]
        simp [hm u q _ hc]
      · rw [List.getElem?_eq_none (by simp; omega), List.getElem?_eq_none (by omega)]

theorem rebuild_shape_congr {h0 h1 : Heap α} (ss : SameShape h0 h1) (m : Mem Addr α) : rebuild h0 m = rebuild h1 m := by
  apply List.ext_getElem?
  intro u
  rw [rebuild_getElem?, rebuild_getElem?]
  have hl := ss.2 u
  cases e0 : h0[u]? <;> cases e1 : h1[u]? <;> rw [e0, e1] at hl <;> simp at hl ⊢
  rw [hl]

/-! ### the footprint of cell `i`, as lists of addresses -/

/-- row `i` of the states array: positions `sb + i·nS + s`, `s < nS`, of the states storage -/
def stRow (c : Cfg) (i : Nat) : List Addr := (List.range c.nS).map fun s => (c.S.sid, c.sb + i * c.nS + s)

/-- rows `(i, o, ·)` of the outputs array: positions `ob + (i·nO + o)·T' + t`, `o < nO`, `t < T'` (whole rows, as
`C04Nd.WriteFoot`: a superset of the `t < T` actually written), of the outputs storage -/
def outRows (c : Cfg) (i : Nat) : List Addr :=
  (List.range c.nO).flatMap fun o => (List.range c.T').map fun t => (c.O.sid, c.ob + (i * c.nO + o) * c.T' + t)

/-- what cell `i` may WRITE (and read back): its state row and its output rows -/
def writesA (c : Cfg) (i : Nat) : List Addr := stRow c i ++ outRows c i

/-- the read-only region: the windows of the parameters array and of the inputs array in their storages (all of them:
parameter sets and input blocks are shared between cells) -/
def roA (c : Cfg) : List Addr :=
  ((List.range (c.rows * c.nSets)).map fun k => (c.P.sid, c.pb + k)) ++
  ((List.range (c.nIn * (c.nI * c.T))).map fun k => (c.I.sid, c.ib + k))

/-- what cell `i` may READ besides what it writes: parameters and inputs -/
def readsA (c : Cfg) (_i : Nat) : List Addr := roA c

theorem mem_stRow {c : Cfg} {i : Nat} {a : Addr} :
    a ∈ stRow c i ↔ a.1 = c.S.sid ∧ ∃ s, s < c.nS ∧ a.2 = c.sb + i * c.nS + s := by
  obtain ⟨u, q⟩ := a
  simp only [stRow, List.mem_map, List.mem_range, Prod.mk.injEq]
  constructor
  · rintro ⟨s, hs, rfl, rfl⟩; exact ⟨rfl, s, hs, rfl⟩
  · rintro ⟨rfl, s, hs, rfl⟩; exact ⟨s, hs, rfl, rfl⟩

theorem mem_outRows {c : Cfg} {i : Nat} {a : Addr} :
    a ∈ outRows c i ↔ a.1 = c.O.sid ∧ ∃ o t, o < c.nO ∧ t < c.T' ∧ a.2 = c.ob + (i * c.nO + o) * c.T' + t := by
  obtain ⟨u, q⟩ := a
  simp only [outRows, List.mem_flatMap, List.mem_map, List.mem_range, Prod.mk.injEq]
  constructor
  · rintro ⟨o, ho, t, ht, rfl, rfl⟩; exact ⟨rfl, o, t, ho, ht, rfl⟩
  · rintro ⟨rfl, o, t, ho, ht, rfl⟩; exact ⟨o, ho, t, ht, rfl, rfl⟩

theorem mem_writesA {c : Cfg} {i : Nat} {a : Addr} :
    a ∈ writesA c i ↔ (a.1 = c.S.sid ∧ ∃ s, s < c.nS ∧ a.2 = c.sb + i * c.nS + s) ∨
      (a.1 = c.O.sid ∧ ∃ o t, o < c.nO ∧ t < c.T' ∧ a.2 = c.ob + (i * c.nO + o) * c.T' + t) := by
  simp only [writesA, List.mem_append, mem_stRow, mem_outRows]

theorem mem_roA {c : Cfg} {a : Addr} :
    a ∈ roA c ↔ (a.1 = c.P.sid ∧ c.pb ≤ a.2 ∧ a.2 < c.pb + c.rows * c.nSets) ∨
      (a.1 = c.I.sid ∧ c.ib ≤ a.2 ∧ a.2 < c.ib + c.nIn * (c.nI * c.T)) := by
  obtain ⟨u, q⟩ := a
  simp only [roA, List.mem_append, List.mem_map, List.mem_range, Prod.mk.injEq]
  constructor
  · rintro (⟨k, hk, rfl, rfl⟩ | ⟨k, hk, rfl, rfl⟩)
    · exact Or.inl ⟨rfl, by omega, by omega⟩
    · exact Or.inr ⟨rfl, by omega, by omega⟩
  · rintro (⟨rfl, h1, h2⟩ | ⟨rfl, h1, h2⟩)
    · exact Or.inl ⟨q - c.pb, by omega, rfl, by omega⟩
    · exact Or.inr ⟨q - c.ib, by omega, rfl, by omega⟩

/-! ### one cell of the view-level model as a function on address-indexed memories -/

theorem split_rc {R C k : Nat} (hk : k < R * C) : ∃ r c, r < R ∧ c < C ∧ k = r * C + c := by
  have hC : 0 < C := by
    rcases Nat.eq_zero_or_pos C with e | e
    · subst e; simp at hk
    · exact e
  refine ⟨k / C, k % C, Nat.div_lt_of_lt_mul (by rwa [Nat.mul_comm] at hk), Nat.mod_lt _ hC, ?_⟩
  have := Nat.div_add_mod k C
  rw [Nat.mul_comm] at this
  exact this.symm

theorem cube_congr (a b : List α) (base B R C : Nat) (h : ∀ q, base ≤ q → q < base + B * (R * C) → a[q]? = b[q]?) :
    cube a base B R C = cube b base B R C := by
  unfold cube
  apply List.map_congr_left
  intro k hk
  have hk' := List.mem_range.mp hk
  apply mat_congr
  intro q q0 q1
  have : (k + 1) * (R * C) ≤ B * (R * C) := Nat.mul_le_mul_right _ hk'
  rw [Nat.succ_mul] at this
  exact h q (by omega) (by omega)

variable [Num α]

/-- the list-level cell step (`OW.Sim.cellStep`, C04) on the row-major denotations of the four storages of `h` -/
def cellStepL (c : Cfg) (km : KModel α) (h : Heap α) (i : Nat) : Except String (List α × List (List α)) :=
  cellStep km (List.replicate c.nP none) ((List.range c.nP).map fun j => (j, 1))
    (mat (stor h c.P.sid) c.pb c.rows c.nSets) (cube (stor h c.I.sid) c.ib c.nIn c.nI c.T) i
    (rowAt (stor h c.S.sid) (c.sb + i * c.nS) c.nS) (mat (stor h c.O.sid) (c.ob + i * (c.nO * c.T')) c.nO c.T')

/-- `C04Nd.wrapperNd_refines` on any heap of the shape of `h0` -/
theorem step_spec {c : Cfg} {km : KModel α} {h0 : Heap α} (ok : c.OK km h0) {h : Heap α} (hs : SameShape h0 h)
    {i : Nat} (hi : i < c.N) :
    (∀ e, cellStepL c km h i = .error e →
        cellStepNd km.run c.nP c.nI h c.P c.I c.S c.O c.rd (i : Int) = .error e) ∧
    (∀ s' o', cellStepL c km h i = .ok (s', o') →
      ∃ h', cellStepNd km.run c.nP c.nI h c.P c.I c.S c.O c.rd (i : Int) = .ok h' ∧ SameShape h h' ∧
        (∀ s, s < c.nS → cell h' c.S.sid (c.sb + i * c.nS + s) = s'[s]?) ∧
        (∀ o t, o < c.nO → t < c.T' → cell h' c.O.sid (c.ob + (i * c.nO + o) * c.T' + t) = (o'[o]?).bind (·[t]?)) ∧
        (∀ u q, ¬ (u = c.S.sid ∧ ∃ s, s < c.nS ∧ q = c.sb + i * c.nS + s) →
                ¬ (u = c.O.sid ∧ ∃ o t, o < c.nO ∧ t < c.T' ∧ q = c.ob + (i * c.nO + o) * c.T' + t) →
                cell h' u q = cell h u q)) := by
  have rp := ok.rp.sameShape hs
  have ri := ok.ri.sameShape hs
  have rs := ok.rs.sameShape hs
  have ro := ok.ro.sameShape hs
  obtain ⟨pst, hp, _⟩ := rp.ok.store
  obtain ⟨ist, hi', _⟩ := ri.ok.store
  obtain ⟨sst, hs', _⟩ := rs.ok.store
  obtain ⟨ost, ho, _⟩ := ro.ok.store
  have := Props.C04Nd.wrapperNd_refines km rp ri rs ro ok.hpb ok.hib ok.hsb ok.hob hp hi' hs' ho ok.hso ok.hnP hi
    (Nat.lt_of_lt_of_le hi ok.hNM) ok.hT (rd := c.rd) (Props.C04Nd.runDims_roots ri.view rs.view ro.view) ok.fits
  unfold cellStepL
  rw [stor_of_some hp, stor_of_some hi', stor_of_some hs', stor_of_some ho]
  exact this

/-- the goroutine of cell `i` on an address-indexed memory: run `cellStepNd` on the heap the memory denotes; where the
resulting heap has a cell, that is the new value. A panic leaves the memory as it is (no result; the run as a whole is
then not `.ok` and the theorems say nothing). -/
def runA (c : Cfg) (km : KModel α) (h0 : Heap α) (i : Nat) (m : Mem Addr α) : Mem Addr α :=
  match cellStepNd km.run c.nP c.nI (rebuild h0 m) c.P c.I c.S c.O c.rd (i : Int) with
  | .ok h' => fun a => (cell h' a.1 a.2).getD (m a)
  | .error _ => m

/-- FRAME, derived: outside its state row and output rows the cell changes nothing -/
theorem runA_frame {c : Cfg} {km : KModel α} {h0 : Heap α} (ok : c.OK km h0) {i : Nat} (hi : i < c.N)
    (m : Mem Addr α) (a : Addr) (ha : a ∉ writesA c i) : runA c km h0 i m a = m a := by
  have sp := step_spec ok (sameShape_rebuild h0 m) hi
  unfold runA
  cases hL : cellStepL c km (rebuild h0 m) i with
  | error e => rw [sp.1 e hL]
  | ok p =>
    obtain ⟨h', hstep, _, _, _, hF⟩ := sp.2 p.1 p.2 hL
    rw [hstep]
    show (cell h' a.1 a.2).getD (m a) = m a
    rw [hF a.1 a.2 (fun hh => ha (mem_writesA.mpr (Or.inl hh))) (fun hh => ha (mem_writesA.mpr (Or.inr hh))),
      cell_rebuild]
    cases cell h0 a.1 a.2 <;> rfl

/-- two memories that agree on the read-only region and on cell `i`'s rows give the same list-level arguments -/
theorem cellStepL_congr {c : Cfg} {km : KModel α} {h0 : Heap α} {i : Nat} (m m' : Mem Addr α)
    (hag : ∀ a, a ∈ readsA c i ++ writesA c i → m a = m' a) :
    cellStepL c km (rebuild h0 m) i = cellStepL c km (rebuild h0 m') i := by
  have key : ∀ u q, (u, q) ∈ readsA c i ++ writesA c i →
      (stor (rebuild h0 m) u)[q]? = (stor (rebuild h0 m') u)[q]? := by
    intro u q hmem
    rw [stor_rebuild_getElem?, stor_rebuild_getElem?, hag _ hmem]
  have hP : mat (stor (rebuild h0 m) c.P.sid) c.pb c.rows c.nSets = mat (stor (rebuild h0 m') c.P.sid) c.pb c.rows c.nSets :=
    mat_congr _ _ _ _ _ (fun q q0 q1 => key _ _
      (List.mem_append_left _ (mem_roA.mpr (Or.inl ⟨rfl, q0, q1⟩))))
  have hI : cube (stor (rebuild h0 m) c.I.sid) c.ib c.nIn c.nI c.T = cube (stor (rebuild h0 m') c.I.sid) c.ib c.nIn c.nI c.T :=
    cube_congr _ _ _ _ _ _ (fun q q0 q1 => key _ _
      (List.mem_append_left _ (mem_roA.mpr (Or.inr ⟨rfl, q0, q1⟩))))
  have hS : rowAt (stor (rebuild h0 m) c.S.sid) (c.sb + i * c.nS) c.nS = rowAt (stor (rebuild h0 m') c.S.sid) (c.sb + i * c.nS) c.nS :=
    rowAt_congr _ _ _ _ (fun k hk => key _ _
      (List.mem_append_right _ (mem_writesA.mpr (Or.inl ⟨rfl, k, hk, rfl⟩))))
  have hO : mat (stor (rebuild h0 m) c.O.sid) (c.ob + i * (c.nO * c.T')) c.nO c.T' =
      mat (stor (rebuild h0 m') c.O.sid) (c.ob + i * (c.nO * c.T')) c.nO c.T' := by
    apply mat_congr
    intro q q0 q1
    obtain ⟨o, t, ho, ht, e⟩ := split_rc (k := q - (c.ob + i * (c.nO * c.T'))) (R := c.nO) (C := c.T') (by omega)
    refine key _ _ (List.mem_append_right _ (mem_writesA.mpr (Or.inr ⟨rfl, o, t, ho, ht, ?_⟩)))
    show q = c.ob + (i * c.nO + o) * c.T' + t
    rw [Nat.add_mul, Nat.mul_assoc]
    omega
  unfold cellStepL
  rw [hP, hI, hS, hO]

/-- LOCALITY, derived: what the cell leaves in its rows depends only on parameters, inputs and its own rows -/
theorem runA_loc {c : Cfg} {km : KModel α} {h0 : Heap α} (ok : c.OK km h0) {i : Nat} (hi : i < c.N)
    (m m' : Mem Addr α) (hag : ∀ a, a ∈ readsA c i ++ writesA c i → m a = m' a) (a : Addr) (ha : a ∈ writesA c i) :
    runA c km h0 i m a = runA c km h0 i m' a := by
  have sp := step_spec ok (sameShape_rebuild h0 m) hi
  have sp' := step_spec ok (sameShape_rebuild h0 m') hi
  have hLL := cellStepL_congr (km := km) (h0 := h0) m m' hag
  have hma : m a = m' a := hag a (List.mem_append_right _ ha)
  unfold runA
  cases hL : cellStepL c km (rebuild h0 m) i with
  | error e =>
    rw [sp.1 e hL, sp'.1 e (hLL ▸ hL)]
    exact hma
  | ok p =>
    obtain ⟨h1, hstep1, _, hS1, hO1, _⟩ := sp.2 p.1 p.2 hL
    obtain ⟨h2, hstep2, _, hS2, hO2, _⟩ := sp'.2 p.1 p.2 (hLL ▸ hL)
    rw [hstep1, hstep2]
    show (cell h1 a.1 a.2).getD (m a) = (cell h2 a.1 a.2).getD (m' a)
    rw [hma]
    rcases mem_writesA.mp ha with ⟨hu, s, hs, hq⟩ | ⟨hu, o, t, ho, ht, hq⟩
    · rw [hu, hq, hS1 s hs, hS2 s hs]
    · rw [hu, hq, hO1 o t ho ht, hO2 o t ho ht]

/-- **the goroutine of cell `i` as an atomic step over addresses.** Its declared footprint: it writes `writesA c i` (state
row `i`, output rows `(i,·,·)`), it reads that and `roA c` (parameters, inputs). The two conditions that make the
declaration honest (`Step.frame`, `Step.loc`) are `runA_frame` and `runA_loc`. For `i ≥ N` (no such cell) the step is
the identity. -/
def stepA (c : Cfg) (km : KModel α) (h0 : Heap α) (ok : c.OK km h0) (i : Nat) : Step Addr α where
  run := fun m => if i < c.N then runA c km h0 i m else m
  reads := readsA c i
  writes := writesA c i
  frame := by
    intro m a ha
    by_cases hi : i < c.N
    · simp only [hi, if_true]; exact runA_frame ok hi m a ha
    · simp only [hi, if_false]
  loc := by
    intro m m' hag a ha
    by_cases hi : i < c.N
    · simp only [hi, if_true]; exact runA_loc ok hi m m' hag a ha
    · simp only [hi, if_false]; exact hag a (List.mem_append_right _ ha)

/-! ### the same on heaps (no memory function needed) -/

omit [Num α] in
theorem stor_getElem? (h : Heap α) (u q : Nat) : (stor h u)[q]? = cell h u q := by
  unfold stor cell
  cases h[u]? <;> simp

/-- two heaps that agree on the read-only region and on cell `i`'s rows give the same list-level arguments -/
theorem cellStepL_congr_heap {c : Cfg} {km : KModel α} {i : Nat} (h g : Heap α)
    (hag : ∀ a, a ∈ readsA c i ++ writesA c i → cell h a.1 a.2 = cell g a.1 a.2) :
    cellStepL c km h i = cellStepL c km g i := by
  have key : ∀ u q, (u, q) ∈ readsA c i ++ writesA c i → (stor h u)[q]? = (stor g u)[q]? := by
    intro u q hmem
    rw [stor_getElem?, stor_getElem?]
    exact hag (u, q) hmem
  have hP : mat (stor h c.P.sid) c.pb c.rows c.nSets = mat (stor g c.P.sid) c.pb c.rows c.nSets :=
    mat_congr _ _ _ _ _ (fun q q0 q1 => key _ _ (List.mem_append_left _ (mem_roA.mpr (Or.inl ⟨rfl, q0, q1⟩))))
  have hI : cube (stor h c.I.sid) c.ib c.nIn c.nI c.T = cube (stor g c.I.sid) c.ib c.nIn c.nI c.T :=
    cube_congr _ _ _ _ _ _ (fun q q0 q1 => key _ _ (List.mem_append_left _ (mem_roA.mpr (Or.inr ⟨rfl, q0, q1⟩))))
  have hS : rowAt (stor h c.S.sid) (c.sb + i * c.nS) c.nS = rowAt (stor g c.S.sid) (c.sb + i * c.nS) c.nS :=
    rowAt_congr _ _ _ _ (fun k hk => key _ _
      (List.mem_append_right _ (mem_writesA.mpr (Or.inl ⟨rfl, k, hk, rfl⟩))))
  have hO : mat (stor h c.O.sid) (c.ob + i * (c.nO * c.T')) c.nO c.T' =
      mat (stor g c.O.sid) (c.ob + i * (c.nO * c.T')) c.nO c.T' := by
    apply mat_congr
    intro q q0 q1
    obtain ⟨o, t, ho, ht, e⟩ := split_rc (k := q - (c.ob + i * (c.nO * c.T'))) (R := c.nO) (C := c.T') (by omega)
    refine key _ _ (List.mem_append_right _ (mem_writesA.mpr (Or.inr ⟨rfl, o, t, ho, ht, ?_⟩)))
    show q = c.ob + (i * c.nO + o) * c.T' + t
    rw [Nat.add_mul, Nat.mul_assoc]
    omega
  unfold cellStepL
  rw [hP, hI, hS, hO]

/-- a successful view-level step is the one `step_spec` describes -/
theorem step_ok_spec {c : Cfg} {km : KModel α} {h0 : Heap α} (ok : c.OK km h0) {h : Heap α} (hs : SameShape h0 h)
    {i : Nat} (hi : i < c.N) {h' : Heap α}
    (hstep : cellStepNd km.run c.nP c.nI h c.P c.I c.S c.O c.rd (i : Int) = .ok h') :
    ∃ s' o', cellStepL c km h i = .ok (s', o') ∧ SameShape h h' ∧
      (∀ s, s < c.nS → cell h' c.S.sid (c.sb + i * c.nS + s) = s'[s]?) ∧
      (∀ o t, o < c.nO → t < c.T' → cell h' c.O.sid (c.ob + (i * c.nO + o) * c.T' + t) = (o'[o]?).bind (·[t]?)) ∧
      (∀ u q, ¬ (u = c.S.sid ∧ ∃ s, s < c.nS ∧ q = c.sb + i * c.nS + s) →
              ¬ (u = c.O.sid ∧ ∃ o t, o < c.nO ∧ t < c.T' ∧ q = c.ob + (i * c.nO + o) * c.T' + t) →
              cell h' u q = cell h u q) := by
  have sp := step_spec ok hs hi
  cases hL : cellStepL c km h i with
  | error e => rw [sp.1 e hL] at hstep; cases hstep
  | ok p =>
    obtain ⟨h1, hstep1, hss, hS, hO, hF⟩ := sp.2 p.1 p.2 hL
    rw [hstep1] at hstep
    injection hstep with hstep
    subst hstep
    exact ⟨p.1, p.2, rfl, hss, hS, hO, hF⟩

/-- a view-level step that panics: the list-level step fails with the same error -/
theorem step_error_spec {c : Cfg} {km : KModel α} {h0 : Heap α} (ok : c.OK km h0) {h : Heap α} (hs : SameShape h0 h)
    {i : Nat} (hi : i < c.N) {e : String}
    (hstep : cellStepNd km.run c.nP c.nI h c.P c.I c.S c.O c.rd (i : Int) = .error e) :
    cellStepL c km h i = .error e := by
  have sp := step_spec ok hs hi
  cases hL : cellStepL c km h i with
  | error e' =>
    rw [sp.1 e' hL] at hstep
    injection hstep with hstep
    rw [hstep]
  | ok p =>
    obtain ⟨h1, hstep1, _⟩ := sp.2 p.1 p.2 hL
    rw [hstep1] at hstep
    cases hstep

/-! ### the write footprint is `C04Nd.WriteFoot` (the positions the cell views address) -/

theorem toNat_pos3 (b x y z : Nat) : ((b : Int) + ((x : Int) * (y : Int) + (z : Int))).toNat = b + x * y + z := by
  have : (b : Int) + ((x : Int) * (y : Int) + (z : Int)) = ((b + x * y + z : Nat) : Int) := by push_cast; ring
  rw [this, Int.toNat_natCast]

theorem toNat_pos4 (b i n o t' t : Nat) :
    ((b : Int) + (((i : Int) * (n : Int) + (o : Int)) * (t' : Int) + (t : Int))).toNat = b + (i * n + o) * t' + t := by
  have : (b : Int) + (((i : Int) * (n : Int) + (o : Int)) * (t' : Int) + (t : Int)) =
      ((b + (i * n + o) * t' + t : Nat) : Int) := by push_cast; ring
  rw [this, Int.toNat_natCast]

omit [Num α] in
/-- `writesA c i` lists exactly the positions of `C04Nd.WriteFoot … i`: the storage positions that
`cell_views_states` / `cell_views_outputs` show the state view and the output views of cell `i` to address -/
theorem mem_writesA_iff_writeFoot {c : Cfg} {km : KModel α} {h0 : Heap α} (ok : c.OK km h0) (i : Nat) (a : Addr) :
    a ∈ writesA c i ↔
      Props.C04Nd.WriteFoot c.S c.O (c.nS : Int) (c.nO : Int) (c.T' : Int) (i : Int) a.1 a.2 := by
  rw [mem_writesA]
  unfold Props.C04Nd.WriteFoot
  rw [ok.hsb, ok.hob]
  constructor
  · rintro (⟨hu, s, hs, hq⟩ | ⟨hu, o, t, ho, ht, hq⟩)
    · exact Or.inl ⟨hu, (s : Int), by omega, by omega, by rw [toNat_pos3]; exact hq⟩
    · exact Or.inr ⟨hu, (o : Int), (t : Int), by omega, by omega, by omega, by omega, by rw [toNat_pos4]; exact hq⟩
  · rintro (⟨hu, s, s0, s1, hq⟩ | ⟨hu, o, t, o0, o1, t0, t1, hq⟩)
    · obtain ⟨s, rfl⟩ := Int.eq_ofNat_of_zero_le s0
      rw [toNat_pos3] at hq
      exact Or.inl ⟨hu, s, by omega, hq⟩
    · obtain ⟨o, rfl⟩ := Int.eq_ofNat_of_zero_le o0
      obtain ⟨t, rfl⟩ := Int.eq_ofNat_of_zero_le t0
      rw [toNat_pos4] at hq
      exact Or.inr ⟨hu, o, t, by omega, by omega, hq⟩

theorem readOnlyFoot_of_mem_roA {c : Cfg} {a : Addr} (ha : a ∈ roA c) : Props.C04Nd.ReadOnlyFoot c.P c.I a.1 := by
  rcases mem_roA.mp ha with ⟨hu, _⟩ | ⟨hu, _⟩
  · exact Or.inl hu
  · exact Or.inr hu

omit [Num α] in
/-- from `C04Nd.views_disjoint`: an address cell `i` writes is neither written by cell `j ≠ i` nor in the read-only
region -/
theorem writes_avoid {c : Cfg} {km : KModel α} {h0 : Heap α} (ok : c.OK km h0) (sep : c.Sep) {i j : Nat} (hij : i ≠ j)
    {a : Addr} (ha : a ∈ writesA c i) : a ∉ writesA c j ∧ a ∉ roA c := by
  obtain ⟨_, hnS⟩ := pos2 ok.rs.pos
  obtain ⟨_, hnO, hT'⟩ := pos3 ok.ro.pos
  obtain ⟨h1, h2⟩ := Props.C04Nd.views_disjoint (parameters := c.P) (inputs := c.I) ok.rs.ok.base_nonneg
    ok.ro.ok.base_nonneg hnS hnO hT' ok.hso (Ne.symm sep.hps) (Ne.symm sep.his) (Ne.symm sep.hpo) (Ne.symm sep.hio)
    (i := (i : Int)) (j := (j : Int)) (by omega) (by omega) (by omega) a.1 a.2 ((mem_writesA_iff_writeFoot ok i a).mp ha)
  exact ⟨fun hj => h1 ((mem_writesA_iff_writeFoot ok j a).mp hj), fun hr => h2 (readOnlyFoot_of_mem_roA hr)⟩

/-! ### the sequential run of the step model is `runCellsNd` -/

theorem runA_ok {c : Cfg} {km : KModel α} {h0 : Heap α} (ok : c.OK km h0) {i : Nat} (hi : i < c.N) (m : Mem Addr α)
    {h1 : Heap α} (hstep : cellStepNd km.run c.nP c.nI (rebuild h0 m) c.P c.I c.S c.O c.rd (i : Int) = .ok h1) :
    rebuild h0 (runA c km h0 i m) = h1 := by
  obtain ⟨_, _, _, hss, _⟩ := step_ok_spec ok (sameShape_rebuild h0 m) hi hstep
  unfold runA
  rw [hstep]
  apply rebuild_eq_of_denotes ((sameShape_rebuild h0 m).trans hss)
  intro u q x hx
  show (cell h1 u q).getD (m (u, q)) = x
  rw [hx]; rfl

theorem seq_runA {c : Cfg} {km : KModel α} {h0 : Heap α} (ok : c.OK km h0) :
    ∀ (n i0 : Nat) (m : Mem Addr α) (h' : Heap α), i0 + n = c.N →
      runCellsNd km.run c.nP c.nI c.P c.I c.S c.O c.rd n (i0 : Int) (rebuild h0 m) = .ok h' →
      rebuild h0 (runList ((List.range' i0 n).map (stepA c km h0 ok)) m) = h'
  | 0, i0, m, h', _, hr => by
    simp only [runCellsNd, Except.ok.injEq] at hr
    simpa using hr
  | n + 1, i0, m, h', hn, hr => by
    have hi : i0 < c.N := by omega
    simp only [runCellsNd, bind, Except.bind] at hr
    cases hstep : cellStepNd km.run c.nP c.nI (rebuild h0 m) c.P c.I c.S c.O c.rd (i0 : Int) with
    | error e => rw [hstep] at hr; cases hr
    | ok h1 =>
      rw [hstep] at hr
      have e1 := runA_ok ok hi m hstep
      rw [List.range'_succ, List.map_cons, runList_cons]
      have e2 : (stepA c km h0 ok i0).run m = runA c km h0 i0 m := by simp [stepA, hi]
      rw [e2]
      apply seq_runA ok n (i0 + 1) _ h' (by omega)
      rw [e1]
      push_cast
      exact hr

/-- one single-step task per cell `0 … N-1`, over addresses -/
def cellTasksA (c : Cfg) (km : KModel α) (h0 : Heap α) (ok : c.OK km h0) : List (Task Addr α) :=
  (List.range c.N).map fun i => [stepA c km h0 ok i]

theorem cellTasksA_get {c : Cfg} {km : KModel α} {h0 : Heap α} (ok : c.OK km h0) (i : Nat) (t : Task Addr α)
    (h : (cellTasksA c km h0 ok)[i]? = some t) : t = [stepA c km h0 ok i] := by
  unfold cellTasksA at h
  rw [List.getElem?_map] at h
  cases hr : (List.range c.N)[i]? with
  | none => simp [hr] at h
  | some k =>
    have hk : k = i := by
      obtain ⟨_, e⟩ := List.getElem?_eq_some_iff.mp hr
      simpa using e.symm
    subst hk
    simpa [hr] using h.symm

/-- the whole `Run` of the view-level model is the sequential run of the address-level steps -/
theorem seq_eq_runNd {c : Cfg} {km : KModel α} {h0 : Heap α} (ok : c.OK km h0) (m : Mem Addr α) (hm : rebuild h0 m = h0)
    {h' : Heap α} (hrun : runNd km.run c.nP c.nI h0 c.P c.I c.S c.O = .ok h') :
    rebuild h0 (runList ((List.range c.N).map (stepA c km h0 ok)) m) = h' := by
  have hrd : runDims c.I c.S c.O = .ok c.rd := Props.C04Nd.runDims_roots ok.ri.view ok.rs.view ok.ro.view
  unfold runNd at hrun
  simp only [hrd, bind, Except.bind] at hrun
  have hN : c.rd.numCells.toNat = c.N := by simp [Cfg.rd]
  rw [hN] at hrun
  rw [List.range_eq_range']
  apply seq_runA ok c.N 0 m h' (by omega)
  rw [hm]
  simpa using hrun

/-- the memory image of a heap (`d` at addresses the heap does not have) -/
def memOfHeap (d : α) (h : Heap α) : Mem Addr α := fun a => (cell h a.1 a.2).getD d

omit [Num α] in
theorem rebuild_memOfHeap (d : α) (h : Heap α) : rebuild h (memOfHeap d h) = h := by
  apply rebuild_eq_of_denotes (SameShape.refl h)
  intro u q x hx
  simp [memOfHeap, hx]

/-! ### the abstraction to the row-level locations of `OW.Sim.CellTasks` -/

open OW.Sim.CellTasks in
/-- address ↦ abstract location of `OW.Sim.CellTasks`: a position of the states storage belongs to the state row
`(q - sb) / nS`, a position of the outputs storage to the output rows of cell `(q - ob) / (nO·T')`; positions of other
storages (parameters, inputs: "not addresses" in `CellTasks`, nothing writes them) have no abstract location -/
def absLoc (c : Cfg) (a : Addr) : Option CAddr :=
  if a.1 = c.S.sid then some (.st ((a.2 - c.sb) / c.nS))
  else if a.1 = c.O.sid then some (.out ((a.2 - c.ob) / (c.nO * c.T')))
  else none

omit [Num α] in
open OW.Sim.CellTasks in
theorem absLoc_writes {c : Cfg} {km : KModel α} {h0 : Heap α} (ok : c.OK km h0) {i : Nat} {a : Addr}
    (ha : a ∈ writesA c i) : absLoc c a = some (.st i) ∨ absLoc c a = some (.out i) := by
  rcases mem_writesA.mp ha with ⟨hu, s, hs, hq⟩ | ⟨hu, o, t, ho, ht, hq⟩
  · left
    have e : a.2 - c.sb = s + i * c.nS := by omega
    simp only [absLoc, hu, if_true, e]
    rw [Nat.add_mul_div_right _ _ (by omega : 0 < c.nS), Nat.div_eq_of_lt hs, Nat.zero_add]
  · right
    have hlt : o * c.T' + t < c.nO * c.T' := nat_row_lt ho ht
    have e : a.2 - c.ob = (o * c.T' + t) + i * (c.nO * c.T') := by
      rw [hq, Nat.add_mul, Nat.mul_assoc]; omega
    simp only [absLoc, hu, if_neg (Ne.symm ok.hso), if_true, e]
    rw [Nat.add_mul_div_right _ _ (by omega : 0 < c.nO * c.T'), Nat.div_eq_of_lt hlt, Nat.zero_add]

theorem absLoc_ro {c : Cfg} (sep : c.Sep) {a : Addr} (ha : a ∈ roA c) : absLoc c a = none := by
  rcases mem_roA.mp ha with ⟨hu, _⟩ | ⟨hu, _⟩
  · simp [absLoc, hu, sep.hps, sep.hpo]
  · simp [absLoc, hu, sep.his, sep.hio]

end
end OW.C05Addr
