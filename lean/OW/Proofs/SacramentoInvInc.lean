import OW.Proofs.SacramentoInvDefs
import Mathlib.Analysis.SpecialFunctions.Pow.Real
/-!
C10 for Sacramento, part 2 — one pass of the drainage-and-percolation loop (`incBody`) over ℝ, zone by zone, and the
loop invariant through `incLoop` by induction on the number of passes.
-/
namespace OW.RR.Sac
open OW OW.Kernels.Sacramento

/-! ### the `Num ℝ` operations and literals are the ordinary real ones -/
namespace N
theorem add (a b : ℝ) : @HAdd.hAdd ℝ ℝ ℝ (@instHAdd ℝ (Num.toAdd)) a b = a + b := rfl
theorem sub (a b : ℝ) : @HSub.hSub ℝ ℝ ℝ (@instHSub ℝ (Num.toSub)) a b = a - b := rfl
theorem mul (a b : ℝ) : @HMul.hMul ℝ ℝ ℝ (@instHMul ℝ (Num.toMul)) a b = a * b := rfl
theorem div (a b : ℝ) : @HDiv.hDiv ℝ ℝ ℝ (@instHDiv ℝ (Num.toDiv)) a b = a / b := rfl
theorem lt (a b : ℝ) : @LT.lt ℝ (Num.toLT) a b = (a < b) := rfl
theorem le (a b : ℝ) : @LE.le ℝ (Num.toLE) a b = (a ≤ b) := rfl
theorem sci0 : @OfScientific.ofScientific ℝ (Num.toOfScientific) 0 true 1 = 0 := by
  rw [OW.RR.Surm.sci]; norm_num
theorem sci1 : @OfScientific.ofScientific ℝ (Num.toOfScientific) 10 true 1 = 1 := by
  rw [OW.RR.Surm.sci]; norm_num
theorem lit0 : (@OfNat.ofNat ℝ 0 (Num.instOfNat 0)) = (0 : ℝ) := Nat.cast_zero
theorem lit1 : (@OfNat.ofNat ℝ 1 (Num.instOfNat 1)) = (1 : ℝ) := Nat.cast_one
end N

/-- normalise a kernel expression at `ℝ` to ordinary real arithmetic -/
macro "sacnum" : tactic =>
  `(tactic| simp only [N.add, N.sub, N.mul, N.div, N.lt, N.le, N.sci0, N.sci1, N.lit0, N.lit1,
      RealNum.gmin_eq, RealNum.gmax_eq, RealNum.pow_eq])
macro "sacnum" "at" h:ident : tactic =>
  `(tactic| simp only [N.add, N.sub, N.mul, N.div, N.lt, N.le, N.sci0, N.sci1, N.lit0, N.lit1,
      RealNum.gmin_eq, RealNum.gmax_eq, RealNum.pow_eq] at $h:ident)

/-! ### baseflow of one lower-zone free-water store -/

/-- a store within [0, cap] releases the fraction `d ∈ [0,1]`: the release is non-negative, what is kept stays
within [0, cap], and kept + released = content -/
theorem bf_spec (x d cap : ℝ) (hx0 : 0 ≤ x) (hx1 : x ≤ cap) (hd0 : 0 ≤ d) (hd1 : d ≤ 1) :
    0 ≤ bfOut x d ∧ 0 ≤ bfKeep x - bfOut x d ∧ bfKeep x - bfOut x d ≤ cap ∧
      bfKeep x - bfOut x d + bfOut x d = x := by
  unfold bfOut bfKeep
  sacnum
  split_ifs with h
  · have h1 : 0 ≤ x * d := mul_nonneg hx0 hd0
    have h2 : x * d ≤ x := by nlinarith
    exact ⟨h1, by linarith, by linarith, by ring⟩
  · have h0 : x = 0 := le_antisymm (not_lt.mp h) hx0
    subst h0
    norm_num
    exact hx1

/-! ### parameter ranges -/

/-- Parameter ranges under which the Sacramento theorems are proved. Capacities are positive (they are divisors);
rates and fractions lie in [0,1]; the area fractions satisfy pctim + adimp ≤ 1; `side`, `ssout`, `sarva`, `zperc`
are non-negative (no condition on `rexp`); the unit-hydrograph proportions are non-negative with a positive sum.
`5 ≤ lztwm`: a rain increment of the drainage loop is below 5 mm (`ninc = ⌊0.2·(uzfwc·adj + pav)⌋ + 1`), and the
additional-impervious store overshoots (and then goes negative) when an increment exceeds `lztwm`
(`sacramento_small_lztwm_counterexample` in OW/Props/C10Sacramento.lean). -/
structure ParamsOk (p : Params ℝ) : Prop where
  lzpk0 : 0 ≤ p.lzpk
  lzpk1 : p.lzpk ≤ 1
  lzsk0 : 0 ≤ p.lzsk
  lzsk1 : p.lzsk ≤ 1
  uzk0 : 0 ≤ p.uzk
  uzk1 : p.uzk ≤ 1
  uztwm : 0 < p.uztwm
  uzfwm : 0 < p.uzfwm
  lztwm : 5 ≤ p.lztwm
  lzfsm : 0 < p.lzfsm
  lzfpm : 0 < p.lzfpm
  pfree0 : 0 ≤ p.pfree
  pfree1 : p.pfree ≤ 1
  zperc0 : 0 ≤ p.zperc
  side0 : 0 ≤ p.side
  ssout0 : 0 ≤ p.ssout
  pctim0 : 0 ≤ p.pctim
  adimp0 : 0 ≤ p.adimp
  area : p.pctim + p.adimp ≤ 1
  sarva0 : 0 ≤ p.sarva
  rserv0 : 0 ≤ p.rserv
  rserv1 : p.rserv ≤ 1
  uh1 : 0 ≤ p.uh1
  uh2 : 0 ≤ p.uh2
  uh3 : 0 ≤ p.uh3
  uh4 : 0 ≤ p.uh4
  uh5 : 0 ≤ p.uh5
  uhs : 0 < p.uh1 + p.uh2 + p.uh3 + p.uh4 + p.uh5

/-- what the loop needs from the pre-computed constants -/
structure ConstsOk (c : Consts ℝ) : Prop where
  sm : 0 < c.alzfsm
  pm : 0 < c.alzfpm
  pbase : 0 ≤ c.pbase
  saved0 : 0 ≤ c.saved
  saved1 : c.saved ≤ c.alzfpm + c.alzfsm

theorem ParamsOk.lztwm_pos {p : Params ℝ} (hp : ParamsOk p) : 0 < p.lztwm := by linarith [hp.lztwm]

/-! ### percolation demand -/

theorem lzairOf_eq (p : Params ℝ) (c : Consts ℝ) (lztwc s2 p2 : ℝ) :
    lzairOf p c lztwc s2 p2 = p.lztwm - lztwc + lzair2Of c s2 p2 := by
  unfold lzairOf lzair2Of; sacnum; ring

/-- divisors `uzfwm` and `alzfpm + alzfsm + lztwm` are positive; the base of the power is in [0,1] -/
theorem percDemand_nonneg (p : Params ℝ) (c : Consts ℝ) (hp : ParamsOk p) (hc : ConstsOk c)
    (dinc uzfwc lztwc s2 p2 : ℝ) (hd : 0 ≤ dinc) (hu : 0 ≤ uzfwc) (ht0 : 0 ≤ lztwc) (ht1 : lztwc ≤ p.lztwm)
    (hs1 : s2 ≤ c.alzfsm) (hp1 : p2 ≤ c.alzfpm) :
    0 ≤ percDemand p c dinc uzfwc lztwc s2 p2 := by
  unfold percDemand
  sacnum
  have hden : 0 < c.alzfpm + c.alzfsm + p.lztwm := by linarith [hc.sm, hc.pm, hp.lztwm_pos]
  have hfr : (p2 + s2 + lztwc) / (c.alzfpm + c.alzfsm + p.lztwm) ≤ 1 := by
    rw [div_le_one hden]; linarith
  have hbase : 0 ≤ 1 - (p2 + s2 + lztwc) / (c.alzfpm + c.alzfsm + p.lztwm) := by linarith
  have hpow := Real.rpow_nonneg hbase p.rexp
  have h1 : 0 ≤ c.pbase * dinc * uzfwc / p.uzfwm :=
    div_nonneg (mul_nonneg (mul_nonneg hc.pbase hd) hu) hp.uzfwm.le
  have h2 : 0 ≤ p.zperc * (1 - (p2 + s2 + lztwc) / (c.alzfpm + c.alzfsm + p.lztwm)) ^ p.rexp :=
    mul_nonneg hp.zperc0 hpow
  exact mul_nonneg h1 (by linarith)

/-- percolation: between 0 and both the upper free water and the lower-zone air space; the upper free water
loses exactly that amount -/
theorem perc_spec (p : Params ℝ) (c : Consts ℝ) (hp : ParamsOk p) (hc : ConstsOk c)
    (dinc uzfwc lztwc s2 p2 : ℝ) (hd : 0 ≤ dinc) (hu : 0 ≤ uzfwc) (ht0 : 0 ≤ lztwc) (ht1 : lztwc ≤ p.lztwm)
    (hs1 : s2 ≤ c.alzfsm) (hp1 : p2 ≤ c.alzfpm) :
    0 ≤ percVal p c dinc uzfwc lztwc s2 p2 ∧
    percVal p c dinc uzfwc lztwc s2 p2 ≤ lzairOf p c lztwc s2 p2 ∧
    percVal p c dinc uzfwc lztwc s2 p2 ≤ uzfwc ∧
    uzAfterPerc p c dinc uzfwc lztwc s2 p2 = uzfwc - percVal p c dinc uzfwc lztwc s2 p2 := by
  have hdem := percDemand_nonneg p c hp hc dinc uzfwc lztwc s2 p2 hd hu ht0 ht1 hs1 hp1
  have hair : 0 ≤ lzairOf p c lztwc s2 p2 := by
    rw [lzairOf_eq]; unfold lzair2Of; sacnum; linarith
  unfold uzAfterPerc percVal
  generalize percDemand p c dinc uzfwc lztwc s2 p2 = dem at hdem
  generalize lzairOf p c lztwc s2 p2 = air at hair
  sacnum
  by_cases h : 0 < air
  · simp only [if_pos h]
    exact ⟨le_min hair (le_min hu hdem), min_le_left _ _, le_trans (min_le_right _ _) (min_le_left _ _), trivial⟩
  · simp only [if_neg h]
    exact ⟨le_refl _, hair, hu, by ring⟩

/-! ### split of the percolation between lower tension water and lower free water -/

theorem split_spec (p : Params ℝ) (c : Consts ℝ) (hp : ParamsOk p) (perc lztwc s2 p2 : ℝ)
    (hperc0 : 0 ≤ perc) (hperc1 : perc ≤ lzairOf p c lztwc s2 p2) (ht1 : lztwc ≤ p.lztwm)
    (hair2 : 0 ≤ lzair2Of c s2 p2) :
    0 ≤ perctwOf p c perc lztwc s2 p2 ∧ lztwc + perctwOf p c perc lztwc s2 p2 ≤ p.lztwm ∧
    0 ≤ percfwOf p c perc lztwc s2 p2 ∧ percfwOf p c perc lztwc s2 p2 ≤ lzair2Of c s2 p2 ∧
    perctwOf p c perc lztwc s2 p2 + percfwOf p c perc lztwc s2 p2 = perc := by
  rw [lzairOf_eq] at hperc1
  unfold perctwOf percfwOf
  have h0 : 0 ≤ perctw0Of p perc lztwc := by
    unfold perctw0Of; sacnum
    exact le_min (mul_nonneg hperc0 (by linarith [hp.pfree1])) (by linarith)
  have h1 : perctw0Of p perc lztwc ≤ perc := by
    unfold perctw0Of; sacnum
    refine le_trans (min_le_left _ _) ?_
    nlinarith [hp.pfree0]
  have h2 : perctw0Of p perc lztwc ≤ p.lztwm - lztwc := by
    unfold perctw0Of; sacnum
    exact min_le_right _ _
  generalize perctw0Of p perc lztwc = tw0 at h0 h1 h2
  generalize lzair2Of c s2 p2 = air2 at hair2 hperc1
  sacnum
  split_ifs with h
  · exact ⟨by linarith, by linarith, hair2, le_refl _, by ring⟩
  · exact ⟨h0, by linarith, by linarith, not_lt.mp h, by ring⟩

/-! ### split of the free-water share between supplemental and primary -/

/-- the divisor of the primary share: positive as soon as the two stores are not both full -/
theorem ratl_sum_pos (c : Consts ℝ) (hc : ConstsOk c) (s2 p2 : ℝ) (hs1 : s2 ≤ c.alzfsm) (hp1 : p2 ≤ c.alzfpm)
    (hair2 : 0 < lzair2Of c s2 p2) : 0 < ratlpOf c p2 + ratlsOf c s2 := by
  unfold lzair2Of at hair2
  sacnum at hair2
  unfold ratlpOf ratlsOf
  sacnum
  have h1 : p2 / c.alzfpm ≤ 1 := by rw [div_le_one hc.pm]; exact hp1
  have h2 : s2 / c.alzfsm ≤ 1 := by rw [div_le_one hc.sm]; exact hs1
  rcases lt_or_eq_of_le hs1 with h | h
  · have : s2 / c.alzfsm < 1 := by rw [div_lt_one hc.sm]; exact h
    linarith
  · have hp' : p2 < c.alzfpm := by linarith
    have : p2 / c.alzfpm < 1 := by rw [div_lt_one hc.pm]; exact hp'
    linarith

/-- the primary share (as repaired: clamped at one) is a fraction -/
theorem fracp_spec (c : Consts ℝ) (hc : ConstsOk c) (hpl s2 p2 : ℝ) (hh : 0 ≤ hpl) (hs1 : s2 ≤ c.alzfsm)
    (hp1 : p2 ≤ c.alzfpm) : 0 ≤ fracpOf c hpl s2 p2 ∧ fracpOf c hpl s2 p2 ≤ 1 := by
  have h1 : 0 ≤ ratlpOf c p2 := by
    unfold ratlpOf; sacnum
    have : p2 / c.alzfpm ≤ 1 := by rw [div_le_one hc.pm]; exact hp1
    linarith
  have h2 : 0 ≤ ratlsOf c s2 := by
    unfold ratlsOf; sacnum
    have : s2 / c.alzfsm ≤ 1 := by rw [div_le_one hc.sm]; exact hs1
    linarith
  unfold fracpOf
  generalize ratlpOf c p2 = lp at h1
  generalize ratlsOf c s2 = ls at h2
  sacnum
  exact ⟨le_min zero_le_one (div_nonneg (mul_nonneg hh (by linarith)) (by linarith)), min_le_left _ _⟩

theorem fw_spec (c : Consts ℝ) (hc : ConstsOk c) (fracp percfw s2 p2 : ℝ) (hf0 : 0 ≤ fracp) (hf1 : fracp ≤ 1)
    (hs0 : 0 ≤ s2) (hs1 : s2 ≤ c.alzfsm) (hp0 : 0 ≤ p2) (hw0 : 0 ≤ percfw)
    (hw1 : percfw ≤ lzair2Of c s2 p2) :
    0 ≤ fwS c fracp percfw s2 p2 ∧ fwS c fracp percfw s2 p2 ≤ c.alzfsm ∧
    0 ≤ fwP c fracp percfw s2 p2 ∧ fwP c fracp percfw s2 p2 ≤ c.alzfpm ∧
    fwS c fracp percfw s2 p2 + fwP c fracp percfw s2 p2 = s2 + p2 + percfw := by
  unfold lzair2Of at hw1
  sacnum at hw1
  have h0 : 0 ≤ percs0Of c fracp percfw s2 := by
    unfold percs0Of; sacnum
    exact le_min (by linarith) (mul_nonneg hw0 (by linarith))
  have h1 : percs0Of c fracp percfw s2 ≤ c.alzfsm - s2 := by
    unfold percs0Of; sacnum
    exact min_le_left _ _
  have h2 : percs0Of c fracp percfw s2 ≤ percfw := by
    unfold percs0Of; sacnum
    refine le_trans (min_le_right _ _) ?_
    nlinarith
  unfold fwS fwP
  generalize percs0Of c fracp percfw s2 = ps at h0 h1 h2
  sacnum
  have hns : ¬ c.alzfsm < s2 + ps := by linarith
  simp only [if_neg hns]
  split_ifs with h
  · exact ⟨by linarith, by linarith, hc.pm.le, le_refl _, by ring⟩
  · exact ⟨by linarith, by linarith, by linarith, not_lt.mp h, by ring⟩

/-! ### the upper-zone block of one pass -/

/-- `if uprFreeWater > 0 { percolation, interflow, distribution to the lower zone }`: the upper free water does not
grow, interflow does not decrease, the lower stores stay within their capacities, and the block only moves water:
the sum of the five quantities is unchanged. -/
theorem uzPart_spec (p : Params ℝ) (c : Consts ℝ) (hp : ParamsOk p) (hc : ConstsOk c)
    (dinc duz hpl uzfwc floin lztwc s2 p2 : ℝ) (hd : 0 ≤ dinc) (hz0 : 0 ≤ duz) (hz1 : duz ≤ 1) (hh : 0 ≤ hpl)
    (hu : 0 ≤ uzfwc) (ht0 : 0 ≤ lztwc) (ht1 : lztwc ≤ p.lztwm)
    (hs0 : 0 ≤ s2) (hs1 : s2 ≤ c.alzfsm) (hp0 : 0 ≤ p2) (hp1 : p2 ≤ c.alzfpm) :
    0 ≤ (uzPart p c dinc duz hpl uzfwc floin lztwc s2 p2).1 ∧
    (uzPart p c dinc duz hpl uzfwc floin lztwc s2 p2).1 ≤ uzfwc ∧
    floin ≤ (uzPart p c dinc duz hpl uzfwc floin lztwc s2 p2).2.1 ∧
    0 ≤ (uzPart p c dinc duz hpl uzfwc floin lztwc s2 p2).2.2.1 ∧
    (uzPart p c dinc duz hpl uzfwc floin lztwc s2 p2).2.2.1 ≤ p.lztwm ∧
    0 ≤ (uzPart p c dinc duz hpl uzfwc floin lztwc s2 p2).2.2.2.1 ∧
    (uzPart p c dinc duz hpl uzfwc floin lztwc s2 p2).2.2.2.1 ≤ c.alzfsm ∧
    0 ≤ (uzPart p c dinc duz hpl uzfwc floin lztwc s2 p2).2.2.2.2.1 ∧
    (uzPart p c dinc duz hpl uzfwc floin lztwc s2 p2).2.2.2.2.1 ≤ c.alzfpm ∧
    (uzPart p c dinc duz hpl uzfwc floin lztwc s2 p2).1 + (uzPart p c dinc duz hpl uzfwc floin lztwc s2 p2).2.1 +
      (uzPart p c dinc duz hpl uzfwc floin lztwc s2 p2).2.2.1 +
      (uzPart p c dinc duz hpl uzfwc floin lztwc s2 p2).2.2.2.1 +
      (uzPart p c dinc duz hpl uzfwc floin lztwc s2 p2).2.2.2.2.1 = uzfwc + floin + lztwc + s2 + p2 := by
  obtain ⟨hP0, hP1, hP2, hP3⟩ := perc_spec p c hp hc dinc uzfwc lztwc s2 p2 hd hu ht0 ht1 hs1 hp1
  have hair2 : 0 ≤ lzair2Of c s2 p2 := by unfold lzair2Of; sacnum; linarith
  obtain ⟨hS0, hS1, hS2, hS3, hS4⟩ :=
    split_spec p c hp (percVal p c dinc uzfwc lztwc s2 p2) lztwc s2 p2 hP0 hP1 ht1 hair2
  obtain ⟨hF0, hF1⟩ := fracp_spec c hc hpl s2 p2 hh hs1 hp1
  obtain ⟨hW0, hW1, hW2, hW3, hW4⟩ := fw_spec c hc (fracpOf c hpl s2 p2)
    (percfwOf p c (percVal p c dinc uzfwc lztwc s2 p2) lztwc s2 p2) s2 p2 hF0 hF1 hs0 hs1 hp0 hS2 hS3
  unfold uzPart
  simp only []
  rw [hP3]
  generalize percVal p c dinc uzfwc lztwc s2 p2 = perc at *
  generalize perctwOf p c perc lztwc s2 p2 = tw at *
  generalize percfwOf p c perc lztwc s2 p2 = fw at *
  generalize fwS c (fracpOf c hpl s2 p2) fw s2 p2 = S at *
  generalize fwP c (fracpOf c hpl s2 p2) fw s2 p2 = P at *
  have hdel0 : 0 ≤ duz * (uzfwc - perc) := mul_nonneg hz0 (by linarith)
  have hdel1 : duz * (uzfwc - perc) ≤ uzfwc - perc := by nlinarith
  by_cases h1 : @LT.lt ℝ Num.toLT (0.0 : ℝ) uzfwc
  · rw [if_pos h1]
    by_cases h2 : @LT.lt ℝ Num.toLT (0.0 : ℝ) fw
    · rw [if_pos h2]
      sacnum
      refine ⟨by linarith, by linarith, by linarith, by linarith, by linarith, hW0, hW1, hW2, hW3, ?_⟩
      linarith
    · rw [if_neg h2]
      sacnum
      refine ⟨by linarith, by linarith, by linarith, by linarith, by linarith, hs0, hs1, hp0, hp1, ?_⟩
      sacnum at h2
      have : fw = 0 := le_antisymm (not_lt.mp h2) hS2
      linarith
  · rw [if_neg h1]
    exact ⟨hu, le_refl _, le_refl _, ht0, ht1, hs0, hs1, hp0, hp1, rfl⟩

/-! ### filling of the upper free water by one rain increment -/

theorem fill_spec (p : Params ℝ) (pinc flosf uzfwc3 : ℝ) (hpi : 0 ≤ pinc) (hu0 : 0 ≤ uzfwc3)
    (hu1 : uzfwc3 ≤ p.uzfwm) :
    0 ≤ fillUz p pinc uzfwc3 ∧ fillUz p pinc uzfwc3 ≤ p.uzfwm ∧ flosf ≤ fillSf p pinc flosf uzfwc3 ∧
    fillUz p pinc uzfwc3 + fillSf p pinc flosf uzfwc3 = uzfwc3 + flosf + pinc ∧
    (0 < pinc ∨ fillUz p pinc uzfwc3 = uzfwc3) := by
  unfold fillUz fillSf pavIOf
  sacnum
  by_cases h : 0 < pinc
  · simp only [if_pos h]
    split_ifs with h2
    · exact ⟨by linarith, by linarith, le_refl _, by ring, Or.inl h⟩
    · exact ⟨by linarith, le_refl _, by linarith, by ring, Or.inl h⟩
  · simp only [if_neg h]
    have : pinc = 0 := le_antisymm (not_lt.mp h) hpi
    exact ⟨hu0, hu1, le_refl _, by rw [this]; ring, Or.inr trivial⟩

/-! ### the additional impervious area -/

/-- the saturation ratio (as repaired: clamped at zero); the divisor `lztwm` is positive -/
theorem ratio_spec (p : Params ℝ) (hp : ParamsOk p) (uztwc adimc : ℝ) :
    0 ≤ ratioOf p uztwc adimc ∧ adimc - uztwc ≤ ratioOf p uztwc adimc * p.lztwm ∧
    (ratioOf p uztwc adimc = 0 ∨ ratioOf p uztwc adimc * p.lztwm = adimc - uztwc) := by
  unfold ratioOf
  sacnum
  have hl := hp.lztwm_pos
  split_ifs with h
  · rw [div_lt_iff₀ hl] at h
    exact ⟨le_refl _, by linarith, Or.inl rfl⟩
  · have hc : (adimc - uztwc) / p.lztwm * p.lztwm = adimc - uztwc := div_mul_cancel₀ _ hl.ne'
    exact ⟨not_lt.mp h, hc.ge, Or.inr hc⟩

/-- runoff of the additional impervious area for one increment: `pinc − y·(1 − ratio²)` where `y ∈ [0, pinc]` is
the part of the increment that the upper free water could take (the divisor `pinc` is positive where it is used) -/
theorem addro_form (p : Params ℝ) (uztwc pinc adimc uzfwc3 : ℝ) (hpi : 0 ≤ pinc)
    (hu1 : uzfwc3 ≤ p.uzfwm) :
    ∃ y, 0 ≤ y ∧ y ≤ pinc ∧ addroOf p uztwc pinc adimc uzfwc3 =
      pinc - y * (1 - ratioOf p uztwc adimc * ratioOf p uztwc adimc) := by
  unfold addroOf pavIOf
  simp only []
  generalize ratioOf p uztwc adimc = r
  sacnum
  by_cases h : 0 < pinc
  · simp only [if_pos h]
    split_ifs with h2
    · exact ⟨pinc, hpi, le_refl _, by ring⟩
    · refine ⟨p.uzfwm - uzfwc3, by linarith, by linarith, ?_⟩
      have hd : pinc * r * r / pinc = r * r := by
        rw [mul_assoc, mul_div_cancel_left₀ _ h.ne']
      rw [hd]; ring
  · simp only [if_neg h]
    have : pinc = 0 := le_antisymm (not_lt.mp h) hpi
    exact ⟨0, le_refl _, hpi, by rw [this]; ring⟩

/-- the polynomial core of the ADIMP invariant: with `G = adimc − uztwc ≤ r·L`, `r ∈ [0, 5/4]` and an increment
`y ≤ L`, the update `G + y(1 − r²)` stays below `5L/4`, and the store stays non-negative -/
theorem adimp_poly (L y r G uztwc : ℝ) (hL : 0 < L) (hy0 : 0 ≤ y) (hy1 : y ≤ L) (hr0 : 0 ≤ r)
    (hG1 : G ≤ r * L) (hG2 : r = 0 ∨ r * L = G) (hG3 : 4 * G ≤ 5 * L) (hu : 0 ≤ uztwc) (ha : 0 ≤ uztwc + G) :
    0 ≤ uztwc + G + y * (1 - r * r) ∧ 4 * (G + y * (1 - r * r)) ≤ 5 * L := by
  have hr54 : 4 * r ≤ 5 := by
    rcases hG2 with h | h
    · rw [h]; norm_num
    · have : 4 * (r * L) ≤ 5 * L := by rw [h]; exact hG3
      by_contra hc
      have : 5 * L < 4 * r * L := by nlinarith
      linarith
  by_cases h1 : r ≤ 1
  · have hrr : 0 ≤ 1 - r * r := by nlinarith
    have h2 : 0 ≤ y * (1 - r * r) := mul_nonneg hy0 hrr
    have h3 : y * (1 - r * r) ≤ L * (1 - r * r) := mul_le_mul_of_nonneg_right hy1 hrr
    refine ⟨by linarith, ?_⟩
    have h4 : 0 ≤ L * ((r - 1 / 2) * (r - 1 / 2)) := mul_nonneg hL.le (mul_self_nonneg _)
    have h5 : r * L + L * (1 - r * r) = 5 / 4 * L - L * ((r - 1 / 2) * (r - 1 / 2)) := by ring
    linarith
  · have h1' : 1 < r := not_le.mp h1
    have hrr : 0 ≤ r * r - 1 := by nlinarith
    have h2 : y * (r * r - 1) ≤ L * (r * r - 1) := mul_le_mul_of_nonneg_right hy1 hrr
    have h3 : 0 ≤ y * (r * r - 1) := mul_nonneg hy0 hrr
    have h4 : r * r ≤ 5 / 4 * r := by nlinarith
    have hG : G = r * L := by
      rcases hG2 with h | h
      · linarith
      · exact h.symm
    have h5 : L * (r * r - 1) ≤ L * (5 / 4 * r - 1) := mul_le_mul_of_nonneg_left (by linarith) hL.le
    have h6 : y * (1 - r * r) = -(y * (r * r - 1)) := by ring
    have h7 : r * L - L * (5 / 4 * r - 1) = L * (1 - r / 4) := by ring
    have h8 : 0 ≤ L * (1 - r / 4) := mul_nonneg hL.le (by linarith)
    refine ⟨by linarith, by linarith⟩

/-! ### one pass of the loop -/

/-- the invariant of the drainage-and-percolation loop (for the upper tension water content `uztwc` of the step,
constant during the loop): stores within capacities, the additional impervious store non-negative and at most
`uztwc + 5/4·lztwm`, relative upper free water content not above the relative tension water content, accumulated
flows non-negative -/
structure LoopInv (p : Params ℝ) (c : Consts ℝ) (uztwc : ℝ) (v : Inner ℝ) : Prop where
  p0 : 0 ≤ v.alzfpc
  p1 : v.alzfpc ≤ c.alzfpm
  s0 : 0 ≤ v.alzfsc
  s1 : v.alzfsc ≤ c.alzfsm
  f0 : 0 ≤ v.uzfwc
  f1 : v.uzfwc ≤ p.uzfwm
  t0 : 0 ≤ v.lztwc
  t1 : v.lztwc ≤ p.lztwm
  a0 : 0 ≤ v.adimc
  a1 : 4 * (v.adimc - uztwc) ≤ 5 * p.lztwm
  u : v.uzfwc * p.uztwm ≤ uztwc * p.uzfwm
  bf0 : 0 ≤ v.flobf
  sf0 : 0 ≤ v.flosf
  in0 : 0 ≤ v.floin
  ro0 : 0 ≤ v.roimp

/-- water of the pervious area seen by the loop: stores plus the flows already released -/
def wp (v : Inner ℝ) : ℝ := v.uzfwc + v.lztwc + v.alzfsc + v.alzfpc + v.flobf + v.flosf + v.floin

/-- water of the additional impervious area (per unit catchment area) plus the impervious runoff released -/
def wa (p : Params ℝ) (v : Inner ℝ) : ℝ := p.adimp * v.adimc + v.roimp

/-- what the loop needs from its constants: increment in [0, lztwm], rates in [0,1], and the upper tension water is
full whenever there is a rain increment -/
structure LoopConsts (p : Params ℝ) (uztwc pinc dinc duz dlzp dlzs hpl : ℝ) : Prop where
  pinc0 : 0 ≤ pinc
  pinc1 : pinc ≤ p.lztwm
  pinc5 : pinc ≤ 5
  dinc0 : 0 ≤ dinc
  duz0 : 0 ≤ duz
  duz1 : duz ≤ 1
  dlzp0 : 0 ≤ dlzp
  dlzp1 : dlzp ≤ 1
  dlzs0 : 0 ≤ dlzs
  dlzs1 : dlzs ≤ 1
  hpl0 : 0 ≤ hpl
  uz0 : 0 ≤ uztwc
  full : 0 < pinc → uztwc = p.uztwm

theorem s2Of_eq (dlzs : ℝ) (v : Inner ℝ) : s2Of dlzs v = bfKeep v.alzfsc - bfOut v.alzfsc dlzs := rfl
theorem p2Of_eq (dlzp : ℝ) (v : Inner ℝ) : p2Of dlzp v = bfKeep v.alzfpc - bfOut v.alzfpc dlzp := rfl
theorem uzOf_eq (p : Params ℝ) (c : Consts ℝ) (dinc duz dlzp dlzs hpl : ℝ) (v : Inner ℝ) :
    uzPart p c dinc duz hpl v.uzfwc v.floin v.lztwc (s2Of dlzs v) (p2Of dlzp v) =
      uzOf p c dinc duz dlzp dlzs hpl v := rfl

/-- **One pass.** The loop invariant is kept; the pervious-area water grows by exactly the rain increment and the
additional-impervious-area water by `adimp` times the increment: nothing is created or lost inside the pass. -/
theorem incBody_spec (p : Params ℝ) (c : Consts ℝ) (hp : ParamsOk p) (hc : ConstsOk c)
    (uztwc pinc dinc duz dlzp dlzs hpl : ℝ) (hk : LoopConsts p uztwc pinc dinc duz dlzp dlzs hpl)
    (v : Inner ℝ) (hv : LoopInv p c uztwc v) :
    LoopInv p c uztwc (incBody p c uztwc pinc dinc duz dlzp dlzs hpl v) ∧
    wp (incBody p c uztwc pinc dinc duz dlzp dlzs hpl v) = wp v + pinc ∧
    wa p (incBody p c uztwc pinc dinc duz dlzp dlzs hpl v) = wa p v + p.adimp * pinc := by
  have e1 := incBody_alzfpc p c uztwc pinc dinc duz dlzp dlzs hpl v
  have e2 := incBody_alzfsc p c uztwc pinc dinc duz dlzp dlzs hpl v
  have e3 := incBody_lztwc p c uztwc pinc dinc duz dlzp dlzs hpl v
  have e4 := incBody_floin p c uztwc pinc dinc duz dlzp dlzs hpl v
  have e5 := incBody_uzfwc p c uztwc pinc dinc duz dlzp dlzs hpl v
  have e6 := incBody_flosf p c uztwc pinc dinc duz dlzp dlzs hpl v
  have e7 := incBody_flobf p c uztwc pinc dinc duz dlzp dlzs hpl v
  have e8 := incBody_adimc p c uztwc pinc dinc duz dlzp dlzs hpl v
  have e9 := incBody_roimp p c uztwc pinc dinc duz dlzp dlzs hpl v
  sacnum at e7
  sacnum at e8
  sacnum at e9
  generalize incBody p c uztwc pinc dinc duz dlzp dlzs hpl v = w at e1 e2 e3 e4 e5 e6 e7 e8 e9 ⊢
  obtain ⟨hbp0, hbp1, hbp2, hbp3⟩ := bf_spec v.alzfpc dlzp c.alzfpm hv.p0 hv.p1 hk.dlzp0 hk.dlzp1
  obtain ⟨hbs0, hbs1, hbs2, hbs3⟩ := bf_spec v.alzfsc dlzs c.alzfsm hv.s0 hv.s1 hk.dlzs0 hk.dlzs1
  rw [← p2Of_eq] at hbp1 hbp2 hbp3
  rw [← s2Of_eq] at hbs1 hbs2 hbs3
  have hU := uzPart_spec p c hp hc dinc duz hpl v.uzfwc v.floin v.lztwc (s2Of dlzs v) (p2Of dlzp v)
    hk.dinc0 hk.duz0 hk.duz1 hk.hpl0 hv.f0 hv.t0 hv.t1 hbs1 hbs2 hbp1 hbp2
  rw [uzOf_eq] at hU
  obtain ⟨hu0, hu1, hu2, hu3, hu4, hu5, hu6, hu7, hu8, hu9⟩ := hU
  have hf1' : (uzOf p c dinc duz dlzp dlzs hpl v).1 ≤ p.uzfwm := le_trans hu1 hv.f1
  obtain ⟨hf0, hf1, hf2, hf3, hf4⟩ := fill_spec p pinc v.flosf (uzOf p c dinc duz dlzp dlzs hpl v).1 hk.pinc0 hu0 hf1'
  obtain ⟨y, hy0, hy1, hy2⟩ := addro_form p uztwc pinc v.adimc (uzOf p c dinc duz dlzp dlzs hpl v).1 hk.pinc0 hf1'
  obtain ⟨hr0, hr1, hr2⟩ := ratio_spec p hp uztwc v.adimc
  obtain ⟨ha0, ha1⟩ := adimp_poly p.lztwm y (ratioOf p uztwc v.adimc) (v.adimc - uztwc) uztwc hp.lztwm_pos hy0
    (le_trans hy1 hk.pinc1) hr0 hr1 hr2 hv.a1 hk.uz0 (by linarith [hv.a0])
  have hadd0 : 0 ≤ addroOf p uztwc pinc v.adimc (uzOf p c dinc duz dlzp dlzs hpl v).1 := by
    rw [hy2]
    have : y * (1 - ratioOf p uztwc v.adimc * ratioOf p uztwc v.adimc) ≤ y := by
      have := mul_nonneg hy0 (mul_self_nonneg (ratioOf p uztwc v.adimc))
      nlinarith
    linarith
  generalize ratioOf p uztwc v.adimc = r at *
  generalize addroOf p uztwc pinc v.adimc (uzOf p c dinc duz dlzp dlzs hpl v).1 = addro at *
  have hU' : fillUz p pinc (uzOf p c dinc duz dlzp dlzs hpl v).1 * p.uztwm ≤ uztwc * p.uzfwm := by
    rcases hf4 with h | h
    · rw [hk.full h]
      have := mul_le_mul_of_nonneg_right hf1 hp.uztwm.le
      linarith
    · rw [h]
      have := mul_le_mul_of_nonneg_right hu1 hp.uztwm.le
      linarith [hv.u]
  generalize fillUz p pinc (uzOf p c dinc duz dlzp dlzs hpl v).1 = uz4 at *
  generalize fillSf p pinc v.flosf (uzOf p c dinc duz dlzp dlzs hpl v).1 = sf1 at *
  generalize hr : uzOf p c dinc duz dlzp dlzs hpl v = r' at *
  have hro : 0 ≤ addro * p.adimp := mul_nonneg hadd0 hp.adimp0
  refine ⟨⟨?_, ?_, ?_, ?_, ?_, ?_, ?_, ?_, ?_, ?_, ?_, ?_, ?_, ?_, ?_⟩, ?_, ?_⟩
  · rw [e1]; exact hu7
  · rw [e1]; exact hu8
  · rw [e2]; exact hu5
  · rw [e2]; exact hu6
  · rw [e5]; exact hf0
  · rw [e5]; exact hf1
  · rw [e3]; exact hu3
  · rw [e3]; exact hu4
  · rw [e8]; linarith
  · rw [e8]; linarith
  · rw [e5]; exact hU'
  · rw [e7]; linarith [hv.bf0]
  · rw [e6]; linarith [hv.sf0]
  · rw [e4]; linarith [hv.in0]
  · rw [e9]; linarith [hv.ro0]
  · unfold wp
    rw [e1, e2, e3, e4, e5, e6, e7]
    linarith
  · unfold wa
    rw [e8, e9]
    ring

/-! ### the loop: induction on the number of passes -/

/-- **Loop invariant.** After `n` passes the invariant still holds, and the pervious-area water has grown by
exactly `n` rain increments (the additional-impervious-area water by `adimp` times that). -/
theorem incLoop_spec (p : Params ℝ) (c : Consts ℝ) (hp : ParamsOk p) (hc : ConstsOk c)
    (uztwc pinc dinc duz dlzp dlzs hpl : ℝ) (hk : LoopConsts p uztwc pinc dinc duz dlzp dlzs hpl) :
    ∀ (n : ℕ) (v : Inner ℝ), LoopInv p c uztwc v →
      LoopInv p c uztwc (incLoop p c uztwc pinc dinc duz dlzp dlzs hpl n v) ∧
      wp (incLoop p c uztwc pinc dinc duz dlzp dlzs hpl n v) = wp v + n * pinc ∧
      wa p (incLoop p c uztwc pinc dinc duz dlzp dlzs hpl n v) = wa p v + p.adimp * (n * pinc) := by
  intro n
  induction n with
  | zero =>
    intro v hv
    refine ⟨hv, ?_, ?_⟩
    · show wp v = wp v + ((0 : ℕ) : ℝ) * pinc
      rw [Nat.cast_zero]; ring
    · show wa p v = wa p v + p.adimp * (((0 : ℕ) : ℝ) * pinc)
      rw [Nat.cast_zero]; ring
  | succ n ih =>
    intro v hv
    obtain ⟨h1, h2, h3⟩ := incBody_spec p c hp hc uztwc pinc dinc duz dlzp dlzs hpl hk v hv
    obtain ⟨i1, i2, i3⟩ := ih (incBody p c uztwc pinc dinc duz dlzp dlzs hpl v) h1
    show LoopInv p c uztwc (incLoop p c uztwc pinc dinc duz dlzp dlzs hpl n
        (incBody p c uztwc pinc dinc duz dlzp dlzs hpl v)) ∧
      wp (incLoop p c uztwc pinc dinc duz dlzp dlzs hpl n (incBody p c uztwc pinc dinc duz dlzp dlzs hpl v)) =
        wp v + ((n + 1 : ℕ) : ℝ) * pinc ∧
      wa p (incLoop p c uztwc pinc dinc duz dlzp dlzs hpl n (incBody p c uztwc pinc dinc duz dlzp dlzs hpl v)) =
        wa p v + p.adimp * (((n + 1 : ℕ) : ℝ) * pinc)
    refine ⟨i1, ?_, ?_⟩
    · rw [i2, h2, Nat.cast_succ]; ring
    · rw [i3, h3, Nat.cast_succ]; ring

/-! ### number of increments and rates of one `ii` pass -/

theorem N_ofInt (n : ℤ) : (Num.ofInt n : ℝ) = (n : ℝ) := rfl

theorem toInt_floor (x : ℝ) : Num.toInt (Num.floor x : ℝ) = ⌊x⌋ := by
  show (if (0 : ℝ) ≤ ((⌊x⌋ : ℤ) : ℝ) then ⌊((⌊x⌋ : ℤ) : ℝ)⌋ else ⌈((⌊x⌋ : ℤ) : ℝ)⌉) = ⌊x⌋
  split_ifs <;> simp

theorem sci02 : @OfScientific.ofScientific ℝ (Num.toOfScientific) 2 true 1 = 1 / 5 := by
  rw [OW.RR.Surm.sci]; norm_num

/-- `ninc = ⌊0.2·(uzfwc·adj + pav)⌋ + 1 ≥ 1`, and the rain increment `pav/ninc` is below 5 mm -/
theorem ninc_spec (adj pav uzfwc : ℝ) (ha : 0 ≤ adj) (hpav : 0 ≤ pav) (hu : 0 ≤ uzfwc) :
    1 ≤ nincOf adj pav uzfwc ∧ pav < 5 * ((nincOf adj pav uzfwc : ℤ) : ℝ) := by
  unfold nincOf
  rw [toInt_floor]
  sacnum
  rw [sci02]
  have hx : 0 ≤ (uzfwc * adj + pav) * (1 / 5) := by
    have := mul_nonneg hu ha
    linarith
  have h1 : 0 ≤ ⌊(uzfwc * adj + pav) * (1 / 5)⌋ := Int.floor_nonneg.mpr hx
  have h2 : (uzfwc * adj + pav) * (1 / 5) < ⌊(uzfwc * adj + pav) * (1 / 5)⌋ + 1 := Int.lt_floor_add_one _
  refine ⟨by linarith, ?_⟩
  push_cast
  have := mul_nonneg hu ha
  linarith

theorem fracRate_spec (k dinc : ℝ) (hk0 : 0 ≤ k) (hd : 0 ≤ dinc) :
    0 ≤ fracRate k dinc ∧ fracRate k dinc ≤ 1 := by
  unfold fracRate
  sacnum
  split_ifs with h
  · have h1 : (1 - k) ^ dinc ≤ 1 := Real.rpow_le_one (by linarith) (by linarith) hd
    have h2 : 0 ≤ (1 - k) ^ dinc := Real.rpow_nonneg (by linarith) _
    exact ⟨by linarith, by linarith⟩
  · exact ⟨zero_le_one, le_refl _⟩

theorem rate_spec (n : ℤ) (adj k dinc : ℝ) (hk0 : 0 ≤ k) (hk1 : k ≤ 1) (hd : 0 ≤ dinc) :
    0 ≤ rateOf n adj k dinc ∧ rateOf n adj k dinc ≤ 1 := by
  unfold rateOf
  split_ifs
  · exact ⟨hk0, hk1⟩
  · exact fracRate_spec k dinc hk0 hd

theorem LoopInv.tags {p : Params ℝ} {c : Consts ℝ} {uztwc : ℝ} {v : Inner ℝ} (hv : LoopInv p c uztwc v)
    (adj : ℝ) (n : ℤ) : LoopInv p c uztwc (iiTags adj n v) :=
  ⟨hv.p0, hv.p1, hv.s0, hv.s1, hv.f0, hv.f1, hv.t0, hv.t1, hv.a0, hv.a1, hv.u, hv.bf0, hv.sf0, hv.in0, hv.ro0⟩

/-- the constants of one `ii` pass satisfy `LoopConsts` (the divisor `ninc` is ≥ 1; the increment is below 5 mm) -/
theorem ii_consts (p : Params ℝ) (hp : ParamsOk p) (uztwc hpl adj pav : ℝ) (n : ℤ) (hh : 0 ≤ hpl) (hu0 : 0 ≤ uztwc)
    (ha : 0 ≤ adj) (hpav : 0 ≤ pav) (hfull : 0 < pav → uztwc = p.uztwm) (hn1 : 1 ≤ n) (hn5 : pav < 5 * (n : ℝ)) :
    LoopConsts p uztwc (pav * (1 / (n : ℝ))) (1 / (n : ℝ) * adj)
      (rateOf n adj p.uzk (1 / (n : ℝ) * adj)) (rateOf n adj p.lzpk (1 / (n : ℝ) * adj))
      (rateOf n adj p.lzsk (1 / (n : ℝ) * adj)) hpl := by
  have hnR : (1 : ℝ) ≤ (n : ℝ) := by exact_mod_cast hn1
  have hn0 : (0 : ℝ) < (n : ℝ) := by linarith
  have hinv : 0 ≤ 1 / (n : ℝ) := by positivity
  have hpinc0 : 0 ≤ pav * (1 / (n : ℝ)) := mul_nonneg hpav hinv
  have hpinc5 : pav * (1 / (n : ℝ)) ≤ 5 := by
    rw [mul_one_div, div_le_iff₀ hn0]; linarith
  have hdinc : 0 ≤ 1 / (n : ℝ) * adj := mul_nonneg hinv ha
  exact
    { pinc0 := hpinc0
      pinc1 := by linarith [hp.lztwm]
      pinc5 := hpinc5
      dinc0 := hdinc
      duz0 := (rate_spec n adj p.uzk _ hp.uzk0 hp.uzk1 hdinc).1
      duz1 := (rate_spec n adj p.uzk _ hp.uzk0 hp.uzk1 hdinc).2
      dlzp0 := (rate_spec n adj p.lzpk _ hp.lzpk0 hp.lzpk1 hdinc).1
      dlzp1 := (rate_spec n adj p.lzpk _ hp.lzpk0 hp.lzpk1 hdinc).2
      dlzs0 := (rate_spec n adj p.lzsk _ hp.lzsk0 hp.lzsk1 hdinc).1
      dlzs1 := (rate_spec n adj p.lzsk _ hp.lzsk0 hp.lzsk1 hdinc).2
      hpl0 := hh
      uz0 := hu0
      full := fun h => hfull (by
        by_contra hc'
        have : pav = 0 := le_antisymm (not_lt.mp hc') hpav
        rw [this, zero_mul] at h
        exact lt_irrefl _ h) }

/-- **One `ii` pass** (all `ninc` increments): for `adj ≥ 0` and an amount `pav ≥ 0` of rain in excess of the upper
tension water (which is then full), the loop invariant is kept, the pervious-area water grows by exactly `pav` and the
additional-impervious-area water by `adimp·pav`. The divisor `ninc` is ≥ 1. -/
theorem iiBody_spec (p : Params ℝ) (c : Consts ℝ) (hp : ParamsOk p) (hc : ConstsOk c)
    (uztwc hpl adj pav : ℝ) (hh : 0 ≤ hpl) (hu0 : 0 ≤ uztwc) (ha : 0 ≤ adj) (hpav : 0 ≤ pav)
    (hfull : 0 < pav → uztwc = p.uztwm) (v : Inner ℝ) (hv : LoopInv p c uztwc v) :
    LoopInv p c uztwc (iiBody p c uztwc hpl adj pav v) ∧
    wp (iiBody p c uztwc hpl adj pav v) = wp v + pav ∧
    wa p (iiBody p c uztwc hpl adj pav v) = wa p v + p.adimp * pav := by
  rw [iiBody_eq]
  obtain ⟨hn1, hn5⟩ := ninc_spec adj pav v.uzfwc ha hpav hv.f0
  generalize nincOf adj pav v.uzfwc = n at hn1 hn5 ⊢
  rw [N_ofInt]
  sacnum
  have hk := ii_consts p hp uztwc hpl adj pav n hh hu0 ha hpav hfull hn1 hn5
  obtain ⟨i1, i2, i3⟩ := incLoop_spec p c hp hc uztwc _ _ _ _ _ hpl hk n.toNat (iiTags adj n v) (hv.tags adj n)
  have hnR : (1 : ℝ) ≤ (n : ℝ) := by exact_mod_cast hn1
  have hcast : ((n.toNat : ℕ) : ℝ) = (n : ℝ) := by
    have h : ((n.toNat : ℕ) : ℤ) = n := Int.toNat_of_nonneg (by linarith)
    exact_mod_cast congrArg (fun z : ℤ => (z : ℝ)) h
  have hmul : (n : ℝ) * (pav * (1 / (n : ℝ))) = pav := by
    have : (n : ℝ) ≠ 0 := by linarith
    field_simp
  refine ⟨i1, ?_, ?_⟩
  · rw [i2, hcast, hmul]; rfl
  · rw [i3, hcast, hmul]; rfl

/-! ### the sharper bound on the additional impervious store for `lztwm ≥ 10`

With `lztwm ≥ 10` a rain increment (< 5 mm) is at most `lztwm/2`, and then `adimc − uztwc ≤ lztwm` (saturation ratio
≤ 1) is itself preserved: the additional impervious store stays within its nominal capacity `uztwm + lztwm`. -/

theorem adimp_poly2 (L y r G : ℝ) (hL : 0 < L) (hy1 : 2 * y ≤ L) (hr0 : 0 ≤ r)
    (hG1 : G ≤ r * L) (hG2 : r = 0 ∨ r * L = G) (hG3 : G ≤ L) : G + y * (1 - r * r) ≤ L := by
  have hr1 : r ≤ 1 := by
    rcases hG2 with h | h
    · rw [h]; exact zero_le_one
    · by_contra hc
      have : L < r * L := by nlinarith
      linarith
  have hrr : 0 ≤ 1 - r * r := by nlinarith
  have h1 : y * (1 - r * r) ≤ L / 2 * (1 - r * r) := mul_le_mul_of_nonneg_right (by linarith) hrr
  have h2 : 0 ≤ L * ((1 - r) * (1 - r)) := mul_nonneg hL.le (mul_self_nonneg _)
  have h3 : L - r * L - L / 2 * (1 - r * r) = L * ((1 - r) * (1 - r)) / 2 := by ring
  linarith

theorem incBody_G (p : Params ℝ) (c : Consts ℝ) (hp : ParamsOk p) (hc : ConstsOk c) (h10 : 10 ≤ p.lztwm)
    (uztwc pinc dinc duz dlzp dlzs hpl : ℝ) (hk : LoopConsts p uztwc pinc dinc duz dlzp dlzs hpl)
    (v : Inner ℝ) (hv : LoopInv p c uztwc v) (hG : v.adimc - uztwc ≤ p.lztwm) :
    (incBody p c uztwc pinc dinc duz dlzp dlzs hpl v).adimc - uztwc ≤ p.lztwm := by
  obtain ⟨hbp0, hbp1, hbp2, hbp3⟩ := bf_spec v.alzfpc dlzp c.alzfpm hv.p0 hv.p1 hk.dlzp0 hk.dlzp1
  obtain ⟨hbs0, hbs1, hbs2, hbs3⟩ := bf_spec v.alzfsc dlzs c.alzfsm hv.s0 hv.s1 hk.dlzs0 hk.dlzs1
  rw [← p2Of_eq] at hbp1 hbp2
  rw [← s2Of_eq] at hbs1 hbs2
  have hU := uzPart_spec p c hp hc dinc duz hpl v.uzfwc v.floin v.lztwc (s2Of dlzs v) (p2Of dlzp v)
    hk.dinc0 hk.duz0 hk.duz1 hk.hpl0 hv.f0 hv.t0 hv.t1 hbs1 hbs2 hbp1 hbp2
  rw [uzOf_eq] at hU
  have hf1' : (uzOf p c dinc duz dlzp dlzs hpl v).1 ≤ p.uzfwm := le_trans hU.2.1 hv.f1
  obtain ⟨y, hy0, hy1, hy2⟩ := addro_form p uztwc pinc v.adimc (uzOf p c dinc duz dlzp dlzs hpl v).1 hk.pinc0 hf1'
  obtain ⟨hr0, hr1, hr2⟩ := ratio_spec p hp uztwc v.adimc
  have h := adimp_poly2 p.lztwm y (ratioOf p uztwc v.adimc) (v.adimc - uztwc) hp.lztwm_pos
    (by linarith [hk.pinc5]) hr0 hr1 hr2 hG
  have e8 := incBody_adimc p c uztwc pinc dinc duz dlzp dlzs hpl v
  sacnum at e8
  rw [e8, hy2]
  linarith

theorem incLoop_G (p : Params ℝ) (c : Consts ℝ) (hp : ParamsOk p) (hc : ConstsOk c) (h10 : 10 ≤ p.lztwm)
    (uztwc pinc dinc duz dlzp dlzs hpl : ℝ) (hk : LoopConsts p uztwc pinc dinc duz dlzp dlzs hpl) :
    ∀ (n : ℕ) (v : Inner ℝ), LoopInv p c uztwc v → v.adimc - uztwc ≤ p.lztwm →
      (incLoop p c uztwc pinc dinc duz dlzp dlzs hpl n v).adimc - uztwc ≤ p.lztwm := by
  intro n
  induction n with
  | zero => intro v _ hG; exact hG
  | succ n ih =>
    intro v hv hG
    exact ih _ (incBody_spec p c hp hc uztwc pinc dinc duz dlzp dlzs hpl hk v hv).1
      (incBody_G p c hp hc h10 uztwc pinc dinc duz dlzp dlzs hpl hk v hv hG)

theorem iiBody_G (p : Params ℝ) (c : Consts ℝ) (hp : ParamsOk p) (hc : ConstsOk c) (h10 : 10 ≤ p.lztwm)
    (uztwc hpl adj pav : ℝ) (hh : 0 ≤ hpl) (hu0 : 0 ≤ uztwc) (ha : 0 ≤ adj) (hpav : 0 ≤ pav)
    (hfull : 0 < pav → uztwc = p.uztwm) (v : Inner ℝ) (hv : LoopInv p c uztwc v)
    (hG : v.adimc - uztwc ≤ p.lztwm) : (iiBody p c uztwc hpl adj pav v).adimc - uztwc ≤ p.lztwm := by
  rw [iiBody_eq]
  obtain ⟨hn1, hn5⟩ := ninc_spec adj pav v.uzfwc ha hpav hv.f0
  generalize nincOf adj pav v.uzfwc = n at hn1 hn5 ⊢
  rw [N_ofInt]
  sacnum
  have hk := ii_consts p hp uztwc hpl adj pav n hh hu0 ha hpav hfull hn1 hn5
  exact incLoop_G p c hp hc h10 uztwc _ _ _ _ _ hpl hk n.toNat (iiTags adj n v) (hv.tags adj n) hG

end OW.RR.Sac
