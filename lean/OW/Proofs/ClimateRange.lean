import OW.Proofs.ClimateFreezing
/-!
Verified numerics for C20 on the property's input range (dry bulb ≤ 55 °C, elevation ≤ 10000 m): an upper bound of the
Goff-Gratch saturation pressure at 55 °C and a lower bound of the barometric pressure up to 10 km, far enough apart
(18.04 kPa vs 22.49 kPa; true values 15.75 and 27.08) that crude rational enclosures suffice:
  log₁₀(373.16/328.16) ≤ 3/50,   10^(−3/4) ≤ 0.178,   (228/293)^5.26 ≥ (228/293)^6.
-/
namespace OW.Proofs.Climate
open OW OW.Kernels.Climate

/-- the water branch at the boiling point: exactly one standard atmosphere -/
theorem vp_hundred : vaporPressure (100:ℝ) = 101.325 := by
  rw [vp_water 100 (by norm_num)]
  have z : (373.16:ℝ) / (100 + 273.16) = 1 := by norm_num
  have e : expWater 1 = 0 := by unfold expWater; rw [Real.logb_one]; norm_num
  rw [z, e]; norm_num

/-- an upper bound of the water exponent from an upper enclosure of its logarithm (the two power terms are ≤ 0 for z ≥ 1) -/
theorem expWater_upper (z l : ℝ) (hz : 1 ≤ z) (hl : Real.logb 10 z ≤ l) :
    expWater z ≤ (z - 1) * -7.90298 + l * 5.02808 := by
  unfold expWater
  have hz0 : 0 < z := by linarith
  have hP : 1 ≤ (10:ℝ) ^ ((1 - 1 / z) * 11.344) := by
    apply Real.one_le_rpow (by norm_num)
    have : 1 / z ≤ 1 := by rw [div_le_one hz0]; exact hz
    nlinarith
  have hQ : (10:ℝ) ^ (-3.49149 * (z - 1)) ≤ 1 := by
    apply Real.rpow_le_one_of_one_le_of_nonpos (by norm_num)
    nlinarith
  nlinarith

set_option exponentiation.threshold 2000 in
/-- log₁₀ (373.16/328.16) ≤ 3/50  (0.05581… vs 0.06) -/
theorem logb_z55_upper : Real.logb 10 (373.16 / (55 + 273.16)) ≤ (3:ℝ) / 50 := by
  have e : (373.16:ℝ) / (55 + 273.16) = 9329 / 8204 := by norm_num
  have := logb_le_div_of_pow_le (x := (373.16:ℝ) / (55 + 273.16)) (by norm_num) 3 50 (by norm_num)
    (by rw [e, div_pow, div_le_iff₀ (by positivity)]; norm_num)
  simp only [Nat.cast_ofNat] at this
  exact this

/-- 10^(−3/4) ≤ 0.178  (0.17783…) -/
theorem rpow_ten_neg_three_quarters : (10:ℝ) ^ (-((3:ℝ) / 4)) ≤ 0.178 := by
  rw [← Real.le_logb_iff_rpow_le (by norm_num) (by norm_num)]
  have h : Real.logb 10 ((0.178:ℝ)⁻¹) ≤ ((3:ℕ):ℝ) / (4:ℕ) :=
    logb_le_div_of_pow_le (x := (0.178:ℝ)⁻¹) (by norm_num) 3 4 (by norm_num) (by norm_num)
  rw [Real.logb_inv] at h
  simp only [Nat.cast_ofNat] at h
  linarith

/-- **vp(55 °C) ≤ 18.04 kPa** (true value 15.75) -/
theorem vp_55_upper : vaporPressure (55:ℝ) ≤ 18.04 := by
  rw [vp_water 55 (by norm_num)]
  have hz : (1:ℝ) ≤ 373.16 / (55 + 273.16) := by norm_num
  have hE := expWater_upper _ _ hz logb_z55_upper
  have hE' : expWater (373.16 / (55 + 273.16)) ≤ -((3:ℝ) / 4) := by
    refine le_trans hE ?_
    norm_num
  have h1 : (10:ℝ) ^ expWater (373.16 / (55 + 273.16)) ≤ (10:ℝ) ^ (-((3:ℝ) / 4)) :=
    Real.rpow_le_rpow_of_exponent_le (by norm_num) hE'
  have h2 := rpow_ten_neg_three_quarters
  linarith

/-- `barometricPressure` at ℝ in closed form -/
theorem barometricPressure_eq (e : ℝ) :
    barometricPressure e = 101.3 * ((293 - 0.0065 * e) / 293) ^ (5.26:ℝ) := by
  unfold barometricPressure
  simp only [RealNum.pow_eq, ofNat_lit 293]

/-- the base of the barometric power is in `[228/293, 1]` for elevations in `[0, 10000]` m -/
theorem baro_base_range (e : ℝ) (h0 : 0 ≤ e) (h1 : e ≤ 10000) :
    (228:ℝ) / 293 ≤ (293 - 0.0065 * e) / 293 ∧ (293 - 0.0065 * e) / 293 ≤ 1 := by
  constructor
  · rw [div_le_div_iff_of_pos_right (by norm_num)]; linarith
  · rw [div_le_one (by norm_num)]; linarith

/-- **barometric pressure ≥ 22.4 kPa up to 10 km** (true value at 10 km: 27.08), and at most 101.3 kPa -/
theorem barometricPressure_range (e : ℝ) (h0 : 0 ≤ e) (h1 : e ≤ 10000) :
    22.4 ≤ barometricPressure e ∧ barometricPressure e ≤ 101.3 := by
  rw [barometricPressure_eq]
  obtain ⟨hb0, hb1⟩ := baro_base_range e h0 h1
  have hbpos : (0:ℝ) < (293 - 0.0065 * e) / 293 := lt_of_lt_of_le (by norm_num) hb0
  constructor
  · have s1 : ((228:ℝ) / 293) ^ (6:ℝ) ≤ ((228:ℝ) / 293) ^ (5.26:ℝ) :=
      Real.rpow_le_rpow_of_exponent_ge (by norm_num) (by norm_num) (by norm_num)
    have s2 : ((228:ℝ) / 293) ^ (5.26:ℝ) ≤ ((293 - 0.0065 * e) / 293) ^ (5.26:ℝ) :=
      Real.rpow_le_rpow (by norm_num) hb0 (by norm_num)
    have s3 : ((228:ℝ) / 293) ^ (6:ℝ) = ((228:ℝ) / 293) ^ (6:ℕ) := by
      rw [← Real.rpow_natCast]; norm_num
    have s4 : (0.2220:ℝ) ≤ ((228:ℝ) / 293) ^ (6:ℕ) := by norm_num
    linarith
  · have : ((293 - 0.0065 * e) / 293) ^ (5.26:ℝ) ≤ 1 :=
      Real.rpow_le_one hbpos.le hb1 (by norm_num)
    linarith

end OW.Proofs.Climate
