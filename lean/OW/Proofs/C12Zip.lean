import OW.Kernels.Basic
import OW.Kernels.InstreamParticulateNutrient
/-!
C12 helpers: what the `zipN` of the `KModel.run` adapters does to the input series.

The C12 theorems quantify over the list `xs` of per-step input tuples. The adapter `model.run` builds that list from
the input series with `zip3/zip4/zip5/zipIn`. For series of EQUAL length the tuple list is faithful: it has that
length and its columns are the series (`zipN_faithful`); and every tuple list is the `zipN` of its own columns
(`zipN_columns`), so "for every `xs`" is exactly "for every call with equal series lengths". For series of UNEQUAL
length `zipN` truncates to the shortest one (`zip4_truncates`), where the Go kernel loops to the length of the FIRST
series and panics (`index out of range`) on a shorter one: that case is outside every C12 theorem
(assumption "equal series lengths"; the generated wrapper always passes equal lengths — the series of one cell are
rows of one `[cell, input, time]` array).
-/
namespace OW.C12
open OW OW.Kernels

theorem zip3_faithful {α : Type} (a b c : List α) (hb : b.length = a.length) (hc : c.length = a.length) :
    (zip3 a b c).length = a.length ∧ (zip3 a b c).map (·.1) = a ∧ (zip3 a b c).map (·.2.1) = b ∧
    (zip3 a b c).map (·.2.2) = c := by
  induction a generalizing b c with
  | nil => cases b <;> cases c <;> simp_all [zip3]
  | cons x xs ih =>
    match b, c, hb, hc with
    | _ :: b, _ :: c, hb, hc =>
      obtain ⟨h0, h1, h2, h3⟩ := ih b c (by simpa using hb) (by simpa using hc)
      simp [zip3, h0, h1, h2, h3]

theorem zip4_faithful {α : Type} (a b c d : List α) (hb : b.length = a.length) (hc : c.length = a.length)
    (hd : d.length = a.length) :
    (zip4 a b c d).length = a.length ∧ (zip4 a b c d).map (·.1) = a ∧ (zip4 a b c d).map (·.2.1) = b ∧
    (zip4 a b c d).map (·.2.2.1) = c ∧ (zip4 a b c d).map (·.2.2.2) = d := by
  induction a generalizing b c d with
  | nil => cases b <;> cases c <;> cases d <;> simp_all [zip4]
  | cons x xs ih =>
    match b, c, d, hb, hc, hd with
    | _ :: b, _ :: c, _ :: d, hb, hc, hd =>
      obtain ⟨h0, h1, h2, h3, h4⟩ := ih b c d (by simpa using hb) (by simpa using hc) (by simpa using hd)
      simp [zip4, h0, h1, h2, h3, h4]

theorem zip5_faithful {α : Type} (a b c d e : List α) (hb : b.length = a.length) (hc : c.length = a.length)
    (hd : d.length = a.length) (he : e.length = a.length) :
    (zip5 a b c d e).length = a.length ∧ (zip5 a b c d e).map (·.1) = a ∧ (zip5 a b c d e).map (·.2.1) = b ∧
    (zip5 a b c d e).map (·.2.2.1) = c ∧ (zip5 a b c d e).map (·.2.2.2.1) = d ∧
    (zip5 a b c d e).map (·.2.2.2.2) = e := by
  induction a generalizing b c d e with
  | nil => cases b <;> cases c <;> cases d <;> cases e <;> simp_all [zip5]
  | cons x xs ih =>
    match b, c, d, e, hb, hc, hd, he with
    | _ :: b, _ :: c, _ :: d, _ :: e, hb, hc, hd, he =>
      obtain ⟨h0, h1, h2, h3, h4, h5⟩ :=
        ih b c d e (by simpa using hb) (by simpa using hc) (by simpa using hd) (by simpa using he)
      simp [zip5, h0, h1, h2, h3, h4, h5]

/-- every tuple list is the `zip3` of its columns (which have equal lengths) -/
theorem zip3_columns {α : Type} (xs : List (α × α × α)) :
    zip3 (xs.map (·.1)) (xs.map (·.2.1)) (xs.map (·.2.2)) = xs := by
  induction xs with
  | nil => rfl
  | cons x xs ih => simp [zip3, ih]

theorem zip4_columns {α : Type} (xs : List (α × α × α × α)) :
    zip4 (xs.map (·.1)) (xs.map (·.2.1)) (xs.map (·.2.2.1)) (xs.map (·.2.2.2)) = xs := by
  induction xs with
  | nil => rfl
  | cons x xs ih => simp [zip4, ih]

theorem zip5_columns {α : Type} (xs : List (α × α × α × α × α)) :
    zip5 (xs.map (·.1)) (xs.map (·.2.1)) (xs.map (·.2.2.1)) (xs.map (·.2.2.2.1)) (xs.map (·.2.2.2.2)) = xs := by
  induction xs with
  | nil => rfl
  | cons x xs ih => simp [zip5, ih]

open InstreamParticulateNutrient (In zipIn) in
theorem zipIn_columns {α : Type} (xs : List (In α)) :
    zipIn (xs.map (·.incomingMassUpstream)) (xs.map (·.incomingMassLateral)) (xs.map (·.reachVolume))
      (xs.map (·.outflow)) (xs.map (·.streamBankErosion)) (xs.map (·.lateralSediment))
      (xs.map (·.floodplainDepositionFraction)) (xs.map (·.channelDepositionFraction)) = xs := by
  induction xs with
  | nil => rfl
  | cons x xs ih => simp [zipIn, ih]

open InstreamParticulateNutrient (In zipIn) in
theorem zipIn_faithful {α : Type} (a b c d e f g h : List α) (hb : b.length = a.length) (hc : c.length = a.length)
    (hd : d.length = a.length) (he : e.length = a.length) (hf : f.length = a.length) (hg : g.length = a.length)
    (hh : h.length = a.length) :
    (zipIn a b c d e f g h).length = a.length ∧
    (zipIn a b c d e f g h).map (·.incomingMassUpstream) = a ∧ (zipIn a b c d e f g h).map (·.incomingMassLateral) = b ∧
    (zipIn a b c d e f g h).map (·.reachVolume) = c ∧ (zipIn a b c d e f g h).map (·.outflow) = d ∧
    (zipIn a b c d e f g h).map (·.streamBankErosion) = e ∧ (zipIn a b c d e f g h).map (·.lateralSediment) = f ∧
    (zipIn a b c d e f g h).map (·.floodplainDepositionFraction) = g ∧
    (zipIn a b c d e f g h).map (·.channelDepositionFraction) = h := by
  induction a generalizing b c d e f g h with
  | nil =>
    cases b <;> cases c <;> cases d <;> cases e <;> cases f <;> cases g <;> cases h <;> simp_all [zipIn]
  | cons x xs ih =>
    match b, c, d, e, f, g, h, hb, hc, hd, he, hf, hg, hh with
    | _ :: b, _ :: c, _ :: d, _ :: e, _ :: f, _ :: g, _ :: h, hb, hc, hd, he, hf, hg, hh =>
      obtain ⟨h0, h1, h2, h3, h4, h5, h6, h7, h8⟩ :=
        ih b c d e f g h (by simpa using hb) (by simpa using hc) (by simpa using hd) (by simpa using he)
          (by simpa using hf) (by simpa using hg) (by simpa using hh)
      simp [zipIn, h0, h1, h2, h3, h4, h5, h6, h7, h8]

/-- the truncation itself: a SHORTER second series silently shortens the run of the model (the Go kernel panics with
`index out of range` at step 1 instead) -/
theorem zip4_truncates : (zip4 [(1 : Nat), 2] [1] [1, 2] [1, 2]).length = 1 := rfl

end OW.C12
