import OW.Proofs.StorageNoPanic
import OW.Proofs.StorageExample
/-! Concrete runs of the Storage kernel at ℝ for the non-vacuity examples of OW/Props/C13.lean.

`tHS`: a two-knot table (volumes 100 / 200 m³) that the run below reads only through the two capped ends of
`cappedPiecewise` (every volume it evaluates lies below 100 or above 200): levels 0 / 10, areas 50 / 100, minimum release
0 / 4.4 (so the spill capacity is 4.4), maximum release 0 / 10. One timestep of 100 s from 1000 m³ with demand 10, no inflow,
rain or evaporation: the first trial (100 s) is rejected by the release tolerance and HALVED; the accepted 50 s sub-step
releases 10 m³/s (1000 → 500, spill branch taken with zero spill); the second 50 s sub-step is force-accepted at the 60 s floor
with average release 5 (500 → 250) and SPILLS 25 m³ (250 → 225). Reported outflow 7.75 = (10·50 + 0 + 5·50 + 25) / 100. -/
namespace OW.Proofs.StorageExample2
open OW OW.Kernels.Storage OW.Proofs.Storage

def tHS : Tables ℝ := ⟨[0, 10], [100, 200], [50, 100], [0, 4.4], [0, 10], 100, 200, 4.4⟩

theorem capLo (v : ℝ) (ys : List ℝ) (h : v < 100) : cappedPiecewise tHS v ys = getAt ys 0 := by
  unfold cappedPiecewise
  rw [if_pos (show v < tHS.volCurveMin from h)]

theorem capHi (v : ℝ) (ys : List ℝ) (h : 200 < v) : cappedPiecewise tHS v ys = getAt ys 1 := by
  unfold cappedPiecewise
  rw [if_neg (show ¬ v < tHS.volCurveMin from by show ¬ v < 100; linarith), if_pos (show tHS.volCurveMax < v from h)]
  rfl

theorem relHi (v : ℝ) (h : 200 < v) : releaseRate tHS 10 v = .ok 10 := by
  unfold releaseRate
  rw [capHi v _ h, capHi v _ h]
  have e1 : getAt tHS.minRelease 1 = .ok (4.4:ℝ) := rfl
  have e2 : getAt tHS.maxRelease 1 = .ok (10:ℝ) := rfl
  rw [e1, e2]
  simp only [bind, Except.bind, pure, Except.pure]
  rw [if_neg (by norm_num : ¬ ((10:ℝ) < 4.4)), if_neg (by norm_num : ¬ ((10:ℝ) < 10))]

theorem relLo (v : ℝ) (h : v < 100) : releaseRate tHS 10 v = .ok 0 := by
  unfold releaseRate
  rw [capLo v _ h, capLo v _ h]
  have e1 : getAt tHS.minRelease 0 = .ok (0:ℝ) := rfl
  have e2 : getAt tHS.maxRelease 0 = .ok (0:ℝ) := rfl
  rw [e1, e2]
  simp only [bind, Except.bind, pure, Except.pure]
  rw [if_neg (by norm_num : ¬ ((10:ℝ) < 0)), if_pos (by norm_num : ((0:ℝ) < 10))]

theorem allowedAbs_eq : (allowedAbs : ℝ) = 1e-4 := rfl
theorem allowedRel_eq : (allowedRel : ℝ) = 1e-5 := rfl

theorem close_10_10 : releaseRatesCloseEnough (10:ℝ) ((10 + 10) / 2) = true := by
  unfold releaseRatesCloseEnough
  simp only [RealNum.abs_eq, allowedAbs_eq, allowedRel_eq]
  norm_num

theorem close_10_5 : releaseRatesCloseEnough (10:ℝ) ((0 + 10) / 2) = false := by
  unfold releaseRatesCloseEnough
  simp only [RealNum.abs_eq, allowedAbs_eq, allowedRel_eq]
  norm_num


def accA : Accepted ℝ := ⟨50, 10, 100, 10, 10, 500, 500, ["accept", "halve"]⟩
def accB : Accepted ℝ := ⟨50, 5, 100, 10, 0, 0, 250, ["floor", "spill", "accept", "halve"]⟩

/-- second trial of the first sub-step: 50 s, accepted -/
theorem trialA2 (nf : ℝ) (hnf : nf = 0) : trial tHS 0 10 nf 1000 10 100 1 50 ["halve"] = .ok accA := by
  subst hnf
  simp only [trial, zero_lit, two_lit, minStepNeg_eq, minStepPos_eq]
  rw [if_neg (by norm_num : ¬ ((1000:ℝ) + (0 - 10 + 0 * 100) * 50 < 0))]
  rw [capHi _ _ (by norm_num : (200:ℝ) < (1000 + (0 - 10 + 0 * 100) * 50 + 1000) / 2)]
  have e3 : getAt tHS.areas 1 = .ok (100:ℝ) := rfl
  rw [e3]
  simp only [bind, Except.bind]
  rw [relHi _ (by norm_num : (200:ℝ) < 1000 + (0 - 10 + 0 * 100) * 50)]
  simp only
  rw [if_pos (by norm_num : (0:ℝ) ≤ 1000 + (0 - (10 + 10) / 2 + 0 * 100) * 50), if_pos close_10_10]
  simp only [pure, Except.pure, Except.ok.injEq, accA, Accepted.mk.injEq]
  refine ⟨trivial, ?_, trivial, trivial, trivial, ?_, ?_, by decide⟩ <;> norm_num


/-- first sub-step: the 100 s trial is rejected by the release tolerance (10 vs 5) and HALVED, the 50 s trial is accepted -/
theorem trialA (nf : ℝ) (hnf : nf = 0) : trial tHS 0 10 nf 1000 10 100 2 100 [] = .ok accA := by
  have h2 := trialA2 nf hnf
  subst hnf
  simp only [trial, zero_lit, two_lit, minStepNeg_eq, minStepPos_eq, RealNum.gmax_eq] at h2 ⊢
  rw [if_neg (by norm_num : ¬ ((1000:ℝ) + (0 - 10 + 0 * 100) * 100 < 0))]
  rw [capHi _ _ (by norm_num : (200:ℝ) < (1000 + (0 - 10 + 0 * 100) * 100 + 1000) / 2)]
  have e3 : getAt tHS.areas 1 = .ok (100:ℝ) := rfl
  rw [e3]
  simp only [bind, Except.bind]
  rw [relLo _ (by norm_num : (1000:ℝ) + (0 - 10 + 0 * 100) * 100 < 100)]
  simp only
  rw [if_pos (by norm_num : (0:ℝ) ≤ 1000 + (0 - (0 + 10) / 2 + 0 * 100) * 100)]
  simp only [close_10_5, Bool.false_eq_true, if_false]
  rw [if_neg (by norm_num : ¬ ((100:ℝ) ≤ 60))]
  have hm : max ((100:ℝ) * 0.5) 6 = 50 := by rw [max_eq_left (by norm_num)]; norm_num
  have ht : tag [] "halve" = ["halve"] := by decide
  rw [hm, ht]
  exact h2

/-- second sub-step: 50 s, release tolerance not met (10 vs 5) but the sub-step is below the 60 s floor: force-accepted -/
theorem trialB (nf : ℝ) (hnf : nf = 0) :
    trial tHS 0 10 nf 500 10 100 2 50 ["spill", "accept", "halve"] = .ok accB := by
  subst hnf
  simp only [trial, zero_lit, two_lit, minStepNeg_eq, minStepPos_eq, RealNum.gmax_eq]
  rw [if_neg (by norm_num : ¬ ((500:ℝ) + (0 - 10 + 0 * 100) * 50 < 0))]
  rw [capHi _ _ (by norm_num : (200:ℝ) < (500 + (0 - 10 + 0 * 100) * 50 + 500) / 2)]
  have e3 : getAt tHS.areas 1 = .ok (100:ℝ) := rfl
  rw [e3]
  simp only [bind, Except.bind]
  rw [relLo _ (by norm_num : (500:ℝ) + (0 - 10 + 0 * 100) * 50 < 100)]
  simp only
  rw [if_pos (by norm_num : (0:ℝ) ≤ 500 + (0 - (0 + 10) / 2 + 0 * 100) * 50)]
  simp only [close_10_5, Bool.false_eq_true, if_false]
  rw [if_pos (by norm_num : ((50:ℝ) ≤ 60))]
  simp only [pure, Except.pure, Except.ok.injEq, accB, Accepted.mk.injEq]
  refine ⟨trivial, ?_, trivial, trivial, trivial, ?_, ?_, by decide⟩ <;> norm_num

/-- spill block of the first sub-step: above full supply, but the over-topping rate 2·4.4 is below the release 10: no spill -/
theorem spillA : spill tHS 500 10 50 = (0, 500, true) := by
  unfold spill
  rw [if_pos (show tHS.volCurveMax < 500 from by show (200:ℝ) < 500; norm_num)]
  simp only [RealNum.gmax_eq, RealNum.gmin_eq, two_lit, zero_lit]
  show (max (min (max (min ((500:ℝ) / 200) 2 * 4.4 - 10) 0 * 50) (500 - 200)) 0,
    (500:ℝ) - max (min (max (min ((500:ℝ) / 200) 2 * 4.4 - 10) 0 * 50) (500 - 200)) 0, true) = (0, 500, true)
  have h1 : min ((500:ℝ) / 200) 2 = 2 := by rw [min_eq_right (by norm_num)]
  have h2 : max ((2:ℝ) * 4.4 - 10) 0 = 0 := by rw [max_eq_right (by norm_num)]
  have h3 : min ((0:ℝ) * 50) (500 - 200) = 0 := by rw [min_eq_left (by norm_num)]; norm_num
  rw [h1, h2, h3]
  norm_num

/-- spill block of the second sub-step: 250 m³ is above full supply 200, over-topping ratio 1.25, rate 1.25·4.4 − 5 = 0.5,
spilled volume 25 m³ -/
theorem spillB : spill tHS 250 5 50 = (25, 225, true) := by
  unfold spill
  rw [if_pos (show tHS.volCurveMax < 250 from by show (200:ℝ) < 250; norm_num)]
  simp only [RealNum.gmax_eq, RealNum.gmin_eq, two_lit, zero_lit]
  show (max (min (max (min ((250:ℝ) / 200) 2 * 4.4 - 5) 0 * 50) (250 - 200)) 0,
    (250:ℝ) - max (min (max (min ((250:ℝ) / 200) 2 * 4.4 - 5) 0 * 50) (250 - 200)) 0, true) = (25, 225, true)
  have h1 : min ((250:ℝ) / 200) 2 = 250 / 200 := by rw [min_eq_left (by norm_num)]
  have h2 : max ((250:ℝ) / 200 * 4.4 - 5) 0 = 0.5 := by rw [max_eq_left (by norm_num)]; norm_num
  have h3 : min ((0.5:ℝ) * 50) (250 - 200) = 25 := by rw [min_eq_left (by norm_num)]; norm_num
  have h4 : max (25:ℝ) 0 = 25 := max_eq_left (by norm_num)
  rw [h1, h2, h3, h4]
  norm_num


def subA : SubStep ℝ := ⟨1000, accA, 500, 0, 500⟩
def subB : SubStep ℝ := ⟨500, accB, 250, 25, 225⟩

def loopA : Loop ℝ := ⟨100, 100, 1000, 0, 0, 0, [], []⟩
def loopB : Loop ℝ := ⟨50, 50, 500, 500, 0, 0, ["spill", "accept", "halve"], [subA]⟩
def loopC : Loop ℝ := ⟨0, 50, 225, 775, 0, 0, ["floor", "spill", "accept", "halve"], [subB, subA]⟩

theorem bodyA (rps pps nf : ℝ) (h1 : rps = 0) (h2 : pps = 0) (h3 : nf = 0) :
    outerBody tHS true 2 0 10 rps pps nf loopA = .ok loopB := by
  subst h1 h2 h3
  simp only [outerBody, loopA, RealNum.gmin_eq, two_lit, zero_lit, bind, Except.bind]
  have m : min (100:ℝ) (100 * 2) = 100 := by rw [min_eq_left (by norm_num)]
  have e3 : getAt tHS.areas 1 = .ok (100:ℝ) := rfl
  rw [m, relHi 1000 (by norm_num), capHi 1000 _ (by norm_num), e3]
  simp only
  rw [trialA 0 rfl]
  simp only [accA]
  have u : (1000:ℝ) + (0 + 0 * 100 - 10) * 50 = 500 := by norm_num
  simp only [u, spillA]
  rw [if_neg (by norm_num : ¬ ((500:ℝ) < 0))]
  simp only [pure, Except.pure, Except.ok.injEq, loopB, subA, accA, if_true, Loop.mk.injEq]
  refine ⟨by norm_num, trivial, trivial, by norm_num, by norm_num, by norm_num, by decide, trivial⟩

theorem bodyB (rps pps nf : ℝ) (h1 : rps = 0) (h2 : pps = 0) (h3 : nf = 0) :
    outerBody tHS true 2 0 10 rps pps nf loopB = .ok loopC := by
  subst h1 h2 h3
  simp only [outerBody, loopB, RealNum.gmin_eq, two_lit, zero_lit, bind, Except.bind]
  have m : min (50:ℝ) (50 * 2) = 50 := by rw [min_eq_left (by norm_num)]
  have e3 : getAt tHS.areas 1 = .ok (100:ℝ) := rfl
  rw [m, relHi 500 (by norm_num), capHi 500 _ (by norm_num), e3]
  simp only
  rw [trialB 0 rfl]
  simp only [accB]
  have u : (500:ℝ) + (0 + 0 * 100 - 5) * 50 = 250 := by norm_num
  simp only [u, spillB]
  rw [if_neg (by norm_num : ¬ ((250:ℝ) < 0))]
  simp only [pure, Except.pure, Except.ok.injEq, loopC, subA, subB, accA, accB, if_true, Loop.mk.injEq]
  refine ⟨by norm_num, trivial, trivial, by norm_num, by norm_num, by norm_num, by decide, trivial⟩

def outHS : StepOut ℝ := ⟨225, 7.75, 0, 0, [subA, subB]⟩

theorem stepHS : step tHS true 3 2 100 1000 [] (0, 0, 0, 10) =
    .ok (225, ["floor", "spill", "accept", "halve"], outHS) := by
  have z : ((0:ℝ) / 100 - 0 / 100) * mmToM = 0 := by norm_num
  have z' : (0:ℝ) / 100 = 0 := by norm_num
  have hA := bodyA (0 / 100) (0 / 100) ((0 / 100 - 0 / 100) * mmToM) z' z' z
  have hB := bodyB (0 / 100) (0 / 100) ((0 / 100 - 0 / 100) * mmToM) z' z' z
  simp only [loopA] at hA
  simp only [step, outer, zero_lit, bind, Except.bind]
  rw [if_pos (by norm_num : (0:ℝ) < 100), hA]
  simp only
  rw [if_pos (show (0:ℝ) < loopB.timeRemaining from by show (0:ℝ) < 50; norm_num), hB]
  simp only
  rw [if_neg (show ¬ ((0:ℝ) < loopC.timeRemaining) from by show ¬ ((0:ℝ) < 0); norm_num)]
  simp only [pure, Except.pure, loopC, outHS, Except.ok.injEq, Prod.mk.injEq, StepOut.mk.injEq, List.reverse_cons,
    List.reverse_nil, List.nil_append, List.cons_append, true_and, and_true]
  refine ⟨by norm_num, by norm_num, by norm_num⟩

/-- the complete run: one timestep of 100 s from 1000 m³ with demand 10 -/
theorem runHS : run tHS true 3 2 100 1000 [(0, 0, 0, 10)] =
    .ok ⟨[outHS], 225, 10, 100, ["floor", "spill", "accept", "halve"]⟩ := by
  simp only [run, steps, bind, Except.bind, stepHS, pure, Except.pure]
  rw [capHi 225 _ (by norm_num), capHi 225 _ (by norm_num)]
  rfl


/-! ### every evaluation of `tHS` (for the hypotheses of `OW.Props.C13.reported_outflow_between`) -/

theorem capMid (v ys0 ys1 : ℝ) (h0 : 100 ≤ v) (h1 : v < 200) (hy : ys0 ≤ ys1) :
    cappedPiecewise tHS v [ys0, ys1] = .ok (ys0 + (v - 100) / (200 - 100) * (ys1 - ys0)) := by
  have a : ¬ v < 100 := not_lt.mpr h0
  have b : ¬ (200:ℝ) < v := not_lt.mpr h1.le
  have c : v ≤ 200 := h1.le
  have d : ¬ (v = 200) := ne_of_lt h1
  simp only [cappedPiecewise, tHS, Fn.piecewise, Fn.brackets, Fn.bracketLoop, List.getLast?, List.getLast, Option.getD]
  simp [-RealNum.ofNat_eq, a, b, c, d]
  have e : (v - 100) / (200 - 100) < 1 := by rw [div_lt_one (by norm_num)]; linarith
  have e0 : 0 ≤ (v - 100) / (200 - 100) := div_nonneg (by linarith) (by norm_num)
  have f : ¬ (ys0 ≤ ys1 ∧ ys1 < ys0 + (v - 100) / (200 - 100) * (ys1 - ys0) ∨
      ys1 ≤ ys0 ∧ ys0 + (v - 100) / (200 - 100) * (ys1 - ys0) < ys1) := by
    rintro (⟨_, h⟩ | ⟨h', h⟩)
    · nlinarith
    · have : ys0 = ys1 := le_antisymm hy h'
      subst this; nlinarith
  rw [if_neg f]

theorem capTop (ys0 ys1 : ℝ) : cappedPiecewise tHS 200 [ys0, ys1] = .ok ys1 := by
  have a : ¬ (200:ℝ) < 100 := by norm_num
  simp only [cappedPiecewise, tHS, Fn.piecewise, Fn.brackets, Fn.bracketLoop, List.getLast?, List.getLast, Option.getD]
  simp [-RealNum.ofNat_eq, a]

/-- every evaluation of a two-row value table over `tHS` is `ys0 + f·(ys1 − ys0)` with one `f ∈ [0, 1]` that depends on the
volume only -/
theorem capAll (v : ℝ) : ∃ f : ℝ, 0 ≤ f ∧ f ≤ 1 ∧
    ∀ ys0 ys1 : ℝ, ys0 ≤ ys1 → cappedPiecewise tHS v [ys0, ys1] = .ok (ys0 + f * (ys1 - ys0)) := by
  rcases lt_or_ge v 100 with h | h
  · refine ⟨0, le_refl _, by norm_num, fun ys0 ys1 _ => ?_⟩
    rw [capLo v _ h, zero_mul, add_zero]; rfl
  · rcases lt_trichotomy v 200 with h2 | h2 | h2
    · refine ⟨(v - 100) / (200 - 100), div_nonneg (by linarith) (by norm_num), ?_, fun ys0 ys1 hy => capMid v ys0 ys1 h h2 hy⟩
      rw [div_le_one (by norm_num)]; linarith
    · subst h2
      refine ⟨1, by norm_num, le_refl _, fun ys0 ys1 _ => ?_⟩
      rw [capTop]; congr 1; ring
    · refine ⟨1, by norm_num, le_refl _, fun ys0 ys1 _ => ?_⟩
      rw [capHi v _ h2]
      show Except.ok ys1 = _
      congr 1; ring

theorem wellFormedHS : WellFormed tHS :=
  ⟨by decide, rfl, rfl, by decide, by decide, by decide, by decide⟩

theorem totalHS : Total tHS := total_of_wellFormed tHS wellFormedHS

theorem minHS (v y : ℝ) (h : cappedPiecewise tHS v tHS.minRelease = .ok y) : 0 ≤ y := by
  obtain ⟨f, f0, f1, hf⟩ := capAll v
  have := hf 0 4.4 (by norm_num)
  rw [show tHS.minRelease = [0, 4.4] from rfl, this] at h
  cases h
  nlinarith

theorem maxHS (v y : ℝ) (h : cappedPiecewise tHS v tHS.maxRelease = .ok y) : y ≤ 10 := by
  obtain ⟨f, f0, f1, hf⟩ := capAll v
  have := hf 0 10 (by norm_num)
  rw [show tHS.maxRelease = [0, 10] from rfl, this] at h
  cases h
  nlinarith

theorem ordHS (v y₁ y₂ : ℝ) (h1 : cappedPiecewise tHS v tHS.minRelease = .ok y₁)
    (h2 : cappedPiecewise tHS v tHS.maxRelease = .ok y₂) : y₁ ≤ y₂ := by
  obtain ⟨f, f0, f1, hf⟩ := capAll v
  have a := hf 0 4.4 (by norm_num)
  have b := hf 0 10 (by norm_num)
  rw [show tHS.minRelease = [0, 4.4] from rfl, a] at h1
  rw [show tHS.maxRelease = [0, 10] from rfl, b] at h2
  cases h1; cases h2
  nlinarith

/-! ### two monotone tables on which drawing down ends in the 6 s-floor panic (hypotheses of `OW.Props.C13.draw_down_panics`) -/

open OW.Proofs.StorageExample in
/-- volumes 0 / 1000 m³, areas 0 / 1000 m², minimum release 0 / 0, FLAT maximum release 5 / 5 m³/s: the release rule still
releases the demand when 3 m³ are left -/
def tP : Tables ℝ := ⟨[0, 10], [0, 1000], [0, 1000], [0, 0], [5, 5], 0, 1000, 0⟩

open OW.Proofs.StorageExample in
theorem relP : releaseRate tP 1 3 = .ok 1 := by
  have a := capEx 3 0 0 (by norm_num) (by norm_num) (le_refl _)
  have b := capEx 3 5 5 (by norm_num) (by norm_num) (le_refl _)
  unfold releaseRate
  rw [show cappedPiecewise tP 3 tP.minRelease = cappedPiecewise tEx 3 [0, 0] from rfl, a,
    show cappedPiecewise tP 3 tP.maxRelease = cappedPiecewise tEx 3 [5, 5] from rfl, b]
  simp only [bind, Except.bind, pure, Except.pure]
  rw [if_neg (by norm_num : ¬ ((1:ℝ) < 0 + 3 / 1000 * (0 - 0))), if_neg (by norm_num : ¬ ((5:ℝ) + 3 / 1000 * (5 - 5) < 1))]

open OW.Proofs.StorageExample in
theorem areaP : cappedPiecewise tP 3 tP.areas = .ok (0 + 3 / 1000 * (1000 - 0)) :=
  capEx 3 0 1000 (by norm_num) (by norm_num) (by norm_num)

/-- volumes 0 / 1000 m³, areas 100 / 1000 m² (a positive area at the empty storage), releases 0 / 0 and 0 / 2 -/
def tQ : Tables ℝ := ⟨[0, 10], [0, 1000], [100, 1000], [0, 0], [0, 2], 0, 1000, 0⟩

open OW.Proofs.StorageExample in
theorem relQ : releaseRate tQ 0 0 = .ok 0 := relEx 0 (le_refl _) (by norm_num)

open OW.Proofs.StorageExample in
theorem areaQ : cappedPiecewise tQ 0 tQ.areas = .ok (100 + 0 / 1000 * (1000 - 100)) :=
  capEx 0 100 1000 (le_refl _) (by norm_num) (by norm_num)

theorem mmToM_eq : (mmToM : ℝ) = 1e-3 := rfl

theorem min6 : min (86400:ℝ) 6 = 6 := min_eq_right (by norm_num)

end OW.Proofs.StorageExample2
