import OW.Proofs.NdC02Apply
/-!
Helper lemmas for C02, Part C: the whole-array helpers of `data/arrayops.go` (`zipWithInto`: scale / add-to /
apply-function) equal the sequential element-by-element reference for every contiguity combination and both back-ends.
-/
namespace OW.NdC02
open OW.Nd

section
variable {α : Type}

theorem zipLoopFresh_eq (f : α → α → α) : ∀ (dv sv : List α), dv.length ≤ sv.length →
    zipLoopFresh f dv sv = .ok (List.zipWith f dv sv)
  | [], _, _ => by simp [zipLoopFresh]
  | _ :: _, [], h => by simp at h
  | d :: ds, s :: ss, h => by
    simp [zipLoopFresh, zipLoopFresh_eq f ds ss (by simpa using h), bind, Except.bind, pure, Except.pure]

/-! ### pointwise reading of the sequential reference -/

theorem setAll_get_other {a b : Arr} (ga : Geo a.v) (gb : Geo b.v) (hne : b.sid ≠ a.sid) {j : Idx}
    (hj : InBounds j b.v.dims) :
    ∀ (l : List Idx) (xs : List α) (h h' : Heap α), ArrOK h a → ArrOK h b → (∀ i ∈ l, InBounds i a.v.dims) →
      setAll h a l xs = .ok h' → Nd.get h' b j = Nd.get h b j
  | [], _, h, h', _, _, _, e => by simp [setAll] at e; rw [e]
  | _ :: _, [], h, h', _, _, _, e => by simp [setAll] at e; rw [e]
  | i :: is, x :: xs, h, h', oka, okb, hl, e => by
    obtain ⟨p, _, _, _, hset⟩ := set_eq ga oka (hl i List.mem_cons_self) x
    simp only [setAll, hset, bind, Except.bind] at e
    rw [setAll_get_other ga gb hne hj is xs _ h' (arrOK_setStore oka _ _ _) (arrOK_setStore okb _ _ _)
      (fun k hk => hl k (List.mem_cons_of_mem _ hk)) e]
    exact get_setStore_other gb okb hj hne _ _

theorem setAll_get_notin {a : Arr} (ga : Geo a.v) {j : Idx} (hj : InBounds j a.v.dims) :
    ∀ (l : List Idx) (xs : List α) (h h' : Heap α), ArrOK h a → (∀ i ∈ l, InBounds i a.v.dims) → j ∉ l →
      setAll h a l xs = .ok h' → Nd.get h' a j = Nd.get h a j
  | [], _, h, h', _, _, _, e => by simp [setAll] at e; rw [e]
  | _ :: _, [], h, h', _, _, _, e => by simp [setAll] at e; rw [e]
  | i :: is, x :: xs, h, h', oka, hl, hnot, e => by
    have hi := hl i List.mem_cons_self
    obtain ⟨p, hp, _, _, hset⟩ := set_eq ga oka hi x
    simp only [setAll, hset, bind, Except.bind] at e
    rw [setAll_get_notin ga hj is xs _ h' (arrOK_setStore oka _ _ _)
      (fun k hk => hl k (List.mem_cons_of_mem _ hk)) (fun hm => hnot (List.mem_cons_of_mem _ hm)) e]
    exact get_setStore_ne ga oka hi hj (fun e => hnot (e ▸ List.mem_cons_self)) hp _

/-- after the sequential `Set` over pairwise distinct in-bounds indices, index `l[k]` holds `xs[k]` -/
theorem setAll_get {a : Arr} (ga : Geo a.v) :
    ∀ (l : List Idx) (xs : List α) (h h' : Heap α), ArrOK h a → (∀ i ∈ l, InBounds i a.v.dims) → l.Nodup →
      setAll h a l xs = .ok h' → ∀ (k : Nat) (i : Idx) (x : α), l[k]? = some i → xs[k]? = some x →
        Nd.get h' a i = .ok x
  | [], _, _, _, _, _, _, _, k, i, x, hk, _ => by simp at hk
  | _ :: _, [], _, _, _, _, _, _, k, i, x, _, hx => by simp at hx
  | i0 :: is, x0 :: xs, h, h', oka, hl, nd, e, k, i, x, hk, hx => by
    have hi := hl i0 List.mem_cons_self
    obtain ⟨p, hp, _, _, hset⟩ := set_eq ga oka hi x0
    simp only [setAll, hset, bind, Except.bind] at e
    have nd' := List.nodup_cons.mp nd
    have hl' : ∀ k ∈ is, InBounds k a.v.dims := fun k hk => hl k (List.mem_cons_of_mem _ hk)
    cases k with
    | zero =>
      simp only [List.getElem?_cons_zero, Option.some.injEq] at hk hx
      subst hk; subst hx
      rw [setAll_get_notin ga hi is xs _ h' (arrOK_setStore oka _ _ _) hl' nd'.1 e]
      exact get_setStore_same ga oka hi hp _
    | succ k =>
      simp only [List.getElem?_cons_succ] at hk hx
      exact setAll_get ga is xs _ h' (arrOK_setStore oka _ _ _) hl' nd'.2 e k i x hk hx

/-! ### unfolding `zipWithInto` path by path -/

theorem zipWithInto_slow (f : α → α → α) (h : Heap α) (dest source : Arr)
    (hcase : dest.v.contiguous = .ok false ∨ (dest.v.contiguous = .ok true ∧ source.v.contiguous = .ok false)) :
    zipWithInto f h dest source =
      forIdx dest.v.dims (zipBody f dest source) (product dest.v.dims).toNat (dest.v.newIndex 0) h := by
  unfold zipWithInto
  rcases hcase with hc | ⟨hc, hs⟩
  · simp only [hc, bind, Except.bind, pure, Except.pure, Bool.false_eq_true, if_false, false_and]
    rfl
  · simp only [hc, hs, bind, Except.bind, pure, Except.pure, Bool.false_eq_true, if_true, and_false, if_false]
    rfl

theorem zipWithInto_fast_go (f : α → α → α) {h h1 h2 : Heap α} {dest source flat : Arr}
    (hcd : dest.v.contiguous = .ok true) (hcs : source.v.contiguous = .ok true)
    {dsid : Nat} {dlo dn : Int} {s : Slice α} {vals : List α}
    (hud : unroll h dest = .ok (.alias dsid dlo dn)) (hus : unroll h source = .ok s)
    (hz : zipLoopAlias f dsid dlo.toNat s h 0 dn.toNat = .ok h1)
    (hvals : sliceVals h1 (.alias dsid dlo dn) = .ok vals) (hne : vals.isEmpty = false)
    (hrf : reshapeFast h1 dest [(vals.length : Int)] = .ok (h2, .inr flat)) :
    zipWithInto f h dest source = apply h2 flat [0] 0 1 vals := by
  unfold zipWithInto
  simp only [hcd, hcs, hud, hus, hz, hvals, hne, hrf, bind, Except.bind, pure, Except.pure, if_true, and_self,
    Bool.false_eq_true, if_false]

theorem zipWithInto_fast_c (f : α → α → α) {h h2 : Heap α} {dest source flat : Arr}
    (hcd : dest.v.contiguous = .ok true) (hcs : source.v.contiguous = .ok true)
    {dv sv vals : List α} {s : Slice α}
    (hud : unroll h dest = .ok (.fresh dv)) (hus : unroll h source = .ok s)
    (hsv : sliceVals h s = .ok sv) (hz : zipLoopFresh f dv sv = .ok vals) (hne : vals.isEmpty = false)
    (hrf : reshapeFast h dest [(vals.length : Int)] = .ok (h2, .inr flat)) :
    zipWithInto f h dest source = apply h2 flat [0] 0 1 vals := by
  unfold zipWithInto
  simp only [hcd, hcs, hud, hus, hz, hsv, hne, hrf, bind, Except.bind, pure, Except.pure, if_true, and_self,
    Bool.false_eq_true, if_false]

/-! ### the aliasing fast loop is the element loop -/

/-- what the fast loop knows about the unrolled source: an alias of the source window, or a snapshot whose entries are
(still) the source elements -/
def SrcInv (source : Arr) (dims : Idx) (h1 : Heap α) : Slice α → Prop
  | .alias ssid slo sn => ssid = source.sid ∧ slo = source.base + source.v.start ∧ sn = product dims
  | .fresh vs => ∀ (j : Nat), (j : Int) < product dims →
      ∃ x, vs[j]? = some x ∧ Nd.get h1 source (unravel (j : Int) dims) = .ok x

theorem zipLoopAlias_eq (f : α → α → α) {dest source : Arr} (gd : Geo dest.v) (gs : Geo source.v)
    (hsid : dest.sid ≠ source.sid) (hdims : source.v.dims = dest.v.dims)
    (hcd : dest.v.contiguous = .ok true) (hcs : source.v.contiguous = .ok true) (s : Slice α) :
    ∀ (k i : Nat) (h1 : Heap α), ((i + k : Nat) : Int) ≤ product dest.v.dims → ArrOK h1 dest → ArrOK h1 source →
      SrcInv source dest.v.dims h1 s →
      zipLoopAlias f dest.sid (dest.base + dest.v.start).toNat s h1 i k =
        foldIdx (zipBody f dest source) (rowMajorFrom dest.v.dims i k) h1
  | 0, _, _, _, _, _, _ => rfl
  | k + 1, i, h1, hik, okd, oks, inv => by
    have hi0 : (0 : Int) ≤ (i : Int) := by omega
    have hi1 : (i : Int) < product dest.v.dims := by omega
    have ibd := unravel_inBounds gd.pos_dims hi0 hi1
    have ibs : InBounds (unravel (i : Int) dest.v.dims) source.v.dims := by rw [hdims]; exact ibd
    obtain ⟨p, dx, hp, _, _, hcelld, hgetd⟩ := get_cell gd okd ibd
    rw [contig_index gd hcd hi0 hi1] at hp
    injection hp with hp
    subst hp
    obtain ⟨q, sx, hq, _, _, hcells, hgets⟩ := get_cell gs oks ibs
    have hq' := contig_index gs hcs (k := (i : Int)) hi0 (by rw [hdims]; exact hi1)
    rw [hdims] at hq'
    rw [hq'] at hq
    injection hq with hq
    subst hq
    obtain ⟨dw0, _⟩ := contig_window gd hcd
    obtain ⟨sw0, _⟩ := contig_window gs hcs
    have hdb := okd.base_nonneg
    have hsb := oks.base_nonneg
    obtain ⟨dst, hdst, _⟩ := okd.store
    obtain ⟨sst, hsst, _⟩ := oks.store
    have epos : (dest.base + (dest.v.start + (i : Int))).toNat = (dest.base + dest.v.start).toNat + i := by omega
    have eposs : (source.base + (source.v.start + (i : Int))).toNat = (source.base + source.v.start).toNat + i := by
      omega
    rw [epos] at hcelld
    rw [eposs] at hcells
    simp only [cell, hdst, hsst, Option.bind_some] at hcelld hcells
    obtain ⟨p2, hp2, _, _, hset⟩ := set_eq gd okd ibd (f dx sx)
    rw [contig_index gd hcd hi0 hi1] at hp2
    injection hp2 with hp2
    subst hp2
    rw [epos] at hset
    have hbody : zipBody f dest source h1 (unravel (i : Int) dest.v.dims) =
        .ok (setStore h1 dest.sid ((dest.base + dest.v.start).toNat + i) (f dx sx)) := by
      simp only [zipBody, hgetd, hgets, bind, Except.bind]
      exact hset
    have hrec := fun inv' => zipLoopAlias_eq f gd gs hsid hdims hcd hcs s k (i + 1)
      (setStore h1 dest.sid ((dest.base + dest.v.start).toNat + i) (f dx sx)) (by omega)
      (arrOK_setStore okd _ _ _) (arrOK_setStore oks _ _ _) inv'
    rw [rowMajorFrom_succ]
    simp only [foldIdx, hbody, bind, Except.bind]
    rcases s with ⟨ssid, slo, sn⟩ | ⟨vs⟩
    · obtain ⟨e1, e2, e3⟩ := inv
      subst e1; subst e2; subst e3
      rw [← hrec ⟨rfl, rfl, rfl⟩]
      simp only [zipLoopAlias, storeOf, hdst, hsst, bind, Except.bind, pure, Except.pure, hi1, if_true, hcelld,
        hcells]
    · obtain ⟨x, hx1, hx2⟩ := inv i hi1
      rw [hgets] at hx2
      injection hx2 with hx2
      subst hx2
      have inv' : SrcInv source dest.v.dims
          (setStore h1 dest.sid ((dest.base + dest.v.start).toNat + i) (f dx sx)) (.fresh vs) := by
        intro j hj
        obtain ⟨y, hy1, hy2⟩ := inv j hj
        refine ⟨y, hy1, ?_⟩
        rw [← hy2]
        have ibj : InBounds (unravel (j : Int) dest.v.dims) source.v.dims := by
          rw [hdims]; exact unravel_inBounds gd.pos_dims (by omega) hj
        exact get_setStore_other gs oks ibj (fun e => hsid e.symm) _ _
      rw [← hrec inv']
      simp only [zipLoopAlias, storeOf, hdst, bind, Except.bind, pure, Except.pure, hcelld, hx1]

/-! ### C-backed destination: the write-back through the flat view is the element loop -/

theorem sameSets_flat {dest : Arr} (gd : Geo dest.v) (hcd : dest.v.contiguous = .ok true) (n : Int) :
    ∀ (k i0 : Nat), ((i0 + k : Nat) : Int) ≤ product dest.v.dims →
      SameSets (α := α) (cAliasArr dest [n]) dest (runIdxs [0] 0 0 1 (i0 : Int) k) (rowMajorFrom dest.v.dims i0 k)
  | 0, _, _ => by simp [runIdxs, rowMajorFrom_zero, SameSets]
  | k + 1, i0, hk => by
    rw [rowMajorFrom_succ]
    simp only [runIdxs, SameSets]
    refine ⟨fun h x => ?_, ?_⟩
    · have hi0 : (0 : Int) ≤ (i0 : Int) := by omega
      have hi1 : (i0 : Int) < product dest.v.dims := by omega
      unfold Nd.set
      rw [contig_index gd hcd hi0 hi1]
      show (do let i ← (rootView [n] dest.v.start).index ([0].set 0 (0 + (i0 : Int) * 1)); writeAt h (cAliasArr dest [n]) i x) = _
      rw [rootView_index [n] _ _ (by simp)]
      simp only [List.set_cons_zero, ravel, product_nil, bind, Except.bind]
      have : dest.v.start + ((0 + (i0 : Int) * 1) * 1 + 0) = dest.v.start + (i0 : Int) := by omega
      rw [this]
      rfl
    · have := sameSets_flat gd hcd n k (i0 + 1) (by omega)
      simpa using this

/-! ### assembling `zipWithInto` -/

theorem sliceVals_alias_eq {h : Heap α} {sid : Nat} {lo n : Int} {st vals : List α} (hst : h[sid]? = some st)
    (hv : sliceVals h (.alias sid lo n) = .ok vals) :
    ∀ j, j < vals.length → cell h sid (lo.toNat + j) = vals[j]? := by
  simp only [sliceVals, storeOf, hst, bind, Except.bind, pure, Except.pure] at hv
  injection hv with hv
  subst hv
  intro j hj
  simp only [List.length_take, List.length_drop] at hj
  simp only [cell, hst, Option.bind_some, List.getElem?_take, List.getElem?_drop]
  rw [if_pos (by omega)]

/-- slow path (either array non-contiguous): the element loop -/
theorem zipWithInto_eq_slow (f : α → α → α) {h : Heap α} {dest source : Arr} (gd : Geo dest.v) (gs : Geo source.v)
    (okd : ArrOK h dest) (oks : ArrOK h source) (hdims : source.v.dims = dest.v.dims) (hsid : dest.sid ≠ source.sid)
    {dv sv : List α} (hdv : getAll h dest (rowMajor dest.v.dims) = .ok dv)
    (hsv : getAll h source (rowMajor dest.v.dims) = .ok sv)
    (hcase : dest.v.contiguous = .ok false ∨ (dest.v.contiguous = .ok true ∧ source.v.contiguous = .ok false)) :
    zipWithInto f h dest source = setAll h dest (rowMajor dest.v.dims) (List.zipWith f dv sv) := by
  have hp := gd.pos_dims
  rw [zipWithInto_slow f h dest source hcase]
  show forIdx dest.v.dims (zipBody f dest source) (product dest.v.dims).toNat (uniform dest.v.dims.length 0) h = _
  rw [forIdx_rowMajor hp]
  exact foldIdx_zipBody f gd gs hsid _ (rowMajor_nodup hp) (rowMajor_inBounds hp)
    (by rw [hdims]; exact rowMajor_inBounds hp) h okd oks dv sv hdv hsv

/-- fast path, Go-backed destination: aliasing loop, then the (idempotent) write-back through the flat view -/
theorem zipWithInto_eq_fast_go (f : α → α → α) {h : Heap α} {dest source : Arr} (gd : Geo dest.v) (gs : Geo source.v)
    (okd : ArrOK h dest) (oks : ArrOK h source) (hdims : source.v.dims = dest.v.dims) (hsid : dest.sid ≠ source.sid)
    {dv sv : List α} (hdv : getAll h dest (rowMajor dest.v.dims) = .ok dv)
    (hsv : getAll h source (rowMajor dest.v.dims) = .ok sv)
    (hcd : dest.v.contiguous = .ok true) (hcs : source.v.contiguous = .ok true) (hgo : dest.isC = false) :
    zipWithInto f h dest source = setAll h dest (rowMajor dest.v.dims) (List.zipWith f dv sv) := by
  have hp := gd.pos_dims
  have hpp := product_pos hp
  have hud := unroll_contig gd okd hgo hcd
  -- the unrolled source and its invariant
  obtain ⟨s, hus, hinv⟩ : ∃ s, unroll h source = .ok s ∧ SrcInv source dest.v.dims h s := by
    cases hC : source.isC with
    | false =>
      refine ⟨_, unroll_contig gs oks hC hcs, rfl, rfl, ?_⟩
      simp only [View.size, hdims]
    | true =>
      have hsv' : getAll h source (rowMajor source.v.dims) = .ok sv := by rw [hdims]; exact hsv
      refine ⟨.fresh sv, by rw [unroll_gather (Or.inl hC), unrollGather_eq gs, hsv']; rfl, ?_⟩
      intro j hj
      have := elems_getElem hsv' j (by rw [hdims]; exact hj)
      rwa [hdims] at this
  -- the loop
  have hloop := zipLoopAlias_eq f gd gs hsid hdims hcd hcs s (product dest.v.dims).toNat 0 h (by omega) okd oks hinv
  have hseq := foldIdx_zipBody f gd gs hsid _ (rowMajor_nodup hp) (rowMajor_inBounds hp)
    (by rw [hdims]; exact rowMajor_inBounds hp) h okd oks dv sv hdv hsv
  obtain ⟨h1, hres, okd1, _, _⟩ := setAll_arrOK gd (b := dest) (rowMajor dest.v.dims) (List.zipWith f dv sv) h okd okd
    (rowMajor_inBounds hp)
  have hz : zipLoopAlias f dest.sid (dest.base + dest.v.start).toNat s h 0 dest.v.size.toNat = .ok h1 := by
    rw [← hres, ← hseq]; exact hloop
  -- the new destination values
  obtain ⟨vals, hvals, hlen⟩ := elems_ok gd okd1
  have hsl : sliceVals h1 (.alias dest.sid (dest.base + dest.v.start) dest.v.size) = .ok vals := by
    rw [sliceVals_alias_contig gd okd1 hcd, hvals]
  have hne : vals.isEmpty = false := by
    cases vals with
    | nil => simp at hlen; omega
    | cons _ _ => rfl
  have hsz : product [(vals.length : Int)] = dest.v.size := by
    simp only [product_cons, product_nil, View.size, hlen]; omega
  have hrf : reshapeFast h1 dest [(vals.length : Int)] = .ok (h1, .inr (aliasArr dest [(vals.length : Int)])) := by
    rw [reshapeFast_contig _ hcd, reshape_go_alias gd okd1 (by simp) hsz hcd hgo]
  rw [zipWithInto_fast_go f hcd hcs hud hus hz hsl hne hrf, hres]
  -- the write-back rewrites the values that are already there
  have hn1 : (1 : Int) ≤ (vals.length : Int) := by rw [hlen]; omega
  have hpn : Pos [(vals.length : Int)] := by intro x hx; simp at hx; omega
  have gflat : Geo (aliasArr dest [(vals.length : Int)]).v := reach_geo (reach_rootView (by simp) hpn)
  have okflat := arrOK_alias gd okd1 hcd hsz
  have hok : SliceOK (aliasArr dest [(vals.length : Int)]).v.dims [0]
      (applyDims (aliasArr dest [(vals.length : Int)]) 0 vals.length)
      (applySteps (aliasArr dest [(vals.length : Int)]) 0 1) := by
    simp [aliasArr, rootView, applyDims, applySteps, uniform, SliceOK]
    omega
  obtain ⟨start, sl, _, _, gsl, hsview, _, _, hfast, _⟩ :=
    apply_go_spec (h := h1) (vals := vals) (loc := [0]) (dim := 0) (step := 1) gflat okflat rfl (by omega)
      (by simp [aliasArr, rootView]) hok
  have hslc : sl.v.contiguous = .ok true := by
    apply (contiguous_eq gsl).1
    rw [hsview]
    simp [sliceView, aliasArr, rootView, applyDims, applySteps, uniform, stepOr, Dense]
  rw [hfast hslc]
  congr 1
  obtain ⟨st1, hst1, _⟩ := okd1.store
  have hstart : ((aliasArr dest [(vals.length : Int)]).base + sl.v.start).toNat = (dest.base + dest.v.start).toNat := by
    rw [hsview]
    simp [sliceView, aliasArr, rootView, offsetsT, dot]
  rw [hstart]
  exact writeRun_self vals _ h1 (sliceVals_alias_eq hst1 hsl)

/-- fast path, C-backed destination: pure loop on the unrolled copy, then the write-back through the flat view -/
theorem zipWithInto_eq_fast_c (f : α → α → α) {h : Heap α} {dest source : Arr} (gd : Geo dest.v) (gs : Geo source.v)
    (_okd : ArrOK h dest) (oks : ArrOK h source) (hdims : source.v.dims = dest.v.dims)
    {dv sv : List α} (hdv : getAll h dest (rowMajor dest.v.dims) = .ok dv)
    (hsv : getAll h source (rowMajor dest.v.dims) = .ok sv)
    (hcd : dest.v.contiguous = .ok true) (hcs : source.v.contiguous = .ok true) (hC : dest.isC = true) :
    zipWithInto f h dest source = setAll h dest (rowMajor dest.v.dims) (List.zipWith f dv sv) := by
  have hp := gd.pos_dims
  have hpp := product_pos hp
  have hsv' : getAll h source (rowMajor source.v.dims) = .ok sv := by rw [hdims]; exact hsv
  have hud : unroll h dest = .ok (.fresh dv) := by
    rw [unroll_gather (Or.inl hC), unrollGather_eq gd, hdv]; rfl
  obtain ⟨s, hus, hss⟩ : ∃ s, unroll h source = .ok s ∧ sliceVals h s = .ok sv := by
    cases hCs : source.isC with
    | false =>
      exact ⟨_, unroll_contig gs oks hCs hcs, by rw [sliceVals_alias_contig gs oks hcs, hsv']⟩
    | true =>
      exact ⟨.fresh sv, by rw [unroll_gather (Or.inl hCs), unrollGather_eq gs, hsv']; rfl, rfl⟩
  have hld := getAll_length hdv
  have hls := getAll_length hsv
  rw [rowMajor_length] at hld hls
  have hz := zipLoopFresh_eq f dv sv (by omega)
  have hlen : (List.zipWith f dv sv).length = (product dest.v.dims).toNat := by
    simp [List.length_zipWith, hld, hls]
  have hne : (List.zipWith f dv sv).isEmpty = false := by
    cases hzz : List.zipWith f dv sv with
    | nil => rw [hzz] at hlen; simp at hlen; omega
    | cons _ _ => rfl
  have hsz : product [((List.zipWith f dv sv).length : Int)] = dest.v.size := by
    simp only [product_cons, product_nil, View.size, hlen]; omega
  have hrf : reshapeFast h dest [((List.zipWith f dv sv).length : Int)] =
      .ok (h, .inr (cAliasArr dest [((List.zipWith f dv sv).length : Int)])) := by
    rw [reshapeFast_contig _ hcd, reshape_c_alias gd (by simp) hsz hcd hC]
  rw [zipWithInto_fast_c f hcd hcs hud hus hss hz hne hrf]
  rw [apply_c_spec (a := cAliasArr dest [((List.zipWith f dv sv).length : Int)]) (start := 0) hC (by omega)
    (by simp [cAliasArr, rootView]) (by simp)]
  have := sameSets_flat (α := α) gd hcd ((List.zipWith f dv sv).length : Int) (product dest.v.dims).toNat 0 (by omega)
  have e : runIdxs [0] (Int.toNat 0) 0 1 0 (List.zipWith f dv sv).length =
      runIdxs [0] (Int.toNat 0) 0 1 0 (product dest.v.dims).toNat := by rw [hlen]
  rw [e]
  exact setAll_congr _ _ _ h this

/-- **`zipWithInto` = the sequential element-by-element reference**, for every contiguity combination of source and
destination and both back-ends (source and destination in different storages, same shape) -/
theorem zipWithInto_eq (f : α → α → α) {h : Heap α} {dest source : Arr} (gd : Geo dest.v) (gs : Geo source.v)
    (okd : ArrOK h dest) (oks : ArrOK h source) (hdims : source.v.dims = dest.v.dims) (hsid : dest.sid ≠ source.sid)
    {dv sv : List α} (hdv : getAll h dest (rowMajor dest.v.dims) = .ok dv)
    (hsv : getAll h source (rowMajor dest.v.dims) = .ok sv) :
    zipWithInto f h dest source = setAll h dest (rowMajor dest.v.dims) (List.zipWith f dv sv) := by
  obtain ⟨cd, hcd⟩ := (contiguous_iff_geo gd).2
  obtain ⟨cs, hcs⟩ := (contiguous_iff_geo gs).2
  cases cd with
  | false => exact zipWithInto_eq_slow f gd gs okd oks hdims hsid hdv hsv (Or.inl hcd)
  | true =>
    cases cs with
    | false => exact zipWithInto_eq_slow f gd gs okd oks hdims hsid hdv hsv (Or.inr ⟨hcd, hcs⟩)
    | true =>
      cases hC : dest.isC with
      | false => exact zipWithInto_eq_fast_go f gd gs okd oks hdims hsid hdv hsv hcd hcs hC
      | true => exact zipWithInto_eq_fast_c f gd gs okd oks hdims hdv hsv hcd hcs hC

end
end OW.NdC02
