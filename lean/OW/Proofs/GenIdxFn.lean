import OW.Proofs.GenIdx
import OW.Util.Piecewise
import OW.Util.FindRoot
import OW.Util.Dates
/-!
Helper lemmas for the util/fn part of `OW/Props/GenTieIndex.lean` (core Lean only): loop shapes of `brackets` and `FindRoot`
for an ARBITRARY loop body satisfying a step equation. No lemma mentions a regenerated definition.
-/
namespace OW.Proofs.GenIdx
open OW OW.Gen.Idx OW.Fn

/-! ### brackets -/

@[simp] theorem setIdx_single {τ : Type} (a b : τ) : setIdx [a] 0 b = .ok [b] := by
  have := setIdx_pre ([] : List τ) a b []
  simpa using this

@[simp] theorem nd1Get_single {τ : Type} (xs : List τ) (k : Int) : nd1Get xs [k] = getIdx xs k := rfl

theorem getIdx_last {τ : Type} (x0 : τ) (rest : List τ) :
    getIdx (x0 :: rest) (((x0 :: rest).length : Int) - 1) = .ok ((x0 :: rest).getLast?.getD x0) := by
  obtain ⟨l', y, e, hl⟩ := snoc_of_length (l := x0 :: rest) (n := rest.length) (by simp)
  rw [e]
  have e1 : (((l' ++ [y]).length : Nat) : Int) - 1 = ((l'.length : Nat) : Int) := by simp
  rw [e1, getIdx_pre]
  simp

/-- `(-1, -1)` or the bracket found -/
def bracketPair : Option (Nat × Nat) → Int × Int
  | none => (-1, -1)
  | some (i, j) => ((i : Int), (j : Int))

/-- the search loop of `brackets`, `for j = k; j < n; j++`, with `i = j - 1` carried, then `i, j = -1, -1` -/
theorem brackets_fin {α : Type} [Num α] (x : α) (xs : List α)
    (body : Int → (Int × List Int) → R (Ctl (Int × List Int) (Int × Int)))
    (kont : Ctl (Int × List Int) (Int × Int) → R (Int × Int))
    (h : ∀ (j : Nat) (i a : Int), body (j : Int) (i, [a]) =
        (getIdx xs (j : Int) >>= fun v => if x ≤ v then .ok (Ctl.ret (i, (j : Int))) else .ok (Ctl.next (i + 1, [(j : Int)]))))
    (k1 : ∀ r, kont (Ctl.ret r) = .ok r) (k2 : ∀ s, kont (Ctl.next s) = .ok (-1, -1)) :
    ∀ (rest pre : List α) (a : Int), xs = pre ++ rest → 1 ≤ pre.length →
      (loopN body 1 rest.length (pre.length : Int) ((pre.length : Int) - 1, [a]) >>= kont) =
        .ok (bracketPair (bracketLoop x rest pre.length)) := by
  intro rest
  induction rest with
  | nil => intro pre a _ _; simp [k2, bracketLoop, bracketPair]
  | cons v vs ih =>
    intro pre a hxs hpre
    rw [List.length_cons, loopN_succ, h, hxs, getIdx_pre, bind_ok]
    simp only [bracketLoop]
    by_cases hv : x ≤ v
    · have e0 : ((pre.length - 1 : Nat) : Int) = (pre.length : Int) - 1 := by omega
      simp only [hv, if_true, pure_eq, bind_ok, k1, bracketPair, e0]
    · simp only [hv, if_false, bind_ok]
      have e1 : ((pre.length : Int) - 1 + 1) = (((pre ++ [v]).length : Nat) : Int) - 1 := by simp
      have e2 : ((pre.length : Int) + 1) = (((pre ++ [v]).length : Nat) : Int) := by simp
      have e3 : pre.length + 1 = (pre ++ [v]).length := by simp
      rw [e1, e2, e3]
      exact ih (pre ++ [v]) _ (by simp [hxs]) (by simp)

/-- the same search with the upper index alone: `for j = k; j < n; j++ { if xs[j] >= x { return j-1, j } }`, then `-1, -1`
(the lower index is always the one before the upper one: no second counter is carried) -/
theorem brackets_fin1 {α : Type} [Num α] (x : α) (xs : List α)
    (body : Int → List Int → R (Ctl (List Int) (Int × Int)))
    (kont : Ctl (List Int) (Int × Int) → R (Int × Int))
    (h : ∀ (j : Nat) (a : Int), body (j : Int) [a] =
        (getIdx xs (j : Int) >>= fun v => if x ≤ v then .ok (Ctl.ret ((j : Int) - 1, (j : Int))) else .ok (Ctl.next [(j : Int)])))
    (k1 : ∀ r, kont (Ctl.ret r) = .ok r) (k2 : ∀ s, kont (Ctl.next s) = .ok (-1, -1)) :
    ∀ (rest pre : List α) (a : Int), xs = pre ++ rest → 1 ≤ pre.length →
      (loopN body 1 rest.length (pre.length : Int) [a] >>= kont) =
        .ok (bracketPair (bracketLoop x rest pre.length)) := by
  intro rest
  induction rest with
  | nil => intro pre a _ _; simp [k2, bracketLoop, bracketPair]
  | cons v vs ih =>
    intro pre a hxs hpre
    rw [List.length_cons, loopN_succ, h, hxs, getIdx_pre, bind_ok]
    simp only [bracketLoop]
    by_cases hv : x ≤ v
    · have e0 : ((pre.length - 1 : Nat) : Int) = (pre.length : Int) - 1 := by omega
      simp only [hv, if_true, pure_eq, bind_ok, k1, bracketPair, e0]
    · simp only [hv, if_false, bind_ok]
      have e2 : ((pre.length : Int) + 1) = (((pre ++ [v]).length : Nat) : Int) := by simp
      have e3 : pre.length + 1 = (pre ++ [v]).length := by simp
      rw [e2, e3]
      exact ih (pre ++ [v]) _ (by simp [hxs]) (by simp)

/-! ### Piecewise -/

/-- the two results `(y, err)` of the Go function, or its panic, as the hand-written model's result type
(the value of `y` is not looked at when `err != nil`) -/
def pwOf {α : Type} : R (α × Bool) → PwRes α
  | .error e => .panic e
  | .ok (_, true) => .err
  | .ok (y, false) => .val y

theorem pwOf_ite {α : Type} (c : Prop) [Decidable c] (a b : α) :
    pwOf ((if c then (pure a : R α) else pure b) >>= fun m => pure (m, false)) = if c then PwRes.val a else PwRes.val b := by
  split <;> rfl

theorem bracketLoop_ge {α : Type} [Num α] (x : α) : ∀ (rest : List α) (k i j : Nat),
    bracketLoop x rest k = some (i, j) → 1 ≤ k → i + 1 = j ∧ k ≤ j
  | [], _, _, _, h, _ => by simp [bracketLoop] at h
  | v :: vs, k, i, j, h, hk => by
    simp only [bracketLoop] at h
    split at h
    · simp only [Option.some.injEq, Prod.mk.injEq] at h; omega
    · have := bracketLoop_ge x vs (k + 1) i j h (by omega); omega

/-! ### FindRoot -/

theorem ite_ok_bind {α β : Type} (c : Prop) [Decidable c] (a b : α) (k : α → R β) :
    ((if c then (Except.ok a : R α) else Except.ok b) >>= k) = k (if c then a else b) := by
  split <;> rfl

/-- carried variables of the trial loop: hitConvergenceLimit, x, delta, minTrialX, minTrialDelta, maxTrialX, maxTrialDelta (the
order of the regenerated tuple: by type, then by declaration; the write-only `trialDeltas` of the source is removed by the
translator) -/
abbrev IS (α : Type) := Int × α × α × α × α × α × α

def isOf {α : Type} (s : Inner α) (x delta : α) : IS α :=
  ((s.hit : Int), x, delta, s.b.minX, s.b.minDelta, s.b.maxX, s.b.maxDelta)

/-- carried variables of the iteration loop: minX, maxX, x, delta, maxDelta, minDelta -/
abbrev OS (α : Type) := α × α × α × α × α × α

def osOf {α : Type} (b : Bracket α) (x delta : α) : OS α := (b.minX, b.maxX, x, delta, b.maxDelta, b.minDelta)

/-- what one trial does to the carried variables, in the words of `trialStep` -/
def trialCtl {α : Type} [Num α] (f : α → α) (tol conv x delta : α) (s : Inner α) (trial : α) :
    R (Ctl (IS α) (α × α)) :=
  match trialStep f tol conv x s trial with
  | .inl (rx, rd, _) => .ok (Ctl.ret (rx, rd))
  | .inr s' => .ok (Ctl.next (isOf s' x delta))

theorem trial_loop {α : Type} [Num α] (f : α → α) (tol conv x delta : α)
    (body : Int → α → IS α → R (Ctl (IS α) (α × α)))
    (h : ∀ i trial s, body i trial (isOf s x delta) = trialCtl f tol conv x delta s trial) :
    ∀ (ts : List α) (i : Int) (s : Inner α),
      loopRange body ts i (isOf s x delta) =
        match trialLoop f tol conv x s ts with
        | .inl (rx, rd, _) => .ok (Ctl.ret (rx, rd))
        | .inr s' => .ok (Ctl.next (isOf s' x delta)) := by
  intro ts
  induction ts with
  | nil => intro i s; simp [trialLoop]
  | cons t ts ih =>
    intro i s
    rw [loopRange_cons, h]
    simp only [trialCtl, trialLoop]
    cases trialStep f tol conv x s t with
    | inl r => rfl
    | inr s' =>
      simp only [bind_ok]
      rw [ih]

/-- one iteration of the outer loop in the words of `iterate` (the ghost lists `ev`, `dev` do not matter) -/
def iterCtl {α : Type} [Num α] (f : α → α) (f' : Option (α → α)) (tol conv x delta : α) (b : Bracket α) (ev : List α) :
    R (Ctl (OS α) (α × α)) :=
  let ts := trialXs f' x delta b
  match trialLoop f tol conv x { b := b, hit := 0, evals := ev } ts with
  | .inl (rx, rd, _) => .ok (Ctl.ret (rx, rd))
  | .inr s =>
    let p := pick s.b
    if s.hit == ts.length then .ok (Ctl.ret (p.1, p.2)) else .ok (Ctl.next (osOf s.b p.1 p.2))

/-- the shape of one iteration of the regenerated outer loop: the trial points `m` are computed (without panics), the
trial loop `bodyI` runs over them, `K` decides between `return` and the next iteration -/
theorem iter_shape {α : Type} [Num α] (f : α → α) (f' : Option (α → α)) (tol conv x delta : α) (b : Bracket α) (ev : List α)
    (m : R (List α)) (bodyI : Int → α → IS α → R (Ctl (IS α) (α × α)))
    (K : List α → Ctl (IS α) (α × α) → R (Ctl (OS α) (α × α)))
    (hm : m = .ok (trialXs f' x delta b))
    (hI : ∀ i trial s, bodyI i trial (isOf s x delta) = trialCtl f tol conv x delta s trial)
    (hK1 : ∀ ts r, K ts (Ctl.ret r) = .ok (Ctl.ret r))
    (hK2 : ∀ ts (s : Inner α), K ts (Ctl.next (isOf s x delta)) =
      if s.hit == ts.length then .ok (Ctl.ret ((pick s.b).1, (pick s.b).2)) else .ok (Ctl.next (osOf s.b (pick s.b).1 (pick s.b).2))) :
    (m >>= fun ts => loopRange bodyI ts 0 (isOf { b := b, hit := 0, evals := ev } x delta) >>= K ts) =
      iterCtl f f' tol conv x delta b ev := by
  rw [hm, bind_ok, trial_loop f tol conv x delta bodyI hI]
  simp only [iterCtl]
  cases trialLoop f tol conv x { b := b, hit := 0, evals := ev } (trialXs f' x delta b) with
  | inl r => obtain ⟨rx, rd, s⟩ := r; simp [hK1]
  | inr s => simp [hK2]

/-- the same, once the trial points of the iteration are known: the trial loop runs over the list `ts`, `K` decides between
`return` and the next iteration (comparing the hit counter with the NUMBER of trial points, however the source holds it) -/
theorem iter_shape_ts {α : Type} [Num α] (f : α → α) (f' : Option (α → α)) (tol conv x delta : α) (b : Bracket α) (ev : List α)
    (ts : List α) (bodyI : Int → α → IS α → R (Ctl (IS α) (α × α)))
    (K : Ctl (IS α) (α × α) → R (Ctl (OS α) (α × α))) (n : Nat) (hn : n = ts.length)
    (hts : trialXs f' x delta b = ts)
    (hI : ∀ i trial s, bodyI i trial (isOf s x delta) = trialCtl f tol conv x delta s trial)
    (hK1 : ∀ r, K (Ctl.ret r) = .ok (Ctl.ret r))
    (hK2 : ∀ (s : Inner α), K (Ctl.next (isOf s x delta)) =
      if s.hit == ts.length then .ok (Ctl.ret ((pick s.b).1, (pick s.b).2)) else .ok (Ctl.next (osOf s.b (pick s.b).1 (pick s.b).2))) :
    (loopN (fun i s => getIdx ts i >>= fun v => bodyI i v s) 1 n 0 (isOf { b := b, hit := 0, evals := ev } x delta) >>= K) =
      iterCtl f f' tol conv x delta b ev := by
  subst hn
  rw [range_loopN0, trial_loop f tol conv x delta bodyI hI]
  simp only [iterCtl, hts]
  cases trialLoop f tol conv x { b := b, hit := 0, evals := ev } ts with
  | inl r => obtain ⟨rx, rd, s⟩ := r; simp [hK1]
  | inr s => simp [hK2]

theorem iterate_fin {α : Type} [Num α] (f : α → α) (f' : Option (α → α)) (tol conv : α)
    (body : Int → OS α → R (Ctl (OS α) (α × α))) (kont : Ctl (OS α) (α × α) → R (α × α))
    (h : ∀ it b x delta ev, body it (osOf b x delta) = iterCtl f f' tol conv x delta b ev)
    (k1 : ∀ r, kont (Ctl.ret r) = .ok r) (k2 : ∀ s : OS α, kont (Ctl.next s) = .ok (s.2.2.1, s.2.2.2.1)) :
    ∀ (d : Int) (fuel : Nat) (it : Int) (x delta : α) (b : Bracket α) (ev dev : List α),
      (loopN body d fuel it (osOf b x delta) >>= kont) =
        .ok ((iterate f f' tol conv fuel x delta b ev dev).x, (iterate f f' tol conv fuel x delta b ev dev).delta) := by
  intro d fuel
  induction fuel with
  | zero => intro it x delta b ev dev; simp [k2, iterate, osOf]
  | succ n ih =>
    intro it x delta b ev dev
    rw [loopN_succ, h it b x delta ev]
    simp only [iterCtl, iterate]
    cases trialLoop f tol conv x { b := b, hit := 0, evals := ev } (trialXs f' x delta b) with
    | inl r => obtain ⟨rx, rd, s⟩ := r; simp [k1]
    | inr s =>
      simp only []
      by_cases hh : (s.hit == (trialXs f' x delta b).length) = true
      · simp [hh, k1]
      · simp only [hh, Bool.false_eq_true, if_false, bind_ok]
        exact ih _ _ _ _ _ _

/-! ### calendar helpers (models/functions/dates.go) -/

/-- the hand-written calendar model says `none` for a Go panic (always an index out of the month table) -/
def optR {τ : Type} : Option τ → R τ
  | some a => .ok a
  | none => .error "index-out-of-range"

/-- `for mi := 1; mi < m; mi++ { doy += daysInMonth(mi, y) }` -/
theorem doy_loop (y m : Int) (body : Int → Int → R (Ctl Int Int))
    (h : ∀ mi s, body mi s = (optR (OW.Dates.daysInMonth mi y) >>= fun k => .ok (Ctl.next (s + k)))) :
    ∀ (fuel : Nat) (mi acc : Int), fuel = (m - mi).toNat →
      loopN body 1 fuel mi acc = (optR (OW.Dates.doyLoop y m fuel mi acc) >>= fun s => .ok (Ctl.next s)) := by
  intro fuel
  induction fuel with
  | zero => intro mi acc _; rfl
  | succ n ih =>
    intro mi acc hf
    have hlt : mi < m := by omega
    rw [loopN_succ, h]
    simp only [OW.Dates.doyLoop, hlt, if_true]
    cases OW.Dates.daysInMonth mi y with
    | none => rfl
    | some k => simp only [optR, bind_ok]; exact ih (mi + 1) (acc + k) (by omega)

end OW.Proofs.GenIdx
