import OW.Proofs.HotStartStorage
/-!
Storage (reservoir water balance), C14 strong causality: if `storageWaterBalance` completes on a period, it completes on every
initial part of it. The only place where the truncated run does something the whole run does not do at the same point is the
look-up of the FINAL volume in the level and area tables after the timestep loop. Whether `cappedPiecewise(vol, ys)` panics depends
on `vol`, the volume table and the LENGTH of `ys` only; all five tables of a cell have the same length; and the whole run either
starts its next timestep with the same look-up in the release table (Δt > 0) or never changes the volume again (Δt ≤ 0).
Core Lean only.
-/
set_option linter.unusedSimpArgs false
set_option linter.unusedVariables false
namespace OW.Proofs.StoragePrefix
open OW OW.Kernels.Storage OW.Proofs.StorageHot
variable {α : Type} [Num α]

omit [Num α] in
theorem getAt_ok_of_len (ys ys' : List α) (i : Nat) (hlen : ys.length = ys'.length) :
    (∃ r, getAt ys i = .ok r) → ∃ r', getAt ys' i = .ok r' := by
  rintro ⟨r, hr⟩
  unfold getAt at hr ⊢
  by_cases hi : i < ys.length
  · have hi' : i < ys'.length := hlen ▸ hi
    rw [List.getElem?_eq_getElem hi']
    exact ⟨_, rfl⟩
  · rw [List.getElem?_eq_none (by omega)] at hr
    cases hr

/-- the KIND of result of `Piecewise(x, xs, ys)` (number / error / panic) depends on `ys` through its length only -/
theorem piecewise_val_of_len (x : α) (xs ys ys' : List α) (hlen : ys.length = ys'.length) :
    (∃ v, Fn.piecewise x xs ys = .val v) → ∃ v', Fn.piecewise x xs ys' = .val v' := by
  rintro ⟨v, hv⟩
  unfold Fn.piecewise at hv ⊢
  cases hb : Fn.brackets x xs with
  | error e => rw [hb] at hv; cases hv
  | ok ob =>
    rw [hb] at hv
    cases ob with
    | none => cases hv
    | some ij =>
      obtain ⟨i, j⟩ := ij
      simp only at hv ⊢
      cases hx0 : xs[i]? with
      | none => rw [hx0] at hv; cases hv
      | some x0 =>
        cases hx1 : xs[j]? with
        | none => rw [hx0, hx1] at hv; cases hv
        | some x1 =>
          cases hy0 : ys[i]? with
          | none => rw [hx0, hx1, hy0] at hv; cases hv
          | some y0 =>
            cases hy1 : ys[j]? with
            | none => rw [hx0, hx1, hy0, hy1] at hv; cases hv
            | some y1 =>
              obtain ⟨hi, _⟩ := List.getElem?_eq_some_iff.mp hy0
              obtain ⟨hj, _⟩ := List.getElem?_eq_some_iff.mp hy1
              rw [List.getElem?_eq_getElem (hlen ▸ hi), List.getElem?_eq_getElem (hlen ▸ hj)]
              simp only
              split
              · exact ⟨_, rfl⟩
              · split <;> exact ⟨_, rfl⟩

/-- whether `cappedPiecewise(vol, ys)` panics depends on `ys` through its length only -/
theorem cappedPiecewise_ok_of_len (t : Tables α) (vol : α) (ys ys' : List α) (hlen : ys.length = ys'.length) :
    (∃ r, cappedPiecewise t vol ys = .ok r) → ∃ r', cappedPiecewise t vol ys' = .ok r' := by
  rintro ⟨r, hr⟩
  unfold cappedPiecewise at hr ⊢
  split at hr
  · rename_i h1
    rw [if_pos h1]
    exact getAt_ok_of_len ys ys' 0 hlen ⟨r, hr⟩
  · rename_i h1
    rw [if_neg h1]
    split at hr
    · rename_i h2
      rw [if_pos h2]
      exact getAt_ok_of_len ys ys' _ hlen ⟨r, hr⟩
    · rename_i h2
      rw [if_neg h2]
      cases hp : Fn.piecewise vol t.volumes ys with
      | val v =>
        obtain ⟨v', hv'⟩ := piecewise_val_of_len vol t.volumes ys ys' hlen ⟨v, hp⟩
        rw [hv']
        exact ⟨_, rfl⟩
      | err => rw [hp] at hr; cases hr
      | panic e => rw [hp] at hr; cases hr

/-- a completed timestep with Δt > 0 has looked the start volume up in the minimum-release table -/
theorem step_ok_lookup (t : Tables α) (keep : Bool) (fo fi : Nat) (deltaT volume : α) (tags : List String) (i : StepIn α)
    (hdt : 0 < deltaT) (r : α × List String × StepOut α)
    (h : step t keep (fo + 1) fi deltaT volume tags i = .ok r) :
    ∃ m, cappedPiecewise t volume t.minRelease = .ok m := by
  obtain ⟨rainfall, pet, inflow, demand⟩ := i
  simp only [step, outer, if_pos hdt, bind, Except.bind] at h
  cases hm : cappedPiecewise t volume t.minRelease with
  | ok m => exact ⟨m, rfl⟩
  | error e =>
    exfalso
    simp only [outerBody, releaseRate, bind, Except.bind, hm] at h
    cases h

/-- with Δt ≤ 0 a timestep executes no sub-step: the volume is unchanged -/
theorem step_volume_of_not_pos (t : Tables α) (keep : Bool) (fo fi : Nat) (deltaT volume : α) (tags : List String) (i : StepIn α)
    (hdt : ¬ 0 < deltaT) (r : α × List String × StepOut α)
    (h : step t keep (fo + 1) fi deltaT volume tags i = .ok r) : r.1 = volume := by
  obtain ⟨rainfall, pet, inflow, demand⟩ := i
  simp only [step, outer, if_neg hdt, bind, Except.bind, pure, Except.pure, Except.ok.injEq] at h
  subst h
  rfl

theorem steps_volume_of_not_pos (t : Tables α) (keep : Bool) (fo fi : Nat) (deltaT : α) (hdt : ¬ 0 < deltaT) :
    ∀ (xs : List (StepIn α)) (volume : α) (tags : List String) (r : α × List String × List (StepOut α)),
      steps t keep (fo + 1) fi deltaT volume tags xs = .ok r → r.1 = volume := by
  intro xs
  induction xs with
  | nil => intro v tg r h; simp only [steps, pure, Except.pure, Except.ok.injEq] at h; subst h; rfl
  | cons x xs ih =>
    intro v tg r h
    simp only [steps, bind, Except.bind] at h
    cases hs : step t keep (fo + 1) fi deltaT v tg x with
    | error e => rw [hs] at h; cases h
    | ok q =>
      have hq := step_volume_of_not_pos t keep fo fi deltaT v tg x hdt q hs
      obtain ⟨v1, tg1, o1⟩ := q
      rw [hs] at h
      simp only at h hq
      cases hr : steps t keep (fo + 1) fi deltaT v1 tg1 xs with
      | error e => rw [hr] at h; cases h
      | ok q2 =>
        have hq2 := ih v1 tg1 q2 hr
        obtain ⟨v2, tg2, o2⟩ := q2
        rw [hr] at h
        simp only [pure, Except.pure, Except.ok.injEq] at h
        subst h
        simp only at hq2 ⊢
        rw [hq2, hq]

/-- **`storageWaterBalance` completes on every initial part of a period on which it completes** (tables of equal length) -/
theorem run_prefix_ok (t : Tables α) (keep : Bool) (fo fi : Nat) (deltaT v0 : α) (xs ys : List (StepIn α)) (r : RunOut α)
    (hlv : t.levels.length = t.minRelease.length) (har : t.areas.length = t.minRelease.length)
    (h : run t keep (fo + 1) fi deltaT v0 (xs ++ ys) = .ok r) :
    ∃ r₁, run t keep (fo + 1) fi deltaT v0 xs = .ok r₁ := by
  simp only [run] at h ⊢
  rw [steps_append] at h
  cases hs1 : steps t keep (fo + 1) fi deltaT v0 [] xs with
  | error e => rw [hs1] at h; simp [bind, Except.bind] at h
  | ok q1 =>
    obtain ⟨v1, tg1, o1⟩ := q1
    rw [hs1] at h
    simp only [bind, Except.bind, pure, Except.pure] at h ⊢
    cases hs2 : steps t keep (fo + 1) fi deltaT v1 tg1 ys with
    | error e => rw [hs2] at h; cases h
    | ok q2 =>
      obtain ⟨v2, tg2, o2⟩ := q2
      rw [hs2] at h
      simp only at h
      -- the final look-ups of the whole run, at v2
      have hfin : (∃ l, cappedPiecewise t v2 t.levels = .ok l) ∧ (∃ a, cappedPiecewise t v2 t.areas = .ok a) := by
        cases hl : cappedPiecewise t v2 t.levels with
        | error e => rw [hl] at h; cases h
        | ok l =>
          rw [hl] at h
          simp only at h
          cases ha : cappedPiecewise t v2 t.areas with
          | error e => rw [ha] at h; cases h
          | ok a => exact ⟨⟨l, rfl⟩, ⟨a, rfl⟩⟩
      -- the look-ups of the truncated run, at v1
      have hv1 : (∃ l, cappedPiecewise t v1 t.levels = .ok l) ∧ (∃ a, cappedPiecewise t v1 t.areas = .ok a) := by
        cases ys with
        | nil =>
          simp only [steps, pure, Except.pure, Except.ok.injEq, Prod.mk.injEq] at hs2
          obtain ⟨rfl, _, _⟩ := hs2
          exact hfin
        | cons y ys' =>
          by_cases hdt : 0 < deltaT
          · -- the next timestep of the whole run starts with the look-up in the release table
            simp only [steps, bind, Except.bind] at hs2
            cases hst : step t keep (fo + 1) fi deltaT v1 tg1 y with
            | error e => rw [hst] at hs2; cases hs2
            | ok q =>
              obtain ⟨m, hm⟩ := step_ok_lookup t keep fo fi deltaT v1 tg1 y hdt q hst
              exact ⟨cappedPiecewise_ok_of_len t v1 t.minRelease t.levels hlv.symm ⟨m, hm⟩,
                     cappedPiecewise_ok_of_len t v1 t.minRelease t.areas har.symm ⟨m, hm⟩⟩
          · -- no sub-step is ever executed: the volume stays v1
            have := steps_volume_of_not_pos t keep fo fi deltaT hdt (y :: ys') v1 tg1 _ hs2
            simp only at this
            subst this
            exact hfin
      obtain ⟨⟨l, hl⟩, ⟨a, ha⟩⟩ := hv1
      rw [hl]
      simp only
      rw [ha]
      exact ⟨_, rfl⟩

/-- `mkTables` stores the five tables unchanged -/
theorem mkTables_fields (levels volumes areas minRelease maxRelease : List α) (t : Tables α)
    (h : mkTables levels volumes areas minRelease maxRelease = .ok t) :
    t.levels = levels ∧ t.areas = areas ∧ t.minRelease = minRelease := by
  simp only [mkTables, bind, Except.bind, pure, Except.pure] at h
  cases h1 : getAt volumes 0 with
  | error e => rw [h1] at h; cases h
  | ok v0 =>
    rw [h1] at h
    simp only at h
    cases h2 : getAt volumes (volumes.length - 1) with
    | error e => rw [h2] at h; cases h
    | ok vN =>
      rw [h2] at h
      simp only at h
      cases h3 : getAt minRelease (volumes.length - 1) with
      | error e => rw [h3] at h; cases h
      | ok sp =>
        rw [h3] at h
        simp only [Except.ok.injEq] at h
        subst h
        exact ⟨rfl, rfl, rfl⟩

theorem fuelOuter_succ : fuelOuter = 399999 + 1 := rfl

end OW.Proofs.StoragePrefix
