import OW.Proofs.GR4JSpec
import OW.Proofs.HotStartGR4J
import OW.Proofs.GR4JBudget
/-!
C15, adapter level: `OW.Kernels.GR4J.model` (the `KModel` the K correspondence executes against the Go wrapper:
`extractGR4JStates` → `gr4j` → `packGR4JStates` on a flat state row `[S, R, n1, n2, q1…, q9…]`) run on a packed
state IS the packed result of `run` on that state. This brings the row layout (offsets of q1 / q9), the
`int(n1f)` / `float64(n1)` round-trip of the two lengths and the panics of the adapter inside the theorems:
the equalities of `GR4JSpec.lean` are about `run`, this file ties `model.run` / `model.init` to `run`.
The same is done for the specification's adapter `Spec.GR4J.mkModel`, so that the two `KModel`s can be compared
as the K / KSPEC families run them.
-/
namespace OW.RR.GR4J
open OW OW.Kernels.GR4J

/-- `int(float64(n)) = n` over ℝ (at `Float` the round-trip is exact for n < 2^53; covered by execution) -/
theorem toInt_ofNat (n : ℕ) : Num.toInt (Num.ofNat n : ℝ) = (n : ℤ) := by
  show (if (0 : ℝ) ≤ (n : ℝ) then ⌊(n : ℝ)⌋ else ⌈(n : ℝ)⌉) = (n : ℤ)
  rw [if_pos (Nat.cast_nonneg n), Int.floor_natCast]

/-- the row written by `packGR4JStates`, cell by cell -/
theorem pack_cons (st : State ℝ) (n1 n2 : ℕ) :
    pack st n1 n2 = st.S :: st.R :: (Num.ofNat n1 : ℝ) :: (Num.ofNat n2 : ℝ) :: (st.q1 ++ st.q9) := rfl

/-- what `model.run` returns on success, written with `run` and `pack` -/
noncomputable def packedResult (x1 x2 x3 x4 : ℝ) (n1 n2 : ℕ) (st : State ℝ) (rain pet : List ℝ) : KOut ℝ :=
  { outputs := [(run x1 x2 x3 x4 n1 n2 st (rain.zip pet)).2.map (·.runoff)],
    states := pack (run x1 x2 x3 x4 n1 n2 st (rain.zip pet)).1 n1 n2,
    tags := dedup ((run x1 x2 x3 x4 n1 n2 st (rain.zip pet)).2.flatMap (·.tags)) ++
      ["n1=" ++ toString n1, "n2=" ++ toString n2] }

/-- `extract ∘ pack = id`, then the kernel, then `pack`: the adapter on a packed row of a state whose stores have
the lengths n2 / n1 (both ≥ 1) does not panic and returns the packed `run`. -/
theorem model_run_pack (x1 x2 x3 x4 : ℝ) (n1 n2 : ℕ) (h1 : 0 < n1) (h2 : 0 < n2) (st : State ℝ)
    (hq1 : st.q1.length = n2) (hq9 : st.q9.length = n1) (rain pet : List ℝ) :
    (model (α := ℝ)).run [x1, x2, x3, x4] [rain, pet] (pack st n1 n2) =
      .ok (packedResult x1 x2 x3 x4 n1 n2 st rain pet) := by
  obtain ⟨S, R, q1, q9⟩ := st
  simp only at hq1 hq9
  subst hq1 hq9
  rw [pack_cons]
  have hnot : ¬ (((q9.length : ℕ) : ℤ) ≤ 0 ∨ ((q1.length : ℕ) : ℤ) ≤ 0) := by omega
  have hlen : ¬ ((q1 ++ q9).length < q9.length + q1.length) := by
    rw [List.length_append]; omega
  simp only [model, toInt_ofNat, Int.toNat_natCast, if_neg hnot, if_neg hlen, List.take_left', List.drop_left', List.take_length,
    packedResult]

/-- a row whose length cell n1 (or n2) is not positive: `SH1[n1-1]` is an index panic (the adapter refuses, it does
not run with a default) -/
theorem model_run_zero_len (x1 x2 x3 x4 S R n2f : ℝ) (rest rain pet : List ℝ) :
    (model (α := ℝ)).run [x1, x2, x3, x4] [rain, pet] (S :: R :: 0 :: n2f :: rest) = .error "index-out-of-range" := by
  have h0 : Num.toInt (0 : ℝ) = 0 := by
    show (if (0 : ℝ) ≤ 0 then ⌊(0 : ℝ)⌋ else ⌈(0 : ℝ)⌉) = 0
    rw [if_pos (le_refl _), Int.floor_zero]
  simp only [model, h0, le_refl, true_or, if_true]

/-- a row shorter than `4 + n1 + n2` is a slice panic -/
theorem model_run_short_row (x1 x2 x3 x4 : ℝ) (n1 n2 : ℕ) (h1 : 0 < n1) (h2 : 0 < n2) (S R : ℝ)
    (rest rain pet : List ℝ) (hr : rest.length < n1 + n2) :
    (model (α := ℝ)).run [x1, x2, x3, x4] [rain, pet] (S :: R :: (Num.ofNat n1 : ℝ) :: (Num.ofNat n2 : ℝ) :: rest) =
      .error "index-out-of-range" := by
  have hnot : ¬ (((n1 : ℕ) : ℤ) ≤ 0 ∨ ((n2 : ℕ) : ℤ) ≤ 0) := by omega
  simp only [model, toInt_ofNat, Int.toNat_natCast, if_neg hnot, if_pos hr]

/-- `InitialiseStates` of one cell writes the packed `initGR4J` state -/
theorem model_init (x1 x2 x3 x4 : ℝ) :
    (model (α := ℝ)).init [x1, x2, x3, x4] =
      .ok (pack (initState x4).1 (initState x4).2.1 (initState x4).2.2) := rfl

theorem initState_q9 (x4 : ℝ) : (initState x4).1.q9 = zeros (initState x4).2.1 := rfl
theorem initState_q1 (x4 : ℝ) : (initState x4).1.q1 = zeros (initState x4).2.2 := rfl

theorem zeros_length (n : ℕ) : (zeros n : List ℝ).length = n := List.length_replicate

/-- **`model.run p ins (model.init p)`** is the packed `run … initState`, with n1 = ⌈x4⌉, n2 = ⌈2·x4⌉. -/
theorem model_run_init (x1 x2 x3 x4 : ℝ) (hx4 : 0 < x4) (rain pet : List ℝ) :
    ((model (α := ℝ)).init [x1, x2, x3, x4] >>= fun row => (model (α := ℝ)).run [x1, x2, x3, x4] [rain, pet] row) =
      .ok (packedResult x1 x2 x3 x4 ⌈x4⌉₊ ⌈2 * x4⌉₊ (initState x4).1 rain pet) := by
  rw [model_init]
  show (model (α := ℝ)).run [x1, x2, x3, x4] [rain, pet] (pack (initState x4).1 (initState x4).2.1 (initState x4).2.2) = _
  rw [init_n1 x4 hx4, init_n2 x4 hx4]
  refine model_run_pack x1 x2 x3 x4 _ _ (Nat.ceil_pos.mpr hx4) (Nat.ceil_pos.mpr (by linarith)) _ ?_ ?_ rain pet
  · rw [initState_q1, zeros_length, init_n2 x4 hx4]
  · rw [initState_q9, zeros_length, init_n1 x4 hx4]

/-- the state row returned by a run can be handed to the next run (hot start): it is again a packed state with
stores of the same lengths -/
theorem model_run_chain (x1 x2 x3 x4 : ℝ) (n1 n2 : ℕ) (h1 : 0 < n1) (h2 : 0 < n2) (st : State ℝ)
    (hq1 : st.q1.length = n2) (hq9 : st.q9.length = n1) (rain pet rain' pet' : List ℝ) :
    (model (α := ℝ)).run [x1, x2, x3, x4] [rain', pet'] (packedResult x1 x2 x3 x4 n1 n2 st rain pet).states =
      .ok (packedResult x1 x2 x3 x4 n1 n2 (run x1 x2 x3 x4 n1 n2 st (rain.zip pet)).1 rain' pet') := by
  obtain ⟨a, b⟩ := OW.Proofs.GR4JHot.run_len x1 x2 x3 x4 n1 n2 h1 h2 (rain.zip pet) st hq1 hq9
  exact model_run_pack x1 x2 x3 x4 n1 n2 h1 h2 _ a b rain' pet'

/-! ### the specification's adapter -/

theorem row_toSpec (st : State ℝ) : Spec.GR4J.row (toSpec st) = pack st st.q9.length st.q1.length := rfl

/-- the specification's `KModel` on a row of a specification state (both pending vectors non-empty) -/
theorem spec_model_run_row (name : String) (tanhArg : ℝ → ℝ) (x1 x2 x3 x4 : ℝ) (st : Spec.GR4J.State ℝ)
    (h9 : 0 < st.pend9.length) (h1 : 0 < st.pend1.length) (rain pet : List ℝ) :
    (Spec.GR4J.mkModel name tanhArg).run [x1, x2, x3, x4] [rain, pet] (Spec.GR4J.row st) =
      .ok { outputs := [(Spec.GR4J.run tanhArg x1 x2 x3 x4 st (rain.zip pet)).2.map (·.Q)],
            states := Spec.GR4J.row (Spec.GR4J.run tanhArg x1 x2 x3 x4 st (rain.zip pet)).1 } := by
  obtain ⟨S, R, p1, p9⟩ := st
  simp only at h9 h1
  have hrow : Spec.GR4J.row (⟨S, R, p1, p9⟩ : Spec.GR4J.State ℝ) =
      S :: R :: (Num.ofNat p9.length : ℝ) :: (Num.ofNat p1.length : ℝ) :: (p1 ++ p9) := rfl
  rw [hrow]
  have hnot : ¬ (p9.length = 0 ∨ p1.length = 0 ∨ (p1 ++ p9).length < p9.length + p1.length) := by
    rw [List.length_append]; omega
  simp only [Spec.GR4J.mkModel, toInt_ofNat, Int.toNat_natCast, if_neg hnot, List.take_left', List.drop_left',
    List.take_length]

/-- the specification's `InitialiseStates` row is the code's (x4 > 0 not needed: both use the same ⌈·⌉ cells) -/
theorem spec_model_init (name : String) (tanhArg : ℝ → ℝ) (x1 x2 x3 x4 : ℝ) :
    (Spec.GR4J.mkModel name tanhArg).init [x1, x2, x3, x4] = (model (α := ℝ)).init [x1, x2, x3, x4] := by
  show Except.ok (Spec.GR4J.row (Spec.GR4J.initState x4)) = Except.ok (pack (initState x4).1 (initState x4).2.1 (initState x4).2.2)
  congr 1
  simp only [Spec.GR4J.row, Spec.GR4J.initState, pack, initState, zeros_length, Spec.GR4J.nUH1, Spec.GR4J.nUH2,
    numZero, sciZero]

/-- **The two `KModel`s agree.** On every packed Shaped state the code's adapter and the specification's adapter
(the two programs the K and KSPEC families execute) both succeed and return the same output series and the same
state row; only the branch tags differ (the specification has none). -/
theorem model_eq_spec_model (x1 x2 x3 x4 : ℝ) (hx4 : 0 < x4) (st : State ℝ) (hst : Shaped x4 st) (rain pet : List ℝ) :
    ∃ o o' : KOut ℝ,
      (model (α := ℝ)).run [x1, x2, x3, x4] [rain, pet] (pack st ⌈x4⌉₊ ⌈2 * x4⌉₊) = .ok o ∧
      (Spec.GR4J.model (α := ℝ)).run [x1, x2, x3, x4] [rain, pet] (pack st ⌈x4⌉₊ ⌈2 * x4⌉₊) = .ok o' ∧
      o = packedResult x1 x2 x3 x4 ⌈x4⌉₊ ⌈2 * x4⌉₊ st rain pet ∧
      o.outputs = o'.outputs ∧ o.states = o'.states := by
  have hn1 : 0 < ⌈x4⌉₊ := Nat.ceil_pos.mpr hx4
  have hn2 : 0 < ⌈2 * x4⌉₊ := Nat.ceil_pos.mpr (by linarith)
  obtain ⟨e, hs⟩ := run_eq_spec x1 x2 x3 x4 hx4 (rain.zip pet) st hst
  have hrow : pack st ⌈x4⌉₊ ⌈2 * x4⌉₊ = Spec.GR4J.row (toSpec st) := by rw [row_toSpec, hst.1, hst.2]
  have hspec := spec_model_run_row "GR4J#spec" Spec.GR4J.tanhArgSafeguarded x1 x2 x3 x4 (toSpec st)
    (by show 0 < st.q9.length; rw [hst.1]; exact hn1) (by show 0 < st.q1.length; rw [hst.2]; exact hn2) rain pet
  rw [← hrow] at hspec
  refine ⟨_, _, model_run_pack x1 x2 x3 x4 _ _ hn1 hn2 st hst.2 hst.1 rain pet, hspec, rfl, ?_, ?_⟩
  · show [_] = [_]
    rw [e]
    simp only [List.map_map]
    rfl
  · show pack _ _ _ = Spec.GR4J.row _
    rw [e, row_toSpec, hs.1, hs.2]

/-! ### the base of the exchange power `(R/x3)^3.5` is non-negative

`Real.rpow` of a negative base with exponent 3.5 is 0 where Go's `math.Pow` returns NaN. With x3 > 0 the routing
store leaves every day non-negative (`R ← max(0, ·) − Qr` and `Qr ≤ max(0, ·)`), whatever the other parameters and
inputs are, so from a non-negative initial store the power is always taken of a non-negative base. -/

theorem step_R_nonneg (x1 x2 x3 : ℝ) (hx3 : 0 < x3) (u1 u2 : List ℝ) (st : State ℝ) (pe : ℝ × ℝ) :
    0 ≤ (step x1 x2 x3 u1 u2 st pe).1.R := by
  simp only [step]
  generalize st.R + head0 _ + x2 * Num.pow (st.R / x3) 3.5 = r1
  have key : ∀ r2 : ℝ, 0 ≤ r2 → 0 ≤ r2 - routingOutflow x3 r2 :=
    fun r2 h => by linarith [(routing_spec x3 r2 hx3 h).2.1]
  apply key
  split_ifs with h
  · rw [sciZero]
  · simpa [numZero] using h

theorem run_R_nonneg (x1 x2 x3 x4 : ℝ) (hx3 : 0 < x3) (n1 n2 : ℕ) (xs : List (ℝ × ℝ)) :
    ∀ st : State ℝ, 0 ≤ st.R → 0 ≤ (run x1 x2 x3 x4 n1 n2 st xs).1.R := by
  unfold run
  induction xs with
  | nil => intro st h; exact h
  | cons x xs ih =>
    intro st _
    simp only [scan]
    exact ih _ (step_R_nonneg x1 x2 x3 hx3 _ _ st x)

end OW.RR.GR4J
