import OW.Proofs.GR4JConv
/-!
C15, specification side: `Spec.GR4J.run` in CLOSED FORM. A day of the specification is three independent pieces,
* the production store (eqs. 1–8): S and Pr depend on S, P, E only (`prodDay`),
* the two unit hydrographs: pending deliveries updated with 0.9·Pr / 0.1·Pr (`Spec.GR4J.uhDay`),
* the routing store and direct branch (eqs. 18–22): R, Qr, Qd, Q from R, Q9, Q1 (`routeDay`),
so a run is the routing recurrence driven by
  Q9(t) = pend9[t] + Σ_{i≤t} UH1(t−i+1)·0.9·Pr(i),   Q1(t) = pend1[t] + Σ_{i≤t} UH2(t−i+1)·0.1·Pr(i),
the discrete convolutions of the paper (pend = 0 for a run from empty unit hydrographs), where Pr(i) comes from the
production-store recurrence alone. `run_closed_form` states this for whole runs; it composes `uhRun_convolution`
into `Spec.GR4J.run`.
-/
namespace OW.RR.GR4J
open OW

section generic
variable {α : Type} [Num α]

/-- production part of one day (eqs. 1–8): (new S, Pr) -/
def prodDay (tanhArg : α → α) (x1 : α) (S : α) (pe : α × α) : α × α :=
  let P := pe.1
  let E := pe.2
  let pn := Spec.GR4J.Pn P E
  let en := Spec.GR4J.En P E
  let ps := Spec.GR4J.Ps tanhArg x1 S pn
  let es := Spec.GR4J.Es tanhArg x1 S en
  let S1 := S - es + ps
  let perc := Spec.GR4J.Perc x1 S1
  (S1 - perc, perc + (pn - ps))

/-- routing part of one day (eqs. 18–22) given q = (Q9, Q1): (new R, (Q, Qr, Qd)) -/
def routeDay (x2 x3 : α) (R : α) (q : α × α) : α × Spec.GR4J.Day α :=
  let f := Spec.GR4J.F x2 x3 R
  let R1 := Num.gmax 0 (R + q.1 + f)
  let qr := Spec.GR4J.Qr x3 R1
  let qd := Num.gmax 0 (q.2 + f)
  (R1 - qr, ⟨qr + qd, qr, qd⟩)

/-- the 90 % share entering UH1 -/
def in9 (pr : α) : α := 0.9 * pr
/-- the 10 % share entering UH2 -/
def in1 (pr : α) : α := 0.1 * pr

/-- a day of the specification is production, then the two unit hydrographs, then routing — literally -/
theorem day_decomp (tanhArg : α → α) (x1 x2 x3 x4 : α) (st : Spec.GR4J.State α) (pe : α × α) :
    Spec.GR4J.day tanhArg x1 x2 x3 x4 st pe =
      (⟨(prodDay tanhArg x1 st.S pe).1,
        (routeDay x2 x3 st.R
          ((Spec.GR4J.uhDay (Spec.GR4J.UH1 x4) st.pend9 (in9 (prodDay tanhArg x1 st.S pe).2)).1,
           (Spec.GR4J.uhDay (Spec.GR4J.UH2 x4) st.pend1 (in1 (prodDay tanhArg x1 st.S pe).2)).1)).1,
        (Spec.GR4J.uhDay (Spec.GR4J.UH2 x4) st.pend1 (in1 (prodDay tanhArg x1 st.S pe).2)).2,
        (Spec.GR4J.uhDay (Spec.GR4J.UH1 x4) st.pend9 (in9 (prodDay tanhArg x1 st.S pe).2)).2⟩,
       (routeDay x2 x3 st.R
          ((Spec.GR4J.uhDay (Spec.GR4J.UH1 x4) st.pend9 (in9 (prodDay tanhArg x1 st.S pe).2)).1,
           (Spec.GR4J.uhDay (Spec.GR4J.UH2 x4) st.pend1 (in1 (prodDay tanhArg x1 st.S pe).2)).1)).2) := rfl

end generic

theorem in9_real (pr : ℝ) : in9 pr = 0.9 * pr := by
  simp only [in9, OW.RR.Surm.sci]
theorem in1_real (pr : ℝ) : in1 pr = 0.1 * pr := by
  simp only [in1, OW.RR.Surm.sci]

/-- eqs. 18–22 over ℝ: F = x2·(R/x3)^3.5, R′ = max(0, R + Q9 + F), Qr = R′·(1 − (1 + (R′/x3)⁴)^(−1/4)),
Qd = max(0, Q1 + F), Q = Qr + Qd, new R = R′ − Qr -/
theorem routeDay_real (x2 x3 R q9 q1 : ℝ) :
    routeDay x2 x3 R (q9, q1) =
      (max 0 (R + q9 + x2 * (R / x3) ^ (3.5 : ℝ)) -
          max 0 (R + q9 + x2 * (R / x3) ^ (3.5 : ℝ)) *
            (1 - (1 + (max 0 (R + q9 + x2 * (R / x3) ^ (3.5 : ℝ)) / x3) ^ (4 : ℝ)) ^ (-(0.25 : ℝ))),
       ⟨max 0 (R + q9 + x2 * (R / x3) ^ (3.5 : ℝ)) *
            (1 - (1 + (max 0 (R + q9 + x2 * (R / x3) ^ (3.5 : ℝ)) / x3) ^ (4 : ℝ)) ^ (-(0.25 : ℝ))) +
          max 0 (q1 + x2 * (R / x3) ^ (3.5 : ℝ)),
        max 0 (R + q9 + x2 * (R / x3) ^ (3.5 : ℝ)) *
            (1 - (1 + (max 0 (R + q9 + x2 * (R / x3) ^ (3.5 : ℝ)) / x3) ^ (4 : ℝ)) ^ (-(0.25 : ℝ))),
        max 0 (q1 + x2 * (R / x3) ^ (3.5 : ℝ))⟩) := by
  simp only [routeDay, Spec.GR4J.F, Spec.GR4J.Qr, Spec.GR4J.pow4, Spec.GR4J.sq, RealNum.gmax_eq, RealNum.pow_eq,
    RealNum.ofNat_eq, OW.RR.Surm.sci]
  norm_num only
  simp only [rpow_four]

/-- the three pieces run separately: production recurrence → Pr series → the two unit-hydrograph runs →
routing recurrence; this IS `Spec.GR4J.run` -/
theorem run_decomp (tanhArg : ℝ → ℝ) (x1 x2 x3 x4 : ℝ) (xs : List (ℝ × ℝ)) :
    ∀ st : Spec.GR4J.State ℝ,
      Spec.GR4J.run tanhArg x1 x2 x3 x4 st xs =
        (⟨(scan (prodDay tanhArg x1) st.S xs).1,
          (scan (routeDay x2 x3) st.R
            ((uhRun (Spec.GR4J.UH1 x4) st.pend9 ((scan (prodDay tanhArg x1) st.S xs).2.map in9)).2.zip
             (uhRun (Spec.GR4J.UH2 x4) st.pend1 ((scan (prodDay tanhArg x1) st.S xs).2.map in1)).2)).1,
          (uhRun (Spec.GR4J.UH2 x4) st.pend1 ((scan (prodDay tanhArg x1) st.S xs).2.map in1)).1,
          (uhRun (Spec.GR4J.UH1 x4) st.pend9 ((scan (prodDay tanhArg x1) st.S xs).2.map in9)).1⟩,
         (scan (routeDay x2 x3) st.R
            ((uhRun (Spec.GR4J.UH1 x4) st.pend9 ((scan (prodDay tanhArg x1) st.S xs).2.map in9)).2.zip
             (uhRun (Spec.GR4J.UH2 x4) st.pend1 ((scan (prodDay tanhArg x1) st.S xs).2.map in1)).2)).2) := by
  induction xs with
  | nil => intro st; rfl
  | cons x xs ih =>
    intro st
    unfold Spec.GR4J.run at ih ⊢
    simp only [scan, ih, day_decomp, uhRun, List.map_cons, List.zip_cons_cons]

/-- the deliveries of a unit-hydrograph run as a list: day t gets pend[t] + (ord ∗ x)(t) -/
theorem uhRun_series (ord : ℕ → ℝ) (xs pend : List ℝ) (hord : ∀ k, pend.length < k → ord k = 0) :
    (uhRun ord pend xs).2 = (List.range xs.length).map (fun t => pend.getD t 0 + conv ord xs t) := by
  have hlen : (uhRun ord pend xs).2.length = xs.length := scan_length _ _ _
  apply List.ext_getElem
  · rw [hlen, List.length_map, List.length_range]
  · intro t h1 h2
    rw [hlen] at h1
    have := uhRun_convolution ord xs pend hord t h1
    rw [List.getD_eq_getElem?_getD, List.getElem?_eq_getElem (by rw [hlen]; exact h1), Option.getD_some] at this
    rw [this, List.getElem_map, List.getElem_range]

theorem getD_map_in9 (prs : List ℝ) (i : ℕ) : (prs.map in9).getD i 0 = 0.9 * prs.getD i 0 := by
  rw [List.getD_eq_getElem?_getD, List.getD_eq_getElem?_getD, List.getElem?_map]
  cases prs[i]? with
  | none => simp
  | some v => simp only [Option.map_some, Option.getD_some, in9_real]

theorem getD_map_in1 (prs : List ℝ) (i : ℕ) : (prs.map in1).getD i 0 = 0.1 * prs.getD i 0 := by
  rw [List.getD_eq_getElem?_getD, List.getD_eq_getElem?_getD, List.getElem?_map]
  cases prs[i]? with
  | none => simp
  | some v => simp only [Option.map_some, Option.getD_some, in1_real]

/-- Q9(t) of the paper for a run started with pending deliveries `pend9`: Σ_{i≤t} UH1(t−i+1)·0.9·Pr(i) + pend9[t] -/
noncomputable def Q9 (x4 : ℝ) (pend9 prs : List ℝ) (t : ℕ) : ℝ :=
  pend9.getD t 0 + ∑ i ∈ Finset.range (t + 1), Spec.GR4J.UH1 x4 (t - i + 1) * (0.9 * prs.getD i 0)

/-- Q1(t) of the paper: Σ_{i≤t} UH2(t−i+1)·0.1·Pr(i) + pend1[t] -/
noncomputable def Q1 (x4 : ℝ) (pend1 prs : List ℝ) (t : ℕ) : ℝ :=
  pend1.getD t 0 + ∑ i ∈ Finset.range (t + 1), Spec.GR4J.UH2 x4 (t - i + 1) * (0.1 * prs.getD i 0)

/-- **Closed form of a specification run.** With Pr(·) the series produced by the production-store recurrence,
the daily results (Q, Qr, Qd) of `Spec.GR4J.run` are those of the routing recurrence (eqs. 18–22) driven by the
convolutions Q9(t), Q1(t); the final production store is that of the production recurrence and the final routing
store that of the routing recurrence. -/
theorem run_closed_form (tanhArg : ℝ → ℝ) (x1 x2 x3 x4 : ℝ) (hx4 : 0 < x4) (st : Spec.GR4J.State ℝ)
    (h9 : st.pend9.length = ⌈x4⌉₊) (h1 : st.pend1.length = ⌈2 * x4⌉₊) (xs : List (ℝ × ℝ)) :
    (Spec.GR4J.run tanhArg x1 x2 x3 x4 st xs).2 =
      (scan (routeDay x2 x3) st.R ((List.range xs.length).map (fun t =>
        (Q9 x4 st.pend9 (scan (prodDay tanhArg x1) st.S xs).2 t,
         Q1 x4 st.pend1 (scan (prodDay tanhArg x1) st.S xs).2 t)))).2 ∧
    (Spec.GR4J.run tanhArg x1 x2 x3 x4 st xs).1.S = (scan (prodDay tanhArg x1) st.S xs).1 ∧
    (Spec.GR4J.run tanhArg x1 x2 x3 x4 st xs).1.R =
      (scan (routeDay x2 x3) st.R ((List.range xs.length).map (fun t =>
        (Q9 x4 st.pend9 (scan (prodDay tanhArg x1) st.S xs).2 t,
         Q1 x4 st.pend1 (scan (prodDay tanhArg x1) st.S xs).2 t)))).1 := by
  have hl : (scan (prodDay tanhArg x1) st.S xs).2.length = xs.length := scan_length _ _ _
  have e9 := uhRun_series (Spec.GR4J.UH1 x4) ((scan (prodDay tanhArg x1) st.S xs).2.map in9) st.pend9
    (fun k hk => UH1_beyond x4 hx4 k (h9 ▸ hk))
  have e1 := uhRun_series (Spec.GR4J.UH2 x4) ((scan (prodDay tanhArg x1) st.S xs).2.map in1) st.pend1
    (fun k hk => UH2_beyond x4 hx4 k (h1 ▸ hk))
  rw [List.length_map, hl] at e9 e1
  have hz : (uhRun (Spec.GR4J.UH1 x4) st.pend9 ((scan (prodDay tanhArg x1) st.S xs).2.map in9)).2.zip
      (uhRun (Spec.GR4J.UH2 x4) st.pend1 ((scan (prodDay tanhArg x1) st.S xs).2.map in1)).2 =
      (List.range xs.length).map (fun t =>
        (Q9 x4 st.pend9 (scan (prodDay tanhArg x1) st.S xs).2 t,
         Q1 x4 st.pend1 (scan (prodDay tanhArg x1) st.S xs).2 t)) := by
    rw [e9, e1, List.zip_map']
    apply List.map_congr_left
    intro t _
    simp only [Q9, Q1, conv, getD_map_in9, getD_map_in1]
  rw [run_decomp, hz]
  exact ⟨rfl, rfl, rfl⟩

end OW.RR.GR4J
