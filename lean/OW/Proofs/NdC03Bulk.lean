import OW.Proofs.NdC03Rel
/-!
Helper lemmas for C03 (bulk operations), continued: each bulk operation of `OW/Nd/Array.lean` on a related pair.
By the C02 theorems every bulk operation of EITHER back-end equals the same element-wise definition
(`getAll` / `setAll` over `rowMajor` or over a run), so on a related pair the reads agree (`RelW.getAll`) and the
writes are paired (`paired_setAll`).
-/
namespace OW.NdC03
open OW.Nd OW.NdC02
open OW.Props.C03 (Rel)

section
variable {α : Type}

/-! ### B1 `Unroll`, B2 `Maximum` / `Minimum` -/

theorem RelW.unroll {hg hc : Heap α} {g c : Arr} (r : RelW hg hc g c) :
    ∃ sg sc vals, Nd.unroll hg g = .ok sg ∧ Nd.unroll hc c = .ok sc ∧
      sliceVals hg sg = .ok vals ∧ sliceVals hc sc = .ok vals ∧
      NdC02.getAll hg g (rowMajor g.v.dims) = .ok vals ∧ NdC02.getAll hc c (rowMajor g.v.dims) = .ok vals ∧
      vals.length = g.v.size.toNat ∧
      (c.isC = true → sc = .fresh vals) ∧
      (g.isC = false → g.v.contiguous = .ok true → sg = .alias g.sid (g.base + g.v.start) g.v.size) ∧
      (g.isC = false → g.v.contiguous = .ok false → sg = .fresh vals) := by
  obtain ⟨sg, vg, hug, hsg, hvg, hlen, _, ha, hf, _⟩ := OW.Props.C02.unroll_spec hg g r.reach r.okG
  obtain ⟨sc, vc, huc, hsc, hvc, _, _, _, _, hcf⟩ := OW.Props.C02.unroll_spec hc c r.reachC r.okC
  obtain ⟨vals, h1, h2, _⟩ := r.elems
  rw [h1] at hvg
  injection hvg with e1
  subst e1
  rw [h2] at hvc
  injection hvc with e2
  subst e2
  refine ⟨sg, sc, vals, hug, huc, hsg, hsc, h1, ?_, hlen, hcf, ha, hf⟩
  rw [r.view]; exact h2

theorem RelW.extremum {hg hc : Heap α} {g c : Arr} (r : RelW hg hc g c) (better : α → α → Bool) :
    ∃ v0 rest, NdC02.getAll hg g (rowMajor g.v.dims) = .ok (v0 :: rest) ∧
      NdC02.getAll hc c (rowMajor g.v.dims) = .ok (v0 :: rest) ∧
      Nd.extremum better hg g = .ok ((v0 :: rest).foldl (fun res v => if better v res then v else res) v0) ∧
      Nd.extremum better hc c = .ok ((v0 :: rest).foldl (fun res v => if better v res then v else res) v0) := by
  obtain ⟨v0, rest, hv, he⟩ := OW.Props.C02.extremum_spec better hg g r.reach r.okG
  obtain ⟨v0', rest', hv', he'⟩ := OW.Props.C02.extremum_spec better hc c r.reachC r.okC
  obtain ⟨vals, h1, h2, _⟩ := r.elems
  rw [h1] at hv
  injection hv with e1
  subst e1
  rw [h2] at hv'
  injection hv' with e2
  rw [← e2] at he'
  refine ⟨v0, rest, h1, ?_, he, ?_⟩
  · rw [r.view]; exact h2
  · injection e2 with e3 e4
    subst e3
    exact he'

/-! ### B3 `Apply` -/

/-- the indices of an in-bounds run (`SliceOK` of the slice `Apply` takes) are in bounds -/
theorem runIdxs_inBounds {a : Arr} {loc : Idx} {dim step start : Int} {n : Nat}
    (h0 : 0 ≤ dim) (h1 : dim < a.v.dims.length) (hl : loc[dim.toNat]? = some start)
    (hok : SliceOK a.v.dims loc (applyDims a dim n) (applySteps a dim step)) :
    ∀ (k i0 : Nat), i0 + k ≤ n → ∀ i ∈ runIdxs loc dim.toNat start step (i0 : Int) k, InBounds i a.v.dims
  | 0, _, _ => by intro i hi; simp [runIdxs] at hi
  | k + 1, i0, hk => by
    have hdn : dim.toNat < a.v.dims.length := by omega
    have hll : loc.length = a.v.dims.length := hok.lengths.1
    have hi0 : (0 : Int) ≤ (i0 : Int) := by omega
    have hi1 : (i0 : Int) < ((n : Nat) : Int) := by omega
    have hun : unravel (i0 : Int) (applyDims a dim n) = (uniform a.v.dims.length 0).set dim.toNat (i0 : Int) :=
      unravel_unit _ _ _ _ hdn hi0 hi1
    have haff : affine loc (unravel (i0 : Int) (applyDims a dim n)) (applySteps a dim step) =
        loc.set dim.toNat (start + (i0 : Int) * step) := by
      rw [hun]
      have := affine_unit loc dim.toNat start (i0 : Int) step hl
      rw [hll] at this
      exact this
    have hpd : Pos (applyDims a dim n) := hok.pos.2.1
    have hprod : product (applyDims a dim n) = (n : Int) := product_unit _ _ _ hdn
    have hib : InBounds (unravel (i0 : Int) (applyDims a dim n)) (applyDims a dim n) :=
      NdC02.unravel_inBounds hpd hi0 (by rw [hprod]; exact hi1)
    intro i hi
    simp only [runIdxs, List.mem_cons] at hi
    rcases hi with rfl | hi
    · rw [← haff]; exact hok.inBounds hib
    · have e : ((i0 : Int) + 1) = ((i0 + 1 : Nat) : Int) := by omega
      rw [e] at hi
      exact runIdxs_inBounds h0 h1 hl hok k (i0 + 1) (by omega) i hi

/-- `Apply` of an in-bounds run on a reachable, well-windowed array of EITHER back-end is the element loop -/
theorem apply_eq_setAll {h : Heap α} {a : Arr} (hr : Reach a.v) (ok : ArrOK h a)
    {loc : Idx} {dim step : Int} {vals : List α} (h0 : 0 ≤ dim) (h1 : dim < a.v.dims.length)
    (hok : SliceOK a.v.dims loc (applyDims a dim vals.length) (applySteps a dim step)) :
    ∃ start, loc[dim.toNat]? = some start ∧
      Nd.apply h a loc dim step vals = NdC02.setAll h a (runIdxs loc dim.toNat start step 0 vals.length) vals := by
  have hll : loc.length = a.v.dims.length := hok.lengths.1
  cases hC : a.isC with
  | true =>
    have hl : loc[dim.toNat]? = some loc[dim.toNat] := List.getElem?_eq_getElem (by omega)
    exact ⟨_, hl, apply_c_spec hC h0 h1 hl⟩
  | false =>
    obtain ⟨start, _, hl, _, _, _, hall, _⟩ := apply_go_spec (h := h) (vals := vals) (reach_geo hr) ok hC h0 h1 hok
    exact ⟨start, hl, hall⟩

theorem RelW.apply {hg hc : Heap α} {g c : Arr} (r : RelW hg hc g c) {loc : Idx} {dim step : Int} {vals : List α}
    (h0 : 0 ≤ dim) (h1 : dim < g.v.dims.length)
    (hok : SliceOK g.v.dims loc (applyDims g dim vals.length) (applySteps g dim step)) :
    ∃ hg' hc', Nd.apply hg g loc dim step vals = .ok hg' ∧ Nd.apply hc c loc dim step vals = .ok hc' ∧
      Paired (winOf g c) hg hc hg' hc' := by
  have h1c : dim < c.v.dims.length := by rw [← r.view]; exact h1
  have hokc : SliceOK c.v.dims loc (applyDims c dim vals.length) (applySteps c dim step) := by
    have e1 : applyDims c dim vals.length = applyDims g dim vals.length := by simp only [applyDims, r.view]
    have e2 : applySteps c dim step = applySteps g dim step := by simp only [applySteps, r.view]
    rw [e1, e2, ← r.view]; exact hok
  obtain ⟨start, hl, hag⟩ := apply_eq_setAll r.reach r.okG h0 h1 hok
  obtain ⟨start', hl', hac⟩ := apply_eq_setAll r.reachC r.okC h0 h1c hokc
  rw [hl] at hl'
  injection hl' with e
  subst e
  have hib := runIdxs_inBounds h0 h1 hl hok vals.length 0 (by omega)
  obtain ⟨hg', hc', e1, e2, pw⟩ := r.setAll (runIdxs loc dim.toNat start step ((0 : Nat) : Int) vals.length) vals hib
  exact ⟨hg', hc', by rw [hag]; exact e1, by rw [hac]; exact e2, pw⟩

/-! ### B4 `ApplySlice` / `CopyFrom` -/

theorem RelW.applySlice {hg hc : Heap α} {gd cd gs cs : Arr} (rd : RelW hg hc gd cd) (rs : RelW hg hc gs cs)
    (hsidG : gs.sid ≠ gd.sid) (hsidC : cs.sid ≠ cd.sid) {loc : Idx} {step : Option Idx}
    (okS : SliceOK gd.v.dims loc gs.v.dims (stepOr gd.v.dims.length step)) :
    ∃ hg' hc', Nd.applySlice hg gd loc step gs = .ok hg' ∧ Nd.applySlice hc cd loc step cs = .ok hc' ∧
      Paired (winOf gd cd) hg hc hg' hc' := by
  have okSc : SliceOK cd.v.dims loc cs.v.dims (stepOr cd.v.dims.length step) := by
    rw [← rd.view, ← rs.view]; exact okS
  obtain ⟨slg, vg, hg', hslg, _, _, hvg, hag, _, hsg, _⟩ :=
    OW.Props.C02.applySlice_paths_agree hg gd gs rd.reach rd.okG rs.reach rs.okG hsidG loc step okS
  obtain ⟨slc, vc, hc', hslc, _, _, hvc, hac, _, hsc, _⟩ :=
    OW.Props.C02.applySlice_paths_agree hc cd cs rd.reachC rd.okC rs.reachC rs.okC hsidC loc step okSc
  obtain ⟨vals, e1, e2, _⟩ := rs.elems
  rw [e1] at hvg
  injection hvg with e
  subst e
  rw [e2] at hvc
  injection hvc with e
  subst e
  obtain ⟨g', c', hsl, hsl', r', eg, ec, hd', _⟩ := rd.slice okS
  rw [hslg] at hsl
  injection hsl with e
  subst e
  rw [rs.view, hslc] at hsl'
  injection hsl' with e
  subst e
  have hib : ∀ i ∈ rowMajor gs.v.dims, InBounds i slg.v.dims := by
    rw [hd']; exact rowMajor_inBounds (reach_geo rs.reach).pos_dims
  obtain ⟨hg'', hc'', s1, s2, pw⟩ := r'.setAll (rowMajor gs.v.dims) vals hib
  rw [hsg] at s1
  injection s1 with e
  subst e
  rw [rs.view, hsc] at s2
  injection s2 with e
  subst e
  have hw : winOf slg slc = winOf gd cd := by
    rw [eg, ec]; rfl
  rw [hw] at pw
  exact ⟨_, _, hag, hac, pw⟩

theorem RelW.copyFrom {hg hc : Heap α} {gd cd gs cs : Arr} (rd : RelW hg hc gd cd) (rs : RelW hg hc gs cs)
    (hsidG : gs.sid ≠ gd.sid) (hsidC : cs.sid ≠ cd.sid) (hshape : gs.v.dims = gd.v.dims) :
    ∃ hg' hc', Nd.copyFrom hg gd gs = .ok hg' ∧ Nd.copyFrom hc cd cs = .ok hc' ∧
      Paired (winOf gd cd) hg hc hg' hc' := by
  have okS : SliceOK gd.v.dims (gd.v.newIndex 0) gs.v.dims (stepOr gd.v.dims.length none) := by
    rw [hshape]; exact sliceOK_zero_ones gd.v.dims (reach_geo rd.reach).pos_dims
  obtain ⟨hg', hc', e1, e2, pw⟩ := RelW.applySlice rd rs hsidG hsidC okS
  refine ⟨hg', hc', e1, ?_, pw⟩
  have : cd.v.newIndex 0 = gd.v.newIndex 0 := by rw [rd.view]
  unfold Nd.copyFrom
  rw [this]; exact e2

/-! ### B5 `zipWithInto` -/

theorem RelW.zipWithInto {hg hc : Heap α} {gd cd gs cs : Arr} (rd : RelW hg hc gd cd) (rs : RelW hg hc gs cs)
    (f : α → α → α) (hsidG : gd.sid ≠ gs.sid) (hsidC : cd.sid ≠ cs.sid) (hdims : gs.v.dims = gd.v.dims) :
    ∃ hg' hc' dv sv, Nd.zipWithInto f hg gd gs = .ok hg' ∧ Nd.zipWithInto f hc cd cs = .ok hc' ∧
      NdC02.getAll hg gd (rowMajor gd.v.dims) = .ok dv ∧ NdC02.getAll hg gs (rowMajor gd.v.dims) = .ok sv ∧
      NdC02.setAll hg gd (rowMajor gd.v.dims) (List.zipWith f dv sv) = .ok hg' ∧
      NdC02.setAll hc cd (rowMajor gd.v.dims) (List.zipWith f dv sv) = .ok hc' ∧
      Paired (winOf gd cd) hg hc hg' hc' := by
  have hdimsC : cs.v.dims = cd.v.dims := by rw [← rs.view, ← rd.view]; exact hdims
  obtain ⟨dv, sv, hg', hdv, hsv, hz, hset, _⟩ :=
    OW.Props.C02.zipWithInto_spec f hg gd gs rd.reach rs.reach rd.okG rs.okG hdims hsidG
  obtain ⟨dv', sv', hc', hdv', hsv', hz', hset', _⟩ :=
    OW.Props.C02.zipWithInto_spec f hc cd cs rd.reachC rs.reachC rd.okC rs.okC hdimsC hsidC
  obtain ⟨d0, e1, e2, _⟩ := rd.elems
  obtain ⟨s0, e3, e4, _⟩ := rs.elems
  rw [e1] at hdv
  injection hdv with e
  subst e
  rw [e2] at hdv'
  injection hdv' with e
  subst e
  rw [← hdims, e3] at hsv
  injection hsv with e
  subst e
  rw [← hdimsC, e4] at hsv'
  injection hsv' with e
  subst e
  rw [← rd.view] at hset'
  have hib : ∀ i ∈ rowMajor gd.v.dims, InBounds i gd.v.dims := rowMajor_inBounds (reach_geo rd.reach).pos_dims
  obtain ⟨hg'', hc'', s1, s2, pw⟩ := rd.setAll (rowMajor gd.v.dims) (List.zipWith f d0 s0) hib
  rw [hset] at s1
  injection s1 with e
  subst e
  rw [hset'] at s2
  injection s2 with e
  subst e
  refine ⟨_, _, d0, s0, hz, hz', e1, ?_, hset, hset', pw⟩
  rw [← hdims]; exact e3

end
end OW.NdC03
