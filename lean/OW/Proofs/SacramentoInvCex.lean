import OW.Proofs.SacramentoInvRun
/-!
C10 for Sacramento, part 5 — concrete evaluations of the kernel zones used by the counter-examples of
OW/Props/C10Sacramento.lean (each zone evaluated on numerals by `unfold; sacnum; norm_num`).
`pA`: a parameter set within `ParamsOk` for which a PET above `lztwm·(uztwm+uzfwm)/uzfwm` makes e5 negative.
`pB`: `lztwm = 0.1 mm` (below the 5 mm of `ParamsOk`), for which one rain increment drives the ADIMP store negative.
-/
namespace OW.RR.Sac
open OW OW.Kernels


noncomputable def pA : Sacramento.Params ℝ :=
  ⟨0, 0, 0, 20, 60, 10, 25, 60, 0.06, 1, 40, 0, 0, 0, 0.96, 0, 0.3, 1, 0, 0, 0, 0⟩

theorem pA_ok : ParamsOk pA := by constructor <;> norm_num [pA]

theorem rowA_ok : RowInv pA 2 6 0 0 0 0 := by constructor <;> norm_num [pA]

theorem channel_e4_zero (p : Sacramento.Params ℝ) (c : Sacramento.Consts ℝ) (qq : List ℝ) (E : ℝ)
    (v2 : Sacramento.Inner ℝ) (h : p.sarva = 0) : (Sacramento.channel p c qq E v2).e4 = 0 := by
  unfold Sacramento.channel
  simp only []
  sacnum
  rw [h, mul_zero]
  exact min_eq_left (le_max_left _ _)

theorem A_e1b : e1bOf pA 2 20 = 2 := by
  unfold e1bOf e1aOf; sacnum; norm_num [pA]
theorem A_e2a : e2aOf pA 2 6 20 = 0 := by
  unfold e2aOf e1bOf e1aOf; sacnum; norm_num [pA]
theorem A_u1 : uztwc1Of pA 2 20 = 0 := by
  unfold uztwc1Of e1aOf; sacnum; norm_num [pA]
theorem A_f1 : uzfwc1Of pA 2 6 20 = 6 := by
  unfold uzfwc1Of e2aOf e1bOf e1aOf; sacnum; norm_num [pA]
theorem A_u2 : uztwc2Of pA 0 6 = 3 / 2 := by
  unfold uztwc2Of a1Of b1Of; sacnum; norm_num [pA]
theorem A_e3a : e3aOf pA 20 2 0 0 = 0 := by
  unfold e3aOf; sacnum; norm_num [pA]
theorem A_e5a : e5aOf pA 20 2 0 0 (3 / 2) = -(1 / 10) := by
  unfold e5aOf; sacnum; norm_num [pA]


noncomputable def pB : Sacramento.Params ℝ :=
  ⟨0, 0, 0, 1, 40, 1 / 10, 25, 60, 0, 1, 0, 0, 0, 0, 1 / 2, 0, 0, 1, 0, 0, 0, 0⟩

theorem B_e1b : e1bOf pB 1 0 = 0 := by unfold e1bOf e1aOf; sacnum; norm_num [pB]
theorem B_e2a : e2aOf pB 1 0 0 = 0 := by unfold e2aOf e1bOf e1aOf; sacnum; norm_num [pB]
theorem B_u1 : uztwc1Of pB 1 0 = 1 := by unfold uztwc1Of e1aOf; sacnum; norm_num [pB]
theorem B_f1 : uzfwc1Of pB 1 0 0 = 0 := by unfold uzfwc1Of e2aOf e1bOf e1aOf; sacnum; norm_num [pB]
theorem B_u2 : uztwc2Of pB 1 0 = 1 := by unfold uztwc2Of a1Of b1Of; sacnum; norm_num [pB]
theorem B_f2 : uzfwc2Of pB 1 0 = 0 := by unfold uzfwc2Of a1Of b1Of; sacnum; norm_num [pB]
theorem B_e5a : e5aOf pB 0 0 0 (9 / 8) 1 = 0 := by unfold e5aOf; sacnum; norm_num [pB]
theorem B_ad2 : adimc2Of pB 4 1 (9 / 8 - 0) = 9 / 8 := by unfold adimc2Of pav0Of; sacnum; norm_num [pB]
theorem B_u3 : uztwc3Of pB 4 1 = 1 := by unfold uztwc3Of pav0Of; sacnum; norm_num [pB]
theorem B_pav : pavOf pB 4 1 = 4 := by unfold pavOf pav0Of; sacnum; norm_num [pB]
theorem B_adj : adjOf (4 : ℝ) = 1 := by unfold adjOf; sacnum; rw [sci508]; norm_num
theorem B_ninc : nincOf (1 : ℝ) 4 0 = 1 := by
  unfold nincOf; rw [toInt_floor]; sacnum; rw [sci02]; norm_num
theorem B_addro : addroOf pB 1 4 (9 / 8) 0 = 25 / 4 := by
  unfold addroOf ratioOf pavIOf; sacnum; norm_num [pB]


theorem B_pinc : @HMul.hMul ℝ ℝ ℝ (@instHMul ℝ Num.toMul) 4
    (@HDiv.hDiv ℝ ℝ ℝ (@instHDiv ℝ Num.toDiv) (1.0 : ℝ) (Num.ofInt (1 : ℤ))) = 4 := by
  rw [N_ofInt]; sacnum; norm_num


/-- the values of the counter-example with `pA` (see OW/Props/C10Sacramento.lean) -/
theorem cexA_values :
    ParamsOk pA ∧ RowInv pA 2 6 0 0 0 0 ∧ InOk pA (0, 20) ∧ ¬ PetOk pA 20 ∧
    (Sacramento.step pA (Sacramento.consts pA) (stateOfRow pA 2 6 0 0 0 0) (0, 20)).2.e5 = -(12 / 125) ∧
    (Sacramento.step pA (Sacramento.consts pA) (stateOfRow pA 2 6 0 0 0 0) (0, 20)).2.actualET = -(2 / 125) := by
  have he1 : (preOf pA (Sacramento.consts pA) (stateOfRow pA 2 6 0 0 0 0) (0, 20)).e1b = 2 := A_e1b
  have he2 : (preOf pA (Sacramento.consts pA) (stateOfRow pA 2 6 0 0 0 0) (0, 20)).e2a = 0 := A_e2a
  have he3 : (preOf pA (Sacramento.consts pA) (stateOfRow pA 2 6 0 0 0 0) (0, 20)).e3a = 0 := by
    show e3aOf pA 20 (e1bOf pA 2 20) (e2aOf pA 2 6 20) 0 = 0
    rw [A_e1b, A_e2a, A_e3a]
  have he5 : (preOf pA (Sacramento.consts pA) (stateOfRow pA 2 6 0 0 0 0) (0, 20)).e5a = -(1 / 10) := by
    show e5aOf pA 20 (e1bOf pA 2 20) (e2aOf pA 2 6 20) 0
      (uztwc2Of pA (uztwc1Of pA 2 20) (uzfwc1Of pA 2 6 20)) = -(1 / 10)
    rw [A_e1b, A_e2a, A_u1, A_f1, A_u2, A_e5a]
  have he4 : (chOf pA (Sacramento.consts pA) (stateOfRow pA 2 6 0 0 0 0) (0, 20)).e4 = 0 :=
    channel_e4_zero _ _ _ _ _ rfl
  refine ⟨pA_ok, rowA_ok, by norm_num [InOk, pA], by norm_num [PetOk, pA], ?_, ?_⟩
  · rw [step_e5, he5]; sacnum; norm_num [pA]
  · rw [OW.RR.Sacramento.step_aet_parts, step_e1, step_e2, step_e3, step_e4, step_e5, he1, he2, he3, he4, he5]
    sacnum; norm_num [pA]

/-- the values of the counter-example with `pB` (see OW/Props/C10Sacramento.lean) -/
theorem cexB_values :
    ParamsOk { pB with lztwm := 5 } ∧ pB.lztwm = 1 / 10 ∧ RowInv pB 1 0 0 0 0 (9 / 8) ∧ InOkPet pB (4, 0) ∧
    (Sacramento.step pB (Sacramento.consts pB) (stateOfRow pB 1 0 0 0 0 (9 / 8)) (4, 0)).1.adimc = -(9 / 8) := by
  refine ⟨by constructor <;> norm_num [pB], rfl, by constructor <;> norm_num [pB],
    by norm_num [InOkPet, InOk, PetOk, pB], ?_⟩
  have hu3 : (preOf pB (Sacramento.consts pB) (stateOfRow pB 1 0 0 0 0 (9 / 8)) (4, 0)).uztwc3 = 1 := by
    show uztwc3Of pB 4 (uztwc2Of pB (uztwc1Of pB 1 0) (uzfwc1Of pB 1 0 0)) = 1
    rw [B_u1, B_f1, B_u2, B_u3]
  have hpav : (preOf pB (Sacramento.consts pB) (stateOfRow pB 1 0 0 0 0 (9 / 8)) (4, 0)).pav = 4 := by
    show pavOf pB 4 (uztwc2Of pB (uztwc1Of pB 1 0) (uzfwc1Of pB 1 0 0)) = 4
    rw [B_u1, B_f1, B_u2, B_pav]
  have hf2 : (v0Of pB (Sacramento.consts pB) (stateOfRow pB 1 0 0 0 0 (9 / 8)) (4, 0)).uzfwc = 0 := by
    show uzfwc2Of pB (uztwc1Of pB 1 0) (uzfwc1Of pB 1 0 0) = 0
    rw [B_u1, B_f1, B_f2]
  have had : (v0Of pB (Sacramento.consts pB) (stateOfRow pB 1 0 0 0 0 (9 / 8)) (4, 0)).adimc = 9 / 8 := by
    show adimc2Of pB 4 (uztwc2Of pB (uztwc1Of pB 1 0) (uzfwc1Of pB 1 0 0))
      (9 / 8 - e5aOf pB 0 (e1bOf pB 1 0) (e2aOf pB 1 0 0) (9 / 8)
        (uztwc2Of pB (uztwc1Of pB 1 0) (uzfwc1Of pB 1 0 0))) = 9 / 8
    rw [B_u1, B_f1, B_u2, B_e1b, B_e2a, B_e5a, B_ad2]
  rw [step_adimc]
  unfold v2Of
  rw [hu3, hpav]
  generalize v0Of pB (Sacramento.consts pB) (stateOfRow pB 1 0 0 0 0 (9 / 8)) (4, 0) = v0 at hf2 had ⊢
  unfold loopsOf
  have hle : @LE.le ℝ Num.toLE (4 : ℝ) 5.08 := by sacnum; rw [sci508]; norm_num
  rw [if_pos hle, iiBody_eq, B_adj, hf2, B_ninc]
  show (Sacramento.incBody pB (Sacramento.consts pB) 1 _ _ _ _ _ _ (iiTags 1 1 v0)).adimc = _
  rw [incBody_adimc, B_pinc]
  have huz : (uzOf pB (Sacramento.consts pB)
      (@HMul.hMul ℝ ℝ ℝ (@instHMul ℝ Num.toMul)
        (@HDiv.hDiv ℝ ℝ ℝ (@instHDiv ℝ Num.toDiv) (1.0 : ℝ) (Num.ofInt (1 : ℤ))) 1)
      (rateOf 1 1 pB.uzk (@HMul.hMul ℝ ℝ ℝ (@instHMul ℝ Num.toMul)
        (@HDiv.hDiv ℝ ℝ ℝ (@instHDiv ℝ Num.toDiv) (1.0 : ℝ) (Num.ofInt (1 : ℤ))) 1))
      (rateOf 1 1 pB.lzpk (@HMul.hMul ℝ ℝ ℝ (@instHMul ℝ Num.toMul)
        (@HDiv.hDiv ℝ ℝ ℝ (@instHDiv ℝ Num.toDiv) (1.0 : ℝ) (Num.ofInt (1 : ℤ))) 1))
      (rateOf 1 1 pB.lzsk (@HMul.hMul ℝ ℝ ℝ (@instHMul ℝ Num.toMul)
        (@HDiv.hDiv ℝ ℝ ℝ (@instHDiv ℝ Num.toDiv) (1.0 : ℝ) (Num.ofInt (1 : ℤ))) 1))
      (hplOf (Sacramento.consts pB)) (iiTags 1 1 v0)).1 = 0 := by
    unfold uzOf uzPart
    have h0 : ¬ @LT.lt ℝ Num.toLT (0.0 : ℝ) (iiTags (1 : ℝ) 1 v0).uzfwc := by
      show ¬ @LT.lt ℝ Num.toLT (0.0 : ℝ) v0.uzfwc
      rw [hf2]; sacnum; norm_num
    rw [if_neg h0]
    exact hf2
  rw [huz]
  show @HSub.hSub ℝ ℝ ℝ (@instHSub ℝ Num.toSub) (@HAdd.hAdd ℝ ℝ ℝ (@instHAdd ℝ Num.toAdd) v0.adimc 4)
    (addroOf pB 1 4 v0.adimc 0) = _
  rw [had, B_addro]
  sacnum; norm_num

end OW.RR.Sac
