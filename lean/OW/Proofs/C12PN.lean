import OW.Proofs.C12Scan
import OW.Kernels.InstreamParticulateNutrient
import Mathlib.Tactic.NormNum
import Mathlib.Tactic.LinearCombination
/-!
C12 helpers: `instreamParticulateNutrient` over ℝ.
-/
namespace OW.C12
open OW OW.Kernels
open InstreamParticulateNutrient (In)

theorem pn_forDeposition_bounds (s u l ls : ℝ) :
    0 ≤ InstreamParticulateNutrient.forDeposition s u l ls ∧
    (0 ≤ s → 0 ≤ u → 0 ≤ l → InstreamParticulateNutrient.forDeposition s u l ls ≤ s + u + l) := by
  unfold InstreamParticulateNutrient.forDeposition
  simp only []
  split_ifs with h1 h2 h3 <;> realnum <;>
    (have h0 : ((0.0 : ℝ)) = 0 := by norm_num) <;> rw [h0] at * <;>
    constructor <;> (try intro a b c) <;> linarith

/-- the bed-exchange block: the channel store moves by exactly the exchanged mass; the exchange never exceeds what is
left after floodplain deposition -/
theorem pn_bedExchange_facts (sig fd fp cs : ℝ) :
    (InstreamParticulateNutrient.bedExchange sig fd fp cs).2 =
      cs + (InstreamParticulateNutrient.bedExchange sig fd fp cs).1 ∧
    (0 ≤ fd → fp ≤ fd → (InstreamParticulateNutrient.bedExchange sig fd fp cs).1 ≤ fd - fp) := by
  unfold InstreamParticulateNutrient.bedExchange
  simp only []
  split_ifs with h
  · realnum
    exact ⟨trivial, fun _ _ => min_le_right _ _⟩
  · realnum
    refine ⟨by ring, fun a b => ?_⟩
    have hs : sig < 0 := not_le.mp h
    have : sig * fd ≤ 0 := mul_nonpos_of_nonpos_of_nonneg (le_of_lt hs) a
    linarith

/-- one step; `dt ≠ 0` is the divisor of `loadToFloodplain = deposited/Δt`; the concentration divisor is ≥ 0.01 on the
branch that divides; `soilPercentFine/100` divides by a literal. -/
theorem pn_step (pnc spf dt s cs : ℝ) (i : In ℝ) (hdt : dt ≠ 0) :
    s + cs + (i.incomingMassUpstream * dt + i.incomingMassLateral * dt +
        (InstreamParticulateNutrient.step pnc spf dt (s, cs) i).2.loadFromStreambank * dt) =
      (InstreamParticulateNutrient.step pnc spf dt (s, cs) i).1.1 +
      (InstreamParticulateNutrient.step pnc spf dt (s, cs) i).1.2 +
      ((InstreamParticulateNutrient.step pnc spf dt (s, cs) i).2.loadDownstream * dt +
       (InstreamParticulateNutrient.step pnc spf dt (s, cs) i).2.loadToFloodplain * dt +
       (InstreamParticulateNutrient.step pnc spf dt (s, cs) i).2.flushed) ∧
    (InstreamParticulateNutrient.step pnc spf dt (s, cs) i).1.2 =
      cs + (InstreamParticulateNutrient.step pnc spf dt (s, cs) i).2.bedExchange ∧
    (InstreamParticulateNutrient.step pnc spf dt (s, cs) i).2.loadFromStreambank = i.streamBankErosion * pnc ∧
    ((InstreamParticulateNutrient.step pnc spf dt (s, cs) i).2.flushed ≠ 0 → i.outflow * dt + i.reachVolume < 0.01) ∧
    (¬ i.outflow * dt + i.reachVolume < 0.01 →
      (InstreamParticulateNutrient.step pnc spf dt (s, cs) i).2.loadDeposited =
      (InstreamParticulateNutrient.step pnc spf dt (s, cs) i).2.bedExchange) ∧
    (0 < dt → 0 ≤ pnc → 0 ≤ spf → spf ≤ 100 → 0 ≤ s → 0 ≤ i.incomingMassUpstream → 0 ≤ i.incomingMassLateral →
      0 ≤ i.streamBankErosion → 0 ≤ i.outflow → 0 ≤ i.reachVolume →
      0 ≤ (InstreamParticulateNutrient.step pnc spf dt (s, cs) i).1.1 ∧
      0 ≤ (InstreamParticulateNutrient.step pnc spf dt (s, cs) i).2.loadDownstream ∧
      0 ≤ (InstreamParticulateNutrient.step pnc spf dt (s, cs) i).2.loadToFloodplain ∧
      0 ≤ (InstreamParticulateNutrient.step pnc spf dt (s, cs) i).2.loadFromStreambank ∧
      0 ≤ (InstreamParticulateNutrient.step pnc spf dt (s, cs) i).2.flushed) := by
  obtain ⟨up, lat, vol, q, sbe, ls, fdf, cdf⟩ := i
  obtain ⟨fd0nn, fd0le⟩ := pn_forDeposition_bounds s (up * dt) (lat * dt) ls
  unfold InstreamParticulateNutrient.step
  simp only []
  realnum
  generalize InstreamParticulateNutrient.forDeposition s (up * dt) (lat * dt) ls = fd0 at fd0nn fd0le ⊢
  have h0 : ((0.0 : ℝ)) = 0 := by norm_num
  have h1 : ((1.0 : ℝ)) = 1 := by norm_num
  rw [h0, h1]
  generalize hfpf : min (max fdf 0) 1 = fpf
  have hfpf0 : 0 ≤ fpf := by rw [← hfpf]; exact le_min (le_max_right _ _) (by norm_num)
  have hfpf1 : fpf ≤ 1 := by rw [← hfpf]; exact min_le_right _ _
  generalize hfd : fd0 + sbe * pnc * dt * (spf / 100) = fd
  obtain ⟨be2, bele⟩ := pn_bedExchange_facts cdf fd (fpf * fd) cs
  generalize InstreamParticulateNutrient.bedExchange cdf fd (fpf * fd) cs = be at be2 bele ⊢
  obtain ⟨bex, csn⟩ := be
  simp only [] at be2 bele ⊢
  have hfp : fpf * fd / dt * dt = fpf * fd := div_mul_cancel₀ _ hdt
  -- non-negativity of what is left, under the range hypotheses
  have hleft : 0 < dt → 0 ≤ pnc → 0 ≤ spf → spf ≤ 100 → 0 ≤ s → 0 ≤ up → 0 ≤ lat → 0 ≤ sbe →
      0 ≤ fpf * fd ∧ 0 ≤ sbe * pnc ∧ 0 ≤ s + up * dt + lat * dt + sbe * pnc * dt - (fpf * fd + bex) := by
    intro a b c d e f g h
    have hup := mul_nonneg f (le_of_lt a)
    have hlat := mul_nonneg g (le_of_lt a)
    have hsb : 0 ≤ sbe * pnc := mul_nonneg h b
    have hsbdt : 0 ≤ sbe * pnc * dt := mul_nonneg hsb (le_of_lt a)
    have hfrac0 : 0 ≤ spf / 100 := div_nonneg c (by norm_num)
    have hfrac1 : spf / 100 ≤ 1 := by rw [div_le_one (by norm_num)]; exact d
    have hfdnn : 0 ≤ fd := by rw [← hfd]; exact add_nonneg fd0nn (mul_nonneg hsbdt hfrac0)
    have hfdle : fd ≤ s + up * dt + lat * dt + sbe * pnc * dt := by
      rw [← hfd]
      have := fd0le e hup hlat
      have : sbe * pnc * dt * (spf / 100) ≤ sbe * pnc * dt := by
        calc sbe * pnc * dt * (spf / 100) ≤ sbe * pnc * dt * 1 := mul_le_mul_of_nonneg_left hfrac1 hsbdt
          _ = sbe * pnc * dt := mul_one _
      linarith
    have hfpnn : 0 ≤ fpf * fd := mul_nonneg hfpf0 hfdnn
    have hfple : fpf * fd ≤ fd := by
      calc fpf * fd ≤ 1 * fd := mul_le_mul_of_nonneg_right hfpf1 hfdnn
        _ = fd := one_mul _
    have := bele hfdnn hfple
    exact ⟨hfpnn, hsb, by linarith⟩
  split_ifs with hlow
  · simp only [LumpedConstituent.minimumVolume] at hlow
    realnum
    refine ⟨?_, be2, trivial, fun _ => hlow, fun hn => absurd hlow hn, ?_⟩
    · rw [hfp, be2]; ring
    · intro a b c d e f g h _ _
      obtain ⟨n1, n2, n3⟩ := hleft a b c d e f g h
      exact ⟨le_refl _, le_refl _, div_nonneg n1 (le_of_lt a), n2, n3⟩
  · simp only [LumpedConstituent.minimumVolume] at hlow
    realnum
    have hwv : (0:ℝ) < q * dt + vol := by
      have : (0.01:ℝ) ≤ q * dt + vol := not_lt.mp hlow
      norm_num at this; linarith
    have hne : q * dt + vol ≠ 0 := ne_of_gt hwv
    generalize hc : (s + up * dt + lat * dt + sbe * pnc * dt - (fpf * fd + bex)) / (q * dt + vol) = conc
    have key : conc * (q * dt + vol) = s + up * dt + lat * dt + sbe * pnc * dt - (fpf * fd + bex) := by
      rw [← hc]; exact div_mul_cancel₀ _ hne
    refine ⟨?_, be2, trivial, fun hf => absurd rfl hf, fun _ => trivial, ?_⟩
    · rw [hfp, be2]; linear_combination (-1 : ℝ) * key
    · intro a b c d e f g h hq hvol
      obtain ⟨n1, n2, n3⟩ := hleft a b c d e f g h
      have hconc : 0 ≤ conc := by rw [← hc]; exact div_nonneg n3 (le_of_lt hwv)
      exact ⟨mul_nonneg hconc hvol, mul_nonneg hconc hq, div_nonneg n1 (le_of_lt a), n2, le_refl _⟩

end OW.C12
