import OW.Proofs.SacramentoMid
/-! SacramentoMid, continued: the loop over `ii`, the channel stage and the whole step of the copy = `Sacramento.step` -/
namespace OW.Kernels.SacramentoMid
open OW OW.Gen.Prelude OW.Kernels

/-! ### the two passes of the loop over `ii`, the channel stage, and the whole step -/

theorem mid_iiLoop2 {α} [Num α] (p : Sacramento.Params α) (c : Sacramento.Consts α) (uztwc hpl adj pav duz0 : α)
    (v : Sacramento.Inner α) :
    ∃ duz', forRange 2 (2 + 1) (loopBody2 uztwc p.lzpk p.lzsk p.uzk p.uzfwm p.lztwm p.pfree p.rexp p.zperc p.adimp c.alzfsm
        c.alzfpm c.pbase hpl) (sacCarried2 v pav adj duz0) =
      sacCarried2 (Sacramento.iiBody p c uztwc hpl adj pav v) 0.0 (1.0 - adj) duz' := by
  obtain ⟨d, h⟩ := mid_iiBody p c uztwc hpl adj pav duz0 v 2
  exact ⟨d, h⟩

theorem mid_iiLoop1 {α} [Num α] (p : Sacramento.Params α) (c : Sacramento.Consts α) (uztwc hpl adj pav duz0 : α)
    (v : Sacramento.Inner α) :
    ∃ duz', forRange 1 (2 + 1) (loopBody2 uztwc p.lzpk p.lzsk p.uzk p.uzfwm p.lztwm p.pfree p.rexp p.zperc p.adimp c.alzfsm
        c.alzfpm c.pbase hpl) (sacCarried2 v pav adj duz0) =
      sacCarried2 (Sacramento.iiBody p c uztwc hpl (1.0 - adj) 0.0 (Sacramento.iiBody p c uztwc hpl adj pav v)) 0.0
        (1.0 - (1.0 - adj)) duz' := by
  obtain ⟨d1, h1⟩ := mid_iiBody p c uztwc hpl adj pav duz0 v 1
  obtain ⟨d2, h2⟩ := mid_iiBody p c uztwc hpl (1.0 - adj) 0.0 d1 (Sacramento.iiBody p c uztwc hpl adj pav v) 2
  refine ⟨d2, ?_⟩
  show loopBody2 _ _ _ _ _ _ _ _ _ _ _ _ _ _ 2 (loopBody2 _ _ _ _ _ _ _ _ _ _ _ _ _ _ 1 _) = _
  rw [h1, h2]

theorem list5 {α : Type} (l : List α) (h : l.length = 5) : ∃ a b c d e, l = [a, b, c, d, e] := by
  match l, h with
  | [a, b, c, d, e], _ => exact ⟨a, b, c, d, e, rfl⟩

/-- the channel stage (unit hydrograph buffer `qq` and ordinates `dro` of length `nunit = 5`) = `Sacramento.channel` -/
theorem segD_eq {α} [Num α] (p : Sacramento.Params α) (c : Sacramento.Consts α) (qq : List α) (evapt : α)
    (v2 : Sacramento.Inner α) (hq : qq.length = 5) (hd : c.dro.length = 5) :
    segD p.side p.ssout p.pctim p.adimp p.sarva evapt c.dro qq v2.alzfsc v2.alzfpc v2.roimp v2.flobf v2.flosf v2.floin =
      (let ch := Sacramento.channel p c qq evapt v2
       (ch.lzfsc, ch.lzfpc, ch.qq, ch.qf, ch.bf, ch.e4)) := by
  obtain ⟨q0, q1, q2, q3, q4, rfl⟩ := list5 qq hq
  obtain ⟨d0, d1, d2, d3, d4, hdro⟩ := list5 c.dro hd
  unfold segD Sacramento.channel Sacramento.convolve
  rw [hdro]
  have hconv : ∀ X : α, forRange 0 5 (loopBody3 (sliceSet [q0, q1, q2, q3, q4] 0 X) [d0, d1, d2, d3, d4]) 0.0 =
      List.foldl (fun acc x => acc + x) 0.0
        (List.zipWith (fun q d => q * d) (X :: [q0, q1, q2, q3, q4].tail) [d0, d1, d2, d3, d4]) := fun _ => rfl
  have hshift : ∀ X : α, forRangeDown 4 0 loopBody4 (sliceSet [q0, q1, q2, q3, q4] 0 X) =
      X :: (X :: [q0, q1, q2, q3, q4].tail).dropLast := fun _ => rfl
  simp only [hconv, hshift, gt_iff_lt]

/-- `Sacramento.step` with its `let`s grouped as in the segments above (the new state and the five outputs) -/
def handStepF {α} [Num α] (p : Sacramento.Params α) (c : Sacramento.Consts α) (st : Sacramento.State α) (rain pet : α) :
    (α × α × α × α × α × α × List α × α × α) × (α × α × α × α × α) :=
  let A := handA p st pet
  let B := handB p c A.2.2.2.2.2.2.1 st.alzfsc st.alzfpc
  let C := handC p rain A.2.2.2.2.1 A.2.2.2.2.2.2.2
  let hpl := c.alzfpm / (c.alzfpm + c.alzfsm)
  let v0 : Sacramento.Inner α := ⟨B.2.2, B.2.1, A.2.2.2.2.2.1, B.1, C.2.1, 0.0, 0.0, 0.0, C.1, []⟩
  let v2 := if C.2.2.2.1 ≤ 5.08 then Sacramento.iiBody p c C.2.2.1 hpl C.2.2.2.2.1 C.2.2.2.1 v0
            else Sacramento.iiBody p c C.2.2.1 hpl (1.0 - C.2.2.2.2.1) 0.0 (Sacramento.iiBody p c C.2.2.1 hpl C.2.2.2.2.1 C.2.2.2.1 v0)
  let ch := Sacramento.channel p c st.qq pet v2
  ((C.2.2.1, v2.uzfwc, v2.lztwc, ch.lzfpc, ch.lzfsc, v2.adimc, ch.qq, v2.alzfsc, v2.alzfpc),
   (A.1 + A.2.1 + A.2.2.1 + ch.e4 + A.2.2.2.1, ch.qf, v2.roimp, ch.qf - ch.bf, ch.bf))

theorem hand_step_eq {α} [Num α] (p : Sacramento.Params α) (c : Sacramento.Consts α) (st : Sacramento.State α) (rain pet : α) :
    (let r := Sacramento.step p c st (rain, pet)
     ((r.1.uztwc, r.1.uzfwc, r.1.lztwc, r.1.lzfpc, r.1.lzfsc, r.1.adimc, r.1.qq, r.1.alzfsc, r.1.alzfpc),
      (r.2.actualET, r.2.runoff, r.2.imperviousRunoff, r.2.surfaceRunoff, r.2.baseflow))) = handStepF p c st rain pet := rfl

/-- the copy, from the loop over `ii` on: a function of the values the first three segments deliver -/
def tailMid {α} [Num α] (p : Sacramento.Params α) (c : Sacramento.Consts α) (qq : List α) (pet uztwc3 pav adj : α)
    (itime : Int) (v0 : Sacramento.Inner α) (e1 e2 e3 e5 : α) :
    (α × α × α × α × α × α × List α × α × α) × (α × α × α × α × α) :=
  let loop2 := forRange itime (2 + 1) (loopBody2 uztwc3 p.lzpk p.lzsk p.uzk p.uzfwm p.lztwm p.pfree p.rexp p.zperc p.adimp
    c.alzfsm c.alzfpm c.pbase (c.alzfpm / (c.alzfpm + c.alzfsm))) (sacCarried2 v0 pav adj Num.zero)
  let sd := segD p.side p.ssout p.pctim p.adimp p.sarva pet c.dro qq loop2.2.2.2.1 loop2.2.2.2.2.1 loop2.2.2.2.2.2.1
    loop2.2.2.2.2.2.2.2.2.2.1 loop2.2.2.2.2.2.2.2.2.2.2.1 loop2.2.2.2.2.2.2.2.2.2.2.2
  ((uztwc3, loop2.1, loop2.2.1, sd.2.1, sd.1, loop2.2.2.1, sd.2.2.1, loop2.2.2.2.1, loop2.2.2.2.2.1),
   (e1 + e2 + e3 + sd.2.2.2.2.2 + e5, sd.2.2.2.1, loop2.2.2.2.2.2.1, sd.2.2.2.1 - sd.2.2.2.2.1, sd.2.2.2.2.1))

/-- the hand-written model, from the drainage passes on -/
def tailHand {α} [Num α] (p : Sacramento.Params α) (c : Sacramento.Consts α) (qq : List α) (pet uztwc3 : α)
    (v2 : Sacramento.Inner α) (e1 e2 e3 e5 : α) :
    (α × α × α × α × α × α × List α × α × α) × (α × α × α × α × α) :=
  let ch := Sacramento.channel p c qq pet v2
  ((uztwc3, v2.uzfwc, v2.lztwc, ch.lzfpc, ch.lzfsc, v2.adimc, ch.qq, v2.alzfsc, v2.alzfpc),
   (e1 + e2 + e3 + ch.e4 + e5, ch.qf, v2.roimp, ch.qf - ch.bf, ch.bf))

theorem tail_eq {α} [Num α] (p : Sacramento.Params α) (c : Sacramento.Consts α) (qq : List α) (pet uztwc3 pav adj : α)
    (v0 : Sacramento.Inner α) (e1 e2 e3 e5 : α) (hq : qq.length = 5) (hd : c.dro.length = 5) :
    tailMid p c qq pet uztwc3 pav adj (if pav ≤ 5.08 then 2 else 1) v0 e1 e2 e3 e5 =
      tailHand p c qq pet uztwc3
        (if pav ≤ 5.08 then Sacramento.iiBody p c uztwc3 (c.alzfpm / (c.alzfpm + c.alzfsm)) adj pav v0
         else Sacramento.iiBody p c uztwc3 (c.alzfpm / (c.alzfpm + c.alzfsm)) (1.0 - adj) 0.0
           (Sacramento.iiBody p c uztwc3 (c.alzfpm / (c.alzfpm + c.alzfsm)) adj pav v0)) e1 e2 e3 e5 := by
  unfold tailMid tailHand
  by_cases hp : pav ≤ 5.08
  · simp only [hp, ↓reduceIte]
    obtain ⟨d, h⟩ := mid_iiLoop2 p c uztwc3 (c.alzfpm / (c.alzfpm + c.alzfsm)) adj pav Num.zero v0
    rw [h]
    unfold sacCarried2
    dsimp only
    rw [segD_eq p c qq pet _ hq hd]
  · simp only [hp, ↓reduceIte]
    obtain ⟨d, h⟩ := mid_iiLoop1 p c uztwc3 (c.alzfpm / (c.alzfpm + c.alzfsm)) adj pav Num.zero v0
    rw [h]
    unfold sacCarried2
    dsimp only
    rw [segD_eq p c qq pet _ hq hd]

theorem stepF_eq_tail {α} [Num α] (p : Sacramento.Params α) (c : Sacramento.Consts α) (st : Sacramento.State α) (rain pet : α) :
    stepF p.lzpk p.lzsk p.uzk p.uztwm p.uzfwm p.lztwm p.lzfsm p.lzfpm p.pfree p.rexp p.zperc p.side p.ssout p.pctim p.adimp
        p.sarva p.rserv p.uh1 p.uh2 p.uh3 p.uh4 p.uh5 c.dro c.saved c.alzfsm c.alzfpm c.pbase st.uztwc st.uzfwc st.lztwc
        st.lzfpc st.lzfsc st.adimc st.qq st.alzfsc st.alzfpc rain pet =
      (let sa := segA p.uztwm p.uzfwm p.lztwm p.adimp p.pctim pet st.uztwc st.uzfwc st.lztwc st.adimc
       let sb := segB p.lztwm c.saved c.alzfsm c.alzfpm sa.2.2.2.2.2.2.1 st.alzfsc st.alzfpc
       let sc := segC p.uztwm p.pctim c.alzfsm c.alzfpm rain sa.2.2.2.2.1 sa.2.2.2.2.2.2.2
       tailMid p c st.qq pet sc.2.2.1 sc.2.2.2.1 sc.2.2.2.2.1 sc.2.2.2.2.2.1
         ⟨sb.2.2, sb.2.1, sa.2.2.2.2.2.1, sb.1, sc.2.1, 0.0, 0.0, 0.0, sc.1, []⟩ sa.1 sa.2.1 sa.2.2.1 sa.2.2.2.1) := rfl

theorem handStepF_eq_tail {α} [Num α] (p : Sacramento.Params α) (c : Sacramento.Consts α) (st : Sacramento.State α) (rain pet : α) :
    handStepF p c st rain pet =
      (let A := handA p st pet
       let B := handB p c A.2.2.2.2.2.2.1 st.alzfsc st.alzfpc
       let C := handC p rain A.2.2.2.2.1 A.2.2.2.2.2.2.2
       let v0 : Sacramento.Inner α := ⟨B.2.2, B.2.1, A.2.2.2.2.2.1, B.1, C.2.1, 0.0, 0.0, 0.0, C.1, []⟩
       tailHand p c st.qq pet C.2.2.1
         (if C.2.2.2.1 ≤ 5.08 then Sacramento.iiBody p c C.2.2.1 (c.alzfpm / (c.alzfpm + c.alzfsm)) C.2.2.2.2.1 C.2.2.2.1 v0
          else Sacramento.iiBody p c C.2.2.1 (c.alzfpm / (c.alzfpm + c.alzfsm)) (1.0 - C.2.2.2.2.1) 0.0
            (Sacramento.iiBody p c C.2.2.1 (c.alzfpm / (c.alzfpm + c.alzfsm)) C.2.2.2.2.1 C.2.2.2.1 v0))
         A.1 A.2.1 A.2.2.1 A.2.2.2.1) := rfl

/-- the copy of the regenerated step = the hand-written `Sacramento.step` (buffers of length `nunit = 5`) -/
theorem mid_step {α} [Num α] (p : Sacramento.Params α) (c : Sacramento.Consts α) (st : Sacramento.State α) (rain pet : α)
    (hq : st.qq.length = 5) (hd : c.dro.length = 5) :
    step p.lzpk p.lzsk p.uzk p.uztwm p.uzfwm p.lztwm p.lzfsm p.lzfpm p.pfree p.rexp p.zperc p.side p.ssout p.pctim p.adimp
        p.sarva p.rserv p.uh1 p.uh2 p.uh3 p.uh4 p.uh5 c.dro c.saved c.alzfsm c.alzfpm c.pbase st.uztwc st.uzfwc st.lztwc
        st.lzfpc st.lzfsc st.adimc st.qq st.alzfsc st.alzfpc rain pet =
      (let r := Sacramento.step p c st (rain, pet)
       ((r.1.uztwc, r.1.uzfwc, r.1.lztwc, r.1.lzfpc, r.1.lzfsc, r.1.adimc, r.1.qq, r.1.alzfsc, r.1.alzfpc),
        (r.2.actualET, r.2.runoff, r.2.imperviousRunoff, r.2.surfaceRunoff, r.2.baseflow))) := by
  rw [hand_step_eq, handStepF_eq_tail, step_eq_stepF, stepF_eq_tail]
  simp (config := { zeta := false }) only [segA_eq, segB_eq, segC_eq]
  dsimp only
  have hC : ∀ (pliq u a : α), (handC p pliq u a).2.2.2.2.2 = (if (handC p pliq u a).2.2.2.1 ≤ 5.08 then 2 else 1) := fun _ _ _ => rfl
  rw [hC]
  exact tail_eq p c st.qq pet _ _ _ _ _ _ _ _ hq hd

end OW.Kernels.SacramentoMid
