import OW.Proofs.NdC01Foot
/-!
Helper lemmas for C01: `Apply(loc, dim, step, vals)` — the 1-D run write — on all three paths
(Go back-end contiguous fast path, Go back-end loop, C back-end loop) is the same list of storage writes.
-/
namespace OW.Nd

section
variable {α : Type}

/-! ### run indices -/

/-- the `k`-th index of the run: `loc` with entry `d` replaced by `start + k·step` -/
def runLoc (loc : Idx) (d : Nat) (start step : Int) (k : Int) : Idx := loc.set d (start + k * step)

/-- the (index, value) pairs written by the loop of `Apply`, counting from `i` -/
def runPairs (loc : Idx) (d : Nat) (start step : Int) : Int → List α → List (Idx × α)
  | _, [] => []
  | i, x :: xs => (runLoc loc d start step i, x) :: runPairs loc d start step (i + 1) xs

/-- the loop of `Apply` is a sequence of `Set`s (unconditionally) -/
theorem applyGo_eq (a : Arr) (loc : Idx) (step : Int) (d : Nat) (start : Int) :
    ∀ (xs : List α) (h : Heap α) (i : Int),
      apply.go a loc step d start h i xs = setSeq h a (runPairs loc d start step i xs)
  | [], _, _ => rfl
  | x :: xs, h, i => by
    simp only [apply.go, runPairs, setSeq, runLoc]
    cases set h a (loc.set d (start + i * step)) x with
    | error m => rfl
    | ok h' => exact applyGo_eq a loc step d start xs h' (i + 1)

theorem mem_runPairs (loc : Idx) (d : Nat) (start step : Int) : ∀ (xs : List α) (i : Int) (w : Idx × α),
    w ∈ runPairs loc d start step i xs ↔
      ∃ (j : Nat) (hj : j < xs.length), w = (runLoc loc d start step (i + j), xs[j])
  | [], i, w => by simp [runPairs]
  | x :: xs, i, w => by
    simp only [runPairs, List.mem_cons, mem_runPairs loc d start step xs (i + 1) w]
    constructor
    · rintro (e | ⟨j, hj, e⟩)
      · exact ⟨0, by simp, by simpa using e⟩
      · refine ⟨j + 1, by simpa using hj, ?_⟩
        rw [e]
        simp only [List.getElem_cons_succ, Nat.cast_add, Nat.cast_one]
        rw [show i + 1 + (j : Int) = i + ((j : Int) + 1) by omega]
    · rintro ⟨j, hj, e⟩
      cases j with
      | zero => left; simpa using e
      | succ j =>
        right
        refine ⟨j, by simpa using hj, ?_⟩
        rw [e]
        simp only [List.getElem_cons_succ, Nat.cast_add, Nat.cast_one]
        rw [show i + 1 + (j : Int) = i + ((j : Int) + 1) by omega]

theorem runLoc_getElem? {loc : Idx} {d : Nat} (hd : d < loc.length) (start step k : Int) :
    (runLoc loc d start step k)[d]? = some (start + k * step) := by
  unfold runLoc
  exact List.getElem?_set_self hd

theorem runLoc_inj {loc : Idx} {d : Nat} (hd : d < loc.length) {start step : Int} (hs : 1 ≤ step) {k k' : Int}
    (h : runLoc loc d start step k = runLoc loc d start step k') : k = k' := by
  have h1 := runLoc_getElem? hd start step k
  rw [h, runLoc_getElem? hd start step k'] at h1
  injection h1 with h1
  have : k' * step = k * step := by omega
  exact (Int.eq_of_mul_eq_mul_right (by omega) this).symm

theorem runPairs_nodup {loc : Idx} {d : Nat} (hd : d < loc.length) (start : Int) {step : Int} (hs : 1 ≤ step) :
    ∀ (xs : List α) (i : Int), ((runPairs loc d start step i xs).map Prod.fst).Nodup
  | [], _ => by simp [runPairs]
  | x :: xs, i => by
    simp only [runPairs, List.map_cons, List.nodup_cons]
    refine ⟨?_, runPairs_nodup hd start hs xs (i + 1)⟩
    intro hm
    obtain ⟨w, hw, e⟩ := List.mem_map.mp hm
    obtain ⟨j, _, rfl⟩ := (mem_runPairs loc d start step xs (i + 1) w).mp hw
    have := runLoc_inj hd hs e
    omega

/-! ### list lemmas about a single modified coordinate -/

theorem inBounds_set : ∀ {loc dims : Idx} {d : Nat} {D x : Int}, InBounds loc dims → dims[d]? = some D →
    0 ≤ x → x < D → InBounds (loc.set d x) dims
  | [], [], _, _, _, _, hd, _, _ => by simp at hd
  | [], _ :: _, _, _, _, h, _, _, _ => by simp [InBounds] at h
  | _ :: _, [], _, _, _, h, _, _, _ => by simp [InBounds] at h
  | i :: is, D0 :: ds, 0, D, x, h, hd, h0, h1 => by
    simp only [InBounds_cons] at h
    simp only [List.getElem?_cons_zero, Option.some.injEq] at hd
    subst hd
    simp only [List.set_cons_zero, InBounds_cons]
    exact ⟨h0, h1, h.2.2⟩
  | i :: is, D0 :: ds, d + 1, D, x, h, hd, h0, h1 => by
    simp only [InBounds_cons] at h
    simp only [List.getElem?_cons_succ] at hd
    simp only [List.set_cons_succ, InBounds_cons]
    exact ⟨h.1, h.2.1, inBounds_set h.2.2 hd h0 h1⟩

theorem sliceOK_point : ∀ {loc dims : Idx}, InBounds loc dims →
    SliceOK dims loc (uniform dims.length 1) (uniform dims.length 1)
  | [], [], _ => by simp [uniform]
  | [], _ :: _, h => by simp [InBounds] at h
  | _ :: _, [], h => by simp [InBounds] at h
  | i :: is, D :: ds, h => by
    simp only [InBounds_cons] at h
    simp only [List.length_cons, uniform_succ, SliceOK_cons]
    exact ⟨h.1, by omega, by omega, by omega, sliceOK_point h.2.2⟩

/-- the slice request built by `Apply` is in bounds when the run is -/
theorem sliceOK_run : ∀ {loc dims : Idx} {d : Nat} {D l len step : Int}, InBounds loc dims →
    dims[d]? = some D → loc[d]? = some l → 1 ≤ len → 1 ≤ step → l + (len - 1) * step < D →
    SliceOK dims loc ((uniform dims.length 1).set d len) ((uniform dims.length 1).set d step)
  | [], [], _, _, _, _, _, _, hd, _, _, _, _ => by simp at hd
  | [], _ :: _, _, _, _, _, _, h, _, _, _, _, _ => by simp [InBounds] at h
  | _ :: _, [], _, _, _, _, _, h, _, _, _, _, _ => by simp [InBounds] at h
  | i :: is, D0 :: ds, 0, D, l, len, step, h, hd, hl, h1, h2, h3 => by
    simp only [InBounds_cons] at h
    simp only [List.getElem?_cons_zero, Option.some.injEq] at hd hl
    subst hd hl
    simp only [List.length_cons, uniform_succ, List.set_cons_zero, SliceOK_cons]
    exact ⟨h.1, h1, h2, h3, sliceOK_point h.2.2⟩
  | i :: is, D0 :: ds, d + 1, D, l, len, step, h, hd, hl, h1, h2, h3 => by
    simp only [InBounds_cons] at h
    simp only [List.getElem?_cons_succ] at hd hl
    simp only [List.length_cons, uniform_succ, List.set_cons_succ, SliceOK_cons]
    exact ⟨h.1, by omega, by omega, by omega, sliceOK_run h.2.2 hd hl h1 h2 h3⟩

theorem product_ones : ∀ n : Nat, product (uniform n 1) = 1
  | 0 => by simp [uniform]
  | n + 1 => by simp [uniform_succ, product_ones n]

theorem ravel_zeros_ones : ∀ n : Nat, ravel (uniform n 0) (uniform n 1) = 0
  | 0 => by simp [uniform, ravel]
  | n + 1 => by simp [uniform_succ, ravel_cons, ravel_zeros_ones n]

theorem inBounds_zeros_ones : ∀ n : Nat, InBounds (uniform n 0) (uniform n 1)
  | 0 => by simp [uniform]
  | n + 1 => by simp [uniform_succ, inBounds_zeros_ones n]

theorem product_run : ∀ (n d : Nat) (len : Int), d < n → product ((uniform n 1).set d len) = len
  | 0, _, _, h => by omega
  | n + 1, 0, len, _ => by simp [uniform_succ, product_ones n]
  | n + 1, d + 1, len, h => by
    simp [uniform_succ, product_run n d len (by omega)]

theorem ravel_run : ∀ (n d : Nat) (k len : Int), d < n →
    ravel ((uniform n 0).set d k) ((uniform n 1).set d len) = k
  | 0, _, _, _, h => by omega
  | n + 1, 0, k, len, _ => by simp [uniform_succ, ravel_cons, product_ones n, ravel_zeros_ones n]
  | n + 1, d + 1, k, len, h => by
    simp [uniform_succ, ravel_cons, ravel_run n d k len (by omega)]

theorem inBounds_run : ∀ (n d : Nat) (k len : Int), d < n → 0 ≤ k → k < len →
    InBounds ((uniform n 0).set d k) ((uniform n 1).set d len)
  | 0, _, _, _, h, _, _ => by omega
  | n + 1, 0, k, len, _, h0, h1 => by simp [uniform_succ, h0, h1, inBounds_zeros_ones n]
  | n + 1, d + 1, k, len, h, h0, h1 => by
    simp [uniform_succ, inBounds_run n d k len (by omega) h0 h1]

theorem affine_zeros_ones : ∀ (loc : Idx), affine loc (uniform loc.length 0) (uniform loc.length 1) = loc
  | [] => by simp [affine]
  | l :: ls => by simp [uniform_succ, affine_zeros_ones ls]

theorem affine_run : ∀ (loc : Idx) (d : Nat) (l k step : Int), loc[d]? = some l →
    affine loc ((uniform loc.length 0).set d k) ((uniform loc.length 1).set d step) = loc.set d (l + k * step)
  | [], _, _, _, _, h => by simp at h
  | l0 :: ls, 0, l, k, step, h => by
    simp only [List.getElem?_cons_zero, Option.some.injEq] at h
    subst h
    simp [uniform_succ, affine_zeros_ones ls]
  | l0 :: ls, d + 1, l, k, step, h => by
    simp only [List.getElem?_cons_succ] at h
    simp [uniform_succ, affine_run ls d l k step h]

/-! ### `Apply` in closed form -/

/-- hypotheses of an in-bounds run `loc + k·step·e_d`, `k < len`, on extents `dims` -/
structure RunOK (dims loc : Idx) (d : Nat) (step : Int) (len : Nat) (D l : Int) : Prop where
  inb : InBounds loc dims
  hD : dims[d]? = some D
  hl : loc[d]? = some l
  len_pos : 1 ≤ len
  step_pos : 1 ≤ step
  last : l + ((len : Int) - 1) * step < D

theorem RunOK.d_lt {dims loc : Idx} {d : Nat} {step : Int} {len : Nat} {D l : Int}
    (r : RunOK dims loc d step len D l) : d < dims.length := by
  have := r.hD
  by_contra hn
  rw [List.getElem?_eq_none (by omega)] at this
  cases this

theorem RunOK.inBounds {dims loc : Idx} {d : Nat} {step : Int} {len : Nat} {D l : Int}
    (r : RunOK dims loc d step len D l) {k : Int} (h0 : 0 ≤ k) (h1 : k < len) :
    InBounds (runLoc loc d l step k) dims := by
  have hl0 : 0 ≤ l := by
    have := r.inb
    have hI := this.toI
    clear this
    have hl := r.hl
    clear r
    induction hI generalizing d with
    | nil => simp at hl
    | cons a0 _ _ _ ih =>
      cases d with
      | zero => simp at hl; omega
      | succ d => exact ih (by simpa using hl)
  have hs := r.step_pos
  have hlast := r.last
  have e1 : 0 ≤ k * step := Int.mul_nonneg h0 (by omega)
  have e2 : k * step ≤ ((len : Int) - 1) * step := Int.mul_le_mul_of_nonneg_right (by omega) (by omega)
  exact inBounds_set r.inb r.hD (by omega) (by omega)

/-- **`Apply` is one list of storage writes, on every path.** For a `Geo` array satisfying the window conditions and
an in-bounds run with `step ≥ 1`: `Apply` never panics and — whether it takes the contiguous fast path
(`copy` into `Impl[start : start+len]`), the element loop of the Go back-end, or the element loop of the C back-end —
its result is exactly the writes of `vals[k]` at the addresses of `loc + k·step·e_d`. -/
theorem apply_eq {h : Heap α} {a : Arr} (g : Geo a.v) (ok : ArrOK h a) {loc : Idx} {d : Nat} {step : Int}
    {vals : List α} {D l : Int} (r : RunOK a.v.dims loc d step vals.length D l) :
    apply h a loc (d : Int) step vals =
      .ok (writeList h a.sid (seqWrites a (runPairs loc d l step 0 vals))) := by
  have hd := r.d_lt
  have hloop : (match loc[d]? with
      | none => (oob : R (Heap α))
      | some start => apply.go a loc step d start h 0 vals) =
      .ok (writeList h a.sid (seqWrites a (runPairs loc d l step 0 vals))) := by
    rw [r.hl]
    simp only
    rw [applyGo_eq]
    apply setSeq_eq g _ h ok
    intro w hw
    obtain ⟨j, hj, rfl⟩ := (mem_runPairs loc d l step vals 0 w).mp hw
    exact r.inBounds (by omega) (by omega)
  unfold apply
  have c1 : ¬ ((d : Int) < 0 ∨ (d : Int) ≥ (a.v.ndims : Int)) := by
    simp only [View.ndims]; omega
  simp only [c1, if_false, Int.toNat_natCast]
  by_cases hC : a.isC = true
  · simp only [hC, if_true]
    exact hloop
  · simp only [hC, Bool.false_eq_true, if_false]
    -- the slice
    have okS : SliceOK a.v.dims loc ((uniform a.v.dims.length 1).set d (vals.length : Int))
        (stepOr a.v.dims.length (some ((uniform a.v.dims.length 1).set d step))) :=
      sliceOK_run r.inb r.hD r.hl (by have := r.len_pos; omega) r.step_pos r.last
    obtain ⟨hl1, _, hl3⟩ := okS.lengths
    have hsl := sliceInto_eq g loc ((uniform a.v.dims.length 1).set d (vals.length : Int))
      (some ((uniform a.v.dims.length 1).set d step)) hl1 hl3
    have gS : Geo (sliceView a.v loc ((uniform a.v.dims.length 1).set d (vals.length : Int))
      (some ((uniform a.v.dims.length 1).set d step))) := geo_slice g okS hsl
    simp only [slice, View.ndims, hsl, bind, Except.bind, pure, Except.pure]
    obtain ⟨c, hc⟩ := (OW.NdC02.contiguous_iff_geo gS).2
    rw [hc]
    cases c with
    | false => simp only [Bool.false_eq_true, if_false]; exact hloop
    | true =>
      simp only [if_true]
      obtain ⟨s, hs, hlen⟩ := ok.store
      have hb := ok.base_nonneg
      have hf := ok.fits
      obtain ⟨w0, w1⟩ := OW.NdC02.contig_window gS hc
      have hprod : product ((uniform a.v.dims.length 1).set d (vals.length : Int)) = vals.length :=
        product_run _ _ _ hd
      have w1' : (sliceView a.v loc ((uniform a.v.dims.length 1).set d (vals.length : Int))
          (some ((uniform a.v.dims.length 1).set d step))).start + (vals.length : Int) ≤ product a.v.orig := by
        have := w1
        simp only [sliceView] at this ⊢
        rw [hprod] at this
        exact this
      rw [OW.NdC02.subslice_ok (a := { a with v := sliceView a.v loc _ _ }) hs w0 (by omega)
        (by show _ ≤ (s.length : Int) - a.base; omega)]
      simp only []
      rw [writeRun_eq_writeList]
      congr 2
      -- positions: consecutive = addresses of the run
      have key : ∀ (xs : List α) (i : Nat), i + xs.length ≤ vals.length →
          consec ((a.base + (sliceView a.v loc ((uniform a.v.dims.length 1).set d (vals.length : Int))
            (some ((uniform a.v.dims.length 1).set d step))).start).toNat + i) xs =
          seqWrites a (runPairs loc d l step (i : Int) xs) := by
        intro xs
        induction xs with
        | nil => intro i _; rfl
        | cons x xs ih =>
          intro i hi
          simp only [List.length_cons] at hi
          simp only [consec, runPairs, seqWrites, List.map_cons]
          have ih' := ih (i + 1) (by omega)
          simp only [seqWrites, Nat.cast_add, Nat.cast_one] at ih'
          rw [← ih', Nat.add_assoc]
          congr 2
          -- address of the i-th run index
          have hi1 : (i : Int) < vals.length := by omega
          have hib := inBounds_run a.v.dims.length d (i : Int) (vals.length : Int) hd (by omega) hi1
          have e1 : addr a.v (runLoc loc d l step (i : Int)) =
              addr (sliceView a.v loc ((uniform a.v.dims.length 1).set d (vals.length : Int))
                (some ((uniform a.v.dims.length 1).set d step))) ((uniform a.v.dims.length 0).set d (i : Int)) := by
            have h1 := sliceInto_index g okS hsl ((uniform a.v.dims.length 0).set d (i : Int)) (by simp)
            rw [index_addr gS _ (by simp [sliceView]), index_addr g _ (by
              rw [affine_length loc _ _ (by simp [hl1]) (by simp [stepOr, hl1]), hl1])] at h1
            injection h1 with h1
            rw [h1]
            simp only [stepOr]
            have := affine_run loc d l (i : Int) step r.hl
            rw [hl1] at this
            rw [this, runLoc]
          rw [e1, contig_addr gS hc hib]
          simp only [sliceView, ravel_run _ _ _ _ hd]
          simp only [sliceView] at w0
          omega
      have := key vals 0 (by omega)
      simpa using this

/-! ### `Apply` with no values -/

/-- `Contiguous()` never panics when the four metadata lists have the same length (no other assumption) -/
theorem contigLoop_total (v : View) (h1 : v.orig.length = v.dims.length) (h2 : v.step.length = v.dims.length)
    (h3 : v.offset.length = v.dims.length) :
    ∀ (i : Nat), i ≤ v.dims.length → ∀ (co : Int) (must : Bool), ∃ b, v.contigLoop i co must = .ok b
  | 0, _, _, _ => ⟨true, rfl⟩
  | i + 1, hi, co, must => by
    have e1 : v.dims[i]? = some v.dims[i] := List.getElem?_eq_getElem (by omega)
    have e2 : v.step[i]? = some v.step[i] := List.getElem?_eq_getElem (by omega)
    have e3 : v.offset[i]? = some v.offset[i] := List.getElem?_eq_getElem (by omega)
    have e4 : v.orig[i]? = some v.orig[i] := List.getElem?_eq_getElem (by omega)
    unfold View.contigLoop
    simp only [e1, e2, e3, e4]
    obtain ⟨b, hb⟩ := contigLoop_total v h1 h2 h3 i (by omega) (co * v.dims[i]) (must || (v.dims[i] != v.orig[i]))
    by_cases c1 : v.dims[i] > 1
    · simp only [c1, if_true]
      cases must with
      | true => exact ⟨false, rfl⟩
      | false =>
        simp only [Bool.false_eq_true, if_false]
        by_cases c2 : v.step[i] > 1
        · simp only [c2, if_true]; exact ⟨false, rfl⟩
        · simp only [c2, if_false]
          by_cases c3 : v.offset[i] > co
          · simp only [c3, if_true]; exact ⟨false, rfl⟩
          · simp only [c3, if_false]; exact ⟨b, hb⟩
    · simp only [c1, if_false]; exact ⟨b, hb⟩

/-- `Apply` with an empty `vals` at an in-bounds `loc` changes nothing, on every path -/
theorem apply_nil {h : Heap α} {a : Arr} (g : Geo a.v) (ok : ArrOK h a) {loc : Idx} {d : Nat} (step : Int)
    (hloc : InBounds loc a.v.dims) (hd : d < a.v.dims.length) :
    apply h a loc (d : Int) step ([] : List α) = .ok h := by
  have hdl : d < loc.length := by rw [hloc.length]; exact hd
  have hloop : (match loc[d]? with
      | none => (oob : R (Heap α))
      | some start => apply.go a loc step d start h 0 ([] : List α)) = .ok h := by
    rw [List.getElem?_eq_getElem hdl]
    rfl
  unfold apply
  have c1 : ¬ ((d : Int) < 0 ∨ (d : Int) ≥ (a.v.ndims : Int)) := by
    simp only [View.ndims]; omega
  simp only [c1, if_false, Int.toNat_natCast]
  by_cases hC : a.isC = true
  · simp only [hC, if_true]
    exact hloop
  · simp only [hC, Bool.false_eq_true, if_false]
    have hsl := sliceInto_eq g loc ((uniform a.v.dims.length 1).set d (([] : List α).length : Int))
      (some ((uniform a.v.dims.length 1).set d step)) hloc.length (by simp [stepOr])
    simp only [slice, View.ndims, hsl, bind, Except.bind, pure, Except.pure]
    obtain ⟨c, hc⟩ := contigLoop_total (sliceView a.v loc ((uniform a.v.dims.length 1).set d (([] : List α).length : Int))
      (some ((uniform a.v.dims.length 1).set d step)))
      (by simp [sliceView, g.rank_orig]) (by
        simp only [sliceView, stepOr]
        rw [mulL_length _ _ (by simp [g.rank_step]), g.rank_step]; simp)
      (by simp [sliceView, g.rank_offset]) _ (Nat.le_refl _) 1 false
    unfold View.contiguous
    rw [hc]
    cases c with
    | false => simp only [Bool.false_eq_true, if_false]; exact hloop
    | true =>
      simp only [if_true]
      obtain ⟨s, hs, hlen⟩ := ok.store
      have hb := ok.base_nonneg
      have hf := ok.fits
      obtain ⟨p0, p1⟩ := addr_bounds g hloc
      have e : (sliceView a.v loc ((uniform a.v.dims.length 1).set d (([] : List α).length : Int))
          (some ((uniform a.v.dims.length 1).set d step))).start = addr a.v loc := rfl
      rw [OW.NdC02.subslice_ok (a := { a with v := sliceView a.v loc _ _ }) hs (by rw [e]; exact p0)
        (by simp) (by rw [e]; show _ ≤ (s.length : Int) - a.base; simp; omega)]
      rfl

end
end OW.Nd
