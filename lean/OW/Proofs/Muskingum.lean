import OW.Kernels.Muskingum
import OW.Proofs.RealNum
import OW.Proofs.Lits
import Mathlib.Tactic.Linarith
import Mathlib.Tactic.Ring
import Mathlib.Tactic.FieldSimp
/-! Helper lemmas about the `Muskingum` model over ℝ. -/
namespace OW.Proofs.Muskingum
open OW OW.Lits OW.Kernels.Muskingum

attribute [-simp] OW.RealNum.ofNat_eq

/-- the three weights at ℝ -/
theorem coef_eq (k x dt : ℝ) :
    coef k x dt = ⟨(dt - 2 * k * x) / (2 * k * (1 - x) + dt), (dt + 2 * k * x) / (2 * k * (1 - x) + dt),
      (2 * k * (1 - x) - dt) / (2 * k * (1 - x) + dt)⟩ := by
  unfold coef
  rw [lit2, lit1]

/-- per step: `Δt·(I' − O') = K[X(I'−I) + (1−X)(O'−O)] + Δt/2·((I'−I) − (O'−O))` with `I'` = upstream + lateral -/
theorem step_budget (k x dt : ℝ) (hden : 2 * k * (1 - x) + dt ≠ 0) (pi po inflow lateral : ℝ) :
    let o := (step (coef k x dt) (pi, po) (inflow, lateral)).2
    dt * ((inflow + lateral) - o) =
      k * (x * ((inflow + lateral) - pi) + (1 - x) * (o - po)) + dt / 2 * (((inflow + lateral) - pi) - (o - po)) := by
  intro o
  have ho : o = ((dt - 2 * k * x) * (inflow + lateral) + (dt + 2 * k * x) * pi + (2 * k * (1 - x) - dt) * po) /
      (2 * k * (1 - x) + dt) := by
    show (step (coef k x dt) (pi, po) (inflow, lateral)).2 = _
    rw [coef_eq]; unfold step; simp only
    field_simp
  have hmul : o * (2 * k * (1 - x) + dt) =
      (dt - 2 * k * x) * (inflow + lateral) + (dt + 2 * k * x) * pi + (2 * k * (1 - x) - dt) * po := by
    rw [ho, div_mul_cancel₀ _ hden]
  linarith [hmul]

end OW.Proofs.Muskingum
