import OW.Kernels.Muskingum
import OW.Proofs.RealNum
import OW.Proofs.Lits
import Mathlib.Tactic.Linarith
import Mathlib.Tactic.Ring
import Mathlib.Tactic.FieldSimp
/-! Helper lemmas about the `Muskingum` model over ℝ. -/
namespace OW.Proofs.Muskingum
open OW OW.Lits OW.Kernels.Muskingum

attribute [-simp] OW.RealNum.ofNat_eq

/-- the three weights at ℝ -/
theorem coef_eq (k x dt : ℝ) :
    coef k x dt = ⟨(dt - 2 * k * x) / (2 * k * (1 - x) + dt), (dt + 2 * k * x) / (2 * k * (1 - x) + dt),
      (2 * k * (1 - x) - dt) / (2 * k * (1 - x) + dt)⟩ := by
  unfold coef
  rw [lit2, lit1]

/-- per step: `Δt·(I' − O') = K[X(I'−I) + (1−X)(O'−O)] + Δt/2·((I'−I) − (O'−O))` with `I'` = upstream + lateral -/
theorem step_budget (k x dt : ℝ) (hden : 2 * k * (1 - x) + dt ≠ 0) (pi po inflow lateral : ℝ) :
    let o := (step (coef k x dt) (pi, po) (inflow, lateral)).2
    dt * ((inflow + lateral) - o) =
      k * (x * ((inflow + lateral) - pi) + (1 - x) * (o - po)) + dt / 2 * (((inflow + lateral) - pi) - (o - po)) := by
  intro o
  have ho : o = ((dt - 2 * k * x) * (inflow + lateral) + (dt + 2 * k * x) * pi + (2 * k * (1 - x) - dt) * po) /
      (2 * k * (1 - x) + dt) := by
    show (step (coef k x dt) (pi, po) (inflow, lateral)).2 = _
    rw [coef_eq]; unfold step; simp only
    field_simp
  have hmul : o * (2 * k * (1 - x) + dt) =
      (dt - 2 * k * x) * (inflow + lateral) + (dt + 2 * k * x) * pi + (2 * k * (1 - x) - dt) * po := by
    rw [ho, div_mul_cancel₀ _ hden]
  linarith [hmul]

/-- the weight of the previous outflow is a contraction whenever `K(1−X) > 0` and `Δt > 0` (in particular in the whole stable region
`2KX ≤ Δt ≤ 2K(1−X)`, `Δt > 0`); the divisor `2K(1−X)+Δt` is positive -/
theorem a3_abs_lt_one (k x dt : ℝ) (hk : 0 < k * (1 - x)) (hdt : 0 < dt) : |(coef k x dt).a3| < 1 := by
  rw [coef_eq]
  simp only
  have h2 : 2 * k * (1 - x) = 2 * (k * (1 - x)) := by ring
  have hden : 0 < 2 * k * (1 - x) + dt := by rw [h2]; linarith
  rw [abs_div, abs_of_pos hden, div_lt_one hden, abs_lt]
  constructor <;> rw [h2] <;> linarith

/-- recession: with no water entering the reach and nothing carried over on the inflow side, each step multiplies the outflow by `a3` -/
theorem run_zero_tail (k x dt : ℝ) (n : ℕ) (o : ℝ) :
    (run k x dt (0, o) (List.replicate n (0, 0))).1 = (0, (coef k x dt).a3 ^ n * o) := by
  unfold run
  induction n generalizing o with
  | zero => simp [scan]
  | succ n ih =>
    have hs : (step (coef k x dt) (0, o) (0, 0)).1 = (0, (coef k x dt).a3 * o) := by
      unfold step; simp
    simp only [List.replicate_succ, scan]
    rw [hs, ih, pow_succ, mul_assoc]

/-- the state `n + 1` zero-inflow steps after a series `xs`: the first of them uses the carried-over inflow (`a2·I + a3·O`), the others
only decay -/
theorem run_event_tail_state (k x dt : ℝ) (st : ℝ × ℝ) (xs : List (ℝ × ℝ)) (n : ℕ) :
    (run k x dt st (xs ++ List.replicate (n + 1) (0, 0))).1 =
      (0, (coef k x dt).a3 ^ n * ((coef k x dt).a2 * (run k x dt st xs).1.1 + (coef k x dt).a3 * (run k x dt st xs).1.2)) := by
  have h := run_zero_tail k x dt n ((coef k x dt).a2 * (run k x dt st xs).1.1 + (coef k x dt).a3 * (run k x dt st xs).1.2)
  unfold run at h ⊢
  rw [scan_append]
  simp only [List.replicate_succ, scan]
  have hs : (step (coef k x dt) (scan (step (coef k x dt)) st xs).1 (0, 0)).1 =
      (0, (coef k x dt).a2 * (scan (step (coef k x dt)) st xs).1.1 + (coef k x dt).a3 * (scan (step (coef k x dt)) st xs).1.2) := by
    unfold step; simp
  rw [hs, h]

end OW.Proofs.Muskingum
