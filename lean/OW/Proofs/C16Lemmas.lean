import OW.Proofs.RealNum
import OW.Kernels.C16.Units
import OW.Kernels.Basic
import Mathlib.Tactic.Ring
import Mathlib.Tactic.Linarith
import Mathlib.Tactic.NormNum
import Mathlib.Tactic.Positivity
/-!
Helper lemmas for property C16 (partition / conversion / generation identities): the Go `== 0.0` test at ℝ,
the unit constants as rational numbers, and the lifting of a per-timestep fact to a whole series.
-/
namespace OW.C16
open OW OW.Kernels

/-- Go `x == 0.0` at ℝ -/
theorem feq_zero (x : ℝ) : Num.feq x (0.0 : ℝ) = true ↔ x = 0 := by
  rw [RealNum.feq_eq]; norm_num

theorem feq_zero_false (x : ℝ) : Num.feq x (0.0 : ℝ) = false ↔ x ≠ 0 := by
  rw [Ne, ← feq_zero, Bool.not_eq_true]

/-- Go `x == 0` (integer literal) at ℝ -/
theorem feq_zero' (x : ℝ) : Num.feq x (0 : ℝ) = true ↔ x = 0 := by
  rw [RealNum.feq_eq]

/-- Go `x == 0` with the kernel's own literal `0` -/
theorem feq_zero_num (x : ℝ) : Num.feq x (@OfNat.ofNat ℝ 0 (Num.instOfNat 0)) = true ↔ x = 0 := by
  rw [RealNum.feq_eq, RealNum.ofNat_eq, Nat.cast_zero]

/-- the kernels' integer literals `0` and `1` at ℝ -/
theorem num_zero : (@OfNat.ofNat ℝ 0 (Num.instOfNat 0)) = 0 := (RealNum.ofNat_eq 0).trans Nat.cast_zero
theorem num_one : (@OfNat.ofNat ℝ 1 (Num.instOfNat 1)) = 1 := (RealNum.ofNat_eq 1).trans Nat.cast_one

/-- the literal `0.0` of the kernels at ℝ -/
theorem sci_zero : (@OfScientific.ofScientific ℝ Num.toOfScientific 0 true 1) = 0 := by norm_num

/-- normalise the class-projected literals `0`, `1`, `0.0`, `n` and `>`/`≥` of a kernel unfolded at ℝ -/
macro "c16norm" : tactic =>
  `(tactic| simp only [RealNum.ofNat_eq, Nat.cast_zero, Nat.cast_one, Nat.cast_ofNat, gt_iff_lt, ge_iff_le, sci_zero,
      RealNum.zero_eq, RealNum.one_eq, RealNum.gmin_eq, RealNum.gmax_eq, RealNum.pow_eq])
macro "c16norm" "at" h:ident : tactic =>
  `(tactic| simp only [RealNum.ofNat_eq, Nat.cast_zero, Nat.cast_one, Nat.cast_ofNat, gt_iff_lt, ge_iff_le, sci_zero,
      RealNum.zero_eq, RealNum.one_eq, RealNum.gmin_eq, RealNum.gmax_eq, RealNum.pow_eq] at $h:ident)

/-- Two-phase literal normalisation. `RealNum.ofNat_eq` also matches *standard* numerals (the instances unify), so it
must not be in one simp set with `Nat.cast_ofNat`/`Nat.cast_zero`/`Nat.cast_one` (that loops): first turn every numeral
into a cast, then every cast back into a standard numeral. -/
macro "c16lit" : tactic =>
  `(tactic| ((try simp only [RealNum.ofNat_eq]); (try simp only [Nat.cast_ofNat, Nat.cast_one, Nat.cast_zero])))

/-! ### unit constants (values of the Go constant expressions) -/

theorem millimetresToMetres_eq : (Units.millimetresToMetres : ℝ) = 1 / 1000 := by
  simp only [Units.millimetresToMetres]; norm_num
theorem metresToMillimetres_eq : (Units.metresToMillimetres : ℝ) = 1000 := by
  simp only [Units.metresToMillimetres, RealNum.ofNat_eq]
theorem tonnesToKg_eq : (Units.tonnesToKg : ℝ) = 1000 := by
  simp only [Units.tonnesToKg, RealNum.ofNat_eq]
theorem kgToMilligram_eq : (Units.kgToMilligram : ℝ) = 1000000 := by
  simp only [Units.kgToMilligram, RealNum.ofNat_eq]
theorem milligramToKg_eq : (Units.milligramToKg : ℝ) = 1 / 1000000 := by
  simp only [Units.milligramToKg]; norm_num
theorem litresToCubicMetres_eq : (Units.litresToCubicMetres : ℝ) = 1 / 1000 := by
  simp only [Units.litresToCubicMetres]; norm_num
theorem cubicMetresToLitres_eq : (Units.cubicMetresToLitres : ℝ) = 1000 := by
  simp only [Units.cubicMetresToLitres, RealNum.ofNat_eq]
theorem megaLitresToLitres_eq : (Units.megaLitresToLitres : ℝ) = 1000000 := by
  simp only [Units.megaLitresToLitres, RealNum.ofNat_eq]
theorem mgPerLitreToKgPerM3_eq : (Units.mgPerLitreToKgPerM3 : ℝ) = 1 / 1000 := by
  simp only [Units.mgPerLitreToKgPerM3]; norm_num
theorem percentToProportion_eq : (Units.percentToProportion : ℝ) = 1 / 100 := by
  simp only [Units.percentToProportion]; norm_num
theorem squareMetresToHectares_eq : (Units.squareMetresToHectares : ℝ) = 1 / 10000 := by
  simp only [Units.squareMetresToHectares]; norm_num
theorem secondsPerDay_eq : (Units.secondsPerDay : ℝ) = 86400 := by
  simp only [Units.secondsPerDay, RealNum.ofNat_eq]
theorem cumecsToMegaLitresPerDay_eq : (Units.cumecsToMegaLitresPerDay : ℝ) = 864 / 10 := by
  simp only [Units.cumecsToMegaLitresPerDay]; norm_num
theorem daysPerYear_eq : (Units.daysPerYear : ℝ) = 1461 / 4 := by
  simp only [Units.daysPerYear]; norm_num

/-! ### series -/

/-- a fact about every timestep of a loop `out[t] = f(in[t])` holds along the whole series -/
theorem forall₂_map {ι ο : Type} (f : ι → ο) (P : ι → ο → Prop) (h : ∀ x, P x (f x)) (xs : List ι) :
    List.Forall₂ P xs (xs.map f) := by
  induction xs with
  | nil => exact List.Forall₂.nil
  | cons x xs ih => exact List.Forall₂.cons (h x) ih

/-- the untouched (zero-initialised) output series equals the loop's series when the loop would write the same constant -/
theorem replicate_eq_map {ι ο : Type} (f : ι → ο) (c : ο) (h : ∀ x, f x = c) (xs : List ι) (n : Nat)
    (hn : n = xs.length) : List.replicate n c = xs.map f := by
  subst hn
  induction xs with
  | nil => rfl
  | cons x xs ih => simp [List.replicate_succ, h x, ih]

theorem zeros_eq_map {ι : Type} (f : ι → ℝ) (h : ∀ x, f x = 0) (xs : List ι) (n : Nat) (hn : n = xs.length) :
    (zeros n : List ℝ) = xs.map f := by
  unfold zeros
  exact replicate_eq_map f _ (by simpa using h) xs n hn

theorem zip_fst_map {α β : Type} (xs : List α) (ys : List β) (h : xs.length = ys.length) :
    (xs.zip ys).map (·.1) = xs := by
  induction xs generalizing ys with
  | nil => simp
  | cons x xs ih =>
    cases ys with
    | nil => simp at h
    | cons y ys => simp [ih ys (by simpa using h)]

end OW.C16
