import OW.Proofs.GR4JUH
/-!
C15: the GR4J kernel model (mirror of the Go code) and the independent specification OW/Spec/GR4J.lean compute the
same day, hence the same runs: same runoff, same production / routing stores, same unit-hydrograph stores.
-/
namespace OW.RR.GR4J
open OW OW.Kernels.GR4J

theorem numZero : (@OfNat.ofNat ℝ 0 (Num.instOfNat 0)) = 0 := by simp only [RealNum.ofNat_eq, Nat.cast_zero]
theorem sciZero : (@OfScientific.ofScientific ℝ (instNumReal.toOfScientific) 0 true 1) = 0 := by
  rw [OW.RR.Surm.sci]; norm_num

/-- the tanh argument after the numerical safeguard, in real form -/
noncomputable def cap (w : ℝ) : ℝ := if 13 < w then 13 else w

theorem capWs_real (x1 x : ℝ) : capWs x1 x = cap (x / x1) := by
  simp only [capWs, cap, RealNum.ofNat_eq]
  norm_num only

theorem safeguarded_real (w : ℝ) : Spec.GR4J.tanhArgSafeguarded w = cap w := by
  simp only [Spec.GR4J.tanhArgSafeguarded, cap, RealNum.ofNat_eq]

theorem cap_zero : cap 0 = 0 := by unfold cap; norm_num
theorem cap_nonneg {w : ℝ} (h : 0 ≤ w) : 0 ≤ cap w := by unfold cap; split_ifs <;> linarith
theorem cap_le {w : ℝ} : cap w ≤ w := by unfold cap; split_ifs <;> linarith

/-- real form of the code's production branch -/
theorem production_real (x1 S P E : ℝ) :
    production x1 S P E =
      if E < P then
        ((x1 * (1 - (S / x1) ^ 2) * Real.tanh (cap ((P - E) / x1))) / (1 + (S / x1) * Real.tanh (cap ((P - E) / x1))),
          0,
          (P - E) - (x1 * (1 - (S / x1) ^ 2) * Real.tanh (cap ((P - E) / x1))) /
            (1 + (S / x1) * Real.tanh (cap ((P - E) / x1))))
      else
        (0, (S * (2 - S / x1) * Real.tanh (cap ((E - P) / x1))) / (1 + (1 - S / x1) * Real.tanh (cap ((E - P) / x1))), 0) := by
  simp only [production, capWs_real, RealNum.pow_eq, RealNum.tanh_eq, RealNum.ofNat_eq]
  norm_num only
  simp only [Real.rpow_two]

theorem Ps_real (x1 S pn : ℝ) :
    Spec.GR4J.Ps Spec.GR4J.tanhArgSafeguarded x1 S pn =
      (x1 * (1 - (S / x1) ^ 2) * Real.tanh (cap (pn / x1))) / (1 + (S / x1) * Real.tanh (cap (pn / x1))) := by
  simp only [Spec.GR4J.Ps, Spec.GR4J.sq, safeguarded_real, RealNum.tanh_eq, RealNum.ofNat_eq]
  norm_num only
  ring_nf

theorem Es_real (x1 S en : ℝ) :
    Spec.GR4J.Es Spec.GR4J.tanhArgSafeguarded x1 S en =
      (S * (2 - S / x1) * Real.tanh (cap (en / x1))) / (1 + (1 - S / x1) * Real.tanh (cap (en / x1))) := by
  simp only [Spec.GR4J.Es, safeguarded_real, RealNum.tanh_eq, RealNum.ofNat_eq]
  norm_num only

theorem Pn_real (P E : ℝ) : Spec.GR4J.Pn P E = if E ≤ P then P - E else 0 := by
  simp only [Spec.GR4J.Pn, numZero]

theorem En_real (P E : ℝ) : Spec.GR4J.En P E = if E ≤ P then 0 else E - P := by
  simp only [Spec.GR4J.En, numZero]

/-- production: same Ps, Es and Pn − Ps, including the day P = E, where the code takes its evaporation branch
(with zero demand) and the paper its rainfall branch (with zero net rainfall) -/
theorem production_eq (x1 S P E : ℝ) :
    production x1 S P E =
      (Spec.GR4J.Ps Spec.GR4J.tanhArgSafeguarded x1 S (Spec.GR4J.Pn P E),
       Spec.GR4J.Es Spec.GR4J.tanhArgSafeguarded x1 S (Spec.GR4J.En P E),
       Spec.GR4J.Pn P E - Spec.GR4J.Ps Spec.GR4J.tanhArgSafeguarded x1 S (Spec.GR4J.Pn P E)) := by
  rw [production_real, Ps_real, Es_real, Pn_real, En_real]
  by_cases h : E < P
  · rw [if_pos h, if_pos h.le, if_pos h.le]
    simp only [zero_div, cap_zero, Real.tanh_zero, mul_zero]
  · rw [if_neg h]
    by_cases h' : E ≤ P
    · have : E = P := le_antisymm h' (not_lt.mp h)
      subst this
      simp only [le_refl, if_true, sub_self, zero_div, cap_zero, Real.tanh_zero, mul_zero]
    · rw [if_neg h', if_neg h']
      simp only [zero_div, cap_zero, Real.tanh_zero, mul_zero, sub_self]

theorem rpow_four (y : ℝ) : y ^ (4 : ℝ) = y * y * (y * y) := by
  rw [show (4 : ℝ) = ((4 : ℕ) : ℝ) by norm_num, Real.rpow_natCast]; ring

theorem percolation_eq (x1 s : ℝ) : percolation x1 s = Spec.GR4J.Perc x1 s := by
  simp only [percolation, Spec.GR4J.Perc, Spec.GR4J.pow4, Spec.GR4J.sq, RealNum.pow_eq, RealNum.ofNat_eq]
  norm_num only
  simp only [rpow_four]

/-- `R − R/(1+(R/x3)⁴)^(1/4)` (code) is `R·(1 − (1+(R/x3)⁴)^(−1/4))` (paper) -/
theorem routing_eq (x3 r : ℝ) : routingOutflow x3 r = Spec.GR4J.Qr x3 r := by
  simp only [routingOutflow, Spec.GR4J.Qr, Spec.GR4J.pow4, Spec.GR4J.sq, RealNum.pow_eq, RealNum.ofNat_eq]
  norm_num only
  simp only [rpow_four]
  have hb : (0 : ℝ) ≤ 1 + r / x3 * (r / x3) * (r / x3 * (r / x3)) := by nlinarith [mul_self_nonneg (r / x3 * (r / x3))]
  rw [Real.rpow_neg hb]
  generalize (1 + r / x3 * (r / x3) * (r / x3 * (r / x3))) ^ ((1 : ℝ) / 4) = z
  rw [div_eq_mul_inv]
  ring

/-- one day of a unit hydrograph: add-then-shift on a state vector (code) = pending-deliveries bookkeeping of
the convolution (specification), when the ordinate after the last stored one vanishes -/
theorem uh_step_eq (ord : ℕ → ℝ) (q : List ℝ) (hq : 0 < q.length) (pr f : ℝ) (hord : ord (q.length + 1) = 0) :
    head0 (addUH pr f q ((List.range q.length).map (fun i => ord (i + 1)))) = (Spec.GR4J.uhDay ord q (f * pr)).1 ∧
    shift (addUH pr f q ((List.range q.length).map (fun i => ord (i + 1)))) = (Spec.GR4J.uhDay ord q (f * pr)).2 := by
  cases q with
  | nil => simp at hq
  | cons q0 qs =>
    simp only [List.length_cons] at hord ⊢
    rw [List.range_succ_eq_map]
    simp only [List.map_cons, List.map_map, addUH, List.zipWith_cons_cons, head0, List.headD_cons, shift,
      List.tail_cons, Spec.GR4J.uhDay, List.getD_cons_zero, List.getD_cons_succ, sciZero, numZero]
    refine ⟨by ring, ?_⟩
    apply List.ext_getElem
    · simp
    · intro j h1 h2
      simp only [List.length_map, List.length_range, List.length_cons] at h2
      simp only [List.getElem_map, List.getElem_range]
      by_cases hj : j < qs.length
      · rw [List.getElem_append_left (by simpa using hj)]
        simp only [List.getElem_zipWith, List.getElem_map, List.getElem_range, Function.comp]
        rw [List.getD_eq_getElem?_getD, List.getElem?_eq_getElem hj, Option.getD_some]
        ring
      · have hj' : j = qs.length := by omega
        subst hj'
        rw [List.getElem_append_right (by simp)]
        simp only [List.getElem_singleton]
        rw [List.getD_eq_getElem?_getD, List.getElem?_eq_none (le_refl _), Option.getD_none, hord]
        ring

theorem addUH_length (pr f : ℝ) (q uh : List ℝ) (h : q.length = uh.length) : (addUH pr f q uh).length = q.length := by
  simp [addUH, h]

theorem shift_length (a : List ℝ) (h : 0 < a.length) : (shift a).length = a.length := by
  simp only [shift, List.length_append, List.length_tail, List.length_singleton]; omega

theorem max_clip (r : ℝ) [Decidable (r < 0)] : max 0 r = if r < 0 then 0 else r := by
  split_ifs with h
  · exact max_eq_left h.le
  · exact max_eq_right (not_lt.mp h)

theorem pos_eq_clip (t : ℝ) [Decidable (0 < t)] [Decidable (t < 0)] :
    (if 0 < t then t else 0) = if t < 0 then 0 else t := by
  split_ifs <;> linarith

/-- the kernel state seen as a specification state -/
def toSpec (st : State ℝ) : Spec.GR4J.State ℝ := ⟨st.S, st.R, st.q1, st.q9⟩

/-- a state whose unit-hydrograph vectors have the lengths chosen by `initGR4J` -/
def Shaped (x4 : ℝ) (st : State ℝ) : Prop := st.q9.length = ⌈x4⌉₊ ∧ st.q1.length = ⌈2 * x4⌉₊

def toDay (o : Out ℝ) : Spec.GR4J.Day ℝ := ⟨o.runoff, o.qr, o.qd⟩

theorem step_eq_spec (x1 x2 x3 x4 : ℝ) (hx4 : 0 < x4) (st : State ℝ) (hst : Shaped x4 st) (pe : ℝ × ℝ) :
    Spec.GR4J.day Spec.GR4J.tanhArgSafeguarded x1 x2 x3 x4 (toSpec st) pe =
      (toSpec (step x1 x2 x3 (uh1 x4 ⌈x4⌉₊) (uh2 x4 ⌈2 * x4⌉₊) st pe).1,
       toDay (step x1 x2 x3 (uh1 x4 ⌈x4⌉₊) (uh2 x4 ⌈2 * x4⌉₊) st pe).2) ∧
    Shaped x4 (step x1 x2 x3 (uh1 x4 ⌈x4⌉₊) (uh2 x4 ⌈2 * x4⌉₊) st pe).1 := by
  obtain ⟨h9, h1⟩ := hst
  have hn1 : 0 < ⌈x4⌉₊ := Nat.ceil_pos.mpr hx4
  have hn2 : 0 < ⌈2 * x4⌉₊ := Nat.ceil_pos.mpr (by linarith)
  have hu9 := fun pr => uh_step_eq (Spec.GR4J.UH1 x4) st.q9 (by omega) pr 0.9
    (UH1_beyond x4 hx4 _ (by omega))
  have hu1 := fun pr => uh_step_eq (Spec.GR4J.UH2 x4) st.q1 (by omega) pr 0.1
    (UH2_beyond x4 hx4 _ (by omega))
  rw [h9, ← uh1_eq_spec x4 hx4] at hu9
  rw [h1, ← uh2_eq_spec x4 hx4] at hu1
  have e9 := fun pr => (hu9 pr).1
  have s9 := fun pr => (hu9 pr).2
  have e1 := fun pr => (hu1 pr).1
  have s1 := fun pr => (hu1 pr).2
  refine ⟨?_, ?_, ?_⟩
  · simp only [Spec.GR4J.day, step, toSpec, toDay, production_eq, percolation_eq, routing_eq, Spec.GR4J.F,
      RealNum.gmax_eq, numZero, sciZero, ← e9, ← s9, ← e1, ← s1, max_clip, pos_eq_clip]
  · show (shift (addUH _ _ st.q9 (uh1 x4 ⌈x4⌉₊))).length = ⌈x4⌉₊
    rw [shift_length _ (by rw [addUH_length _ _ _ _ (by rw [uh1_length, h9])]; omega),
      addUH_length _ _ _ _ (by rw [uh1_length, h9]), h9]
  · show (shift (addUH _ _ st.q1 (uh2 x4 ⌈2 * x4⌉₊))).length = ⌈2 * x4⌉₊
    rw [shift_length _ (by rw [addUH_length _ _ _ _ (by rw [uh2_length, h1])]; omega),
      addUH_length _ _ _ _ (by rw [uh2_length, h1]), h1]
/-- whole runs: the specification started from the same stores produces the kernel's runoff series, the kernel's
final production/routing stores and unit-hydrograph stores -/
theorem run_eq_spec (x1 x2 x3 x4 : ℝ) (hx4 : 0 < x4) (xs : List (ℝ × ℝ)) :
    ∀ (st : State ℝ), Shaped x4 st →
    Spec.GR4J.run Spec.GR4J.tanhArgSafeguarded x1 x2 x3 x4 (toSpec st) xs =
      (toSpec (run x1 x2 x3 x4 ⌈x4⌉₊ ⌈2 * x4⌉₊ st xs).1, (run x1 x2 x3 x4 ⌈x4⌉₊ ⌈2 * x4⌉₊ st xs).2.map toDay) ∧
    Shaped x4 (run x1 x2 x3 x4 ⌈x4⌉₊ ⌈2 * x4⌉₊ st xs).1 := by
  induction xs with
  | nil => intro st hst; exact ⟨rfl, hst⟩
  | cons x xs ih =>
    intro st hst
    obtain ⟨h1, h2⟩ := step_eq_spec x1 x2 x3 x4 hx4 st hst x
    obtain ⟨i1, i2⟩ := ih _ h2
    unfold Spec.GR4J.run at i1 ⊢
    unfold run at i1 i2 ⊢
    refine ⟨?_, ?_⟩
    · simp only [scan, h1, i1, List.map_cons]
    · simp only [scan]; exact i2

/-- the safeguard on the tanh argument is inactive as long as |P − E| ≤ 13·x1: the safeguarded specification then
is the specification exactly as printed in the paper -/
theorem day_published_eq (x1 x2 x3 x4 : ℝ) (hx1 : 0 < x1) (st : Spec.GR4J.State ℝ) (pe : ℝ × ℝ)
    (h : |pe.1 - pe.2| ≤ 13 * x1) :
    Spec.GR4J.day Spec.GR4J.tanhArgPublished x1 x2 x3 x4 st pe =
      Spec.GR4J.day Spec.GR4J.tanhArgSafeguarded x1 x2 x3 x4 st pe := by
  have hc : ∀ w : ℝ, w ≤ 13 → Spec.GR4J.tanhArgSafeguarded w = Spec.GR4J.tanhArgPublished w := by
    intro w hw
    rw [safeguarded_real]; unfold cap Spec.GR4J.tanhArgPublished
    rw [if_neg (not_lt.mpr hw)]
  obtain ⟨h1, h2⟩ := abs_le.mp h
  have hpn : Spec.GR4J.Pn pe.1 pe.2 / x1 ≤ 13 := by
    rw [Pn_real, div_le_iff₀ hx1]; split_ifs <;> nlinarith
  have hen : Spec.GR4J.En pe.1 pe.2 / x1 ≤ 13 := by
    rw [En_real, div_le_iff₀ hx1]; split_ifs <;> nlinarith
  simp only [Spec.GR4J.day, Spec.GR4J.Ps, Spec.GR4J.Es, hc _ hpn, hc _ hen]

theorem run_published_eq (x1 x2 x3 x4 : ℝ) (hx1 : 0 < x1) (xs : List (ℝ × ℝ))
    (h : ∀ pe ∈ xs, |pe.1 - pe.2| ≤ 13 * x1) (st : Spec.GR4J.State ℝ) :
    Spec.GR4J.run Spec.GR4J.tanhArgPublished x1 x2 x3 x4 st xs =
      Spec.GR4J.run Spec.GR4J.tanhArgSafeguarded x1 x2 x3 x4 st xs := by
  induction xs generalizing st with
  | nil => rfl
  | cons x xs ih =>
    unfold Spec.GR4J.run at ih ⊢
    simp only [scan, day_published_eq x1 x2 x3 x4 hx1 st x (h x (List.mem_cons_self ..)),
      ih (fun pe hpe => h pe (List.mem_cons_of_mem _ hpe))]

end OW.RR.GR4J
