import OW.Proofs.C16Lemmas
import OW.Kernels.C16.BankErosion
import OW.Kernels.C16.SednetGully
import OW.Kernels.C16.UsleFine
/-!
Helper lemmas for the sediment-generation part of C16 (bank erosion, gully models, USLE): literal values, the
kernels' branch conditions over ℝ, closed forms of intermediate quantities and their signs.
-/
namespace OW.C16
open OW OW.Kernels

/-- the literals `1000.0`, `9.81`, `0.01`, `1.0`, `365.25` of the kernels at ℝ -/
theorem lit_1000 : (@OfScientific.ofScientific ℝ Num.toOfScientific 10000 true 1) = 1000 := by norm_num
theorem lit_981 : (@OfScientific.ofScientific ℝ Num.toOfScientific 981 true 2) = 981 / 100 := by norm_num
theorem lit_001 : (@OfScientific.ofScientific ℝ Num.toOfScientific 1 true 2) = 1 / 100 := by norm_num
theorem lit_10 : (@OfScientific.ofScientific ℝ Num.toOfScientific 10 true 1) = 1 := by norm_num
theorem lit_36525 : (@OfScientific.ofScientific ℝ Num.toOfScientific 36525 true 2) = 1461 / 4 := by norm_num

theorem bankErosion_ldf (p : BankErosion.Params ℝ) (outflow tv : ℝ) :
    BankErosion.linkDischargeFactor p outflow tv =
      if tv ≤ 0 ∨ outflow ≤ 0 ∨ p.longTermAvDailyFlow ≤ 0 then 0
      else (outflow * p.durationInSeconds) ^ p.dailyFlowPowerFactor / p.longTermAvDailyFlow := by
  simp only [BankErosion.linkDischargeFactor, Bool.or_eq_true, decide_eq_true_eq, RealNum.pow_eq, or_assoc]
  c16lit

/-- the mean annual bank erosion is non-negative for non-negative parameters (vegetation cover ≤ 100 %) -/
theorem bankErosion_meanAnnual_nonneg (p : BankErosion.Params ℝ)
    (h1 : p.riparianVegPercent ≤ 100) (h2 : 0 ≤ p.soilErodibility) (h3 : 0 ≤ p.bankErosionCoeff)
    (h4 : 0 ≤ p.linkSlope) (h5 : 0 ≤ p.bankFullFlow) (h6 : 0 ≤ p.bankMgtFactor) (h7 : 0 ≤ p.sedBulkDensity)
    (h8 : 0 ≤ p.bankHeight) (h9 : 0 ≤ p.linkLength) : 0 ≤ BankErosion.meanAnnualBankErosion p := by
  simp only [BankErosion.meanAnnualBankErosion, RealNum.gmin_eq, lit_1000, lit_981]
  c16lit
  have hm : min (p.riparianVegPercent / 100) (p.maxRiparianVegEffectiveness / 100) ≤ 1 :=
    le_trans (min_le_left _ _) (by rw [div_le_one (by norm_num)]; exact h1)
  have e : 0 ≤ 1 - min (p.riparianVegPercent / 100) (p.maxRiparianVegEffectiveness / 100) := by linarith
  positivity

/-- on the generating branch the step is the export function's loads per second and their delivered parts -/
theorem gully_step_active (f : SednetGully.ExportFn ℝ) (p : SednetGully.Params ℝ) (q yr ar al : ℝ)
    (hq : q ≠ 0) (har : ar ≠ 0) (hy : ¬ yr < p.yearDisturbance) :
    SednetGully.step f p (q, yr, ar, al) =
      let loads := f q ar p.area (p.percentFine / 100) (SednetGully.activityFactor p yr) p.managementPracticeFactor
        al p.annualAverageSedimentSupply p.longtermRunoffFactor p.dailyRunoffPowerFactor
      ⟨loads.1 / p.timestepInSeconds * (p.sdrFine * (1 / 100)), loads.2 / p.timestepInSeconds * (p.sdrCoarse * (1 / 100)),
       loads.1 / p.timestepInSeconds, loads.2 / p.timestepInSeconds⟩ := by
  simp only [SednetGully.step, Bool.or_eq_true, feq_zero_num, lit_001]
  rw [if_neg hy, if_neg (by tauto)]

theorem gully_activity (p : SednetGully.Params ℝ) (yr : ℝ) :
    SednetGully.activityFactor p yr = if p.gullyEndYear < yr then p.averageGullyActivityFactor else 1 := by
  simp only [SednetGully.activityFactor, gt_iff_lt, lit_10]

theorem gully_activity_nonneg (p : SednetGully.Params ℝ) (h : 0 ≤ p.averageGullyActivityFactor) (yr : ℝ) :
    0 ≤ SednetGully.activityFactor p yr := by
  rw [gully_activity]; split_ifs
  · exact h
  · norm_num

/-- the daily runoff factor of `gullyLoadOrig` is non-negative for non-negative runoff (the only division is by a
positive long-term runoff factor) -/
theorem gully_dailyRunoffFactor_nonneg (q ltrf drpf : ℝ) (hq : 0 ≤ q) : 0 ≤ SednetGully.dailyRunoffFactor q ltrf drpf := by
  simp only [SednetGully.dailyRunoffFactor, gt_iff_lt, RealNum.pow_eq, lit_10]
  c16lit
  split_ifs with h
  · exact div_nonneg (Real.rpow_nonneg hq _) (le_of_lt h)
  · exact div_nonneg (Real.rpow_nonneg hq _) (le_of_lt h)
  · norm_num


/-! ### USLE -/

/-- `qf · CUBIC_METRES_PER_SECOND_TO_MEGA_LITRES_PER_DAY · MEGA_LITRES_TO_LITRES` = litres per day -/
theorem usle_litresPerDay (qf : ℝ) : UsleFine.litresPerDay qf = qf * 86400000 := by
  simp only [UsleFine.litresPerDay, cumecsToMegaLitresPerDay_eq, megaLitresToLitres_eq]; ring

/-- without erosive rainfall (`rain ≤ RainThreshold`) the erosivity is zero -/
theorem usle_rFactor_no_rain (p : UsleFine.Params ℝ) (rain doy : ℝ) (h : ¬ p.rainThreshold < rain) :
    UsleFine.rFactor p rain doy = 0 := by
  simp only [UsleFine.rFactor, gt_iff_lt, sci_zero]
  rw [if_neg h]

/-- the maximum-concentration cap multiplies the fine and the coarse rate by one common factor `adj` (1 when the cap
is not hit); `adj ≥ 0` for a non-negative `maxConc`, and where the cap is hit the divisor
`currentFineSedMassKg = fine·area·1e-4·1e3` is positive -/
theorem usle_adjustedRates (p : UsleFine.Params ℝ) (qf fine coarse : ℝ) :
    ∃ adj, UsleFine.adjustedRates p qf fine coarse = (fine * adj, coarse * adj) ∧
      (0 ≤ p.maxConc → 0 < qf → 0 ≤ fine → 0 ≤ p.area → 0 ≤ adj) ∧
      (adj ≠ 1 → 0 ≤ p.maxConc → 0 < qf → 0 ≤ fine → 0 ≤ p.area → 0 < fine * p.area * (1 / 10000) * 1000) := by
  simp only [UsleFine.adjustedRates, usle_litresPerDay, squareMetresToHectares_eq, tonnesToKg_eq, kgToMilligram_eq,
    gt_iff_lt]
  split_ifs with h
  · refine ⟨_, rfl, ?_, ?_⟩
    · intro h1 h2 h3 h4; positivity
    · intro _ h1 h2 h3 h4
      have hl : 0 < qf * 86400000 := by positivity
      have hc : 0 < fine * p.area * (1 / 10000) * 1000 * 1000000 / (qf * 86400000) := lt_of_le_of_lt h1 h
      have hn : 0 < fine * p.area * (1 / 10000) * 1000 * 1000000 := by
        by_contra hh
        exact absurd hc (not_lt.mpr (div_nonpos_of_nonpos_of_nonneg (not_lt.mp hh) (le_of_lt hl)))
      linarith
  · exact ⟨1, by rw [mul_one, mul_one], fun _ _ _ _ => zero_le_one, fun h => absurd rfl h⟩

/-- unfold one timestep into `if 0 < qf ∧ 0 < R·KLSC then … else …` over ℝ -/
macro "usle_unfold" : tactic =>
  `(tactic| simp only [UsleFine.step, Bool.false_eq_true, if_false, Bool.and_eq_true, decide_eq_true_eq, gt_iff_lt,
      mgPerLitreToKgPerM3_eq, squareMetresToHectares_eq, tonnesToKg_eq, lit_001, sci_zero, num_zero])


end OW.C16
