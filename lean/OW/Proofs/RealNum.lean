import OW.Num
import Mathlib.Analysis.SpecialFunctions.Pow.Real
import Mathlib.Analysis.SpecialFunctions.Log.Base
import Mathlib.Analysis.SpecialFunctions.Sqrt
import Mathlib.Analysis.Complex.Trigonometric
/-!
The `ℝ` instance of `Num`: every field is the Mathlib operation, so a kernel unfolded at `ℝ` is ordinary
real arithmetic. Theorems proved through this instance are about EXACT real arithmetic; IEEE rounding,
overflow and NaN are modelled by execution only (the `Float` instance).
-/
namespace OW

noncomputable instance instNumReal : Num ℝ where
  toAdd := inferInstance
  toSub := inferInstance
  toMul := inferInstance
  toDiv := inferInstance
  toNeg := inferInstance
  toLT := inferInstance
  toLE := inferInstance
  toOfScientific := inferInstance
  default := 0
  decLt := fun _ _ => Classical.propDecidable _
  decLe := fun _ _ => Classical.propDecidable _
  feq := fun a b => @decide (a = b) (Classical.propDecidable _)
  zero := 0
  one := 1
  ofNat := fun n => (n : ℝ)
  ofInt := fun n => (n : ℝ)
  exp := Real.exp
  pow := fun x y => x ^ y
  log := Real.log
  log10 := Real.logb 10
  tanh := Real.tanh
  cos := Real.cos
  sqrt := Real.sqrt
  abs := fun x => |x|
  floor := fun x => (⌊x⌋ : ℝ)
  ceil := fun x => (⌈x⌉ : ℝ)
  toInt := fun x => if 0 ≤ x then ⌊x⌋ else ⌈x⌉
  isNaN := fun _ => false
  nan := 0
  gmin := min
  gmax := max

namespace RealNum

@[simp] theorem ofNat_eq (n : Nat) : (@OfNat.ofNat ℝ n (Num.instOfNat n)) = (n : ℝ) := rfl


@[simp] theorem zero_eq : (Num.zero : ℝ) = 0 := rfl
@[simp] theorem one_eq : (Num.one : ℝ) = 1 := rfl
@[simp] theorem gmin_eq (a b : ℝ) : Num.gmin a b = min a b := rfl
@[simp] theorem gmax_eq (a b : ℝ) : Num.gmax a b = max a b := rfl
@[simp] theorem exp_eq (a : ℝ) : Num.exp a = Real.exp a := rfl
@[simp] theorem pow_eq (a b : ℝ) : Num.pow a b = a ^ b := rfl
@[simp] theorem tanh_eq (a : ℝ) : Num.tanh a = Real.tanh a := rfl
@[simp] theorem abs_eq (a : ℝ) : Num.abs a = |a| := rfl
@[simp] theorem sqrt_eq (a : ℝ) : Num.sqrt a = Real.sqrt a := rfl
@[simp] theorem isNaN_eq (a : ℝ) : Num.isNaN a = false := rfl
@[simp] theorem feq_eq (a b : ℝ) : (Num.feq a b = true) ↔ a = b := by
  simp [Num.feq]

theorem pmin_eq (a b : ℝ) : Num.pmin a b = min a b := by
  unfold Num.pmin; split_ifs with h
  · exact (min_eq_right (le_of_lt h)).symm
  · exact (min_eq_left (not_lt.mp h)).symm

theorem pmax_eq (a b : ℝ) : Num.pmax a b = max a b := by
  unfold Num.pmax; split_ifs with h
  · exact (max_eq_left (le_of_lt h)).symm
  · exact (max_eq_right (not_lt.mp h)).symm

end RealNum
end OW
