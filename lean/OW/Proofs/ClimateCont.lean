import OW.Proofs.ClimateBisect
import Mathlib.Analysis.SpecialFunctions.Pow.Continuity
import Mathlib.Analysis.SpecialFunctions.Log.Basic
/-!
Continuity of the functions searched by the wet-bulb bisection (C20), at `α := ℝ`: each Goff-Gratch branch of `vaporPressure`
is continuous on its own side of 0 °C, and `satEnthalpy pa` is continuous on any set on one side of 0 °C on which the saturation
vapour pressure differs from the atmospheric pressure (the divisor `pa − vp` of `humidityRatio`).
At 0 °C itself `vaporPressure` JUMPS (see `OW.Proofs.ClimateFreezing`), so no continuity statement spans the freezing point.
-/
namespace OW.Proofs.Climate
open OW OW.Kernels.Climate Set

theorem logb10_continuousAt {z : ℝ} (hz : z ≠ 0) : ContinuousAt (fun z => Real.logb 10 z) z := by
  unfold Real.logb
  exact (Real.continuousAt_log hz).div_const _

theorem expWater_continuousAt {z : ℝ} (hz : z ≠ 0) : ContinuousAt expWater z := by
  unfold expWater
  have h1 : ContinuousAt (fun z : ℝ => (10:ℝ) ^ ((1 - 1 / z) * 11.344)) z := by
    apply ContinuousAt.rpow continuousAt_const _ (Or.inl (by norm_num))
    exact ((continuousAt_const.sub (continuousAt_const.div continuousAt_id hz)).mul continuousAt_const)
  have h2 : ContinuousAt (fun z : ℝ => (10:ℝ) ^ (-3.49149 * (z - 1))) z := by
    apply ContinuousAt.rpow continuousAt_const _ (Or.inl (by norm_num))
    exact continuousAt_const.mul (continuousAt_id.sub continuousAt_const)
  exact ((((continuousAt_id.sub continuousAt_const).mul continuousAt_const).add
    ((logb10_continuousAt hz).mul continuousAt_const)).add
    ((h1.sub continuousAt_const).mul continuousAt_const)).add ((h2.sub continuousAt_const).mul continuousAt_const)

theorem expIce_continuousAt {z : ℝ} (hz : z ≠ 0) : ContinuousAt expIce z := by
  unfold expIce
  exact (((continuousAt_const.mul (continuousAt_id.sub continuousAt_const)).add
    (continuousAt_const.mul (logb10_continuousAt hz))).add
    (continuousAt_const.mul (continuousAt_const.sub (continuousAt_const.div continuousAt_id hz)))).add continuousAt_const

/-- the closed form `101.325 · 10^(e (c / (t + 273.16)))` is continuous at every `t > −273.16` -/
theorem branch_continuousAt (e : ℝ → ℝ) (c : ℝ) (hc : 0 < c) (he : ∀ z, z ≠ 0 → ContinuousAt e z)
    {t : ℝ} (ht : -273.16 < t) : ContinuousAt (fun t : ℝ => 101.325 * (10:ℝ) ^ e (c / (t + 273.16))) t := by
  have hta : t + 273.16 ≠ 0 := by linarith
  have hz : c / (t + 273.16) ≠ 0 := div_ne_zero (ne_of_gt hc) hta
  have hzc : ContinuousAt (fun t : ℝ => c / (t + 273.16)) t :=
    continuousAt_const.div (continuousAt_id.add continuousAt_const) hta
  have hec : ContinuousAt (fun t : ℝ => e (c / (t + 273.16))) t :=
    ContinuousAt.comp (f := fun t : ℝ => c / (t + 273.16)) (he _ hz) hzc
  exact continuousAt_const.mul (ContinuousAt.rpow continuousAt_const hec (Or.inl (by norm_num)))

/-- the water branch: `vaporPressure` is continuous on (0, ∞) -/
theorem vaporPressure_continuousOn_water : ContinuousOn (vaporPressure : ℝ → ℝ) (Ioi 0) := by
  have hcf : ContinuousOn (fun t : ℝ => 101.325 * (10:ℝ) ^ expWater (373.16 / (t + 273.16))) (Ioi 0) := by
    intro t ht
    have ht' : (0:ℝ) < t := ht
    exact (branch_continuousAt expWater 373.16 (by norm_num) (fun z hz => expWater_continuousAt hz)
      (by linarith)).continuousWithinAt
  exact hcf.congr (fun t ht => vp_water t ht)

/-- the ice branch: `vaporPressure` is continuous on (−273.16, 0] (as a function on that set) -/
theorem vaporPressure_continuousOn_ice : ContinuousOn (vaporPressure : ℝ → ℝ) (Ioc (-273.16) 0) := by
  have hcf : ContinuousOn (fun t : ℝ => 101.325 * (10:ℝ) ^ expIce (273.16 / (t + 273.16))) (Ioc (-273.16) 0) := by
    intro t ht
    exact (branch_continuousAt expIce 273.16 (by norm_num) (fun z hz => expIce_continuousAt hz) ht.1).continuousWithinAt
  exact hcf.congr (fun t ht => vp_ice t (not_lt.mpr ht.2))

/-- `satEnthalpy pa` in closed form -/
theorem satEnthalpy_eq (pa x : ℝ) :
    satEnthalpy pa x = 1.006 * x + (1.84 * x + 2501) * (0.62198 * vaporPressure x / (pa - vaporPressure x)) := by
  unfold satEnthalpy enthalpy humidityRatio
  simp only [ofNat_lit 2501]

/-- `satEnthalpy pa` is continuous on every set on which `vaporPressure` is, and on which `pa − vp ≠ 0` -/
theorem satEnthalpy_continuousOn (pa : ℝ) (S : Set ℝ) (hvp : ContinuousOn (vaporPressure : ℝ → ℝ) S)
    (hne : ∀ x ∈ S, pa - vaporPressure x ≠ 0) : ContinuousOn (satEnthalpy pa) S := by
  have : ContinuousOn (fun x : ℝ =>
      1.006 * x + (1.84 * x + 2501) * (0.62198 * vaporPressure x / (pa - vaporPressure x))) S :=
    (continuousOn_const.mul continuousOn_id).add
      (((continuousOn_const.mul continuousOn_id).add continuousOn_const).mul
        ((continuousOn_const.mul hvp).div (continuousOn_const.sub hvp) hne))
  exact this.congr (fun x _ => satEnthalpy_eq pa x)

end OW.Proofs.Climate
