import OW.Sim.Json
import OW.Proofs.NdGeo
/-!
Helper lemmas for C17: what `JsonSafeArray` computes.

* `Regular v` — the part of the view invariant the recursion needs (`OffsetStep = Step ⊙ Offset`, equal lengths); implied
  by `Geo` (hence by `Reach`), and — unlike `Geo` — preserved by the odd `Slice(from, to, step)` of the Go code, whose
  `dims` argument is `to` (zeros left of the shift dimension, the loop counter at it).
* `nest dims g` — the dims-shaped nesting of `g` over all multi-indices inside `dims`.
* `jsonSafeArrayF_spec` — by induction on the number of dimensions right of the shift dimension.
-/
namespace OW.Sim.Json
open OW.Nd

section
variable {α : Type} [JNum α]

/-- the part of the structural invariant of a view that `JsonSafeArray` relies on -/
structure Regular (v : View) : Prop where
  rank_step : v.step.length = v.dims.length
  rank_offset : v.offset.length = v.dims.length
  offStep_eq : v.offStep = mulL v.step v.offset

theorem Regular.of_geo {v : View} (g : Geo v) : Regular v := ⟨g.rank_step, g.rank_offset, g.offStep_eq⟩

theorem Regular.rank_offStep {v : View} (r : Regular v) : v.offStep.length = v.dims.length := by
  rw [r.offStep_eq, mulL_length _ _ (by rw [r.rank_step, r.rank_offset]), r.rank_step]

/-- the dims-shaped nesting of `g`: one array level per extent, leaves `JsonSafeValue (g idx)` in row-major order -/
def nest : Idx → (Idx → α) → List (JVal α)
  | [], _ => []
  | [d], g => (List.range d.toNat).map fun (i : Nat) => jsonSafeValue (g [(i : Int)])
  | d :: d2 :: ds, g => (List.range d.toNat).map fun (i : Nat) => JVal.arr (nest (d2 :: ds) fun t => g ((i : Int) :: t))

/-! ### list plumbing -/

theorem mapM_ok {β γ : Type} (f : β → R γ) (g : β → γ) :
    ∀ (l : List β), (∀ x ∈ l, f x = .ok (g x)) → l.mapM f = .ok (l.map g)
  | [], _ => rfl
  | x :: xs, h => by
    rw [List.mapM_cons, h x (by simp), mapM_ok f g xs (fun y hy => h y (by simp [hy]))]
    rfl

theorem uniform_set_zero (m : Nat) (i : Int) : (uniform (m + 1) 0).set 0 i = i :: uniform m 0 := by
  simp [uniform_succ]

theorem uniform_set_succ (m sd : Nat) (i : Int) :
    (uniform (m + 1) 0).set (sd + 1) i = 0 :: (uniform m 0).set sd i := by
  simp [uniform_succ]

/-- `from` of iteration `i` plus an index with zeros up to and including the shift dimension address the same element
as the index with `i` at the shift dimension -/
theorem dot_from_tail (i : Int) : ∀ (sd n : Nat) (o tail : Idx), sd < n →
    dot ((uniform n 0).set sd i) o + dot (uniform (sd + 1) 0 ++ tail) o = dot (uniform sd 0 ++ i :: tail) o
  | _, 0, _, _, h => by omega
  | 0, m + 1, [], tail, _ => by simp
  | 0, m + 1, x :: os, tail, _ => by
    rw [uniform_set_zero]
    simp [uniform]
    have := dot_zeros m os
    simp only [uniform] at this
    omega
  | sd + 1, m + 1, [], tail, _ => by simp
  | sd + 1, m + 1, x :: os, tail, h => by
    rw [uniform_set_succ]
    have ih := dot_from_tail i sd m os tail (by omega)
    simp only [uniform_succ, List.cons_append, dot_cons] at ih ⊢
    omega

theorem uniform_set_last (sd : Nat) (i : Int) : (uniform (sd + 1) 0).set sd i = uniform sd 0 ++ [i] := by
  induction sd with
  | zero => simp [uniform]
  | succ n ih => rw [uniform_set_succ, ih]; simp [uniform_succ]

theorem fillTo_length (shape : Idx) (sd : Nat) : (fillTo shape sd).length = shape.length := by
  simp [fillTo]

theorem mapIdx_drop_aux (sd : Nat) : ∀ (shape : Idx) (k : Nat), sd < k →
    (List.mapIdx (fun i d => if sd < i + k then d else (0 : Int)) shape) = shape
  | [], _, _ => rfl
  | x :: xs, k, h => by
    rw [List.mapIdx_cons]
    have : sd < 0 + k := by omega
    simp only [this, if_true]
    congr 1
    have := mapIdx_drop_aux sd xs (k + 1) (by omega)
    simpa [Nat.add_assoc, Nat.add_comm 1 k] using this

/-- right of the shift dimension `to` carries the extents of the array -/
theorem fillTo_set_drop (i : Int) : ∀ (shape : Idx) (sd : Nat),
    (((fillTo shape sd).set sd i).drop (sd + 1)) = shape.drop (sd + 1)
  | [], sd => by simp [fillTo]
  | x :: xs, 0 => by
    simp only [fillTo, List.mapIdx_cons, List.set_cons_zero, List.drop_succ_cons, List.drop_zero]
    have := mapIdx_drop_aux 0 xs 1 (by omega)
    simpa using this
  | x :: xs, sd + 1 => by
    have ih := fillTo_set_drop i xs sd
    simp only [fillTo, List.mapIdx_cons, List.set_cons_succ, List.drop_succ_cons] at ih ⊢
    have e : (List.mapIdx (fun i d => if sd + 1 < i + 1 then d else (0 : Int)) xs)
        = (List.mapIdx (fun i d => if sd < i then d else (0 : Int)) xs) := by
      congr 1; funext j d; simp
    rw [e]; exact ih

theorem drop_eq_cons_of_lt {l : Idx} {n : Nat} (h : n < l.length) : l.drop n = l[n] :: l.drop (n + 1) := by
  rw [List.drop_eq_getElem_cons h]

/-! ### the sub-view of one iteration -/

/-- `a` with other extents and another start: what `Slice(from, to, ones)` returns -/
def subArr (a : Arr) (toI : Idx) (st : Int) : Arr := { a with v := { a.v with dims := toI, start := st } }

/-- `vals.Slice(from, to, step)` of iteration `i` never panics on a regular view; it keeps storage window, strides and
steps, moves `Start` by `i` strides of the shift dimension, and has `to` as its extents -/
theorem slice_iter {a : Arr} (r : Regular a.v) (fromI toI : Idx) (hf : fromI.length = a.v.dims.length) :
    slice a fromI toI (some (a.v.newIndex 1)) =
      .ok (subArr a toI (a.v.start + dot fromI a.v.offStep)) := by
  have h1 : dotProduct fromI a.v.offStep = .ok (dot fromI a.v.offStep) :=
    dotProduct_ok _ _ (by rw [r.rank_offStep, hf])
  have h2 : multiply a.v.step (a.v.newIndex 1) = .ok a.v.step := by
    rw [multiply_ok _ _ (by simp [View.newIndex, View.ndims, r.rank_step])]
    have := mulL_ones_right a.v.step
    rw [r.rank_step] at this
    simp only [View.newIndex, View.ndims]
    rw [this]
  have h3 : multiply a.v.step a.v.offset = .ok a.v.offStep := by
    rw [multiply_ok _ _ (by rw [r.rank_step, r.rank_offset]), r.offStep_eq]
  simp only [slice, View.sliceInto, h1, h2, h3, bind, Except.bind, pure, Except.pure, subArr]

omit [JNum α] in
/-- reading through the sub-view = reading through the array at the shifted index -/
theorem get_sub (h : Heap α) {a : Arr} (r : Regular a.v) (fromI toI idx : Idx)
    (_hf : fromI.length = a.v.dims.length) (hi : idx.length = a.v.dims.length) :
    Nd.get h (subArr a toI (a.v.start + dot fromI a.v.offStep)) idx =
      (readAt h a (a.v.start + (dot fromI a.v.offStep + dot idx a.v.offStep))) := by
  have h1 : View.indexAux idx a.v.offStep = .ok (dot idx a.v.offStep) :=
    indexAux_ok _ _ (by rw [r.rank_offStep, hi])
  simp only [Nd.get, View.index, subArr, h1, bind, Except.bind, pure, Except.pure]
  rw [Int.add_assoc]
  rfl

omit [JNum α] in
theorem get_eq_readAt (h : Heap α) {a : Arr} (r : Regular a.v) (idx : Idx) (hi : idx.length = a.v.dims.length) :
    Nd.get h a idx = readAt h a (a.v.start + dot idx a.v.offStep) := by
  have h1 : View.indexAux idx a.v.offStep = .ok (dot idx a.v.offStep) :=
    indexAux_ok _ _ (by rw [r.rank_offStep, hi])
  simp only [Nd.get, View.index, h1, bind, Except.bind, pure, Except.pure]

theorem inBounds_length' {i d : Idx} (h : InBounds i d) : i.length = d.length := h.length

/-- the sub-view of iteration `i` at shift dimension `sd` -/
def iterSub (a : Arr) (sd : Nat) (i : Nat) : Arr :=
  subArr a ((fillTo a.v.dims sd).set sd (i : Int))
    (a.v.start + dot ((a.v.newIndex 0).set sd (i : Int)) a.v.offStep)

omit [JNum α] in
theorem iterSub_props (h : Heap α) {a : Arr} (r : Regular a.v) {sd : Nat} (hsd : sd < a.v.dims.length) (i : Nat) :
    Regular (iterSub a sd i).v ∧ (iterSub a sd i).v.dims.length = a.v.dims.length ∧
    (iterSub a sd i).v.dims.drop (sd + 1) = a.v.dims.drop (sd + 1) ∧
    (∀ tail : Idx, tail.length = a.v.dims.length - (sd + 1) →
      Nd.get h (iterSub a sd i) (uniform (sd + 1) 0 ++ tail) = Nd.get h a (uniform sd 0 ++ (i : Int) :: tail)) := by
  have htl : ((fillTo a.v.dims sd).set sd (i : Int)).length = a.v.dims.length := by simp [fillTo_length]
  have hfl : ((a.v.newIndex 0).set sd (i : Int)).length = a.v.dims.length := by
    simp [View.newIndex, View.ndims]
  refine ⟨⟨?_, ?_, r.offStep_eq⟩, htl, fillTo_set_drop (i : Int) a.v.dims sd, ?_⟩
  · show a.v.step.length = ((fillTo a.v.dims sd).set sd (i : Int)).length
    rw [htl, r.rank_step]
  · show a.v.offset.length = ((fillTo a.v.dims sd).set sd (i : Int)).length
    rw [htl, r.rank_offset]
  · intro tail hlt
    have hidx : (uniform (sd + 1) 0 ++ tail).length = a.v.dims.length := by
      simp [hlt]; omega
    unfold iterSub
    rw [get_sub h r _ _ _ hfl hidx]
    have hd := dot_from_tail (i : Int) sd a.v.dims.length a.v.offStep tail hsd
    simp only [View.newIndex, View.ndims]
    rw [hd, get_eq_readAt h r _ (by simp [hlt]; omega)]

/-! ### the recursion -/

/-- `JsonSafeArray` on a regular view, for a shift dimension with `k` dimensions to its right: the nesting of the
elements whose indices are 0 left of the shift dimension. -/
theorem jsonSafeArrayF_spec (h : Heap α) :
    ∀ (k fuel : Nat) (a : Arr) (sd : Nat) (g : Idx → α),
      Regular a.v → sd + k + 1 = a.v.dims.length → k < fuel →
      (∀ d ∈ a.v.dims.drop sd, 0 ≤ d) →
      (∀ tail, InBounds tail (a.v.dims.drop sd) → Nd.get h a (uniform sd 0 ++ tail) = .ok (g tail)) →
      jsonSafeArrayF h fuel a (sd : Int) = .ok (nest (a.v.dims.drop sd) g) := by
  intro k
  induction k with
  | zero =>
    intro fuel a sd g r hn hfuel hpos hget
    obtain ⟨f, rfl⟩ : ∃ f, fuel = f + 1 := ⟨fuel - 1, by omega⟩
    have hsd : sd < a.v.dims.length := by omega
    have hdrop : a.v.dims.drop sd = [a.v.dims[sd]] := by
      rw [drop_eq_cons_of_lt hsd, List.drop_eq_nil_of_le (by omega)]
    have hd0 : 0 ≤ a.v.dims[sd] := hpos _ (by rw [hdrop]; simp)
    have hlen : lenI a.v (sd : Int) = .ok a.v.dims[sd] := by
      simp [lenI, View.len, List.getElem?_eq_getElem hsd]
    have hlast : ((sd : Int) = ((a.v.ndims : Nat) : Int) - 1) := by
      simp only [View.ndims]; omega
    unfold jsonSafeArrayF
    simp only [hlen, bind, Except.bind, pure, Except.pure]
    rw [if_neg (by omega)]
    rw [hdrop]
    simp only [nest]
    apply mapM_ok
    intro i hi
    have hi' : i < a.v.dims[sd].toNat := by simpa using hi
    simp only [Int.toNat_natCast]
    rw [if_pos hlast]
    have hfrom : (a.v.newIndex 0).set sd (i : Int) = uniform sd 0 ++ [(i : Int)] := by
      simp only [View.newIndex, View.ndims]
      rw [← hn]
      exact uniform_set_last sd i
    rw [hfrom, hget [(i : Int)] (by rw [hdrop]; simp [InBounds]; omega)]
  | succ k ih =>
    intro fuel a sd g r hn hfuel hpos hget
    obtain ⟨f, rfl⟩ : ∃ f, fuel = f + 1 := ⟨fuel - 1, by omega⟩
    have hsd : sd < a.v.dims.length := by omega
    have hsd1 : sd + 1 < a.v.dims.length := by omega
    have hdrop1 : a.v.dims.drop sd = a.v.dims[sd] :: a.v.dims.drop (sd + 1) := drop_eq_cons_of_lt hsd
    have hdrop2 : a.v.dims.drop (sd + 1) = a.v.dims[sd + 1] :: a.v.dims.drop (sd + 2) := drop_eq_cons_of_lt hsd1
    have hd0 : 0 ≤ a.v.dims[sd] := hpos _ (by rw [hdrop1]; exact List.mem_cons_self)
    have hlen : lenI a.v (sd : Int) = .ok a.v.dims[sd] := by
      simp [lenI, View.len, List.getElem?_eq_getElem hsd]
    have hnotlast : ¬ ((sd : Int) = ((a.v.ndims : Nat) : Int) - 1) := by
      simp only [View.ndims]; omega
    unfold jsonSafeArrayF
    simp only [hlen, bind, Except.bind, pure, Except.pure]
    rw [if_neg (by omega)]
    rw [hdrop1, hdrop2]
    simp only [nest]
    rw [← hdrop2]
    apply mapM_ok
    intro i hi
    have hi' : i < a.v.dims[sd].toNat := by simpa using hi
    simp only [Int.toNat_natCast]
    rw [if_neg hnotlast]
    have hfl : ((a.v.newIndex 0).set sd (i : Int)).length = a.v.dims.length := by
      simp [View.newIndex, View.ndims]
    rw [slice_iter r _ _ hfl]
    obtain ⟨rsub, hsl, hdropsub, hgetsub⟩ := iterSub_props h r hsd i
    have key := ih f (iterSub a sd i) (sd + 1) (fun t => g ((i : Int) :: t)) rsub
      (by rw [hsl]; omega) (by omega)
      (by rw [hdropsub]; intro d hd; exact hpos d (by rw [hdrop1]; exact List.mem_cons_of_mem _ hd))
      (by
        intro tail hb
        rw [hdropsub] at hb
        have hlt : tail.length = a.v.dims.length - (sd + 1) := by
          rw [hb.length, List.length_drop]
        rw [hgetsub tail hlt]
        apply hget
        rw [hdrop1]; simp only [InBounds_cons]; exact ⟨by omega, by omega, hb⟩)
    have hcast : ((sd : Int) + 1) = ((sd + 1 : Nat) : Int) := by omega
    rw [hcast]
    rw [hdropsub] at key
    have key' : jsonSafeArrayF h f (subArr a ((fillTo a.v.dims sd).set sd (i : Int))
        (a.v.start + dot ((a.v.newIndex 0).set sd (i : Int)) a.v.offStep)) ((sd + 1 : Nat) : Int) = _ := key
    simp only [key']

omit [JNum α] in
/-- in-bounds tail index, padded with zeros on the left, is an in-bounds index of the view -/
theorem inBounds_pad : ∀ (sd : Nat) (dims tail : Idx), Pos dims → InBounds tail (dims.drop sd) →
    sd ≤ dims.length → InBounds (uniform sd 0 ++ tail) dims
  | 0, dims, tail, _, h, _ => by simpa [uniform] using h
  | sd + 1, [], tail, _, _, hl => by simp at hl
  | sd + 1, d :: ds, tail, hp, h, hl => by
    have h1 : 1 ≤ d := hp d (by simp)
    have ih := inBounds_pad sd ds tail (fun x hx => hp x (by simp [hx])) (by simpa using h) (by simpa using hl)
    simp only [uniform_succ, List.cons_append, InBounds_cons]
    exact ⟨by omega, by omega, ih⟩

end
end OW.Sim.Json
