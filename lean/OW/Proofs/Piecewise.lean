import OW.Util.Piecewise
import OW.Proofs.RealNum
import Mathlib.Tactic.Linarith
import Mathlib.Tactic.NormNum
import Mathlib.Tactic.Ring
import Mathlib.Data.List.Basic
/-! Helper lemmas about the `Piecewise` model. -/
namespace OW.Proofs.Piecewise
open OW OW.Fn

/-- the search loop stops at the first table value `≥ x` -/
theorem bracketLoop_found {α} [Num α] (x : α) :
    ∀ (a : List α) (v : α) (c : List α) (j : Nat), (∀ u ∈ a, ¬ x ≤ u) → x ≤ v →
      bracketLoop x (a ++ v :: c) j = some (j + a.length - 1, j + a.length) := by
  intro a
  induction a with
  | nil =>
    intro v c j _ hv
    simp [bracketLoop, hv]
  | cons u a ih =>
    intro v c j ha hv
    have hu : ¬ x ≤ u := ha u (List.mem_cons_self ..)
    simp only [List.cons_append, bracketLoop, if_neg hu]
    rw [ih v c (j + 1) (fun w hw => ha w (List.mem_cons_of_mem _ hw)) hv]
    simp only [List.length_cons]
    congr 2 <;> omega

/-- if no comparison `x ≤ v` succeeds the loop falls through -/
theorem bracketLoop_none {α} [Num α] (x : α) :
    ∀ (l : List α) (j : Nat), (∀ u ∈ l, ¬ x ≤ u) → bracketLoop x l j = none := by
  intro l
  induction l with
  | nil => intro j _; rfl
  | cons u l ih =>
    intro j h
    simp only [bracketLoop, if_neg (h u (List.mem_cons_self ..))]
    exact ih (j + 1) (fun w hw => h w (List.mem_cons_of_mem _ hw))

/-- index form of "strictly increasing" -/
theorem sorted_getElem {xs : List ℝ} (h : xs.Pairwise (· < ·)) {i j : Nat} (hj : j < xs.length) (hij : i < j) :
    xs[i]'(lt_trans hij hj) < xs[j] :=
  (List.pairwise_iff_getElem.mp h) i j (lt_trans hij hj) hj hij

theorem getLast_eq_getElem (xs : List ℝ) (hne : xs ≠ []) :
    xs.getLast hne = xs[xs.length - 1]'(by have := List.length_pos_of_ne_nil hne; omega) := by
  rw [List.getLast_eq_getElem]

/-- `brackets` on a strictly increasing table: `j` is the first index ≥ 1 whose knot is `≥ x` -/
theorem brackets_found {xs : List ℝ} (x : ℝ) (j : Nat) (hj1 : 1 ≤ j) (hj : j < xs.length)
    (h0 : ¬ x < xs[0]'(by omega)) (hlast : ¬ xs[xs.length - 1]'(by omega) < x)
    (hbelow : ∀ i (_hi1 : 1 ≤ i) (hij : i < j), xs[i]'(by omega) < x) (hx : x ≤ xs[j]) :
    brackets x xs = .ok (some (j - 1, j)) := by
  match xs, hj, h0, hlast, hbelow, hx with
  | x0 :: rest, hj, h0, hlast, hbelow, hx =>
    have hne : (x0 :: rest) ≠ [] := by simp
    simp only [brackets]
    have h0' : ¬ x < x0 := by simpa using h0
    rw [if_neg h0']
    have hl : (x0 :: rest).getLast?.getD x0 = (x0 :: rest)[(x0 :: rest).length - 1]'(by simp) := by
      rw [List.getLast?_eq_some_getLast hne, Option.getD_some, List.getLast_eq_getElem]
    simp only [hl]
    rw [if_neg hlast]
    -- decompose rest around index j-1
    have hjr : j - 1 < rest.length := by simp only [List.length_cons] at hj; omega
    have hdec : rest = rest.take (j - 1) ++ rest[j - 1] :: rest.drop j := by
      have h1 : rest.drop (j - 1) = rest[j - 1] :: rest.drop (j - 1 + 1) := by
        rw [List.drop_eq_getElem_cons hjr]
      have h2 : j - 1 + 1 = j := by omega
      rw [h2] at h1
      rw [← h1, List.take_append_drop]
    have hlen : (rest.take (j - 1)).length = j - 1 := by
      rw [List.length_take]; omega
    have hxj : x ≤ rest[j - 1] := by
      have : (x0 :: rest)[j] = rest[j - 1] := by
        cases j with
        | zero => omega
        | succ k => simp
      rw [← this]; exact hx
    have hall : ∀ u ∈ rest.take (j - 1), ¬ x ≤ u := by
      intro u hu
      obtain ⟨i, hi, rfl⟩ := List.mem_iff_getElem.mp hu
      rw [hlen] at hi
      rw [List.getElem_take]
      have := hbelow (i + 1) (by omega) (by omega)
      simp only [List.getElem_cons_succ] at this
      exact not_le.mpr this
    have := bracketLoop_found x (rest.take (j - 1)) rest[j - 1] (rest.drop j) 1 hall hxj
    rw [← hdec, hlen] at this
    rw [this]
    congr 3 <;> omega


section
variable {xs ys : List ℝ}

/-- the linear interpolant between knots `i` and `j` -/
noncomputable def interp (xs ys : List ℝ) (i j : Nat) (hi : i < xs.length) (hj : j < xs.length) (hyi : i < ys.length)
    (hyj : j < ys.length) (x : ℝ) : ℝ :=
  ys[i] + (x - xs[i]) / (xs[j] - xs[i]) * (ys[j] - ys[i])

/-- `Piecewise` once the bracketing pair is known -/
theorem piecewise_of_brackets {x : ℝ} {i j : Nat} (hb : brackets x xs = .ok (some (i, j)))
    (hi : i < xs.length) (hj : j < xs.length) (hyi : i < ys.length) (hyj : j < ys.length) :
    piecewise x xs ys =
      if x = xs[j] then .val ys[j]
      else if (ys[i] ≤ ys[j] ∧ ys[j] < interp xs ys i j hi hj hyi hyj x) ∨
              (ys[j] ≤ ys[i] ∧ interp xs ys i j hi hj hyi hyj x < ys[j]) then .val ys[j]
      else .val (interp xs ys i j hi hj hyi hyj x) := by
  unfold piecewise interp
  rw [hb]
  simp only [List.getElem?_eq_getElem hi, List.getElem?_eq_getElem hj, List.getElem?_eq_getElem hyi,
    List.getElem?_eq_getElem hyj, RealNum.feq_eq]

end

end OW.Proofs.Piecewise
