import OW.Proofs.NdC02Ints
import OW.Proofs.NdGeo
/-!
Helper lemmas for C02, Part B: the `Contiguous()` loop.

Per dimension `(d, D, s, o)` = view extent, allocated extent, cumulative step, root stride.
* `loopState` — the state `(contiguousOffset, dimsMustBeOne)` of the Go loop after it has processed a suffix of the
  dimensions without returning (`none` = it has returned false); a right fold, i.e. the loop from the last dimension.
* `contigLoop_bridge` — `View.contigLoop` computes `loopState`.
* `Dense` — the arithmetic meaning; Lemma A `loopState_dense`; Lemma B `dense_iff_addr`.
-/
namespace OW.NdC02
open OW.Nd

/-! ### per-dimension hypotheses and the dense predicate -/

/-- per-dimension facts of a reachable view: `1 ≤ d ≤ D`, `s ≥ 1` (parallel lists dims / orig / step) -/
def GeoL : Idx → Idx → Idx → Prop
  | [], [], [] => True
  | d :: ds, D :: Ds, s :: ss => 1 ≤ d ∧ d ≤ D ∧ 1 ≤ s ∧ GeoL ds Ds ss
  | _, _, _ => False

/-- a dimension with more than one element has step 1 and all later dimensions are taken whole -/
def Dense : Idx → Idx → Idx → Prop
  | d :: ds, _ :: Ds, s :: ss => Dense ds Ds ss ∧ (d > 1 → s = 1 ∧ ds = Ds)
  | _, _, _ => True

/-- `(contiguousOffset, dimsMustBeOne)` after the loop has run over these (trailing) dimensions; `none` = returned false -/
def loopState : Idx → Idx → Idx → Idx → Option (Int × Bool)
  | d :: ds, D :: Ds, s :: ss, o :: os =>
    match loopState ds Ds ss os with
    | none => none
    | some (co, must) =>
      if d > 1 ∧ (must = true ∨ s > 1 ∨ o > co) then none else some (co * d, must || (d != D))
  | _, _, _, _ => some (1, false)

theorem GeoL.lengths {ds Ds ss : Idx} (h : GeoL ds Ds ss) : Ds.length = ds.length ∧ ss.length = ds.length := by
  induction ds generalizing Ds ss with
  | nil => cases Ds <;> cases ss <;> simp_all [GeoL]
  | cons d ds ih =>
    cases Ds with
    | nil => simp [GeoL] at h
    | cons D Ds => cases ss with
      | nil => simp [GeoL] at h
      | cons s ss =>
        simp only [GeoL] at h
        have := ih h.2.2.2
        simp [this.1, this.2]

theorem GeoL.pos {ds Ds ss : Idx} (h : GeoL ds Ds ss) : Pos ds := by
  induction ds generalizing Ds ss with
  | nil => intro x hx; simp at hx
  | cons d ds ih =>
    cases Ds with
    | nil => simp [GeoL] at h
    | cons D Ds => cases ss with
      | nil => simp [GeoL] at h
      | cons s ss =>
        simp only [GeoL] at h
        exact pos_cons h.1 (ih h.2.2.2)

theorem GeoL.posOrig {ds Ds ss : Idx} (h : GeoL ds Ds ss) : Pos Ds := by
  induction ds generalizing Ds ss with
  | nil => cases Ds <;> cases ss <;> simp_all [GeoL]; intro x hx; simp at hx
  | cons d ds ih =>
    cases Ds with
    | nil => simp [GeoL] at h
    | cons D Ds => cases ss with
      | nil => simp [GeoL] at h
      | cons s ss =>
        simp only [GeoL] at h
        exact pos_cons (by omega) (ih h.2.2.2)

/-- pointwise `d ≤ D` gives `Π d ≤ Π D`, with equality only if the lists are equal -/
theorem GeoL.prod_le {ds Ds ss : Idx} (h : GeoL ds Ds ss) :
    product ds ≤ product Ds ∧ (product ds = product Ds → ds = Ds) := by
  induction ds generalizing Ds ss with
  | nil => cases Ds <;> cases ss <;> simp_all [GeoL]
  | cons d ds ih =>
    cases Ds with
    | nil => simp [GeoL] at h
    | cons D Ds => cases ss with
      | nil => simp [GeoL] at h
      | cons s ss =>
        simp only [GeoL] at h
        obtain ⟨h1, h2, _, h4⟩ := h
        obtain ⟨le, eq⟩ := ih h4
        have p1 := product_pos h4.pos
        have p2 := product_pos h4.posOrig
        simp only [product_cons]
        constructor
        · nlinarith
        · intro e
          have hp : product ds = product Ds := by
            by_contra hne
            have : product ds < product Ds := by omega
            nlinarith
          have hd : d = D := by
            rw [hp] at e
            exact Int.eq_of_mul_eq_mul_right (by omega) e
          rw [hd, eq hp]

/-! ### Lemma A: the loop returns true iff `Dense` -/

theorem loopState_dense {ds Ds ss : Idx} (h : GeoL ds Ds ss) :
    (Dense ds Ds ss → loopState ds Ds ss (offsetsT Ds) = some (product ds, decide (ds ≠ Ds))) ∧
    (¬ Dense ds Ds ss → loopState ds Ds ss (offsetsT Ds) = none) := by
  induction ds generalizing Ds ss with
  | nil => cases Ds <;> cases ss <;> simp_all [GeoL, loopState, Dense]
  | cons d ds ih =>
    cases Ds with
    | nil => simp [GeoL] at h
    | cons D Ds => cases ss with
      | nil => simp [GeoL] at h
      | cons s ss =>
        simp only [GeoL] at h
        obtain ⟨h1, h2, h3, h4⟩ := h
        obtain ⟨ihd, ihn⟩ := ih h4
        rw [offsetsT_cons]
        simp only [loopState, Dense]
        by_cases hD : Dense ds Ds ss
        · rw [ihd hD]
          simp only
          by_cases hgt : d > 1
          · by_cases heq : ds = Ds
            · subst heq
              by_cases hs : s > 1
              · constructor
                · intro hh; have := (hh.2 hgt).1; omega
                · intro _; rw [if_pos ⟨hgt, Or.inr (Or.inl hs)⟩]
              · have hs1 : s = 1 := by omega
                constructor
                · intro _
                  rw [if_neg (by simp [hs]), Int.mul_comm]
                  by_cases hdD : d = D <;> simp [hdD]
                · intro hh; exact absurd ⟨hD, fun _ => ⟨hs1, rfl⟩⟩ hh
            · constructor
              · intro hh; exact absurd (hh.2 hgt).2 heq
              · intro _; rw [if_pos ⟨hgt, Or.inl (by simp [heq])⟩]
          · have hd1 : d = 1 := by omega
            constructor
            · intro _
              rw [if_neg (by intro hh; exact hgt hh.1), Int.mul_comm]
              by_cases hdD : d = D <;> by_cases heq : ds = Ds <;> simp [hdD, heq]
            · intro hh; exact absurd ⟨hD, fun g => absurd g hgt⟩ hh
        · rw [ihn hD]
          constructor
          · intro hh; exact absurd hh.1 hD
          · intro _; rfl

/-! ### Lemma B: `Dense` iff the address of every in-bounds index is its row-major rank -/

theorem dense_addr {ds Ds ss : Idx} (h : GeoL ds Ds ss) (hD : Dense ds Ds ss) :
    ∀ idx, InBounds idx ds → dot idx (mulL ss (offsetsT Ds)) = ravel idx ds := by
  induction ds generalizing Ds ss with
  | nil =>
    intro idx hi
    cases idx with
    | nil => simp [ravel]
    | cons _ _ => simp [InBounds] at hi
  | cons d ds ih =>
    cases Ds with
    | nil => simp [GeoL] at h
    | cons D Ds => cases ss with
      | nil => simp [GeoL] at h
      | cons s ss =>
        simp only [GeoL] at h
        obtain ⟨h1, h2, h3, h4⟩ := h
        simp only [Dense] at hD
        intro idx hi
        cases idx with
        | nil => simp [InBounds] at hi
        | cons i is =>
          simp only [InBounds] at hi
          obtain ⟨i0, i1, i2⟩ := hi
          rw [offsetsT_cons]
          simp only [mulL_cons, dot_cons, ravel]
          rw [ih h4 hD.1 is i2]
          by_cases hgt : d > 1
          · obtain ⟨hs, heq⟩ := hD.2 hgt
            subst hs; subst heq; simp
          · have : i = 0 := by omega
            subst this; simp

theorem addr_dense {ds Ds ss : Idx} (h : GeoL ds Ds ss)
    (ha : ∀ idx, InBounds idx ds → dot idx (mulL ss (offsetsT Ds)) = ravel idx ds) : Dense ds Ds ss := by
  induction ds generalizing Ds ss with
  | nil => cases Ds <;> cases ss <;> simp_all [GeoL, Dense]
  | cons d ds ih =>
    cases Ds with
    | nil => simp [GeoL] at h
    | cons D Ds => cases ss with
      | nil => simp [GeoL] at h
      | cons s ss =>
        simp only [GeoL] at h
        obtain ⟨h1, h2, h3, h4⟩ := h
        simp only [Dense]
        constructor
        · apply ih h4
          intro is hi
          have := ha (0 :: is) (by simp only [InBounds]; exact ⟨by omega, by omega, hi⟩)
          rw [offsetsT_cons] at this
          simpa [ravel] using this
        · intro hgt
          have hz := inBounds_zeros h4.pos
          have := ha (1 :: uniform ds.length 0) (by simp only [InBounds]; exact ⟨by omega, by omega, hz⟩)
          rw [offsetsT_cons] at this
          simp only [mulL_cons, dot_cons, ravel, dot_zeros, ravel_zeros] at this
          have e : s * product Ds = product ds := by omega
          obtain ⟨le, eq⟩ := h4.prod_le
          have p1 := product_pos h4.pos
          have p2 := product_pos h4.posOrig
          have hs : s = 1 := by
            by_contra hne
            have : 2 ≤ s := by omega
            nlinarith
          subst hs
          exact ⟨rfl, eq (by omega)⟩

theorem dense_iff_addr {ds Ds ss : Idx} (h : GeoL ds Ds ss) :
    Dense ds Ds ss ↔ ∀ idx, InBounds idx ds → dot idx (mulL ss (offsetsT Ds)) = ravel idx ds :=
  ⟨dense_addr h, addr_dense h⟩

/-! ### the Go loop computes `loopState` -/

theorem loopState_none_prop (a b c e : Idx) (i : Nat) (ha : i ≤ a.length) (hb : b.length = a.length)
    (hc : c.length = a.length) (he : e.length = a.length)
    (hn : loopState (a.drop i) (b.drop i) (c.drop i) (e.drop i) = none) : loopState a b c e = none := by
  induction i with
  | zero => simpa using hn
  | succ i ih =>
    apply ih (by omega)
    rw [List.drop_eq_getElem_cons (by omega : i < a.length), List.drop_eq_getElem_cons (by omega : i < b.length),
      List.drop_eq_getElem_cons (by omega : i < c.length), List.drop_eq_getElem_cons (by omega : i < e.length)]
    simp only [loopState, hn]

theorem contigLoop_bridge (v : View) (hb : v.orig.length = v.dims.length)
    (hc : v.step.length = v.dims.length) (he : v.offset.length = v.dims.length) :
    ∀ i, i ≤ v.dims.length → ∀ co must,
      loopState (v.dims.drop i) (v.orig.drop i) (v.step.drop i) (v.offset.drop i) = some (co, must) →
      v.contigLoop i co must = .ok (loopState v.dims v.orig v.step v.offset).isSome := by
  intro i
  induction i with
  | zero =>
    intro _ co must hs
    simp only [List.drop_zero] at hs
    simp [View.contigLoop, hs]
  | succ i ih =>
    intro hi co must hs
    have e1 := List.drop_eq_getElem_cons (by omega : i < v.dims.length)
    have e2 := List.drop_eq_getElem_cons (by omega : i < v.orig.length)
    have e3 := List.drop_eq_getElem_cons (by omega : i < v.step.length)
    have e4 := List.drop_eq_getElem_cons (by omega : i < v.offset.length)
    have g1 : v.dims[i]? = some v.dims[i] := List.getElem?_eq_getElem (by omega)
    have g2 : v.orig[i]? = some v.orig[i] := List.getElem?_eq_getElem (by omega)
    have g3 : v.step[i]? = some v.step[i] := List.getElem?_eq_getElem (by omega)
    have g4 : v.offset[i]? = some v.offset[i] := List.getElem?_eq_getElem (by omega)
    have hstep : loopState (v.dims.drop i) (v.orig.drop i) (v.step.drop i) (v.offset.drop i) =
        (if v.dims[i] > 1 ∧ (must = true ∨ v.step[i] > 1 ∨ v.offset[i] > co) then none
         else some (co * v.dims[i], must || (v.dims[i] != v.orig[i]))) := by
      rw [e1, e2, e3, e4]; simp only [loopState, hs]
    have hnone := loopState_none_prop v.dims v.orig v.step v.offset i (by omega) hb hc he
    have hsome := ih (by omega)
    generalize v.dims[i] = d at *
    generalize v.orig[i] = D at *
    generalize v.step[i] = s at *
    generalize v.offset[i] = o at *
    simp only [View.contigLoop, g1, g2, g3, g4]
    by_cases hgt : d > 1
    · rw [if_pos hgt]
      cases must with
      | true =>
        rw [if_pos ⟨hgt, Or.inl rfl⟩] at hstep
        simp [hnone hstep]
      | false =>
        by_cases hs1 : s > 1
        · rw [if_pos ⟨hgt, Or.inr (Or.inl hs1)⟩] at hstep
          simp [hs1, hnone hstep]
        · by_cases ho : o > co
          · rw [if_pos ⟨hgt, Or.inr (Or.inr ho)⟩] at hstep
            simp [hs1, ho, hnone hstep]
          · rw [if_neg (by simp [hs1, ho])] at hstep
            simp only [Bool.false_eq_true, ↓reduceIte, hs1, ho]
            exact hsome _ _ hstep
    · rw [if_neg (fun hh => hgt hh.1)] at hstep
      rw [if_neg hgt]
      exact hsome _ _ hstep

/-! ### from the structural invariant of agentG's `NdGeo` -/

theorem geoL_of_sliceOK {Ds b ds ss : Idx} (h : SliceOK Ds b ds ss) : GeoL ds Ds ss := by
  induction ds generalizing Ds b ss with
  | nil => cases Ds <;> cases b <;> cases ss <;> simp_all [SliceOK, GeoL]
  | cons d ds ih =>
    cases Ds with
    | nil => cases b <;> cases ss <;> simp [SliceOK] at h
    | cons D Ds => cases b with
      | nil => cases ss <;> simp [SliceOK] at h
      | cons b0 bs => cases ss with
        | nil => simp [SliceOK] at h
        | cons s ss =>
          simp only [SliceOK] at h
          obtain ⟨h0, h1, h2, h3, h4⟩ := h
          simp only [GeoL]
          refine ⟨h1, ?_, h2, ih h4⟩
          have : (d - 1) * 1 ≤ (d - 1) * s := Int.mul_le_mul_of_nonneg_left h2 (by omega)
          omega

theorem geoL_of_geo {v : View} (g : Geo v) : GeoL v.dims v.orig v.step := by
  obtain ⟨b, hb, _⟩ := g.box
  exact geoL_of_sliceOK hb

/-- `Contiguous()` never panics on a `Geo` view and returns whether the view is `Dense` -/
theorem contiguous_eq {v : View} (g : Geo v) :
    (Dense v.dims v.orig v.step → v.contiguous = .ok true) ∧
    (¬ Dense v.dims v.orig v.step → v.contiguous = .ok false) := by
  have gl := geoL_of_geo g
  have hb := contigLoop_bridge v g.rank_orig g.rank_step g.rank_offset v.dims.length (Nat.le_refl _) 1 false
    (by rw [List.drop_length, List.drop_eq_nil_of_le (by rw [g.rank_orig]),
          List.drop_eq_nil_of_le (by rw [g.rank_step]),
          List.drop_eq_nil_of_le (by rw [g.rank_offset])]; rfl)
  unfold View.contiguous
  rw [hb, g.offset_eq]
  obtain ⟨hd, hn⟩ := loopState_dense gl
  exact ⟨fun h => by rw [hd h]; rfl, fun h => by rw [hn h]; rfl⟩

theorem contiguous_iff_geo {v : View} (g : Geo v) :
    (v.contiguous = .ok true ↔
      ∀ k, 0 ≤ k → k < v.size → v.index (unravel k v.dims) = .ok (v.start + k)) ∧
    (∃ b, v.contiguous = .ok b) := by
  have gl := geoL_of_geo g
  obtain ⟨hd, hn⟩ := contiguous_eq g
  have hB := dense_iff_addr gl
  constructor
  · constructor
    · intro hc k k0 k1
      have hD : Dense v.dims v.orig v.step := by
        by_contra hne
        rw [hn hne] at hc
        exact absurd hc (by simp)
      have ib := unravel_inBounds gl.pos k0 k1
      rw [index_eq g _ (by rw [unravel_length]), g.offset_eq, hB.mp hD _ ib,
        ravel_unravel gl.pos k0 k1]
    · intro ha
      apply hd
      apply hB.mpr
      intro idx ib
      have ⟨r0, r1⟩ := ravel_bounds ib
      have := ha (ravel idx v.dims) r0 r1
      rw [unravel_ravel ib, index_eq g _ (by rw [inBounds_length ib]), g.offset_eq] at this
      injection this with this
      omega
  · by_cases hD : Dense v.dims v.orig v.step
    · exact ⟨true, hd hD⟩
    · exact ⟨false, hn hD⟩

end OW.NdC02
